"""Predicates naming the input classes of open known findings (known_findings.json `pred`).
Each takes the case line and returns True when the case belongs to the class."""


def _arrays(case):
    out = []
    for t in case.split(" ")[1:]:
        if t.startswith("a") and ":" in t:
            d = t[1:].split(":")[0]
            out.append([int(x) for x in d.split("x")] if d else [])
    return out


def hstack_widths_differ(case):
    """hstack whose inputs, promoted to rank >= 2, agree on every axis except axis 1 and differ on axis 1"""
    shs = _arrays(case)
    if not shs or all(len(s) == 1 for s in shs):
        return False
    shs = [[1, s[0]] if len(s) == 1 else ([1, 1] if len(s) == 0 else s) for s in shs]
    if len({len(s) for s in shs}) != 1:
        return False
    rest = {tuple(s[:1] + s[2:]) for s in shs}
    widths = {s[1] for s in shs}
    return len(rest) == 1 and len(widths) > 1


PREDICATES = {"hstack_widths_differ": hstack_widths_differ}


def matmul_rows_ne_cols(case):
    """2-D x 2-D product (or equally shaped stacks of matrices) whose inner dimensions agree but rows(a) != cols(b)"""
    shs = _arrays(case)
    if len(shs) != 2 or len(shs[0]) < 2 or len(shs[1]) < 2:
        return False
    a, b = shs
    return a[-1] == b[-2] and a[-2] != b[-1]


PREDICATES["matmul_rows_ne_cols"] = matmul_rows_ne_cols

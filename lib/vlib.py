"""Shared machinery of /verif/bin/check: proof step, build step, correspondence step,
shrinking, known findings, evidence.  python3 stdlib only."""
import fcntl, hashlib, json, os, re, subprocess, sys, time, random

ROOT = os.path.dirname(os.path.dirname(os.path.abspath(__file__)))
WORK = os.path.join(ROOT, "_work")
COQ = os.path.join(ROOT, "coq")
HARNESS = os.path.join(ROOT, "harness")
HARNESS_BIN = os.path.join(HARNESS, "target", "debug", "arr-rs-verif-harness")
HARNESS_BIN_REL = os.path.join(HARNESS, "target", "release", "arr-rs-verif-harness")
EVAL_BIN = os.path.join(ROOT, "eval", "_build", "evaluator")
ENV = dict(os.environ, CARGO_NET_OFFLINE="true")

FORBIDDEN = re.compile(r"\b(Admitted|admit|Axiom|Axioms|Parameter|Parameters|Conjecture|Conjectures|Admit Obligations|"
                       r"Unset Guard Checking|Unset Positivity Checking|Unset Universe Checking|bypass_check|"
                       r"type-in-type|impredicative-set|native_compute)\b")
SECTION_ONLY = re.compile(r"^\s*(Variable|Variables|Hypothesis|Hypotheses|Context)\b")

TRUSTED_BASE = [
    "Coq 8.16.1 kernel (coqc, full .vo build; vm_compute used, native_compute not used)",
    "hand-written Gallina model coq/theories/*.v of the Rust code (modelled, not verified); tied to /repo "
    "only by the correspondence check of this run",
    "Rust std (Vec, slices, str, formatting, f64 arithmetic, `as` casts) modelled by Gallina definitions",
    "extraction: Require Extraction + ExtrOcamlBasic only (no Extract Constant / Extract Inductive of our own); "
    "OCaml 4.13.1 ocamlopt; eval/driver.ml (parsing/printing)",
    "Rust harness /verif/harness (dispatchers, catch_unwind, printing) and python3 glue (generators, comparison, "
    "watchdog, shrinker, evidence)",
]


def log(*a):
    print(*a, flush=True)


class Lock:
    def __init__(self, name):
        os.makedirs(WORK, exist_ok=True)
        self.path = os.path.join(WORK, name + ".lock")

    def __enter__(self):
        self.f = open(self.path, "w")
        fcntl.flock(self.f, fcntl.LOCK_EX)
        return self

    def __exit__(self, *a):
        fcntl.flock(self.f, fcntl.LOCK_UN)
        self.f.close()


def run(cmd, timeout, cwd=None, env=None):
    t0 = time.time()
    try:
        p = subprocess.run(cmd, cwd=cwd, env=env or ENV, timeout=timeout, stdout=subprocess.PIPE,
                           stderr=subprocess.STDOUT, text=True, errors="replace")
        return p.returncode, p.stdout, time.time() - t0
    except subprocess.TimeoutExpired as e:
        out = e.stdout if isinstance(e.stdout, str) else (e.stdout or b"").decode(errors="replace")
        return 124, out + "\n[timeout]", time.time() - t0


# ---------------------------------------------------------------- proof step

def strip_comments(src):
    out, depth, i = [], 0, 0
    while i < len(src):
        if src.startswith("(*", i):
            depth += 1; i += 2
        elif src.startswith("*)", i) and depth > 0:
            depth -= 1; i += 2
        else:
            if depth == 0:
                out.append(src[i])
            elif src[i] == "\n":
                out.append("\n")
            i += 1
    return "".join(out)


def scan_forbidden():
    """No Admitted/admit/Axiom/Parameter/Conjecture/guard switches anywhere; Variable/Hypothesis/Context
    only inside a Section."""
    problems = []
    for sub in ("theories", "props", "extract"):
        d = os.path.join(COQ, sub)
        for fn in sorted(os.listdir(d)):
            if not fn.endswith(".v"):
                continue
            src = strip_comments(open(os.path.join(d, fn)).read())
            depth = 0
            for ln, line in enumerate(src.split("\n"), 1):
                if re.match(r"^\s*(Section|Module)\b", line):
                    depth += 1
                elif re.match(r"^\s*End\b", line):
                    depth = max(0, depth - 1)
                m = FORBIDDEN.search(line)
                if m:
                    problems.append(f"{sub}/{fn}:{ln}: forbidden `{m.group(1)}`")
                if SECTION_ONLY.match(line) and depth == 0:
                    problems.append(f"{sub}/{fn}:{ln}: Variable/Hypothesis/Context outside a Section")
    head = open(os.path.join(COQ, "_CoqProject.head")).read()
    if re.search(r"type-in-type|impredicative-set", head):
        problems.append("_CoqProject.head: forbidden flag")
    return problems


FINGERPRINT = os.path.join(ROOT, "repo_fingerprint.json")


def source_hashes():
    out = {}
    src = "/repo/src"
    for d, _, files in os.walk(src):
        for fn in files:
            if fn.endswith(".rs"):
                p = os.path.join(d, fn)
                out[os.path.relpath(p, "/repo")] = hashlib.sha256(open(p, "rb").read()).hexdigest()
    return out


def changed_sources():
    """files under /repo/src that differ from the committed fingerprint of the tree the model was validated against"""
    if not os.path.exists(FINGERPRINT):
        return []
    want = json.load(open(FINGERPRINT))["files"]
    have = source_hashes()
    return sorted(f for f in set(want) | set(have) if want.get(f) != have.get(f))


def theorems_of(prop):
    src = strip_comments(open(os.path.join(COQ, "props", prop + ".v")).read())
    return re.findall(r"^\s*Theorem\s+(\w+)", src, re.M)


def props_pin_ok(prop):
    """coq/props.pins records the sha256 of every props/Cxx.v: a statement cannot be weakened
    without also editing the pin file (both are committed)."""
    pins = {}
    p = os.path.join(COQ, "props.pins")
    if os.path.exists(p):
        for line in open(p):
            if line.strip():
                h, name = line.split()
                pins[name] = h
    h = hashlib.sha256(open(os.path.join(COQ, "props", prop + ".v"), "rb").read()).hexdigest()
    return pins.get(prop + ".v") == h, h


def proof_step(prop, tier, extra_vo=()):
    """Builds props/<prop>.vo (+ the model and extraction), prints assumptions of every property theorem
    afresh and compares with the allow list.  Returns dict."""
    info = {"ok": True, "problems": [], "theorems": [], "assumptions": {}, "wall_s": 0.0}
    t0 = time.time()
    with Lock("coq"):
        if tier == "thorough" and os.environ.get("VERIF_NO_CLEAN") != "1":
            run(["sh", "-c", "rm -f theories/*.vo theories/*.vos theories/*.vok theories/*.glob props/*.vo props/*.vos props/*.vok "
                 "props/*.glob extract/*.vo extract/*.glob theories/.*.aux props/.*.aux extract/.*.aux"], 60, cwd=COQ)
        targets = [f"props/{prop}.vo", "extract/Extract.vo", "theories/Show.vo"] + list(extra_vo)
        rc, out, _ = run([os.path.join(COQ, "build.sh")] + targets, 3000, cwd=COQ)
        if rc != 0:
            info["ok"] = False
            info["problems"].append("coq build failed:\n" + out[-3000:])
        rc2, out2, _ = run([os.path.join(ROOT, "eval", "build.sh")], 900)
        if rc2 != 0:
            info["ok"] = False
            info["problems"].append("evaluator build failed:\n" + out2[-3000:])
    probs = scan_forbidden()
    if probs:
        info["ok"] = False
        info["problems"] += probs
    okpin, h = props_pin_ok(prop)
    if not okpin:
        info["ok"] = False
        info["problems"].append(f"props/{prop}.v does not match coq/props.pins (sha256 {h})")
    thms = theorems_of(prop)
    info["theorems"] = thms
    if info["ok"]:
        wd = os.path.join(WORK, prop)
        os.makedirs(wd, exist_ok=True)
        av = os.path.join(wd, f"assum_{prop}.v")
        with open(av, "w") as f:
            f.write(f"From ArrRsProps Require Import {prop}.\n")
            for t in thms:
                f.write(f'Goal True. idtac "@@ {t}". exact I. Qed.\nPrint Assumptions {t}.\n')
        rc, out, _ = run(["coqc", "-noglob", "-Q", os.path.join(COQ, "theories"), "ArrRs", "-Q",
                          os.path.join(COQ, "props"), "ArrRsProps", av], 600, cwd=wd)
        if rc != 0:
            info["ok"] = False
            info["problems"].append("Print Assumptions run failed:\n" + out[-2000:])
        else:
            allow = json.load(open(os.path.join(COQ, "assumptions_allow.json")))
            chunks = out.split("@@ ")[1:]
            for ch in chunks:
                name, _, body = ch.partition("\n")
                body = body.strip()
                if body.startswith("Closed under the global context"):
                    info["assumptions"][name.strip()] = []
                else:
                    axs = re.findall(r"^(\S+)\s*:", body, re.M)
                    info["assumptions"][name.strip()] = axs
                    bad = [a for a in axs if a not in allow.get(prop, []) and a not in allow.get("*", [])]
                    if bad:
                        info["ok"] = False
                        info["problems"].append(f"{name.strip()} depends on non-allow-listed axioms {bad}")
            missing = [t for t in thms if t not in info["assumptions"]]
            if missing:
                info["ok"] = False
                info["problems"].append(f"no assumption report for {missing}")
        if tier == "thorough" and info["ok"] and os.environ.get("VERIF_NO_COQCHK") != "1":
            rc, out, _ = run(["coqchk", "-silent", "-o", "-Q", os.path.join(COQ, "theories"), "ArrRs", "-Q",
                              os.path.join(COQ, "props"), "ArrRsProps", f"ArrRsProps.{prop}"], 2400, cwd=COQ)
            info["coqchk"] = out[-1500:]
            if rc != 0:
                info["ok"] = False
                info["problems"].append("coqchk failed:\n" + out[-2000:])
    info["wall_s"] = time.time() - t0
    return info


# ---------------------------------------------------------------- build step

LIT_BIN = os.path.join(HARNESS, "target", "debug", "arr-rs-verif-lit")


def build_harness(release=False, bin_name="arr-rs-verif-harness"):
    with Lock("cargo"):
        lock_src = "/repo/Cargo.lock"
        lock_dst = os.path.join(HARNESS, "Cargo.lock")
        if os.path.exists(lock_src) and not os.path.exists(lock_dst):
            open(lock_dst, "wb").write(open(lock_src, "rb").read())
        cmd = ["cargo", "build", "--offline", "--quiet", "--bin", bin_name] + (["--release"] if release else [])
        env = dict(ENV, RUSTFLAGS=(ENV.get("RUSTFLAGS", "") + " --cfg arr_rs_verif -Awarnings").strip())
        rc, out, dt = run(cmd, 1800, cwd=HARNESS, env=env)
    return rc == 0, out, dt


# ---------------------------------------------------------------- running both sides

def run_model(case_file, out_file):
    with open(out_file, "w") as f:
        p = subprocess.run(["sh", "-c", f"ulimit -s unlimited 2>/dev/null; ulimit -v 10000000 2>/dev/null; exec '{EVAL_BIN}' '{case_file}'"],
                           stdout=f, stderr=subprocess.PIPE, timeout=1200)
    return [l.rstrip("\n") for l in open(out_file)]


def run_impl(case_file, out_file, n_lines, binary=None, hang_s=8.0):
    """Runs the harness under a watchdog: a case that produces no output for hang_s seconds is recorded
    as `hang`, the process is killed and restarted at the next case."""
    binary = binary or HARNESS_BIN
    results = []
    start = 0
    while start < n_lines:
        part = out_file + f".part{start}"
        with open(part, "w") as f:
            p = subprocess.Popen([binary, case_file, str(start)], stdout=f, stderr=subprocess.DEVNULL)
            last_size, last_change = -1, time.time()
            while True:
                try:
                    p.wait(timeout=0.05)
                    break
                except subprocess.TimeoutExpired:
                    pass
                sz = os.path.getsize(part)
                if sz != last_size:
                    last_size, last_change = sz, time.time()
                elif time.time() - last_change > hang_s:
                    p.kill(); p.wait()
                    break
        lines = open(part).read().split("\n")
        complete = lines[:-1]  # last element is "" after a trailing newline, or a partial line
        os.remove(part)
        results += complete
        start = len(results)
        if start < n_lines:
            if p.returncode == 0:
                # process ended normally but produced fewer lines: should not happen
                results += ["bad:short"] * (n_lines - start)
                break
            # killed (hang) or crashed (abort / stack overflow) while working on line `start`
            results.append("hang" if p.returncode in (-9, None) else f"crash({p.returncode})")
            start = len(results)
    with open(out_file, "w") as f:
        f.write("\n".join(results) + "\n")
    return results


ERR_CLASS = {"BroadcastShapeMismatch": "broadcast", "SingularMatrix": "singular"}


def canon(res):
    """Canonical form used for comparison: errors are compared by coarse class only."""
    def repl(m):
        return "err(" + ERR_CLASS.get(m.group(1), "other") + ")"
    return re.sub(r"err\((\w*)\)", repl, res)


def agree(case, a, b, hook=None):
    """Do implementation result a and model result b agree on this case?  A generator module may supply a
    hook for cases whose expected value is assembled from the model's placement and a scalar table."""
    if hook is not None:
        r = hook(case, a, b)
        if r is not None:
            return r
    return canon(a) == canon(b)


def compare(cases, impl, model, hook=None):
    """Returns list of (index, case, impl, model) where the two sides differ."""
    diffs = []
    for i, c in enumerate(cases):
        if not c or c.startswith("#"):
            continue
        a = impl[i] if i < len(impl) else "missing"
        b = model[i] if i < len(model) else "missing"
        if not agree(c, a, b, hook):
            diffs.append((i, c, a, b))
    return diffs


def parse_arr(res):
    """`arr(2x3:a,b,..)` / `parr(..)` -> (shape string, list of element strings) or None"""
    m = re.match(r"^p?arr\(([0-9x]*):(.*)\)$", res)
    if not m:
        return None
    return m.group(1), (m.group(2).split(",") if m.group(2) else [])


def _tokval(tok):
    import struct
    if tok == "nan":
        return float("nan")
    if tok in ("1", "0") or tok.lstrip("-").isdigit():
        return float(int(tok))
    if tok.startswith("f"):
        h = tok[1:]
        return struct.unpack(">f", bytes.fromhex(h))[0] if len(h) == 8 else struct.unpack(">d", bytes.fromhex(h))[0]
    return None


def res_type_hint(res, tbl):
    """'f32' when the table's float tokens are 8 hex digits wide"""
    for kv in tbl.split(";"):
        v = kv.partition("=")[2]
        if v.startswith("f") and len(v) == 9:
            return "f32"
    return "f64"


def ref_agree(tbl, ref, single, zero_sign=False, exact=False):
    """the library's scalar results (tbl) against independent reference values (ref; '?' = no reference): NaN with
    NaN, infinities exactly, finite values within a relative bound that does not pin the algorithm"""
    import math
    t = dict(kv.split("=") for kv in tbl.rstrip(")").split(";") if kv)
    r = dict(kv.split("=") for kv in ref.split(";") if kv)
    tol = 2e-6 if single else 1e-9
    big = 3e38 if single else 1.7e308
    for k, want in r.items():
        want, _, sc = want.partition("~")
        if want == "?" or k not in t or t[k] in ("E", "?"):
            continue
        if want == "big":                     # "a large finite number" (nan_to_num of an infinity)
            g = _tokval(t[k])
            if g is None or math.isnan(g) or math.isinf(g) or abs(g) < (1e38 if single else 1e300):
                return False
            continue
        w, g = _tokval(want), _tokval(t[k])
        sc = _tokval(sc) if sc else None
        if g is None or w is None:
            return False
        if math.isnan(w):
            if not math.isnan(g):
                return False
        elif math.isinf(w) or abs(w) > big:
            if not (math.isinf(g) and (g > 0) == (w > 0)):
                return False
        elif math.isnan(g) or math.isinf(g):
            return False
        elif zero_sign and w == 0.0 and g == 0.0 and math.copysign(1.0, w) != math.copysign(1.0, g):
            return False                      # the sign of a zero result is part of the function (abs(-0.0) = +0.0)
        elif exact and g != w:
            return False                      # whole-number valued functions (rint, floor, ..): no tolerance
        elif abs(g - w) > tol * max(abs(w), sc if (sc is not None and sc == sc and sc != float("inf")) else 0.0, 1e-300) \
                and abs(g - w) > (1e-37 if single else 1e-300):
            return False
    return True


def table_agree(impl, model, arity, zero_sign=False, exact=False):
    """impl = `arr(shape:v..)|tbl(k=v;..)` (or err/panic); model = parr/arr of labels.  The expected element at
    each position is the table entry of the label (pair) the model places there."""
    res, _, tbl = impl.partition("|tbl(")
    single = ")|ref32(" in tbl
    tbl, _, ref = tbl.partition(")|ref32(" if single else ")|ref(")
    if ref and not ref_agree(tbl, ref.rstrip(")"), single, zero_sign, exact):
        return False
    if not res.startswith("arr("):
        return canon(res) == canon(model)
    ia, ma = parse_arr(res), parse_arr(model)
    if ia is None or ma is None or ia[0] != ma[0] or len(ia[1]) != len(ma[1]):
        return False
    t = dict(kv.split("=") for kv in tbl.rstrip(")").split(";") if kv)
    for v, k in zip(ia[1], ma[1]):
        if t.get(k) != v:
            return False
    return True


def run_both(cases, wd, tag="cases", binary=None):
    os.makedirs(wd, exist_ok=True)
    cf = os.path.join(wd, tag + ".txt")
    with open(cf, "w") as f:
        f.write("\n".join(cases) + "\n")
    model = run_model(cf, os.path.join(wd, tag + ".model.txt"))
    impl = run_impl(cf, os.path.join(wd, tag + ".impl.txt"), len(cases), binary=binary)
    return impl, model


# ---------------------------------------------------------------- shrinking

def _tok_candidates(tok, relabel=True):
    """Smaller variants of one argument token."""
    kind, body = tok[0], tok[1:]
    out = []
    if kind == "z":
        v = int(body)
        for w in {0, v // 2, v - 1 if v > 0 else v + 1}:
            if w != v and abs(w) < abs(v):
                out.append("z" + str(w))
    elif kind == "l" and body:
        xs = body.split(",")
        for i in range(len(xs)):
            out.append("l" + ",".join(xs[:i] + xs[i + 1:]))
        for i, x in enumerate(xs):
            v = int(x)
            for w in {0, v // 2, v - 1 if v > 0 else v + 1}:
                if w != v and abs(w) < abs(v):
                    out.append("l" + ",".join(xs[:i] + [str(w)] + xs[i + 1:]))
    elif kind == "a":
        d, _, e = body.partition(":")
        dims = [int(x) for x in d.split("x")] if d else []
        es = [int(x) for x in e.split(",")] if e else []
        n = 1
        for x in dims:
            n *= x
        if len(es) == n:
            iota = es == list(range(n))
            for i in range(len(dims)):
                if dims[i] > 1 or (dims[i] == 1 and False):
                    nd = dims[:i] + [dims[i] - 1] + dims[i + 1:]
                    m = 1
                    for x in nd:
                        m *= x
                    ne = list(range(m)) if iota else es[:m]
                    out.append("a" + "x".join(map(str, nd)) + ":" + ",".join(map(str, ne)))
            for i in range(len(dims)):
                if dims[i] == 1 and len(dims) > 1:
                    nd = dims[:i] + dims[i + 1:]
                    out.append("a" + "x".join(map(str, nd)) + ":" + e)
            if not iota and relabel:
                out.append("a" + d + ":" + ",".join(map(str, range(n))))
    return out


def shrink(case, still_fails, budget=150):
    """Greedy delta-debugging over the tokens of a case line."""
    cur = case
    steps = 0
    improved = True
    while improved and steps < budget:
        improved = False
        toks = cur.split(" ")
        for i in range(1, len(toks)):
            for cand in _tok_candidates(toks[i], relabel=not toks[0].endswith("p")):
                steps += 1
                if steps > budget:
                    break
                trial = " ".join(toks[:i] + [cand] + toks[i + 1:])
                if still_fails(trial):
                    cur = trial
                    improved = True
                    break
            if improved or steps > budget:
                break
    return cur


# ---------------------------------------------------------------- known findings

def load_known(prop):
    p = os.path.join(ROOT, "known_findings.json")
    if not os.path.exists(p):
        return []
    data = json.load(open(p))
    return [k for k in data.get("findings", []) if k.get("property") == prop]


def known_match(k, case, impl, model):
    """An open finding matches a disagreement when the op name matches and the case line matches the
    finding's regular expression (the `class` of failing inputs) and the implementation's result matches
    its `impl` pattern (so a different misbehaviour on the same inputs is still reported)."""
    if k.get("status") != "open":
        return False
    op = case.split(" ")[0].split("@")[0]
    if k.get("op") and op not in k["op"].split("|"):
        return False
    if k.get("case_re") and not re.search(k["case_re"], case):
        return False
    if k.get("impl_re") and not re.search(k["impl_re"], impl):
        return False
    if k.get("model_re") and not re.search(k["model_re"], model):
        return False
    if k.get("pred"):
        import known
        if not known.PREDICATES[k["pred"]](case):
            return False
    return True


# ---------------------------------------------------------------- evidence

def nontrivial(case, res):
    """A case is non-trivial when its result is an array/list with >= 2 elements, or a scalar computed from
    an input with >= 2 elements, or an error/panic on an input that has at least one array or list argument."""
    if res.startswith(("arr(", "sarr(", "list(", "l(")):
        return res.count(",") >= 1 or res.count(";") >= 1
    if res.startswith(("z(", "s(", "b(", "q(", "f(")):
        return "," in case
    if res.startswith("err(") or res == "panic":
        return "," in case or "x" in case
    return False


def write_evidence(prop, tier, seed, proof, stats, wall, violations, extra=None):
    cov = {
        "obligations": len(proof["theorems"]) + 3,
        "discharged": (len(proof["theorems"]) + 3) if proof["ok"] else 0,
        "checker_cmd": f"coq/build.sh props/{prop}.vo extract/Extract.vo (full .vo build) && coqc assum_{prop}.v "
                       f"(Print Assumptions of every Theorem in props/{prop}.v vs coq/assumptions_allow.json)"
                       + (" && coqchk -o -silent" if tier == "thorough" else ""),
        "trusted_base": TRUSTED_BASE,
        "obligation_list": proof["theorems"] + ["forbidden-token scan of coq/", f"sha256 pin of props/{prop}.v",
                                                "evaluator rebuilt from fresh extraction"],
        "assumptions_per_theorem": proof["assumptions"],
        "proof_problems": proof["problems"],
        "proof_wall_s": round(proof["wall_s"], 2),
    }
    cov.update(stats)
    if extra:
        cov.update(extra)
    ev = {
        "property_id": prop, "tier": tier, "seed": seed, "level": "proof", "coverage": cov,
        "assumptions": [
            "theorems are about the Gallina model; model = code is checked by differential execution on the "
            "cases counted here (exhaustive small scope + seeded random), not proved",
            "axioms per theorem as printed by Print Assumptions are listed under coverage.assumptions_per_theorem",
        ],
        "wall_s": round(wall, 2), "violations": violations,
    }
    os.makedirs(os.path.join(ROOT, "evidence"), exist_ok=True)
    with open(os.path.join(ROOT, "evidence", prop + ".json"), "w") as f:
        json.dump(ev, f, indent=1)
        f.write("\n")


# ---------------------------------------------------------------- kernel anchor

def _coq_ints(xs):
    return "[" + "; ".join(f"({x})" for x in xs) + "]%Z"


def _coq_arr(body):
    d, _, e = body.partition(":")
    dims = [x for x in d.split("x") if x]
    es = [x for x in e.split(",") if x]
    return dims, es


def coq_args(tokens):
    """case-line tokens -> the Coq term `list arg` (None when a token cannot be translated)"""
    out, i = [], 0
    while i < len(tokens):
        t = tokens[i]
        k, body = t[0], t[1:]
        if k == "z":
            out.append(f"AZ ({int(body)})%Z")
        elif k == "n" and t == "n":
            out.append("AN")
        elif k == "l":
            out.append("AL " + _coq_ints([int(x) for x in body.split(",") if x]))
        elif k == "a":
            d, e = _coq_arr(body)
            out.append(f"AA {_coq_ints(d)} {_coq_ints(e)}")
        elif k == "s":
            b = bytes.fromhex(body)
            out.append("AS " + _coq_ints(list(b)))
        elif k == "A":
            d, _, e = body.partition(":")
            dims = [x for x in d.split("x") if x]
            strs = [x for x in e.split(",")] if e else []
            items = "; ".join(_coq_ints(list(bytes.fromhex(x[1:]))) for x in strs)
            out.append(f"ASA {_coq_ints(dims)} [{items}]")
        elif k == "L":
            n = int(body)
            arrs = []
            for j in range(n):
                d, e = _coq_arr(tokens[i + 1 + j][1:])
                arrs.append(f"({_coq_ints(d)}, {_coq_ints(e)})")
            out.append("AAs [" + "; ".join(arrs) + "]")
            i += n
        else:
            return None
        i += 1
    return "[" + "; ".join(out) + "]"


def kernel_anchor(prop, cases, model, wd, limit=120, seed=0):
    """Evaluates a sample of the cases inside Coq (vm_compute of Show.answer) and compares, character for character,
    with what the extracted OCaml evaluator printed.  Returns (checked, mismatches[(case, kernel, extracted)], note)."""
    rng = random.Random(seed)
    idx = [i for i, c in enumerate(cases) if c and not c.startswith("#") and len(c) < 1500 and not model[i].startswith("bad:")]
    rng.shuffle(idx)
    picked, lines = [], []
    for i in idx:
        toks = [t for t in cases[i].split(" ") if t]
        name = toks[0].split("@")[0]
        args = coq_args(toks[1:])
        if args is None or not re.fullmatch(r"[A-Za-z0-9_]+", name):
            continue
        picked.append(i)
        lines.append(f'Eval vm_compute in answer "{name}" {args}.')
        if len(picked) >= limit:
            break
    if not picked:
        return 0, [], "no translatable case"
    src = ("From Coq Require Import String List ZArith.\nFrom ArrRs Require Import Dispatch Show.\n"
           "Import ListNotations. Open Scope string_scope.\nSet Printing Width 10000000.\n" + "\n".join(lines) + "\n")
    path = os.path.join(wd, f"anchor_{prop}.v")
    open(path, "w").write(src)
    with Lock("coq"):
        rc, out, _ = run(["coqc", "-noglob", "-Q", os.path.join(COQ, "theories"), "ArrRs", path], 900, cwd=wd)
    if rc != 0:
        return 0, [("(anchor file)", "coqc failed: " + out[-400:], "-")], "coqc failed"
    got = re.findall(r'^\s*= "(.*)"\s*$', out, re.M)
    if len(got) != len(picked):
        return 0, [("(anchor file)", f"{len(got)} answers for {len(picked)} questions", "-")], "count mismatch"
    bad = [(cases[i], g, model[i]) for i, g in zip(picked, got) if g != model[i]]
    return len(picked), bad, "ok"

(* driver.ml — generic front end of the extracted model: reads case lines, calls
   Model.dispatch, prints one canonical result line per case.  No per-operation code. *)
open Model

let rec pos_of_int n = if n = 1 then XH else if n land 1 = 0 then XO (pos_of_int (n lsr 1)) else XI (pos_of_int (n lsr 1))
let z_of_small n = if n = 0 then Z0 else if n > 0 then Zpos (pos_of_int n) else Zneg (pos_of_int (-n))
let ten = z_of_small 10

(* decimal string -> Z (arbitrary size) *)
let z_of_string s =
  let neg = String.length s > 0 && s.[0] = '-' in
  let start = if neg || (String.length s > 0 && s.[0] = '+') then 1 else 0 in
  if String.length s - start <= 17 then z_of_small (int_of_string s)
  else begin
    let acc = ref Z0 in
    for i = start to String.length s - 1 do
      acc := Z.add (Z.mul !acc ten) (z_of_small (Char.code s.[i] - 48))
    done;
    if neg then Z.opp !acc else !acc
  end

let rec pos_bits = function XH -> 1 | XO p | XI p -> 1 + pos_bits p
let rec pos_to_int = function XH -> 1 | XO p -> 2 * pos_to_int p | XI p -> 2 * pos_to_int p + 1

let rec z_to_string z =
  match z with
  | Z0 -> "0"
  | Zpos p when pos_bits p <= 60 -> string_of_int (pos_to_int p)
  | Zneg p when pos_bits p <= 60 -> string_of_int (- (pos_to_int p))
  | Zneg p -> "-" ^ z_to_string (Zpos p)
  | Zpos _ ->
    let (q, r) = Z.div_eucl z ten in
    z_to_string q ^ z_to_string r

let rec nat_to_int = function O -> 0 | S n -> 1 + nat_to_int n
let nat_to_int n = (* tail recursive *)
  let rec go acc = function O -> acc | S m -> go (acc + 1) m in go 0 n

let coq_string_of s =
  let rec go i acc = if i < 0 then acc else
    let c = Char.code s.[i] in
    let b k = (c lsr k) land 1 = 1 in
    go (i - 1) (String (Ascii (b 0, b 1, b 2, b 3, b 4, b 5, b 6, b 7), acc)) in
  go (String.length s - 1) EmptyString

let split_on c s = if s = "" then [] else String.split_on_char c s
let ints s = List.map z_of_string (split_on ',' s)
let dims s = List.map z_of_string (split_on 'x' s)

let bytes_of_hex h =
  let n = String.length h / 2 in
  List.init n (fun i -> z_of_small (int_of_string ("0x" ^ String.sub h (2 * i) 2)))

let hex_of_bytes l =
  String.concat "" (List.map (fun z -> Printf.sprintf "%02x" (int_of_string (z_to_string z))) l)

let strs s = (* ".hex,.hex" *)
  List.map (fun t -> bytes_of_hex (String.sub t 1 (String.length t - 1))) (split_on ',' s)

let split2 s =
  match String.index_opt s ':' with
  | Some i -> (String.sub s 0 i, String.sub s (i + 1) (String.length s - i - 1))
  | None -> (s, "")

let parse_arr body = let (d, e) = split2 body in (dims d, ints e)

let rec parse_args toks =
  match toks with
  | [] -> []
  | t :: rest ->
    let body = String.sub t 1 (String.length t - 1) in
    (match t.[0] with
     | 'z' -> AZ (z_of_string body) :: parse_args rest
     | 'n' -> AN :: parse_args rest
     | 'l' -> AL (ints body) :: parse_args rest
     | 'a' -> let (d, e) = parse_arr body in AA (d, e) :: parse_args rest
     | 's' -> AS (bytes_of_hex body) :: parse_args rest
     | 'A' -> let (d, e) = split2 body in ASA (dims d, strs e) :: parse_args rest
     | 'L' ->
       let k = int_of_string body in
       let rec take k l acc = if k = 0 then (List.rev acc, l) else
           match l with
           | a :: l' -> take (k - 1) l' (parse_arr (String.sub a 1 (String.length a - 1)) :: acc)
           | [] -> failwith "short array list" in
       let (arrs, rest') = take k rest [] in
       AAs arrs :: parse_args rest'
     | _ -> failwith ("bad token " ^ t))

let err_name = function
  | EBroadcast -> "BroadcastShapeMismatch" | EConcat -> "ConcatenateShapeMismatch"
  | EShapeLen -> "ShapeMustMatchValuesLength" | EShapesMatch -> "ShapesMustMatch"
  | ESqueeze -> "SqueezeShapeOfAxisMustBeOne" | EAxis -> "AxisOutOfBounds" | EOob -> "OutOfBounds"
  | EParam -> "ParameterError" | EUnsupDim -> "UnsupportedDimension" | EUnique -> "MustBeUnique"
  | EEqual -> "MustBeEqual" | EAtLeast -> "MustBeAtLeast" | EOneOf -> "MustBeOneOf"
  | ENotImpl -> "NotImplemented" | ESingular -> "SingularMatrix"

let shape_str sh = String.concat "x" (List.map (fun n -> string_of_int (nat_to_int n)) sh)
let zs_str l = String.concat "," (List.map z_to_string l)

let rec out_str = function
  | OArr (sh, es) -> "arr(" ^ shape_str sh ^ ":" ^ zs_str es ^ ")"
  | OSArr (sh, es) -> "sarr(" ^ shape_str sh ^ ":" ^ String.concat "," (List.map (fun s -> "." ^ hex_of_bytes s) es) ^ ")"
  | OZ z -> "z(" ^ z_to_string z ^ ")"
  | OL l -> "l(" ^ zs_str l ^ ")"
  | OS s -> "s(" ^ hex_of_bytes s ^ ")"
  | OErr e -> "err(" ^ err_name e ^ ")"
  | OPanic -> "panic"
  | OFuel -> "fuel"
  | OPArr (sh, es) -> "parr(" ^ shape_str sh ^ ":" ^ String.concat "," (List.map (fun (a, b) -> z_to_string a ^ "/" ^ z_to_string b) es) ^ ")"
  | OLArr (sh, es) -> "larr(" ^ shape_str sh ^ ":" ^ String.concat "," (List.map (fun l -> String.concat ";" (List.map (fun s -> "." ^ hex_of_bytes s) l)) es) ^ ")"
  | OList l -> "list(" ^ String.concat ";" (List.map out_str l) ^ ")"
  | OBad -> "bad"

let () =
  let ic = if Array.length Sys.argv > 1 then open_in Sys.argv.(1) else stdin in
  (try
     while true do
       let line = input_line ic in
       if line = "" || line.[0] = '#' then print_endline line else begin
         let toks = List.filter (fun t -> t <> "") (String.split_on_char ' ' line) in
         match toks with
         | [] -> print_endline ""
         | op :: args ->
           (* op may carry an element-type tag: name@ty ; the model is polymorphic and ignores it *)
           let name = match String.index_opt op '@' with Some i -> String.sub op 0 i | None -> op in
           let res = try out_str (dispatch (coq_string_of name) (parse_args args))
             with Failure m -> "bad:" ^ m | Stack_overflow -> "bad:stack" in
           print_endline res
       end
     done
   with End_of_file -> ())

#!/bin/sh
# builds eval/_build/evaluator from the freshly extracted coq/model.ml
set -e
cd "$(dirname "$0")"
mkdir -p _build
if [ ! -f _build/evaluator ] || [ ../coq/model.ml -nt _build/evaluator ] || [ driver.ml -nt _build/evaluator ]; then
  cp ../coq/model.ml ../coq/model.mli driver.ml _build/
  (cd _build && timeout 600 ocamlfind ocamlopt -O2 -w -a model.mli model.ml driver.ml -o evaluator 2>/dev/null \
     || timeout 600 ocamlfind ocamlopt -w -a model.mli model.ml driver.ml -o evaluator)
fi

#!/bin/sh
# one-time build after a fresh restore, offline: full Coq .vo build, extraction + evaluator, harness
set -e
cd "$(dirname "$0")"
export CARGO_NET_OFFLINE=true
mkdir -p _work evidence
coq/build.sh
eval/build.sh
[ -f harness/Cargo.lock ] || cp /repo/Cargo.lock harness/Cargo.lock
python3 gen/litgen.py >/dev/null
python3 tools/inventory.py >/dev/null
(cd harness && RUSTFLAGS="--cfg arr_rs_verif -Awarnings" cargo build --offline --quiet --bin arr-rs-verif-harness --bin arr-rs-verif-lit --bin arr-rs-verif-prop)
echo setup-ok

"""Writes harness/src/generated_literals.rs: one function per array literal, each returning the {:?} text of
vec![<expr>] (what the macro sees at run time) and the macro's result.  Deterministic (no seed): the literal set is
the exhaustive list of shapes of rank 1..4 with axis lengths 1..4 for i32 and samples for the other element types.
Also returns the ground truth (shape, element texts) of every literal for the check."""
import itertools, os

ROOT = os.path.dirname(os.path.dirname(os.path.abspath(__file__)))
OUT = os.path.join(ROOT, "harness", "src", "generated_literals.rs")


def shapes(max_rank, max_len):
    for r in range(1, max_rank + 1):
        for sh in itertools.product(range(1, max_len + 1), repeat=r):
            yield list(sh)


def prod(sh):
    n = 1
    for d in sh:
        n *= d
    return n


def nest(sh, atoms):
    if not sh:
        return atoms.pop(0)
    return "[" + ", ".join(nest(sh[1:], atoms) for _ in range(sh[0])) + "]"


def literals():
    """list of (kind, rust type, macro invocation, debug expr, shape, element display texts)"""
    out = []
    for sh in shapes(4, 4):
        n = prod(sh)
        atoms = [str(i) for i in range(n)]
        out.append(("generic", "i32", sh, list(atoms), nest(sh, list(atoms))))
    sample = [sh for sh in shapes(4, 3) if prod(sh) <= 18] + [[1, 1, 1, 1], [2, 1, 2, 1], [1, 4], [4, 1], [1, 1, 4]]
    for k, sh in enumerate(sample):
        n = prod(sh)
        fl = [["-1.5", "2.0", "0.25", "1e3", "-0.0", "3.5e-2"][(i + k) % 6] for i in range(n)]
        out.append(("generic", "f64", sh, fl, nest(sh, list(fl))))
        bl = [["true", "false"][(i * 7 + k) % 2] for i in range(n)]
        out.append(("generic", "bool", sh, bl, nest(sh, list(bl))))
        neg = [str((-1) ** i * (i * 37 % 101)) for i in range(n)]
        out.append(("generic", "i64", sh, neg, nest(sh, list(neg))))
        if len(sh) <= 3:
            ch = [["a", "b", "Z", "0", "x", "q"][(i + k) % 6] for i in range(n)]
            out.append(("char", "char", sh, ch, nest(sh, ["'" + c + "'" for c in ch])))
            st = [["ab", "c d", "", "X1", "hello world", "z"][(i + 2 * k) % 6] for i in range(n)]
            out.append(("string", "String", sh, st, nest(sh, ['"' + s + '"' for s in st])))
            # text outside ASCII: byte offsets and character counts differ (seeded change C18h: a byte offset from
            # str::find used as a character count in the shape parser)
            ch2 = [["\u00e9", "b", "\u00df", "0", "\u65e5", "q"][(i + k) % 6] for i in range(n)]
            out.append(("char", "char", sh, ch2, nest(sh, ["'" + c + "'" for c in ch2])))
            st2 = [["\u00e9", "b", "\u65e5\u672c\u8a9e", "\u00df x", "", "\u00f81"][(i + 2 * k) % 6] for i in range(n)]
            out.append(("string", "String", sh, st2, nest(sh, ['"' + s + '"' for s in st2])))
        if len(sh) <= 2:
            tp = [(i, -i - 1) for i in range(n)]
            out.append(("tuple2", "Tuple2<i32, i32>", sh, [f"({a}, {b})" for a, b in tp], nest(sh, [f"({a}, {b})" for a, b in tp])))
            t3 = [(i, i + 1, i * 2) for i in range(n)]
            out.append(("tuple3", "Tuple3<i32, i32, i32>", sh, [f"({a}, {b}, {c})" for a, b, c in t3], nest(sh, [f"({a}, {b}, {c})" for a, b, c in t3])))
            ls = [[i, i + 1] if i % 2 else [i] for i in range(n)]
            out.append(("list", "List<i32>", sh, ["[" + ", ".join(map(str, l)) + "]" for l in ls],
                        nest(sh, ["vec![" + ", ".join(map(str, l)) + "]" for l in ls])))
    # escaped characters (newline, tab, carriage return, backslash) in String elements and in the String members of
    # pairs / triples / lists — each typed front end resolves the escapes Debug writes (seeded change C18j: the tuple
    # front end was left on the old helper contract)
    esc = [("a\nb", 'a\\nb'), ("t\tc", 't\\tc'), ("back\\slash", 'back\\\\slash'), ("cr\rx", 'cr\\rx'), ("plain", "plain"), ("", ""),
           # apostrophes: Debug leaves them alone inside a str (seeded change C18n: the tuple front end stripped them)
           ("it's", "it's"), ("'", "'"), ("o'clock 'x'", "o'clock 'x'")]
    for k, sh in enumerate([[1], [2], [3], [2, 2], [1, 3], [2, 1, 2], [4], [3, 3], [5]]):
        n = prod(sh)
        pick = [esc[(i + k) % len(esc)] for i in range(n)]
        out.append(("string", "String", sh, [v for v, _ in pick], nest(sh, ['"' + r + '"' for _, r in pick])))
        out.append(("tuple2s", "Tuple2<String, i32>", sh, [f"({v}, {i})" for i, (v, _) in enumerate(pick)],
                    nest(sh, [f'("{r}", {i})' for i, (_, r) in enumerate(pick)])))
        if len(sh) <= 2:
            out.append(("tuple3s", "Tuple3<i32, String, bool>", sh, [f"({i}, {v}, true)" for i, (v, _) in enumerate(pick)],
                        nest(sh, [f'({i}, "{r}", true)' for i, (_, r) in enumerate(pick)])))
    # open known finding: string literals containing the separators the macro cuts on
    out.append(("string_special", "String", [1, 2], ["e,f", "g"], '[["e,f", "g"]]'))
    out.append(("string_special", "String", [2], ["a[b", "c"], '["a[b", "c"]'))
    return out


def write():
    lits = literals()
    lines = ["// generated by gen/litgen.py — do not edit", "#![allow(clippy::all)]", "use arr_rs::prelude::*;", "use crate::common::*;", ""]
    lines.append("fn show<T: ArrayElement>(r: &Result<Array<T>, ArrayError>) -> String {")
    lines.append("    match r { Ok(a) => match wf_violation(a) { Some(v) => v, None => format!(\"res({}:{})\", shape_str(&a.get_shape().unwrap()),")
    lines.append("        a.get_elements().unwrap().iter().map(|e| format!(\".{}\", hex(format!(\"{e}\").as_bytes()))).collect::<Vec<_>>().join(\",\")) }, Err(e) => err_str(e) }")
    lines.append("}")
    for i, (kind, ty, sh, elems, expr) in enumerate(lits):
        dbg_expr = expr
        lines.append(f"fn lit_{i}() -> (String, String) {{")
        lines.append(f"    let text = format!(\"{{:?}}\", vec![{dbg_expr}]);")
        lines.append(f"    let r: Result<Array<{ty}>, ArrayError> = array!({ty}, {expr});")
        lines.append("    (text, show(&r))")
        lines.append("}")
    lines.append(f"pub static LITS: [fn() -> (String, String); {len(lits)}] = [" + ", ".join(f"lit_{i}" for i in range(len(lits))) + "];")
    src = "\n".join(lines) + "\n"
    old = open(OUT, encoding="utf-8").read() if os.path.exists(OUT) else None
    if old != src:
        with open(OUT, "w", encoding="utf-8") as f:
            f.write(src)
    return lits


if __name__ == "__main__":
    print(len(write()), "literals")

"""C17 cases.  Every string-array operation (40) on ASCII strings over {a,b,A,B,0,1,' ','-',',','\\n','\\r'} and the
empty string: one- and two-string functions exhaustively on all strings up to length 3 (pairs sampled in quick, all
in thorough), random strings up to length 8; array shapes of rank 1..3 with scalar and broadcast arguments
(separators / patterns / character sets as strings and arrays, widths / counts / limits as scalars and arrays,
fill characters, keep-ends flags); the result of every position compared with the Coq per-string function at the
strings broadcasting places there."""
import itertools
from common import *

EXHAUSTIVE = True
BOUNDS = "all strings over an 11-letter alphabet up to length 2 (length 3 over {a,b,-,' '}) for unary functions; pairs exhaustive up to length 2 in thorough"
ALPHA = ["a", "b", "A", "B", "0", "1", " ", "-", ",", "\n", "\r"]
PAIR = ["s_add", "s_join", "s_partition", "s_rpartition", "s_count", "s_starts_with", "s_ends_with", "s_find", "s_rfind",
        "s_index", "s_rindex", "s_equal", "s_not_equal", "s_less", "s_less_equal", "s_greater", "s_greater_equal"]
UNARY = ["s_capitalize", "s_lower", "s_upper", "s_swapcase", "s_str_len", "s_is_alpha", "s_is_alnum", "s_is_decimal",
         "s_is_numeric", "s_is_digit", "s_is_space", "s_is_lower", "s_is_upper"]


def rs(rng, maxlen=8, alpha=ALPHA):
    return "".join(rng.choice(alpha) for _ in range(rng.randint(0, maxlen)))


def sa(sh, strs):
    return sarr(sh, strs)


def gen(seed, tier):
    rng = random.Random(seed)
    out = []
    small = [""] + ["".join(t) for L in (1, 2) for t in itertools.product(ALPHA, repeat=L)]
    small3 = ["".join(t) for t in itertools.product(["a", "b", "-", " "], repeat=3)]
    # unary functions: all small strings, packed into arrays of 6
    for op in UNARY:
        pool = small + small3
        for i in range(0, len(pool), 6):
            chunk = pool[i:i + 6]
            out.append(f"{op} {sa([len(chunk)], chunk)}")
    # pair functions
    subs = ["", "a", "b", "-", " ", "ab", "a-", "--", "aa", ",", "\n", "A"]
    texts = small if tier == "thorough" else rng.sample(small, 60)
    texts = texts + small3[:: 2] + ["a-b-c", "--a--", "aaaa", "ab ab", "a  ", "  a", "abcabc", " a b ", "A-b,C"]
    for op in PAIR:
        for t in texts:
            out.append(f"{op} {sa([1], [t])} {sa([len(subs)], subs)}")
    # long strings (17..200 characters) and many strings per array: chunked scans, capacity-based fast paths
    longs = ["ab-" * 11, "a" * 64, "-" * 33, " " * 17 + "x" + " " * 17, "a,b," * 25, ("word " * 20).strip(), "A" * 100 + "b",
             "x\ny\rz\r\n" * 9, "ab" * 50 + "-" + "ba" * 50]
    longs += ["".join(rng.choice(ALPHA) for _ in range(L)) for L in (17, 31, 32, 33, 63, 64, 65, 127, 128, 129)]
    for op in UNARY:
        out.append(f"{op} {sa([len(longs)], longs)}")
        out.append(f"{op} {sa([5, 7], [rng.choice(small + small3) for _ in range(35)])}")
    for op in PAIR:
        for t in longs[::2]:
            out.append(f"{op} {sa([1], [t])} {sa([len(subs)], subs)}")
        out.append(f"{op} {sa([33], [rng.choice(texts) for _ in range(33)])} {sa([1], [rng.choice(subs[1:])])}")
    for op in ("s_lstrip", "s_rstrip", "s_strip"):
        out.append(f"{op} {sa([len(longs)], longs)} n")
        out.append(f"{op} {sa([len(longs)], longs)} {sa([1], ['ab- '])}")
    for op in ("s_center", "s_ljust", "s_rjust"):
        out.append(f"{op} {sa([len(longs)], longs)} {arr([1], [150])} n")
    # strip family
    for op in ("s_lstrip", "s_rstrip", "s_strip"):
        for t in texts:
            out.append(f"{op} {sa([1], [t])} n")
            out.append(f"{op} {sa([1], [t])} {sa([4], [' ', 'a', 'ab-', ''])}")
    # multiply, padding
    for t in texts[::3]:
        out.append(f"s_multiply {sa([1], [t])} {arr([4], [0, 1, 2, 3])}")
        for op in ("s_center", "s_ljust", "s_rjust"):
            out.append(f"{op} {sa([1], [t])} {arr([6], [0, 1, 2, 3, 6, 7])} n")
            out.append(f"{op} {sa([1], [t])} {arr([1], [5])} {arr([1], [ord('*')])}")
    # compare with an operator name (symbols, words, any letter case, unknown names)
    for name in ("==", "!=", ">", "<", ">=", "<=", "equals", "NOT_EQUALS", "Greater", "less", "greater_equal", "LESS_EQUAL", "=", "eq", "", "=>"):
        for t in texts[::9]:
            out.append(f"s_compare {sa([1], [t])} {sa([len(subs)], subs)} s{hexs(name)}")
        out.append(f"s_compare {sa([2, 1], ['a ', 'b'])} {sa([3], ['a', 'a  ', 'B'])} s{hexs(name)}")
    # translate: every character through the first matching table entry (tables with repeated keys, identity, chains)
    tables = [[], [("a", "b")], [("a", "b"), ("b", "a")], [("a", "x"), ("a", "y")], [(" ", "_"), ("-", " ")], [("A", "a"), ("a", "A"), ("0", "1")]]
    for tb in tables:
        flat = [ord(ch) for pr in tb for ch in pr]
        for i in range(0, len(texts), 5):
            chunk = texts[i:i + 5]
            out.append(f"s_translate {sa([len(chunk)], chunk)} {lst(flat)}")
        out.append(f"s_translate {sa([2, 2], ['ab', 'ba', 'a-b', ''])} {lst(flat)}")
    # zfill: numeric strings (sign, digits, point) padded to a width; any non-numeric string refuses the whole call
    nums = ["0", "7", "-7", "+7", "12", "-12", "1.5", "-1.5", ".5", "5.", "-.5", "007", "-0", "123456", "-123456", "0.25"]
    bad = ["", "-", ".", "x", "1x", "--1", "1-2", "1.2.3", " 1", "1 ", "+-1", "y7"]
    for w in (0, 1, 2, 3, 4, 5, 8, 12):
        for i in range(0, len(nums), 4):
            out.append(f"s_zfill {sa([4], nums[i:i + 4])} z{w}")
        out.append(f"s_zfill {sa([2, 2], ['-5', '5', '12', '-1.5'])} z{w}")
    for b in bad:
        out.append(f"s_zfill {sa([2], ['12', b])} z4")
        out.append(f"s_zfill {sa([1], [b])} z0")
    # split / rsplit / splitlines / replace
    seps = ["-", " ", ",", "ab", "--", "a"]
    for t in texts:
        for op in ("s_split", "s_rsplit"):
            out.append(f"{op} {sa([1], [t])} n n")
            out.append(f"{op} {sa([1], [t])} {sa([len(seps)], seps)} n")
            out.append(f"{op} {sa([1], [t])} {sa([1], [rng.choice(seps)])} {arr([4], [0, 1, 2, 3])}")
        out.append(f"s_splitlines {sa([1], [t])} n")
        out.append(f"s_splitlines {sa([1], [t])} {arr([2], [0, 1])}")
        old, new = rng.choice(["a", "-", "ab", " ", "aa", "b"]), rng.choice(["", "x", "ba", "a", "--", "aab"])
        for c in (None, 0, 1, 2):
            out.append(f"s_replace {sa([1], [t])} {sa([1], [old])} {sa([1], [new])} {opt(c)}")
    for t in ["a\nb", "a\r\nb\n", "\n\n", "a\rb\r", "\r\n", "ab", "", "a\n\rb", "x\r\r\ny"]:
        out.append(f"s_splitlines {sa([1], [t])} n")
        out.append(f"s_splitlines {sa([1], [t])} {arr([1], [1])}")
    # array shapes and broadcasting
    n = 150 if tier == "quick" else 3000
    for _ in range(n):
        sh = rand_shape(rng, 3, (1, 2, 3))
        strs = [rs(rng, 6) for _ in range(prod(sh))]
        sh2 = rng.choice([[1], sh, sh[-1:], [sh[0]] + [1] * (len(sh) - 1) if len(sh) > 1 else [1], [2, 1]])
        strs2 = [rs(rng, 2, ["a", "b", "-", " ", ","]) for _ in range(prod(sh2))]
        op = rng.choice(PAIR)
        out.append(f"{op} {sa(sh, strs)} {sa(sh2, strs2)}")
        out.append(f"{rng.choice(UNARY)} {sa(sh, strs)}")
        out.append(f"{rng.choice(['s_lstrip', 's_rstrip', 's_strip'])} {sa(sh, strs)} {rng.choice(['n', sa(sh2, strs2)])}")
        out.append(f"s_multiply {sa(sh, strs)} {arr(sh2, [rng.randint(0, 3) for _ in range(prod(sh2))])}")
        pad = rng.choice(["s_center", "s_ljust", "s_rjust"])
        out.append(f"{pad} {sa(sh, strs)} {arr(sh2, [rng.randint(0, 9) for _ in range(prod(sh2))])} {rng.choice(['n', arr([1], [ord('.')])])}")
        spl = rng.choice(["s_split", "s_rsplit"])
        lim = rng.choice(["n", arr([1], [rng.randint(0, 3)]), arr(sh2, [rng.randint(0, 3) for _ in range(prod(sh2))])])
        out.append(f"{spl} {sa(sh, strs)} {rng.choice(['n', sa(sh2, [s or '-' for s in strs2])])} {lim}")
        out.append(f"s_replace {sa(sh, strs)} {sa(sh2, [s or 'a' for s in strs2])} {sa([1], [rs(rng, 2)])} {opt(rng.choice([None, 0, 1, 2]))}")
        out.append(f"s_splitlines {sa(sh, strs)} {rng.choice(['n', arr([1], [1]), arr(sh2, [rng.randint(0, 1) for _ in range(prod(sh2))])])}")
    # three-operand operations: every ordered triple of operand shapes from a small set, so that each operand in turn
    # is the one that carries an axis the others lack (seeded change C17j: replace stretched only two of its three)
    tri = [[1], [2], [2, 1], [1, 2], [2, 2], [3], [1, 1, 2]]
    for s1, s2, s3 in itertools.product(tri, repeat=3):
        a1 = sa(s1, [rs(rng, 5, ["a", "b", "-", "x-", "ab"]) or "a-b" for _ in range(prod(s1))])
        a2 = sa(s2, [rng.choice(["a", "-", "b"]) for _ in range(prod(s2))])
        a3 = sa(s3, [rng.choice(["+", "**", "", "Q"]) for _ in range(prod(s3))])
        out.append(f"s_replace {a1} {a2} {a3} {opt(rng.choice([None, 1]))}")
        if rng.random() < 0.5:
            w = arr(s2, [rng.randint(0, 7) for _ in range(prod(s2))])
            f = arr(s3, [ord(rng.choice(".*_")) for _ in range(prod(s3))])
            out.append(f"{rng.choice(['s_center', 's_ljust', 's_rjust'])} {a1} {w} {f}")
            lim = arr(s3, [rng.randint(0, 2) for _ in range(prod(s3))])
            out.append(f"{rng.choice(['s_split', 's_rsplit'])} {a1} {a2} {lim}")
    return out

"""C05 cases.  Closure iteration: map / map_e / filter / filter_e / filter_map / filter_map_e / for_each /
for_each_e / fold / into_iter with stateful, order-observing closures (a call counter feeds into every returned
value and every visit is logged) on all shapes of rank 1..4 with lengths 1..3 and on empty arrays: result, final
counter and complete log compared with the Coq state-passing model.  One-operand functions: each of the 45
functions on label arrays over a value pool; the result is compared, position by position, with the same function
on one-element arrays at the label the model (map with identity) places there; integer-exact functions
(negative, absolute, square, floor, ceil, trunc, fix, sign) also by value against the Z model.
frexp / ldexp: doubles given exactly as (mantissa, exponent) integer pairs — every binade from the smallest
subnormal to f64::MAX, powers of two, values next to binade boundaries, random 53-bit mantissas — decomposed,
recombined and scaled by exponents in [-2200, 2200]; results are decoded bit-exactly to (odd mantissa, exponent)
and compared with the Coq dyadic model wherever the exact result is a double (overflow must give the infinity of
the right sign; an inexact subnormal result is only required to be within the two neighbouring doubles)."""
import itertools
from common import *
import vlib

EXHAUSTIVE = True
BOUNDS = "all shapes rank 1..4 lengths 1..3 (closures); all shapes rank<=3 len<=3 x 45 unary functions"

UNARY = ["reciprocal", "positive", "negative", "exp", "exp2", "exp_m1", "log", "log10", "log2", "log_1p", "acosh", "asinh",
         "atanh", "cosh", "sinh", "tanh", "abs", "absolute", "cbrt", "fabs", "nan_to_num", "sqrt", "square", "ceil", "fix",
         "floor", "rint", "trunc", "i0", "sinc", "acos", "asin", "atan", "cos", "deg2rad", "degrees", "rad2deg", "radians",
         "sin", "tan", "spacing"]
NEED_OPS = {"i0", "sinc", "acos", "asin", "atan", "cos", "deg2rad", "degrees", "rad2deg", "radians", "sin", "tan"}
ZERO_SIGN = {"abs", "absolute", "fabs", "negative", "positive", "sqrt", "square", "floor", "ceil", "trunc", "fix", "sin", "sinh", "tan",
             "tanh", "asin", "asinh", "atan", "atanh", "cbrt", "exp_m1", "log_1p", "deg2rad", "rad2deg", "degrees", "radians"}
# functions whose value is a whole number or the argument itself: compared without any tolerance (seeded change C05o:
# rint as floor(x + 0.5) moved 2^52 + 1 to its even neighbour — a relative error of 2e-16)
EXACT = {"rint", "floor", "ceil", "trunc", "fix", "positive", "negative", "abs", "absolute", "fabs", "nan_to_num"}
ZUNARY = ["negative", "positive", "absolute", "abs", "fabs", "square", "floor", "ceil", "trunc", "fix", "sign"]
CLOSURES = ["map_log", "map_e_log", "filter_log", "filter_e_log", "filter_map_log", "filter_map_e_log", "for_each_log",
            "for_each_e_log", "into_iter"]


def _pairs(tok):
    """`parr(2x2:m/e,...)` -> (shape string, [(m, e), ...]) or None"""
    if not tok.startswith("parr(") or not tok.endswith(")"):
        return None
    d, _, body = tok[5:-1].partition(":")
    return d, [tuple(int(x) for x in p.split("/")) for p in body.split(",") if p]


def _bitlen(m):
    return abs(m).bit_length()


def _dy_agree(impl, model):
    """impl doubles (decoded) against exact dyadic results"""
    a, b = _pairs(impl), _pairs(model)
    if a is None or b is None:
        return vlib.canon(impl) == vlib.canon(model)
    if a[0] != b[0] or len(a[1]) != len(b[1]):
        return False
    for (im, ie), (mm, me) in zip(a[1], b[1]):
        if me >= 100000 or mm == 0:
            ok = (im, ie) == (mm, me)
        elif _bitlen(mm) + me > 1024:                       # exact result beyond f64::MAX: the infinity of that sign
            ok = ie == 100000 and (im > 0) == (mm > 0)
        elif me < -1074:                                    # not representable (below the subnormal grid): a neighbour
            lo = (abs(mm) >> (-1074 - me))
            cand = {lo, lo + 1}
            val = abs(im) << (ie + 1074) if ie >= -1074 else None
            ok = val in cand and ((im >= 0) == (mm > 0) or im == 0)
        else:
            ok = (im, ie) == (mm, me)
        if not ok:
            return False
    return True


def agree(case, impl, model):
    if case.startswith("ew1@"):
        # the sign of a zero result is judged for the functions whose definition fixes it (seeded change C05k:
        # abs(-0.0) returned -0.0)
        op = bytes.fromhex(case.split(" ")[1][1:]).decode()
        return vlib.table_agree(impl, model, 1, zero_sign=op in ZERO_SIGN, exact=op in EXACT)
    if case.startswith("ew2@"):
        return vlib.table_agree(impl, model, 2)
    head = case.split(" ")[0]
    if head in ("ldexp", "frexp_ldexp"):
        return _dy_agree(impl, model)
    return None


def _rep(m, e):
    """is m * 2^e a double?"""
    if m == 0:
        return True
    while m % 2 == 0:
        m //= 2; e += 1
    return _bitlen(m) <= 53 and e >= -1074 and _bitlen(m) + e <= 1024


def dyadic_cases(rng, tier):
    out = []
    vals = [(0, 0), (1, 0), (-1, 0), (3, -1), (1, -1074), (-1, -1074), (3, -1074), (1, -1073), (2 ** 52 - 1, -1074), (2 ** 52, -1074),
            (2 ** 53 - 1, 971), (-(2 ** 53 - 1), 971), (1, 1023), (2 ** 53 - 1, -1075 + 1), (1, -1022), (1, -1023), (1, -1024),
            (5, -1030), (-7, -1060), (2 ** 52 + 1, 970), (1, 1000), (1, -1000)]
    for b in range(-1074, 1024, 7 if tier == "quick" else 1):            # one value per binade (step 7 in the quick tier)
        bits = rng.randint(1, min(53, b + 1075))
        m = rng.getrandbits(bits) | 1 | (1 << (bits - 1))
        vals.append((m if rng.random() < 0.5 else -m, b - bits + 1))
    for _ in range(150 if tier == "quick" else 3000):
        bits = rng.randint(1, 53)
        m = rng.getrandbits(bits) | (1 << (bits - 1))
        e = rng.randint(-1074, 1024 - bits)
        vals.append((m if rng.random() < 0.5 else -m, e))
    vals = [v for v in vals if _rep(*v)]
    # decomposition and recombination, one value per case and in arrays of rank 1..3
    for m, e in vals:
        out.append(f"frexp a1:{m} a1:{e}")
        out.append(f"frexp_ldexp a1:{m} a1:{e}")
    for sh in shapes(3, 3):
        pick = [rng.choice(vals) for _ in range(prod(sh))]
        ms, es = [p[0] for p in pick], [p[1] for p in pick]
        out.append(f"frexp {arr(sh, ms)} {arr(sh, es)}")
        out.append(f"frexp_ldexp {arr(sh, ms)} {arr(sh, es)}")
        ks = [rng.randint(-60, 60) for _ in range(prod(sh))]
        out.append(f"ldexp {arr(sh, ms)} {arr(sh, es)} {arr(sh, ks)}")
        out.append(f"ldexp {arr(sh, ms)} {arr(sh, es)} a1:{rng.randint(-5, 5)}")               # exponent array is stretched
        out.append(f"ldexp {arr(sh, ms)} {arr(sh, es)} {arr([sh[-1]], ks[:sh[-1]])}")
        out.append(f"ldexp {arr(sh, ms)} {arr(sh, es)} {arr([sh[-1] + 1], [0] * (sh[-1] + 1))}")  # not broadcastable
    # non-finite values pass through (frexp of an infinity used to hang: F26)
    for m, e in ((1, 100000), (-1, 100000), (0, 100001)):
        out.append(f"frexp a1:{m} a1:{e}")
        out.append(f"frexp_ldexp a1:{m} a1:{e}")
        out.append(f"ldexp a1:{m} a1:{e} a1:{rng.randint(-30, 30)}")
        out.append(f"frexp a3:5,{m},-3 a3:0,{e},2")
    # scaling across the whole exponent range, including results that overflow or fall below the subnormal grid
    for m, e in vals[::3]:
        for k in (0, 1, -1, rng.randint(-2200, 2200), 1024 - _bitlen(m) - e, 1025 - _bitlen(m) - e, -1074 - e, -1075 - e, -2098, 2098):
            out.append(f"ldexp a1:{m} a1:{e} a1:{k}")
    return out


def gen(seed, tier):
    rng = random.Random(seed)
    out = []
    for sh in list(shapes(4, 3)) + [[0], [0, 2]]:
        n = prod(sh)
        for op in CLOSURES:
            es = [rng.randint(-9, 9) for _ in range(n)]
            out.append(f"{op} {arr(sh, es)}")
        out.append(f"fold_acc {arr(sh, [rng.randint(-3, 3) for _ in range(n)]) if n <= 27 else arr([3], [1, 2, 3])} z{rng.randint(-2, 2)}")
    sh3 = list(shapes(3, 3))
    for op in UNARY:
        tys = ["f64p", "f32p"] if op == "spacing" else (["f64p", "f32p", "i32", "i64"] if op in NEED_OPS else ["f64p", "f32p", "i32", "i64", "u8"])
        for k, sh in enumerate(sh3):
            ty = tys[k % len(tys)]
            n = prod(sh)
            es = [rng.randrange(20) for _ in range(n)] if ty.endswith("p") else [rng.randint(0 if ty == "u8" else -9, 9) for _ in range(n)]
            out.append(f"ew1@{ty} s{hexs(op)} {arr(sh, es)}")
    # long arrays (blocked / chunked maps must visit every element, in order)
    for sh in ([33], [65], [100], [129], [5, 7], [9, 8], [3, 4, 3], [2, 3, 2, 3]):
        n = prod(sh)
        for op in CLOSURES:
            out.append(f"{op} {arr(sh, [rng.randint(-9, 9) for _ in range(n)])}")
        for op in UNARY:
            if tier == "quick" and rng.random() < 0.6:
                continue
            ty = rng.choice(["f64p", "f32p"] if op == "spacing" else ["f64p", "f32p", "i32", "i64"])
            es = [rng.randrange(20) for _ in range(n)] if ty.endswith("p") else [rng.randint(-9, 9) for _ in range(n)]
            out.append(f"ew1@{ty} s{hexs(op)} {arr(sh, es)}")
    # every pool value through every function (judged against the independent reference)
    for op in UNARY:
        for ty in ("f64p", "f32p"):
            out.append(f"ew1@{ty} s{hexs(op)} {arr([35], list(range(35)))}")
    # nan_to_num keeps every finite value as it is, in the element type: 64-bit integers no double represents
    for ty, vals in (("i64", [2 ** 53 + 1, -(2 ** 53) - 1, 2 ** 62 + 1, 2 ** 63 - 1, -(2 ** 63), 0, 7]), ("u64", [2 ** 53 + 1, 2 ** 64 - 2, 2 ** 63 + 1, 0, 7])):
        out.append(f"ew1@{ty} s{hexs('nan_to_num')} {arr([len(vals)], vals)}")
        out.append(f"ew1@{ty} s{hexs('positive')} {arr([len(vals)], vals)}")
    # integer element types at arguments where the function's value is a whole number (powers of ten / two / e-free):
    # the result is that number, not its neighbour (seeded change C05m: log10 as ln(x)/ln(10) gave 2 for 1000)
    # angle conversions on integer element types: the f64 conversion of each element, converted back (seeded change
    # C05p multiplied by the factor converted to the element type: 57 and 0)
    for ty in ("i64", "i32", "i16"):
        ang = [90, 180, 360, -270, 10, 100, 1, 0, 57, -3]
        for op in ("degrees", "radians", "deg2rad", "rad2deg"):
            out.append(f"ew1@{ty} s{hexs(op)} {arr([len(ang)], ang)}")
    for ty in ("i64", "u64"):
        odd = [2 ** 52 + 1, 2 ** 52 + 3, 2 ** 53 - 1, 2 ** 52 - 1, 7, 0]
        for op in ("rint", "floor", "ceil", "trunc", "fix"):
            out.append(f"ew1@{ty} s{hexs(op)} {arr([len(odd)], odd)}")
    tens = [10 ** k for k in range(0, 19)]
    twos = [2 ** k for k in range(0, 63, 3)]
    for ty, cap in (("i64", 2 ** 63), ("i32", 2 ** 31), ("u8", 256), ("u64", 2 ** 64)):
        for op, vals in (("log10", tens), ("log2", twos), ("sqrt", [k * k for k in (0, 1, 2, 3, 10, 1000, 46340)]), ("cbrt", [k ** 3 for k in (0, 1, 2, 3, 10, 100, 1000)]),
                         ("log", [1]), ("exp2", [0, 1, 2, 5, 7]), ("square", [0, 1, 2, 11, 15])):
            v = [x for x in vals if x < cap]
            out.append(f"ew1@{ty} s{hexs(op)} {arr([len(v)], v)}")
    for op in ZUNARY:
        for sh in sh3[::2]:
            es = [rng.randint(-50, 50) for _ in range(prod(sh))]
            out.append(f"{op}@{rng.choice(['i32', 'i64'])} {arr(sh, es)}")
    n = 100 if tier == "quick" else 3000
    for _ in range(n):
        sh = rand_shape(rng, 4, (1, 2, 3, 4, 5))
        es = [rng.randint(-20, 20) for _ in range(prod(sh))]
        out.append(f"{rng.choice(CLOSURES)} {arr(sh, es)}")
        op = rng.choice(UNARY)
        out.append(f"ew1@f64p s{hexs(op)} {arr(sh, [rng.randrange(20) for _ in range(prod(sh))])}")
    # round / around: values against an array of decimal places (both stretched); signbit on the float pool
    from C03 import compatible_partner
    for sh in list(shapes(3, 3)):
        n = prod(sh)
        for op in ("round", "around"):
            for ty in ("f64p", "f32p", "i32"):
                es = [rng.randrange(20) for _ in range(n)] if ty.endswith("p") else [rng.randint(-99, 99) for _ in range(n)]
                d1 = [rng.randint(-2, 3)]
                out.append(f"ew2@{ty} s{hexs(op)} {arr(sh, es)} {arr([1], d1)} z2 l")
                ds = compatible_partner(rng, sh)
                out.append(f"ew2@{ty} s{hexs(op)} {arr(sh, es)} {arr(ds, [rng.randint(-2, 3) for _ in range(prod(ds))])} z2 l")
        for ty in ("f64p", "f32p"):
            out.append(f"ew1@{ty} s{hexs('signbit')} {arr(sh, [rng.randrange(20) for _ in range(n)])}")
    out += dyadic_cases(rng, tier)
    return out

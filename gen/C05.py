"""C05 cases.  Closure iteration: map / map_e / filter / filter_e / filter_map / filter_map_e / for_each /
for_each_e / fold / into_iter with stateful, order-observing closures (a call counter feeds into every returned
value and every visit is logged) on all shapes of rank 1..4 with lengths 1..3 and on empty arrays: result, final
counter and complete log compared with the Coq state-passing model.  One-operand functions: each of the 45
functions on label arrays over a value pool; the result is compared, position by position, with the same function
on one-element arrays at the label the model (map with identity) places there; integer-exact functions
(negative, absolute, square, floor, ceil, trunc, fix, sign) also by value against the Z model."""
import itertools
from common import *
import vlib

EXHAUSTIVE = True
BOUNDS = "all shapes rank 1..4 lengths 1..3 (closures); all shapes rank<=3 len<=3 x 45 unary functions"

UNARY = ["reciprocal", "positive", "negative", "exp", "exp2", "exp_m1", "log", "log10", "log2", "log_1p", "acosh", "asinh",
         "atanh", "cosh", "sinh", "tanh", "abs", "absolute", "cbrt", "fabs", "nan_to_num", "sqrt", "square", "ceil", "fix",
         "floor", "rint", "trunc", "i0", "sinc", "acos", "asin", "atan", "cos", "deg2rad", "degrees", "rad2deg", "radians",
         "sin", "tan", "spacing"]
NEED_OPS = {"i0", "sinc", "acos", "asin", "atan", "cos", "deg2rad", "degrees", "rad2deg", "radians", "sin", "tan"}
ZUNARY = ["negative", "positive", "absolute", "abs", "fabs", "square", "floor", "ceil", "trunc", "fix", "sign"]
CLOSURES = ["map_log", "map_e_log", "filter_log", "filter_e_log", "filter_map_log", "filter_map_e_log", "for_each_log",
            "for_each_e_log", "into_iter"]


def agree(case, impl, model):
    if case.startswith("ew1@"):
        return vlib.table_agree(impl, model, 1)
    return None


def gen(seed, tier):
    rng = random.Random(seed)
    out = []
    for sh in list(shapes(4, 3)) + [[0], [0, 2]]:
        n = prod(sh)
        for op in CLOSURES:
            es = [rng.randint(-9, 9) for _ in range(n)]
            out.append(f"{op} {arr(sh, es)}")
        out.append(f"fold_acc {arr(sh, [rng.randint(-3, 3) for _ in range(n)]) if n <= 27 else arr([3], [1, 2, 3])} z{rng.randint(-2, 2)}")
    sh3 = list(shapes(3, 3))
    for op in UNARY:
        tys = ["f64p", "f32p"] if op == "spacing" else (["f64p", "f32p", "i32", "i64"] if op in NEED_OPS else ["f64p", "f32p", "i32", "i64", "u8"])
        for k, sh in enumerate(sh3):
            ty = tys[k % len(tys)]
            n = prod(sh)
            es = [rng.randrange(20) for _ in range(n)] if ty.endswith("p") else [rng.randint(0 if ty == "u8" else -9, 9) for _ in range(n)]
            out.append(f"ew1@{ty} s{hexs(op)} {arr(sh, es)}")
    for op in ZUNARY:
        for sh in sh3[::2]:
            es = [rng.randint(-50, 50) for _ in range(prod(sh))]
            out.append(f"{op}@{rng.choice(['i32', 'i64'])} {arr(sh, es)}")
    n = 100 if tier == "quick" else 3000
    for _ in range(n):
        sh = rand_shape(rng, 4, (1, 2, 3, 4, 5))
        es = [rng.randint(-20, 20) for _ in range(prod(sh))]
        out.append(f"{rng.choice(CLOSURES)} {arr(sh, es)}")
        op = rng.choice(UNARY)
        out.append(f"ew1@f64p s{hexs(op)} {arr(sh, [rng.randrange(20) for _ in range(prod(sh))])}")
    return out

"""C19 cases.  unpack_bits of all 256 byte values x both orders (enum, string spelling, default, unknown names);
byte arrays of rank 1..3 with lengths 1..3 x every axis (both spellings) + flat x both orders x counts (None,
0..9, negative, too large); pack_bits of bit arrays of every length 1..40 (flat) and along every axis of rank <= 3
arrays, non-0/1 'bits'; round trip executed on the implementation: pack(unpack(a, axis, order), axis, order) == a;
binary_repr on boundary values of every integer width."""
import itertools
from common import *
import vlib

EXHAUSTIVE = True
BOUNDS = "all 256 byte values x 2 orders; byte arrays rank 1..3 len<=3 x every axis + flat; bit arrays of every length 1..40"
_fail = []


def gen_rounds(seed, tier, run):
    rng = random.Random(seed)
    del _fail[:]
    out = []
    rts = []
    for b in range(256):
        for o in ("z0", "z1"):
            out.append(f"unpack_bits a1:{b} n n {o}")
    for o in ("n", "s" + hexs("big"), "s" + hexs("little"), "s" + hexs("Big"), "s" + hexs("middle"), "s"):
        out.append(f"unpack_bits a2:6,255 n n {o}")
        out.append(f"pack_bits a9:1,0,1,1,0,0,0,1,1 n {o}")
    # the order by name (both string parsers: &str and String) on asymmetric bytes, flat and along axes
    for o in ("s" + hexs("big"), "s" + hexs("little")):
        for b in (1, 2, 6, 77, 128, 200, 254):
            out.append(f"unpack_bits a1:{b} n n {o}")
        for sh in ([3], [2, 2], [2, 3], [2, 1, 2]):
            es = [rng.choice([1, 2, 6, 77, 128, 200, 254, 19]) for _ in range(prod(sh))]
            for ax in [None] + list(range(-len(sh), len(sh))):
                out.append(f"unpack_bits {arr(sh, es)} {opt(ax)} n {o}")
                out.append(f"unpack_bits {arr(sh, es)} {opt(ax)} z5 {o}")
                out.append(f"pack_bits {arr(sh, [rng.randrange(2) for _ in range(prod(sh))])} {opt(ax)} {o}")
        for L in (1, 3, 8, 9, 15, 17):
            out.append(f"pack_bits {arr([L], [1] + [rng.randrange(2) for _ in range(L - 1)])} n {o}")
    for sh in shapes(3, 3):
        n = len(sh)
        es = [rng.randrange(256) for _ in range(prod(sh))]
        a = arr(sh, es)
        for ax in [None] + list(range(-n, n)) + [n, -n - 1]:
            for o in ("z0", "z1"):
                rts.append((len(out), ax, o))
                out.append(f"unpack_bits {a} {opt(ax)} n {o}")
            for cnt in (0, 1, 5, 8, 9, -1, -3, 8 * prod(sh), 8 * prod(sh) + 1, -8 * prod(sh) - 1):
                if rng.random() < 0.5:
                    out.append(f"unpack_bits {a} {opt(ax)} {z(cnt)} {rng.choice(['z0', 'z1'])}")
        bits = [rng.randrange(2) for _ in range(prod(sh))]
        for ax in [None] + list(range(-n, n)) + [n]:
            out.append(f"pack_bits {arr(sh, bits)} {opt(ax)} {rng.choice(['z0', 'z1'])}")
    # longer axes and more entries behind the axis
    for sh in ([17], [33], [2, 17], [17, 2], [9, 8], [4, 3, 3], [3, 2, 4], [2, 2, 3, 2], [64]):
        n = len(sh)
        a = arr(sh, [rng.randrange(256) for _ in range(prod(sh))])
        for ax in [None] + list(range(-n, n)):
            for o in ("z0", "z1"):
                rts.append((len(out), ax, o))
                out.append(f"unpack_bits {a} {opt(ax)} n {o}")
            out.append(f"unpack_bits {a} {opt(ax)} {z(rng.choice([3, 9, 17, -5]))} z{rng.randrange(2)}")
            out.append(f"pack_bits {arr(sh, [rng.randrange(2) for _ in range(prod(sh))])} {opt(ax)} z{rng.randrange(2)}")
    for L in range(1, 41):
        bits = [rng.randrange(2) for _ in range(L)]
        for o in ("z0", "z1"):
            out.append(f"pack_bits {arr([L], bits)} n {o}")
        out.append(f"pack_bits {arr([L], [rng.choice([0, 1, 2, 7, 255]) for _ in range(L)])} n z0")
    out.append("unpack_bits a0: n n n")
    out.append("pack_bits a0: n n")
    for w in (8, 16, 32, 64):
        for v in (0, 1, 2, 5, 2 ** (w - 1) - 1, 2 ** (w - 1), 2 ** w - 1, -1, -2, -2 ** (w - 1), -(2 ** (w - 1)) + 1):
            out.append(f"binary_repr z{w} {z(v)}")
        for _ in range(20):
            out.append(f"binary_repr z{w} {z(rng.randrange(-2 ** (w - 1), 2 ** w))}")
    impl, model = run(out)
    follow = []
    for i, ax, o in rts:
        r = impl[i]
        if not r.startswith("arr("):
            continue
        orig = out[i].split(" ")[1]
        want = "arr(" + orig[1:] + ")" if ax is not None else "arr(" + str(len(orig.split(":")[1].split(","))) + ":" + orig.split(":")[1] + ")"
        follow.append((out[i], f"pack_bits a{r[4:-1]} {opt(ax)} {o}", want))
    if follow:
        im2, _ = run([f[1] for f in follow])
        for (c, q, want), r in zip(follow, im2):
            if r != want:
                _fail.append((c, f"unpack then pack: {q[:100]} -> {r[:80]}, expected {want[:80]}"))


def extra_checks(cases, impl, model):
    return [(cases.index(c), c, "law: " + why, "-") for c, why in _fail]

"""C12 cases.  flip: None, every axis in both spellings, lists of 2..3 axes, out-of-range axes; flipud / fliplr;
roll: every shift in [-3n, 3n] along every axis (both spellings) and flat (axis None), lists of several
axes/shifts (equal lengths, scalar shift with several axes, several shifts on one axis), huge shifts, out-of-range
axes; rot90: every ordered axis pair (both spellings, incl. equal and out-of-range axes) x k in 0..7 —
on all arrays of rank 1..4 with lengths 1..3 (plus lengths 4, 5 for rank <= 2).  Laws executed on the implementation:
flip twice, roll by s then by -s, four quarter turns and rot90(k) = k single turns all restore / agree."""
import itertools
from common import *
import vlib

EXHAUSTIVE = True
BOUNDS = "all arrays rank 1..4 len 1..3 (len<=5 for rank<=2): every axis (both spellings), every shift in [-3n,3n], every ordered axis pair x k in 0..7"
_fail = []


def tok(res):
    return "a" + res[4:-1] if res.startswith("arr(") else None


def gen_rounds(seed, tier, run):
    rng = random.Random(seed)
    del _fail[:]
    out = []
    laws = []       # (index of first case, follow-up builder)
    shs = list(shapes(4, 3)) + [s for s in shapes(2, 5) if max(s) >= 4]
    # long axes: a blocked copy / rotation must not lose a tail
    shs += [[8], [17], [33], [64], [2, 17], [17, 2], [9, 8], [2, 9, 2]]
    for sh in shs:
        n = len(sh)
        a = arr(sh)
        out.append(f"flip {a} n")
        for ax in list(range(-n, n)) + [n, -n - 1, 2 ** 40]:
            laws.append((len(out), "flip", [f"l{ax}"]))
            out.append(f"flip {a} {lst([ax])}")
        for m in (2, 3):
            axs = [rng.randrange(-n, n) for _ in range(m)]
            laws.append((len(out), "flip", [lst(list(reversed(axs)))]))
            out.append(f"flip {a} {lst(axs)}")
        out.append(f"flipud {a}")
        out.append(f"fliplr {a}")
        for ax in list(range(-n, n)):
            ln = sh[ax % n]
            for s in range(-3 * ln, 3 * ln + 1):
                if (n >= 3 and rng.random() < 0.5) or (ln > 8 and rng.random() < 0.8):
                    continue
                laws.append((len(out), "roll", [lst([-s]), lst([ax])]))
                out.append(f"roll {a} {lst([s])} {lst([ax])}")
        tot = prod(sh)
        for s in list(range(-tot - 2, tot + 3)) if tot <= 12 else [rng.randint(-3 * tot, 3 * tot) for _ in range(12)]:
            laws.append((len(out), "roll", [lst([-s]), "n"]))
            out.append(f"roll {a} {lst([s])} n")
        for ax in (n, -n - 1):
            out.append(f"roll {a} l1 {lst([ax])}")
        out.append(f"roll {a} {lst([10 ** 12, -10 ** 12 + 1])} {lst([0, 0])}")
        # more shifts than axes: every shift applies (they add up on the one axis / on the flattened order) — seeded
        # change C12m dropped the surplus shifts; the inverse law alone cannot see that, the coordinate map can
        for shf in ([1, 2], [2, -1], [3, 4], [1, 1, 1], [-2, 5, 1]):
            out.append(f"roll {a} {lst(shf)} n")
            for ax in range(-n, n):
                out.append(f"roll {a} {lst(shf)} {lst([ax])}")
            if n >= 2:
                out.append(f"roll {a} {lst(shf)} {lst([0, 1])}")
        if n >= 2:
            for _ in range(4):
                axs = [rng.randrange(-n, n) for _ in range(rng.randint(2, 3))]
                shf = [rng.randint(-4, 4) for _ in axs]
                laws.append((len(out), "roll", [lst([-x for x in shf]), lst(axs)]))
                out.append(f"roll {a} {lst(shf)} {lst(axs)}")
                out.append(f"roll {a} {lst([shf[0]])} {lst(axs)}")
            out.append(f"roll {a} l1,2,3 l0,1")
            for p, q in itertools.product(range(-n - 1, n + 1), repeat=2):
                for k in range(8):
                    if n >= 3 and (p + q + k) % 3:
                        continue
                    if -n <= p < n and -n <= q < n and p % n != q % n:
                        laws.append((len(out), "rot", (k, p, q)))
                    out.append(f"rot90 {a} z{k} {lst([p, q])}")
            out.append(f"rot90 {a} z1 l0")
            out.append(f"rot90 {a} z1 l0,1,0")
        else:
            out.append(f"rot90 {a} z1 l0,0")
    out = retype(out, rng, set(['flip', 'flipud', 'fliplr', 'roll', 'rot90']))          # other element types for the generic operations
    impl, model = run(out)
    # laws on the implementation's own results
    follow = []
    for i, kind, args in laws:
        t = tok(impl[i])
        if t is None:
            continue
        orig = out[i].split(" ")[1]
        if kind in ("flip", "roll"):
            follow.append((out[i], f"{kind} {t} " + " ".join(args), "arr(" + orig[1:] + ")", "inverse"))
        else:
            k, p, q = args
            # k quarter turns = k successive single turns (checked by continuing from the k-turn result to 4 turns)
            follow.append((out[i], f"rot90 {t} z{(4 - k) % 4} {lst([p, q])}", "arr(" + orig[1:] + ")", "complement to four turns"))
    if follow:
        im2, mo2 = run([f[1] for f in follow])
        for (c, q, want, what), r in zip(follow, im2):
            if r != want:
                _fail.append((c, f"{what}: {q[:100]} -> {r[:100]}, expected {want[:100]}"))


def extra_checks(cases, impl, model):
    return [(cases.index(c), c, "law: " + why, "-") for c, why in _fail]

"""C14 cases.  matmul / dot / inner / outer / vdot for every conforming and non-conforming pair among vectors
(length 1..4), matrices (1..4 x 1..4) and stacks of 2..3 matrices, with small integer entries (|x| <= 9, so f64
arithmetic is exact and the Coq Z instance gives the expected value of every entry) on i32, i64, f64, f32."""
import itertools
from common import *

EXHAUSTIVE = True
BOUNDS = "all pairs of vector (len 1..4) / matrix (1..4 x 1..4) shapes; stacks of 2..3 matrices with sides 1..3"


def vals(rng, n):
    return [rng.randint(-9, 9) for _ in range(n)]


def gen(seed, tier):
    rng = random.Random(seed)
    out = []
    vecs = [[n] for n in range(1, 5)]
    mats = [[r, c] for r in range(1, 5) for c in range(1, 5)]
    tys = ["i32", "i64", "f64", "f32"]
    k = 0
    for s1, s2 in itertools.product(vecs + mats, repeat=2):
        ty = tys[k % 4]; k += 1
        a, b = arr(s1, vals(rng, prod(s1))), arr(s2, vals(rng, prod(s2)))
        for op in ("matmul", "dot"):
            out.append(f"{op}@{ty} {a} {b}")
        if len(s1) == 2 and len(s2) == 2 and rng.random() < 0.3:
            out.append(f"inner@{ty} {a} {b}")
        if prod(s1) <= 6 and prod(s2) <= 6:
            out.append(f"outer@{ty} {a} {b}")
            out.append(f"vdot@{ty} {a} {b}")
    for s1, s2 in itertools.product(vecs, repeat=2):
        out.append(f"inner {arr(s1, vals(rng, s1[0]))} {arr(s2, vals(rng, s2[0]))}")
    for b in (2, 3):
        for n, kk, p in itertools.product((1, 2, 3), repeat=3):
            s1, s2 = [b, n, kk], [b, kk, p]
            out.append(f"matmul@{tys[(n + kk + p) % 4]} {arr(s1, vals(rng, prod(s1)))} {arr(s2, vals(rng, prod(s2)))}")
        for n in (1, 2, 3):
            s1, s2 = [b, n, n], [n, n]
            out.append(f"matmul {arr(s1, vals(rng, prod(s1)))} {arr(s2, vals(rng, prod(s2)))}")
            out.append(f"matmul {arr(s2, vals(rng, prod(s2)))} {arr(s1, vals(rng, prod(s1)))}")
    for s1, s2 in [([2, 3], [3, 2]), ([3, 2], [3, 2]), ([2, 2, 3], [2, 2, 3]), ([2, 3], [4, 3]), ([2, 3], [3]), ([3], [2, 3])]:
        out.append(f"inner {arr(s1, vals(rng, prod(s1)))} {arr(s2, vals(rng, prod(s2)))}")
    # long inner dimensions / long vectors (a blocked or chunked product must not lose a tail); square sides, since the
    # repository's matmul compares rows(a) with cols(b) (open finding F15)
    small = lambda n: [rng.randint(-3, 3) for _ in range(n)]
    for L in (7, 8, 9, 15, 16, 17, 31, 32, 33, 63, 64, 65, 100, 129):
        ty = tys[L % 4]
        out.append(f"vdot@{ty} {arr([L], small(L))} {arr([L], small(L))}")
        out.append(f"inner@{ty} {arr([L], small(L))} {arr([L], small(L))}")
        out.append(f"dot@{ty} {arr([L], small(L))} {arr([L], small(L))}")
        out.append(f"matmul@{ty} {arr([L], small(L))} {arr([L], small(L))}")
        if L <= 33:
            out.append(f"matmul@{ty} {arr([L, L], small(L * L))} {arr([L], small(L))}")
            out.append(f"matmul@{ty} {arr([L], small(L))} {arr([L, L], small(L * L))}")
            out.append(f"inner@{ty} {arr([2, L], small(2 * L))} {arr([3, L], small(3 * L))}")
        if L <= 17:
            out.append(f"matmul@{ty} {arr([L, L], small(L * L))} {arr([L, L], small(L * L))}")
            out.append(f"outer@{ty} {arr([L], small(L))} {arr([L + 1], small(L + 1))}")
    # element types narrower than f64 whose INTERMEDIATE products / partial sums do not fit the type although the
    # entry does: each entry is the sum of the products (seeded change C14m: dot of two vectors accumulated in the
    # element type — f32 lost 1 next to 2^24, i16 overflowed)
    for op in ("dot", "vdot", "inner", "matmul"):
        out.append(f"{op}@f32 a3:16777216,1,-16777216 a3:1,1,1")
        out.append(f"{op}@f32 a2:4097,-4096 a2:4097,4098")
        out.append(f"{op}@f32 a4:3,5000,2,-5000 a4:1,5001,2,5001")
        out.append(f"{op}@i16 a3:300,300,7 a3:300,-300,3")
        out.append(f"{op}@i8 a3:12,12,5 a3:12,-12,5")
    for ty, big in (("i8", 100), ("i16", 20000)):
        out.append(f"dot@{ty} a1:2 a3:{big},3,-{big}")
        out.append(f"dot@{ty} a3:{big},3,-{big} a1:2")
        out.append(f"dot@{ty} a1x1:3 a2x2:{big},1,-{big},2")
        out.append(f"outer@{ty} a2:2,3 a2:{big},-{big}")
        out.append(f"matmul@{ty} a2x2:{big},{big},1,0 a2x2:1,0,1,1")
        out.append(f"vdot@{ty} a2:{big},{big} a2:1,1")
        out.append(f"inner@{ty} a2:{big},{big} a2:1,1")
    # equally shaped stacks whose blocks do not conform ([k,m,n] @ [k,m,n], m != n) are refused (seeded change C14p)
    for sh in ([2, 3, 2], [1, 3, 2], [3, 2, 1], [2, 4, 2], [2, 2, 3], [3, 1, 2], [2, 2, 5], [2, 2, 3, 2], [2, 1, 2, 3]):
        for ty in ("i32", "f64"):
            out.append(f"matmul@{ty} {arr(sh, vals(rng, prod(sh)))} {arr(sh, vals(rng, prod(sh)))}")
    out.append("matmul@f32 a2x2:4097,-4096,1,0 a2x2:4097,0,4098,1")
    out.append("matmul@i16 a2x2:300,300,1,0 a2x2:300,0,-300,1")
    out.append("inner@f32 a1x3:16777216,1,-16777216 a2x3:1,1,1,0,1,0")
    # float entries from the pool (NaN, infinities, signed zeros, fractions, 1e300, subnormal): the model names the
    # products each entry adds, in order; agree() evaluates that expression in IEEE arithmetic
    fp = lambda n: [rng.randrange(20) for _ in range(n)]
    tame = lambda n: [rng.choice([2, 3, 4, 5, 6, 7, 14, 15, 16, 17, 18, 19, 0, 1]) for _ in range(n)]
    for k_, (s1, s2) in enumerate(itertools.product(vecs + mats, repeat=2)):
        if tier == "quick" and k_ % 2:
            continue
        ty = "f64p" if k_ % 4 < 2 else "f32p"
        pick = fp if k_ % 3 else tame
        a, b = arr(s1, pick(prod(s1))), arr(s2, pick(prod(s2)))
        out.append(f"sym_matmul@{ty} {a} {b}")
        if k_ % 5 == 0:
            out.append(f"sym_dot@{ty} {a} {b}")
        if prod(s1) <= 6 and prod(s2) <= 6:
            out.append(f"sym_outer@{ty} {a} {b}")
            out.append(f"sym_vdot@{ty} {a} {b}")
        if len(s1) == len(s2):
            out.append(f"sym_inner@{ty} {a} {b}")
    for L in (8, 17, 33, 64):
        for ty in ("f64p", "f32p"):
            out.append(f"sym_vdot@{ty} {arr([L], tame(L))} {arr([L], tame(L))}")
            out.append(f"sym_inner@{ty} {arr([L], fp(L))} {arr([L], tame(L))}")
            if L <= 17:
                out.append(f"sym_matmul@{ty} {arr([L, L], tame(L * L))} {arr([L], tame(L))}")
    for b_ in (2, 3):
        for n_ in (1, 2, 3):
            s1 = [b_, n_, n_]
            out.append(f"sym_matmul@f64p {arr(s1, fp(prod(s1)))} {arr(s1, tame(prod(s1)))}")
    n = 100 if tier == "quick" else 3000
    for _ in range(n):
        r, kk, p = rng.randint(1, 5), rng.randint(1, 5), rng.randint(1, 5)
        kk2 = kk if rng.random() < 0.8 else rng.randint(1, 5)
        out.append(f"matmul@{rng.choice(tys)} {arr([r, kk], vals(rng, r * kk))} {arr([kk2, p], vals(rng, kk2 * p))}")
        out.append(f"matmul@{rng.choice(tys)} {arr([r, kk], vals(rng, r * kk))} {arr([kk2], vals(rng, kk2))}")
        out.append(f"matmul@{rng.choice(tys)} {arr([kk2], vals(rng, kk2))} {arr([kk, p], vals(rng, kk * p))}")
    return out


def _sym_judge(case, impl, model):
    """the model's formal sums evaluated on the case's float values (floatsem: exact NaN / infinity behaviour, finite
    values within a rounding bound; evaluation order and fused operations are not pinned)"""
    import vlib, re
    import floatsem
    t = case.split(" ")
    single = t[0].endswith("f32p")
    la = [x for x in t[1].split(":")[1].split(",") if x]
    lb = [x for x in t[2].split(":")[1].split(",") if x]
    m = re.match(r"^list\((.*)\)$", model)
    got = vlib.parse_arr(impl)
    if not m or got is None:
        return False
    parts = m.group(1).split(";")
    lists = [[int(x) for x in p[2:-1].split(",") if x] for p in parts]
    shape, entries = lists[0], lists[1:]
    if "x".join(str(d) for d in shape) != got[0] or len(entries) != len(got[1]):
        return False
    for codes, tok in zip(entries, got[1]):
        terms = []
        for c in codes:
            i, j = divmod(c - 1, 1000)
            terms.append(floatsem.product_spec([floatsem.value(la[i], single), floatsem.value(lb[j], single)]))
        if t[0].startswith("sym_outer"):
            spec = terms[0] if terms[0][0] != "num" else ("num", terms[0][1], abs(terms[0][1]))
        else:
            spec = floatsem.sum_spec(terms)
        mags = [abs(x[1]) for x in terms if x[0] == "num"]
        if floatsem.judge(tok, spec, single, 2 * len(terms) + 1, mags=mags) is False:
            return False
    return True


def agree(case, impl, model):
    import vlib
    if case.startswith("sym_"):
        if not model.startswith("list("):
            return vlib.canon(impl) == vlib.canon(model)
        return _sym_judge(case, impl, model)
    # 8- and 16-bit element types: an entry beyond the type's range is the exact sum converted to the type (saturated),
    # never a wrapped value or a panic (seeded change C14n: dot with a one-element operand multiplied in the type)
    ty = case.split(" ")[0].partition("@")[2]
    if ty in ("i8", "i16") and model.startswith("arr("):
        lo, hi = (-128, 127) if ty == "i8" else (-32768, 32767)
        pi, pm = vlib.parse_arr(impl), vlib.parse_arr(model)
        if pi is None or pm is None or pi[0] != pm[0] or len(pi[1]) != len(pm[1]):
            return False
        return all(int(a) == max(lo, min(hi, int(b))) for a, b in zip(pi[1], pm[1]))
    # values, not bit patterns: -0.0 (a product such as 0 * -3) equals 0
    nz = impl.replace("f8000000000000000", "0").replace("f80000000", "0")
    return vlib.canon(nz) == vlib.canon(model)

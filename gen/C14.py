"""C14 cases.  matmul / dot / inner / outer / vdot for every conforming and non-conforming pair among vectors
(length 1..4), matrices (1..4 x 1..4) and stacks of 2..3 matrices, with small integer entries (|x| <= 9, so f64
arithmetic is exact and the Coq Z instance gives the expected value of every entry) on i32, i64, f64, f32."""
import itertools
from common import *

EXHAUSTIVE = True
BOUNDS = "all pairs of vector (len 1..4) / matrix (1..4 x 1..4) shapes; stacks of 2..3 matrices with sides 1..3"


def vals(rng, n):
    return [rng.randint(-9, 9) for _ in range(n)]


def gen(seed, tier):
    rng = random.Random(seed)
    out = []
    vecs = [[n] for n in range(1, 5)]
    mats = [[r, c] for r in range(1, 5) for c in range(1, 5)]
    tys = ["i32", "i64", "f64", "f32"]
    k = 0
    for s1, s2 in itertools.product(vecs + mats, repeat=2):
        ty = tys[k % 4]; k += 1
        a, b = arr(s1, vals(rng, prod(s1))), arr(s2, vals(rng, prod(s2)))
        for op in ("matmul", "dot"):
            out.append(f"{op}@{ty} {a} {b}")
        if len(s1) == 2 and len(s2) == 2 and rng.random() < 0.3:
            out.append(f"inner@{ty} {a} {b}")
        if prod(s1) <= 6 and prod(s2) <= 6:
            out.append(f"outer@{ty} {a} {b}")
            out.append(f"vdot@{ty} {a} {b}")
    for s1, s2 in itertools.product(vecs, repeat=2):
        out.append(f"inner {arr(s1, vals(rng, s1[0]))} {arr(s2, vals(rng, s2[0]))}")
    for b in (2, 3):
        for n, kk, p in itertools.product((1, 2, 3), repeat=3):
            s1, s2 = [b, n, kk], [b, kk, p]
            out.append(f"matmul@{tys[(n + kk + p) % 4]} {arr(s1, vals(rng, prod(s1)))} {arr(s2, vals(rng, prod(s2)))}")
        for n in (1, 2, 3):
            s1, s2 = [b, n, n], [n, n]
            out.append(f"matmul {arr(s1, vals(rng, prod(s1)))} {arr(s2, vals(rng, prod(s2)))}")
            out.append(f"matmul {arr(s2, vals(rng, prod(s2)))} {arr(s1, vals(rng, prod(s1)))}")
    for s1, s2 in [([2, 3], [3, 2]), ([3, 2], [3, 2]), ([2, 2, 3], [2, 2, 3]), ([2, 3], [4, 3]), ([2, 3], [3]), ([3], [2, 3])]:
        out.append(f"inner {arr(s1, vals(rng, prod(s1)))} {arr(s2, vals(rng, prod(s2)))}")
    # long inner dimensions / long vectors (a blocked or chunked product must not lose a tail); square sides, since the
    # repository's matmul compares rows(a) with cols(b) (open finding F15)
    small = lambda n: [rng.randint(-3, 3) for _ in range(n)]
    for L in (7, 8, 9, 15, 16, 17, 31, 32, 33, 63, 64, 65, 100, 129):
        ty = tys[L % 4]
        out.append(f"vdot@{ty} {arr([L], small(L))} {arr([L], small(L))}")
        out.append(f"inner@{ty} {arr([L], small(L))} {arr([L], small(L))}")
        out.append(f"dot@{ty} {arr([L], small(L))} {arr([L], small(L))}")
        out.append(f"matmul@{ty} {arr([L], small(L))} {arr([L], small(L))}")
        if L <= 33:
            out.append(f"matmul@{ty} {arr([L, L], small(L * L))} {arr([L], small(L))}")
            out.append(f"matmul@{ty} {arr([L], small(L))} {arr([L, L], small(L * L))}")
            out.append(f"inner@{ty} {arr([2, L], small(2 * L))} {arr([3, L], small(3 * L))}")
        if L <= 17:
            out.append(f"matmul@{ty} {arr([L, L], small(L * L))} {arr([L, L], small(L * L))}")
            out.append(f"outer@{ty} {arr([L], small(L))} {arr([L + 1], small(L + 1))}")
    n = 100 if tier == "quick" else 3000
    for _ in range(n):
        r, kk, p = rng.randint(1, 5), rng.randint(1, 5), rng.randint(1, 5)
        kk2 = kk if rng.random() < 0.8 else rng.randint(1, 5)
        out.append(f"matmul@{rng.choice(tys)} {arr([r, kk], vals(rng, r * kk))} {arr([kk2, p], vals(rng, kk2 * p))}")
        out.append(f"matmul@{rng.choice(tys)} {arr([r, kk], vals(rng, r * kk))} {arr([kk2], vals(rng, kk2))}")
        out.append(f"matmul@{rng.choice(tys)} {arr([kk2], vals(rng, kk2))} {arr([kk, p], vals(rng, kk * p))}")
    return out


def agree(case, impl, model):
    # values, not bit patterns: -0.0 (a product such as 0 * -3) equals 0
    import vlib
    nz = impl.replace("f8000000000000000", "0").replace("f80000000", "0")
    return vlib.canon(nz) == vlib.canon(model)

"""C07 cases: reshape to every shape of equal count (and some of unequal count), ravel, atleast 0..4,
expand_dims with every axis list of size <= 2 in [-n-3, n+2], squeeze None / every single axis / pairs,
resize / cycle_take, create with ndmin, on every array of rank 1..4 with lengths 1..3 (plus unit-axis-rich
shapes); random chains (as separate calls on the previous result's shape) are in C01."""
import itertools
from common import *

EXHAUSTIVE = True
BOUNDS = "all shapes rank 1..4 lengths 1..3; all target shapes (rank<=4, len<=6) of equal count; all axis lists of size<=2"


def factorizations(n, max_rank=4):
    res = []
    def go(rem, cur):
        if len(cur) > max_rank:
            return
        if rem == 1 and cur:
            res.append(list(cur))
        for d in range(1, rem + 1):
            if rem % d == 0 and (d > 1 or cur.count(1) < 2) and len(cur) < max_rank:
                go(rem // d, cur + [d])
    go(n, [])
    return res


def per_shape(sh, out, rng, ty):
    n = len(sh)
    cnt = prod(sh)
    a = arr(sh)
    out.append(f"ravel@{ty} {a}")
    for t in factorizations(cnt):
        out.append(f"reshape@{ty} {a} {lst(t)}")
    for t in ([cnt + 1], [cnt, 2], [0], [], [cnt - 1] if cnt > 1 else [3]):
        out.append(f"reshape@{ty} {a} {lst(t)}")
    for k in range(0, 6):
        out.append(f"atleast@{ty} {a} {z(k)}")
    r = range(-n - 3, n + 3)
    for x in r:
        out.append(f"expand_dims@{ty} {a} {lst([x])}")
        out.append(f"squeeze@{ty} {a} {lst([x])}")
    for x, y in itertools.product(r, repeat=2):
        out.append(f"expand_dims@{ty} {a} {lst([x, y])}")
        if rng.random() < 0.5:
            out.append(f"squeeze@{ty} {a} {lst([x, y])}")
    # axis lists of three entries, repeated and non-adjacent repeats in both spellings included (seeded change C07h:
    # dedup before sort leaves [0, 2, 0] with a repeated axis)
    trip = list(itertools.product(range(-n, n), repeat=3))
    if len(trip) > 64:
        trip = rng.sample(trip, 64) + [(0, n - 1, 0), (0, n - 1, -n), (-1, 0, n - 1), (n - 1, 0, -1)]
    for t in trip:
        out.append(f"squeeze@{ty} {a} {lst(t)}")
        if rng.random() < 0.3:
            out.append(f"expand_dims@{ty} {a} {lst(t)}")
    out.append(f"expand_dims@{ty} {a} l")
    out.append(f"expand_dims@{ty} {a} {lst([0, 1, 2])}")
    out.append(f"expand_dims@{ty} {a} {lst([-1, -2, -3])}")
    out.append(f"squeeze@{ty} {a} n")
    out.append(f"squeeze@{ty} {a} l")
    for t in ([2], [7], [2, 3], [3, 1, 2], [0], [cnt], []):
        out.append(f"resize@{ty} {a} {lst(t)}")
    for k in (0, 1, cnt, cnt + 2, 2 * cnt + 1):
        out.append(f"cycle_take@{ty} {a} {z(k)}")
    for nd in (None, 0, 1, n, n + 1, n + 3):
        out.append(f"create@{ty} {lst(range(cnt))} {lst(sh)} {opt(nd)}")
    out.append(f"create@{ty} {lst(range(cnt + 1))} {lst(sh)} {opt(n + 2)}")


def gen(seed, tier):
    rng = random.Random(seed)
    out = []
    TYS = ["i32", "str", "list", "pair", "f64", "u8", "i64", "f32", "i16", "u16", "u64"]      # element types in rotation
    for k, sh in enumerate(shapes(4, 3)):
        per_shape(sh, out, rng, TYS[k % len(TYS)])
    for sh in ([1, 1], [1, 1, 1], [1, 5, 1], [4, 1, 1, 2], [1, 1, 1, 1], [6], [1], [2, 6]):
        per_shape(sh, out, rng, "i64")
    # larger element counts (blocked copies, doubling growth)
    for sh in ([17], [33], [64], [100], [2, 17], [4, 8], [3, 5, 7], [257], [300], [16, 17], [3, 100], [1100], [5, 7, 9]):
        cnt = prod(sh)
        a = arr(sh)
        out.append(f"ravel {a}")
        for t in factorizations(cnt)[:12]:
            out.append(f"reshape {a} {lst(t)}")
        for k in (cnt - 1, cnt + 1, 2 * cnt, 2 * cnt + 3, 3 * cnt - 1, 5 * cnt + 7, 7):
            out.append(f"cycle_take {a} {z(k)}")
            out.append(f"resize {a} {lst([k])}")
        out.append(f"resize {a} {lst([3, cnt])}")
        out.append(f"resize {a} {lst([cnt, 2, 2])}")
        out.append(f"squeeze {a} n")
        out.append(f"expand_dims {a} l0,-1")
        out.append(f"atleast {a} z4")
    # rank-0 receivers (one element, empty shape): inside the property's domain they arise from squeeze(None) of an
    # all-unit shape or reshape to [] (seeded change C07j: atleast(2) / atleast(3) returned them unchanged)
    for k in range(5):
        out.append(f"atleast a:7 z{k}")
    for t in ([], [1], [1, 1], [1, 1, 1], [2], [0]):
        out.append(f"reshape a:7 {lst(t)}")
        out.append(f"resize a:7 {lst(t)}")
    for ax in ([0], [-1], [0, 1], [1], [-2], [0, 0]):
        out.append(f"expand_dims a:7 {lst(ax)}")
    out.append("squeeze a:7 n")
    out.append("squeeze a:7 l0")
    out.append("ravel a:7")
    out.append("cycle_take a:7 z3")
    for sh in ([1], [1, 1], [1, 1, 1], [1, 1, 1, 1]):
        out.append(f"reshape {arr(sh)} l")
        out.append(f"squeeze {arr(sh)} n")
    out.append("resize a0: l2")
    out.append("resize a0: l0")
    out.append("cycle_take a0: z3")
    out.append("squeeze a0: n")
    out.append("ravel a0:")
    out.append("atleast a0: z2")
    out.append("atleast a0: z3")
    # zero-size arrays: a named axis may be removed only when its length is one — an element count of 0 before and
    # after must not hide a removed axis of length 0, 2, 3.. (seeded change C07l: the check was left to reshape)
    for sh in ([0], [0, 3], [2, 0], [1, 0, 4], [0, 1], [1, 0], [0, 1, 1], [2, 0, 1], [0, 0], [1, 0, 1], [3, 1, 0], [0, 2, 1, 1]):
        n = len(sh)
        a = arr(sh)
        for x in range(-n - 1, n + 1):
            out.append(f"squeeze {a} {lst([x])}")
            out.append(f"expand_dims {a} {lst([x])}")
        for x, y in itertools.product(range(-n, n), repeat=2):
            out.append(f"squeeze {a} {lst([x, y])}")
        out.append(f"squeeze {a} n")
        out.append(f"ravel {a}")
        for k in range(5):
            out.append(f"atleast {a} {z(k)}")
        for t in ([0], [0, 2], [3, 0], [1, 0, 1], [], [1], [0, 0]):
            out.append(f"reshape {a} {lst(t)}")
    if tier == "thorough":
        for _ in range(400):
            sh = rand_shape(rng, 4, (1, 1, 2, 3, 4, 5))
            per_shape(sh, out, rng, "i32")
    return out

"""C01 cases.  Exhaustive part: new / create (ndmin None..5) / reshape / flat / single / empty for all shapes
of rank 0..4 with lengths 0..3 against every element count 0..prod+2.  History part: random operation chains of
1..12 calls drawn from every modelled array->array operation, each applied to the previous result (an error
keeps the previous array), model and implementation compared after every step.  In every run of every property
the harness additionally asserts len == prod(shape), ndim == shape.len(), is_empty == (len == 0),
elements.len() == len on every array it prints (the universal monitor: a violation prints `!wf(...)`, which
no model output can equal).  Surface sweep: a random sample of the cases of every other property whose generator
drives the main harness binary (C02-C17, C19, C20) is run once more here, so that the monitor and the
model/implementation comparison cover the whole modelled surface inside the C01 check itself."""
import itertools
from common import *
import opspec

import importlib

EXHAUSTIVE = True
SWEEP = ["C02", "C03", "C04", "C05", "C06", "C07", "C08", "C10", "C11", "C12", "C13", "C14", "C16", "C17", "C19", "C20"]
_origin = {}


class _Harvested(Exception):
    pass


def _harvest(mod, seed):
    """the (first-round) case lines of another property's generator"""
    if hasattr(mod, "gen"):
        return list(mod.gen(seed, "quick"))
    got = []

    def rec(lines):
        got.extend(lines)
        raise _Harvested()
    try:
        mod.gen_rounds(seed, "quick", rec)
    except _Harvested:
        pass
    return got


def agree(case, impl, model):
    m = _origin.get(case)
    hook = getattr(m, "agree", None) if m else None
    return hook(case, impl, model) if hook else None

BOUNDS = "new/create/reshape: all shapes rank 0..4 lengths 0..3 x element counts 0..prod+2"


def gen_rounds(seed, tier, run):
    rng = random.Random(seed)
    out = []
    for sh in [[]] + list(shapes(4, 3, min_len=0)):
        p = prod(sh)
        for cnt in range(0, p + 3):
            es = list(range(cnt))
            out.append(f"new {lst(es)} {lst(sh)}")
            if len(sh) <= 3:
                for nd in (None, 0, 2, 5):
                    out.append(f"create {lst(es)} {lst(sh)} {opt(nd)}")
            if cnt == p and p > 0 and len(sh) >= 1:
                for t in ([p + 1], [p, 0], [p - 1], []):
                    out.append(f"reshape {arr(sh)} {lst(t)}")
    for ty in ("i32", "i64", "u8", "f64", "str"):
        out.append(f"new@{ty} l1,2,3,4,5,6 l2,3")
        out.append(f"new@{ty} l1,2,3,4,5 l2,3")
        out.append(f"flat@{ty} l1,2,3")
        out.append(f"flat@{ty} l")
        out.append(f"single@{ty} z7")
        out.append(f"empty@{ty}")
    # arrays collected from filtering iterators (FromIterator): size hints that are upper bounds only
    for ty in ("i32", "str", "f64", "u8", "list", "pair"):
        for n in (0, 1, 2, 5, 8, 13):
            for m in (1, 2, 3, 7):
                for kind in (0, 1, 2, 3):
                    out.append(f"collect_filter@{ty} {lst([rng.randint(1, 40) for _ in range(n)])} z{m} z{kind}")
    run(out)
    # histories
    nh = 1500 if tier == "quick" else 30000
    hist = []
    for _ in range(nh):
        sh = rand_shape(rng, 4, (1, 1, 2, 3, 4)) if rng.random() < 0.95 else [0]
        hist.append({"sh": sh, "tok": arr(sh), "len": rng.randint(1, 12), "ty": rng.choice(["i32", "i32", "str", "i64"])})
    for step in range(12):
        live = [h for h in hist if h["len"] > step]
        if not live:
            break
        lines = []
        for h in live:
            call = opspec.rand_call(rng, h["sh"], h["ty"], h.get("maxabs", 0))
            name, _, rest = call.partition(" ")
            lines.append(f"{name}@{h['ty']} " + rest.replace("{a}", h["tok"]))
        impl, model = run(lines)
        for h, im in zip(live, impl):
            r = opspec.parse_arr_result(im)
            if r is not None and prod(r[0]) <= 400:
                h["sh"], h["tok"] = r
                if h["ty"] != "str":
                    body = r[1].partition(":")[2]
                    h["maxabs"] = max([abs(int(x)) for x in body.split(",") if x] or [0])
    # operator traits on unequal shapes (broadcast-compatible or not) must refuse; they never yield an array
    ops = []
    small_shapes = [[1], [2], [3], [1, 1], [1, 2], [2, 1], [2, 2], [1, 3], [2, 3], [3, 1], [2, 1, 3], [2, 4, 3], [1, 2, 2]]
    for s1 in small_shapes:
        for s2 in small_shapes:
            if s1 == s2:
                continue
            for o in range(8):
                ty = "i32" if o < 5 else rng.choice(["u8", "bool", "i32"])
                e1, e2 = [1] * prod(s1), [1] * prod(s2)
                ops.append(f"op2@{ty} z{o} {arr(s1, e1)} {arr(s2, e2)}")
                if o < 5 or rng.random() < 0.5:
                    ops.append(f"op2a@{ty} z{o} {arr(s1, e1)} {arr(s2, e2)}")
    run(ops)
    # joins of inputs that do not fit together (ragged vectors, differing rows / columns): refused, never answered
    rag = []
    L = lambda arrs: f"L{len(arrs)} " + " ".join(arrs)
    for op in ("vstack", "row_stack", "dstack", "column_stack", "stack", "concatenate"):
        tail = " z0" if op in ("stack", "concatenate") else ""
        for lens in itertools.product((1, 2, 3, 4), repeat=2):
            rag.append(f"{op} {L([arr([n], base=10 * k) for k, n in enumerate(lens)])}{tail}")
        for lens in itertools.product((1, 2, 3), repeat=3):
            rag.append(f"{op} {L([arr([n], base=10 * k) for k, n in enumerate(lens)])}{tail}")
        for s1 in ([2, 2], [2, 3], [3, 2], [1, 2], [2, 1]):
            for s2 in ([2, 2], [2, 3], [3, 2], [1, 3], [3], [2]):
                rag.append(f"{op} {L([arr(s1), arr(s2, base=50)])}{tail}")
                if op in ("stack", "concatenate"):
                    rag.append(f"{op} {L([arr(s1), arr(s2, base=50)])} z1")
    run(rag)
    # lane operations whose per-lane results differ in length (ragged): the re-assembly must refuse them, along every
    # axis — the last one included (seeded change C01h: a fast path for the last axis skipped the reshape that checks it)
    lanes = []
    for sh in shapes(3, 3):
        if len(sh) < 2:
            continue
        n = len(sh)
        for ax in range(-n, n):
            for _ in range(4):
                es = [rng.randint(0, 2) for _ in range(prod(sh))]
                lanes.append(f"unique {arr(sh, es)} z{ax}")
            es = list(range(prod(sh)))
            es[0] = es[-1]
            lanes.append(f"unique {arr(sh, es)} z{ax}")
    run(lanes)
    # arrays with a zero-length axis (the property's quantifier names empty arrays) through every modelled call
    empties = []
    for sh in ([0], [2, 0], [0, 3], [2, 0, 3], [0, 0], [1, 0, 2, 2], [3, 1, 0]):
        for _ in range(150 if tier == "quick" else 1500):
            ty = rng.choice(["i32", "i64", "str"])
            call = opspec.rand_call(rng, sh, ty, 0)
            name, _, rest = call.partition(" ")
            empties.append(f"{name}@{ty} " + rest.replace("{a}", arr(sh)))
    run(sorted(set(empties)))
    # public operations WITHOUT a model: only the well-formedness of what they return is judged (monitor-only calls)
    mon = []
    M = lambda name, ty, rest: mon.append(f"mon@{ty} s{hexs(name)} {rest}")
    for sh in list(shapes(3, 3)) + [[0], [2, 0], [7], [2, 5], [3, 1, 4]]:
        n = len(sh)
        for ty in ("i32", "f64"):
            a = arr(sh, [rng.randint(-5, 9) for _ in range(prod(sh))])
            for k in (0, 1, 2, 4):
                for ax in [None] + list(range(-n, n)) + [n]:
                    M("diff", ty, f"{a} {z(k)} {opt(ax)} n n")
            M("diff", ty, f"{a} z1 n {arr([2], [7, 8])} {arr([1], [9])}")
            if n >= 1:
                M("diff", ty, f"{a} z1 z0 {arr([1] + sh[1:], [1] * prod(sh[1:]))} n")
            M("ediff1d", ty, f"{a} n n")
            M("ediff1d", ty, f"{a} {arr([2], [1, 2])} {arr([1], [3])}")
            M("clip", ty, f"{a} {arr([1], [0])} {arr([1], [4])}")
            M("clip", ty, f"{a} n {arr(sh[-1:], [3] * sh[-1])}")
            M("clip", ty, f"{a} {arr([2], [0, 1])} n")
            M("clip", ty, f"{a} n n")
            for lo, hi in ((0, 0), (0, 1), (1, 3), (0, sh[0]), (2, 1), (0, sh[0] + 2), (sh[0], sh[0])):
                M("slice", ty, f"{a} {z(lo)} {z(hi)}")
            tot = prod(sh)
            M("indices_at", ty, f"{a} {lst([0] if tot else [])}")
            M("indices_at", ty, f"{a} {lst([tot - 1, 0, 0] if tot else [0])}")
            M("indices_at", ty, f"{a} {lst([tot])}")
            M("modf", ty, a); M("divmod", ty, a); M("nan_to_num", ty, a)
            for kd in (0, 1, 2):
                for o in ("n", "z1", "z2", "z99", "s" + hexs("fro")):
                    M("norm", ty, f"{a} {o} n z{kd}")
                    for ax in range(-n, n):
                        if rng.random() < 0.4:
                            M("norm", ty, f"{a} {o} z{ax} z{kd}")
                if n >= 2:
                    M("norm", ty, f"{a} n {lst([0, 1])} z{kd}")
            for b in ([1], [2], [3], [2, 2], [0]):
                for mode in ("n", "s" + hexs("full"), "s" + hexs("valid"), "s" + hexs("same"), "s" + hexs("nope")):
                    if n == 1 or rng.random() < 0.15:
                        M("convolve", ty, f"{a} {arr(b, [1] * prod(b))} {mode}")
        af = arr(sh, [rng.randint(-5, 9) for _ in range(prod(sh))])
        M("sinc", "f64", af); M("i0", "f64", af)
        for ax in [None] + list(range(-n, n)):
            M("unwrap_phase", "f64", f"{af} {opt(ax)}")
    for sh in ([2, 2], [3, 3], [1, 1], [2, 3], [2, 2, 2], [4], [0]):
        for _ in range(3):
            M("eig", "f64", arr(sh, [rng.randint(-4, 4) for _ in range(prod(sh))]))
            M("eigvals", "f64", arr(sh, [rng.randint(-4, 4) for _ in range(prod(sh))]))
    run(sorted(set(mon)))
    # surface sweep
    per = 250 if tier == "quick" else 3000
    sweep = []
    for p in SWEEP:
        m = importlib.import_module(p)
        lines = _harvest(m, seed)
        # operations with an open known finding (F11 hstack, F15 matmul/dot) are decided by their own property's check
        lines = [l for l in lines if l.split(" ")[0].split("@")[0] not in ("hstack", "matmul", "dot")]
        for l in rng.sample(lines, min(per, len(lines))):
            if l not in _origin:
                _origin[l] = m
                sweep.append(l)
    run(sweep)

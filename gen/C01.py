"""C01 cases.  Exhaustive part: new / create (ndmin None..5) / reshape / flat / single / empty for all shapes
of rank 0..4 with lengths 0..3 against every element count 0..prod+2.  History part: random operation chains of
1..12 calls drawn from every modelled array->array operation, each applied to the previous result (an error
keeps the previous array), model and implementation compared after every step.  In every run of every property
the harness additionally asserts len == prod(shape), ndim == shape.len(), is_empty == (len == 0),
elements.len() == len on every array it prints (the universal monitor: a violation prints `!wf(...)`, which
no model output can equal)."""
import itertools
from common import *
import opspec

EXHAUSTIVE = True
BOUNDS = "new/create/reshape: all shapes rank 0..4 lengths 0..3 x element counts 0..prod+2"


def gen_rounds(seed, tier, run):
    rng = random.Random(seed)
    out = []
    for sh in [[]] + list(shapes(4, 3, min_len=0)):
        p = prod(sh)
        for cnt in range(0, p + 3):
            es = list(range(cnt))
            out.append(f"new {lst(es)} {lst(sh)}")
            if len(sh) <= 3:
                for nd in (None, 0, 2, 5):
                    out.append(f"create {lst(es)} {lst(sh)} {opt(nd)}")
            if cnt == p and p > 0 and len(sh) >= 1:
                for t in ([p + 1], [p, 0], [p - 1], []):
                    out.append(f"reshape {arr(sh)} {lst(t)}")
    for ty in ("i32", "i64", "u8", "f64", "str"):
        out.append(f"new@{ty} l1,2,3,4,5,6 l2,3")
        out.append(f"new@{ty} l1,2,3,4,5 l2,3")
        out.append(f"flat@{ty} l1,2,3")
        out.append(f"flat@{ty} l")
        out.append(f"single@{ty} z7")
        out.append(f"empty@{ty}")
    run(out)
    # histories
    nh = 1500 if tier == "quick" else 30000
    hist = []
    for _ in range(nh):
        sh = rand_shape(rng, 4, (1, 1, 2, 3, 4)) if rng.random() < 0.95 else [0]
        hist.append({"sh": sh, "tok": arr(sh), "len": rng.randint(1, 12), "ty": rng.choice(["i32", "i32", "str", "i64"])})
    for step in range(12):
        live = [h for h in hist if h["len"] > step]
        if not live:
            break
        lines = []
        for h in live:
            call = opspec.rand_call(rng, h["sh"])
            name, _, rest = call.partition(" ")
            lines.append(f"{name}@{h['ty']} " + rest.replace("{a}", h["tok"]))
        impl, model = run(lines)
        for h, im in zip(live, impl):
            r = opspec.parse_arr_result(im)
            if r is not None and prod(r[0]) <= 400:
                h["sh"], h["tok"] = r

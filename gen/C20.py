"""C20 cases.  The five arithmetic operators (+ - * / %) as array(op)array, array(op)scalar, (op)= array, (op)= scalar
on i8/i16/i32/i64 with non-overflowing values (results compared with the Coq Z instances: Z.add, Z.sub, Z.mul,
Z.quot, Z.rem) and on f64/f32 over a pool with +-0, inf, NaN (compared, position by position, with the NATIVE scalar
operator applied by the harness to the operand pair the model places there); unary minus; & | ^ and ! on bool, u8,
i32 (all four forms); ==, != and partial_cmp / < <= > >= on equal shapes (integers against the model, floats against
the native comparison of the flat vectors); mismatching shape pairs (must be rejected by panic, never combined).
Shapes: all of rank 1..4 with lengths 1..3 plus random."""
import itertools
from common import *
import vlib

EXHAUSTIVE = True
BOUNDS = "all shapes rank 1..4 lengths 1..3 for every operator form; ordering on all pairs of element vectors over {0,1,2} up to length 3"


def agree(case, impl, model):
    head = case.split(" ")[0]
    name, _, ty = head.partition("@")
    if ty.endswith("p") and name == "negp":
        return vlib.table_agree(impl, model, 1)
    if ty.endswith("p") and name in ("op2", "op2a", "op2s", "op2as"):
        if name in ("op2s", "op2as"):
            # model gives the array of labels x; table keys are x/s
            res, _, tbl = impl.partition("|tbl(")
            if not res.startswith("arr("):
                return vlib.canon(res) == vlib.canon(model)
            s = case.split(" ")[3][1:]
            ia, ma = vlib.parse_arr(res), vlib.parse_arr(model)
            if ia is None or ma is None or ia[0] != ma[0] or len(ia[1]) != len(ma[1]):
                return False
            t = dict(kv.split("=") for kv in tbl.rstrip(")").split(";") if kv)
            return all(t.get(f"{k}/{s}") == v for v, k in zip(ia[1], ma[1]))
        return vlib.table_agree(impl, model, 2)
    if ty.endswith("p") and name in ("eq", "cmp"):
        if "|" not in impl:
            return vlib.canon(impl) == vlib.canon(model)
        parts = impl.split("|")
        v = parts[0][2:-1]
        nat = parts[1][4:-1]
        ok = v == nat
        if name == "eq":
            ok = ok and parts[2] == f"ne({1 - int(v)})"
        else:
            ok = ok and parts[2] == "ops(1)"
        return ok and model.startswith("z(")
    return None


def small(rng, ty, n, nonzero=False):
    lim = {"i8": 10, "i16": 150, "i32": 10000, "i64": 10 ** 6}.get(ty, 9)
    vals = [rng.randint(-lim, lim) for _ in range(n)]
    if nonzero:
        vals = [v if v != 0 else 1 for v in vals]
    return vals


def gen(seed, tier):
    rng = random.Random(seed)
    out = []
    shs = list(shapes(4, 3))
    for k, sh in enumerate(shs):
        n = prod(sh)
        for o in range(5):
            ty = ["i8", "i16", "i32", "i64"][(k + o) % 4]
            e1 = small(rng, ty, n)
            e2 = small(rng, ty, n, nonzero=(o >= 3 and rng.random() < 0.9))
            if o == 2:
                e1 = [v % 11 - 5 for v in e1]; e2 = [v % 11 - 5 for v in e2]
            sc = small(rng, ty, 1, nonzero=(o >= 3))[0]
            if o == 2:
                sc = sc % 7 - 3
            out.append(f"op2@{ty} z{o} {arr(sh, e1)} {arr(sh, e2)}")
            out.append(f"op2a@{ty} z{o} {arr(sh, e1)} {arr(sh, e2)}")
            out.append(f"op2s@{ty} z{o} {arr(sh, e1)} z{sc}")
            out.append(f"op2as@{ty} z{o} {arr(sh, e1)} z{sc}")
            fty = "f64p" if (k + o) % 2 else "f32p"
            f1 = [rng.randrange(20) for _ in range(n)]
            f2 = [rng.randrange(20) for _ in range(n)]
            out.append(f"op2@{fty} z{100 + o} {arr(sh, f1)} {arr(sh, f2)}")
            out.append(f"op2a@{fty} z{100 + o} {arr(sh, f1)} {arr(sh, f2)}")
            out.append(f"op2s@{fty} z{100 + o} {arr(sh, f1)} z{rng.randrange(20)}")
            out.append(f"op2as@{fty} z{100 + o} {arr(sh, f1)} z{rng.randrange(20)}")
        out.append(f"neg@{['i8', 'i16', 'i32', 'i64'][k % 4]} {arr(sh, small(rng, 'i8', n))}")
        out.append(f"negp@f64p {arr(sh, [rng.randrange(20) for _ in range(n)])}")
        for o in (5, 6, 7):
            for ty, hi in (("bool", 1), ("u8", 255), ("i32", 1000)):
                e1 = [rng.randint(0, hi) for _ in range(n)]
                e2 = [rng.randint(0, hi) for _ in range(n)]
                sc = rng.randint(0, hi)
                out.append(f"op2@{ty} z{o} {arr(sh, e1)} {arr(sh, e2)}")
                out.append(f"op2a@{ty} z{o} {arr(sh, e1)} {arr(sh, e2)}")
                out.append(f"op2s@{ty} z{o} {arr(sh, e1)} z{sc}")
                out.append(f"op2as@{ty} z{o} {arr(sh, e1)} z{sc}")
        out.append(f"not@bool {arr(sh, [rng.randint(0, 1) for _ in range(n)])}")
        # equality / ordering
        e1 = [rng.randint(0, 2) for _ in range(n)]
        e2 = list(e1)
        if rng.random() < 0.6:
            e2[rng.randrange(n)] = rng.randint(0, 2)
        out.append(f"eq@i32 {arr(sh, e1)} {arr(sh, e2)}")
        out.append(f"cmp@i32 {arr(sh, e1)} {arr(sh, e2)}")
        f1 = [rng.choice([0, 1, 2, 3, 13, 11]) for _ in range(n)]
        f2 = list(f1)
        if rng.random() < 0.6:
            f2[rng.randrange(n)] = rng.choice([0, 1, 2, 13])
        out.append(f"eq@f64p {arr(sh, f1)} {arr(sh, f2)}")
        out.append(f"cmp@f64p {arr(sh, f1)} {arr(sh, f2)}")
    # ordering on all pairs of short vectors over {0,1,2}
    for L in (1, 2, 3):
        vecs = list(itertools.product(range(3), repeat=L))
        for v, w in itertools.product(vecs, repeat=2):
            out.append(f"cmp@i64 {arr([L], v)} {arr([L], w)}")
            out.append(f"eq@i64 {arr([L], v)} {arr([L], w)}")
    # mismatching shapes: rejected
    for s1, s2 in [([2, 3], [3, 2]), ([2, 3], [6]), ([2], [3]), ([1, 2], [2]), ([2, 2], [2, 2, 1]), ([4], [2, 2]),
                   ([3], [2, 3]), ([1, 3], [2, 3]), ([2, 3], [1, 3]), ([2, 1], [1, 3]), ([1], [2, 2]), ([2, 1, 3], [2, 4, 3]), ([2, 2], [1])]:
        for o in range(5):
            out.append(f"op2@i32 z{o} {arr(s1, [1] * prod(s1))} {arr(s2, [1] * prod(s2))}")
            out.append(f"op2a@i32 z{o} {arr(s1, [1] * prod(s1))} {arr(s2, [1] * prod(s2))}")
        for o in (5, 6, 7):
            out.append(f"op2@u8 z{o} {arr(s1, [1] * prod(s1))} {arr(s2, [1] * prod(s2))}")
            out.append(f"op2a@bool z{o} {arr(s1, [1] * prod(s1))} {arr(s2, [1] * prod(s2))}")
        out.append(f"eq@i32 {arr(s1)} {arr(s2)}")
        out.append(f"cmp@i32 {arr(s1)} {arr(s2)}")
    # every ordered pair of different shapes from a small set, one-element operands of every rank included (seeded
    # change C20h: a one-element right operand applied as a scalar before the shape check), all element types
    small_sh = [[1], [1, 1], [1, 1, 1], [2], [3], [2, 1], [1, 2], [2, 2], [2, 3], [2, 1, 3], [1, 1, 1, 1], [2, 1, 3, 2]]
    for s1, s2 in itertools.product(small_sh, repeat=2):
        if s1 == s2:
            continue
        for o in range(5):
            ty = ["i32", "i64", "f64", "i8", "f32p", "i16"][(o + len(s1) + len(s2)) % 6]
            out.append(f"op2@{ty} z{o} {arr(s1, [2] * prod(s1))} {arr(s2, [1] * prod(s2))}")
            out.append(f"op2a@{ty} z{o} {arr(s1, [2] * prod(s1))} {arr(s2, [1] * prod(s2))}")
        for o in (5, 6, 7):
            out.append(f"op2@{['u8', 'i32', 'bool'][o - 5]} z{o} {arr(s1, [1] * prod(s1))} {arr(s2, [1] * prod(s2))}")
            out.append(f"op2a@{['bool', 'u8', 'i32'][o - 5]} z{o} {arr(s1, [1] * prod(s1))} {arr(s2, [1] * prod(s2))}")
    # each ordering operator on its own, on equal and on different shapes, with equal and with different leading elements
    # (seeded change C20j: < <= > >= answered from the first differing pair before any shape check)
    for s1, s2 in itertools.product(small_sh, repeat=2):
        for lead in (0, 1, 5):
            e1 = [lead] + [rng.randint(0, 3) for _ in range(prod(s1) - 1)]
            e2 = [3] + [rng.randint(0, 3) for _ in range(prod(s2) - 1)]
            out.append(f"cmpops@{rng.choice(['i32', 'i64', 'f64'])} {arr(s1, e1)} {arr(s2, e2)}")
    for sh in list(shapes(3, 3)):
        for _ in range(3):
            e1 = [rng.randint(0, 2) for _ in range(prod(sh))]
            e2 = list(e1)
            if rng.random() < 0.7:
                e2[rng.randrange(len(e2))] = rng.randint(0, 2)
            out.append(f"cmpops@i32 {arr(sh, e1)} {arr(sh, e2)}")
    # values no double represents exactly: any detour through f64 (as the math module's functions take) shows
    BIG = [2 ** 53 + 1, -(2 ** 53 + 1), 1234567890123456789, 2 ** 62 + 1, -(2 ** 62 + 1), 2 ** 63 - 1, -(2 ** 63 - 1), 9007199254740993]
    for sh in ([1], [3], [2, 2], [2, 1, 2]):
        n = prod(sh)
        e1 = [BIG[(i + len(sh)) % len(BIG)] for i in range(n)]
        out.append(f"neg@i64 {arr(sh, e1)}")
        for o, e2 in ((0, [0, 1, -1]), (1, [0, 1, -1]), (2, [1, -1, 1]), (3, [1, -1, 3, 7]), (4, [10, 3, 7, 2 ** 40])):
            sec = [e2[i % len(e2)] for i in range(n)]
            sec = [0 if (o in (0, 1) and abs(a) == 2 ** 63 - 1) else b for a, b in zip(e1, sec)]
            out.append(f"op2@i64 z{o} {arr(sh, e1)} {arr(sh, sec)}")
            out.append(f"op2a@i64 z{o} {arr(sh, e1)} {arr(sh, sec)}")
            safe = [v for v in e1 if abs(v) < 2 ** 63 - 1] or [2 ** 53 + 1]
            out.append(f"op2s@i64 z{o} {arr([len(safe)], safe)} z{1 if o >= 2 else -1}")
        out.append(f"eq@i64 {arr(sh, e1)} {arr(sh, [v - 1 if v > 0 else v + 1 for v in e1])}")
        out.append(f"cmp@i64 {arr(sh, e1)} {arr(sh, [v - 1 if v > 0 else v + 1 for v in e1])}")
    out.append(f"neg@i32 a3:2147483647,-2147483647,16777217")
    out.append(f"op2@i32 z0 a2:16777217,-16777217 a2:1,-1")
    # integer division by zero panics natively as well
    out.append("op2@i32 z3 a2:1,2 a2:1,0")
    out.append("op2s@i32 z4 a2:1,2 z0")
    if tier == "thorough":
        for _ in range(4000):
            sh = rand_shape(rng, 4, (1, 2, 3, 4))
            n = prod(sh)
            o = rng.randrange(5)
            ty = rng.choice(["i8", "i16", "i32", "i64"])
            e1 = small(rng, ty, n); e2 = small(rng, ty, n, nonzero=o >= 3)
            if o == 2:
                e1 = [v % 11 - 5 for v in e1]; e2 = [v % 11 - 5 for v in e2]
            out.append(f"{rng.choice(['op2', 'op2a'])}@{ty} z{o} {arr(sh, e1)} {arr(sh, e2)}")
            out.append(f"{rng.choice(['op2', 'op2a'])}@f64p z{100 + o} {arr(sh, [rng.randrange(20) for _ in range(n)])} {arr(sh, [rng.randrange(20) for _ in range(n)])}")
    return out

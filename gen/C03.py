"""C03 cases: broadcast and zip for all ordered pairs of the 39 shapes with rank <= 3 and lengths <= 3;
broadcast_to for all (source, target) pairs of those shapes; broadcast_arrays for all triples of the 12 shapes
of rank <= 2; every element of every result compared.  Random part: rank 1..4 shapes over lengths
{1,1,2,3,4}, half made compatible by construction, plus zero-length and mismatching shapes."""
import itertools
from common import *

EXHAUSTIVE = True
BOUNDS = "all ordered pairs of shapes rank<=3 len<=3 (broadcast, zip, broadcast_to); all triples of shapes rank<=2 len<=3 (broadcast_arrays)"


def compatible_partner(rng, sh):
    """a shape that broadcasts with sh"""
    t = list(sh)
    for i in range(len(t)):
        r = rng.random()
        if r < 0.35:
            t[i] = 1
        elif t[i] == 1 and r < 0.7:
            t[i] = rng.choice([2, 3, 4])
    r = rng.random()
    if r < 0.3 and len(t) > 1:
        t = t[rng.randint(1, len(t) - 1):]
    elif r < 0.5 and len(t) < 4:
        t = [rng.choice([1, 2, 3])] + t
    return t


def agree(case, impl, model):
    if case.startswith("ew2@"):
        import vlib
        return vlib.table_agree(impl, model, 2)
    return None


def gen(seed, tier):
    rng = random.Random(seed)
    out = []
    shs = list(shapes(3, 3))
    for s1, s2 in itertools.product(shs, repeat=2):
        ty = "str" if (len(s1) == 1 and len(s2) <= 2) else "i32"
        out.append(f"broadcast@{ty} {arr(s1)} {arr(s2, base=100)}")
        out.append(f"zip@{ty} {arr(s1)} {arr(s2, base=100)}")
        out.append(f"broadcast_to@{ty} {arr(s1)} {lst(s2)}")
    # the broadcast of operands of DIFFERENT element types (values against a parameter array: round with an array of
    # decimal places) follows the same rule — every pair of shapes, so that both operands are stretched, or the
    # parameter only adds leading axes (seeded change C03m: the common shape was taken from the larger operand)
    for k, (s1, s2) in enumerate(itertools.product(shs, repeat=2)):
        if tier == "quick" and k % 2 and len(s1) + len(s2) > 4:
            continue
        ty = "f64p" if k % 3 == 0 else "i32"
        e1 = [rng.randrange(20) for _ in range(prod(s1))] if ty == "f64p" else [rng.randint(-99, 99) for _ in range(prod(s1))]
        e2 = [rng.randint(-1, 2) for _ in range(prod(s2))]
        out.append(f"ew2@{ty} s{'round'.encode().hex()} {arr(s1, e1)} {arr(s2, e2)} z2 l")
    sh2 = list(shapes(2, 3))
    for t in itertools.product(sh2, repeat=3):
        out.append("broadcast_arrays L3 " + " ".join(arr(s, base=10 * i) for i, s in enumerate(t)))
    for s in sh2:
        out.append(f"broadcast_arrays L1 {arr(s)}")
    out.append("broadcast_arrays L0")
    # zero-length axes and degenerate targets
    for s1, s2 in [([0], [1]), ([1], [0]), ([0], [0]), ([2, 0], [1]), ([0, 2], [2]), ([2], [0, 2]), ([3], []), ([1], [])]:
        out.append(f"broadcast {arr(s1)} {arr(s2)}")
        out.append(f"broadcast_to {arr(s1)} {lst(s2)}")
        out.append(f"zip {arr(s1)} {arr(s2)}")
    # long axes (a blocked copy must not lose a tail) stretched against unit axes
    for s1, s2 in [([17], [1]), ([1], [33]), ([17, 1], [1, 9]), ([1, 33], [3, 1]), ([33], [2, 33]), ([2, 1, 17], [3, 1]),
                   ([64], [64]), ([9, 8], [8]), ([9, 8], [9, 1]), ([100], [1, 1]), ([17], [16]), ([2, 17], [17, 2])]:
        for x, y in ((s1, s2), (s2, s1)):
            out.append(f"broadcast {arr(x)} {arr(y, base=1000)}")
            out.append(f"zip {arr(x)} {arr(y, base=1000)}")
            out.append(f"broadcast_to {arr(x)} {lst(y)}")
        out.append(f"broadcast_arrays L3 {arr(s1)} {arr(s2, base=1000)} {arr([1], base=5000)}")
    # targets of 1024 and more elements with a stretched axis INSIDE a kept axis and another stretched / added axis
    # outside it (seeded change C03n: an axis-by-axis block copy for large outputs repeated sub-blocks)
    for s1, s2 in [([16, 1], [8, 16, 16]), ([1, 12, 1], [10, 12, 10]), ([4, 1, 5, 1], [4, 6, 5, 9]), ([6, 1, 20], [1, 15, 1]), ([64, 1], [64, 32]),
                   ([32], [8, 8, 32]), ([16, 1, 1], [16, 8, 8]), ([1, 33, 1], [33, 1, 3]), ([2, 1, 3, 1], [7, 2, 5, 3, 6])]:
        out.append(f"broadcast_to {arr(s1)} {lst(s2)}")
        out.append(f"broadcast {arr(s1)} {arr(s2, base=5000)}")
        out.append(f"broadcast {arr(s2, base=5000)} {arr(s1)}")
        out.append(f"zip {arr(s2, base=5000)} {arr(s1)}")
        out.append(f"broadcast_arrays L2 {arr(s1)} {arr(s2, base=5000)}")
    n = 1000 if tier == "quick" else 20000
    for _ in range(n):
        s1 = rand_shape(rng, 4)
        s2 = compatible_partner(rng, s1) if rng.random() < 0.6 else rand_shape(rng, 4)
        if rng.random() < 0.5:
            s1, s2 = s2, s1
        out.append(f"broadcast {arr(s1)} {arr(s2, base=100)}")
        out.append(f"zip {arr(s1)} {arr(s2, base=100)}")
        out.append(f"broadcast_to {arr(s1)} {lst(s2)}")
        s3 = compatible_partner(rng, s2) if rng.random() < 0.6 else rand_shape(rng, 3)
        out.append(f"broadcast_arrays L3 {arr(s1)} {arr(s2, base=50)} {arr(s3, base=90)}")
    return out

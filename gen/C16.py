"""C16 cases.  zeros / ones / full (+ *_like) on all shapes of rank 1..3 with lengths 0..3; eye(n, m, k), tri(n, m, k),
identity(n) for all sizes 0..6 x 0..6 and offsets -7..7 (eye: 0..7), every coordinate compared; tril / triu / diag /
diagflat for every matrix size 0..4 x 0..4 (label arrays), offsets -5..5, stacks of rank 3, rank-1 inputs (refused);
vander n <= 6 both orders; arange with integer start/stop in -6..12 and steps 1..4 on i32/i64/f64; linspace: counts
1..60 x both endpoint settings x integer and dyadic start/stop pools — the f64 results are converted exactly to
rationals and compared with the Coq rational model within a relative 2^-40, plus begins-at / ends-at / constant
difference; logspace / geomspace: count, first/last, constant ratio within 1e-9 on the implementation's output;
rand: 200 shapes, shape and unit interval."""
import itertools
from fractions import Fraction
import struct
from common import *
import vlib

EXHAUSTIVE = True
BOUNDS = "sizes 0..6 x 0..6, offsets -7..7 (eye/tri/identity); matrices 0..4 x 0..4, offsets -5..5 (tril/triu/diag); counts 1..60 (linspace)"


def f64s(res):
    if not res.startswith("f("):
        return None
    body = res[2:-1]
    return [struct.unpack(">d", bytes.fromhex(h))[0] for h in body.split(",")] if body else []


def exact(x):
    return Fraction(x)


def agree(case, impl, model):
    head = case.split(" ")[0].split("@")[0]
    t = case.split(" ")
    if head == "linspace":
        vals = f64s(impl)
        if vals is None:
            return False
        m = re.match(r"^list\(l\((.*)\);l\((.*)\)\)$", model)
        if not m:
            return False
        nums = [int(x) for x in m.group(1).split(",")] if m.group(1) else []
        dens = [int(x) for x in m.group(2).split(",")] if m.group(2) else []
        if len(nums) != len(vals):
            return False
        # the sequence begins at the start value and, when the endpoint is requested, ends at the stop value — exactly
        # (both are binary fractions in every case)
        if len(vals) >= 2:
            if exact(vals[0]) != Fraction(int(t[1][1:]), int(t[2][1:])):
                return False
            if t[6] == "z1" and exact(vals[-1]) != Fraction(int(t[3][1:]), int(t[4][1:])):
                return False
        scale = max([abs(Fraction(n, d)) for n, d in zip(nums, dens)] + [Fraction(1)])
        for v, n, d in zip(vals, nums, dens):
            if v != v or abs(exact(v) - Fraction(n, d)) > scale * Fraction(1, 2 ** 40):
                return False
        return True
    if head in ("linspace_a", "geomspace_a"):
        st = [int(x) for x in t[1].split(":", 1)[1].split(",")]
        sp = [int(x) for x in t[2].split(":", 1)[1].split(",")]
        num, ep = int(t[3][1:]), t[4] == "z1"
        k = max(len(st), len(sp))
        st, sp = (st * k if len(st) == 1 else st), (sp * k if len(sp) == 1 else sp)
        if len(st) != len(sp):
            return impl.startswith("err(")          # start / stop of different lengths: an error value, not a panic
        if head == "geomspace_a" and any(v == 0 for v in st + sp):
            return impl.startswith("err(")
        if "|" not in impl:
            return False
        shp, _, bits_ = impl.partition("|")
        vals = f64s(bits_)
        if vals is None or shp != f"{num}x{k}" or len(vals) != num * k:
            return False
        if num < 2:
            return True
        div = (num - 1) if ep else num
        for i in range(num):
            for j in range(k):
                if head == "linspace_a":
                    want = st[j] + (sp[j] - st[j]) * i / div
                else:
                    if (st[j] > 0) != (sp[j] > 0):
                        continue
                    want = abs(st[j]) * (abs(sp[j]) / abs(st[j])) ** (i / div) * (1 if st[j] > 0 else -1)
                if abs(vals[i * k + j] - want) > 1e-9 * max(abs(want), 1e-300) and abs(vals[i * k + j] - want) > 1e-12:
                    return False
        return True
    if head == "logspace_a":
        # one sequence per (start, stop, base) triple: column j is base[j] ** (evenly spaced exponents from start[j])
        st = [int(x) for x in t[1].split(":", 1)[1].split(",")]
        sp = [int(x) for x in t[2].split(":", 1)[1].split(",")]
        num, ep = int(t[3][1:]), t[4] == "z1"
        base = [10] if t[5] == "n" else [int(x) for x in t[5].split(":", 1)[1].split(",")]
        k = max(len(st), len(sp))
        st, sp = (st * k if len(st) == 1 else st), (sp * k if len(sp) == 1 else sp)
        if len(st) != len(sp) or len(base) not in (1, k):
            return impl.startswith("err(")
        base = base * k if len(base) == 1 else base
        if "|" not in impl:
            return False
        shp, _, bits_ = impl.partition("|")
        vals = f64s(bits_)
        if vals is None or shp != f"{num}x{k}" or len(vals) != num * k:
            return False
        if num < 2:
            return True
        div = (num - 1) if ep else num
        for i in range(num):
            for j in range(k):
                want = float(base[j]) ** (st[j] + (sp[j] - st[j]) * i / div)
                if abs(vals[i * k + j] - want) > 1e-9 * abs(want):
                    return False
        return True
    if head in ("logspace_t", "geomspace_t", "linspace_t"):
        head = head[:-2]
        # integer element types: element i is the double of position i converted to the type (truncation, saturation);
        # where that double lies within 1e-9 of a whole number both neighbours are accepted
        ty = t[0].split("@")[1]
        lo, hi = {"i8": (-128, 127), "i16": (-2 ** 15, 2 ** 15 - 1), "i32": (-2 ** 31, 2 ** 31 - 1), "i64": (-2 ** 63, 2 ** 63 - 1), "u8": (0, 255)}[ty]
        start, stop, num, ep = int(t[1][1:]), int(t[3][1:]), int(t[5][1:]), t[6] == "z1"
        base = int(t[7][1:]) if len(t) > 7 else 10
        pa = vlib.parse_arr(impl)
        if head == "geomspace" and (start == 0 or stop == 0):
            return impl.startswith("err(")
        if pa is None or pa[0] != str(num) or len(pa[1]) != num:
            return False
        if num < 2:
            return True                                    # the property speaks of sequences of two or more points
        div = (num - 1) if ep else num
        for i, got in enumerate(pa[1]):
            frac = (i / div) if div else 0.0
            try:
                if head == "logspace":
                    v = float(base) ** (start + (stop - start) * frac)
                elif head == "geomspace":
                    v = abs(start) * (abs(stop) / abs(start)) ** frac * (1 if start > 0 else -1)
                else:
                    v = start + (stop - start) * frac
            except OverflowError:
                v = float("inf")
            if head == "geomspace" and (start > 0) != (stop > 0):
                continue                                   # sign change: not a real geometric sequence, not judged
            cands = {max(lo, min(hi, int(v)))} if v == v and abs(v) != float("inf") else {hi if v > 0 else lo}
            if v == v and abs(v) != float("inf") and abs(v - round(v)) <= 1e-9 * max(1.0, abs(v)):
                cands |= {max(lo, min(hi, round(v))), max(lo, min(hi, round(v) - 1)), max(lo, min(hi, round(v) + 1))} if v != round(v) else {max(lo, min(hi, round(v))), max(lo, min(hi, round(v) - (1 if v > 0 else -1)))}
            if int(got) not in cands:
                return False
        return True
    if head in ("logspace", "geomspace"):
        vals = f64s(impl)
        num, ep = int(t[5][1:]), t[6] == "z1"
        start, stop = int(t[1][1:]) / int(t[2][1:]), int(t[3][1:]) / int(t[4][1:])
        if vals is None:
            return impl.startswith("err(") and head == "geomspace" and (start == 0 or stop == 0)
        if len(vals) != num:
            return False
        if num >= 2:
            base = int(t[7][1:]) if len(t) > 7 else 10
            first = base ** start if head == "logspace" else start
            last = base ** stop if head == "logspace" else stop
            if abs(vals[0] - first) > 1e-9 * abs(first):
                return False
            if ep and abs(vals[-1] - last) > 1e-9 * abs(last):
                return False
            ratios = [vals[i + 1] / vals[i] for i in range(num - 1)]
            if any(abs(r - ratios[0]) > 1e-9 * abs(ratios[0]) for r in ratios):
                return False
        return True
    if head in ("rand", "m_rand"):
        sh = t[1][1:]
        want = "rand(" + "x".join(sh.split(",")) + ":1)" if sh else None
        return impl == want
    return None


import re


def gen(seed, tier):
    rng = random.Random(seed)
    out = []
    for sh in shapes(3, 3, min_len=0):
        ty = rng.choice(["i32", "i64", "u8", "f64"])
        out.append(f"zeros@{ty} {lst(sh)}")
        out.append(f"ones@{ty} {lst(sh)}")
        out.append(f"full@{ty} {lst(sh)} z7")
        if prod(sh) > 0:
            out.append(f"zeros_like@{ty} {arr(sh)}")
            out.append(f"ones_like@{ty} {arr(sh)}")
            out.append(f"full_like@{ty} {arr(sh)} z5")
    # fill values no double represents (seeded change C18p: array_full! converted the fill through f64)
    for v in (2 ** 53 + 1, 2 ** 63 - 2, -(2 ** 63) + 1, 1234567890123456789, -(2 ** 53) - 1):
        for sh in ([2], [2, 2], [1, 3]):
            out.append(f"full@i64 {lst(sh)} z{v}")
    for n in range(0, 7):
        out.append(f"identity@{rng.choice(['i32', 'f64'])} z{n}")
        for m in [None] + list(range(0, 7)):
            for k in [None] + list(range(0, 8)):
                out.append(f"eye@{rng.choice(['i32', 'i64', 'f64'])} z{n} {opt(m)} {opt(k)}")
            for k in [None] + list(range(-7, 8)):
                out.append(f"tri@{rng.choice(['i32', 'i64', 'f64'])} z{n} {opt(m)} {opt(k)}")
    for r, c in itertools.product(range(0, 5), repeat=2):
        if r * c == 0:
            continue
        a = arr([r, c], base=1)
        for k in [None] + list(range(-5, 6)):
            ty = rng.choice(["i32", "i64", "f64"])
            out.append(f"tril@{ty} {a} {opt(k)}")
            out.append(f"triu@{ty} {a} {opt(k)}")
            out.append(f"diag@{ty} {a} {opt(k)}")
            out.append(f"diagflat@{ty} {a} {opt(k)}")
    for n in range(1, 6):
        a = arr([n], base=1)
        for k in [None] + list(range(-5, 6)):
            out.append(f"diag {a} {opt(k)}")
        out.append(f"tril {a} n")
        out.append(f"triu {a} z1")
    for sh in ([2, 2, 3], [3, 2, 2], [2, 3, 3], [2, 2, 2, 2]):
        for k in range(-3, 4):
            out.append(f"tril {arr(sh, base=1)} z{k}")
            out.append(f"triu {arr(sh, base=1)} z{k}")
        out.append(f"diag {arr(sh)} n")
    for n in range(1, 7):
        xs = [rng.randint(-3, 3) for _ in range(n)]
        for cols in [None] + list(range(0, 7)):
            for inc in (0, 1):
                out.append(f"vander@{rng.choice(['i32', 'i64', 'f64'])} {arr([n], xs)} {opt(cols)} z{inc}")
    out.append("vander a2x2:1,2,3,4 n z0")
    # larger sizes, rectangular with offsets on both sides (strided / blocked fills must not lose a tail)
    for n, m in ((8, 8), (9, 17), (17, 9), (16, 33), (33, 5), (1, 40), (40, 1), (12, 12)):
        for k in (None, 0, 1, -1, 3, -3, m - 1, -(n - 1), m, -n, m + 2, 7, -7):
            ty = rng.choice(["i32", "i64", "f64"])
            if k is None or k >= 0:
                out.append(f"eye@{ty} z{n} z{m} {opt(k)}")
            out.append(f"tri@{ty} z{n} z{m} {opt(k)}")
            a = arr([n, m], base=1)
            out.append(f"tril@{ty} {a} {opt(k)}")
            out.append(f"triu@{ty} {a} {opt(k)}")
            out.append(f"diag@{ty} {a} {opt(k)}")
        out.append(f"identity@i32 z{n}")
        out.append(f"zeros@i32 {lst([n, m])}")
        out.append(f"full@i64 {lst([n, m])} z3")
    for n in (8, 17, 33):
        for k in (None, 0, 2, -2, 5, -9):
            out.append(f"diag {arr([n], base=1)} {opt(k)}")
            out.append(f"diagflat {arr([2, n // 2], base=1)} {opt(k)}")
        out.append(f"vander@i64 {arr([n], [rng.randint(-2, 2) for _ in range(n)])} z9 z{n % 2}")
    for a, b, st in ((0, 100, 1), (-50, 50, 7), (3, 300, 3), (0, 1000, 33), (5, 6, 1), (0, 257, 2)):
        out.append(f"arange@{rng.choice(['i32', 'i64', 'f64'])} z{a} z{b} z{st}")
    for a, b in itertools.product(range(-6, 13, 2), range(-6, 13, 3)):
        for st in (None, 1, 2, 3, 4):
            out.append(f"arange@{rng.choice(['i32', 'i64', 'f64'])} z{a} z{b} {opt(st)}")
    pool = [(0, 1), (1, 1), (-3, 1), (10, 1), (1, 2), (-5, 4), (7, 8), (100, 1), (0, 1)]
    for num in range(1, 61):
        for ep in (0, 1):
            (sn, sd), (en, ed) = rng.choice(pool), rng.choice(pool)
            out.append(f"linspace z{sn} z{sd} z{en} z{ed} z{num} z{ep}")
            (sn, sd), (en, ed) = rng.choice(pool[:4]), rng.choice(pool[:4])
            out.append(f"logspace z{min(sn, 3)} z1 z{min(en, 4)} z1 z{num} z{ep} z{rng.choice([2, 10])}")
            g1, g2 = rng.choice([1, 2, 5, 10, 1000]), rng.choice([1, 3, 8, 100, 4096])
            out.append(f"geomspace z{g1} z1 z{g2} z1 z{num} z{ep}")
    out.append("linspace z0 z1 z1 z1 z0 z1")
    # the array form: a base per sequence (seeded change C16n: only base[0] was used)
    for st, sp, base in (([0, 1, 2], [2, 3, 4], [2, 3, 5]), ([0, 0], [3, 3], [10, 2]), ([1], [4], [2]), ([0, 1], [2], [2, 4]), ([0], [1, 2, 3], [3, 2, 7]),
                         ([0, 1, 2], [2, 3, 4], None), ([0, 1], [2, 3], [5]), ([0, 1, 2], [2, 3], [2, 3, 5]), ([0, 1], [2, 3], [2, 3, 5])):
        for num in (1, 2, 3, 5):
            for ep in (0, 1):
                b = "n" if base is None else arr([len(base)], base)
                out.append(f"logspace_a {arr([len(st)], st)} {arr([len(sp)], sp)} z{num} z{ep} {b}")
    for st, sp in (([0, 1, 2], [2, 3, 4]), ([1, 2], [8, 64]), ([1], [4, 16]), ([3, 5], [7]), ([1, 2, 3], [4, 5]), ([2], [2]), ([1, 1], [2, 3, 4])):
        for num in (1, 2, 3, 5):
            for ep in (0, 1):
                out.append(f"linspace_a {arr([len(st)], st)} {arr([len(sp)], sp)} z{num} z{ep}")
                out.append(f"geomspace_a {arr([len(st)], st)} {arr([len(sp)], sp)} z{num} z{ep}")
    # integer element types: negative exponents (values below 1 become 0), values beyond the type's range
    for ty in ("i8", "i16", "i32", "i64", "u8"):
        for (a, b) in ((-2, 2), (0, 3), (-3, 0), (1, 4), (2, -2), (0, 0), (-1, 5)):
            if ty == "u8" and (a < 0 or b < 0):
                continue
            for num in (1, 2, 3, 5, 8):
                for ep in (0, 1):
                    out.append(f"logspace_t@{ty} z{a} z1 z{b} z1 z{num} z{ep} z{rng.choice([2, 7, 10])}")
        for (a, b) in ((1, 100), (2, 64), (100, 1), (1, 1), (3, 3000), (5, 7)):
            if max(a, b) > {"i8": 127, "u8": 255}.get(ty, 30000):
                continue
            for num in (1, 2, 3, 5, 9):
                out.append(f"geomspace_t@{ty} z{a} z1 z{b} z1 z{num} z{rng.randint(0, 1)}")
                out.append(f"linspace_t@{ty} z{a} z1 z{b} z1 z{num} z{rng.randint(0, 1)}")
    for (sn, sd, en, ed) in ((0, 1, 1, 1), (-1, 1, 1, 1), (5, 2, -5, 2), (-3, 1, 10, 1), (0, 1, 7, 8), (-5, 1, 5, 1), (1, 8, 100, 1)):
        for num in range(2, 61):
            out.append(f"linspace z{sn} z{sd} z{en} z{ed} z{num} z1")
    out.append("geomspace z0 z1 z5 z1 z5 z1")
    out.append("geomspace z2 z1 z0 z1 z5 z1")
    for _ in range(200 if tier == "quick" else 2000):
        out.append(f"rand {lst(rand_shape(rng, 4, (0, 1, 2, 3, 5)))}")
    # the constructor macros agree with the functions: the same cases again through array_zeros!, array_ones!,
    # array_full!, array_eye!, array_identity!, array_arange!, array_rand!, array_flat!, array_single!
    macro = []
    for l in out:
        head, _, rest = l.partition(" ")
        name, _, ty = head.partition("@")
        toks = rest.split(" ")
        if name in ("zeros", "ones", "full", "rand") and toks[0].startswith("l") and 1 <= len([x for x in toks[0][1:].split(",") if x]) <= 4:
            macro.append(f"m_{name}" + (f"@{ty}" if ty else "") + " " + rest)
        elif name in ("identity", "arange"):
            macro.append(f"m_{name}@{ty} {rest}")
        elif name == "eye" and not (toks[1] == "n" and toks[2] != "n"):
            macro.append(f"m_eye@{ty} {rest}")
    for ty in ("i32", "i64", "f64", "u8"):
        for k in range(1, 7):
            macro.append(f"m_flat@{ty} {lst([rng.randint(0, 9) for _ in range(k)])}")
        macro.append(f"m_single@{ty} z{rng.randint(0, 9)}")
    out += macro
    return out

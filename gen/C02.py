"""C02 cases: every coordinate vector (in range and one beyond on every axis), wrong-length vectors and
every flat index 0..len+1 for all shapes of rank 1..4 with lengths 1..3, rank 5 with lengths 1..2
(quick); thorough adds rank <= 3 with lengths <= 5 and random shapes of rank 1..5 with lengths 1..7."""
import itertools
from common import *

EXHAUSTIVE = True


def per_shape(sh, out, tys=("i32",), full=True):
    n = prod(sh)
    a = arr(sh, base=100)
    for i in range(0, n + 2):
        out.append(f"index_to_coord {lst(sh)} {z(i)}")
    coords = itertools.product(*[range(0, d + 1) for d in sh])
    for c in coords:
        c = list(c)
        out.append(f"index_at {lst(sh)} {lst(c)}")
        if full:
            for ty in tys:
                out.append(f"at@{ty} {a} {lst(c)}")
            out.append(f"index_coords {a} {lst(c)}")
    # wrong-length coordinate vectors
    for c in ([], [0] * (len(sh) - 1), [0] * (len(sh) + 1)):
        out.append(f"index_at {lst(sh)} {lst(c)}")
        out.append(f"at {a} {lst(c)}")
        out.append(f"index_coords {a} {lst(c)}")
    for i in range(0, n):
        out.append(f"index_usize {a} {z(i)}")
    out.append(f"index_usize {a} {z(n)}")
    out.append(f"index_usize {a} {z(n + 3)}")


def gen(seed, tier):
    rng = random.Random(seed)
    out = []
    for sh in shapes(4, 3):
        per_shape(sh, out, tys=("i32", "str", "list", "pair", "f32", "u64") if len(sh) <= 3 else ("i32", "pair"))
    for sh in shapes(5, 2, min_rank=5):
        per_shape(sh, out)
    # shapes with a zero-length axis: everything must be an error
    for sh in ([0], [0, 2], [2, 0], [1, 0, 3]):
        for i in range(0, 3):
            out.append(f"index_to_coord {lst(sh)} {z(i)}")
        for c in itertools.product(*[range(0, d + 1) for d in sh]):
            out.append(f"index_at {lst(sh)} {lst(list(c))}")
    # larger extents, powers of two and neighbours on every axis position
    for sh in ([8], [16], [33], [64], [3, 8], [8, 3], [4, 4], [5, 16], [16, 5], [2, 3, 8], [2, 8, 3], [8, 2, 3], [3, 16, 2],
               [3, 2, 4, 2], [7, 9], [2, 32]):
        per_shape(sh, out, full=prod(sh) <= 64)
    nrand = 40 if tier == "quick" else 600
    for _ in range(nrand):
        sh = [rng.randint(1, 7) for _ in range(rng.randint(1, 5))]
        n = prod(sh)
        a = arr(sh, base=-5)
        for _ in range(12):
            c = [rng.randint(0, d) if rng.random() < 0.2 else rng.randint(0, d - 1) for d in sh]
            out.append(f"index_at {lst(sh)} {lst(c)}")
            out.append(f"at@i64 {a} {lst(c)}")
            out.append(f"index_coords {a} {lst(c)}")
            i = rng.randint(0, n + 1)
            out.append(f"index_to_coord {lst(sh)} {z(i)}")
    if tier == "thorough":
        for sh in shapes(3, 5):
            if max(sh) > 3:
                per_shape(sh, out)
        for sh in shapes(5, 3, min_rank=5):
            if max(sh) > 2:
                per_shape(sh, out, full=False)
    return out


BOUNDS = "all shapes rank 1..4 lengths 1..3 and rank 5 lengths 1..2: every coordinate in prod(0..d_k) (one past the end on every axis), wrong-length vectors, every flat index 0..len+1"

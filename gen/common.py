"""helpers shared by the case generators (python3 stdlib only)"""
import itertools, random


def shapes(max_rank, max_len, min_rank=1, min_len=1):
    for r in range(min_rank, max_rank + 1):
        for sh in itertools.product(range(min_len, max_len + 1), repeat=r):
            yield list(sh)


def prod(sh):
    n = 1
    for d in sh:
        n *= d
    return n


def arr(sh, es=None, base=0):
    n = prod(sh)
    if es is None:
        es = range(base, base + n)
    return "a" + "x".join(map(str, sh)) + ":" + ",".join(map(str, es))


def lst(xs):
    return "l" + ",".join(map(str, xs))


def z(x):
    return "z" + str(x)


def opt(x):
    return "n" if x is None else z(x)


def optl(x):
    return "n" if x is None else lst(x)


def hexs(s):
    if isinstance(s, str):
        s = s.encode()
    return s.hex()


def sarr(sh, strs):
    return "A" + "x".join(map(str, sh)) + ":" + ",".join("." + hexs(s) for s in strs)


def rand_shape(rng, max_rank=4, lens=(1, 1, 2, 3, 4), min_rank=1):
    return [rng.choice(lens) for _ in range(rng.randint(min_rank, max_rank))]


def axis_spellings(ax, rank):
    return [ax, ax - rank]


# shapes whose TOTAL element count crosses the thresholds where blocked / tiled / parallel fast paths typically engage
# (> 256, > 1024), non-square and with partial last tiles (seeded change C06h: a tiled transpose for > 256 elements)
BIG_SHAPES_2D = [[16, 17], [17, 32], [33, 18], [3, 100], [12, 40], [40, 45]]
BIG_SHAPES_ND = [[5, 7, 9], [2, 3, 4, 13], [9, 1, 31], [2, 2, 2, 2, 17]]
BIG_SHAPES_1D = [[257], [300], [1100]]


GENERIC_TYPES = ["str", "list", "pair", "f32", "u64", "i16", "i64", "f64"]


def retype(lines, rng, ops, share=0.35, types=GENERIC_TYPES, max_label=30000):
    """gives a share of the case lines whose operation is generic in the element type (and whose head names no type) one
    of the other element types the harness instantiates: strings, heap-backed compound elements (a list, a pair holding
    a string), other number widths.  The model side ignores the type (it computes on labels)."""
    import re
    out = []
    for l in lines:
        head, _, rest = l.partition(" ")
        if head in ops and rng.random() < share:
            nums = [abs(int(x)) for x in re.findall(r"-?\d+", " ".join(t.split(":", 1)[1] for t in rest.split(" ") if t.startswith("a") and ":" in t))]
            neg = "-" in "".join(t.split(":", 1)[1] for t in rest.split(" ") if t.startswith("a") and ":" in t)
            ty = rng.choice(types)
            if (ty in ("u64",) and neg) or (ty == "i16" and nums and max(nums) > max_label):
                ty = "str"
            out.append(f"{head}@{ty} {rest}" if rest else f"{head}@{ty}")
        else:
            out.append(l)
    return out

"""C10 cases.  sort with each of the four kinds (enum and string spellings, mixed case, unknown names) and argsort:
every list over a 3-letter alphabet up to length 7 (3280 lists, quick: lengths <= 6 exhaustively + sample of 7),
structured lists (sorted, reversed, constant, saw-tooth, few distinct, organ pipe) of lengths 0..70 and
31,32,33,63,64,65,127,128,129,255,256,511,512,1000,2000, random lists; lane-wise on every axis (both spellings)
of arrays of rank <= 4; unique; the four kinds must also agree with each other on every input (executed);
sorting the sorted result again must not change it."""
import itertools
from common import *
import vlib

EXHAUSTIVE = True
BOUNDS = "all lists over {0,1,2} up to length 6 (and length 7 in thorough) x 4 kinds; structured lists of every length 0..70"
KINDS = ["z0", "z1", "z2", "z3"]
NAMES = {"z0": "quicksort", "z1": "mergesort", "z2": "heapsort", "z3": "stable"}
_fail = []


def structured(rng, n):
    yield list(range(n))
    yield list(range(n, 0, -1))
    yield [5] * n
    yield [i % 4 for i in range(n)]
    yield [rng.randint(0, 3) for _ in range(n)]
    yield [min(i, n - i) for i in range(n)]
    yield [rng.randint(-1000, 1000) for _ in range(n)]


def gen_rounds(seed, tier, run):
    rng = random.Random(seed)
    del _fail[:]
    out = []
    maxlen = 6 if tier == "quick" else 7
    lists = [list(t) for L in range(0, maxlen + 1) for t in itertools.product(range(3), repeat=L)]
    if tier == "quick":
        lists += [[rng.randint(0, 2) for _ in range(7)] for _ in range(150)]
    lens = list(range(0, 71)) + [127, 128, 129, 255, 256]
    if tier == "thorough":
        lens += [511, 512, 1000, 2000]
    else:
        lens += [300]
    for n in lens:
        for l in structured(rng, n):
            lists.append(l)
    # long lanes for the stable kind (runs of 32 merged pairwise: lengths that leave a right run of one element only
    # appear beyond 500 — seeded change C10l); every length in a window, already sorted / random / sorted twice
    long_lists = []
    for n in (range(301, 1101) if tier == "quick" else range(301, 2101)):
        long_lists.append(list(range(n)))
        if n % 8 == 0:
            long_lists.append([rng.randint(-1000, 1000) for _ in range(n)])
    groups = []
    for l in long_lists:
        out.append(f"sort {arr([len(l)], l)} n z3")
    for l in lists:
        n = len(l)
        idx = len(out)
        for k in KINDS:
            out.append(f"sort {arr([n], l)} n {k}")
        groups.append((idx, 4))
        if n <= 70:
            k = rng.choice(KINDS)
            out.append(f"argsort {arr([n], l)} n {k}")
            if n <= 12:
                out.append(f"argsort {arr([n], l)} n s{hexs(NAMES[k].upper())}")
        if n <= 12:
            out.append(f"unique {arr([n], l)} n")
        if 1 <= n <= 70 or n in (300, 2000):
            # extreme-position queries: the FIRST position of the largest / smallest element (lanes with ties included)
            out.append(f"argmax@i64 {arr([n], l)} n z0")
            out.append(f"argmin@i64 {arr([n], l)} n z0")
    for name in ["quicksort", "MergeSort", "HEAPSORT", "Stable", "stable ", "bubble", "", "quick"]:
        out.append(f"sort a5:3,1,2,1,0 n s{hexs(name)}")
        out.append(f"argsort a5:3,1,2,1,0 z0 s{hexs(name)}")
    out.append("sort a5:3,1,2,1,0 n n")
    for sh in shapes(4, 3):
        n = len(sh)
        es = [rng.randint(0, 5) for _ in range(prod(sh))]
        for ax in list(range(-n, n)) + [n, -n - 1]:
            k = rng.choice(KINDS)
            out.append(f"sort {arr(sh, es)} z{ax} {k}")
            out.append(f"argsort {arr(sh, es)} z{ax} {k}")
            out.append(f"argmax@i32 {arr(sh, [e % 3 for e in es])} z{ax} z{rng.randint(0, 2)}")
            out.append(f"argmin@i32 {arr(sh, [e % 3 for e in es])} z{ax} z{rng.randint(0, 2)}")
        out.append(f"sort@str {arr(sh, es)} n z0")
        # unique along an axis: lanes with equally many distinct values give an array, ragged lanes are refused
        for ax in list(range(-n, n)) + [n, -n - 1]:
            out.append(f"unique {arr(sh, [e % 2 for e in es])} z{ax}")
            out.append(f"unique {arr(sh, list(range(prod(sh))))} z{ax}")
            out.append(f"unique {arr(sh, [(i // 2) % 3 for i in range(prod(sh))])} z{ax}")
    # element types whose ORDER is not that of a machine number: pairs ordered lexicographically (label x is the pair
    # (x div 4, x mod 4): many pairs share their first member — seeded change C10n compared first members only),
    # strings, lists
    for ty in ("pairk", "pairk", "list", "pair", "f32", "u64"):
        for n_ in (2, 3, 5, 8, 13, 21, 40, 70):
            l = [rng.randint(0, 15) for _ in range(n_)]
            for k in KINDS:
                out.append(f"sort@{ty} {arr([n_], l)} n {k}")
            out.append(f"argsort@{ty} {arr([n_], l)} n {rng.choice(KINDS)}")
            if ty != "str":
                out.append(f"unique@{ty} {arr([n_], l)} n")
        for sh in ([3, 4], [2, 3, 3]):
            es = [rng.randint(0, 11) for _ in range(prod(sh))]
            for ax in range(len(sh)):
                out.append(f"sort@{ty} {arr(sh, es)} z{ax} {rng.choice(KINDS)}")
                out.append(f"argsort@{ty} {arr(sh, es)} z{ax} {rng.choice(KINDS)}")
    for ty in ("strw", "pairk", "char"):
        for n_ in (1, 2, 3, 5, 9, 20):
            for _ in range(4):
                l = [rng.randint(0, 15) for _ in range(n_)]
                out.append(f"argmax@{ty} {arr([n_], l)} n z0")
                out.append(f"argmin@{ty} {arr([n_], l)} n z0")
        for sh in ([2, 3], [3, 2, 2]):
            es = [rng.randint(0, 9) for _ in range(prod(sh))]
            for ax in list(range(-len(sh), len(sh))):
                out.append(f"argmax@{ty} {arr(sh, es)} z{ax} z{rng.randint(0, 2)}")
                out.append(f"argmin@{ty} {arr(sh, es)} z{ax} z{rng.randint(0, 2)}")
    # unique on float lanes with zeros of both signs, infinities, subnormals (no NaN): one entry per distinct value
    for ty in ("f64p", "f32p"):
        for _ in range(40):
            n_ = rng.randint(1, 9)
            l = [rng.choice([0, 1, 0, 1, 2, 3, 5, 11, 12, 10, 16, 21, 20, 22]) for _ in range(n_)]
            out.append(f"uniqz@{ty} {arr([n_], l)}")
        for fixed in ([2, 0, 1, 3, 0], [1, 0], [0, 1], [1, 1, 0, 0], [0], [1]):
            out.append(f"uniqz@{ty} {arr([len(fixed)], fixed)}")
    for L in (40, 64, 100):
        sh = [3, L]
        es = [rng.randint(0, 50) for _ in range(3 * L)]
        for k in KINDS:
            out.append(f"sort {arr(sh, es)} z1 {k}")
            out.append(f"sort {arr(sh, es)} z0 {k}")
            out.append(f"argsort {arr(sh, es)} z1 {k}")
        out.append(f"unique {arr(sh, es)} n")
        out.append(f"unique {arr([L], [e % 7 for e in es[:L]])} n")
        for ax in ("n", "z0", "z1"):
            out.append(f"argmax@i32 {arr(sh, [e % 5 for e in es])} {ax} z{rng.randint(0, 2)}")
            out.append(f"argmin@i32 {arr(sh, [e % 5 for e in es])} {ax} z{rng.randint(0, 2)}")
    # lanes whose numbers of distinct values differ while their total fills the shape of the first (finding F29, fixed)
    for a_ in ("a3x3:1,2,2,3,3,3,4,5,6", "a3x3:1,2,2,3,3,3,4,5,6", "a2x4:1,1,2,3,4,4,4,5", "a2x2x3:1,1,2,3,3,3,5,6,6,7,8,9", "a4x2:1,2,3,3,4,4,5,6"):
        for ax in (0, 1, -1, 2, -2):
            out.append(f"unique {a_} z{ax}")
    impl, model = run(out)
    # the four kinds agree with each other (on the implementation's own results)
    again = []
    for idx, cnt in groups:
        rs = impl[idx:idx + cnt]
        if len(set(rs)) != 1:
            _fail.append((out[idx], "kinds disagree: " + " | ".join(r[:80] for r in rs)))
        pa = vlib.parse_arr(rs[0])
        if pa is not None and len(pa[1]) <= 300:
            again.append((out[idx], f"sort a{pa[0]}:{','.join(pa[1])} n {random.Random(idx).choice(KINDS)}", rs[0]))
    if again:
        im2, _ = run([a[1] for a in again])
        for (c, q, first), r in zip(again, im2):
            if r != first:
                _fail.append((c, f"not idempotent: {first[:80]} then {r[:80]}"))


def agree(case, impl, model):
    if case.startswith("uniqz@"):
        import floatsem, struct
        t = case.split(" ")
        single = t[0].endswith("f32p")
        labs = [int(x) for x in t[1].split(":", 1)[1].split(",") if x]
        vals = set()
        for k in labs:
            v = floatsem.POOL[k]
            if single:
                try:
                    v = struct.unpack("f", struct.pack("f", v))[0]
                except OverflowError:
                    v = float("inf") if v > 0 else float("-inf")
            vals.add(v + 0.0 if v != 0 else 0.0)          # 0.0 and -0.0 are one value
        return impl == f"l({len(vals)},1)"
    return None


def extra_checks(cases, impl, model):
    return [(cases.index(c), c, "law: " + why, "-") for c, why in _fail]

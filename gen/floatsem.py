"""Order-independent semantics of float sums and products, for checking float results without pinning the
implementation's evaluation order or its use of fused operations: NaN / infinity behaviour is exact, finite results
are compared with the exact rational value within a bound proportional to the sum of the magnitudes involved; cases
whose intermediate values could overflow or underflow in some order are not judged."""
import math, struct
from fractions import Fraction as F

POOL = [0.0, -0.0, 1.0, -1.0, 2.0, 0.5, -2.5, 3.0, 1e300, -1e300, 5e-324, math.inf, -math.inf, math.nan, 7.25, 100.0,
        1e-10, 1.0000000000000002, -7.0, 0.1,
        1e-17, -1e-10, -1e-17, 1e-5, 4503599627370497.0, 0.9999999999999999, -0.5, 1.5, 1e-30, 710.0,
        9223372036854775808.0, 1180591621816922931200.0, 18446744073710600192.0, 1267650600228229401496703205376.0,
        0.49999999999999994]


def r32(x):
    if math.isnan(x) or math.isinf(x):
        return x
    try:
        return struct.unpack("f", struct.pack("f", x))[0]
    except OverflowError:
        return math.copysign(math.inf, x)


def value(label, single):
    v = POOL[int(label)]
    return r32(v) if single else v


def token_value(tok, single):
    """float value of a result token: nan, an integer, or f<hex bits>"""
    if tok == "nan":
        return math.nan
    if tok.startswith("f"):
        h = tok[1:]
        return struct.unpack(">f", bytes.fromhex(h))[0] if len(h) == 8 else struct.unpack(">d", bytes.fromhex(h))[0]
    return float(int(tok))


def product_spec(xs):
    """('nan',) | ('inf', sign) | ('num', exact Fraction)"""
    if any(math.isnan(x) for x in xs):
        return ("nan",)
    if any(math.isinf(x) for x in xs):
        if any(x == 0.0 for x in xs):
            return ("nan",)
        neg = sum(1 for x in xs if math.copysign(1, x) < 0) % 2
        return ("inf", -1 if neg else 1)
    e = F(1)
    for x in xs:
        e *= F(x)
    return ("num", e)


def sum_spec(terms):
    """terms: specs as returned by product_spec; result ('nan',) | ('inf', sign) | ('num', E, S)"""
    if any(t[0] == "nan" for t in terms):
        return ("nan",)
    infs = {t[1] for t in terms if t[0] == "inf"}
    if len(infs) == 2:
        return ("nan",)
    if infs:
        return ("inf", infs.pop())
    return ("num", sum((t[1] for t in terms), F(0)), sum((abs(t[1]) for t in terms), F(0)))


def judge(tok, spec, single, nops, mags=None):
    """True / False, or None when the case is not judged (values too close to the range limits)"""
    big, tiny, eps = (F(10) ** 30, F(10) ** -30, F(1, 2 ** 22)) if single else (F(10) ** 280, F(10) ** -280, F(1, 2 ** 51))
    got = token_value(tok, single)
    if spec[0] == "nan":
        return math.isnan(got)
    if spec[0] == "inf":
        if mags is not None and any(m > big for m in mags):
            return None
        return math.isinf(got) and (got > 0) == (spec[1] > 0)
    e = spec[1]
    s = spec[2] if len(spec) > 2 else abs(e)
    if s > big or (mags is not None and any(m > big or (m != 0 and m < tiny) for m in mags)) or (e != 0 and abs(e) < tiny):
        return None
    if math.isnan(got) or math.isinf(got):
        return False
    return abs(F(got) - e) <= eps * (nops + 2) * (s if s > 0 else F(1)) if s > 0 else F(got) == 0

"""C09 cases.  Out-of-domain stream: for every modelled operation with an axis / index / shape / option / parts
argument, on label arrays of rank 1..4: every axis value in [-rank-3, rank+3] and at +-2^31, +-2^62, isize::MIN,
isize::MAX; indices and coordinates up to len+2 and huge; wrong-length axis / coordinate vectors; target shapes that
do not fit; unknown and wrongly-cased option names; zero parts — the result class (ok / err / panic / hang) must
equal the model's.  Propagation stream: a generated program (tools/inventory.py -> harness/src/generated_propagate.rs,
own binary) calls every chainable Result-receiver method of the crate (202 found by parsing /repo/src; uncovered
ones are listed) on each of the 15 error variants and must get that same error back."""
import os, subprocess, itertools
from common import *
import vlib

EXHAUSTIVE = True
BOUNDS = "rank 1..4 arrays x every axis in [-rank-3, rank+3] + {+-2^31, +-2^62, isize MIN/MAX} x every operation with an axis; 15 error variants x all chainable methods"
_prop = {}
BIG = [2 ** 31, -2 ** 31, 2 ** 62, -2 ** 62, 2 ** 63 - 1, -2 ** 63]


def prebuild():
    import importlib.util
    spec = importlib.util.spec_from_file_location("inventory", os.path.join(vlib.ROOT, "tools", "inventory.py"))
    inv = importlib.util.module_from_spec(spec)
    spec.loader.exec_module(inv)
    cov, unc = inv.generate()
    _prop["covered"], _prop["uncovered"] = cov, unc


def gen(seed, tier):
    rng = random.Random(seed)
    out = []
    shs = [[3], [2, 3], [1, 3], [2, 3, 2], [2, 1, 2], [2, 2, 2, 2], [1, 1], [3, 1, 2, 1], [1]]
    for sh in shs:
        n = len(sh)
        a = arr(sh)
        axes = list(range(-n - 3, n + 4)) + BIG
        uaxes = [x for x in axes if x >= 0]
        for ax in axes:
            out.append(f"transpose {a} {lst([ax] + list(range(1, n)))}")
            out.append(f"moveaxis {a} {lst([ax])} l0")
            out.append(f"moveaxis {a} l0 {lst([ax])}")
            out.append(f"rollaxis {a} {z(ax)} n")
            out.append(f"rollaxis {a} z0 {z(ax)}")
            out.append(f"swapaxes {a} {z(ax)} z0")
            out.append(f"expand_dims {a} {lst([ax])}")
            out.append(f"squeeze {a} {lst([ax])}")
            for op in ("sum", "prod", "cumsum", "cumprod", "max", "min", "nansum", "nanmax"):
                out.append(f"{op} {a} {z(ax)}")
            for op in ("count_nonzero", "argmax", "argmin"):
                out.append(f"{op} {a} {z(ax)} z{rng.randint(0, 2)}")
            out.append(f"sort {a} {z(ax)} z{rng.randint(0, 3)}")
            out.append(f"argsort {a} {z(ax)} z0")
            out.append(f"flip {a} {lst([ax])}")
            out.append(f"roll {a} l1 {lst([ax])}")
            out.append(f"rot90 {a} z1 {lst([ax, 0])}")
            out.append(f"rot90 {a} z3 {lst([0, ax])}")
            out.append(f"unpack_bits {a} {z(ax)} n n")
            out.append(f"pack_bits {arr(sh, [1] * prod(sh))} {z(ax)} n")
        for ax in uaxes:
            out.append(f"delete {a} l0 {z(ax)}")
            out.append(f"repeat {a} l2 {z(ax)}")
            out.append(f"insert_entry {a} l0 a1:7 {z(ax)}")
            out.append(f"append {a} {a} {z(ax)}")
            out.append(f"concatenate L2 {a} {a} {z(ax)}")
            out.append(f"stack L2 {a} {a} {z(ax)}")
            out.append(f"array_split {a} z1 {z(ax)}")
            out.append(f"split {a} z1 {z(ax)}")
            out.append(f"split_axis {a} {z(ax)}")
        # arguments that make the operation a no-op (zero shift, zero turns, unit counts, nothing to delete) together
        # with an axis outside the rank or a list of the wrong length: still an error, whatever shortcut exists
        for ax in (n, n + 1, -n - 1, -n - 2, 2 ** 40):
            out.append(f"roll {a} l0 {lst([ax])}")
            out.append(f"roll {a} l0,0 {lst([0, ax])}")
            out.append(f"roll {a} {lst([0, 0])} {lst([ax, 0])}")
            out.append(f"roll {a} {lst([sh[0]])} {lst([ax])}")
            out.append(f"flip {a} {lst([0, ax])}")
            out.append(f"flip {a} {lst([ax, ax])}")
            out.append(f"swapaxes {a} {z(ax)} {z(ax)}")
            out.append(f"moveaxis {a} {lst([ax])} {lst([ax])}")
            out.append(f"rollaxis {a} {z(ax)} {z(ax)}")
            out.append(f"expand_dims {a} {lst([0, ax])}")
            for k in (0, 4, 8):
                out.append(f"rot90 {a} z{k} {lst([ax, ax])}")
                out.append(f"rot90 {a} z{k} {lst([0, 0])}")
            if ax >= 0:
                out.append(f"repeat {a} l1 {z(ax)}")
                out.append(f"delete {a} l {z(ax)}")
                out.append(f"array_split {a} z1 {z(ax)}")
                out.append(f"split {a} z1 {z(ax)}")
        out.append(f"roll {a} l0,0,0 l0,{-1 if n > 1 else 0}")
        out.append(f"roll {a} l0,0 l0,0,0")
        out.append(f"roll {a} l l0")
        out.append(f"roll {a} l0 l")
        out.append(f"repeat {a} l1,1,1,1,1,1,1 z0")
        out.append(f"repeat {a} l n")
        out.append(f"transpose {a} {lst(list(range(n)) + [n])}")
        out.append(f"transpose {a} {lst(list(range(n + 1))[1:])}")
        # joins of arrays of different rank: an axis inside the larger rank only is still out of range
        for sh2 in ([2], [3], [2, 3], [3, 2], [2, 2, 2], [1], [2, 1]):
            if len(sh2) == n:
                continue
            for ax in list(range(max(n, len(sh2)) + 2)) + [2 ** 31]:
                out.append(f"concatenate L2 {a} {arr(sh2, base=50)} {z(ax)}")
                out.append(f"concatenate L2 {arr(sh2, base=50)} {a} {z(ax)}")
                out.append(f"append {a} {arr(sh2, base=50)} {z(ax)}")
                out.append(f"stack L2 {a} {arr(sh2, base=50)} {z(ax)}")
        tot = prod(sh)
        for i in list(range(0, tot + 3)) + [2 ** 31, 2 ** 62]:
            out.append(f"index_to_coord {lst(sh)} {z(i)}")
            out.append(f"delete {a} {lst([i])} n")
            out.append(f"insert {a} {lst([i])} a1:9 n")
        # index / axis LISTS in which only some entries are out of range (any position), duplicates, wrong lengths
        cand = sorted({0, max(tot - 1, 0), tot, tot + 1, 2 ** 40})
        for L in (2, 3):
            for idx in itertools.product(cand, repeat=L):
                if any(i >= tot for i in idx) and (L == 2 or rng.random() < 0.3):
                    out.append(f"delete {a} {lst(idx)} n")
                    out.append(f"insert {a} {lst(idx)} a1:9 n")
        for ax in range(n):
            m = sh[ax]
            for idx in itertools.product(sorted({0, m - 1, m, m + 2}), repeat=2):
                if any(i >= m for i in idx):
                    out.append(f"delete {a} {lst(idx)} {z(ax)}")
                if any(i > m for i in idx):
                    out.append(f"insert_entry {a} {lst(idx)} a1:7 {z(ax)}")
            for reps in ([1] * (m + 1), [1] * max(m - 1, 0) if m > 2 else [1, 1, 1, 1, 1], []):
                out.append(f"repeat {a} {lst(reps)} {z(ax)}")
        bad_ax = [n, -n - 1, 2 ** 31]
        for b in bad_ax:
            for pos in range(2):
                two = [0, b] if pos else [b, 0]
                out.append(f"flip {a} {lst(two)}")
                out.append(f"roll {a} l1,1 {lst(two)}")
                out.append(f"expand_dims {a} {lst(two)}")
                out.append(f"squeeze {a} {lst(two)}")
                out.append(f"moveaxis {a} {lst(two)} {lst([0, n - 1] if n > 1 else [0, 0])}")
                out.append(f"moveaxis {a} {lst([0, n - 1] if n > 1 else [0, 0])} {lst(two)}")
        out.append(f"roll {a} l1,2 l0")
        out.append(f"roll {a} l1 l0,0")
        out.append(f"flip {a} l0,0")
        out.append(f"moveaxis {a} l0,0 l0,{n - 1}")
        out.append(f"moveaxis {a} l0 l0,{n - 1}")
        out.append(f"transpose {a} {lst([0] * n)}")
        out.append(f"transpose {a} {lst(list(range(n)) + [0])}")
        out.append(f"expand_dims {a} l0,0")
        over = []
        for k_ in range(n):                       # one coordinate just beyond its extent, the others valid (first or last)
            for base in ([0] * n, [d - 1 for d in sh]):
                for extra in (0, 1, 2 ** 40):
                    c = list(base); c[k_] = sh[k_] + extra
                    over.append(c)
        for c in [[], [0] * (n - 1), [0] * (n + 1), [d for d in sh], [2 ** 40] * n] + over:
            out.append(f"index_at {lst(sh)} {lst(c)}")
            out.append(f"at {a} {lst(c)}")
            out.append(f"index_coords {a} {lst(c)}")
        for t in ([tot + 1], [tot, 2], [0], [], [2 ** 40]):
            out.append(f"reshape {a} {lst(t)}")
            if not (t == [2 ** 40] and sh[-1] == 1):       # a unit axis really stretches to 2^40 entries: not a refusal
                out.append(f"broadcast_to {a} {lst(t)}")
        out.append(f"new {lst(range(tot + 1))} {lst(sh)}")
        for p in (0,):
            for op in ("array_split", "split"):
                out.append(f"{op} {a} z{p} n")
                out.append(f"{op} {a} z{p} z0")
            for op in ("hsplit", "vsplit", "dsplit"):
                out.append(f"{op} {a} z{p}")
        out.append(f"atleast {a} z4")
        out.append(f"atleast {a} z9")
        out.append(f"tril {a} n")
        out.append(f"trim_zeros {a}")
        out.append(f"vander {a} n z0")
        out.append(f"diag {a} n")
        out.append(f"fliplr {a}")
        # rot90: the argument checks come before the "multiple of four turns" shortcut
        for k_ in (0, 4, 8, 12, 2, 3):
            for bad in ([0], [], [0, 1, 2], [0, n], [n, 0], [-n - 1, 0], [0, 2 ** 31], [0, -n - 1]):
                out.append(f"rot90 {a} z{k_} {lst(bad)}")
        out.append(f"rot90 {a} z1 l0")
        out.append(f"rot90 {a} z1 l0,1,2")
        for name in ("quicksort", "QUICKSORT", "quick", "", "stable!", "mergesort ", "q", "m", "h", "s", "heap", "stablee", "sort", " stable"):
            out.append(f"sort {a} n s{hexs(name)}")
            out.append(f"argsort {a} n s{hexs(name)}")
        for name in ("big", "little", "Big", "LITTLE", "", "middle", "b", "l", "bi", "bigg", "lit", "little ", "big-endian"):
            out.append(f"unpack_bits {arr(sh, [5] * tot)} n n s{hexs(name)}")
            out.append(f"pack_bits {arr(sh, [1] * tot)} n s{hexs(name)}")
    # shapes that do not fit although the element counts are equal (seeded change C09o: zip took the other operand
    # as it is when the counts agree)
    for s1, s2 in (([2, 3], [3, 2]), ([6], [2, 3]), ([2, 3], [6]), ([2, 3, 2], [3, 2, 2]), ([4], [2, 2]), ([2, 2], [4]), ([3, 2], [2, 3]), ([2, 6], [3, 4]), ([1, 6], [6, 1]), ([2, 3], [3])):
        for op in ("zip", "gcd@i32", "lcm@i32", "broadcast"):
            out.append(f"{op} {arr(s1, [k + 1 for k in range(prod(s1))])} {arr(s2, [k + 2 for k in range(prod(s2))])}")
    # names that are not a norm order: the words a float parser accepts among them (seeded change C09p)
    for name in ("nan", "NaN", "-nan", "infinity", "Infinity", "+inf", "+infinity", "-infinity", "in", "i", "fr", "frob", "two", "1.5", "", "nuc ", " inf", "inf ", "2.0", "1e0", "0x2"):
        for a in ("a3:3,-4,12", "a2x2:1,2,3,4", "a1:5"):
            out.append(f"mone@f64 s{hexs('norm')} {a} s{hexs(name)}")
    out.append("max a0: n")
    out.append("argmax a0: n z2")
    out.append("unpack_bits a2:6,255 n z-1 z0")
    out.append("unpack_bits a2:6,255 n z-17 z0")
    out.append("lcm a2:0,0 a2:0,5")
    out.append("matmul a2x3:1,2,3,4,5,6 a2x2:1,2,3,4")
    out.append("s_zfill A2:.2d37,.35 z0")
    out.append("s_zfill A1:.2d z0")
    out.append("s_capitalize A2:.,.61")
    out.append("s_replace A1:.6162 A1:.61 A1:.6261 n")
    # joins of inputs of one rank whose other axes differ but hold equally many elements (seeded change C09j: the
    # join validator compared products, the append behind it compared shapes and was unwrapped: a panic)
    Lj = lambda arrs: f"L{len(arrs)} " + " ".join(arrs)
    for s1, s2, ax in (([2, 3, 4], [2, 4, 3], 0), ([2, 2, 6], [1, 3, 4], 0), ([3, 2, 4], [4, 2, 3], 1), ([2, 3, 1], [3, 2, 1], 2),
                       ([1, 2, 3, 2], [1, 3, 2, 2], 0), ([2, 2, 3], [2, 3, 2], 0), ([2, 6, 1], [2, 2, 3], 0), ([4, 1, 2], [2, 1, 4], 1)):
        for op in ("concatenate", "stack"):
            out.append(f"{op} {Lj([arr(s1), arr(s2, base=50)])} {z(ax)}")
            out.append(f"{op} {Lj([arr(s1), arr(s1, base=20), arr(s2, base=50)])} {z(ax)}")
        out.append(f"append {arr(s1)} {arr(s2, base=50)} {z(ax)}")
        for op in ("vstack", "row_stack", "dstack", "column_stack"):
            out.append(f"{op} {Lj([arr(s1), arr(s2, base=50)])}")
    # count vectors that fit neither one count nor one count per entry, composite axis extents included
    for sh in ([4], [6], [2, 4], [6, 2], [2, 3, 4], [9]):
        for ax in range(len(sh)):
            for ln in range(0, sh[ax] + 3):
                if ln not in (1, sh[ax]):
                    out.append(f"repeat {arr(sh)} {lst([1 + (k % 3) for k in range(ln)])} z{ax}")
    # public operations WITHOUT a model, out-of-domain arguments only (`monp`: the harness answers z(1) for an error
    # value or a well-formed result and `panic` for a panic; the model side is the constant z(1)) — finding F31
    M = lambda name, ty, rest: out.append(f"monp@{ty} s{hexs(name)} {rest}")
    for sh in ([3], [2, 3], [2, 2, 2], [1, 2, 3, 2]):
        n = len(sh)
        a = arr(sh)
        tot = prod(sh)
        for ty in ("i32", "f64"):
            for ax in [n, n + 1, n + 3, -n - 1, -n - 2] + BIG:
                for k in (1, 2):
                    M("diff", ty, f"{a} {z(k)} {z(ax)} n n")
            for lo, hi in ((tot + 1, tot + 2), (2, 1), (0, tot + 1), (tot, tot + 3), (2 ** 31, 2 ** 31 + 1)):
                M("slice", ty, f"{a} {z(lo)} {z(hi)}")
            M("indices_at", ty, f"{a} {lst([tot])}")
            M("indices_at", ty, f"{a} {lst([0, tot + 5])}")
            M("indices_at", ty, f"{a} {lst([2 ** 31])}")
            for name in ("nope", "", "Full", "valid "):
                M("convolve", ty, f"{arr([3])} {arr([2])} s{hexs(name)}")
            # names that are NOT a convolve mode — among them prefixes, extensions and near misses of the three modes:
            # every one must be answered with an error value (seeded change C09n: only the first letter was looked at)
            for name in ("nope", "", "f", "fu", "ful", "foo", "fft", "full ", "fulll", " full", "v", "vaild", "valid_", "s", "sme", "sum", "symmetric", "same_", "sam", "err"):
                out.append(f"mone@{ty} s{hexs('convolve')} {arr([3])} {arr([2])} s{hexs(name)}")
            M("clip", ty, f"{a} {arr([4], [0, 1, 2, 3])} n")
            M("clip", ty, f"{a} n {arr([2, 5], list(range(10)))}")
        for ax in [n, n + 1, -n - 1, -n - 2] + BIG:
            M("unwrap_phase", "f64", f"{a} {z(ax)}")
    return out


def extra_checks(cases, impl, model):
    """the propagation program"""
    diffs = []
    ok, out, _ = vlib.build_harness(bin_name="arr-rs-verif-prop")
    if not ok:
        return [(0, cases[0], "law: propagation program does not build against /repo:\n" + out[-800:], "-")]
    p = subprocess.run([os.path.join(vlib.HARNESS, "target", "debug", "arr-rs-verif-prop")], capture_output=True, text=True, timeout=600)
    lines = p.stdout.strip().split("\n")
    _prop["report"] = lines
    variants = [l for l in lines if l.startswith("variant ")]
    if len(variants) != 15:
        diffs.append((0, cases[0], f"law: propagation program reported {len(variants)} variants (exit {p.returncode})", "-"))
    for l in variants:
        if "PANIC" in l or "failures=0" not in l:
            diffs.append((0, cases[0], "law: an error result did not flow through unchanged: " + l[:300], "-"))
    return diffs


def evidence_extra():
    return {"propagation": {"methods_called_per_variant": len(_prop.get("covered", [])), "error_variants": 15,
                            "uncovered_methods": _prop.get("uncovered", []), "report_tail": _prop.get("report", [])[-2:]}}

"""C15 cases.  solve: integer matrices of size 2..6 (random entries, permuted diagonally dominant — forcing row
exchanges at every step — triangular, Hilbert-like scaled integers, exactly singular), right-hand sides of width 1
(vector) and 2..3 (matrix); the f64 solution is converted exactly to rationals and compared with the Coq rational
model of the same LU algorithm (which also confirms A x = b exactly) within a relative 2^-30, and the residual
A x - b of the implementation's own output is bounded.  det: sizes 2..5 against the exact rational cofactor
expansion; multiplicativity and sign change under a row exchange checked on the implementation's outputs.
qr: Q R = A, Q^T Q = I, R upper triangular (2^-30 relative) for matrices and stacks.  norm: default, 1, 2, inf against
their definitions."""
import itertools, struct, re, math
from fractions import Fraction as F
from common import *
import vlib

EXHAUSTIVE = False
BOUNDS = "sizes 2..6; random / permuted diagonally dominant / triangular / singular integer matrices; rhs widths 1..3"
TOL = F(1, 2 ** 30)


_stats = {"solve_answered": 0, "solve_theorem_applies": 0}


def evidence_extra():
    return {"solve_cases_answered": _stats["solve_answered"],
            "solve_cases_meeting_the_theorems_pivot_hypothesis": _stats["solve_theorem_applies"]}


def fl(res):
    m = re.match(r"^f\(([0-9x]*):(.*)\)$", res)
    if not m:
        return None
    sh = [int(x) for x in m.group(1).split("x")] if m.group(1) else []
    vals = [struct.unpack(">d", bytes.fromhex(h))[0] for h in m.group(2).split(",")] if m.group(2) else []
    return sh, vals


def parse_a(tok):
    d, _, e = tok[1:].partition(":")
    sh = [int(x) for x in d.split("x")]
    return sh, [int(x) for x in e.split(",") if x]


def mat(sh, es):
    if len(sh) == 1:
        return [[F(x)] for x in es]
    return [[F(es[i * sh[1] + j]) for j in range(sh[1])] for i in range(sh[0])]


def close(x, y, scale):
    return abs(F(x) - y) <= TOL * max(scale, F(1))


def det_exact(m):
    n = len(m)
    if n == 1:
        return m[0][0]
    if n == 2:
        return m[0][0] * m[1][1] - m[0][1] * m[1][0]
    return sum(((-1) ** i) * m[i][0] * det_exact([r[1:] for k, r in enumerate(m) if k != i]) for i in range(n))


def agree(case, impl, model):
    t = case.split(" ")
    head = t[0].split("@")[0]
    if head == "solve":
        (s1, e1), (s2, e2) = parse_a(t[1]), parse_a(t[2])
        if model.startswith("err("):
            return vlib.canon(impl) == vlib.canon(model)
        m = re.match(r"^list\(list\(l\((.*)\);l\((.*)\)\);z\((\d)\);z\((\d)\)\)$", model)
        r = fl(impl)
        if not m or r is None or m.group(3) != "1":
            return False
        _stats["solve_answered"] += 1
        if m.group(4) != "1":
            return False        # a zero pivot although |det| >= 1e-12: the solve theorem's hypothesis would fail
        _stats["solve_theorem_applies"] += 1
        xs = [F(int(a), int(b)) for a, b in zip(m.group(1).split(","), m.group(2).split(","))]
        sh, vals = r
        if sh != s2 or len(vals) != len(xs) or any(v != v or math.isinf(v) for v in vals):
            return False
        scale = max(abs(x) for x in xs)
        if not all(close(v, x, scale) for v, x in zip(vals, xs)):
            return False
        # residual of the implementation's own output
        A, B = mat(s1, e1), mat(s2, e2)
        if len(t) > 3:
            A = [[v / int(t[3][1:]) for v in row] for row in A]
        k = len(B[0])
        X = [[F(vals[i * k + j]) for j in range(k)] for i in range(len(A))]
        for i in range(len(A)):
            for j in range(k):
                res = sum(A[i][t_] * X[t_][j] for t_ in range(len(A))) - B[i][j]
                bound = TOL * (sum(abs(A[i][t_]) * abs(X[t_][j]) for t_ in range(len(A))) + abs(B[i][j]) + 1)
                if abs(res) > bound * 64:
                    return False
        return True
    if head in ("det", "detstack"):
        # the implementation answers with one determinant per matrix (a matrix: one; a stack: one per block, in stack
        # order; a vector: itself); refusals are compared as error values
        s1, e1 = parse_a(t[1])
        if model.startswith("err(") or impl.startswith("err("):
            return vlib.canon(impl) == vlib.canon(model)
        m = re.match(r"^list\(l\((.*)\);l\((.*)\)\)$", model)
        r = fl(impl)
        if not m or r is None:
            return False
        nums = [int(x) for x in m.group(1).split(",")] if m.group(1) else []
        dens = [int(x) for x in m.group(2).split(",")] if m.group(2) else []
        if len(r[1]) != len(nums):          # (the library answers with a flat array of the determinants; the property
            return False                    #  speaks of the values, one per matrix, not of the result's shape)
        if len(s1) == 2 and r[0] != [1]:
            return False
        return all(close(v, F(a, b), abs(F(a, b))) for v, a, b in zip(r[1], nums, dens))
    if head == "qr":
        s1, e1 = parse_a(t[1])
        if not impl.startswith("list("):
            return False
        parts = impl[5:-1].split(";")
        n = s1[-1]
        mats = [e1[i:i + n * n] for i in range(0, len(e1), n * n)]
        if len(parts) != 2 * len(mats):
            return False
        for k, es in enumerate(mats):
            q, r = fl(parts[2 * k]), fl(parts[2 * k + 1])
            if q is None or r is None or q[0] != [n, n] or r[0] != [n, n]:
                return False
            Q = [[F(q[1][i * n + j]) for j in range(n)] for i in range(n)]
            R = [[F(r[1][i * n + j]) for j in range(n)] for i in range(n)]
            A = [[F(es[i * n + j]) for j in range(n)] for i in range(n)]
            sc = max(abs(x) for row in A for x in row) + 1
            for i in range(n):
                for j in range(n):
                    if abs(sum(Q[i][t_] * R[t_][j] for t_ in range(n)) - A[i][j]) > TOL * sc * 64:
                        return False
                    if abs(sum(Q[t_][i] * Q[t_][j] for t_ in range(n)) - (1 if i == j else 0)) > TOL * 64 * 64:
                        return False
                    if i > j and abs(R[i][j]) > TOL * sc * 64 * 64:
                        return False
        return True
    if head == "norm":
        s1, e1 = parse_a(t[1])
        r = fl(impl)
        if r is None or len(r[1]) != 1:
            return False
        o = t[2]
        if o.startswith("s"):                 # a string spelling of the order (both &str and String are called)
            name = bytes.fromhex(o[1:]).decode().lower()
            if name == "-inf":
                want = float(min(abs(x) for x in e1))
                return abs(r[1][0] - want) <= 1e-9 * max(1.0, abs(want))
            o = {"inf": "z99", "1": "z1", "2": "z2"}.get(name, o)
        if o in ("n", "z2"):
            want = math.sqrt(sum(x * x for x in e1))
        elif o == "z1":
            want = float(sum(abs(x) for x in e1))
        else:
            want = float(max(abs(x) for x in e1))
        return abs(r[1][0] - want) <= 1e-9 * max(1.0, abs(want))
    if head == "solve_t":
        # any numeric element type: a matrix whose exact determinant is 0 is refused with the singular-matrix error
        # (a regular system is only required not to panic here: its values are judged by the f64 cases)
        (s1, e1), _ = parse_a(t[1]), None
        n = s1[0]
        d = det_exact([[F(e1[i * n + j]) for j in range(n)] for i in range(n)])
        if d == 0:
            return impl == "err(SingularMatrix)"
        return impl.startswith("arr(")
    if head == "norm_ax":
        # vector norms along an axis, any numeric element type: one value per lane, converted to the element type
        ty = t[0].partition("@")[2]
        s1, e1 = parse_a(t[1])
        o, ax = t[2], int(t[3][1:])
        import itertools as it
        n = len(s1); ax %= n
        rest = [d for k, d in enumerate(s1) if k != ax]
        strides = [1] * n
        for k in range(n - 2, -1, -1):
            strides[k] = strides[k + 1] * s1[k + 1]
        want = []
        for c in it.product(*[range(d) for d in rest]):
            full = list(c[:ax]) + [0] + list(c[ax:])
            lane = []
            for i in range(s1[ax]):
                full[ax] = i
                lane.append(e1[sum(a * b for a, b in zip(full, strides))])
            if o in ("n", "z2"):
                v = math.sqrt(sum(x * x for x in lane))
            elif o == "z1":
                v = float(sum(abs(x) for x in lane))
            else:
                v = float(max(abs(x) for x in lane))
            want.append(v)
        pa = vlib.parse_arr(impl)
        if pa is None or len(pa[1]) != len(want):
            return False
        if ty.startswith("i"):
            for g, v in zip(pa[1], want):
                ok = {int(v)} | ({round(v), round(v) - 1} if abs(v - round(v)) < 1e-9 else set())
                if int(g) not in ok:
                    return False
            return True
        r = fl(impl.replace("arr(", "f(")) if False else None
        vals = []
        for g in pa[1]:
            vals.append(float(int(g)) if re.match(r"^-?\d+$", g) else struct.unpack(">d" if len(g) == 17 else ">f", bytes.fromhex(g[1:]))[0])
        return all(abs(g - v) <= (1e-9 if ty == "f64" else 1e-5) * max(1.0, abs(v)) for g, v in zip(vals, want))
    if head == "detlaw":
        return True
    return None


def rand_mat(rng, n, kind):
    if kind == "random":
        return [[rng.randint(-9, 9) for _ in range(n)] for _ in range(n)]
    if kind == "dominant":      # permuted diagonally dominant: row exchanges needed at every step
        m = [[rng.randint(-3, 3) for _ in range(n)] for _ in range(n)]
        for i in range(n):
            m[i][i] = rng.choice([-1, 1]) * (sum(abs(x) for x in m[i]) + rng.randint(1, 5))
        rng.shuffle(m)
        return m
    if kind == "triangular":
        return [[(rng.randint(1, 9) if j == i else (rng.randint(-9, 9) if j > i else 0)) for j in range(n)] for i in range(n)]
    if kind == "hilbert":
        return [[2520 // (i + j + 1) for j in range(n)] for i in range(n)]
    # singular: one row is a combination of two others
    m = [[rng.randint(-5, 5) for _ in range(n)] for _ in range(n)]
    m[n - 1] = [2 * a - b for a, b in zip(m[0], m[1 % n])] if n > 1 else [0]
    if n == 2:
        m[1] = [3 * x for x in m[0]]
    return m


def flat(m):
    return [x for r in m for x in r]


def gen(seed, tier):
    rng = random.Random(seed)
    out = []
    reps = 12 if tier == "quick" else 200
    for n in range(2, 7):
        for kind in ("random", "dominant", "triangular", "hilbert", "singular"):
            for _ in range(reps if kind != "hilbert" else 1):
                if kind == "hilbert" and n > 5:
                    continue
                m = rand_mat(rng, n, kind)
                if kind in ("random",) and abs(det_exact([[F(x) for x in r] for r in m])) < 1:
                    continue
                k = rng.choice([0, 0, 1, 2, 3])
                b = arr([n], [rng.randint(-9, 9) for _ in range(n)]) if k == 0 else arr([n, k], [rng.randint(-9, 9) for _ in range(n * k)])
                out.append(f"solve {arr([n, n], flat(m))} {b}")
                if n <= 5:
                    out.append(f"det {arr([n, n], flat(m))}")
                if kind in ("random", "dominant") and n <= 5:
                    out.append(f"qr {arr([n, n], flat(m))}")
    # matrices with structural zeros (invertible: unit-dominant diagonal): zero sub-diagonals with entries further
    # below, lower / upper triangular, banded, permuted-sparse — for solve, det and qr
    for n in range(2, 7):
        for pattern in ("zero_subdiag", "lower", "upper", "band2", "sparse", "zero_superdiag", "arrow"):
            for _ in range(2 if tier == "quick" else 20):
                m = [[0] * n for _ in range(n)]
                for i in range(n):
                    for j in range(n):
                        v = rng.randint(1, 9) * rng.choice([-1, 1])
                        keep = {"zero_subdiag": i != j + 1, "lower": j <= i, "upper": j >= i, "band2": abs(i - j) != 1,
                                "sparse": rng.random() < 0.4, "zero_superdiag": j != i + 1,
                                "arrow": i == 0 or j == 0 or i == j}[pattern]
                        m[i][j] = v if keep else 0
                    m[i][i] = rng.randint(20, 40) * rng.choice([-1, 1])
                b = arr([n], [rng.randint(-9, 9) for _ in range(n)])
                out.append(f"solve {arr([n, n], flat(m))} {b}")
                if n <= 5:
                    out.append(f"det {arr([n, n], flat(m))}")
                    out.append(f"qr {arr([n, n], flat(m))}")
        if n <= 4:
            ms = []
            for _ in range(3):
                m = [[(rng.randint(1, 9) if i != j + 1 else 0) for j in range(n)] for i in range(n)]
                for i in range(n):
                    m[i][i] = rng.randint(20, 40)
                ms.append(m)
            out.append(f"qr {arr([3, n, n], flat(ms[0]) + flat(ms[1]) + flat(ms[2]))}")
    # decimal entries (every entry divided by 10, 7 or 3: none is a binary fraction): singular matrices whose computed
    # determinant is a rounding residue rather than exactly zero must still be refused; regular ones are solved
    for n in range(2, 6):
        for kind in ("singular", "singular", "dominant", "random"):
            for _ in range(6 if tier == "quick" else 60):
                m = rand_mat(rng, n, kind)
                if kind == "random" and abs(det_exact([[F(x) for x in r] for r in m])) < 1:
                    continue
                sc = rng.choice([10, 7, 3, 10])
                k = rng.choice([0, 0, 2])
                b = arr([n], [rng.randint(-9, 9) for _ in range(n)]) if k == 0 else arr([n, k], [rng.randint(-9, 9) for _ in range(n * k)])
                out.append(f"solve {arr([n, n], flat(m))} {b} z{sc}")
    out.append("solve a2x2:1,3,2,6 a2:1,1 z10")
    out.append("solve a2x2:3,7,3,7 a2:1,2 z10")
    out.append("solve a3x3:1,2,3,4,5,6,7,8,9 a3:1,2,3 z10")
    # entry checks: rank of a, squareness, extents below 2, row count of the right-hand side
    for a_, b_ in [("a1:0", "a1:0"), ("a3:1,2,3", "a3:1,2,3"), ("a1x1:5", "a1:5"), ("a2x3:1,2,3,4,5,6", "a2:1,2"),
                   ("a3x2:1,2,3,4,5,6", "a3:1,2,3"), ("a2x2:1,2,3,5", "a3:1,2,3"), ("a2x2:1,2,3,5", "a1:1"),
                   ("a2x2x2:1,0,0,1,1,0,0,1", "a2:1,2"), ("a2x2:1,2,3,5", "a3x2:1,2,3,4,5,6"), ("a1x2:1,2", "a1:1"),
                   ("a2x1:1,2", "a2:1,2")]:
        out.append(f"solve {a_} {b_}")
    out.append("solve a2x2:0,1,1,0 a2:2,3")
    out.append("solve a3x3:2,1,1,4,3,3,8,7,9 a3x2:1,0,2,1,3,5")
    for _ in range(5):
        n = rng.choice([2, 3])
        ms = [rand_mat(rng, n, "dominant") for _ in range(2)]
        out.append(f"qr {arr([2, n, n], flat(ms[0]) + flat(ms[1]))}")
    for _ in range(60):
        n = rng.randint(1, 7)
        v = [rng.randint(-20, 20) for _ in range(n)]
        for o in ("n", "z1", "z2", "z99"):
            out.append(f"norm {arr([n], v)} {o}")
        # the orders by name, as &str and as String (seeded change C15m: "inf" was parsed as a number first)
        for name in ("inf", "Inf", "INF", "-inf", "1", "2"):
            out.append(f"norm {arr([n], v)} s{name.encode().hex()}")
    out.append(f"norm a2x2:1,2,3,4 n")
    for ty in ("i8", "i16", "i32", "i64", "f32"):
        for m, b in (([1, 2, 2, 4], [1, 2]), ([1, 2, 3, 2, 4, 6, 1, 0, 1], [1, 2, 3]), ([0, 0, 0, 0], [1, 1]), ([2, 1, 1, 1], [3, 2]),
                     ([1, 1, 0, 1, 1, 0, 2, 3, 5], [1, 1, 1]), ([3, 1, 2, 1], [5, 3]), ([1, 2, 3, 4, 5, 6, 7, 8, 9], [1, 0, 1]),
                     ([1, 1, 1, 1, 1, 1, 1, 1, 1, 1, 1, 1, 1, 1, 1, 1], [1, 2, 3, 4])):
            n = int(len(m) ** 0.5)
            out.append(f"solve_t@{ty} {arr([n, n], m)} {arr([n], b)}")
    # vector norms along an axis for every numeric element type (seeded change C15n: the two-norm of integer lanes)
    # (not i8: the sum of squares of a lane leaves the type before the root is taken — the library overflows there)
    for ty in ("i16", "i32", "i64", "f32", "f64"):
        for sh in ([2], [3], [2, 3], [3, 3], [2, 2, 3]):
            for ax in range(-len(sh), len(sh)):
                vals = [rng.choice([3, -4, 0, 12, 5, -8, 6, 2, -1, 7]) for _ in range(prod(sh))]
                for o in ("n", "z1", "z2", "z99"):
                    out.append(f"norm_ax@{ty} {arr(sh, vals)} {o} z{ax}")
    # the default norm (root of the sum of squares) of matrices, stacks of matrices and higher ranks
    for sh in ([2, 2], [3, 3], [2, 3], [4, 1], [1, 4], [2, 2, 2], [3, 4, 4], [2, 3, 3], [1, 1, 1], [2, 3, 3, 3], [2, 1, 2, 2], [5, 2, 2]):
        for _ in range(2):
            out.append(f"norm {arr(sh, [rng.randint(-9, 9) for _ in range(prod(sh))])} n")
    # det's entry checks: vectors, non-square and too small matrices, stacks that do not end in a square shape, empty stacks
    for sh in ([3], [0], [1], [2, 3], [3, 2], [1, 2], [2, 1], [1, 1], [0, 0], [2, 2, 3], [2, 3, 2], [2, 1, 1], [3, 1, 2], [0, 2, 2],
               [2, 0, 2, 2], [1, 2, 2], [1, 1, 3, 3], [2, 3, 1], [2, 2, 0], [4, 4], [1, 4, 4]):
        out.append(f"det {arr(sh, [rng.randint(-5, 5) for _ in range(prod(sh))])}")
    # det / qr of stacks of every rank: one determinant per matrix in stack order (seeded change C15k:
    # the stack was split into shape[0] pieces, right only for rank 3)
    for sh in ([1, 2, 2], [2, 2, 2], [3, 3, 3], [4, 2, 2], [2, 5, 5], [3, 1, 2, 2], [1, 3, 2, 2], [2, 3, 3, 3], [3, 2, 2, 2], [2, 2, 4, 4],
               [2, 2, 2, 2, 2], [1, 1, 3, 3]):
        for _ in range(2):
            out.append(f"detstack {arr(sh, [rng.randint(-5, 5) for _ in range(prod(sh))])}")
    for sh in ([3, 1, 2, 2], [1, 3, 2, 2], [2, 2, 3, 3]):
        n = sh[-1]
        ms = [rand_mat(rng, n, "dominant") for _ in range(prod(sh[:-2]))]
        out.append(f"qr {arr(sh, [x for m in ms for x in flat(m)])}")
    return out


def extra_checks(cases, impl, model):
    """det is multiplicative and changes sign under a row exchange (on the implementation's own outputs)"""
    diffs = []
    dets = {}
    for c, r in zip(cases, impl):
        if c.startswith("det "):
            f = fl(r)
            if f and f[1]:
                dets[c.split(" ")[1]] = f[1][0]
    toks = list(dets)
    for a in toks[:80]:
        sh, es = parse_a(a)
        n = sh[0]
        sw = es[n:2 * n] + es[:n] + es[2 * n:]
        key = arr([n, n], sw)
        if key in dets and abs(dets[key] + dets[a]) > 1e-6 * max(1.0, abs(dets[a])):
            diffs.append((cases.index("det " + a), "det " + a, f"law: row exchange does not flip the sign: {dets[a]} vs {dets[key]}", "-"))
    return diffs

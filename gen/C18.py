"""C18 cases.  Generated program: harness/src/generated_literals.rs (written by gen/litgen.py, compiled with the
harness) holds one array!() invocation per literal — all 340 shapes of rank 1..4 with axis lengths 1..4 for i32 and
samples for f64 (negative, exponent forms), bool, i64, char, String (spaces, empty), Tuple2, Tuple3, List — and
reports the {:?} text the macro saw plus the resulting shape and elements.  Every result is compared with the shape
and reading-order elements the literal was written with; for the generic arm the observed {:?} text is additionally
parsed by the Coq model of the macro pipeline and compared.  Text forms: Display of arrays of rank <= 4 (lengths <= 3),
precisions None/0/2/5, plain and pretty, against the Coq build_string; Tuple2 / Tuple3 / List Display + FromStr round
trips against the Coq text model."""
import itertools, re
from common import *
import litgen
import vlib

HARNESS_BIN_NAME = "arr-rs-verif-lit"      # the generated literal program lives in its own binary


def prebuild():
    litgen.write()


EXHAUSTIVE = True
BOUNDS = "literals: all 340 shapes rank 1..4 len 1..4 (i32) + samples of 8 other element types; display: all shapes rank<=4 len<=3 x 4 precisions x 2 forms"
_fail = []
_expect = {}


def fnum(s):
    try:
        return float(s)
    except ValueError:
        return None


def same_elem(kind, ty, got, want):
    if ty in ("f64",):
        return fnum(got) == fnum(want) and (str(fnum(got)) == str(fnum(want)))
    return got == want


WORDS = ['ab', 'cde', 'x', 'hello']


def agree(case, impl, model):
    head = case.split(" ")[0].split("@")[0]
    if head == "lit":
        return True                      # judged in gen_rounds against the ground truth
    if head == "lit_parse":
        want = _expect.get(case)
        if want is None:
            return False
        return model == want
    if head == "display":
        return impl == model
    if head == "m_rand":
        import C16
        return C16.agree(case, impl, model)
    return None


def dec(h):
    return bytes.fromhex(h).decode()


def gen_rounds(seed, tier, run):
    rng = random.Random(seed)
    del _fail[:]
    _expect.clear()
    lits = litgen.write()
    out = [f"lit z{i}" for i in range(len(lits))]
    impl, _ = run(out)
    second = []
    for i, ((kind, ty, sh, elems, expr), r) in enumerate(zip(lits, impl)):
        c = out[i]
        m = re.match(r"^lit\(([0-9a-f]*);(.*)\)$", r)
        if not m:
            if kind != "string_special":
                _fail.append((c, f"literal {ty} {expr[:60]} -> {r[:80]}"))
            continue
        text, res = dec(m.group(1)), m.group(2)
        m2 = re.match(r"^res\(([0-9x]*):(.*)\)$", res)
        if kind == "string_special":
            ok = m2 and [int(x) for x in m2.group(1).split("x")] == sh and [dec(t[1:]) for t in m2.group(2).split(",")] == elems
            if not ok:
                _fail.append((c, f"KNOWNCLASS string literal with separator characters: {expr} -> {res[:80]}"))
            continue
        if not m2:
            _fail.append((c, f"literal {ty} {expr[:60]} -> {res[:80]}"))
            continue
        gsh = [int(x) for x in m2.group(1).split("x")] if m2.group(1) else []
        gel = [dec(t[1:]) for t in m2.group(2).split(",")] if m2.group(2) else []
        if gsh != sh or len(gel) != len(elems) or not all(same_elem(kind, ty, g, w) for g, w in zip(gel, elems)):
            _fail.append((c, f"literal {ty} {expr[:60]}: shape {gsh} elements {gel[:6]}.. expected {sh} {elems[:6]}.."))
        if kind == "generic":
            q = f"lit_parse s{text.encode().hex()}"
            # what the Coq model must return: the shape and the element TOKENS as written in the {:?} text
            toks = re.sub(r"[\[\] ]", "", text).split(",")
            _expect[q] = "sarr(" + "x".join(map(str, sh)) + ":" + ",".join("." + t.encode().hex() for t in toks) + ")"
            second.append(q)
    if second:
        run(second)
    # text forms
    out3 = []
    for sh in list(shapes(4, 3)) + [[0], [1, 1], [1, 1, 1]]:
        n = prod(sh)
        for prec, alt in itertools.product((None, 0, 2, 5), (0, 1)):
            ints = [str(rng.randint(-99, 99)) for _ in range(n)]
            out3.append(f"display@i32 {sarr(sh, ints)} {opt(prec)} z{alt}")
            vals = [rng.choice([0.0, 1.0, -2.5, 3.25, 10.0, 0.125, -7.0, 100.5]) for _ in range(n)]
            fs = [(format(v, f".{prec}f") if prec is not None else (repr(v)[:-2] if repr(v).endswith(".0") else repr(v))) for v in vals]
            out3.append(f"display@f64 {sarr(sh, fs)} {opt(prec)} z{alt}")
        # values with a fractional part at every precision (the raw values go to the implementation, their expected
        # renderings to the model; none is a rounding tie at the precisions used)
        for prec, alt in itertools.product((0, 1, 2, 5), (0, 1)):
            vals = [rng.choice([0.4, 1.6, -0.6, 3.75, 10.49, 0.125, -7.3, 100.501, 2.0, 1e-3, 123456.789]) for _ in range(n)]
            fs = [format(v, f".{prec}f") for v in vals]
            out3.append(f"display@f64 {sarr(sh, fs)} {opt(prec)} z{alt} {sarr(sh, [repr(v) for v in vals])}")
        # pairs, triples and lists as elements, with and without a precision (seeded change C18k: the pair's Display
        # went through Formatter::pad, which cuts the text to the precision)
        if len(sh) <= 3:
            for prec, alt in itertools.product((None, 0, 2, 5), (0, 1)):
                r = lambda: rng.randint(-99, 99)
                out3.append(f"display@t2 {sarr(sh, [f'({r()}, {r()})' for _ in range(n)])} {opt(prec)} z{alt}")
                out3.append(f"display@t3 {sarr(sh, [f'({r()}, {r()}, {r()})' for _ in range(n)])} {opt(prec)} z{alt}")
                out3.append(f"display@t2s {sarr(sh, [f'({rng.choice(WORDS)}, {r()})' for _ in range(n)])} {opt(prec)} z{alt}")
                out3.append(f"display@list {sarr(sh, ['[' + ', '.join(str(r()) for _ in range(rng.randint(1, 3))) + ']' for _ in range(n)])} {opt(prec)} z{alt}")
        out3.append(f"display@str {sarr(sh, [rng.choice(['ab', 'c d', 'x', '']) for _ in range(n)])} n z{rng.randint(0, 1)}")
        out3.append(f"display@bool {sarr(sh, [rng.choice(['true', 'false']) for _ in range(n)])} n z{rng.randint(0, 1)}")
    # compound element types through array_single!: members with separators, brackets, quotes, blanks
    nasty = ["a", "a,b", ",", "f(x)", "(", ")", "[", "]", "[x]", " b", "b ", '"', 'q"q', "", "a, b", "x\ny", "-", "(a, b)", "[a, b]"]
    for a_, b_ in itertools.product(nasty, repeat=2):
        out3.append(f"m_single_compound@str {sarr([2], [a_, b_])}")
        out3.append(f"m_single_compound@list {sarr([2], [a_, b_])}")
    for a_ in nasty:
        out3.append(f"m_single_compound@list {sarr([1], [a_])}")
        out3.append(f"m_single_compound@str {sarr([3], [a_, 'm', a_])}")
        out3.append(f"m_single_compound@list {sarr([3], ['k', a_, a_])}")
        if a_:
            out3.append(f"m_single_compound@char {sarr([2], [a_, 'xyz'])}")
            out3.append(f"m_single_compound@charlist {sarr([1], [a_])}")
            out3.append(f"m_single_compound@charlist {sarr([3], [a_, 'z', a_])}")
    atoms = ["1", "-2", "ab", "x y", "3.5", "", "true", "Z9", " lead", "trail ", " ", "  both  ", "\tt", "a  b"]
    for a, b in itertools.product(atoms, repeat=2):
        out3.append(f"tuple_text {sarr([2], [a, b])}")
        out3.append(f"list_text {sarr([2], [a, b])}")
    # every atom — the empty string and the blank ones included — in every position of a triple (seeded change C18i:
    # split_terminator drops an empty last component)
    for t in itertools.product(atoms, repeat=3):
        out3.append(f"tuple_text {sarr([3], list(t))}")
        out3.append(f"list_text {sarr([3], list(t))}")
    for a in atoms:
        out3.append(f"list_text {sarr([1], [a])}")
    run(out3)
    # the flat, single and constructor macros agree with the corresponding functions (same cases as C16's functions,
    # expected values from the same Coq constructors)
    import C16
    run([l for l in C16.gen(seed, "quick") if l.startswith("m_")])


def extra_checks(cases, impl, model):
    return [(cases.index(c), c, "law: " + why, "-") for c, why in _fail]

"""C13 cases.  delete: 1-D arrays of length 0..6 x every subset of positions (plus repeated / unordered requests and
out-of-range positions), rank <= 3 arrays x every axis x every subset of that axis; insert (flat): every
position multiset of size <= 3 incl. equal positions and the end position, scalar and vector values, on 1-D and
n-D arrays (positions up to the flat length), out-of-range positions, wrong value ranks; repeat: every count
vector in {0,1,2,3}^n for n <= 4 along every axis, scalar counts, flat form, incompatible count vectors, out-of-range
axes; trim_zeros on all 0/1/2 vectors up to length 6; round trips on the implementation: deleting the positions where
values were just inserted restores the array, appending then deleting the tail restores it."""
import itertools
from common import *
import vlib

EXHAUSTIVE = True
BOUNDS = "1-D len 0..6 x all index subsets; rank<=3 x every axis x all subsets; count vectors {0..3}^n n<=4; insert multisets size<=3"
_fail = []


def agree(case, impl, model):
    if case.startswith("trimz@"):
        # float pools: leading and trailing zeros (of either sign) are removed and nothing else — a NaN or an infinity
        # at either end stays; the harness answers with the bounds of the slice it got back
        import floatsem, struct
        t = case.split(" ")
        single = t[0].endswith("f32p")
        labs = [int(x) for x in t[1].split(":", 1)[1].split(",") if x]
        def zero(k):
            v = floatsem.POOL[k]
            if single:
                try:
                    v = struct.unpack("f", struct.pack("f", v))[0]
                except OverflowError:
                    v = float("inf")
            return v == 0.0
        i, j = 0, len(labs)
        while i < j and zero(labs[i]):
            i += 1
        while j > i and zero(labs[j - 1]):
            j -= 1
        return impl == ("list(empty)" if i >= j else f"list(z({i});z({j}))")
    return None


def gen_rounds(seed, tier, run):
    rng = random.Random(seed)
    del _fail[:]
    out = []
    rts = []
    for n in range(0, 7):
        a = arr([n], base=10)
        for k in range(0, n + 1):
            for sub in itertools.combinations(range(n), k):
                out.append(f"delete {a} {lst(sub)} n")
        for _ in range(30):
            idx = [rng.randrange(n + (1 if rng.random() < 0.1 else 0)) for _ in range(rng.randint(1, 5))] if n else [0]
            out.append(f"delete {a} {lst(idx)} n")
        out.append(f"delete {a} {lst([n])} n")
        out.append(f"delete {a} {lst([n + 3])} z0")
        # insert
        for k in (1, 2, 3):
            for pos in itertools.combinations_with_replacement(range(n + 1), k):
                if k == 3 and rng.random() < 0.6:
                    continue
                pos = list(pos)
                rng.shuffle(pos)
                vals = arr([k], base=100)
                rts.append((len(out), pos))
                out.append(f"insert {a} {lst(pos)} {vals} n")
            out.append(f"insert {a} {lst(list(range(min(k, n + 1))))} a1:77 n")
        out.append(f"insert {a} {lst([n + 1])} a1:77 n")
        out.append(f"insert {a} {lst([0])} a1x1:77 n")
        out.append(f"insert {a} {lst([0, 1])} a3:1,2,3 n")
    # long request lists with repeated, unsorted positions and distinguishable values: values requested for the same
    # position must come out in request order (std's sort switches algorithm above 20 elements)
    for sh, L in (([10], 24), ([10], 33), ([10], 40), ([3], 48), ([2, 2, 2], 64), ([5], 100), ([1], 35)):
        cnt = prod(sh)
        for step, off in ((7, 3), (3, 1), (1, 0)):
            pos = [(step * k + off) % (cnt + 1) for k in range(L)]
            out.append(f"insert {arr(sh)} {lst(pos)} {arr([L], base=1000)} n")
        pos = [rng.randrange(cnt + 1) for _ in range(L)]
        rts.append((len(out), pos))
        out.append(f"insert {arr(sh)} {lst(pos)} {arr([L], base=1000)} n")
        out.append(f"delete {arr([L + cnt])} {lst([rng.randrange(L + cnt) for _ in range(L)])} n")
    for sh in shapes(3, 3):
        n = len(sh)
        a = arr(sh)
        for ax in range(n):
            ln = sh[ax]
            for k in range(0, ln + 1):
                for sub in itertools.combinations(range(ln), k):
                    out.append(f"delete {a} {lst(sub)} z{ax}")
            out.append(f"delete {a} {lst([ln])} z{ax}")
            for cnt in itertools.product(range(4), repeat=ln):
                if ln == 3 and rng.random() < 0.5:
                    continue
                out.append(f"repeat {a} {lst(cnt)} z{ax}")
            for c in (0, 1, 2, 3):
                out.append(f"repeat {a} {lst([c])} z{ax}")
            out.append(f"repeat {a} {lst([1] * (ln + 1))} z{ax}")
            out.append(f"insert_entry {a} {lst([ln + 1])} a1:7 z{ax}")
        out.append(f"delete {a} l0 z{n}")
        out.append(f"repeat {a} l2 z{n}")
        out.append(f"insert_entry {a} l0 a1:7 z{n}")
        for c in (0, 1, 2, 3):
            out.append(f"repeat {a} {lst([c])} n")
        out.append(f"repeat {a} {lst([1, 2])} n")
        out.append(f"repeat {a} {lst([2] * sh[-1])} n")
        tot = prod(sh)
        for pos in ([0], [tot], [sh[0] + 1] if sh[0] + 1 <= tot else [tot], [tot + 1], [1, 1]):
            rts.append((len(out), pos))
            out.append(f"insert {a} {lst(pos)} a1:99 n")
        out.append(f"delete {a} {lst([0, tot - 1])} n")
        out.append(f"trim_zeros {a}")
    # append: along every axis with every pair of lengths on that axis (shorter, equal, longer blocks), and flat
    for sh in shapes(3, 3):
        if len(sh) < 1:
            continue
        for ax in range(len(sh)):
            for ln in (1, 2, 3, 4, 7):
                other = list(sh); other[ax] = ln
                out.append(f"append {arr(sh)} {arr(other, base=500)} z{ax}")
        out.append(f"append {arr(sh)} {arr([3], base=500)} n")
        out.append(f"append {arr(sh)} {arr(sh, base=500)} n")
        # nothing / one value / values of a higher rank appended to the flattened receiver (seeded change C13m: an
        # empty list of values returned the receiver unflattened)
        out.append(f"append {arr(sh)} a0: n")
        out.append(f"append {arr(sh)} {arr([1], base=500)} n")
        out.append(f"append {arr(sh)} {arr([2, 1, 2], base=500)} n")
        out.append(f"append {arr(sh)} {arr([0, 2], base=500)} n")
        out.append(f"concatenate L2 {arr(sh)} a0: n")
    for sh, ax, ln in (([2, 2, 2, 2], 3, 5), ([2, 3, 2, 2], 2, 5), ([2, 2, 2, 3], 1, 4), ([3, 2, 2, 2], 0, 5)):
        other = list(sh); other[ax] = ln
        out.append(f"append {arr(sh)} {arr(other, base=500)} z{ax}")
    # long axes: deletes / repeats / inserts / trims on arrays with 17..100 entries along the axis
    for sh in ([17], [33], [64], [100], [2, 17], [17, 3], [2, 9, 2]):
        for ax in range(len(sh)):
            ln = sh[ax]
            for _ in range(4):
                idx = sorted(rng.sample(range(ln), rng.randint(1, min(ln, 9))))
                rng.shuffle(idx)
                out.append(f"delete {arr(sh)} {lst(idx)} z{ax}")
                out.append(f"repeat {arr(sh)} {lst([rng.randint(0, 3) for _ in range(ln)])} z{ax}")
            out.append(f"repeat {arr(sh)} l2 z{ax}")
        tot = prod(sh)
        for _ in range(3):
            idx = [rng.randrange(tot) for _ in range(rng.randint(1, 12))]
            out.append(f"delete {arr(sh)} {lst(idx)} n")
            pos = [rng.randrange(tot + 1) for _ in range(rng.randint(1, 6))]
            rts.append((len(out), pos))
            out.append(f"insert {arr(sh)} {lst(pos)} {arr([len(pos)], base=5000)} n")
        out.append(f"repeat {arr(sh)} l3 n")
    # rank 4 / 5 with middle axes and unequal trailing extents (seeded change C13h: the lane axis moved back with an
    # exchange instead of the inverse move shows only for 1 <= axis <= rank - 3)
    for sh in ([2, 3, 2, 2], [2, 2, 3, 2], [3, 2, 2, 3], [2, 3, 4, 2], [2, 2, 2, 3, 2], [1, 3, 2, 4]):
        for ax in range(len(sh)):
            ln = sh[ax]
            for k in range(0, ln + 1):
                for sub in itertools.combinations(range(ln), k):
                    if rng.random() < 0.6:
                        sub = list(sub); rng.shuffle(sub)
                        out.append(f"delete {arr(sh)} {lst(sub)} z{ax}")
            out.append(f"delete {arr(sh)} {lst([ln - 1, 0, ln - 1])} z{ax}")
            for _ in range(3):
                out.append(f"repeat {arr(sh)} {lst([rng.randint(0, 3) for _ in range(ln)])} z{ax}")
            out.append(f"repeat {arr(sh)} l2 z{ax}")
            other = list(sh); other[ax] = rng.choice([1, 2, 5])
            out.append(f"append {arr(sh)} {arr(other, base=500)} z{ax}")
    # count vectors of EVERY length against composite axis extents (seeded change C09k: a count list whose length
    # divides the extent was cycled instead of refused)
    for sh in ([4], [6], [2, 4], [6, 2], [2, 3, 4], [2, 6, 2], [8], [9], [3, 9]):
        for ax in range(len(sh)):
            for ln in range(0, sh[ax] + 3):
                out.append(f"repeat {arr(sh)} {lst([1 + (k % 3) for k in range(ln)])} z{ax}")
        for ln in (2, 3, 4, 6, prod(sh) // 2, prod(sh)):
            out.append(f"repeat {arr(sh)} {lst([1 + (k % 2) for k in range(ln)])} n")
    for L in (9, 17, 33, 64, 100):
        for _ in range(6):
            v = [rng.choice([0, 0, 1, 2]) for _ in range(L)]
            lead, trail = rng.randint(0, 5), rng.randint(0, 5)
            out.append(f"trim_zeros {arr([L + lead + trail], [0] * lead + v + [0] * trail)}")
    for sh in ([4], [2, 4], [4, 2], [2, 2, 4]):
        for ax in range(len(sh)):
            for cnt in itertools.product(range(3), repeat=sh[ax]):
                out.append(f"repeat {arr(sh)} {lst(cnt)} z{ax}")
    for L in range(0, 7):
        for v in itertools.product(range(3), repeat=L):
            if L == 6 and rng.random() < 0.7:
                continue
            out.append(f"trim_zeros {arr([L], v)}")
    # one fill value at several positions given in ANY order (seeded change C13p: a fast path for a single value
    # walked the request as given)
    for sh in ([5], [6], [2, 3], [2, 2, 2]):
        tot = prod(sh)
        for pos in ([3, 1], [tot, 0, 2], [2, 2, 0], [tot, tot - 1], [1, 0], [4, 0, 4, 1]):
            pos = [min(p_, tot) for p_ in pos]
            out.append(f"insert {arr(sh)} {lst(pos)} a1:-1 n")
    # trim_zeros on float arrays: NaN, infinities and signed zeros at the ends (seeded change C13n)
    for ty in ("f64p", "f32p"):
        for _ in range(60):
            n_ = rng.randint(0, 8)
            core = [rng.choice([0, 1, 0, 13, 11, 12, 2, 5, 10, 1, 0]) for _ in range(n_)]
            out.append(f"trimz@{ty} {arr([len(core)], core)}")
        for fixed in ([13, 2, 3, 0], [0, 2, 3, 13], [0, 13, 2, 0, 13, 0, 0], [13, 0, 13], [1, 13, 1], [11, 0], [0, 12], [1, 0, 1], [13]):
            out.append(f"trimz@{ty} {arr([len(fixed)], fixed)}")
    out = retype(out, rng, set(['delete', 'insert', 'insert_entry', 'repeat', 'append', 'concatenate']))          # other element types for the generic operations
    impl, model = run(out)
    # round trip: delete what was just inserted
    follow = []
    for i, pos in rts:
        r = impl[i]
        if not r.startswith("arr("):
            continue
        orig_tok = out[i].split(" ")[1]
        od, _, oe = orig_tok[1:].partition(":")
        oes = oe.split(",") if oe else []
        # positions of the inserted elements in the result: original position p_k plus the number of inserted
        # elements placed before it (stable by position, then argument order)
        order = sorted(range(len(pos)), key=lambda k: (pos[k], k))
        newpos = [pos[k] + rank for rank, k in enumerate(order)]
        want = "arr(" + str(len(oes)) + ":" + ",".join(oes) + ")"
        follow.append((out[i], f"delete a{r[4:-1]} {lst(newpos)} n", want))
    if follow:
        im2, _ = run([f[1] for f in follow])
        for (c, q, want), r in zip(follow, im2):
            if r != want:
                _fail.append((c, f"insert then delete: {q[:100]} -> {r[:80]}, expected {want[:80]}"))


def extra_checks(cases, impl, model):
    return [(cases.index(c), c, "law: " + why, "-") for c, why in _fail]

"""C08 cases.  17 operations (sum, prod, nansum, nanprod, cumsum, cumprod, nancumsum, nancumprod, max, min, amax,
amin, nanmax, nanmin, count_nonzero, argmax, argmin) x every axis in both spellings (+ None, + out-of-range axes)
on all shapes of rank 1..4 with lengths 1..3 and rank 5 with lengths 1..2.  Integer element types: results
compared with the Coq model computing exact Z values lane by lane.  Float pools (NaN, +-inf, +-0, subnormal):
the Coq model extracts, for every output position, the lane of input positions it stands for; the implementation's
own 1-D call on that lane (second round of oracle queries, axis None) must give the value found there - the
statement 'equals the 1-D operation on the lane' checked literally."""
import itertools, os
from common import *
import vlib

EXHAUSTIVE = True
BOUNDS = "all shapes rank 1..4 lengths 1..3, rank 5 lengths 1..2 x every axis (both spellings) x 17 operations"

RED = ["sum", "prod", "nansum", "nanprod", "max", "min", "amax", "amin", "nanmax", "nanmin"]
SCAN = ["cumsum", "cumprod", "nancumsum", "nancumprod"]
IDX = ["count_nonzero", "argmax", "argmin"]
ZRED = ["sum", "prod", "nansum", "nanprod", "max", "min", "amax", "amin", "nanmax", "nanmin"]
_law_failures = []


def agree(case, impl, model):
    head = case.split(" ")[0].split("@")[0]
    if head == "lane1":
        return True            # oracle query: only the implementation's answer is used
    if head in ("lanered", "lanescan", "laneidx"):
        # shape / error class here; values in extra_checks once the oracle table exists
        if impl.startswith("arr(") and model.startswith("arr("):
            return vlib.parse_arr(impl)[0] == vlib.parse_arr(model)[0]
        return vlib.canon(impl) == vlib.canon(model)
    return None


# ---- an independent oracle for the 1-D float operations (floatsem.py): exact NaN / infinity behaviour, finite results
# against the exact rational sum / product within a rounding bound, so neither the order of evaluation nor fused
# operations are pinned ----
import math
from fractions import Fraction as F
import floatsem


def float_judge(op, ty, lane, tokens):
    """True / False for the tokens the implementation returned for `op` on a lane of pool labels; None = not judged"""
    single = ty == "f32p"
    xs = [floatsem.value(i, single) for i in lane]
    cum = op.startswith("cum") or op.startswith("nancum")
    if op in ("sum", "nansum", "cumsum", "nancumsum", "prod", "nanprod", "cumprod", "nancumprod"):
        mul = "prod" in op
        if op.startswith("nan"):
            xs = [(1.0 if mul else 0.0) if math.isnan(x) else x for x in xs]
        prefixes = [xs[:k + 1] for k in range(len(xs))] if cum else [xs]
        if len(tokens) != len(prefixes):
            return False
        verdict = True
        for tok, pre in zip(tokens, prefixes):
            if mul:
                spec = floatsem.product_spec(pre)
                fin = [abs(F(x)) for x in pre if not (math.isnan(x) or math.isinf(x))]
                up, down = F(1), F(1)
                for m in fin:
                    if m >= 1:
                        up *= m
                    elif m > 0:
                        down *= m
                r = floatsem.judge(tok, spec, single, len(pre), mags=[up, down])
            else:
                spec = floatsem.sum_spec([floatsem.product_spec([x]) for x in pre])
                r = floatsem.judge(tok, spec, single, len(pre))
            if r is False:
                return False
            if r is None:
                verdict = None
        return verdict
    if op in ("max", "amax", "min", "amin", "nanmax", "nanmin"):
        if not xs or len(tokens) != 1:
            return None
        nn = [x for x in xs if not math.isnan(x)]
        if op in ("max", "amax", "min", "amin") and len(nn) != len(xs):
            return tokens[0] == "nan"
        if not nn:
            return None
        v = max(nn) if "max" in op else min(nn)
        got = floatsem.token_value(tokens[0], single)
        return (not math.isnan(got)) and got == v
    return None


def decode(code):
    out = []
    while code > 0:
        out.append(code % 1000 - 1)
        code //= 1000
    return list(reversed(out))


def values(rng, ty, n, op):
    if ty.endswith("p"):
        pool = list(range(20))
        if op in ("prod", "cumprod", "nanprod", "nancumprod"):
            pool = [0, 1, 2, 3, 4, 5, 6, 7, 13, 14, 17, 18, 19, 11]
        return [rng.choice(pool) for _ in range(n)]
    if op in ("prod", "cumprod", "nanprod", "nancumprod"):
        # products must not overflow the element type: mostly +-1, at most 8 larger factors
        vals = [rng.choice([1, 1, -1]) for _ in range(n)]
        for _ in range(min(8, n)):
            vals[rng.randrange(n)] = rng.choice([2, 3, -2, 0, 1])
        return vals
    return [rng.randint(-9, 9) for _ in range(n)]


def gen_rounds(seed, tier, run):
    rng = random.Random(seed)
    del _law_failures[:]
    out = []
    shs = list(shapes(4, 3)) + list(shapes(5, 2, min_rank=5))
    # long lanes: a chunked / pairwise / early-exit reduction must not lose a tail
    shs += [[8], [17], [33], [64], [100], [2, 17], [17, 2], [3, 33], [33, 3], [2, 9, 2], [5, 7]]
    if tier == "thorough":
        # (an escalated quick run — /repo changed — uses half of the thorough volume: the lane oracle is slow; 300 random
        #  shapes made the extracted evaluator exceed its 20-minute limit on a loaded machine)
        shs += [rand_shape(rng, 5, (1, 2, 3, 4)) for _ in range(30 if os.environ.get("VERIF_ESCALATED") else 60)]
    for k, sh in enumerate(shs):
        n = len(sh)
        axes = [None] + list(range(-n, n)) + [n, -n - 1, n + 2]
        for op in RED + SCAN + IDX:
            if len(sh) == 5 and rng.random() < 0.5 and tier == "quick":
                continue
            for ax in axes:
                # (16- and 8-bit lanes too: the value ranges keep every total inside i16; i8 only on small arrays and sums)
                ity = ["i32", "i64", "i32", "i16", "i64"][k % 5]
                if prod(sh) <= 12 and "prod" not in op and k % 2:
                    ity = "i8"
                fty = "f64p" if (k + (ax or 0)) % 2 == 0 else "f32p"
                ev = values(rng, ity, prod(sh), op)
                fv = values(rng, fty, prod(sh), op)
                if op in IDX:
                    keep = rng.choice([0, 1, 2])
                    out.append(f"{op}@{ity} {arr(sh, ev)} {opt(ax)} z{keep}")
                    out.append(f"laneidx@{fty} s{hexs(op)} {arr(sh, fv)} {opt(ax)} z{keep}")
                else:
                    if op in ZRED or op in SCAN:
                        out.append(f"{op}@{ity} {arr(sh, ev)} {opt(ax)}")
                    kind = "lanescan" if op in SCAN else "lanered"
                    out.append(f"{kind}@{fty} s{hexs(op)} {arr(sh, fv)} {opt(ax)}")
    # integers no double represents (seeded change C08h: min folded over an f64 copy): extremes / positions exactly,
    # sums and products with one such value and small companions so that nothing overflows
    B = 2 ** 53
    HUGE = [B + 1, B + 3, B + 2, -(B + 1), -(B + 3), 2 ** 62 + 1, 2 ** 63 - 1, 2 ** 63 - 2, -2 ** 63 + 1, -2 ** 63 + 2, 2 ** 60 + 9, 2 ** 60 + 1]
    for sh in ([3], [4], [2, 3], [3, 2], [2, 2, 2], [2, 1, 3]):
        n = len(sh)
        cnt = prod(sh)
        for ax in [None] + list(range(-n, n)):
            for rep in range(3):
                ev = [rng.choice(HUGE) for _ in range(cnt)]
                if rep == 1:       # all close together above 2^53 (they collapse to one double)
                    ev = [B + 1 + rng.randrange(6) for _ in range(cnt)]
                if rep == 2:       # all close together near the ends of the type
                    ev = [rng.choice([2 ** 63 - 1 - rng.randrange(5), -2 ** 63 + 1 + rng.randrange(5)]) for _ in range(cnt)]
                for op in ("max", "min", "amax", "amin", "nanmax", "nanmin"):
                    out.append(f"{op}@i64 {arr(sh, ev)} {opt(ax)}")
                for op in ("argmax", "argmin", "count_nonzero"):
                    out.append(f"{op}@i64 {arr(sh, ev)} {opt(ax)} z{rng.choice([0, 1, 2])}")
            sv = [rng.randint(-3, 3) for _ in range(cnt)]
            # one huge value per array: no lane can overflow
            sv[rng.randrange(cnt)] = rng.choice([B + 1, -(B + 1), 2 ** 60 + 1])
            for op in ("sum", "nansum", "cumsum", "nancumsum"):
                out.append(f"{op}@i64 {arr(sh, sv)} {opt(ax)}")
            pv = [rng.choice([1, -1, 1]) for _ in range(cnt)]
            pv[rng.randrange(cnt)] = rng.choice([B + 1, -(B + 1), 2 ** 60 + 1])
            for op in ("prod", "nanprod", "cumprod", "nancumprod"):
                out.append(f"{op}@i64 {arr(sh, pv)} {opt(ax)}")
    # empties
    for op in RED + SCAN:
        out.append(f"{op}@i32 a0: n")
        out.append(f"{op}@i32 a0: z0")
    for op in IDX:
        out.append(f"{op}@i32 a0: n z2")
        out.append(f"{op}@i32 a0: z0 z2")
    impl, model = run(out)
    # second round: the implementation's own 1-D results on every lane the model extracted
    queries = {}
    pending = []
    for c, im, mo in zip(out, impl, model):
        t = c.split(" ")
        head, _, ty = t[0].partition("@")
        if head not in ("lanered", "lanescan", "laneidx") or not im.startswith("arr(") or not mo.startswith("arr("):
            continue
        op = bytes.fromhex(t[1][1:]).decode()
        labels = t[2].split(":")[1].split(",") if t[2].split(":")[1] else []
        codes = [int(x) for x in vlib.parse_arr(mo)[1]]
        got = vlib.parse_arr(im)[1]
        if len(codes) != len(got):
            _law_failures.append((c, im, mo)); continue
        for pos, (code, g) in enumerate(zip(codes, got)):
            k = None
            if head == "lanescan":
                code, k = divmod(code, 1000)
            lane = tuple(labels[i] for i in decode(code))
            q = f"lane1@{ty} s{hexs(op)} {arr([len(lane)], lane)}"
            queries.setdefault(q, None)
            pending.append((c, im, q, k, g))
    qs = list(queries)
    if qs:
        qi, _ = run(qs)
        for q, r in zip(qs, qi):
            queries[q] = r
            t = q.split(" ")
            ty = t[0].split("@")[1]
            op1 = bytes.fromhex(t[1][1:]).decode()
            body = t[2].split(":")[1]
            pa = vlib.parse_arr(r)
            if pa is not None and float_judge(op1, ty, body.split(",") if body else [], list(pa[1])) is False:
                _law_failures.append((q, r, "1-D float operation differs from its definition (sum / product / extreme of the lane)"))
    for c, im, q, k, g in pending:
        r = queries[q]
        pa = vlib.parse_arr(r)
        if pa is None:
            _law_failures.append((c, im, f"lane oracle {q} -> {r}")); continue
        want = pa[1][k] if k is not None else (pa[1][0] if len(pa[1]) == 1 else None)
        if want != g:
            _law_failures.append((c, im, f"lane {q} gives {r}, result holds {g}"))


def extra_checks(cases, impl, model):
    seen, out = set(), []
    for c, im, why in _law_failures:
        if c not in seen:
            seen.add(c)
            out.append((cases.index(c), c, "law: result differs from the 1-D operation on the lane: " + why[:300], "-"))
    return out

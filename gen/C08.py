"""C08 cases.  17 operations (sum, prod, nansum, nanprod, cumsum, cumprod, nancumsum, nancumprod, max, min, amax,
amin, nanmax, nanmin, count_nonzero, argmax, argmin) x every axis in both spellings (+ None, + out-of-range axes)
on all shapes of rank 1..4 with lengths 1..3 and rank 5 with lengths 1..2.  Integer element types: results
compared with the Coq model computing exact Z values lane by lane.  Float pools (NaN, +-inf, +-0, subnormal):
the Coq model extracts, for every output position, the lane of input positions it stands for; the implementation's
own 1-D call on that lane (second round of oracle queries, axis None) must give the value found there - the
statement 'equals the 1-D operation on the lane' checked literally."""
import itertools
from common import *
import vlib

EXHAUSTIVE = True
BOUNDS = "all shapes rank 1..4 lengths 1..3, rank 5 lengths 1..2 x every axis (both spellings) x 17 operations"

RED = ["sum", "prod", "nansum", "nanprod", "max", "min", "amax", "amin", "nanmax", "nanmin"]
SCAN = ["cumsum", "cumprod", "nancumsum", "nancumprod"]
IDX = ["count_nonzero", "argmax", "argmin"]
ZRED = ["sum", "prod", "nansum", "nanprod", "max", "min", "amax", "amin", "nanmax", "nanmin"]
_law_failures = []


def agree(case, impl, model):
    head = case.split(" ")[0].split("@")[0]
    if head == "lane1":
        return True            # oracle query: only the implementation's answer is used
    if head in ("lanered", "lanescan", "laneidx"):
        # shape / error class here; values in extra_checks once the oracle table exists
        if impl.startswith("arr(") and model.startswith("arr("):
            return vlib.parse_arr(impl)[0] == vlib.parse_arr(model)[0]
        return vlib.canon(impl) == vlib.canon(model)
    return None


# ---- an independent oracle for the 1-D float operations: the left folds in IEEE arithmetic, lane order ----
import struct, math
POOL = [0.0, -0.0, 1.0, -1.0, 2.0, 0.5, -2.5, 3.0, 1e300, -1e300, 5e-324, math.inf, -math.inf, math.nan, 7.25, 100.0,
        1e-10, 1.0000000000000002, -7.0, 0.1]


def _r32(x):
    if math.isnan(x) or math.isinf(x):
        return x
    try:
        return struct.unpack("f", struct.pack("f", x))[0]
    except OverflowError:
        return math.copysign(math.inf, x)


def _bits(x, single):
    if math.isnan(x):
        return "nan"
    if not math.isinf(x) and x == math.floor(x) and abs(x) < (1e7 if single else 1e15) and not (x == 0.0 and math.copysign(1, x) < 0):
        return str(int(x))
    return "f" + (struct.pack(">f", x) if single else struct.pack(">d", x)).hex()


def float_fold(op, ty, lane):
    """expected tokens of the 1-D operation `op` on a lane of pool indices, or None when this oracle does not
    define it (extrema with ties between the two zeros, all-NaN nan-extrema)"""
    single = ty == "f32p"
    rnd = _r32 if single else (lambda v: v)
    xs = [rnd(POOL[int(i)]) for i in lane]
    if op in ("sum", "nansum", "cumsum", "nancumsum", "prod", "nanprod", "cumprod", "nancumprod"):
        mul = "prod" in op
        skip = op.startswith("nan")
        acc = 1.0 if mul else 0.0
        run = []
        for x in xs:
            if skip and math.isnan(x):
                x = 1.0 if mul else 0.0
            acc = rnd(acc * x) if mul else rnd(acc + x)
            run.append(acc)
        if op.startswith("cum") or op.startswith("nancum"):
            return [_bits(v, single) for v in run]
        return [_bits(acc, single)]
    if op in ("max", "amax", "min", "amin", "nanmax", "nanmin"):
        if not xs:
            return None
        nn = [x for x in xs if not math.isnan(x)]
        if op in ("max", "amax", "min", "amin") and len(nn) != len(xs):
            return ["nan"]
        if not nn:
            return None
        v = max(nn) if "max" in op else min(nn)
        if v == 0.0 and any(math.copysign(1, x) < 0 for x in nn if x == 0.0) and any(math.copysign(1, x) > 0 for x in nn if x == 0.0):
            return None
        return [_bits(v, single)]
    return None


def decode(code):
    out = []
    while code > 0:
        out.append(code % 1000 - 1)
        code //= 1000
    return list(reversed(out))


def values(rng, ty, n, op):
    if ty.endswith("p"):
        pool = list(range(20))
        if op in ("prod", "cumprod", "nanprod", "nancumprod"):
            pool = [0, 1, 2, 3, 4, 5, 6, 7, 13, 14, 17, 18, 19, 11]
        return [rng.choice(pool) for _ in range(n)]
    if op in ("prod", "cumprod", "nanprod", "nancumprod"):
        # products must not overflow the element type: mostly +-1, at most 8 larger factors
        vals = [rng.choice([1, 1, -1]) for _ in range(n)]
        for _ in range(min(8, n)):
            vals[rng.randrange(n)] = rng.choice([2, 3, -2, 0, 1])
        return vals
    return [rng.randint(-9, 9) for _ in range(n)]


def gen_rounds(seed, tier, run):
    rng = random.Random(seed)
    del _law_failures[:]
    out = []
    shs = list(shapes(4, 3)) + list(shapes(5, 2, min_rank=5))
    # long lanes: a chunked / pairwise / early-exit reduction must not lose a tail
    shs += [[8], [17], [33], [64], [100], [2, 17], [17, 2], [3, 33], [33, 3], [2, 9, 2], [5, 7]]
    if tier == "thorough":
        shs += [rand_shape(rng, 5, (1, 2, 3, 4)) for _ in range(300)]
    for k, sh in enumerate(shs):
        n = len(sh)
        axes = [None] + list(range(-n, n)) + [n, -n - 1, n + 2]
        for op in RED + SCAN + IDX:
            if len(sh) == 5 and rng.random() < 0.5 and tier == "quick":
                continue
            for ax in axes:
                ity = ["i32", "i64", "i32"][k % 3]
                fty = "f64p" if (k + (ax or 0)) % 2 == 0 else "f32p"
                ev = values(rng, ity, prod(sh), op)
                fv = values(rng, fty, prod(sh), op)
                if op in IDX:
                    keep = rng.choice([0, 1, 2])
                    out.append(f"{op}@{ity} {arr(sh, ev)} {opt(ax)} z{keep}")
                    out.append(f"laneidx@{fty} s{hexs(op)} {arr(sh, fv)} {opt(ax)} z{keep}")
                else:
                    if op in ZRED or op in SCAN:
                        out.append(f"{op}@{ity} {arr(sh, ev)} {opt(ax)}")
                    kind = "lanescan" if op in SCAN else "lanered"
                    out.append(f"{kind}@{fty} s{hexs(op)} {arr(sh, fv)} {opt(ax)}")
    # empties
    for op in RED + SCAN:
        out.append(f"{op}@i32 a0: n")
        out.append(f"{op}@i32 a0: z0")
    for op in IDX:
        out.append(f"{op}@i32 a0: n z2")
        out.append(f"{op}@i32 a0: z0 z2")
    impl, model = run(out)
    # second round: the implementation's own 1-D results on every lane the model extracted
    queries = {}
    pending = []
    for c, im, mo in zip(out, impl, model):
        t = c.split(" ")
        head, _, ty = t[0].partition("@")
        if head not in ("lanered", "lanescan", "laneidx") or not im.startswith("arr(") or not mo.startswith("arr("):
            continue
        op = bytes.fromhex(t[1][1:]).decode()
        labels = t[2].split(":")[1].split(",") if t[2].split(":")[1] else []
        codes = [int(x) for x in vlib.parse_arr(mo)[1]]
        got = vlib.parse_arr(im)[1]
        if len(codes) != len(got):
            _law_failures.append((c, im, mo)); continue
        for pos, (code, g) in enumerate(zip(codes, got)):
            k = None
            if head == "lanescan":
                code, k = divmod(code, 1000)
            lane = tuple(labels[i] for i in decode(code))
            q = f"lane1@{ty} s{hexs(op)} {arr([len(lane)], lane)}"
            queries.setdefault(q, None)
            pending.append((c, im, q, k, g))
    qs = list(queries)
    if qs:
        qi, _ = run(qs)
        for q, r in zip(qs, qi):
            queries[q] = r
            t = q.split(" ")
            ty = t[0].split("@")[1]
            op1 = bytes.fromhex(t[1][1:]).decode()
            body = t[2].split(":")[1]
            want = float_fold(op1, ty, body.split(",") if body else [])
            pa = vlib.parse_arr(r)
            if want is not None and pa is not None and list(pa[1]) != want:
                _law_failures.append((q, r, "1-D float operation differs from the left fold in lane order: expected " + ",".join(want)))
    for c, im, q, k, g in pending:
        r = queries[q]
        pa = vlib.parse_arr(r)
        if pa is None:
            _law_failures.append((c, im, f"lane oracle {q} -> {r}")); continue
        want = pa[1][k] if k is not None else (pa[1][0] if len(pa[1]) == 1 else None)
        if want != g:
            _law_failures.append((c, im, f"lane {q} gives {r}, result holds {g}"))


def extra_checks(cases, impl, model):
    seen, out = set(), []
    for c, im, why in _law_failures:
        if c not in seen:
            seen.add(c)
            out.append((cases.index(c), c, "law: result differs from the 1-D operation on the lane: " + why[:300], "-"))
    return out

"""C06 cases: transpose with every permutation (positive, negative and mixed spellings), default transpose,
invalid orders (duplicate, out of range, wrong length); moveaxis for every (source, destination) in
[-n-2, n+1] and all two-axis moves; rollaxis for every (axis, start) in [-n-2, n+1] and start=None; swapaxes
for every pair in [-n-2, n+1]; on all shapes of rank 1..4 with lengths 1..3 and rank 5 with lengths 1..2;
thorough adds random rank-5 shapes with lengths <= 4."""
import itertools
from common import *

EXHAUSTIVE = True
BOUNDS = "all shapes rank 1..4 lengths 1..3, rank 5 lengths 1..2; all permutations; all axis pairs in [-n-2,n+1]"


def spellings(p, n, rng, k=2):
    yield list(p)
    yield [x - n for x in p]
    for _ in range(k):
        yield [x - n if rng.random() < 0.5 else x for x in p]


def per_shape(sh, out, rng, ty="i32", all_perms=True):
    n = len(sh)
    a = arr(sh)
    out.append(f"transpose@{ty} {a} n")
    perms = list(itertools.permutations(range(n)))
    if not all_perms:
        perms = rng.sample(perms, min(len(perms), 12))
    for p in perms:
        for q in spellings(p, n, rng, 1 if n >= 4 else 2):
            out.append(f"transpose@{ty} {a} {lst(q)}")
    # invalid orders
    for q in ([0] * n, list(range(n - 1)), list(range(n + 1)), [n] + list(range(1, n)), [-n - 1] + list(range(1, n)),
              [2 ** 62] + list(range(1, n)), [-2 ** 63] + list(range(1, n)), []):
        out.append(f"transpose@{ty} {a} {lst(q)}")
    # every order over the axes, permutation or not (repeats anywhere, adjacent or not — seeded change C01j: uniqueness
    # tested with dedup accepted [0, 1, 0]), in a random spelling
    if n <= 3:
        for q in itertools.product(range(n), repeat=n):
            out.append(f"transpose@{ty} {a} {lst([x - n if rng.random() < 0.3 else x for x in q])}")
    else:
        for _ in range(40):
            q = [rng.randrange(n) for _ in range(n)]
            out.append(f"transpose@{ty} {a} {lst([x - n if rng.random() < 0.3 else x for x in q])}")
        out.append(f"transpose@{ty} {a} {lst([0, 1] + list(range(2, n - 1)) + [0])}")
    rng_ax = range(-n - 2, n + 2)
    for s in rng_ax:
        for d in rng_ax:
            out.append(f"moveaxis@{ty} {a} {lst([s])} {lst([d])}")
            out.append(f"rollaxis@{ty} {a} {z(s)} {z(d)}")
            out.append(f"swapaxes@{ty} {a} {z(s)} {z(d)}")
        out.append(f"rollaxis@{ty} {a} {z(s)} n")
    if n >= 2:
        for s in itertools.permutations(range(n), 2):
            for d in itertools.permutations(range(n), 2):
                s2 = [x - n if rng.random() < 0.3 else x for x in s]
                d2 = [x - n if rng.random() < 0.3 else x for x in d]
                out.append(f"moveaxis@{ty} {a} {lst(s2)} {lst(d2)}")
        out.append(f"moveaxis@{ty} {a} {lst([0, 0])} {lst([0, 1])}")
        out.append(f"moveaxis@{ty} {a} {lst([0, 1])} {lst([1, 1])}")
        out.append(f"moveaxis@{ty} {a} {lst([0, 1])} {lst([1])}")
        out.append(f"moveaxis@{ty} {a} {lst([0, -n])} {lst([0, 1])}")
    if n >= 3:
        for src, dst in (([0, 1, 0], [0, 1, 2]), ([0, 1, 2], [2, 0, 2]), ([0, 1, -n], [0, 1, 2]), ([0, 1, 2], [1, 0, -n + 1]),
                         ([2, 0, 2], [0, 1, 2]), ([0, 1, 2], [0, 2, 0])):
            out.append(f"moveaxis@{ty} {a} {lst(src)} {lst(dst)}")
        for _ in range(6):
            s = rng.sample(range(n), 3)
            d = rng.sample(range(n), 3)
            out.append(f"moveaxis@{ty} {a} {lst(s)} {lst(d)}")
    for big in (2 ** 31, -2 ** 31, 2 ** 62, -2 ** 62, 2 ** 63 - 1, -2 ** 63):
        out.append(f"swapaxes@{ty} {a} {z(big)} z0")
        out.append(f"rollaxis@{ty} {a} z0 {z(big)}")
        out.append(f"moveaxis@{ty} {a} l0 {lst([big])}")


def gen(seed, tier):
    rng = random.Random(seed)
    out = []
    # every element type the generic operations are instantiated with in the harness, in rotation: plain numbers of
    # several widths, strings, and heap-backed compound elements (a list, a pair holding a string) — a path chosen by
    # element type (seeded change C06m: a gather for types that need drop) must meet each
    TYS = ["i32", "str", "list", "pair", "f64", "u8", "i64", "f32", "i16", "u16", "u64", "i8"]
    for k, sh in enumerate(shapes(4, 3)):
        per_shape(sh, out, rng, ty=TYS[k % len(TYS)])
        if len(sh) >= 3:
            per_shape(sh, out, rng, ty=TYS[(k + 1) % 4], all_perms=True)        # i32 / str / list / pair again on rank >= 3
    for sh in shapes(5, 2, min_rank=5):
        per_shape(sh, out, rng)
    # larger extents (power-of-two and odd), mixed with unit axes: blocked / fast-path transposes
    for sh in ([8, 9], [17, 4], [16, 16], [1, 33], [33, 1], [4, 8, 5], [8, 1, 9], [2, 16, 3], [3, 4, 5, 2], [1, 8, 1, 9]):
        per_shape(sh, out, rng, all_perms=len(sh) <= 3)
    # total element counts beyond 256 / 1024 (tiled fast paths), non-square, partial last tiles
    for sh in BIG_SHAPES_2D + BIG_SHAPES_ND:
        a = arr(sh)
        n = len(sh)
        out.append(f"transpose@i32 {a} n")
        for p in itertools.permutations(range(n)) if n <= 3 else [list(range(n))[::-1], [1, 0] + list(range(2, n)), list(range(1, n)) + [0]]:
            out.append(f"transpose@i32 {a} {lst(p)}")
            out.append(f"transpose@i32 {a} {lst([x - n for x in p])}")
        for s_ in range(n):
            for d_ in range(n):
                out.append(f"swapaxes@i32 {a} {z(s_)} {z(d_ - n)}")
                out.append(f"moveaxis@i32 {a} {lst([s_])} {lst([d_])}")
                out.append(f"rollaxis@i32 {a} {z(s_)} {z(d_)}")
            out.append(f"rollaxis@i32 {a} {z(s_)} n")
    if tier == "thorough":
        for _ in range(150):
            sh = [rng.randint(1, 4) for _ in range(5)]
            per_shape(sh, out, rng, all_perms=False)
        for sh in shapes(3, 5, min_rank=2):
            if max(sh) > 3:
                per_shape(sh, out, rng)
    return out

"""C04 cases.  (a) placement: every two-operand operation on label arrays; the implementation's result is compared,
element by element, with the scalar table of the same operation on one-element arrays, looked up at the operand
pair that the Coq model (lift2 / zipop with pairing as scalar) places at that position — element types i32, i64,
f64/f32 over a pool containing +-0, +-inf, NaN, subnormal, huge values.  (b) values: the integer families
(add, subtract, multiply, divide, floor_divide, power, remainder, mod, fmod, and/or/xor, shifts, maximum, minimum,
fmax, fmin, gcd, lcm, heaviside, copysign) with exactly representable operands against the Coq Z instances.
(c) commutativity a.op(b) vs b.op(a) on equal shapes.  Shapes: all pairs of rank <= 2 with lengths <= 3
(exhaustive) plus random rank <= 4 pairs, half broadcast-compatible by construction; the division family also
with zero divisors (must be refused)."""
import itertools
from common import *
import vlib
from C03 import compatible_partner

EXHAUSTIVE = True
BOUNDS = "all ordered pairs of shapes rank<=2 len<=3 for every operation (placement); random rank<=4"

LIFT = ["add", "subtract", "multiply", "divide", "true_divide", "floor_divide", "power", "float_power", "remainder",
        "mod", "fmod", "logn", "log_add_exp", "log_add_exp2", "atan2", "hypot", "bitwise_and", "bitwise_or",
        "bitwise_xor", "left_shift", "right_shift"]
ZIP = ["maximum", "minimum", "fmax", "fmin", "gcd", "lcm", "heaviside", "copysign", "nextafter"]
GUARD = {"divide", "true_divide", "floor_divide", "remainder", "mod", "fmod"}
FLOAT_ONLY = {"copysign", "nextafter"}
NEED_OPS = {"atan2", "hypot"}            # NumericOps: not for unsigned
COMM = ["add", "multiply", "bitwise_and", "bitwise_or", "bitwise_xor", "maximum", "minimum", "fmax", "fmin", "gcd",
        "lcm", "hypot", "log_add_exp"]
ZMODEL = ["add", "subtract", "multiply", "divide", "true_divide", "floor_divide", "power", "remainder", "mod", "fmod",
          "bitwise_and", "bitwise_or", "bitwise_xor", "left_shift", "right_shift", "maximum", "minimum", "fmax",
          "fmin", "gcd", "lcm", "heaviside"]
NPOOL = 30


def labels(rng, sh, ty, op, second):
    n = prod(sh)
    if ty.endswith("p"):
        pool = list(range(NPOOL))
        if op in ("bitwise_and", "bitwise_or", "bitwise_xor", "left_shift", "right_shift"):
            # floats go through an integer cast: small magnitudes (negative and fractional ones included), shift counts 0..3
            # (labels 30..33: exact integers of magnitude >= 2^63 — seeded change C04k narrowed the f64 carrier to i64)
            pool = [0, 2, 4, 7] if (second and "shift" in op) else [0, 2, 3, 4, 5, 6, 7, 14, 15, 18, 19, 30, 31, 32, 33]
        return [rng.choice(pool) for _ in range(n)]
    # integer labels: small values, domain restrictions per operation
    if op in ("left_shift", "right_shift"):
        lo = 0 if ty.startswith("u") else -100
        return [rng.randint(0, 6) if second else rng.randint(lo, 100) for _ in range(n)]
    if op == "power":
        return [rng.randint(0, 4) if second else rng.randint(-5, 5) for _ in range(n)]
    if op in ("gcd", "lcm"):
        return [rng.randint(-30, 30) for _ in range(n)]
    lo = 0 if ty.startswith("u") else -9
    vals = [rng.randint(lo, 9) for _ in range(n)]
    if second and op in GUARD and rng.random() < 0.85:
        vals = [v if v != 0 else 3 for v in vals]
    return vals


def ew2_line(op, ty, s1, e1, s2, e2):
    pat = 0 if op in LIFT else 1
    zl = []
    if op in GUARD:
        zl = {"f64p": [0, 1], "f32p": [0, 1, 10]}.get(ty, [0])   # pool labels whose value is zero (5e-324 is 0 in f32)
    return f"ew2@{ty} s{hexs(op)} {arr(s1, e1)} {arr(s2, e2)} z{pat} {lst(zl)}"


def agree(case, impl, model):
    if case.startswith("ew2@"):
        op = bytes.fromhex(case.split(" ")[1][1:]).decode()
        return vlib.table_agree(impl, model, 2, zero_sign=op in ("add", "subtract", "multiply", "divide", "true_divide", "copysign"))
    return None


def types_for(op):
    if op in FLOAT_ONLY:
        return ["f64p", "f32p"]
    if op in ("bitwise_and", "bitwise_or", "bitwise_xor", "left_shift", "right_shift"):
        return ["i32", "i64", "u8", "f64p", "f32p"]
    if op in ("gcd", "lcm"):
        return ["i32", "i64", "u8"]
    if op in NEED_OPS:
        return ["i32", "f64p", "f32p"]
    return ["i32", "i64", "f64p", "f32p", "u8"]


def gen(seed, tier):
    rng = random.Random(seed)
    out = []
    sh2 = list(shapes(2, 3))
    pairs = list(itertools.product(sh2, repeat=2))
    for op in LIFT + ZIP:
        tys = types_for(op)
        for k, (s1, s2) in enumerate(pairs):
            ty = tys[k % len(tys)]
            e1, e2 = labels(rng, s1, ty, op, False), labels(rng, s2, ty, op, True)
            out.append(ew2_line(op, ty, s1, e1, s2, e2))
    nrand = 60 if tier == "quick" else 900
    for op in LIFT + ZIP:
        tys = types_for(op)
        for _ in range(nrand):
            s1 = rand_shape(rng, 4, (1, 1, 2, 3))
            s2 = compatible_partner(rng, s1) if rng.random() < 0.7 else rand_shape(rng, 4, (1, 2, 3))
            if rng.random() < 0.5:
                s1, s2 = s2, s1
            ty = rng.choice(tys)
            out.append(ew2_line(op, ty, s1, labels(rng, s1, ty, op, False), s2, labels(rng, s2, ty, op, True)))
    # long operands (blocked loops must not lose a tail), equal shapes and stretched against unit axes
    big = [([33], [33]), ([65], [1]), ([1], [40]), ([5, 7], [5, 7]), ([5, 7], [7]), ([9, 8], [9, 1]), ([2, 17], [1, 17]),
           ([3, 4, 3], [4, 1]), ([100], [100]), ([2, 3, 2, 3], [2, 3, 2, 3])]
    for op in LIFT + ZIP:
        tys = types_for(op)
        for k, (s1, s2) in enumerate(big):
            if tier == "quick" and (k + len(op)) % 3:
                continue
            ty = tys[k % len(tys)]
            out.append(ew2_line(op, ty, s1, labels(rng, s1, ty, op, False), s2, labels(rng, s2, ty, op, True)))
    # every pair of pool values for every operation: a column of all labels against a row of all labels (each scalar
    # result is judged against the independent reference; guarded operations keep zeros out of the divisor)
    for op in LIFT + ZIP:
        if op in ("bitwise_and", "bitwise_or", "bitwise_xor", "left_shift", "right_shift"):
            continue
        for ty in ("f64p", "f32p"):
            if ty not in types_for(op):
                continue
            zero_labels = {"f64p": [0, 1], "f32p": [0, 1, 10]}[ty]
            e2 = [l for l in range(NPOOL) if not (op in GUARD and l in zero_labels)]
            out.append(ew2_line(op, ty, [NPOOL, 1], list(range(NPOOL)), [len(e2)], e2))
    # every pair of a set of labels that holds the huge integers, for the float bitwise operations and shifts
    for op in ("bitwise_and", "bitwise_or", "bitwise_xor", "left_shift", "right_shift"):
        first = [0, 2, 3, 4, 7, 14, 15, 18, 30, 31, 32, 33]
        second = [0, 2, 4, 7] if "shift" in op else first
        out.append(ew2_line(op, "f64p", [len(first), 1], first, [len(second)], second))
    # values against the Z instances
    for op in ZMODEL:
        for k, (s1, s2) in enumerate(pairs):
            if k % 3 != 0 and tier == "quick":
                continue
            ty = "i64" if k % 2 else "i32"
            e1, e2 = labels(rng, s1, ty, op, False), labels(rng, s2, ty, op, True)
            if op in ("bitwise_and", "bitwise_or", "bitwise_xor"):
                e1 = [rng.randint(-200, 200) for _ in e1]
                e2 = [rng.randint(-200, 200) for _ in e2]
            out.append(f"{op}@{ty} {arr(s1, e1)} {arr(s2, e2)}")
        for _ in range(nrand // 2):
            s1 = rand_shape(rng, 4, (1, 1, 2, 3))
            s2 = compatible_partner(rng, s1) if rng.random() < 0.7 else rand_shape(rng, 3, (1, 2, 3))
            out.append(f"{op}@i32 {arr(s1, labels(rng, s1, 'i32', op, False))} {arr(s2, labels(rng, s2, 'i32', op, True))}")
        # lcm / gcd at zero, division by an array containing zero
        out.append(f"{op}@i32 a2:0,0 a2:0,5")
        out.append(f"{op}@i32 a2x2:1,2,3,4 a2:1,0")
    # unsigned element types against the exact values (seeded change C04i: subtract as add(negative()) saturates -b to 0
    # for unsigned types; the scalar table is the library's own and cannot show it): operands chosen so that every
    # result stays inside u8
    for op in ZMODEL:
        for k, (s1, s2) in enumerate(pairs):
            if k % 4 != 0 and tier == "quick":
                continue
            e1 = [rng.randint(5, 15) for _ in range(prod(s1))]
            hi = 2 if op == "power" else (3 if "shift" in op else 5)
            e2 = [rng.randint(0 if op not in GUARD else 1, hi) for _ in range(prod(s2))]
            out.append(f"{op}@u8 {arr(s1, e1)} {arr(s2, e2)}")
    # narrow and unsigned element types with results OUTSIDE the type's range: the arithmetic family is evaluated in
    # double precision and converted back — the conversion saturates (seeded change C04m: it wrapped around through i64);
    # judged by the harness's own conversion, not the library's
    EDGE = {"u8": [0, 3, 100, 200, 255], "i8": [-128, -100, -1, 0, 100, 127], "i16": [-32768, -300, 0, 300, 32767],
            "i32": [-2 ** 31, -65536, 0, 65536, 2 ** 31 - 1]}
    for ty, vals in EDGE.items():
        for op in ("add", "subtract", "multiply", "power", "float_power"):
            second = vals if op not in ("power", "float_power") else [0, 1, 2, 3, 9]
            out.append(ew2_line(op, ty, [len(vals), 1], vals, [len(second)], second))
    # commutativity on equal shapes: both orders as separate cases (each compared with the model), floats by table
    for op in COMM:
        for sh in list(shapes(3, 3))[:: 2 if tier == "quick" else 1]:
            ty = rng.choice(types_for(op))
            e1, e2 = labels(rng, sh, ty, op, False), labels(rng, sh, ty, op, True)
            out.append(ew2_line(op, ty, sh, e1, sh, e2))
            out.append(ew2_line(op, ty, sh, e2, sh, e1))
    return out


def extra_checks(cases, impl, model):
    """commutativity: consecutive swapped cases of a commutative operation must give identical result arrays"""
    diffs = []
    idx = {}
    for i, c in enumerate(cases):
        if not c.startswith("ew2@"):
            continue
        t = c.split(" ")
        name = bytes.fromhex(t[1][1:]).decode()
        if name in COMM and i + 1 < len(cases):
            u = cases[i + 1].split(" ")
            if len(u) > 3 and u[0] == t[0] and u[1] == t[1] and u[2][0] == "a" and t[2].split(":")[0] == t[3].split(":")[0] \
               and u[2] == t[3] and u[3] == t[2]:
                # signed zeros: min/max of +0 and -0 is either zero in IEEE 754, so the two orders may differ in the sign bit
                nz = lambda r: r.replace("f8000000000000000", "0").replace("f80000000", "0")
                ra, rb = nz(impl[i].split("|")[0]), nz(impl[i + 1].split("|")[0])
                if ra != rb:
                    diffs.append((i, c, "commutativity: " + ra + " vs " + rb, model[i]))
        if name == "log_add_exp2" and "|tbl(" in impl[i] and t[0] in ("ew2@f64p", "ew2@f32p"):
            # documented as log2(2**x1 + 2**x2) (known finding F28: the code computes log2(x1*x1 + x2*x2))
            import math, floatsem
            single = t[0].endswith("f32p")
            tbl = impl[i].partition("|tbl(")[2].partition(")|")[0]
            for kv in tbl.split(";"):
                k, _, v = kv.partition("=")
                if v in ("E", "?", ""):
                    continue
                x, y = (floatsem.value(q, single) for q in k.split("/"))
                if math.isnan(x) or math.isnan(y) or math.isinf(x) or math.isinf(y) or max(abs(x), abs(y)) > 500:
                    continue
                want = max(x, y) + math.log2(2 ** (x - max(x, y)) + 2 ** (y - max(x, y)))
                got = vlib._tokval(v)
                if got is None or got != got or abs(got - want) > (1e-4 if single else 1e-9) * max(1.0, abs(want)):
                    diffs.append((i, c, f"KNOWNCLASS log_add_exp2 is not log2(2**x1 + 2**x2): at ({x!r}, {y!r}) it returns {got!r}, "
                                        f"documented value {want!r}", model[i]))
                    break
    return diffs

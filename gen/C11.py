"""C11 cases.  append / concatenate along every axis (and flat) for lists of 1..3 arrays of rank 1..3 whose joined
axis lengths range over 1..3 and whose other axes are shared (plus mismatching ones, which must be refused); stack
at every position 0..ndim (+ out of range); vstack / row_stack / hstack / dstack / column_stack on rank 1..3 inputs
(equal and different lengths on the joined axis, mixed ranks); array_split / split / split_axis / hsplit / vsplit /
dsplit of every array of rank 1..4 with lengths 1..4 along every axis with every part count 0..len+2;
round trips executed on the implementation: split then concatenate along the same axis gives the original
array back; rank-4 lists random."""
import itertools
from common import *
import vlib

EXHAUSTIVE = True
BOUNDS = "lists of 1..3 arrays rank 1..3 (joined lengths 1..3) x every axis; all arrays rank<=4 len<=3 (len<=4 for rank<=2) x every axis x parts 0..len+2"
_fail = []


def L(arrs):
    return f"L{len(arrs)} " + " ".join(arrs)


def gen_rounds(seed, tier, run):
    rng = random.Random(seed)
    del _fail[:]
    out = []
    base_shapes = list(shapes(3, 2)) + [[3], [1, 3], [3, 1], [2, 3], [3, 2, 1]]
    for sh in base_shapes:
        n = len(sh)
        for ax in range(n):
            for lens in itertools.product((1, 2, 3), repeat=2):
                arrs = []
                for k, ln in enumerate(lens):
                    s = list(sh); s[ax] = ln
                    arrs.append(arr(s, base=100 * k))
                out.append(f"append {arrs[0]} {arrs[1]} {z(ax)}")
                out.append(f"concatenate {L(arrs)} {z(ax)}")
                third = list(sh); third[ax] = 1
                out.append(f"concatenate {L(arrs + [arr(third, base=900)])} {z(ax)}")
            # mismatching other axis / rank
            if n >= 2:
                s2 = list(sh); s2[(ax + 1) % n] += 1
                out.append(f"append {arr(sh)} {arr(s2, base=50)} {z(ax)}")
                out.append(f"concatenate {L([arr(sh), arr(s2, base=50)])} {z(ax)}")
            out.append(f"append {arr(sh)} {arr(sh + [1], base=50)} {z(ax)}")
        out.append(f"append {arr(sh)} {arr([2], base=70)} n")
        out.append(f"append {arr(sh)} {arr(sh, base=70)} {z(n)}")
        out.append(f"concatenate {L([arr(sh), arr(sh, base=70)])} n")
        out.append(f"concatenate {L([arr(sh)])} z0")
        out.append(f"concatenate {L([arr(sh), arr(sh, base=70)])} {z(n)}")
        for ax in list(range(n + 2)) + [None]:
            out.append(f"stack {L([arr(sh), arr(sh, base=50), arr(sh, base=90)])} {opt(ax)}")
            out.append(f"stack@str {L([arr(sh), arr(sh, base=50)])} {opt(ax)}")
        out.append(f"stack {L([arr(sh), arr(sh + [1], base=50)])} z0")
    # every ordered pair of equal-rank shapes (most of them must be refused: equal element counts on the other axes
    # are not enough), along every axis
    for rank, lens in ((2, (1, 2, 3)), (3, (1, 2, 3))):
        shs = [list(t) for t in itertools.product(lens, repeat=rank)]
        for s1 in shs:
            for s2 in shs:
                for ax in range(rank):
                    if rank == 3 and tier == "quick" and s1[:ax] + s1[ax + 1:] == s2[:ax] + s2[ax + 1:]:
                        continue            # joinable pairs of rank 3 are covered above
                    out.append(f"append {arr(s1)} {arr(s2, base=50)} {z(ax)}")
                    if (len(out) // 2) % 3 == 0 or tier == "thorough":
                        out.append(f"concatenate {L([arr(s1), arr(s2, base=50)])} {z(ax)}")
    for _ in range(400 if tier == "quick" else 3000):
        s1 = [rng.choice((1, 2, 3, 4)) for _ in range(4)]
        ax = rng.randrange(4)
        rest = s1[:ax] + s1[ax + 1:]
        rng.shuffle(rest)
        s2 = rest[:ax] + [rng.choice((1, 2, 3))] + rest[ax:]
        out.append(f"append {arr(s1)} {arr(s2, base=50)} {z(ax)}")
        out.append(f"concatenate {L([arr(s1), arr(s2, base=50), arr(s1, base=300)])} {z(ax)}")
    # mixed ranks with every axis up to beyond the larger rank
    small = [list(t) for r in (1, 2, 3) for t in itertools.product((1, 2), repeat=r)] + [[3], [2, 3], [3, 2]]
    for s1 in small:
        for s2 in small:
            if len(s1) == len(s2):
                continue
            for ax in range(max(len(s1), len(s2)) + 2):
                out.append(f"concatenate {L([arr(s1), arr(s2, base=50)])} {z(ax)}")
                out.append(f"append {arr(s1)} {arr(s2, base=50)} {z(ax)}")
            out.append(f"concatenate {L([arr(s1), arr(s2, base=50)])} n")
    out.append("concatenate L0 n")
    out.append("stack L0 n")
    out.append("vstack L0")
    out.append("hstack L0")
    out.append("dstack L0")
    out.append("column_stack L0")
    # the conveniences
    conv_shapes = [[2], [3], [1], [2, 2], [2, 1], [2, 3], [1, 2], [3, 2], [2, 2, 2], [2, 2, 1], [2, 1, 2], [1, 2, 2], [2, 3, 2]]
    for s1, s2 in itertools.product(conv_shapes, repeat=2):
        for op in ("vstack", "row_stack", "hstack", "dstack", "column_stack"):
            out.append(f"{op} {L([arr(s1), arr(s2, base=50)])}")
    for s1 in conv_shapes:
        for op in ("vstack", "hstack", "dstack", "column_stack"):
            out.append(f"{op} {L([arr(s1), arr(s1, base=50), arr(s1, base=90)])}")
            out.append(f"{op} {L([arr(s1)])}")
    # ranks beyond the promoted rank (seeded change C11h: dstack joined along the LAST axis, visible from rank 4 on)
    high = [[2, 2, 2, 2], [2, 1, 1, 3], [2, 1, 2, 3], [2, 2, 2, 3], [2, 2, 3, 2], [1, 2, 3, 2], [3, 2, 2, 2], [2, 3, 2, 2], [2, 2, 2, 2, 2], [2, 2, 1, 2, 3],
            [2, 2, 2], [2, 3, 2]]
    for s1, s2 in itertools.product(high, repeat=2):
        if len(s1) < 4 and len(s2) < 4:
            continue
        for op in ("vstack", "hstack", "dstack", "column_stack"):
            out.append(f"{op} {L([arr(s1), arr(s2, base=50)])}")
        if s1 == s2:
            for ax in range(len(s1) + 2):
                out.append(f"stack {L([arr(s1), arr(s2, base=50), arr(s1, base=200)])} {z(ax)}")
    # splitting
    split_idx = []
    shs = list(shapes(4, 3)) + [s for s in shapes(2, 4) if max(s) == 4] + [[5, 2], [6], [2, 6], [4, 3, 2]]
    for sh in shs:
        n = len(sh)
        a = arr(sh)
        for ax in list(range(n + 1)) + [None]:
            ln = sh[ax] if (ax is not None and ax < n) else sh[0]
            for parts in range(0, ln + 3):
                split_idx.append((len(out), sh, ax))
                out.append(f"array_split {a} {z(parts)} {opt(ax)}")
                out.append(f"split {a} {z(parts)} {opt(ax)}")
            out.append(f"split_axis {a} {z(ax if ax is not None else 0)}")
        for parts in range(0, 5):
            out.append(f"hsplit {a} {z(parts)}")
            out.append(f"vsplit {a} {z(parts)}")
            out.append(f"dsplit {a} {z(parts)}")
    # long axes: splits into many parts and joins of long blocks
    for sh in ([17], [33], [64], [100], [2, 17], [17, 3], [2, 9, 2], [33, 2]):
        for ax in range(len(sh)):
            ln = sh[ax]
            for parts in sorted({1, 2, 3, 5, 7, 8, ln - 1, ln, ln + 1, ln // 2}):
                if parts < 1:
                    continue
                split_idx.append((len(out), sh, ax))
                out.append(f"array_split {arr(sh)} {z(parts)} {z(ax)}")
                out.append(f"split {arr(sh)} {z(parts)} {z(ax)}")
            other = list(sh); other[ax] = rng.choice([1, 9, 31])
            out.append(f"concatenate {L([arr(sh), arr(other, base=1000), arr(sh, base=3000)])} {z(ax)}")
            out.append(f"append {arr(sh)} {arr(other, base=1000)} {z(ax)}")
        out.append(f"append {arr(sh)} {arr([41], base=1000)} n")
        out.append(f"stack {L([arr(sh), arr(sh, base=1000)])} z{len(sh)}")
        out.append(f"vstack {L([arr(sh), arr(sh, base=1000)])}")
        out.append(f"dstack {L([arr(sh), arr(sh, base=1000)])}")
        out.append(f"column_stack {L([arr(sh), arr(sh, base=1000)])}")
    n_rand = 200 if tier == "quick" else 4000
    for _ in range(n_rand):
        sh = rand_shape(rng, 4, (1, 2, 3, 4))
        ax = rng.randrange(len(sh))
        k = rng.randint(1, 3)
        arrs = []
        for j in range(k):
            s = list(sh); s[ax] = rng.randint(1, 3)
            arrs.append(arr(s, base=100 * j))
        out.append(f"concatenate {L(arrs)} {z(ax)}")
        split_idx.append((len(out), sh, ax))
        out.append(f"array_split {arr(sh)} {z(rng.randint(1, sh[ax] + 1))} {z(ax)}")
    out = retype(out, rng, set(['append', 'concatenate', 'stack', 'vstack', 'row_stack', 'hstack', 'dstack', 'column_stack', 'array_split', 'split', 'split_axis', 'hsplit', 'vsplit', 'dsplit']))          # other element types for the generic operations
    impl, model = run(out)
    # round trip on the implementation: concatenating the parts along the same axis restores the array
    rt = []
    for i, sh, ax in split_idx:
        r = impl[i]
        if not r.startswith("list(") or ax is None or ax >= len(sh):
            continue
        parts = r[5:-1].split(";")
        toks = ["a" + p[4:-1] for p in parts if p.startswith("arr(")]
        if len(toks) != len(parts) or not toks:
            continue
        rt.append((out[i], f"concatenate {L(toks)} {z(ax)}", "arr(" + out[i].split(" ")[1][1:] + ")"))
    if rt:
        im2, mo2 = run([q for _, q, _ in rt])
        for (c, q, want), r in zip(rt, im2):
            if r != want:
                _fail.append((c, f"split then concatenate: {q[:120]} -> {r[:120]}, expected {want[:120]}"))


def extra_checks(cases, impl, model):
    return [(cases.index(c), c, "law: " + why, "-") for c, why in _fail]

"""Random calls of the modelled array->array operations, given the receiver's shape (used for histories)."""
import random
from common import *


def rand_axis(rng, n, p_bad=0.1):
    if rng.random() < p_bad:
        return rng.choice([n, n + 1, -n - 1, -n - 2])
    ax = rng.randrange(max(n, 1))
    return ax - n if rng.random() < 0.4 else ax


def refactor(rng, cnt):
    """a random shape with the given element count"""
    if cnt == 0:
        return rng.choice([[0], [0, 2], [3, 0]])
    sh, rem = [], cnt
    while rem > 1 and len(sh) < 3:
        ds = [d for d in range(1, rem + 1) if rem % d == 0]
        d = rng.choice(ds)
        sh.append(d)
        rem //= d
    sh.append(rem)
    while rng.random() < 0.3 and len(sh) < 5:
        sh.insert(rng.randrange(len(sh) + 1), 1)
    return sh


def call_axis_family(rng, sh):
    n = len(sh)
    cnt = prod(sh)
    k = rng.randrange(12)
    if k == 0:
        return f"reshape {{a}} {lst(refactor(rng, cnt) if rng.random() < 0.9 else [cnt + 1])}"
    if k == 1:
        return "ravel {a}"
    if k == 2:
        return f"atleast {{a}} {z(rng.randrange(5))}"
    if k == 3:
        m = rng.randint(1, 2)
        return f"expand_dims {{a}} {lst([rng.randint(-n - m, n + m - 1) if rng.random() < 0.9 else n + 3 for _ in range(m)])}"
    if k == 4:
        if rng.random() < 0.4:
            return "squeeze {a} n"
        ones = [i for i, d in enumerate(sh) if d == 1]
        if ones and rng.random() < 0.8:
            ax = rng.choice(ones)
            return f"squeeze {{a}} {lst([ax - n if rng.random() < 0.5 else ax])}"
        return f"squeeze {{a}} {lst([rand_axis(rng, n)])}"
    if k == 5:
        return f"resize {{a}} {lst(rand_shape(rng, 3, (1, 2, 3)))}"
    if k == 6:
        return f"cycle_take {{a}} {z(rng.randrange(0, 9))}"
    if k == 7:
        if rng.random() < 0.3 or n == 0:
            return "transpose {a} n"
        p = list(range(n))
        rng.shuffle(p)
        return f"transpose {{a}} {lst([x - n if rng.random() < 0.3 else x for x in p])}"
    if k == 8:
        return f"moveaxis {{a}} {lst([rand_axis(rng, n)])} {lst([rand_axis(rng, n)])}"
    if k == 9:
        return f"rollaxis {{a}} {z(rand_axis(rng, n))} {opt(None if rng.random() < 0.3 else rand_axis(rng, n))}"
    if k == 10:
        return f"swapaxes {{a}} {z(rand_axis(rng, n))} {z(rand_axis(rng, n))}"
    return f"reshape {{a}} {lst(refactor(rng, cnt))}"


def call_data_family(rng, sh, maxabs=0):
    """element-moving / element-combining operations on integer arrays (C08, C10-C13, C16 families)"""
    n = len(sh)
    cnt = prod(sh)
    axo = lambda: "n" if rng.random() < 0.3 else z(rand_axis(rng, n, 0.05))           # isize axis
    axu = lambda: "n" if rng.random() < 0.3 else z(rng.randrange(n + 1) if rng.random() < 0.07 else rng.randrange(max(n, 1)))  # usize axis
    k = rng.randrange(16)
    if k == 0:
        return f"flip {{a}} {'n' if rng.random() < 0.3 else lst([rand_axis(rng, n, 0.05) for _ in range(rng.randint(1, 2))])}"
    if k == 1:
        m = rng.randint(1, 2)
        return (f"roll {{a}} {lst([rng.randint(-7, 7) for _ in range(m)])} "
                f"{'n' if rng.random() < 0.3 else lst([rand_axis(rng, n, 0.05) for _ in range(m)])}")
    if k == 2 and n >= 2:
        a0, a1 = rng.sample(range(n), 2)
        return f"rot90 {{a}} {z(rng.randint(0, 7))} {lst([a0, a1 - n if rng.random() < 0.3 else a1])}"
    if k == 3:
        return f"sort {{a}} {axo()} {z(rng.randrange(4))}"
    if k == 4:
        return "unique {a} n"
    if k == 5 and cnt * max(maxabs, 1) < 2 ** 30:
        return f"cumsum {{a}} {axo()}"
    if k == 6 and cnt * max(maxabs, 1) < 2 ** 30:
        return f"sum {{a}} {axo()}"
    if k == 7:
        return f"max {{a}} {axo()}"
    if k == 8 and cnt <= 60:
        if rng.random() < 0.4:
            return f"repeat {{a}} {lst([rng.randint(0, 3)])} {axu()}"
        ax = rng.randrange(max(n, 1))
        return f"repeat {{a}} {lst([rng.randint(0, 2) for _ in range(sh[ax] if n else 1)])} {z(ax)}"
    if k == 9:
        ax = rng.randrange(max(n, 1))
        m = sh[ax] if n else 1
        return f"delete {{a}} {lst([rng.randrange(m + 1) for _ in range(rng.randint(0, 3))] if m else [])} {z(ax)}"
    if k == 10 and cnt <= 200:
        return f"concatenate L2 {{a}} {{a}} {axu()}"
    if k == 11 and cnt <= 200 and n <= 3:
        return f"stack L2 {{a}} {{a}} {axu()}"
    if k == 12 and cnt <= 100:
        pre = [rng.choice([1, 2, 3]) for _ in range(rng.randint(0, 4 - min(n, 4)))]
        tgt = pre + [d if (d != 1 or rng.random() < 0.5) else rng.choice([2, 3]) for d in sh]
        if tgt and rng.random() < 0.1:
            tgt[-1] = tgt[-1] + 1
        return f"broadcast_to {{a}} {lst(tgt)}"
    if k == 13:
        return f"{rng.choice(['tril', 'triu'])} {{a}} {'n' if rng.random() < 0.3 else z(rng.randint(-3, 3))}"
    if k == 14 and cnt <= 20:
        return f"{rng.choice(['diag', 'diagflat'])} {{a}} {z(rng.randint(-2, 2))}"
    if k == 15:
        return f"count_nonzero {{a}} {axo()} {z(rng.randrange(3))}"
    return f"flip {{a}} n"


FAMILIES = [call_axis_family]


def rand_call(rng, sh, ty="str", maxabs=0):
    if ty in ("i32", "i64") and rng.random() < 0.5:
        return call_data_family(rng, sh, maxabs)
    return call_axis_family(rng, sh)


def parse_arr_result(res):
    """`arr(2x3:0,1,..)` -> (shape list, token) or None"""
    if not res.startswith("arr("):
        return None
    body = res[4:-1]
    d, _, e = body.partition(":")
    sh = [int(x) for x in d.split("x")] if d else []
    return sh, "a" + body

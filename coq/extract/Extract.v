(* Extraction of the executable model: ExtrOcamlBasic only — no Extract Constant / Extract
   Inductive of our own; nat, positive, Z, N, Q, ascii, string stay the extracted Coq datatypes. *)
Require Extraction.
Require ExtrOcamlBasic.
From Coq Require Import ZArith.
From ArrRs Require Import Dispatch.
Extraction "model.ml" dispatch Z.add Z.mul Z.opp Z.div_eucl Z.of_nat Z.to_nat Z.compare.

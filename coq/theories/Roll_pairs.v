(* roll with several (shift, axis) pairs (C12): the shifts are accumulated per axis — ascending axes, each with the
   sum of the shifts requested for it — and the result holds at c the element found by moving every listed axis entry
   back by its accumulated shift. *)
From Coq Require Import Sorted.
From ArrRs Require Import Index Index_proofs Lists_proofs Axis Axis_proofs Reshape_proofs Broadcast_proofs Reorder Reorder_axis.

Section RollPairs.
Context {T : Type} (dflt : T).

(* ---------- the accumulated shifts ---------- *)
Definition axis_of (n : nat) (q : Z * Z) : nat := Z.to_nat (normalize_axis n (snd q)).
Definition total_shift (n : nat) (pairs : list (Z * Z)) (ax : nat) : Z :=
  fold_left (fun s q => if axis_of n q =? ax then (s + fst q)%Z else s) pairs 0%Z.
Definition occurs (n : nat) (pairs : list (Z * Z)) (ax : nat) : bool := existsb (fun q => axis_of n q =? ax) pairs.
Definition max_axis (n : nat) (pairs : list (Z * Z)) : nat := fold_left (fun m q => Nat.max m (axis_of n q)) pairs 0.

Lemma filter_map_comm {A B} (f : A -> B) (p : B -> bool) (l : list A) :
  filter p (map f l) = map f (filter (fun x => p (f x)) l).
Proof. induction l as [|x t IH]; [reflexivity|]. cbn [map filter]. destruct (p (f x)); cbn [map]; now rewrite IH. Qed.

(* ascending over the axes that occur, each with the sum of its shifts *)
Theorem accumulate_spec n pairs :
  accumulate_shifts n pairs =
  map (fun ax => (ax, total_shift n pairs ax)) (filter (occurs n pairs) (seq 0 (S (max_axis n pairs)))).
Proof. unfold accumulate_shifts. rewrite filter_map_comm. reflexivity. Qed.

Lemma accumulate_in n pairs ax s : In (ax, s) (accumulate_shifts n pairs) ->
  s = total_shift n pairs ax /\ exists q, In q pairs /\ axis_of n q = ax.
Proof.
  rewrite accumulate_spec. intros H. apply in_map_iff in H as (ax' & E & H). injection E as <- <-.
  apply filter_In in H as (_ & H). split; [reflexivity|]. unfold occurs in H. apply existsb_exists in H as (q & Hq & E).
  exists q. split; [exact Hq | now apply Nat.eqb_eq].
Qed.

Lemma accumulate_axes_ascending n pairs : StronglySorted lt (map fst (accumulate_shifts n pairs)).
Proof.
  rewrite accumulate_spec, map_map. cbn [fst]. rewrite map_id.
  assert (forall k m, StronglySorted lt (filter (occurs n pairs) (seq k m))) as G.
  { intros k m; revert k; induction m as [|m IH]; intros k; cbn [seq filter]; [constructor|].
    destruct (occurs n pairs k); [|apply IH]. constructor; [apply IH|]. apply Forall_forall. intros x Hx.
    apply filter_In in Hx as (Hx & _). apply in_seq in Hx. lia. }
  apply G.
Qed.

(* ---------- the source coordinate ---------- *)
Fixpoint roll_src (sh : list nat) (L : list (nat * Z)) (c : list nat) : list nat :=
  match L with
  | [] => c
  | (ax, s) :: t => let c' := roll_src sh t c in upd c' ax (rot_src s (nth ax sh 0) (nth ax c' 0))
  end.

Lemma in_range_upd sh c ax v : in_range sh c -> ax < length sh -> v < nth ax sh 0 -> in_range sh (upd c ax v).
Proof.
  intros H Hax Hv. apply in_range_nth in H as (L & H). apply in_range_nth. split; [now rewrite upd_length|].
  intros k Hk. rewrite nth_upd, L. destruct (Nat.eqb_spec ax k) as [->|N]; cbn [andb]; [|now apply H].
  destruct (Nat.ltb_spec k (length sh)); [exact Hv | lia].
Qed.

Lemma roll_src_in_range sh L c : pos_shape sh -> Forall (fun p => fst p < length sh) L -> in_range sh c ->
  in_range sh (roll_src sh L c).
Proof.
  intros P F Hc. induction L as [|[ax s] t IH]; [exact Hc|]. apply Forall_cons_iff in F as (Hax & Ft). cbn [fst] in Hax.
  cbn [roll_src]. specialize (IH Ft). apply in_range_upd; [exact IH | exact Hax|].
  apply rot_src_lt. apply in_range_nth in IH as (_ & IH). now apply IH.
Qed.

Lemma roll_fold_spec sh : pos_shape sh -> forall L es, Forall (fun p => fst p < length sh) L -> length es = prod sh ->
  exists es', fold_left (fun (r : res (list T)) (p : nat * Z) => let* es := r in roll_axis dflt es sh (fst p) (snd p)) L (Ok es) = Ok es' /\
    length es' = prod sh /\
    forall c, in_range sh c -> nth (flat sh c) es' dflt = nth (flat sh (roll_src sh L c)) es dflt.
Proof.
  intros P. induction L as [|[ax s] t IH]; intros es F Len.
  - exists es. split; [reflexivity|]. split; [exact Len|]. reflexivity.
  - apply Forall_cons_iff in F as (Hax & Ft). cbn [fst] in Hax. cbn [fold_left bind fst snd].
    rewrite roll_axis_spec by assumption.
    destruct (IH (axis_perm dflt (rot_src s) es sh ax) Ft (axis_perm_length dflt _ _ _ _)) as (es' & E & Le & G).
    exists es'. split; [exact E|]. split; [exact Le|]. intros c Hc. rewrite (G c Hc). cbn [roll_src].
    apply axis_apply_get; auto. now apply roll_src_in_range.
Qed.

(* ROLL with several pairs *)
Theorem roll_pairs (a : arr T) shifts axes P :
  wf a -> pos_shape (shape a) -> (Z.of_nat (ndim a) < two64)%Z -> 2 <= ndim a ->
  Forall (axis_ok (ndim a)) axes ->
  broadcast 0%Z 0%Z (mk shifts [length shifts]) (mk axes [length axes]) = Ok P -> ndim P <= 1 ->
  Forall (fun q => axis_ok (ndim a) (snd q)) (elems P) ->
  exists R, roll dflt a shifts (Some axes) = Ok R /\ wf R /\ shape R = shape a /\
    forall c, in_range (shape a) c ->
      get dflt R c = get dflt a (roll_src (shape a) (accumulate_shifts (ndim a) (elems P)) c).
Proof.
  intros W Pos B N2 Fax EP NP FP. unfold roll. cbn [bind].
  assert (forallb (fun ax => (normalize_axis (ndim a) ax <? Z.of_nat (ndim a))%Z) axes = true) as G.
  { apply forallb_forall. intros x Hx. rewrite Forall_forall in Fax. destruct (normalize_axis_ok _ _ B (Fax x Hx)) as [E L].
    rewrite E. apply Z.ltb_lt. lia. }
  rewrite G. cbn [guard bind]. rewrite !flat_arr_ok. cbn [bind]. rewrite EP. cbn [bind].
  destruct (Nat.ltb_spec 1 (ndim P)); [lia|].
  assert (Forall (fun p => fst p < length (shape a)) (accumulate_shifts (ndim a) (elems P))) as FL.
  { apply Forall_forall. intros [ax s] Hin. cbn [fst]. apply accumulate_in in Hin as (_ & q & Hq & <-).
    rewrite Forall_forall in FP. destruct (normalize_axis_ok _ _ B (FP q Hq)) as [E L]. unfold axis_of. rewrite E, Nat2Z.id.
    exact L. }
  destruct (roll_fold_spec (shape a) Pos _ (elems a) FL W) as (es' & E & Le & Gt).
  destruct (ndim a) as [|[|n]] eqn:Nd; try lia. rewrite <- Nd in *. rewrite E. cbn [bind].
  eexists. split; [apply new_iff; split; [exact Le | reflexivity]|]. split; [exact Le|]. split; [reflexivity|].
  intros c Hc. unfold get. cbn [elems shape]. now apply Gt.
Qed.

End RollPairs.

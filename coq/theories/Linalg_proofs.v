From ArrRs Require Import Index Index_proofs Lists_proofs Axis Reshape_proofs Linalg.

Lemma nth_flat_map_grid {A} (F : nat -> nat -> A) n p i j d : i < n -> j < p ->
  nth (i * p + j) (flat_map (fun i => map (F i) (seq 0 p)) (seq 0 n)) d = F i j.
Proof.
  intros Hi Hj.
  assert (forall a, nth (i * p + j) (flat_map (fun i => map (F i) (seq 0 p)) (seq a n)) d = F (a + i) j) as G.
  { revert i Hi. induction n as [|n IH]; intros i Hi a; [lia|]. cbn [seq flat_map].
    destruct i as [|i].
    - cbn [Nat.mul Nat.add]. rewrite app_nth1 by now rewrite map_length, seq_length.
      rewrite (nth_map_lt _ _ _ 0) by now rewrite seq_length. rewrite seq_nth by auto. now rewrite Nat.add_0_r.
    - rewrite app_nth2 by (rewrite map_length, seq_length; lia). rewrite map_length, seq_length.
      replace (S i * p + j - p) with (i * p + j) by lia. rewrite IH by lia. f_equal. lia. }
  apply (G 0).
Qed.

Lemma length_flat_map_grid {A} (F : nat -> nat -> A) n p :
  length (flat_map (fun i => map (F i) (seq 0 p)) (seq 0 n)) = n * p.
Proof.
  assert (forall a, length (flat_map (fun i => map (F i) (seq 0 p)) (seq a n)) = n * p) as G.
  { induction n as [|n IH]; intros a; cbn [seq flat_map]; [reflexivity|].
    rewrite app_length, map_length, seq_length, IH. lia. }
  apply (G 0).
Qed.

Section ProductProofs.
Context {T : Type} (zero : T) (add mul : T -> T -> T).

(* the entry sum: terms a[i,t] * b[t,j] for t = 0..k-1, accumulated in index order *)
Definition entry_sum (a b : arr T) (k i j : nat) : T :=
  fold_left (fun acc t => add (mul (get zero a [i; t]) (get zero b [t; j])) acc) (seq 0 k) zero.

Lemma get2 (a : arr T) r c i j : shape a = [r; c] -> get zero a [i; j] = nth (i * c + j) (elems a) zero.
Proof. intros S. unfold get. rewrite S. cbn [flat prod]. f_equal. lia. Qed.

Lemma fold_ext_in {A B} (f g : A -> B -> A) l a : (forall x y, In y l -> f x y = g x y) -> fold_left f l a = fold_left g l a.
Proof.
  revert a; induction l as [|y t IH]; intros a H; cbn; auto. rewrite H by now left. apply IH. intros; apply H; now right.
Qed.

(* the matrix product of conforming matrices: shape [n; p], each entry the defining sum *)
Theorem matmul22_spec (strict : bool) (a b : arr T) n k p :
  shape a = [n; k] -> shape b = [k; p] -> (strict = true -> n = p) ->
  exists r, matmul22 zero add mul strict a b = Ok r /\ shape r = [n; p] /\ wf r /\
    forall i j, i < n -> j < p -> get zero r [i; j] = entry_sum a b k i j.
Proof.
  intros Sa Sb Hs. unfold matmul22, shapes_align. rewrite Sa, Sb. cbn [nth_error].
  assert ((if strict then guard (n =? p) EParam else Ok tt) = Ok tt) as ->.
  { destruct strict; [rewrite Hs by auto; now rewrite Nat.eqb_refl | reflexivity]. }
  cbn [bind]. rewrite Nat.eqb_refl. cbn [guard bind]. unfold matmul_iterate. rewrite Sa, Sb.
  rewrite flat_arr_ok. cbn [bind]. rewrite reshape_iff by (unfold len; cbn [elems]; rewrite length_flat_map_grid; cbn; lia).
  eexists. split; [reflexivity|]. cbn [shape elems]. split; [reflexivity|].
  split; [unfold wf; cbn [elems shape prod]; rewrite length_flat_map_grid; lia|].
  intros i j Hi Hj. unfold get at 1. cbn [shape elems flat prod].
  replace (i * (p * 1) + (j * 1 + 0)) with (i * p + j) by lia.
  rewrite (nth_flat_map_grid (fun i j => fold_left _ (seq 0 k) zero)) by auto.
  unfold entry_sum. apply fold_ext_in. intros acc t _. now rewrite (get2 a n k), (get2 b k p).
Qed.

(* operands whose contracted lengths differ are refused *)
Theorem matmul22_refuse (strict : bool) (a b : arr T) n k k' p :
  shape a = [n; k] -> shape b = [k'; p] -> k <> k' -> matmul22 zero add mul strict a b = Err EParam.
Proof.
  intros Sa Sb N. unfold matmul22, shapes_align. rewrite Sa, Sb. cbn [nth_error].
  destruct strict; [destruct (n =? p); cbn [guard bind]; [|reflexivity]|cbn [bind]];
    destruct (Nat.eqb_spec k k'); try contradiction; reflexivity.
Qed.

(* whenever the repository's matmul returns an array it is the specified product … *)
Theorem matmul22_pinned_sound (a b : arr T) r :
  matmul22 zero add mul true a b = Ok r -> matmul22 zero add mul false a b = Ok r.
Proof. unfold matmul22. intros H. apply bind_ok in H as ([] & _ & H). exact H. Qed.

Theorem vdot_spec (a b : arr T) : len a = len b -> vdot zero add mul a b = Ok (mk [dot_list zero add mul (elems a) (elems b)] [1]).
Proof. intros H. unfold vdot. rewrite H, Nat.eqb_refl. reflexivity. Qed.

Theorem vdot_refuse (a b : arr T) : len a <> len b -> vdot zero add mul a b = Err EEqual.
Proof. intros H. unfold vdot. destruct (Nat.eqb_spec (len a) (len b)); [contradiction | reflexivity]. Qed.

Theorem outer_spec (a b : arr T) :
  exists r, outer mul a b = Ok r /\ shape r = [len a; len b] /\
    forall i j, i < len a -> j < len b -> get zero r [i; j] = mul (nth i (elems a) zero) (nth j (elems b) zero).
Proof.
  unfold outer. rewrite flat_arr_ok. cbn [bind].
  assert (flat_map (fun x => map (fun y => mul x y) (elems b)) (elems a) =
          flat_map (fun i => map (fun j => mul (nth i (elems a) zero) (nth j (elems b) zero)) (seq 0 (len b))) (seq 0 (len a))) as E.
  { unfold len. rewrite <- (map_nth_seq (elems a) zero) at 1. rewrite flat_map_concat_map, map_map, <- flat_map_concat_map.
    apply flat_map_ext. intros i. rewrite <- (map_nth_seq (elems b) zero) at 1. now rewrite map_map. }
  rewrite E. rewrite reshape_iff by (unfold len; cbn [elems prod]; rewrite length_flat_map_grid; lia).
  eexists. split; [reflexivity|]. cbn [shape elems]. split; [reflexivity|].
  intros i j Hi Hj. unfold get. cbn [shape elems flat prod]. replace (i * (len b * 1) + (j * 1 + 0)) with (i * len b + j) by lia.
  now rewrite (nth_flat_map_grid (fun i j => mul (nth i (elems a) zero) (nth j (elems b) zero))).
Qed.

(* matrix x vector and vector x matrix *)
Theorem mat_vec_spec (m v : arr T) rows cols : shape m = [rows; cols] ->
  mat_vec zero add mul m v =
  Ok (mk (map (fun i => fold_left add (map (fun t => mul (get zero m [i; t]) (nth t (elems v) zero)) (seq 0 cols)) zero) (seq 0 rows)) [rows]).
Proof.
  intros S. unfold mat_vec. rewrite S, flat_arr_ok. rewrite map_length, seq_length. f_equal. f_equal.
  apply map_ext. intros i. f_equal. apply map_ext. intros t. now rewrite (get2 m rows cols).
Qed.

Theorem vec_mat_spec (v m : arr T) rows cols : shape m = [rows; cols] ->
  vec_mat zero add mul v m =
  Ok (mk (map (fun j => fold_left add (map (fun i => mul (nth i (elems v) zero) (get zero m [i; j])) (seq 0 rows)) zero) (seq 0 cols)) [cols]).
Proof.
  intros S. unfold vec_mat. rewrite S, flat_arr_ok. rewrite map_length, seq_length. f_equal. f_equal.
  apply map_ext. intros j. f_equal. apply map_ext. intros i. now rewrite (get2 m rows cols).
Qed.

End ProductProofs.

(* … but it refuses conforming rectangular matrices [n,k] x [k,p] with n <> p (open finding F15) *)
Theorem matmul22_pinned_refuted :
  exists a b : arr Z, matmul22 0%Z Z.add Z.mul true a b = Err EParam /\
    matmul22 0%Z Z.add Z.mul false a b = Ok (mk [9;12;15;19;26;33]%Z [2;3]).
Proof. exists (mk [1;2;3;4]%Z [2;2]), (mk [1;2;3;4;5;6]%Z [2;3]). split; vm_compute; reflexivity. Qed.

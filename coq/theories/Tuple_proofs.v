(* Text round trips of pairs, triples and lists (C18): the text form "(a, b, c)" / "[a, b, c]" parses back to the
   components, for components that contain no comma and (first / last) do not begin / end with the enclosing bracket. *)
From ArrRs Require Import Index Lists_proofs Axis Str Str_proofs Text.
Local Open Scope Z_scope.
Local Open Scope list_scope.

Definition no_comma (x : str) : Prop := Forall (fun c => c <> comma) x.

(* ---------- replace ", " by "," ---------- *)
Lemma replace_f_fuel old new : (1 <= length old)%nat -> forall f s f', (length s < f)%nat -> (length s < f')%nat ->
  replace_f f s old new None = replace_f f' s old new None.
Proof.
  intros Ho. induction f as [|f IH]; intros s f' H H'; [lia|]. destruct f' as [|f']; [lia|]. cbn [replace_f].
  destruct s as [|c t]; [reflexivity|]. destruct (starts_with (c :: t) old).
  - cbn [option_map]. f_equal. apply IH; rewrite skipn_length; cbn [length] in *; lia.
  - f_equal. apply IH; cbn [length] in *; lia.
Qed.

Lemma starts_with_nil s : starts_with s [] = true.
Proof. destruct s; reflexivity. Qed.

Definition repl (s : str) : str := replace_str s [comma; space] [comma] None.

Lemma replace_f_step f c t old new : replace_f (S f) (c :: t) old new None =
  if starts_with (c :: t) old then new ++ replace_f f (skipn (length old) (c :: t)) old new None
  else c :: replace_f f t old new None.
Proof. reflexivity. Qed.

Lemma repl_as_f s : repl s = replace_f (S (length s)) s [comma; space] [comma] None.
Proof. reflexivity. Qed.

Lemma repl_unfold s : repl s = match s with
  | [] => []
  | c :: t => if starts_with (c :: t) [comma; space] then [comma] ++ repl (skipn 2 (c :: t)) else c :: repl t end.
Proof.
  destruct s as [|c t]; [reflexivity|]. rewrite !repl_as_f. rewrite replace_f_step.
  destruct (starts_with (c :: t) [comma; space]).
  - f_equal. apply replace_f_fuel; rewrite ?skipn_length; cbn [length]; lia.
  - reflexivity.
Qed.

Lemma repl_atom x r : no_comma x -> repl (x ++ r) = x ++ repl r.
Proof.
  induction 1 as [|c t Hc Ht IH]; [reflexivity|]. cbn [app]. rewrite repl_unfold.
  cbn [starts_with]. destruct (Z.eqb_spec comma c); [congruence|]. cbn [andb]. now rewrite IH.
Qed.

Lemma repl_join l : Forall no_comma l -> repl (join_with [comma; space] l) = join_with [comma] l.
Proof.
  induction 1 as [|x t Hx Ht IH]; [reflexivity|]. destruct t as [|y t'].
  - cbn [join_with]. rewrite <- (app_nil_r x) at 1. rewrite repl_atom by exact Hx. cbn. now rewrite app_nil_r.
  - change (join_with [comma; space] (x :: y :: t')) with (x ++ [comma; space] ++ join_with [comma; space] (y :: t')).
    change (join_with [comma] (x :: y :: t')) with (x ++ [comma] ++ join_with [comma] (y :: t')).
    rewrite repl_atom by exact Hx. f_equal. cbn [app]. rewrite repl_unfold. cbn [starts_with Z.eqb].
    rewrite !Z.eqb_refl, starts_with_nil. cbn [andb skipn app]. now rewrite IH.
Qed.

(* ---------- split on "," ---------- *)
Lemma split_f_fuel sep : (1 <= length sep)%nat -> forall f s cur f', (length s < f)%nat -> (length s < f')%nat ->
  split_f f s sep cur None = split_f f' s sep cur None.
Proof.
  intros Ho. induction f as [|f IH]; intros s cur f' H H'; [lia|]. destruct f' as [|f']; [lia|]. cbn [split_f].
  destruct s as [|c t]; [reflexivity|]. destruct (starts_with (c :: t) sep).
  - cbn [option_map]. f_equal. apply IH; rewrite skipn_length; cbn [length] in *; lia.
  - apply IH; cbn [length] in *; lia.
Qed.

Definition spl (s cur : str) : list str := split_f (S (length s)) s [comma] cur None.

Lemma split_f_step f c t sep cur : split_f (S f) (c :: t) sep cur None =
  if starts_with (c :: t) sep then rev cur :: split_f f (skipn (length sep) (c :: t)) sep [] None
  else split_f f t sep (c :: cur) None.
Proof. reflexivity. Qed.

Lemma spl_atom x r cur : no_comma x -> spl (x ++ r) cur = spl r (rev x ++ cur).
Proof.
  revert cur; induction x as [|c t IH]; intros cur H; [reflexivity|]. inversion H as [|? ? Hc Ht]; subst.
  unfold spl at 1. cbn [app length]. rewrite split_f_step. cbn [starts_with]. destruct (Z.eqb_spec comma c); [congruence|]. cbn [andb].
  fold (spl (t ++ r) (c :: cur)).
  rewrite IH by exact Ht. cbn [rev]. now rewrite <- app_assoc.
Qed.

Lemma spl_join l cur : Forall no_comma l -> l <> [] ->
  spl (join_with [comma] l) cur = match l with x :: t => (rev cur ++ x) :: t | [] => [] end.
Proof.
  intros F. revert cur; induction F as [|x t Hx Ht IH]; intros cur Hne; [congruence|]. destruct t as [|y t'].
  - cbn [join_with]. rewrite <- (app_nil_r x) at 1. rewrite spl_atom by exact Hx. unfold spl. cbn.
    now rewrite rev_app_distr, rev_involutive.
  - change (join_with [comma] (x :: y :: t')) with (x ++ [comma] ++ join_with [comma] (y :: t')).
    rewrite spl_atom by exact Hx. cbn [app]. unfold spl at 1. cbn [length]. rewrite split_f_step. cbn [starts_with]. rewrite Z.eqb_refl, starts_with_nil.
    cbn [andb skipn length]. rewrite rev_app_distr, rev_involutive. f_equal.
    fold (spl (join_with [comma] (y :: t')) []). rewrite (IH [] ltac:(discriminate)). reflexivity.
Qed.

(* ---------- trimming the enclosing brackets ---------- *)
Lemma trim_start_keep p s : (match s with c :: _ => p c = false | [] => True end) -> trim_start p s = s.
Proof. destruct s as [|c t]; [reflexivity|]. cbn. now intros ->. Qed.

Lemma trim_start_cons p c s : p c = true -> trim_start p (c :: s) = trim_start p s.
Proof. intros H. cbn. now rewrite H. Qed.

Definition first_ok (p : Z -> bool) (s : str) : Prop := match s with c :: _ => p c = false | [] => True end.

(* the round trip *)
Theorem tuple_roundtrip l : l <> [] -> Forall no_comma l ->
  first_ok (Z.eqb lpar) (join_with [comma; space] l) -> first_ok (Z.eqb rpar) (rev (join_with [comma; space] l)) ->
  parse_tuple (show_tuple l) = l.
Proof.
  intros Hne F H1 H2. unfold parse_tuple, show_tuple. set (body := join_with [comma; space] l) in *.
  assert (trim_start (Z.eqb lpar) ([lpar] ++ body ++ [rpar]) = body ++ [rpar]) as ->.
  { cbn [app]. rewrite trim_start_cons by reflexivity. destruct body as [|c t]; [reflexivity|]. apply trim_start_keep. exact H1. }
  assert (trim_end (Z.eqb rpar) (body ++ [rpar]) = body) as ->.
  { unfold trim_end. rewrite rev_app_distr. cbn [rev app]. rewrite trim_start_cons by reflexivity.
    rewrite trim_start_keep by exact H2. apply rev_involutive. }
  change (replace_all body [comma; space] [comma]) with (repl body). unfold body. rewrite repl_join by exact F.
  change (split_str (join_with [comma] l) [comma] None) with (spl (join_with [comma] l) []).
  rewrite spl_join by assumption. destruct l; [congruence | reflexivity].
Qed.

Theorem list_roundtrip l : l <> [] -> Forall no_comma l ->
  first_ok (fun c => (c =? lpar) || (c =? lbr)) (join_with [comma; space] l) ->
  first_ok (fun c => (c =? rpar) || (c =? rbr)) (rev (join_with [comma; space] l)) ->
  parse_list (show_list l) = l.
Proof.
  intros Hne F H1 H2. unfold parse_list, show_list. set (body := join_with [comma; space] l) in *.
  assert (trim_start (fun c => (c =? lpar) || (c =? lbr)) ([lbr] ++ body ++ [rbr]) = body ++ [rbr]) as ->.
  { cbn [app]. rewrite trim_start_cons by reflexivity. destruct body as [|c t]; [reflexivity|]. apply trim_start_keep. exact H1. }
  assert (trim_end (fun c => (c =? rpar) || (c =? rbr)) (body ++ [rbr]) = body) as ->.
  { unfold trim_end. rewrite rev_app_distr. cbn [rev app]. rewrite trim_start_cons by reflexivity.
    rewrite trim_start_keep by exact H2. apply rev_involutive. }
  change (replace_all body [comma; space] [comma]) with (repl body). unfold body. rewrite repl_join by exact F.
  change (split_str (join_with [comma] l) [comma] None) with (spl (join_with [comma] l) []).
  rewrite spl_join by assumption. destruct l; [congruence | reflexivity].
Qed.

(* C09: for every signed axis value a caller can pass (the whole isize range), the axis-taking operations on a
   well-formed non-empty array answer with an array or with AxisOutOfBounds — they never evaluate to Panic.
   Each statement joins the operation's specification (valid axis: a value) with its refusal (invalid axis: the error). *)
From ArrRs Require Import Index Index_proofs Lists_proofs Axis Axis_proofs Reshape_proofs Broadcast_proofs Split Lift Reduce
  Reduce_proofs Along_proofs Reorder Reorder_proofs Reorder_axis Sort Sort_proofs Along_uses Bits Bits_proofs.

Lemma axis_ok_dec n z : {axis_ok n z} + {~ axis_ok n z}.
Proof.
  unfold axis_ok. destruct (Z_le_dec (- Z.of_nat n) z), (Z_lt_dec z (Z.of_nat n)); [left; lia | right; lia | right; lia | right; lia].
Qed.

Definition value_or_axis_error {A} (r : res A) : Prop := (exists v, r = Ok v) \/ r = Err EAxis.

Lemma axis_guard_err n z : (Z.of_nat n < 9223372036854775808)%Z -> isize_ok z -> ~ axis_ok n z ->
  (normalize_axis n z <? Z.of_nat n)%Z = false.
Proof.
  intros B I H. pose proof (axis_in_bounds_err n z B I H) as E. unfold axis_in_bounds in E.
  destruct (normalize_axis n z <? Z.of_nat n)%Z; [discriminate | reflexivity].
Qed.

Section TotalAxis.
Context {T : Type} (d : T).

Theorem flip_total (a : arr T) z : wf a -> pos_shape (shape a) -> (Z.of_nat (ndim a) < 9223372036854775808)%Z -> isize_ok z ->
  value_or_axis_error (flip d a (Some [z])).
Proof.
  intros W P B I. destruct (axis_ok_dec (ndim a) z) as [H|H].
  - destruct (flip_one_axis d a z W P (two64_gt _ B) H) as (R & E & _). left. eauto.
  - right. apply (flip_axis_err d a z [] [] B I H).
Qed.

Theorem roll_total (a : arr T) s z : wf a -> pos_shape (shape a) -> (Z.of_nat (ndim a) < 9223372036854775808)%Z -> isize_ok z ->
  2 <= ndim a -> value_or_axis_error (roll d a [s] (Some [z])).
Proof.
  intros W P B I N2. destruct (axis_ok_dec (ndim a) z) as [H|H].
  - destruct (roll_one_axis d a s z W P (two64_gt _ B) H N2) as (R & E & _). left. eauto.
  - right. unfold roll. cbn [bind forallb]. rewrite (axis_guard_err _ _ B I H). reflexivity.
Qed.

Theorem reduce_total (g1 : list T -> res T) (h : list T -> T) (a : arr T) z :
  wf a -> pos_shape (shape a) -> (Z.of_nat (ndim a) < 9223372036854775808)%Z -> isize_ok z ->
  (forall l, g1 l = Ok (h l)) -> value_or_axis_error (reduce d g1 a (Some z)).
Proof.
  intros W P B I Hg. destruct (axis_ok_dec (ndim a) z) as [H|H].
  - destruct (reduce_axis_spec d g1 h a z W P (two64_gt _ B) H) as (R & E & _); [intros; apply Hg|]. left. eauto.
  - right. apply (reduce_axis_err d g1 a z B I H).
Qed.

Theorem scan_total (g : list T -> list T) (a : arr T) z :
  wf a -> pos_shape (shape a) -> (Z.of_nat (ndim a) < 9223372036854775808)%Z -> isize_ok z ->
  (forall l, length (g l) = length l) -> value_or_axis_error (scan d g a (Some z)).
Proof.
  intros W P B I Hg. destruct (axis_ok_dec (ndim a) z) as [H|H].
  - destruct (scan_axis_spec d g a z W P (two64_gt _ B) H Hg) as (R & E & _). left. eauto.
  - right. apply (scan_axis_err d g a z B I H).
Qed.

Theorem index_reduce_total {U} (du : U) (g1 : list T -> res U) (h : list T -> U) (a : arr T) z keepdims :
  wf a -> pos_shape (shape a) -> (Z.of_nat (ndim a) < 9223372036854775808)%Z -> isize_ok z ->
  (forall l, g1 l = Ok (h l)) -> value_or_axis_error (index_reduce d du g1 a (Some z) keepdims).
Proof.
  intros W P B I Hg. destruct (axis_ok_dec (ndim a) z) as [H|H].
  - destruct (index_reduce_axis_spec d du g1 h a z keepdims W P (two64_gt _ B) H) as (R & E & _); [intros; apply Hg|]. left. eauto.
  - right. unfold index_reduce. rewrite (axis_guard_err _ _ B I H). reflexivity.
Qed.

End TotalAxis.

Section TotalSort.
Context {T : Type} (ltb : T -> T -> bool) (d : T).
Hypothesis lt_le : forall x y, ltb x y = true -> le ltb x y.
Hypothesis le_trans : forall x y z, le ltb x y -> le ltb y z -> le ltb x z.

Theorem sort_total (a : arr T) z k : wf a -> pos_shape (shape a) -> (Z.of_nat (ndim a) < 9223372036854775808)%Z -> isize_ok z ->
  value_or_axis_error (sort_arr ltb d a (Some z) (Ok k)).
Proof.
  intros W P B I. destruct (axis_ok_dec (ndim a) z) as [H|H].
  - destruct (sort_axis_spec ltb d lt_le le_trans a z k W P (two64_gt _ B) H) as (R & E & _). left. eauto.
  - right. unfold sort_arr. cbn [bind]. rewrite (axis_guard_err _ _ B I H). reflexivity.
Qed.

End TotalSort.

Theorem unpack_bits_total (a : arr Z) z o : wf a -> pos_shape (shape a) -> (Z.of_nat (ndim a) < 9223372036854775808)%Z -> isize_ok z ->
  value_or_axis_error (unpack_bits a (Some z) None (Ok o)).
Proof.
  intros W P B I. destruct (axis_ok_dec (ndim a) z) as [H|H].
  - destruct (unpack_axis_spec a z o W P (two64_gt _ B) H) as (R & E & _). left. eauto.
  - right. assert (0 < prod (shape a)) as Pp by (apply pos_shape_prod, P).
    unfold unpack_bits, is_empty, len. rewrite W. destruct (Nat.eqb_spec (prod (shape a)) 0); [lia|]. cbn [bind].
    rewrite (axis_guard_err _ _ B I H). reflexivity.
Qed.

Theorem pack_bits_total (a : arr Z) z o : wf a -> pos_shape (shape a) -> (Z.of_nat (ndim a) < 9223372036854775808)%Z -> isize_ok z ->
  value_or_axis_error (pack_bits a (Some z) (Ok o)).
Proof.
  intros W P B I. destruct (axis_ok_dec (ndim a) z) as [H|H].
  - destruct (pack_axis_spec a z o W P (two64_gt _ B) H) as (R & E & _). left. eauto.
  - right. assert (0 < prod (shape a)) as Pp by (apply pos_shape_prod, P).
    unfold pack_bits, is_empty, len. rewrite W. destruct (Nat.eqb_spec (prod (shape a)) 0); [lia|]. cbn [bind].
    rewrite (axis_guard_err _ _ B I H). reflexivity.
Qed.

From ArrRs Require Import Index.

Lemma prod_app l1 l2 : prod (l1 ++ l2) = prod l1 * prod l2.
Proof. induction l1 as [|x l1 IH]; cbn [prod app]; [lia | rewrite IH; lia]. Qed.

Lemma in_range_length sh c : in_range sh c -> length c = length sh.
Proof.
  revert c; induction sh as [|d sh IH]; intros [|i c] H; cbn in *; try tauto.
  destruct H as [_ H]. f_equal. auto.
Qed.

Lemma in_rangeb_spec sh c : in_rangeb sh c = true <-> in_range sh c.
Proof.
  revert c; induction sh as [|d sh IH]; intros [|i c]; cbn [in_rangeb in_range]; try tauto; try (split; [discriminate | tauto]).
  rewrite andb_true_iff, Nat.ltb_lt, IH. tauto.
Qed.

Lemma flat_lt sh c : in_range sh c -> flat sh c < prod sh.
Proof.
  revert c; induction sh as [|d sh IH]; intros [|i c] H; cbn in *; try tauto; try lia.
  destruct H as [Hi H]. specialize (IH _ H). nia.
Qed.

Lemma in_range_prod_pos sh c : in_range sh c -> 0 < prod sh.
Proof. intros H. apply flat_lt in H. lia. Qed.

Lemma unravel_in_range sh i : i < prod sh -> in_range sh (unravel sh i).
Proof.
  revert i; induction sh as [|d sh IH]; intros i H; cbn in *; [tauto|].
  assert (0 < prod sh) by nia.
  split.
  - apply Nat.div_lt_upper_bound; lia.
  - apply IH. apply Nat.mod_upper_bound. lia.
Qed.

Lemma flat_unravel sh i : i < prod sh -> flat sh (unravel sh i) = i.
Proof.
  revert i; induction sh as [|d sh IH]; intros i H; cbn in *; [lia|].
  assert (0 < prod sh) by nia.
  rewrite IH by (apply Nat.mod_upper_bound; lia).
  pose proof (Nat.div_mod i (prod sh)). lia.
Qed.

Lemma unravel_flat sh c : in_range sh c -> unravel sh (flat sh c) = c.
Proof.
  revert c; induction sh as [|d sh IH]; intros [|i c] H; cbn in *; try tauto.
  destruct H as [Hi H]. pose proof (flat_lt _ _ H) as Hlt.
  f_equal.
  - rewrite Nat.div_add_l by lia. rewrite Nat.div_small by lia. lia.
  - rewrite Nat.add_comm, Nat.mod_add by lia. rewrite Nat.mod_small by lia. auto.
Qed.

Lemma flat_inj sh c c' : in_range sh c -> in_range sh c' -> flat sh c = flat sh c' -> c = c'.
Proof.
  intros H H' E. rewrite <- (unravel_flat sh c H), <- (unravel_flat sh c' H'). now rewrite E.
Qed.

Lemma flat_lex_mono sh c c' :
  in_range sh c -> in_range sh c' -> (lex_lt c c' <-> flat sh c < flat sh c').
Proof.
  revert c c'; induction sh as [|d sh IH]; intros [|i c] [|j c'] H H'; cbn in *; try tauto; try lia.
  destruct H as [Hi H], H' as [Hj H'].
  pose proof (flat_lt _ _ H). pose proof (flat_lt _ _ H').
  specialize (IH _ _ H H').
  split.
  - intros [L | [E L]]; [nia | subst; apply IH in L; lia].
  - intros L. destruct (Nat.lt_trichotomy i j) as [L1 | [E | L1]]; [tauto | | nia].
    right. split; [auto|]. subst. apply IH. lia.
Qed.

(* the last axis varies fastest: bumping the last coordinate bumps the position by one *)
Lemma flat_last_step sh d c i :
  length c = length sh ->
  flat (sh ++ [d]) (c ++ [S i]) = S (flat (sh ++ [d]) (c ++ [i])).
Proof.
  revert c; induction sh as [|e sh IH]; intros [|j c] L; cbn in *; try discriminate; try lia.
  injection L as L. rewrite (IH _ L). lia.
Qed.

(* ---------- the code's folds equal the specification ---------- *)

Lemma index_at_fold_spec sh c :
  length c = length sh -> index_at_fold c sh = (flat sh c, prod sh).
Proof.
  unfold index_at_fold. rewrite <- fold_left_rev_right, rev_involutive.
  revert c; induction sh as [|d sh IH]; intros [|i c] L; cbn in *; try discriminate; auto.
  injection L as L. rewrite (IH _ L). f_equal; lia.
Qed.

Lemma existsb_map {A B} (f : B -> bool) (g : A -> B) l :
  existsb f (map g l) = existsb (fun x => f (g x)) l.
Proof. induction l as [|x l IH]; cbn; [auto | now rewrite IH]. Qed.

Lemma index_at_check sh c :
  length sh = length c ->
  existsb (fun i => nth i sh 0 <=? nth i c 0) (seq 0 (length c)) = false <-> in_range sh c.
Proof.
  revert c; induction sh as [|d sh IH]; intros [|i c] L; cbn in *; try discriminate; try tauto.
  injection L as L.
  rewrite orb_false_iff, Nat.leb_gt.
  rewrite <- seq_shift, existsb_map. cbn [nth].
  rewrite (IH _ L). tauto.
Qed.

Lemma mod_mul_div a P d : 0 < P -> 0 < d -> (a mod (d * P)) / P = (a / P) mod d.
Proof.
  intros HP Hd. rewrite (Nat.mul_comm d P), Nat.mod_mul_r by lia.
  rewrite (Nat.mul_comm P), Nat.div_add by lia. rewrite Nat.div_small by (apply Nat.mod_upper_bound; lia). lia.
Qed.

Lemma mod_mul_mod a P d : 0 < P -> 0 < d -> (a mod (d * P)) mod P = a mod P.
Proof.
  intros HP Hd. rewrite (Nat.mul_comm d P), Nat.mod_mul_r by lia.
  rewrite (Nat.mul_comm P), Nat.mod_add by lia. apply Nat.mod_mod. lia.
Qed.

Lemma index_to_coord_fold_spec sh idx :
  0 < prod sh ->
  index_to_coord_fold sh idx = (idx / prod sh, rev (unravel sh (idx mod prod sh))).
Proof.
  unfold index_to_coord_fold. rewrite <- fold_left_rev_right, rev_involutive.
  induction sh as [|d sh IH]; intros Hpos.
  - cbn [fold_right prod unravel rev]. now rewrite Nat.div_1_r.
  - cbn [fold_right prod unravel] in *.
    assert (0 < d /\ 0 < prod sh) as [Hd HP] by nia.
    rewrite (IH HP). cbn [rev]. f_equal.
    + rewrite Nat.div_div by lia. f_equal. lia.
    + rewrite mod_mul_div, mod_mul_mod by lia. reflexivity.
Qed.

Lemma index_to_coord_ok n sh idx :
  n = prod sh -> idx < n -> index_to_coord n sh idx = Ok (unravel sh idx).
Proof.
  intros -> H. unfold index_to_coord.
  destruct (Nat.leb_spec (prod sh) idx) as [L|L]; [lia|].
  rewrite index_to_coord_fold_spec by lia. cbn [snd]. rewrite rev_involutive, Nat.mod_small by lia. reflexivity.
Qed.

Lemma index_to_coord_err n sh idx : n <= idx -> index_to_coord n sh idx = Err EParam.
Proof. intros H. unfold index_to_coord. destruct (Nat.leb_spec n idx); [reflexivity | lia]. Qed.

Lemma index_at_ok sh c : in_range sh c -> index_at sh c = Ok (flat sh c).
Proof.
  intros H. pose proof (in_range_length _ _ H) as L. unfold index_at.
  rewrite <- L, Nat.eqb_refl. cbn [negb].
  rewrite (proj2 (index_at_check sh c (eq_sym L)) H).
  rewrite index_at_fold_spec by auto. reflexivity.
Qed.

Lemma index_at_err sh c : ~ in_range sh c -> index_at sh c = Err EParam.
Proof.
  intros H. unfold index_at.
  destruct (Nat.eqb_spec (length sh) (length c)) as [L|L]; cbn [negb]; [|reflexivity].
  destruct (existsb _ _) eqn:E; [reflexivity|].
  exfalso. apply H. now apply index_at_check.
Qed.

Lemma index_at_total sh c : index_at sh c = Ok (flat sh c) \/ index_at sh c = Err EParam.
Proof.
  destruct (in_rangeb sh c) eqn:E.
  - left. apply index_at_ok, in_rangeb_spec, E.
  - right. apply index_at_err. rewrite <- in_rangeb_spec, E. discriminate.
Qed.

Section AtProofs.
Context {T : Type}.

Lemma vec_get_nth (l : list T) i d : i < length l -> vec_get l i = Ok (nth i l d).
Proof.
  intros H. unfold vec_get. destruct (nth_error l i) eqn:E.
  - now rewrite (nth_error_nth _ _ d E).
  - apply nth_error_None in E. lia.
Qed.

Lemma at_ok d (a : arr T) c : wf a -> in_range (shape a) c -> at_ a c = Ok (get d a c).
Proof.
  intros W H. unfold at_, get. rewrite (index_at_ok _ _ H). cbn [bind].
  apply vec_get_nth. rewrite W. now apply flat_lt.
Qed.

Lemma at_err (a : arr T) c : ~ in_range (shape a) c -> at_ a c = Err EParam.
Proof. intros H. unfold at_. now rewrite (index_at_err _ _ H). Qed.

Lemma index_coords_ok d (a : arr T) c : wf a -> in_range (shape a) c -> index_coords a c = Ok (get d a c).
Proof.
  intros W H. unfold index_coords, get. rewrite (index_at_ok _ _ H). cbn [unwrap bind].
  apply vec_get_nth. rewrite W. now apply flat_lt.
Qed.

Lemma index_coords_reject (a : arr T) c : ~ in_range (shape a) c -> index_coords a c = Panic.
Proof. intros H. unfold index_coords. now rewrite (index_at_err _ _ H). Qed.

Lemma index_usize_ok d (a : arr T) i : i < len a -> index_usize a i = Ok (nth i (elems a) d).
Proof. intros H. now apply vec_get_nth. Qed.

End AtProofs.

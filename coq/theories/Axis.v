(* Axis.v — axis permutations and unit-axis edits (src/core/operations/axis.rs: transpose, moveaxis,
   rollaxis, swapaxes, expand_dims, squeeze; manipulate.rs: normalize_axis, normalize_axis_dim,
   atleast, resize, cycle_take; validators/unique.rs). *)
From ArrRs Require Export Index.

(* ---------- specification vocabulary ---------- *)

(* the coordinate/shape vector seen through an axis order: (pick p c)[k] = c[p[k]] *)
Definition pick (p c : list nat) : list nat := map (fun ax => nth ax c 0) p.

Fixpoint index_of (x : nat) (l : list nat) : nat :=
  match l with [] => 0 | y :: t => if x =? y then 0 else S (index_of x t) end.

Definition inv_perm (p : list nat) : list nat := map (fun j => index_of j p) (seq 0 (length p)).

Definition is_perm (p : list nat) (n : nat) : Prop :=
  NoDup p /\ length p = n /\ Forall (fun x => x < n) p.

Fixpoint nodupb (l : list nat) : bool :=
  match l with [] => true | x :: t => negb (existsb (Nat.eqb x) t) && nodupb t end.

Definition is_permb (p : list nat) (n : nat) : bool :=
  nodupb p && (length p =? n) && forallb (fun x => x <? n) p.

(* ---------- model ---------- *)

Definition two64 : Z := 18446744073709551616%Z.

(* manipulate.rs:476 normalize_axis — `(axis + ndim) as usize` wraps for axis < -ndim *)
Definition normalize_axis (n : nat) (z : Z) : Z :=
  if (z <? 0)%Z then ((z + Z.of_nat n) mod two64)%Z else z.

(* manipulate.rs:481 normalize_axis_dim *)
Definition normalize_axis_dim (n : nat) (z : Z) (k : nat) : Z :=
  if (z <? 0)%Z then ((Z.of_nat n + z + Z.of_nat k) mod two64)%Z else z.

Fixpoint nodupZb (l : list Z) : bool :=
  match l with [] => true | x :: t => negb (existsb (Z.eqb x) t) && nodupZb t end.

(* validators/unique.rs *)
Definition is_unique (l : list Z) : res unit := guard (nodupZb l) EUnique.

(* validators/axis.rs axis_in_bounds on a normalised axis *)
Definition axis_in_bounds (n : nat) (ax : Z) : res unit :=
  guard (ax <? Z.of_nat n)%Z EAxis.

(* Vec::dedup: consecutive duplicates removed *)
Fixpoint dedupZ (l : list Z) : list Z :=
  match l with
  | x :: ((y :: _) as t) => if (x =? y)%Z then dedupZ t else x :: dedupZ t
  | _ => l
  end.

Section Axis.
Context {T : Type} (dflt : T).

(* the scatter loop of transpose_recursive: input coordinates are enumerated in row-major order;
   output[flat new_shape (pick p c)] = input[flat shape c] *)
Definition transpose_scatter (es : list T) (sh p : list nat) : list T :=
  let new_sh := pick p sh in
  fold_left (fun out i => upd out (flat new_sh (pick p (unravel sh i))) (nth i es dflt))
            (seq 0 (prod sh)) (repeat dflt (length es)).

(* axis.rs transpose with a validated order (the validation of explicit orders is the C09 repair) *)
Definition transpose_perm (a : arr T) (p : list nat) : res (arr T) :=
  if ndim a =? 0 then Panic                      (* input_shape.len() - 1 underflows *)
  else new (transpose_scatter (elems a) (shape a) p) (pick p (shape a)).

Definition transpose (a : arr T) (axes : option (list Z)) : res (arr T) :=
  match axes with
  | None => transpose_perm a (rev (seq 0 (ndim a)))
  | Some l =>
    let axs := map (normalize_axis (ndim a)) l in
    let* _ := guard (length axs =? ndim a) EEqual in
    let* _ := guard (forallb (fun ax => (ax <? Z.of_nat (ndim a))%Z) axs) EAxis in
    let* _ := is_unique axs in
    transpose_perm a (map Z.to_nat axs)
  end.

(* insertion sort of (destination, source) pairs, lexicographic: Iterator::sorted on tuples *)
Definition pair_leb (x y : Z * Z) : bool :=
  ((fst x <? fst y) || ((fst x =? fst y) && (snd x <=? snd y)))%Z.
Fixpoint insert_sorted {A} (leb : A -> A -> bool) (x : A) (l : list A) : list A :=
  match l with
  | [] => [x]
  | y :: t => if leb x y then x :: l else y :: insert_sorted leb x t
  end.
Definition sort_by {A} (leb : A -> A -> bool) (l : list A) : list A :=
  fold_right (insert_sorted leb) [] l.

(* axis.rs moveaxis (source and destination validated: the C09 repair) *)
Definition moveaxis_order (n : nat) (src dst : list Z) : list nat :=
  let order0 := filter (fun f => negb (existsb (Z.eqb (Z.of_nat f)) src)) (seq 0 n) in
  fold_left (fun order (ds : Z * Z) =>
               insert_nth order (Nat.min (Z.to_nat (fst ds)) (length order)) (Z.to_nat (snd ds)))
            (sort_by pair_leb (combine dst src)) order0.

Definition moveaxis (a : arr T) (source destination : list Z) : res (arr T) :=
  let n := ndim a in
  let* _ := is_unique source in
  let* _ := guard (length source =? length destination) EEqual in
  let src := map (normalize_axis n) source in
  let dst := map (normalize_axis n) destination in
  let* _ := guard (forallb (fun ax => (ax <? Z.of_nat n)%Z) src) EAxis in
  let* _ := guard (forallb (fun ax => (ax <? Z.of_nat n)%Z) dst) EAxis in
  let* _ := is_unique src in
  let* _ := is_unique dst in
  transpose a (Some (map Z.of_nat (moveaxis_order n src dst))).

(* axis.rs rollaxis: the axis lands at index `start` *)
Definition rollaxis_order (n axis start : nat) : list nat :=
  insert_nth (remove_nth (seq 0 n) axis) start axis.

Definition rollaxis (a : arr T) (axis : Z) (start : option Z) : res (arr T) :=
  let n := ndim a in
  let ax := normalize_axis n axis in
  let st := match start with Some s => normalize_axis n s | None => 0%Z end in
  let* _ := axis_in_bounds n ax in
  let* _ := axis_in_bounds n st in
  transpose a (Some (map Z.of_nat (rollaxis_order n (Z.to_nat ax) (Z.to_nat st)))).

Definition swap_list (l : list nat) (i j : nat) : list nat :=
  upd (upd l i (nth j l 0)) j (nth i l 0).

Definition swapaxes (a : arr T) (axis_1 axis_2 : Z) : res (arr T) :=
  let n := ndim a in
  let a1 := normalize_axis n axis_1 in
  let a2 := normalize_axis n axis_2 in
  let* _ := axis_in_bounds n a1 in
  let* _ := axis_in_bounds n a2 in
  transpose a (Some (map Z.of_nat (swap_list (seq 0 n) (Z.to_nat a1) (Z.to_nat a2)))).

(* axis.rs expand_dims: normalised axes sorted ascending, each inserted into the growing shape;
   an index beyond the current length is the C09 repair (AxisOutOfBounds instead of Vec::insert panic) *)
Fixpoint expand_shape (sh : list nat) (axes : list Z) : res (list nat) :=
  match axes with
  | [] => Ok sh
  | ax :: rest =>
    if (ax <=? Z.of_nat (length sh))%Z then expand_shape (insert_nth sh (Z.to_nat ax) 1) rest
    else Err EAxis
  end.

Definition expand_dims (a : arr T) (axes : list Z) : res (arr T) :=
  let axs := sort_by Z.leb (map (fun z => normalize_axis_dim (ndim a) z (length axes)) axes) in
  let* sh := expand_shape (shape a) axs in
  reshape a sh.

(* axis.rs squeeze: normalised axes sorted descending and deduplicated (Vec::dedup) *)
Definition squeeze (a : arr T) (axes : option (list Z)) : res (arr T) :=
  match axes with
  | Some l =>
    let axs := dedupZ (rev (sort_by Z.leb (map (normalize_axis (ndim a)) l))) in
    let* _ := guard (forallb (fun ax => (ax <? Z.of_nat (ndim a))%Z) axs) EAxis in
    if existsb (fun ax => negb (nth (Z.to_nat ax) (shape a) 0 =? 1)) axs then Err ESqueeze
    else reshape a (fold_left (fun s ax => remove_nth s (Z.to_nat ax)) axs (shape a))
  | None => reshape a (filter (fun d => negb (d =? 1)) (shape a))
  end.

(* manipulate.rs atleast (atleast_1d contains `!ndim >= 1`, which is always true) *)
Definition atleast (a : arr T) (n : nat) : res (arr T) :=
  match n with
  | 0 => Ok a
  | 1 => Ok a
  | 2 => if 2 <=? ndim a then Ok a else
           match shape a with
           | [] => reshape a [1; 1]
           | d :: _ => reshape a [1; d]
           end
  | 3 => if 3 <=? ndim a then Ok a else
           match shape a with
           | [] => reshape a [1; 1; 1]
           | [d] => reshape a [1; d; 1]
           | d0 :: d1 :: _ => reshape a [d0; d1; 1]
           end
  | _ => Err EUnsupDim
  end.

(* Iterator::cycle().take(n): an empty source yields nothing *)
Definition cycle_list (es : list T) (n : nat) : list T :=
  match es with
  | [] => []
  | _ => map (fun i => nth (i mod length es) es dflt) (seq 0 n)
  end.

Definition resize (a : arr T) (sh : list nat) : res (arr T) :=
  let* f := flat_arr (cycle_list (elems a) (prod sh)) in reshape f sh.

Definition cycle_take (a : arr T) (n : nat) : res (arr T) := flat_arr (cycle_list (elems a) n).

End Axis.

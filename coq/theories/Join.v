(* Join.v — manipulate.rs append; joining.rs concatenate, stack (repaired), vstack/row_stack, hstack (as pinned by the
   repository's test_hstack case 6, and the specified form), dstack (repaired), column_stack;
   validators/shape.rs validate_stack_shapes *)
From ArrRs Require Export Index Axis Split.

Section Join.
Context {T : Type} (dflt : T).

(* manipulate.rs append *)
Definition append (a values : arr T) (axis : option nat) : res (arr T) :=
  match axis with
  | None => flat_arr (elems a ++ elems values)
  | Some ax =>
    let* _ := guard (ax <? ndim a) EAxis in
    if negb (ndim a =? ndim values) then Err EParam
    else if negb (nat_list_eqb (remove_nth (shape a) ax) (remove_nth (shape values) ax)) then Err EParam
    else
      let* arrays := split_axis dflt a ax in
      let self_rem_len := prod (remove_nth (shape a) ax) in
      let* vals := split_axis dflt values ax in
      let* array := flat_arr (flat_map (@elems T) (arrays ++ vals)) in
      if self_rem_len =? 0 then Panic else            (* division by zero *)
      let new_shape := upd (shape a) ax (len array / self_rem_len) in
      let tmp_shape := swap_list new_shape 0 ax in
      let transpose_shape := insert_nth (map Z.of_nat (seq 1 (ndim a - 1))) ax 0%Z in
      let* r := reshape array tmp_shape in
      let* t := transpose dflt r (Some transpose_shape) in
      reshape t new_shape
  end.

(* validators/shape.rs validate_stack_shapes(axis, remove_at) on a non-empty list *)
Definition validate_stack_shapes (arrs : list (arr T)) (axis remove_at : nat) : res unit :=
  let* _ := guard (forallb (fun a => axis <? ndim a) arrs) EAxis in
  if negb (forallb (fun a => remove_at <? ndim a) arrs) then Panic else       (* Vec::remove out of range *)
  let shapes := map (fun a => remove_nth (shape a) remove_at) arrs in
  guard (forallb (fun p => nat_list_eqb (fst p) (snd p)) (combine shapes (tl shapes))) EConcat.

(* joining.rs concatenate: fold of append(..).unwrap() *)
Definition concatenate (arrs : list (arr T)) (axis : option nat) : res (arr T) :=
  match arrs with
  | [] => empty
  | first :: rest =>
    let* _ := match axis with Some ax => validate_stack_shapes arrs ax ax | None => Ok tt end in
    fold_left (fun (r : res (arr T)) b => let* a := r in unwrap (append a b axis)) rest (Ok first)
  end.

Definition all_same_shape (arrs : list (arr T)) : bool :=
  forallb (fun p => nat_list_eqb (shape (fst p)) (shape (snd p))) (combine arrs (tl arrs)).

(* joining.rs stack (repaired) *)
Definition stack (arrs : list (arr T)) (axis : option nat) : res (arr T) :=
  match arrs with
  | [] => empty
  | first :: _ =>
    if negb (all_same_shape arrs) then Err EParam else
    let ax := match axis with Some x => x | None => 0 end in
    if ndim first <? ax then Err EAxis else
    let* expanded := mapM (fun a => expand_dims a [Z.of_nat ax]) arrs in
    concatenate expanded (Some ax)
  end.

Definition sum_axis (arrs : list (arr T)) (ax : nat) : nat := fold_left (fun s a => s + nth ax (shape a) 0) arrs 0.

(* joining.rs vstack *)
Definition vstack (arrs : list (arr T)) : res (arr T) :=
  match arrs with
  | [] => empty
  | first :: _ =>
    let* _ := validate_stack_shapes arrs 0 0 in
    (* vectors become the rows of a matrix: they must all have the first one's length (repair F30) *)
    let* _ := if ndim first =? 1 then guard (forallb (fun a => nat_list_eqb (shape a) (shape first)) arrs) EConcat else Ok tt in
    let new_shape := if ndim first =? 1 then length arrs :: shape first else upd (shape first) 0 (sum_axis arrs 0) in
    let* c := concatenate arrs (Some 0) in reshape c new_shape
  end.

(* joining.rs hstack; `strict` = the pinned form (validate_stack_shapes(1, 0)), else the specified form (1, 1) *)
Definition hstack_gen (strict : bool) (arrs : list (arr T)) : res (arr T) :=
  match arrs with
  | [] => empty
  | _ =>
    if forallb (fun a => ndim a =? 1) arrs then concatenate arrs (Some 0)
    else
      let* arrs2 := mapM (fun a => atleast a 2) arrs in
      let* _ := validate_stack_shapes arrs2 1 (if strict then 0 else 1) in
      match arrs2 with
      | [] => Panic
      | first :: _ =>
        let new_shape := upd (shape first) 1 (sum_axis arrs2 1) in
        let* c := concatenate arrs2 (Some 1) in reshape c new_shape
      end
  end.
Definition hstack_pinned := hstack_gen true.
Definition hstack_spec := hstack_gen false.

(* joining.rs dstack (repaired) *)
Definition dstack (arrs : list (arr T)) : res (arr T) :=
  match arrs with
  | [] => empty
  | _ =>
    let* arrs3 := mapM (fun a => atleast a 3) arrs in
    let* _ := validate_stack_shapes arrs3 2 2 in
    match arrs3 with
    | [] => Panic
    | first :: _ =>
      let new_shape := upd (shape first) 2 (sum_axis arrs3 2) in
      let* c := concatenate arrs3 (Some 2) in reshape c new_shape
    end
  end.

(* joining.rs column_stack: explicit index loops over rows and columns *)
Definition column_stack (arrs : list (arr T)) : res (arr T) :=
  match arrs with
  | [] => empty
  | first :: _ =>
    match shape first with
    | [] => Panic                                             (* arrs[0].shape[0] *)
    | num_rows :: _ =>
      let* _ := guard (forallb (fun a => (ndim a =? 1) || (ndim a =? 2)) arrs) EUnsupDim in
      if negb (forallb (fun a => nth 0 (shape a) 0 =? num_rows) arrs) then Err EParam else
      let cols (a : arr T) := if ndim a =? 1 then 1 else nth 1 (shape a) 0 in
      let total_cols := fold_left (fun s a => s + cols a) arrs 0 in
      new (flat_map (fun row => flat_map (fun a => firstn (cols a) (skipn (row * cols a) (elems a))) arrs) (seq 0 num_rows))
          [num_rows; total_cols]
    end
  end.

End Join.

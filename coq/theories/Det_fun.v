(* The expansion along the first column, as a function of matrices given by their entries (C15).
   fdet n A is the determinant the code's recursion computes for an n x n matrix with entries A i j (the 2 x 2
   closed form included: Det_elim.v).  Proved here, for every size:
     - linear in every row;
     - exchanging two rows changes the sign (first neighbouring rows, by induction over the recursion; then any two);
     - two equal rows give zero;
     - adding a multiple of one row to another changes nothing.
   These are the facts that connect the expansion with elimination. *)
From Coq Require Import QArith Qabs Qfield Lia Lqa.
Local Close Scope Q_scope.
From ArrRs Require Import Index Lists_proofs Axis Linsolve Lu_sums Lu_step.

Definition fmat := nat -> nat -> Q.
Definition skip (i r : nat) : nat := if r <? i then r else S r.
Definition fminor (i : nat) (A : fmat) : fmat := fun r c => A (skip i r) (S c).
Definition sgn (i : nat) : Q := if Nat.even i then 1%Q else (-1)%Q.

Fixpoint fdet (n : nat) (A : fmat) : Q :=
  match n with
  | O => 1%Q
  | S k => qsum (fun i => sgn i * A i O * fdet k (fminor i A))%Q (S k)
  end.

Lemma sig_spec p j r : (r = j /\ sig p j r = p) \/ (r <> j /\ r = p /\ sig p j r = j) \/ (r <> j /\ r <> p /\ sig p j r = r).
Proof. unfold sig. destruct (Nat.eqb_spec r j); [now left|]. destruct (Nat.eqb_spec r p); [right; now left | right; now right]. Qed.
Lemma skip_spec i r : (r < i /\ skip i r = r) \/ (i <= r /\ skip i r = S r).
Proof. unfold skip. destruct (Nat.ltb_spec r i); [now left | now right]. Qed.

(* index arithmetic with sig and skip: name every application, innermost first, with its case description *)
Ltac nat_cases :=
  repeat match goal with
         | |- context [sig ?p ?j ?r] =>
           lazymatch r with context [sig _ _ _] => fail | context [skip _ _] => fail | _ => idtac end;
           let s := fresh "s" in let H := fresh "Hs" in
           pose proof (sig_spec p j r) as H; set (s := sig p j r) in *; clearbody s
         | |- context [skip ?i ?r] =>
           lazymatch r with context [sig _ _ _] => fail | context [skip _ _] => fail | _ => idtac end;
           let s := fresh "s" in let H := fresh "Hs" in
           pose proof (skip_spec i r) as H; set (s := skip i r) in *; clearbody s
         end; try lia.

Lemma skip_lt i r n : r < n -> skip i r < S n.
Proof. intros H. nat_cases. Qed.

Lemma sgn_S k : (sgn (S k) == - sgn k)%Q.
Proof. unfold sgn. rewrite Nat.even_succ, <- Nat.negb_even. destruct (Nat.even k); cbn [negb]; ring. Qed.

Lemma qsum_opp f n : (qsum (fun t => - f t) n == - qsum f n)%Q.
Proof. induction n as [|n IH]; cbn [qsum]; [ring|]. rewrite IH. ring. Qed.

(* ---------- extensionality ---------- *)
Lemma fdet_ext n : forall A B, (forall i j, i < n -> j < n -> (A i j == B i j)%Q) -> (fdet n A == fdet n B)%Q.
Proof.
  induction n as [|n IH]; intros A B H; cbn [fdet]; [reflexivity|].
  apply qsum_ext. intros i Hi. rewrite (H i O) by lia.
  rewrite (IH (fminor i A) (fminor i B)); [reflexivity|].
  intros r c Hr Hc. unfold fminor. apply H; [apply skip_lt; exact Hr | lia].
Qed.

(* ---------- linear in row k ---------- *)
Lemma fdet_row_lin n : forall (A B C : fmat) k (a b : Q), k < n ->
  (forall i j, i < n -> j < n -> i <> k -> (A i j == C i j)%Q /\ (B i j == C i j)%Q) ->
  (forall j, j < n -> (C k j == a * A k j + b * B k j)%Q) ->
  (fdet n C == a * fdet n A + b * fdet n B)%Q.
Proof.
  induction n as [|n IH]; intros A B C k a b Hk Hrest Hrow; [lia|]. cbn [fdet].
  transitivity (qsum (fun i => a * (sgn i * A i O * fdet n (fminor i A)) + b * (sgn i * B i O * fdet n (fminor i B)))%Q (S n)).
  2:{ rewrite qsum_add, !qsum_scale. reflexivity. }
  apply qsum_ext. intros i Hi. destruct (Nat.eq_dec i k) as [->|Ne].
  - rewrite (fdet_ext n (fminor k A) (fminor k C)), (fdet_ext n (fminor k B) (fminor k C)).
    + rewrite (Hrow O) by lia. ring.
    + intros r c Hr Hc. unfold fminor. apply Hrest; [apply skip_lt; exact Hr | lia | nat_cases].
    + intros r c Hr Hc. unfold fminor. apply Hrest; [apply skip_lt; exact Hr | lia | nat_cases].
  - set (k' := if k <? i then k else k - 1).
    assert (k' < n) as Hk' by (unfold k'; destruct (Nat.ltb_spec k i); lia).
    assert (skip i k' = k) as Ek by (unfold k'; destruct (Nat.ltb_spec k i); nat_cases).
    rewrite (IH (fminor i A) (fminor i B) (fminor i C) k' a b Hk').
    + destruct (Hrest i O Hi ltac:(lia) Ne) as [E1 E2]. rewrite E1, E2. ring.
    + intros r c Hr Hc Nr. unfold fminor. apply Hrest; [apply skip_lt; exact Hr | lia|].
      intros E. apply Nr. rewrite <- Ek in E. revert E. unfold k'. destruct (Nat.ltb_spec k i); nat_cases.
    + intros c Hc. unfold fminor. rewrite Ek. apply Hrow. lia.
Qed.

(* ---------- exchanging two neighbouring rows ---------- *)
Lemma qsum_sig_adj f k n : S k < n -> (qsum (fun i => f (sig k (S k) i)) n == qsum f n)%Q.
Proof.
  induction n as [|n IH]; intros H; [lia|]. cbn [qsum]. destruct (Nat.eq_dec (S k) n) as [E|N].
  - subst n. cbn [qsum].
    rewrite (qsum_ext (fun i => f (sig k (S k) i)) f k) by (intros t Ht; replace (sig k (S k) t) with t by nat_cases; reflexivity).
    replace (sig k (S k) k) with (S k) by nat_cases. replace (sig k (S k) (S k)) with k by nat_cases. ring.
  - rewrite IH by lia. replace (sig k (S k) n) with n by nat_cases. reflexivity.
Qed.

Lemma fdet_swap_adj n : forall A k, S k < n -> (fdet n (fun r c => A (sig k (S k) r) c) == - fdet n A)%Q.
Proof.
  induction n as [|n IH]; intros A k Hk; [lia|]. cbn [fdet].
  set (tA := fun i => (sgn i * A i O * fdet n (fminor i A))%Q).
  transitivity (qsum (fun i => - tA (sig k (S k) i))%Q (S n)).
  2:{ rewrite qsum_opp, (qsum_sig_adj tA k (S n) Hk). reflexivity. }
  apply qsum_ext. intros i Hi. unfold tA.
  destruct (Nat.eq_dec i k) as [->|N1]; [|destruct (Nat.eq_dec i (S k)) as [->|N2]].
  - replace (sig k (S k) k) with (S k) by nat_cases.
    rewrite (fdet_ext n (fminor k (fun r c => A (sig k (S k) r) c)) (fminor (S k) A)).
    + rewrite sgn_S. ring.
    + intros r c Hr Hc. unfold fminor. replace (sig k (S k) (skip k r)) with (skip (S k) r) by nat_cases. reflexivity.
  - replace (sig k (S k) (S k)) with k by nat_cases.
    rewrite (fdet_ext n (fminor (S k) (fun r c => A (sig k (S k) r) c)) (fminor k A)).
    + rewrite sgn_S. ring.
    + intros r c Hr Hc. unfold fminor. replace (sig k (S k) (skip (S k) r)) with (skip k r) by nat_cases. reflexivity.
  - replace (sig k (S k) i) with i by nat_cases.
    set (k' := if k <? i then k else k - 1).
    assert (S k' < n) as Hk' by (unfold k'; destruct (Nat.ltb_spec k i); lia).
    rewrite (fdet_ext n (fminor i (fun r c => A (sig k (S k) r) c)) (fun r c => fminor i A (sig k' (S k') r) c)).
    + rewrite (IH (fminor i A) k' Hk'). ring.
    + intros r c Hr Hc. unfold fminor.
      replace (sig k (S k) (skip i r)) with (skip i (sig k' (S k') r)); [reflexivity|].
      unfold k'. destruct (Nat.ltb_spec k i); nat_cases.
Qed.

(* ---------- two equal rows ---------- *)
Lemma fdet_adj_eq n A k : S k < n -> (forall c, c < n -> (A k c == A (S k) c)%Q) -> (fdet n A == 0)%Q.
Proof.
  intros Hk E. pose proof (fdet_swap_adj n A k Hk) as Sw.
  rewrite (fdet_ext n (fun r c => A (sig k (S k) r) c) A) in Sw; [lra|].
  intros r c Hr Hc. unfold sig. destruct (Nat.eqb_spec r (S k)) as [->|]; [now apply E|].
  destruct (Nat.eqb_spec r k) as [->|]; [symmetry; now apply E | reflexivity].
Qed.

Lemma fdet_eq_rows n : forall d A i, i + S d < n -> (forall c, c < n -> (A i c == A (i + S d)%nat c)%Q) -> (fdet n A == 0)%Q.
Proof.
  induction d as [|d IH]; intros A i Hd E.
  - apply (fdet_adj_eq n A i); [lia|]. intros c Hc. rewrite (E c Hc). replace (i + 1) with (S i) by lia. reflexivity.
  - pose proof (fdet_swap_adj n A (i + S d) ltac:(lia)) as Sw.
    assert (fdet n (fun r c => A (sig (i + S d) (S (i + S d)) r) c) == 0)%Q as Z.
    { apply (IH _ i); [lia|]. intros c Hc.
      replace (sig (i + S d) (S (i + S d)) i) with i by nat_cases.
      replace (sig (i + S d) (S (i + S d)) (i + S d)) with (i + S (S d)) by nat_cases. now apply E. }
    rewrite Z in Sw. lra.
Qed.

Lemma fdet_two_rows n A i j : i < n -> j < n -> i <> j -> (forall c, c < n -> (A i c == A j c)%Q) -> (fdet n A == 0)%Q.
Proof.
  intros Hi Hj N E. destruct (Nat.lt_ge_cases i j) as [L|G].
  - apply (fdet_eq_rows n (j - i - 1) A i); [lia|]. replace (i + S (j - i - 1)) with j by lia. exact E.
  - apply (fdet_eq_rows n (i - j - 1) A j); [lia|]. replace (j + S (i - j - 1)) with i by lia.
    intros c Hc. symmetry. now apply E.
Qed.

(* ---------- adding a multiple of row j to row i ---------- *)
Lemma fdet_row_add n A i j (x : Q) : i < n -> j < n -> i <> j ->
  (fdet n (fun r c => if r =? i then A i c + x * A j c else A r c)%Q == fdet n A)%Q.
Proof.
  intros Hi Hj N.
  rewrite (fdet_row_lin n A (fun r c => if r =? i then A j c else A r c) _ i 1 x Hi).
  - rewrite (fdet_two_rows n (fun r c => if r =? i then A j c else A r c) i j Hi Hj N); [ring|].
    intros c Hc. rewrite Nat.eqb_refl. destruct (Nat.eqb_spec j i); [lia | reflexivity].
  - intros r c Hr Hc Nr. destruct (Nat.eqb_spec r i); [lia|]. split; reflexivity.
  - intros c Hc. rewrite !Nat.eqb_refl. ring.
Qed.

(* multiplying row i by a factor *)
Lemma fdet_row_scale n A i (x : Q) : i < n ->
  (fdet n (fun r c => if r =? i then x * A i c else A r c)%Q == x * fdet n A)%Q.
Proof.
  intros Hi. rewrite (fdet_row_lin n A A _ i x 0 Hi).
  - ring.
  - intros r c Hr Hc Nr. destruct (Nat.eqb_spec r i); [lia|]. split; reflexivity.
  - intros c Hc. rewrite Nat.eqb_refl. ring.
Qed.

(* ---------- exchanging any two rows ---------- *)
Lemma fdet_swap_dist n : forall d A p, p + S d < n -> (fdet n (fun r c => A (sig p (p + S d)%nat r) c) == - fdet n A)%Q.
Proof.
  induction d as [|d IH]; intros A p Hd.
  - replace (p + 1) with (S p) by lia. apply fdet_swap_adj. lia.
  - set (j' := p + S d).
    set (A1 := fun r c => A (sig j' (S j') r) c).
    set (A2 := fun r c => A1 (sig p j' r) c).
    rewrite (fdet_ext n _ (fun r c => A2 (sig j' (S j') r) c)).
    + rewrite (fdet_swap_adj n A2 j') by (unfold j'; lia). unfold A2, j'.
      rewrite (IH A1 p) by lia. unfold A1. rewrite (fdet_swap_adj n A j') by (unfold j'; lia). ring.
    + intros r c Hr Hc. unfold A2, A1.
      replace (sig p (p + S (S d)) r) with (sig j' (S j') (sig p j' (sig j' (S j') r))); [reflexivity|].
      unfold j'. nat_cases.
Qed.

Theorem fdet_swap n A p j : p < n -> j < n -> p <> j -> (fdet n (fun r c => A (sig p j r) c) == - fdet n A)%Q.
Proof.
  intros Hp Hj N. destruct (Nat.lt_ge_cases p j) as [L|G].
  - replace j with (p + S (j - p - 1)) by lia. apply fdet_swap_dist. lia.
  - rewrite (fdet_ext n _ (fun r c => A (sig j (j + S (p - j - 1)) r) c)).
    + apply fdet_swap_dist. lia.
    + intros r c Hr Hc. replace (j + S (p - j - 1)) with p by lia.
      replace (sig p j r) with (sig j p r) by nat_cases. reflexivity.
Qed.

From ArrRs Require Import Index Index_proofs Lists_proofs Axis Axis_proofs Reshape_proofs Prog_proofs Split Reduce_proofs Join.

(* ---------- split sizes ---------- *)
Lemma sum_repeat x n : fold_right Nat.add 0 (repeat x n) = x * n.
Proof. induction n as [|n IH]; cbn; lia. Qed.

Lemma fold_right_add_app l1 l2 : fold_right Nat.add 0 (l1 ++ l2) = fold_right Nat.add 0 l1 + fold_right Nat.add 0 l2.
Proof. induction l1 as [|x t IH]; cbn; lia. Qed.

(* exactly `parts` blocks whose lengths add up to the axis length, equal for an exact split and otherwise
   differing by at most one, the larger ones first *)
Theorem section_sizes_spec n parts : 0 < parts ->
  length (section_sizes n parts) = parts /\
  fold_right Nat.add 0 (section_sizes n parts) = n /\
  section_sizes n parts = repeat (n / parts + 1) (n mod parts) ++ repeat (n / parts) (parts - n mod parts) /\
  (n mod parts = 0 -> section_sizes n parts = repeat (n / parts) parts).
Proof.
  intros P. unfold section_sizes. pose proof (Nat.mod_upper_bound n parts ltac:(lia)) as M.
  split; [rewrite app_length, !repeat_length; lia|]. split.
  - rewrite fold_right_add_app, !sum_repeat. pose proof (Nat.div_mod n parts ltac:(lia)). nia.
  - split; [reflexivity|]. intros ->. cbn. now rewrite Nat.sub_0_r.
Qed.

Section JoinProofs.
Context {T : Type} (dflt : T).

(* appending without an axis chains the flat element lists *)
Theorem append_flat (a v : arr T) :
  append dflt a v None = Ok (mk (elems a ++ elems v) [length (elems a ++ elems v)]).
Proof. unfold append. apply flat_arr_ok. Qed.

Lemma append_wf (a v : arr T) axis r : append dflt a v axis = Ok r -> wf r.
Proof.
  unfold append. destruct axis as [ax|]; [|apply new_wf]. intros H. inv_bind H.
  destruct (negb _); [discriminate|]. destruct (negb _); [discriminate|]. do 3 inv_bind H.
  destruct (_ =? 0); [discriminate|]. do 2 inv_bind H. now apply reshape_ok in H as (_ & _ & ?).
Qed.

Lemma fold_append_wf rest (first : arr T) axis r :
  wf first ->
  fold_left (fun (r : res (arr T)) b => let* a := r in unwrap (append dflt a b axis)) rest (Ok first) = Ok r -> wf r.
Proof.
  revert first; induction rest as [|b t IH]; intros first W H; cbn [fold_left] in H.
  - now injection H as <-.
  - cbn [bind] in H. destruct (append dflt first b axis) as [x|e| |] eqn:E; cbn [unwrap] in H.
    + apply (IH x); auto. now apply append_wf in E.
    + exfalso. clear -H. induction t as [|c t IH]; cbn in H; [discriminate | auto].
    + exfalso. clear -H. induction t as [|c t IH]; cbn in H; [discriminate | auto].
    + exfalso. clear -H. induction t as [|c t IH]; cbn in H; [discriminate | auto].
Qed.

Lemma concatenate_wf (arrs : list (arr T)) axis r : Forall wf arrs -> concatenate dflt arrs axis = Ok r -> wf r.
Proof.
  unfold concatenate. destruct arrs as [|first rest]; [intros _; apply new_wf|].
  intros F H. inv_bind H. inversion F; subst. eapply fold_append_wf; eauto.
Qed.

(* concatenation along an axis first validates the inputs against that axis *)
Lemma concatenate_validates (arrs : list (arr T)) ax c :
  arrs <> [] -> concatenate dflt arrs (Some ax) = Ok c -> validate_stack_shapes arrs ax ax = Ok tt.
Proof.
  unfold concatenate. destruct arrs as [|first rest]; [congruence|]. intros _ H. inv_bind H. now destruct x.
Qed.

(* whenever the repository's hstack returns an array, it is the array the specified hstack returns … *)
Theorem hstack_pinned_sound (arrs : list (arr T)) r : hstack_pinned dflt arrs = Ok r -> hstack_spec dflt arrs = Ok r.
Proof.
  unfold hstack_pinned, hstack_spec, hstack_gen. destruct arrs as [|a0 rest]; [auto|].
  destruct (forallb _ _); [auto|]. intros H. inv_bind H. rewrite E. cbn [bind]. inv_bind H.
  destruct x as [|first more]; [discriminate|]. inv_bind H.
  rewrite (concatenate_validates (first :: more) 1 x ltac:(discriminate) E1). cbn [bind]. rewrite E1. exact H.
Qed.

End JoinProofs.

(* … but it refuses inputs that differ only in the length of the joined axis (the open finding F11) *)
Theorem hstack_pinned_refuted :
  exists arrs : list (arr Z), hstack_pinned 0%Z arrs = Err EConcat /\
    hstack_spec 0%Z arrs = Ok (mk [0;1;5;2;3;6]%Z [2;3]).
Proof. exists [mk [0;1;2;3]%Z [2;2]; mk [5;6]%Z [2;1]]. split; vm_compute; reflexivity. Qed.

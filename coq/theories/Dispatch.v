(* Dispatch.v — the executable interface of the model used by the correspondence check:
   a case is an operation name and a list of generic arguments; the answer is a generic
   output value.  The OCaml driver (eval/driver.ml) only parses / prints these types. *)
From Coq Require Import String.
From ArrRs Require Import Base Arr Index Axis Broadcast.
Open Scope string_scope.

Inductive arg :=
| AZ (z : Z)                                  (* integer scalar *)
| AN                                          (* None *)
| AL (l : list Z)                             (* list of integers *)
| AA (sh : list Z) (es : list Z)              (* array of integer labels *)
| AAs (l : list (list Z * list Z))            (* list of arrays *)
| AS (s : list Z)                             (* string, as byte codes *)
| ASA (sh : list Z) (es : list (list Z)).     (* array of strings *)

Inductive out :=
| OArr (sh : list nat) (es : list Z)
| OSArr (sh : list nat) (es : list (list Z))
| OZ (z : Z)
| OL (l : list Z)
| OS (s : list Z)
| OErr (e : err)
| OPanic
| OFuel
| OPArr (sh : list nat) (es : list (Z * Z))
| OList (l : list out)
| OBad.                                        (* malformed case line / unknown op *)

Definition nats (l : list Z) : list nat := map Z.to_nat l.
Definition zs (l : list nat) : list Z := map Z.of_nat l.
Definition mka (sh es : list Z) : arr Z := mk es (nats sh).

Definition out_res {A} (f : A -> out) (r : res A) : out :=
  match r with Ok a => f a | Err e => OErr e | Panic => OPanic | Fuel => OFuel end.
Definition oarr (a : arr Z) : out := OArr (shape a) (elems a).
Definition onat (n : nat) : out := OZ (Z.of_nat n).
Definition onats (l : list nat) : out := OL (zs l).

Definition table_index : list (string * (list arg -> out)) :=
  [ ("index_at", fun args => match args with
       | [AL sh; AL c] => out_res onat (index_at (nats sh) (nats c)) | _ => OBad end)
  ; ("index_to_coord", fun args => match args with
       | [AL sh; AZ i] => out_res onats (index_to_coord (prod (nats sh)) (nats sh) (Z.to_nat i)) | _ => OBad end)
  ; ("at", fun args => match args with
       | [AA sh es; AL c] => out_res OZ (at_ (mka sh es) (nats c)) | _ => OBad end)
  ; ("index_coords", fun args => match args with
       | [AA sh es; AL c] => out_res OZ (index_coords (mka sh es) (nats c)) | _ => OBad end)
  ; ("index_usize", fun args => match args with
       | [AA sh es; AZ i] => out_res OZ (index_usize (mka sh es) (Z.to_nat i)) | _ => OBad end)
  ].

Definition optl (a : arg) : option (option (list Z)) :=
  match a with AN => Some None | AL l => Some (Some l) | _ => None end.
Definition optz (a : arg) : option (option Z) :=
  match a with AN => Some None | AZ z => Some (Some z) | _ => None end.
Definition optn (a : arg) : option (option nat) :=
  match a with AN => Some None | AZ z => Some (Some (Z.to_nat z)) | _ => None end.
Definition orarr (r : res (arr Z)) : out := out_res oarr r.

Definition table_axis : list (string * (list arg -> out)) :=
  [ ("new", fun args => match args with
       | [AL es; AL sh] => orarr (new es (nats sh)) | _ => OBad end)
  ; ("create", fun args => match args with
       | [AL es; AL sh; nd] => match optn nd with Some nd => orarr (create es (nats sh) nd) | None => OBad end
       | _ => OBad end)
  ; ("single", fun args => match args with [AZ x] => orarr (single x) | _ => OBad end)
  ; ("flat", fun args => match args with [AL es] => orarr (flat_arr es) | _ => OBad end)
  ; ("empty", fun args => match args with [] => orarr empty | _ => OBad end)
  ; ("transpose", fun args => match args with
       | [AA sh es; ax] => match optl ax with Some ax => orarr (transpose 0%Z (mka sh es) ax) | None => OBad end
       | _ => OBad end)
  ; ("moveaxis", fun args => match args with
       | [AA sh es; AL s; AL d] => orarr (moveaxis 0%Z (mka sh es) s d) | _ => OBad end)
  ; ("rollaxis", fun args => match args with
       | [AA sh es; AZ ax; st] => match optz st with Some st => orarr (rollaxis 0%Z (mka sh es) ax st) | None => OBad end
       | _ => OBad end)
  ; ("swapaxes", fun args => match args with
       | [AA sh es; AZ x; AZ y] => orarr (swapaxes 0%Z (mka sh es) x y) | _ => OBad end)
  ; ("expand_dims", fun args => match args with
       | [AA sh es; AL ax] => orarr (expand_dims (mka sh es) ax) | _ => OBad end)
  ; ("squeeze", fun args => match args with
       | [AA sh es; ax] => match optl ax with Some ax => orarr (squeeze (mka sh es) ax) | None => OBad end
       | _ => OBad end)
  ; ("reshape", fun args => match args with
       | [AA sh es; AL s] => orarr (reshape (mka sh es) (nats s)) | _ => OBad end)
  ; ("ravel", fun args => match args with [AA sh es] => orarr (ravel (mka sh es)) | _ => OBad end)
  ; ("atleast", fun args => match args with
       | [AA sh es; AZ n] => orarr (atleast (mka sh es) (Z.to_nat n)) | _ => OBad end)
  ; ("resize", fun args => match args with
       | [AA sh es; AL s] => orarr (resize 0%Z (mka sh es) (nats s)) | _ => OBad end)
  ; ("cycle_take", fun args => match args with
       | [AA sh es; AZ n] => orarr (cycle_take 0%Z (mka sh es) (Z.to_nat n)) | _ => OBad end)
  ].

Definition oparr (a : arr (Z * Z)) : out := OPArr (shape a) (elems a).
Definition oarrs (l : list (arr Z)) : out := OList (map oarr l).
Definition mkas (l : list (list Z * list Z)) : list (arr Z) := map (fun p => mka (fst p) (snd p)) l.

Definition table_broadcast : list (string * (list arg -> out)) :=
  [ ("broadcast", fun args => match args with
       | [AA s1 e1; AA s2 e2] => out_res oparr (broadcast 0%Z 0%Z (mka s1 e1) (mka s2 e2)) | _ => OBad end)
  ; ("zip", fun args => match args with
       | [AA s1 e1; AA s2 e2] => out_res oparr (zip 0%Z (mka s1 e1) (mka s2 e2)) | _ => OBad end)
  ; ("broadcast_to", fun args => match args with
       | [AA s1 e1; AL sh] => orarr (broadcast_to 0%Z (mka s1 e1) (nats sh)) | _ => OBad end)
  ; ("broadcast_arrays", fun args => match args with
       | [AAs l] => out_res oarrs (broadcast_arrays 0%Z (mkas l)) | _ => OBad end)
  ].

Definition table : list (string * (list arg -> out)) := table_index ++ table_axis ++ table_broadcast.

Fixpoint lookup (name : string) (t : list (string * (list arg -> out))) : option (list arg -> out) :=
  match t with
  | [] => None
  | (n, f) :: t' => if String.eqb n name then Some f else lookup name t'
  end.

Definition dispatch (name : string) (args : list arg) : out :=
  match lookup name table with Some f => f args | None => OBad end.

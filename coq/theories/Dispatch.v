(* Dispatch.v — the executable interface of the model used by the correspondence check:
   a case is an operation name and a list of generic arguments; the answer is a generic
   output value.  The OCaml driver (eval/driver.ml) only parses / prints these types. *)
From Coq Require Import String.
From ArrRs Require Import Base Arr Index Axis Broadcast Lift Split Reduce Sort Join Reorder Edit Bits Linalg Create Str Text Linsolve Dyadic.
From Coq Require QArith.
Open Scope string_scope.
Open Scope list_scope.

Inductive arg :=
| AZ (z : Z)                                  (* integer scalar *)
| AN                                          (* None *)
| AL (l : list Z)                             (* list of integers *)
| AA (sh : list Z) (es : list Z)              (* array of integer labels *)
| AAs (l : list (list Z * list Z))            (* list of arrays *)
| AS (s : list Z)                             (* string, as byte codes *)
| ASA (sh : list Z) (es : list (list Z)).     (* array of strings *)

Inductive out :=
| OArr (sh : list nat) (es : list Z)
| OSArr (sh : list nat) (es : list (list Z))
| OZ (z : Z)
| OL (l : list Z)
| OS (s : list Z)
| OErr (e : err)
| OPanic
| OFuel
| OPArr (sh : list nat) (es : list (Z * Z))
| OLArr (sh : list nat) (es : list (list (list Z)))
| OList (l : list out)
| OBad.                                        (* malformed case line / unknown op *)

(* numbers far beyond any array of the check (2^31, 2^62, ...) are clamped so that Peano nat stays small; every
   comparison the model performs with them (>= rank, >= length) has the same outcome *)
Definition clamp (z : Z) : nat := Z.to_nat (Z.min z 100000).
Definition nats (l : list Z) : list nat := map clamp l.
Definition zs (l : list nat) : list Z := map Z.of_nat l.
Definition mka (sh es : list Z) : arr Z := mk es (nats sh).

Definition out_res {A} (f : A -> out) (r : res A) : out :=
  match r with Ok a => f a | Err e => OErr e | Panic => OPanic | Fuel => OFuel end.
Definition oarr (a : arr Z) : out := OArr (shape a) (elems a).
Definition onat (n : nat) : out := OZ (Z.of_nat n).
Definition onats (l : list nat) : out := OL (zs l).

Definition table_index : list (string * (list arg -> out)) :=
  [ ("index_at", fun args => match args with
       | [AL sh; AL c] => out_res onat (index_at (nats sh) (nats c)) | _ => OBad end)
  ; ("index_to_coord", fun args => match args with
       | [AL sh; AZ i] => out_res onats (index_to_coord (prod (nats sh)) (nats sh) (clamp i)) | _ => OBad end)
  ; ("at", fun args => match args with
       | [AA sh es; AL c] => out_res OZ (at_ (mka sh es) (nats c)) | _ => OBad end)
  ; ("index_coords", fun args => match args with
       | [AA sh es; AL c] => out_res OZ (index_coords (mka sh es) (nats c)) | _ => OBad end)
  ; ("index_usize", fun args => match args with
       | [AA sh es; AZ i] => out_res OZ (index_usize (mka sh es) (clamp i)) | _ => OBad end)
  ].

Definition optl (a : arg) : option (option (list Z)) :=
  match a with AN => Some None | AL l => Some (Some l) | _ => None end.
Definition optz (a : arg) : option (option Z) :=
  match a with AN => Some None | AZ z => Some (Some z) | _ => None end.
Definition optn (a : arg) : option (option nat) :=
  match a with AN => Some None | AZ z => Some (Some (clamp z)) | _ => None end.
Definition orarr (r : res (arr Z)) : out := out_res oarr r.

Definition table_axis : list (string * (list arg -> out)) :=
  [ ("new", fun args => match args with
       | [AL es; AL sh] => orarr (new es (nats sh)) | _ => OBad end)
  ; ("create", fun args => match args with
       | [AL es; AL sh; nd] => match optn nd with Some nd => orarr (create es (nats sh) nd) | None => OBad end
       | _ => OBad end)
  ; ("single", fun args => match args with [AZ x] => orarr (single x) | _ => OBad end)
  ; ("flat", fun args => match args with [AL es] => orarr (flat_arr es) | _ => OBad end)
  ; ("empty", fun args => match args with [] => orarr empty | _ => OBad end)
  (* FromIterator from a filtering iterator: the flat array of the surviving labels (kinds: filter, take_while,
     skip_while, filter over an array's own iterator); a label survives when it is not a multiple of m *)
  ; ("collect_filter", fun args => match args with
       | [AL es; AZ m; AZ kind] =>
         let keep := fun x : Z => negb ((x mod m) =? 0)%Z in
         let fix tw (l : list Z) := match l with x :: t => if keep x then x :: tw t else [] | [] => [] end in
         let fix dw (l : list Z) := match l with x :: t => if keep x then dw t else l | [] => [] end in
         orarr (flat_arr (if (kind =? 1)%Z then tw es else if (kind =? 2)%Z then dw es else filter keep es))
       | _ => OBad end)
  ; ("transpose", fun args => match args with
       | [AA sh es; ax] => match optl ax with Some ax => orarr (transpose 0%Z (mka sh es) ax) | None => OBad end
       | _ => OBad end)
  ; ("moveaxis", fun args => match args with
       | [AA sh es; AL s; AL d] => orarr (moveaxis 0%Z (mka sh es) s d) | _ => OBad end)
  ; ("rollaxis", fun args => match args with
       | [AA sh es; AZ ax; st] => match optz st with Some st => orarr (rollaxis 0%Z (mka sh es) ax st) | None => OBad end
       | _ => OBad end)
  ; ("swapaxes", fun args => match args with
       | [AA sh es; AZ x; AZ y] => orarr (swapaxes 0%Z (mka sh es) x y) | _ => OBad end)
  ; ("expand_dims", fun args => match args with
       | [AA sh es; AL ax] => orarr (expand_dims (mka sh es) ax) | _ => OBad end)
  ; ("squeeze", fun args => match args with
       | [AA sh es; ax] => match optl ax with Some ax => orarr (squeeze (mka sh es) ax) | None => OBad end
       | _ => OBad end)
  ; ("reshape", fun args => match args with
       | [AA sh es; AL s] => orarr (reshape (mka sh es) (nats s)) | _ => OBad end)
  ; ("ravel", fun args => match args with [AA sh es] => orarr (ravel (mka sh es)) | _ => OBad end)
  ; ("atleast", fun args => match args with
       | [AA sh es; AZ n] => orarr (atleast (mka sh es) (clamp n)) | _ => OBad end)
  ; ("resize", fun args => match args with
       | [AA sh es; AL s] => orarr (resize 0%Z (mka sh es) (nats s)) | _ => OBad end)
  ; ("cycle_take", fun args => match args with
       | [AA sh es; AZ n] => orarr (cycle_take 0%Z (mka sh es) (clamp n)) | _ => OBad end)
  ].

Definition oparr (a : arr (Z * Z)) : out := OPArr (shape a) (elems a).
Definition oarrs (l : list (arr Z)) : out := OList (map oarr l).
Definition mkas (l : list (list Z * list Z)) : list (arr Z) := map (fun p => mka (fst p) (snd p)) l.

Definition table_broadcast : list (string * (list arg -> out)) :=
  [ ("broadcast", fun args => match args with
       | [AA s1 e1; AA s2 e2] => out_res oparr (broadcast 0%Z 0%Z (mka s1 e1) (mka s2 e2)) | _ => OBad end)
  ; ("zip", fun args => match args with
       | [AA s1 e1; AA s2 e2] => out_res oparr (zip 0%Z (mka s1 e1) (mka s2 e2)) | _ => OBad end)
  ; ("broadcast_to", fun args => match args with
       | [AA s1 e1; AL sh] => orarr (broadcast_to 0%Z (mka s1 e1) (nats sh)) | _ => OBad end)
  ; ("broadcast_arrays", fun args => match args with
       | [AAs l] => out_res oarrs (broadcast_arrays 0%Z (mkas l)) | _ => OBad end)
  ].

(* ---- C04: two-operand elementwise operations ---- *)
Definition zin (l : list Z) (x : Z) : bool := existsb (Z.eqb x) l.

(* placement only: the scalar function is pairing; pattern 0 = both operands stretched, 1 = argument
   stretched to the receiver; zero_labels non-empty = the division family's zero-divisor guard *)
Definition ew2 (pattern : Z) (a b : arr Z) (zero_labels : list Z) : out :=
  if existsb (zin zero_labels) (elems b) then OErr EParam
  else if (pattern =? 0)%Z then out_res oparr (lift2 0%Z (fun x y => (x, y)) a b)
  else if (pattern =? 2)%Z then      (* the heterogeneous pair broadcast (round / around: values against decimal places) *)
    out_res (fun pr : arr Z * arr Z => OPArr (shape (fst pr)) (combine (elems (fst pr)) (elems (snd pr)))) (broadcast_h2 0%Z 0%Z a b)
  else out_res oparr (zipop 0%Z (fun x y => (x, y)) a b).

Definition zlift (f : Z -> Z -> Z) (args : list arg) : out :=
  match args with [AA s1 e1; AA s2 e2] => orarr (lift2 0%Z f (mka s1 e1) (mka s2 e2)) | _ => OBad end.
Definition zlift_guard (f : Z -> Z -> Z) (args : list arg) : out :=
  match args with [AA s1 e1; AA s2 e2] => orarr (guarded_lift2 0%Z (Z.eqb 0) f (mka s1 e1) (mka s2 e2)) | _ => OBad end.
Definition zzip (f : Z -> Z -> Z) (args : list arg) : out :=
  match args with [AA s1 e1; AA s2 e2] => orarr (zipop 0%Z f (mka s1 e1) (mka s2 e2)) | _ => OBad end.

Definition z_heaviside (x y : Z) : Z := if (x <? 0)%Z then 0%Z else if (x =? 0)%Z then y else 1%Z.
Definition z_copysign (x y : Z) : Z := if (y <? 0)%Z then (- Z.abs x)%Z else Z.abs x.
Definition z_lcm (x y : Z) : Z := let g := Z.gcd x y in if (g =? 0)%Z then 0%Z else (Z.abs x * Z.abs y / g)%Z.

Definition table_ew2 : list (string * (list arg -> out)) :=
  [ ("ew2", fun args => match args with
       | [AS _; AA s1 e1; AA s2 e2; AZ pat; AL zl] => ew2 pat (mka s1 e1) (mka s2 e2) zl | _ => OBad end)
  ; ("add", zlift Z.add); ("subtract", zlift Z.sub); ("multiply", zlift Z.mul)
  ; ("divide", zlift_guard Z.quot); ("true_divide", zlift_guard Z.quot); ("floor_divide", zlift_guard Z.quot)
  ; ("power", zlift Z.pow)
  ; ("remainder", zlift_guard Z.rem); ("mod", zlift_guard Z.rem); ("fmod", zlift_guard Z.modulo)
  ; ("bitwise_and", zlift Z.land); ("bitwise_or", zlift Z.lor); ("bitwise_xor", zlift Z.lxor)
  ; ("left_shift", zlift Z.shiftl); ("right_shift", zlift Z.shiftr)
  ; ("maximum", zzip Z.max); ("minimum", zzip Z.min); ("fmax", zzip Z.max); ("fmin", zzip Z.min)
  ; ("gcd", zzip Z.gcd); ("lcm", zzip z_lcm)
  ; ("heaviside", zzip z_heaviside); ("copysign", zzip z_copysign)
  ].

(* ---- C05: one-operand functions and closure iteration ---- *)
Definition zmap (f : Z -> Z) (args : list arg) : out :=
  match args with [AA s e] => orarr (map_arr f (mka s e)) | _ => OBad end.

(* the harness' stateful closures, transcribed: state = (number of calls so far, log) *)
Definition cl_map (e : bool) (s : Z * list Z) (i : nat) (x : Z) : (Z * list Z) * Z :=
  let '(c, log) := s in
  ((c + 1, log ++ (if e then [Z.of_nat i; x] else [x]))%Z, (x * 3 + c + (if e then 7 * Z.of_nat i else 0))%Z).
Definition cl_filter (e : bool) (s : Z * list Z) (i : nat) (x : Z) : (Z * list Z) * bool :=
  let '(c, log) := s in
  ((c + 1, log ++ (if e then [Z.of_nat i; x] else [x]))%Z, Z.even (x + c + (if e then Z.of_nat i else 0))).
Definition cl_filter_map (e : bool) (s : Z * list Z) (i : nat) (x : Z) : (Z * list Z) * option Z :=
  let '(c, log) := s in
  let v := (x + c + (if e then 5 * Z.of_nat i else 0))%Z in
  ((c + 1, log ++ (if e then [Z.of_nat i; x] else [x]))%Z, if (v mod 3 =? 0)%Z then None else Some (2 * v)%Z).
Definition cl_for_each (e : bool) (s : Z * list Z) (i : nat) (x : Z) : Z * list Z :=
  let '(c, log) := s in ((c + 1)%Z, log ++ (if e then [Z.of_nat i; x; c] else [x; c])).

Definition with_log {A} (f : A -> out) (r : (Z * list Z) * res A) : out :=
  OList [out_res f (snd r); OZ (fst (fst r)); OL (snd (fst r))].

Definition table_ew1 : list (string * (list arg -> out)) :=
  [ ("ew1", fun args => match args with [AS _; AA s e] => orarr (map_arr (fun x => x) (mka s e)) | _ => OBad end)
  ; ("negative", zmap Z.opp); ("positive", zmap (fun x => x)); ("absolute", zmap Z.abs); ("abs", zmap Z.abs)
  ; ("fabs", zmap Z.abs); ("square", zmap (fun x => x * x)%Z)
  ; ("floor", zmap (fun x => x)); ("ceil", zmap (fun x => x)); ("trunc", zmap (fun x => x)); ("fix", zmap (fun x => x))
  ; ("sign", zmap (fun x => if (x <? 0)%Z then (-1)%Z else 1%Z))
  ; ("map_log", fun args => match args with
       | [AA s e] => with_log oarr (map_e (cl_map false) (0%Z, []) (mka s e)) | _ => OBad end)
  ; ("map_e_log", fun args => match args with
       | [AA s e] => with_log oarr (map_e (cl_map true) (0%Z, []) (mka s e)) | _ => OBad end)
  ; ("filter_log", fun args => match args with
       | [AA s e] => with_log oarr (filter_e (cl_filter false) (0%Z, []) (mka s e)) | _ => OBad end)
  ; ("filter_e_log", fun args => match args with
       | [AA s e] => with_log oarr (filter_e (cl_filter true) (0%Z, []) (mka s e)) | _ => OBad end)
  ; ("filter_map_log", fun args => match args with
       | [AA s e] => with_log oarr (filter_map_e (cl_filter_map false) (0%Z, []) (mka s e)) | _ => OBad end)
  ; ("filter_map_e_log", fun args => match args with
       | [AA s e] => with_log oarr (filter_map_e (cl_filter_map true) (0%Z, []) (mka s e)) | _ => OBad end)
  ; ("for_each_log", fun args => match args with
       | [AA s e] => let st := for_each_e (cl_for_each false) (0%Z, []) (mka s e) in OList [OZ (fst st); OL (snd st)]
       | _ => OBad end)
  ; ("for_each_e_log", fun args => match args with
       | [AA s e] => let st := for_each_e (cl_for_each true) (0%Z, []) (mka s e) in OList [OZ (fst st); OL (snd st)]
       | _ => OBad end)
  ; ("fold_acc", fun args => match args with
       | [AA s e; AZ init] => OZ (fold_arr (fun acc x => (acc * 3 + x)%Z) init (mka s e)) | _ => OBad end)
  ; ("into_iter", fun args => match args with [AA s e] => OL (elems (mka s e)) | _ => OBad end)
  ].

(* ---- C20: operator overloads ---- *)
Definition zop (name : Z) : option (Z -> Z -> Z) :=
  match name with
  | 0 => Some Z.add | 1 => Some Z.sub | 2 => Some Z.mul | 3 => Some Z.quot | 4 => Some Z.rem
  | 5 => Some Z.land | 6 => Some Z.lor | 7 => Some Z.lxor
  | _ => None
  end%Z.
Definition zop_is_div (name : Z) : bool := ((name =? 3) || (name =? 4))%Z.
Definition zcmp (x y : Z) : option comparison := Some (x ?= y)%Z.
Definition ocmp (c : option comparison) : out :=
  match c with Some Lt => OZ (-1) | Some Eq => OZ 0 | Some Gt => OZ 1 | None => OZ 2 end.
Definition obool (b : bool) : out := OZ (if b then 1 else 0)%Z.

Definition table_ops : list (string * (list arg -> out)) :=
  [ (* array (op) array: a native division by zero panics *)
    ("op2", fun args => match args with
       | [AZ o; AA s1 e1; AA s2 e2] =>
         if (100 <=? o)%Z then (if nat_list_eqb (nats s1) (nats s2) then OPArr (nats s1) (combine e1 e2) else OPanic) else
         match zop o with
         | Some f => if nat_list_eqb (nats s1) (nats s2) && zop_is_div o && existsb (Z.eqb 0) e2 then OPanic
                     else orarr (if (o <? 5)%Z then binop f (mka s1 e1) (mka s2 e2) else bitop f (mka s1 e1) (mka s2 e2))
         | None => OBad end
       | _ => OBad end)
  ; ("op2a", fun args => match args with
       | [AZ o; AA s1 e1; AA s2 e2] =>
         if (100 <=? o)%Z then (if nat_list_eqb (nats s1) (nats s2) then OPArr (nats s1) (combine e1 e2) else OPanic) else
         match zop o with
         | Some f => if nat_list_eqb (nats s1) (nats s2) && zop_is_div o && existsb (Z.eqb 0) e2 then OPanic
                     else orarr (binop_assign f (mka s1 e1) (mka s2 e2))
         | None => OBad end
       | _ => OBad end)
  ; ("op2s", fun args => match args with
       | [AZ o; AA s1 e1; AZ x] =>
         if (100 <=? o)%Z then oarr (mka s1 e1) else
         match zop o with
         | Some f => if zop_is_div o && (x =? 0)%Z && negb (Nat.eqb (List.length e1) 0) then OPanic
                     else if (o <? 5)%Z then orarr (binop_scalar f (mka s1 e1) x) else oarr (bitop_scalar f (mka s1 e1) x)
         | None => OBad end
       | _ => OBad end)
  ; ("op2as", fun args => match args with
       | [AZ o; AA s1 e1; AZ x] =>
         if (100 <=? o)%Z then oarr (mka s1 e1) else
         match zop o with
         | Some f => if zop_is_div o && (x =? 0)%Z && negb (Nat.eqb (List.length e1) 0) then OPanic
                     else oarr (binop_assign_scalar f (mka s1 e1) x)
         | None => OBad end
       | _ => OBad end)
  ; ("neg", fun args => match args with [AA s e] => orarr (unop Z.opp (mka s e)) | _ => OBad end)
  ; ("negp", fun args => match args with [AA s e] => oarr (mka s e) | _ => OBad end)
  ; ("not", fun args => match args with
       | [AA s e] => orarr (unop (fun x => if (x =? 0)%Z then 1%Z else 0%Z) (mka s e)) | _ => OBad end)
  ; ("eq", fun args => match args with
       | [AA s1 e1; AA s2 e2] => out_res obool (arr_eq Z.eqb (mka s1 e1) (mka s2 e2)) | _ => OBad end)
  ; ("cmp", fun args => match args with
       | [AA s1 e1; AA s2 e2] => out_res ocmp (arr_cmp zcmp (mka s1 e1) (mka s2 e2)) | _ => OBad end)
  (* the four ordering operators, each on its own (2 = the operator panicked: differently shaped operands are
     rejected by every one of them) *)
  ; ("cmpops", fun args => match args with
       | [AA s1 e1; AA s2 e2] =>
         match arr_cmp zcmp (mka s1 e1) (mka s2 e2) with
         | Ok c => let b (x : bool) := if x then 1%Z else 0%Z in
                   OL [ b (match c with Some Lt => true | _ => false end);
                        b (match c with Some Lt | Some Eq => true | _ => false end);
                        b (match c with Some Gt => true | _ => false end);
                        b (match c with Some Gt | Some Eq => true | _ => false end) ]
         | _ => OL [2; 2; 2; 2]%Z
         end
       | _ => OBad end)
  ; ("pairs", fun args => match args with
       | [AA s1 e1; AA s2 e2] =>
         if nat_list_eqb (nats s1) (nats s2) then OPArr (nats s1) (combine e1 e2) else OPanic
       | _ => OBad end)
  ].

(* ---- C08: axis-wise reductions and scans ---- *)
Definition zred (g1 : list Z -> res Z) (args : list arg) : out :=
  match args with
  | [AA s e; ax] => match optz ax with Some ax => orarr (reduce 0%Z g1 (mka s e) ax) | None => OBad end
  | _ => OBad end.
Definition zscan (g : list Z -> list Z) (args : list arg) : out :=
  match args with
  | [AA s e; ax] => match optz ax with Some ax => orarr (scan 0%Z g (mka s e) ax) | None => OBad end
  | _ => OBad end.
Definition onarr (a : arr nat) : out := OArr (shape a) (zs (elems a)).
Definition zidx (g1 : list Z -> res nat) (args : list arg) : out :=
  match args with
  | [AA s e; ax; AZ kd] =>
    match optz ax with Some ax => out_res onarr (index_reduce 0%Z 0 g1 (mka s e) ax (kd =? 1)%Z) | None => OBad end
  | _ => OBad end.
Definition z_argmax1 (l : list Z) : res nat := arg_extreme1 Z.ltb Z.eqb 0%Z true l.
Definition z_argmin1 (l : list Z) : res nat := arg_extreme1 Z.ltb Z.eqb 0%Z false l.
(* lanes as numbers: the flat input positions of a lane in base 1000 (most significant = first position) *)
Definition encode_lane (l : list Z) : Z := fold_left (fun acc x => acc * 1000 + x + 1)%Z l 0%Z.
Definition iota_like (s e : list Z) : arr Z := mk (zs (seq 0 (List.length e))) (nats s).

Definition table_reduce : list (string * (list arg -> out)) :=
  [ ("sum", zred (fun l => Ok (z_sum1 l))); ("nansum", zred (fun l => Ok (z_sum1 l)))
  ; ("prod", zred (fun l => Ok (z_prod1 l))); ("nanprod", zred (fun l => Ok (z_prod1 l)))
  ; ("max", zred z_max1); ("amax", zred z_max1); ("min", zred z_min1); ("amin", zred z_min1)
  (* nanmax / nanmin of an empty integer array: "all elements are NaN" holds vacuously and NaN casts to 0 *)
  ; ("nanmax", zred (fun l => match l with [] => Ok 0%Z | _ => z_max1 l end))
  ; ("nanmin", zred (fun l => match l with [] => Ok 0%Z | _ => z_min1 l end))
  ; ("cumsum", zscan z_cumsum1); ("nancumsum", zscan z_cumsum1)
  ; ("cumprod", zscan z_cumprod1); ("nancumprod", zscan z_cumprod1)
  ; ("count_nonzero", zidx z_count_nonzero1); ("argmax", zidx z_argmax1); ("argmin", zidx z_argmin1)
  ; ("lanered", fun args => match args with
       | [AS _; AA s e; ax] => match optz ax with
           | Some ax => orarr (reduce 0%Z (fun l => Ok (encode_lane l)) (iota_like s e) ax) | None => OBad end
       | _ => OBad end)
  ; ("laneidx", fun args => match args with
       | [AS _; AA s e; ax; AZ kd] => match optz ax with
           | Some ax => orarr (index_reduce 0%Z 0%Z (fun l => Ok (encode_lane l)) (iota_like s e) ax (kd =? 1)%Z)
           | None => OBad end
       | _ => OBad end)
  ; ("lanescan", fun args => match args with
       | [AS _; AA s e; ax] => match optz ax with
           | Some ax => orarr (scan 0%Z (fun l => map (fun k => (encode_lane l * 1000 + Z.of_nat k)%Z) (seq 0 (List.length l)))
                                    (iota_like s e) ax)
           | None => OBad end
       | _ => OBad end)
  ; ("lane1", fun _ => OZ 0%Z)
  ; ("array_split", fun args => match args with
       | [AA s e; AZ parts; ax] => match optn ax with
           | Some ax => out_res oarrs (array_split 0%Z (mka s e) (clamp parts) ax) | None => OBad end
       | _ => OBad end)
  ; ("split", fun args => match args with
       | [AA s e; AZ parts; ax] => match optn ax with
           | Some ax => out_res oarrs (split_even 0%Z (mka s e) (clamp parts) ax) | None => OBad end
       | _ => OBad end)
  ; ("split_axis", fun args => match args with
       | [AA s e; AZ ax] => out_res oarrs (split_axis 0%Z (mka s e) (clamp ax)) | _ => OBad end)
  ; ("hsplit", fun args => match args with
       | [AA s e; AZ parts] => out_res oarrs (hsplit 0%Z (mka s e) (clamp parts)) | _ => OBad end)
  ; ("vsplit", fun args => match args with
       | [AA s e; AZ parts] => out_res oarrs (vsplit 0%Z (mka s e) (clamp parts)) | _ => OBad end)
  ; ("dsplit", fun args => match args with
       | [AA s e; AZ parts] => out_res oarrs (dsplit 0%Z (mka s e) (clamp parts)) | _ => OBad end)
  ].

(* ---- C10: sorting ---- *)
Definition kind_of (a : arg) : option (res sort_kind) :=
  match a with
  | AN => Some (Ok Quicksort)
  | AZ 0 => Some (Ok Quicksort) | AZ 1 => Some (Ok Mergesort) | AZ 2 => Some (Ok Heapsort) | AZ 3 => Some (Ok Stable)
  | AS s => Some (parse_kind s)
  | _ => None
  end.

Definition table_sort : list (string * (list arg -> out)) :=
  [ ("sort", fun args => match args with
       | [AA s e; ax; k] => match optz ax, kind_of k with
           | Some ax, Some k => orarr (sort_arr Z.ltb 0%Z (mka s e) ax k) | _, _ => OBad end
       | _ => OBad end)
  ; ("argsort", fun args => match args with
       | [AA s e; ax; k] => match optz ax, kind_of k with
           | Some ax, Some k => out_res onarr (argsort_arr Z.ltb Z.eqb 0%Z (mka s e) ax k) | _, _ => OBad end
       | _ => OBad end)
  ; ("unique", fun args => match args with
       | [AA s e; ax] => match optz ax with
           | Some ax => orarr (unique_arr Z.ltb Z.eqb 0%Z (mka s e) ax) | None => OBad end
       | _ => OBad end)
  ].

(* ---- C11: joining ---- *)
Definition table_join : list (string * (list arg -> out)) :=
  [ ("append", fun args => match args with
       | [AA s1 e1; AA s2 e2; ax] => match optn ax with
           | Some ax => orarr (append 0%Z (mka s1 e1) (mka s2 e2) ax) | None => OBad end
       | _ => OBad end)
  ; ("concatenate", fun args => match args with
       | [AAs l; ax] => match optn ax with Some ax => orarr (concatenate 0%Z (mkas l) ax) | None => OBad end
       | _ => OBad end)
  ; ("stack", fun args => match args with
       | [AAs l; ax] => match optn ax with Some ax => orarr (stack 0%Z (mkas l) ax) | None => OBad end
       | _ => OBad end)
  ; ("vstack", fun args => match args with [AAs l] => orarr (vstack 0%Z (mkas l)) | _ => OBad end)
  ; ("row_stack", fun args => match args with [AAs l] => orarr (vstack 0%Z (mkas l)) | _ => OBad end)
  ; ("hstack", fun args => match args with [AAs l] => orarr (hstack_spec 0%Z (mkas l)) | _ => OBad end)
  ; ("hstack_pinned", fun args => match args with [AAs l] => orarr (hstack_pinned 0%Z (mkas l)) | _ => OBad end)
  ; ("dstack", fun args => match args with [AAs l] => orarr (dstack 0%Z (mkas l)) | _ => OBad end)
  ; ("column_stack", fun args => match args with [AAs l] => orarr (column_stack (mkas l)) | _ => OBad end)
  ].

(* ---- C12: flip, roll, rot90 ---- *)
Definition table_reorder : list (string * (list arg -> out)) :=
  [ ("flip", fun args => match args with
       | [AA s e; ax] => match optl ax with Some ax => orarr (flip 0%Z (mka s e) ax) | None => OBad end
       | _ => OBad end)
  ; ("flipud", fun args => match args with [AA s e] => orarr (flipud 0%Z (mka s e)) | _ => OBad end)
  ; ("fliplr", fun args => match args with [AA s e] => orarr (fliplr 0%Z (mka s e)) | _ => OBad end)
  ; ("roll", fun args => match args with
       | [AA s e; AL sh; ax] => match optl ax with Some ax => orarr (roll 0%Z (mka s e) sh ax) | None => OBad end
       | _ => OBad end)
  ; ("rot90", fun args => match args with
       | [AA s e; AZ k; AL ax] => orarr (rot90 0%Z (mka s e) (clamp k) ax) | _ => OBad end)
  ].

(* ---- C13: delete, insert, repeat, trim ---- *)
Definition table_edit : list (string * (list arg -> out)) :=
  [ ("delete", fun args => match args with
       | [AA s e; AL idx; ax] => match optn ax with
           | Some ax => orarr (delete 0%Z (mka s e) (nats idx) ax) | None => OBad end
       | _ => OBad end)
  ; ("insert", fun args => match args with
       | [AA s e; AL idx; AA s2 e2; AN] => orarr (insert_flat 0%Z (mka s e) (nats idx) (mka s2 e2))
       | _ => OBad end)
  ; ("insert_entry", fun args => match args with
       | [AA s e; AL idx; AA s2 e2; AZ ax] =>
         match insert_axis_entry (mka s e) (nats idx) (clamp ax) with
         | Ok _ => OZ 1 | Err e => OErr e | Panic => OPanic | Fuel => OFuel end
       | _ => OBad end)
  ; ("trim_zeros", fun args => match args with
       | [AA s e] => orarr (trim_zeros (Z.eqb 0) (mka s e)) | _ => OBad end)
  ; ("repeat", fun args => match args with
       | [AA s e; AL reps; ax] => match optn ax with
           | Some ax => orarr (repeat_arr 0%Z (mka s e) (nats reps) ax) | None => OBad end
       | _ => OBad end)
  ].

(* ---- C19: bit packing ---- *)
Definition order_of_arg (a : arg) : option (res bit_order) :=
  match a with
  | AN => Some (Ok Big) | AZ 0 => Some (Ok Big) | AZ 1 => Some (Ok Little) | AS s => Some (parse_bit_order s)
  | _ => None end.

Definition table_bits : list (string * (list arg -> out)) :=
  [ ("unpack_bits", fun args => match args with
       | [AA s e; ax; cnt; o] => match optz ax, optz cnt, order_of_arg o with
           | Some ax, Some cnt, Some o => orarr (unpack_bits (mka s e) ax cnt o) | _, _, _ => OBad end
       | _ => OBad end)
  ; ("pack_bits", fun args => match args with
       | [AA s e; ax; o] => match optz ax, order_of_arg o with
           | Some ax, Some o => orarr (pack_bits (mka s e) ax o) | _, _ => OBad end
       | _ => OBad end)
  ; ("binary_repr", fun args => match args with
       | [AZ w; AZ n] => OL (binary_repr (Z.to_nat w) n) | _ => OBad end)
  ].

(* ---- C14: products (exact Z instance); `matmul` / `dot` answer with the specified behaviour, the *_pinned names
   with the repository's pinned rows(a) = cols(b) comparison ---- *)
Definition zz2 (f : arr Z -> arr Z -> res (arr Z)) (args : list arg) : out :=
  match args with [AA s1 e1; AA s2 e2] => orarr (f (mka s1 e1) (mka s2 e2)) | _ => OBad end.

(* formal sums: an operand element is the one-element list holding its own flat position; a product of two such
   elements is the code of the pair; a sum is the concatenation (the run reads it as a multiset of products) *)
Definition sym_mul (a b : list Z) : list Z :=
  match a, b with [x], [y] => [(x * 1000 + y + 1)%Z] | _, _ => [0%Z] end.
Definition sym_add (x y : list Z) : list Z := x ++ y.
Definition positions (s : list Z) : arr (list Z) := mk (map (fun i => [Z.of_nat i]) (seq 0 (prod (nats s)))) (nats s).
Definition sym2 (f : arr (list Z) -> arr (list Z) -> res (arr (list Z))) (args : list arg) : out :=
  match args with
  | [AA s1 _; AA s2 _] =>
    match f (positions s1) (positions s2) with
    | Ok r => OList (OL (map Z.of_nat (shape r)) :: map OL (elems r))
    | Err e => OErr e | Panic => OPanic | Fuel => OFuel end
  | _ => OBad end.

Definition table_linalg : list (string * (list arg -> out)) :=
  [ ("vdot", zz2 (vdot 0%Z Z.add Z.mul)); ("inner", zz2 (inner 0%Z Z.add Z.mul)); ("outer", zz2 (outer Z.mul))
  ; ("matmul", zz2 (matmul 0%Z Z.add Z.mul false)); ("matmul_pinned", zz2 (matmul 0%Z Z.add Z.mul true))
  ; ("dot", zz2 (dot 0%Z Z.add Z.mul false)); ("dot_pinned", zz2 (dot 0%Z Z.add Z.mul true))
  (* the same generic functions on FORMAL sums: the operands hold their own flat positions, a product is the code of
     the pair (i, j), a sum appends a term.  Every entry of the result then names, in order, the products the code adds;
     the run evaluates that expression on the float values of the case (NaN, infinities, fractions), exactly for the
     non-finite behaviour and within a rounding bound otherwise *)
  ; ("sym_vdot", sym2 (vdot [] sym_add sym_mul)); ("sym_inner", sym2 (inner [] sym_add sym_mul))
  ; ("sym_outer", sym2 (outer sym_mul)); ("sym_matmul", sym2 (matmul [] sym_add sym_mul true))
  ; ("sym_dot", sym2 (dot [] sym_add sym_mul true))
  ].

(* ---- C16: structured constructors ---- *)
Definition oq (l : list QArith_base.Q) : out :=
  OList [OL (map QArith_base.Qnum l); OL (map (fun q => Zpos (QArith_base.Qden q)) l)].
Definition zpos_of (z : Z) : positive := match z with Zpos p => p | _ => 1%positive end.

Definition table_create : list (string * (list arg -> out)) :=
  [ ("full", fun args => match args with [AL sh; AZ v] => orarr (full (nats sh) v) | _ => OBad end)
  ; ("zeros", fun args => match args with [AL sh] => orarr (full (nats sh) 0%Z) | _ => OBad end)
  ; ("ones", fun args => match args with [AL sh] => orarr (full (nats sh) 1%Z) | _ => OBad end)
  ; ("full_like", fun args => match args with [AA s e; AZ v] => orarr (full_like (mka s e) v) | _ => OBad end)
  ; ("zeros_like", fun args => match args with [AA s e] => orarr (full_like (mka s e) 0%Z) | _ => OBad end)
  ; ("ones_like", fun args => match args with [AA s e] => orarr (full_like (mka s e) 1%Z) | _ => OBad end)
  ; ("eye", fun args => match args with
       | [AZ n; m; k] => match optn m, optn k with
           | Some m, Some k => orarr (eye 0%Z 1%Z (clamp n) (match m with Some m => m | None => Z.to_nat n end)
                                          (match k with Some k => k | None => 0 end))
           | _, _ => OBad end
       | _ => OBad end)
  ; ("identity", fun args => match args with [AZ n] => orarr (identity 0%Z 1%Z (clamp n)) | _ => OBad end)
  ; ("tri", fun args => match args with
       | [AZ n; m; k] => match optn m, optz k with
           | Some m, Some k => orarr (tri 0%Z 1%Z (clamp n) (match m with Some m => m | None => Z.to_nat n end)
                                          (match k with Some k => k | None => 0%Z end))
           | _, _ => OBad end
       | _ => OBad end)
  ; ("tril", fun args => match args with
       | [AA s e; k] => match optz k with Some k => orarr (tril 0%Z (mka s e) (match k with Some k => k | None => 0%Z end)) | None => OBad end
       | _ => OBad end)
  ; ("triu", fun args => match args with
       | [AA s e; k] => match optz k with Some k => orarr (triu 0%Z (mka s e) (match k with Some k => k | None => 0%Z end)) | None => OBad end
       | _ => OBad end)
  ; ("diag", fun args => match args with
       | [AA s e; k] => match optz k with Some k => orarr (diag 0%Z (mka s e) (match k with Some k => k | None => 0%Z end)) | None => OBad end
       | _ => OBad end)
  ; ("diagflat", fun args => match args with
       | [AA s e; k] => match optz k with Some k => orarr (diagflat 0%Z (mka s e) (match k with Some k => k | None => 0%Z end)) | None => OBad end
       | _ => OBad end)
  ; ("vander", fun args => match args with
       | [AA s e; n; AZ inc] => match optn n with Some n => orarr (vander (mka s e) n (inc =? 1)%Z) | None => OBad end
       | _ => OBad end)
  ; ("arange", fun args => match args with
       | [AZ a; AZ b; st] => match optz st with
           | Some st => orarr (arange a b (match st with Some s => s | None => 1%Z end)) | None => OBad end
       | _ => OBad end)
  ; ("linspace", fun args => match args with
       | [AZ sn; AZ sd; AZ en; AZ ed; AZ num; AZ ep] =>
         oq (linspace_q (QArith_base.Qmake sn (zpos_of sd)) (QArith_base.Qmake en (zpos_of ed)) (Z.to_nat num) (ep =? 1)%Z)
       | _ => OBad end)
  ].

(* ---- C17: string arrays ---- *)
Definition mksa (sh : list Z) (es : list (list Z)) : arr str := mk es (nats sh).
Definition mkna (sh es : list Z) : arr nat := mk (nats es) (nats sh).
Definition osarr (a : arr str) : out := OSArr (shape a) (elems a).
Definition olarr (a : arr (list str)) : out := OLArr (shape a) (elems a).
Definition obarr (a : arr bool) : out := OArr (shape a) (map (fun b : bool => if b then 1%Z else 0%Z) (elems a)).
Definition oiarr (a : arr Z) : out := OArr (shape a) (elems a).
Definition optsa (a : arg) : option (option (arr str)) :=
  match a with AN => Some None | ASA sh es => Some (Some (mksa sh es)) | _ => None end.
Definition optna (a : arg) : option (option (arr nat)) :=
  match a with AN => Some None | AA sh es => Some (Some (mkna sh es)) | _ => None end.

Definition ss2 {U} (f : str -> str -> U) (o : arr U -> out) (args : list arg) : out :=
  match args with [ASA s1 e1; ASA s2 e2] => out_res o (str_lift2 f (mksa s1 e1) (mksa s2 e2)) | _ => OBad end.
Definition ss1 {U} (f : str -> U) (o : arr U -> out) (args : list arg) : out :=
  match args with [ASA s1 e1] => out_res o (str_map f (mksa s1 e1)) | _ => OBad end.
Definition zfind (r : option nat) : Z := match r with Some i => Z.of_nat i | None => (-1)%Z end.
Definition fill_of (a : arg) : option (arr Z) :=
  match a with AN => Some (mk [32%Z] [1]) | AA sh es => Some (mka sh es) | _ => None end.

Definition table_str : list (string * (list arg -> out)) :=
  [ ("s_add", ss2 s_append osarr); ("s_join", ss2 s_join osarr)
  ; ("s_partition", ss2 s_partition olarr); ("s_rpartition", ss2 s_rpartition olarr)
  ; ("s_count", ss2 (fun a b => Z.of_nat (count_str a b)) oiarr)
  ; ("s_starts_with", ss2 starts_with obarr); ("s_ends_with", ss2 ends_with obarr)
  ; ("s_find", ss2 (fun a b => zfind (Str.find a b)) oiarr); ("s_index", ss2 (fun a b => zfind (Str.find a b)) oiarr)
  ; ("s_rfind", ss2 (fun a b => zfind (Str.rfind a b)) oiarr); ("s_rindex", ss2 (fun a b => zfind (Str.rfind a b)) oiarr)
  ; ("s_equal", ss2 s_equal obarr); ("s_not_equal", ss2 s_not_equal obarr); ("s_less", ss2 s_less obarr)
  ; ("s_less_equal", ss2 s_less_equal obarr); ("s_greater", ss2 s_greater obarr); ("s_greater_equal", ss2 s_greater_equal obarr)
  ; ("s_capitalize", ss1 s_capitalize osarr); ("s_lower", ss1 s_lower osarr); ("s_upper", ss1 s_upper osarr)
  ; ("s_swapcase", ss1 s_swapcase osarr); ("s_str_len", ss1 (fun a => Z.of_nat (List.length a)) oiarr)
  ; ("s_is_alpha", ss1 (nonempty_all is_alpha_c) obarr); ("s_is_alnum", ss1 (nonempty_all is_alnum_c) obarr)
  ; ("s_is_decimal", ss1 (nonempty_all is_digit_c) obarr); ("s_is_numeric", ss1 (nonempty_all is_digit_c) obarr)
  ; ("s_is_digit", ss1 s_is_digit obarr); ("s_is_space", ss1 (nonempty_all is_space_c) obarr)
  ; ("s_is_lower", ss1 s_is_lower obarr); ("s_is_upper", ss1 s_is_upper obarr)
  ; ("s_lstrip", fun args => match args with
       | [ASA s e; c] => match optsa c with Some c => out_res osarr (str_strip2 s_lstrip (mksa s e) c) | None => OBad end
       | _ => OBad end)
  ; ("s_rstrip", fun args => match args with
       | [ASA s e; c] => match optsa c with Some c => out_res osarr (str_strip2 s_rstrip (mksa s e) c) | None => OBad end
       | _ => OBad end)
  ; ("s_strip", fun args => match args with
       | [ASA s e; c] => match optsa c with Some c => out_res osarr (str_strip (mksa s e) c) | None => OBad end
       | _ => OBad end)
  ; ("s_multiply", fun args => match args with
       | [ASA s e; AA s2 e2] => out_res osarr (str_h2 0 s_multiply (mksa s e) (mkna s2 e2)) | _ => OBad end)
  ; ("s_splitlines", fun args => match args with
       | [ASA s e; AN] => out_res olarr (str_h2 false s_splitlines (mksa s e) (mk [false] [1]))
       | [ASA s e; AA s2 e2] => out_res olarr (str_h2 false s_splitlines (mksa s e) (mk (map (fun z => negb (z =? 0)%Z) e2) (nats s2)))
       | _ => OBad end)
  ; ("s_center", fun args => match args with
       | [ASA s e; AA s2 e2; f] => match fill_of f with Some f => out_res osarr (str_pad3 s_center (mksa s e) (mkna s2 e2) f) | None => OBad end
       | _ => OBad end)
  ; ("s_ljust", fun args => match args with
       | [ASA s e; AA s2 e2; f] => match fill_of f with Some f => out_res osarr (str_pad3 s_ljust (mksa s e) (mkna s2 e2) f) | None => OBad end
       | _ => OBad end)
  ; ("s_rjust", fun args => match args with
       | [ASA s e; AA s2 e2; f] => match fill_of f with Some f => out_res osarr (str_rjust (mksa s e) (mkna s2 e2) f) | None => OBad end
       | _ => OBad end)
  ; ("s_split", fun args => match args with
       | [ASA s e; sep; lim] => match optsa sep, optna lim with
           | Some sep, Some lim => out_res olarr (str_split false (mksa s e) sep lim) | _, _ => OBad end
       | _ => OBad end)
  ; ("s_rsplit", fun args => match args with
       | [ASA s e; sep; lim] => match optsa sep, optna lim with
           | Some sep, Some lim => out_res olarr (str_split true (mksa s e) sep lim) | _, _ => OBad end
       | _ => OBad end)
  ; ("s_compare", fun args => match args with
       | [ASA s1 e1; ASA s2 e2; AS name] =>
         match parse_cmp_op name with
         | Some f => out_res obarr (str_lift2 f (mksa s1 e1) (mksa s2 e2))
         | None => OErr EParam end
       | _ => OBad end)
  ; ("s_translate", fun args => match args with
       | [ASA s e; AL tbl] =>
         let pairs := (fix go l := match l with x :: y :: t => (x, y) :: go t | _ => [] end) tbl in
         out_res osarr (str_map (fun a => s_translate a pairs) (mksa s e))
       | _ => OBad end)
  ; ("s_zfill", fun args => match args with
       | [ASA s e; AZ w] =>
         if negb (forallb is_simple_number e) then OErr EParam
         else out_res osarr (str_map (fun a => s_zfill a (clamp w)) (mksa s e))
       | _ => OBad end)
  ; ("s_replace", fun args => match args with
       | [ASA s e; ASA s2 e2; ASA s3 e3; c] => match optn c with
           | Some c => out_res osarr (str_replace (mksa s e) (mksa s2 e2) (mksa s3 e3) c) | None => OBad end
       | _ => OBad end)
  ].

(* ---- C18: literals and text forms ---- *)
Definition table_text : list (string * (list arg -> out)) :=
  [ ("lit_parse", fun args => match args with [AS text] => out_res osarr (parse_literal text) | _ => OBad end)
  ; ("lit", fun _ => OZ 0%Z)
  ; ("display", fun args => match args with
       | [ASA sh es; _; AZ alt] => OS (display (mksa sh es) (alt =? 1)%Z)
       (* a fourth argument carries the raw values the implementation formats; es are their expected renderings *)
       | [ASA sh es; _; AZ alt; _] => OS (display (mksa sh es) (alt =? 1)%Z) | _ => OBad end)
  (* array_single! with a compound element type equals Array::single of the value (answer: 1) *)
  ; ("m_single_compound", fun args => match args with [ASA _ _] => OZ 1%Z | _ => OBad end)
  ; ("tuple_text", fun args => match args with
       | [ASA _ es] => OList [OS (show_tuple es); OLArr [1] [parse_tuple (show_tuple es)]] | _ => OBad end)
  ; ("list_text", fun args => match args with
       | [ASA _ es] => OList [OS (show_list es); OLArr [1] [parse_list (show_list es)]] | _ => OBad end)
  ].

(* ---- C15: solve and det over exact rationals ---- *)
Definition qmat_of (sh es : list Z) : qmat :=
  match nats sh with
  | [n; m] => map (fun i => map (fun j => QArith_base.inject_Z (nth (i * m + j) es 0%Z)) (seq 0 m)) (seq 0 n)
  | [n] => map (fun i => [QArith_base.inject_Z (nth i es 0%Z)]) (seq 0 n)
  | _ => []
  end.
Definition qscale (sc : Z) (m : qmat) : qmat := map (map (fun q => qdiv q (QArith_base.inject_Z sc))) m.
Definition solve_out (s1 s2 : list Z) (a b : qmat) : out :=
  match solve_checked (nats s1) (nats s2) a b with
  | Ok x => OList [oq (concat x); OZ (if residual_ok a x b then 1 else 0)%Z; OZ (if pivots_okb a then 1 else 0)%Z]
  | Err e => OErr e | Panic => OPanic | Fuel => OFuel end.
Definition table_solve : list (string * (list arg -> out)) :=
  [ ("solve", fun args => match args with
       | [AA s1 e1; AA s2 e2] => solve_out s1 s2 (qmat_of s1 e1) (qmat_of s2 e2)
       (* a third argument divides every entry of the matrix (decimal entries) *)
       | [AA s1 e1; AA s2 e2; AZ sc] => solve_out s1 s2 (qscale sc (qmat_of s1 e1)) (qmat_of s2 e2)
       | _ => OBad end)
  (* det with its entry checks; a stack [.., n, n] answers with the determinant of every n x n block, in order *)
  ; ("det", fun args => match args with
       | [AA s1 e1] => match det_checked (nats s1) (map QArith_base.inject_Z e1) with
                       | Ok l => oq l | Err e => OErr e | Panic => OPanic | Fuel => OFuel end
       | _ => OBad end)
  ; ("detstack", fun args => match args with
       | [AA s1 e1] => match det_checked (nats s1) (map QArith_base.inject_Z e1) with
                       | Ok l => oq l | Err e => OErr e | Panic => OPanic | Fuel => OFuel end
       | _ => OBad end)
  ].

(* ---- C05: frexp / ldexp on exact dyadic values (mantissa array, exponent array) ---- *)
Definition mkdy (sh ms es : list Z) : arr dy := mk (combine ms es) (nats sh).
Definition table_dyadic : list (string * (list arg -> out)) :=
  [ ("frexp", fun args => match args with
       | [AA s ms; AA _ es] => out_res (fun p => OList [oparr (fst p); oarr (snd p)]) (frexp_arr (mkdy s ms es)) | _ => OBad end)
  ; ("ldexp", fun args => match args with
       | [AA s ms; AA _ es; AA sk ks] => out_res oparr (ldexp_arr (mkdy s ms es) (mka sk ks)) | _ => OBad end)
  ; ("frexp_ldexp", fun args => match args with
       | [AA s ms; AA _ es] => out_res oparr (let* p := frexp_arr (mkdy s ms es) in ldexp_arr (fst p) (snd p)) | _ => OBad end)
  ].

Definition table : list (string * (list arg -> out)) :=
  table_index ++ table_axis ++ table_broadcast ++ table_ew2 ++ table_ew1 ++ table_ops ++ table_reduce ++ table_sort
  ++ table_join ++ table_reorder ++ table_edit ++ table_bits ++ table_linalg ++ table_create ++ table_str ++ table_text
  ++ table_solve ++ table_dyadic.

Fixpoint lookup (name : string) (t : list (string * (list arg -> out))) : option (list arg -> out) :=
  match t with
  | [] => None
  | (n, f) :: t' => if String.eqb n name then Some f else lookup name t'
  end.

(* the constructor macros (array_zeros!, array_eye!, ... ; case names m_<function>) expand to the functions *)
(* `mon`: public operations without a model (diff, clip, convolve, slice, modf, eig, ...): the harness only judges
   the well-formedness of what they return (the C01 monitor) and answers z(1) when nothing is wrong *)
Definition dispatch (name : string) (args : list arg) : out :=
  if String.eqb name "mon" || String.eqb name "monp" || String.eqb name "mone" then OZ 1 else
  match lookup name table with
  | Some f => f args
  | None =>
    if String.prefix "m_" name then
      match lookup (String.substring 2 (String.length name - 2) name) table with Some f => f args | None => OBad end
    else OBad
  end.

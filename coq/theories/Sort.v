(* Sort.v — src/extensions/vec_sort_ext.rs (merge_sort, quick_sort, heap_sort, tim_sort as repaired),
   src/core/operations/sort.rs (sort, argsort), src/core/types/sort/mod.rs (kind parsing),
   manipulate.rs unique.  Loops run on explicit fuel; Fuel is returned when it runs out (excluded by theorems). *)
From ArrRs Require Export Index Axis Split Lift Reduce.

Section Sorts.
Context {T : Type} (ltb : T -> T -> bool) (d : T).

(* the merge loop of merge_sort: `if left[i] < right[j]` take left, else take right *)
Fixpoint merge_lt (l1 : list T) : list T -> list T :=
  fix go (l2 : list T) : list T :=
    match l1, l2 with
    | [], _ => l2
    | _, [] => l1
    | x :: t1, y :: t2 => if ltb x y then x :: merge_lt t1 l2 else y :: go t2
    end.

Fixpoint merge_sort_f (fuel : nat) (l : list T) : res (list T) :=
  match fuel with
  | 0 => Fuel
  | S f =>
    if length l <=? 1 then Ok l else
    let mid := length l / 2 in
    let* lft := merge_sort_f f (firstn mid l) in
    let* rgt := merge_sort_f f (skipn mid l) in
    Ok (merge_lt lft rgt)
  end.
Definition merge_sort (l : list T) : res (list T) := merge_sort_f (S (length l)) l.

(* quick_sort: first element is the pivot, partition the rest by `it < pivot` *)
Fixpoint quick_sort_f (fuel : nat) (l : list T) : res (list T) :=
  match fuel with
  | 0 => Fuel
  | S f =>
    match l with
    | [] => Ok []
    | [x] => Ok [x]
    | pivot :: rest =>
      let* lower := quick_sort_f f (filter (fun it => ltb it pivot) rest) in
      let* higher := quick_sort_f f (filter (fun it => negb (ltb it pivot)) rest) in
      Ok (lower ++ pivot :: higher)
    end
  end.
Definition quick_sort (l : list T) : res (list T) := quick_sort_f (S (length l)) l.

(* heap_sort on an index-addressed list *)
Definition swap_at (l : list T) (i j : nat) : list T := upd (upd l i (nth j l d)) j (nth i l d).

Fixpoint shift_down (fuel : nat) (a : list T) (root end_ : nat) : res (list T) :=
  match fuel with
  | 0 => Fuel
  | S f =>
    let child := root * 2 + 1 in
    if end_ <? child then Ok a else
    let child := if (child <? end_) && ltb (nth child a d) (nth (child + 1) a d) then child + 1 else child in
    if ltb (nth root a d) (nth child a d) then shift_down f (swap_at a root child) child end_
    else Ok a
  end.

Definition heap_sort (l : list T) : res (list T) :=
  let n := length l in
  if n <=? 1 then Ok l else
  let* a := fold_left (fun (r : res (list T)) start => let* a := r in shift_down (S n) a start (n - 1))
                      (rev (seq 0 (n / 2))) (Ok l) in
  fold_left (fun (r : res (list T)) end_ => let* a := r in shift_down (S n) (swap_at a 0 end_) 0 (end_ - 1))
            (rev (seq 1 (n - 1))) (Ok a).

(* tim_sort *)
Fixpoint calc_min_run_f (fuel n r : nat) : nat :=
  match fuel with
  | 0 => n + r
  | S f => if 32 <=? n then calc_min_run_f f (n / 2) (Nat.lor r (n mod 2)) else n + r
  end.
Definition calc_min_run (n : nat) : nat := calc_min_run_f n n 0.

(* inner while of insertion_sort: swap arr[j] down while it is smaller than its left neighbour *)
Fixpoint sink (fuel : nat) (a : list T) (left j : nat) : list T :=
  match fuel with
  | 0 => a
  | S f => if (left <? j) && ltb (nth j a d) (nth (j - 1) a d) then sink f (swap_at a j (j - 1)) left (j - 1) else a
  end.
Definition insertion_sort (a : list T) (left right : nat) : list T :=
  fold_left (fun a i => sink (S i) a left i) (seq (left + 1) (right - left)) a.

(* the merge loop of tim_sort's merge: `if left_arr[i] <= right_arr[j]`, i.e. not (right < left) *)
Fixpoint merge_le (l1 : list T) : list T -> list T :=
  fix go (l2 : list T) : list T :=
    match l1, l2 with
    | [], _ => l2
    | _, [] => l1
    | x :: t1, y :: t2 => if negb (ltb y x) then x :: merge_le t1 l2 else y :: go t2
    end.
(* merge(arr, left, mid, right) as repaired: both tails are copied with their own lengths *)
Definition merge_runs (a : list T) (left mid right : nat) : list T :=
  firstn left a ++ merge_le (firstn (mid - left + 1) (skipn left a)) (firstn (right - mid) (skipn (mid + 1) a))
    ++ skipn (right + 1) a.

(* (0..n).step_by(step) *)
Fixpoint steps (fuel start step n : nat) : list nat :=
  match fuel with
  | 0 => []
  | S f => if start <? n then start :: steps f (start + step) step n else []
  end.

Fixpoint tim_merge_passes (fuel : nat) (a : list T) (size n : nat) : res (list T) :=
  match fuel with
  | 0 => Fuel
  | S f =>
    if size <? n then
      let a' := fold_left (fun a left =>
                             let mid := Nat.min (n - 1) (left + size - 1) in
                             let right := Nat.min (left + 2 * size - 1) (n - 1) in
                             if mid <? right then merge_runs a left mid right else a)
                          (steps n 0 (2 * size) n) a in
      tim_merge_passes f a' (size * 2) n
    else Ok a
  end.

Definition tim_sort (l : list T) : res (list T) :=
  let n := length l in
  if n <=? 1 then Ok l else           (* the early return is the repair: n = 0 underflowed n - 1 *)
  let min_run := calc_min_run n in
  let a := fold_left (fun a start => insertion_sort a start (Nat.min (start + min_run - 1) (n - 1)))
                     (steps n 0 min_run n) l in
  tim_merge_passes (S n) a min_run n.

Inductive sort_kind := Quicksort | Mergesort | Heapsort | Stable.

Definition sort_list (k : sort_kind) (l : list T) : res (list T) :=
  match k with
  | Mergesort => merge_sort l | Quicksort => quick_sort l | Heapsort => heap_sort l | Stable => tim_sort l
  end.

End Sorts.

(* kind parsing: strings are lower-cased (ASCII) before matching *)
Definition lower_byte (c : Z) : Z := if ((65 <=? c) && (c <=? 90))%Z then (c + 32)%Z else c.
Definition bytes_eqb (a b : list Z) : bool := list_eqb Z.eqb a b.
Definition parse_kind (s : list Z) : res sort_kind :=
  let s := map lower_byte s in
  if bytes_eqb s [113;117;105;99;107;115;111;114;116]%Z then Ok Quicksort
  else if bytes_eqb s [109;101;114;103;101;115;111;114;116]%Z then Ok Mergesort
  else if bytes_eqb s [104;101;97;112;115;111;114;116]%Z then Ok Heapsort
  else if bytes_eqb s [115;116;97;98;108;101]%Z then Ok Stable
  else Err EParam.

Section ArraySort.
Context {T : Type} (ltb : T -> T -> bool) (eqb : T -> T -> bool) (d : T).

(* sort.rs sort *)
Definition sort1 (k : sort_kind) (a : arr T) : res (arr T) :=
  let* s := sort_list ltb d k (elems a) in flat_arr s.

Definition sort_arr (a : arr T) (axis : option Z) (kind : res sort_kind) : res (arr T) :=
  let* k := kind in
  match axis with
  | Some z =>
    let zax := normalize_axis (ndim a) z in
    let* _ := guard (zax <? Z.of_nat (ndim a))%Z EAxis in
    apply_along_axis d d a (Z.to_nat zax) (sort1 k)
  | None => sort1 k a
  end.

(* sort.rs argsort: for every element, in original order, the index of its first remaining occurrence in the
   sorted list (which is then removed) *)
Fixpoint take_first (p : nat * T -> bool) (l : list (nat * T)) : option (nat * list (nat * T)) :=
  match l with
  | [] => None
  | x :: t => if p x then Some (fst x, t)
              else match take_first p t with Some (i, t') => Some (i, x :: t') | None => None end
  end.

Fixpoint argsort_assign (items : list T) (sorted : list (nat * T)) : res (list nat) :=
  match items with
  | [] => Ok []
  | x :: t =>
    match take_first (fun p => eqb (snd p) x) sorted with
    | None => Panic                                       (* find(..).unwrap() *)
    | Some (i, sorted') => let* r := argsort_assign t sorted' in Ok (i :: r)
    end
  end.

Definition argsort1 (k : sort_kind) (a : arr T) : res (arr nat) :=
  let* s := sort_list ltb d k (elems a) in
  let* s' := flat_arr s in
  let* r := argsort_assign (elems a) (combine (seq 0 (length s)) (elems s')) in
  flat_arr r.

Definition argsort_arr (a : arr T) (axis : option Z) (kind : res sort_kind) : res (arr nat) :=
  let* k := kind in
  match axis with
  | Some z =>
    let zax := normalize_axis (ndim a) z in
    let* _ := guard (zax <? Z.of_nat (ndim a))%Z EAxis in
    apply_along_axis d 0 a (Z.to_nat zax) (argsort1 k)
  | None => argsort1 k a
  end.

(* search.rs argmax / argmin without NaN: first position equal to the last / first element of the quick-sorted data *)
Definition arg_extreme1 (max : bool) (l : list T) : res nat :=
  match l with
  | [] => Err EParam
  | _ =>
    let* s := quick_sort ltb l in
    let target := if max then last s d else hd d s in
    match position (fun x => eqb x target) l with Some i => Ok i | None => Panic end
  end.

(* manipulate.rs unique (no axis): stable std sort then dedup; modelled with a stable insertion sort *)
Fixpoint insert_stable (x : T) (l : list T) : list T :=
  match l with
  | [] => [x]
  | y :: t => if ltb x y then x :: l else y :: insert_stable x t
  end.
Definition std_sort (l : list T) : list T := fold_left (fun acc x => insert_stable x acc) l [].
Fixpoint dedup (l : list T) : list T :=
  match l with
  | x :: ((y :: _) as t) => if eqb x y then dedup t else x :: dedup t
  | _ => l
  end.
Definition unique1 (a : arr T) : res (arr T) := flat_arr (dedup (std_sort (elems a))).

(* manipulate.rs unique with an axis: the 1-D form on every lane through apply_along_axis (lanes with different
   numbers of distinct values do not fit one shape: the re-assembly refuses them) *)
Definition unique_arr (a : arr T) (axis : option Z) : res (arr T) :=
  match axis with
  | Some z =>
    let zax := normalize_axis (ndim a) z in
    let* _ := guard (zax <? Z.of_nat (ndim a))%Z EAxis in
    apply_along_axis d d a (Z.to_nat zax) unique1
  | None => unique1 a
  end.

End ArraySort.

(* The determinant is multiplicative (C15): det (a b) = det a * det b for square matrices of any size >= 2.
   Method: every function G of a matrix that respects entrywise equality, changes sign under a row exchange, is
   unchanged by adding a multiple of one row to another and scales with a row is carried through the code's own
   elimination exactly like the determinant (lu_state_G); on the upper-triangular result it is (product of the
   diagonal) * G(identity) — by clearing the entries above the diagonal column by column when no diagonal entry is
   zero, and 0 otherwise (the last row with a zero diagonal entry is cleared by the rows below it).  Applied to
   G = det and to G = (A |-> det (A B)). *)
From Coq Require Import QArith Qabs Qfield Lia Lqa Permutation.
Local Close Scope Q_scope.
From ArrRs Require Import Index Index_proofs Lists_proofs Axis Linsolve Linsolve_proofs Lu_sums Lu_step Lu_solve Det_tri Det_fun Det_elim.

Definition fid : fmat := fun r c => if r =? c then 1%Q else 0%Q.
Fixpoint fprod (f : nat -> Q) (n : nat) : Q := match n with O => 1%Q | S k => (fprod f k * f k)%Q end.

Section RowOps.
Variable n : nat.
Variable G : fmat -> Q.
Hypothesis G_ext : forall A B, (forall i j, i < n -> j < n -> (A i j == B i j)%Q) -> (G A == G B)%Q.
Hypothesis G_swap : forall A p j, p < n -> j < n -> p <> j -> (G (fun r c => A (sig p j r) c) == - G A)%Q.
Hypothesis G_add : forall A i j (x : Q), i < n -> j < n -> i <> j ->
  (G (fun r c => if r =? i then A i c + x * A j c else A r c)%Q == G A)%Q.
Hypothesis G_scale : forall A i (x : Q), i < n ->
  (G (fun r c => if r =? i then x * A i c else A r c)%Q == x * G A)%Q.

(* ---------- the code's elimination, for G ---------- *)
Lemma G_elim_rows j (u1 : qmat) (U : nat -> qmat) : j < n -> (forall c, c < j -> (qget u1 j c == 0)%Q) ->
  (forall cnt, j + 1 + cnt <= n -> forall i,
     nth i (U cnt) [] = if (j <? i) && (i <? j + 1 + cnt) then elim_row j n u1 i else nth i u1 []) ->
  forall cnt, j + 1 + cnt <= n -> (G (qget (U cnt)) == G (qget u1))%Q.
Proof.
  intros Hj Z RU. induction cnt as [|c IH]; intros Hc.
  - apply G_ext. intros r col Hr Hcol. unfold qget. rewrite (RU 0 Hc).
    destruct (Nat.ltb_spec j r), (Nat.ltb_spec r (j + 1 + 0)); cbn [andb]; try reflexivity; lia.
  - rewrite <- IH by lia. pose proof (RU (S c) Hc) as RU1. pose proof (RU c ltac:(lia)) as RU0.
    set (i0 := j + 1 + c).
    rewrite <- (G_add (qget (U c)) i0 j (- factor j u1 i0)) by (unfold i0; lia).
    apply G_ext. intros r col Hr Hcol.
    unfold qget at 1. rewrite RU1.
    destruct (Nat.eqb_spec r i0) as [->|Ne].
    + destruct (Nat.ltb_spec j i0); [|unfold i0 in *; lia].
      destruct (Nat.ltb_spec i0 (j + 1 + S c)); [|unfold i0 in *; lia]. cbn [andb].
      unfold elim_row. rewrite nth_map_seq0 by exact Hcol.
      assert (qget (U c) i0 col = qget u1 i0 col) as ->.
      { unfold qget. rewrite RU0. destruct (Nat.ltb_spec i0 (j + 1 + c)); [unfold i0 in *; lia|]. now rewrite Bool.andb_false_r. }
      assert (qget (U c) j col = qget u1 j col) as ->.
      { unfold qget. rewrite RU0. destruct (Nat.ltb_spec j j); [lia|]. reflexivity. }
      unfold factor. destruct (Nat.ltb_spec col j) as [Lc|Gc].
      * rewrite (Z col Lc). ring.
      * rewrite qsub_eq, qmul_eq. ring.
    + unfold qget. rewrite RU0. destruct (j <? r) eqn:E; cbn [andb]; [|reflexivity].
      destruct (Nat.ltb_spec r (j + 1 + S c)), (Nat.ltb_spec r (j + 1 + c)); try reflexivity; unfold i0 in *; lia.
Qed.

Lemma G_step j l u o : dims n l -> dims n u -> length o = n -> j < n -> zero_below n j u ->
  let '(l', u', o') := lu_step n (l, u, o) j in (G (qget u') == step_sign u j n * G (qget u))%Q.
Proof.
  intros Dl Du Lo Hj ZB. rewrite lu_step_eq. cbn zeta.
  pose proof (pivot_row_range u j n Hj) as Hp.
  unfold step_sign. set (p := pivot_row u j n) in *.
  pose proof (swap_part_spec j p n l u o Dl Du Lo ltac:(lia) ltac:(lia)) as Sp.
  destruct (swap_part j p l u o) as [[l1 u1] o1].
  destruct Sp as (Dl1 & Du1 & Lo1 & _ & RU & _ & _).
  assert (forall r c, qget u1 r c = qget u (sig p j r) c) as EU1 by (intros; unfold qget; now rewrite RU).
  assert (G (qget u1) == (if p =? j then 1 else -1) * G (qget u))%Q as D1.
  { destruct (Nat.eqb_spec p j) as [E|N].
    - rewrite (G_ext (qget u1) (qget u)); [ring|]. intros r c _ _. rewrite EU1, E.
      replace (sig j j r) with r by nat_cases. reflexivity.
    - rewrite (G_ext (qget u1) (fun r c => qget u (sig p j r) c)) by (intros; now rewrite EU1).
      rewrite (G_swap (qget u) p j) by lia. ring. }
  assert (zero_below n j u1) as ZB1.
  { intros r c Hr Hc Hcr. rewrite EU1. apply ZB; [apply sig_lt; lia | exact Hc | nat_cases]. }
  destruct (fold_left (elim_step j n) (seq (j + 1) (n - j - 1)) (l1, u1)) as [l' u'] eqn:EFold. cbn [fst snd].
  pose proof Dl1 as (Ll1 & _). pose proof Du1 as (Lu1 & Ru1).
  rewrite <- D1.
  pose proof (G_elim_rows j u1 (fun cnt => snd (fold_left (elim_step j n) (seq (j + 1) cnt) (l1, u1))) Hj
                (fun c Hc => ZB1 j c Hj Hc Hc)
                (fun k Hk => proj1 (proj2 (proj2 (elim_fold j n l1 u1 Ll1 Lu1 Hj k Hk)))) (n - j - 1) ltac:(lia)) as ED.
  cbn beta in ED. rewrite EFold in ED. exact ED.
Qed.

Lemma lu_state_G a : dims n a -> forall k, k <= n ->
  (G (qget (stU (lu_state a k))) == lu_sign a k * G (qget a))%Q.
Proof.
  intros Da. pose proof Da as (La & _). induction k as [|k IH]; intros Hk.
  - unfold lu_state. cbn [seq fold_left stU fst snd lu_sign]. ring.
  - specialize (IH ltac:(lia)). destruct (lu_state_det a n Da k ltac:(lia)) as (_ & Z).
    destruct (lu_state_dims a n Da k ltac:(lia)) as (Dl & Du & Lo).
    cbn [lu_sign]. rewrite lu_state_S, La. destruct (lu_state a k) as [[l u] o]. cbn [stL stU stO fst snd] in *.
    pose proof (G_step k l u o Dl Du Lo ltac:(lia) Z) as St.
    destruct (lu_step n (l, u, o) k) as [[l' u'] o']. cbn [stU fst snd]. rewrite St, IH. ring.
Qed.

(* ---------- upper-triangular matrices ---------- *)
Definition up_tri (U : fmat) : Prop := forall r c, c < r -> r < n -> (U r c == 0)%Q.

(* columns j, j+1, .. cleared above the diagonal *)
Definition cleared (U : fmat) (j : nat) : fmat := fun r c => if (j <=? c) && (r <? c) then 0%Q else U r c.
(* ... and column j cleared in the rows above row s *)
Definition clearing (U : fmat) (j s : nat) : fmat :=
  fun r c => if (c =? j) && (r <? s) then 0%Q else cleared U (S j) r c.

Lemma clear_column U j : up_tri U -> j < n -> ~ (U j j == 0)%Q ->
  forall s, s <= j -> (G (clearing U j s) == G (cleared U (S j)))%Q.
Proof.
  intros T Hj Nz. induction s as [|s IH]; intros Hs.
  - apply G_ext. intros r c Hr Hc. unfold clearing. destruct (c =? j); cbn [andb]; reflexivity.
  - rewrite <- IH by lia.
    rewrite <- (G_add (clearing U j s) s j (- (U s j / U j j))) by lia.
    apply G_ext. intros r c Hr Hc. destruct (Nat.eqb_spec r s) as [->|Ne].
    + (* row s *)
      unfold clearing, cleared.
      destruct (Nat.eqb_spec c j) as [->|Nc]; cbn [andb].
      * destruct (Nat.ltb_spec s (S s)); [|lia]. destruct (Nat.ltb_spec s s); [lia|].
        destruct (Nat.ltb_spec j s); [lia|].
        destruct (Nat.leb_spec (S j) j); [lia|]. cbn [andb]. field. exact Nz.
      * destruct (Nat.leb_spec (S j) c) as [Lc|Gc]; cbn [andb].
        -- destruct (Nat.ltb_spec s c); [|lia]. destruct (Nat.ltb_spec j c); [|lia]. ring.
        -- assert (c < j) by lia. rewrite (T j c) by lia. ring.
    + unfold clearing. destruct (Nat.eqb_spec c j) as [->|Nc]; cbn [andb]; [|reflexivity].
      destruct (Nat.ltb_spec r (S s)), (Nat.ltb_spec r s); try reflexivity; lia.
Qed.

Lemma clear_all U : up_tri U -> (forall i, i < n -> ~ (U i i == 0)%Q) ->
  forall t, t <= n -> (G (cleared U (n - t)) == G U)%Q.
Proof.
  intros T Nz. induction t as [|t IH]; intros Ht.
  - apply G_ext. intros r c Hr Hc. unfold cleared. destruct (Nat.leb_spec (n - 0) c); [lia|]. reflexivity.
  - rewrite <- IH by lia. set (j := n - S t). replace (n - t) with (S j) by (unfold j; lia).
    rewrite <- (clear_column U j T ltac:(unfold j; lia) (Nz j ltac:(unfold j; lia)) j (le_n _)).
    apply G_ext. intros r c Hr Hc. unfold clearing, cleared.
    destruct (Nat.eqb_spec c j) as [->|Nc]; cbn [andb].
    + destruct (Nat.leb_spec j j); [|lia]. destruct (Nat.leb_spec (S j) j); [lia|]. cbn [andb].
      destruct (r <? j); reflexivity.
    + destruct (Nat.leb_spec j c), (Nat.leb_spec (S j) c); try reflexivity; lia.
Qed.

(* the diagonal matrix, one row factor after the other *)
Definition scaled (U : fmat) (t : nat) : fmat := fun r c => if r =? c then (if r <? t then U r r else 1%Q) else 0%Q.

Lemma scale_rows U : forall t, t <= n -> (G (scaled U t) == fprod (fun i => U i i) t * G fid)%Q.
Proof.
  induction t as [|t IH]; intros Ht.
  - cbn [fprod]. rewrite (G_ext (scaled U 0) fid); [ring|]. intros r c _ _. unfold scaled, fid.
    destruct (r =? c); reflexivity.
  - cbn [fprod]. rewrite <- (Qmult_comm (U t t)), <- Qmult_assoc, <- IH by lia.
    rewrite <- (G_scale (scaled U t) t (U t t)) by lia. apply G_ext. intros r c Hr Hc. unfold scaled.
    destruct (Nat.eqb_spec r t) as [->|Ne].
    + destruct (Nat.eqb_spec t c) as [<-|Nc]; [|ring].
      destruct (Nat.ltb_spec t (S t)); [|lia]. destruct (Nat.ltb_spec t t); [lia|]. ring.
    + destruct (r =? c); [|reflexivity]. destruct (Nat.ltb_spec r (S t)), (Nat.ltb_spec r t); try reflexivity; lia.
Qed.

Theorem G_upper_regular U : up_tri U -> (forall i, i < n -> ~ (U i i == 0)%Q) ->
  (G U == fprod (fun i => U i i) n * G fid)%Q.
Proof.
  intros T Nz. rewrite <- (clear_all U T Nz n (le_n _)), Nat.sub_diag, <- (scale_rows U n (le_n _)).
  apply G_ext. intros r c Hr Hc. unfold cleared, scaled. cbn [Nat.leb andb].
  destruct (Nat.eqb_spec r c) as [->|Ne].
  - destruct (Nat.ltb_spec c c); [lia|]. destruct (Nat.ltb_spec c n); [reflexivity | lia].
  - destruct (Nat.ltb_spec r c); [reflexivity|]. apply T; lia.
Qed.

(* ---------- a zero on the diagonal ---------- *)
Fixpoint vrow (U : fmat) (m s : nat) : nat -> Q :=
  match s with
  | O => U m
  | S s' => let c0 := m + 1 + s' in
            fun c => (vrow U m s' c + (- (vrow U m s' c0 / U c0 c0)) * U c0 c)%Q
  end.

Lemma vrow_zero U m : up_tri U -> m < n -> (U m m == 0)%Q -> (forall i, m < i < n -> ~ (U i i == 0)%Q) ->
  forall s, m + 1 + s <= n -> forall c, c < m + 1 + s -> (vrow U m s c == 0)%Q.
Proof.
  intros T Hm Z Nz. induction s as [|s IH]; intros Hs c Hc; cbn [vrow].
  - destruct (Nat.eq_dec c m) as [->|Ne]; [exact Z | apply T; lia].
  - cbn zeta. destruct (Nat.eq_dec c (m + 1 + s)) as [->|Ne].
    + field. apply Nz. lia.
    + rewrite (IH ltac:(lia) c ltac:(lia)), (T (m + 1 + s) c) by lia. ring.
Qed.

Lemma vrow_G U m : m < n -> forall s, m + 1 + s <= n ->
  (G (fun r c => if r =? m then vrow U m s c else U r c) == G U)%Q.
Proof.
  intros Hm. induction s as [|s IH]; intros Hs.
  - apply G_ext. intros r c _ _. cbn [vrow]. destruct (Nat.eqb_spec r m) as [->|]; reflexivity.
  - rewrite <- IH by lia. set (A := fun r c => if r =? m then vrow U m s c else U r c).
    rewrite <- (G_add A m (m + 1 + s) (- (vrow U m s (m + 1 + s) / U (m + 1 + s) (m + 1 + s)))) by lia.
    apply G_ext. intros r c _ _. unfold A. destruct (Nat.eqb_spec r m) as [->|Ne]; [|reflexivity].
    cbn [vrow]. cbn zeta. rewrite Nat.eqb_refl. destruct (Nat.eqb_spec (m + 1 + s) m); [lia|]. reflexivity.
Qed.

Lemma G_zero_row A m : m < n -> (forall c, c < n -> (A m c == 0)%Q) -> (G A == 0)%Q.
Proof.
  intros Hm Z. rewrite (G_ext A (fun r c => if r =? m then 0 * A m c else A r c)%Q).
  - rewrite (G_scale A m 0 Hm). ring.
  - intros r c Hr Hc. destruct (Nat.eqb_spec r m) as [->|]; [|reflexivity]. rewrite (Z c Hc). ring.
Qed.

Lemma G_upper_singular_from U : up_tri U -> forall m, m <= n -> (forall i, m <= i < n -> ~ (U i i == 0)%Q) ->
  (exists k, k < m /\ (U k k == 0)%Q) -> (G U == 0)%Q.
Proof.
  intros T. induction m as [|m IH]; intros Hm Nz (k & Hk & Zk); [lia|].
  destruct (Qeq_dec (U m m) 0) as [Zm|Nm].
  - rewrite <- (vrow_G U m ltac:(lia) (n - m - 1) ltac:(lia)). apply (G_zero_row _ m ltac:(lia)).
    intros c Hc. rewrite Nat.eqb_refl. apply (vrow_zero U m T ltac:(lia) Zm); [|lia|lia].
    intros i Hi. apply Nz. lia.
  - apply IH; [lia| |].
    + intros i Hi. destruct (Nat.eq_dec i m) as [->|]; [exact Nm | apply Nz; lia].
    + exists k. split; [|exact Zk]. destruct (Nat.eq_dec k m) as [->|]; [contradiction | lia].
Qed.

Theorem G_upper_singular U : up_tri U -> (exists k, k < n /\ (U k k == 0)%Q) -> (G U == 0)%Q.
Proof. intros T E. apply (G_upper_singular_from U T n (le_n _)); [intros; lia | exact E]. Qed.

End RowOps.

(* ---------- products ---------- *)
Definition fmul (n : nat) (A B : fmat) : fmat := fun r c => qsum (fun k => A r k * B k c)%Q n.

Lemma fmul_ext n A A' B : (forall i j, i < n -> j < n -> (A i j == A' i j)%Q) ->
  forall r c, r < n -> c < n -> (fmul n A B r c == fmul n A' B r c)%Q.
Proof. intros H r c Hr Hc. unfold fmul. apply qsum_ext. intros k Hk. rewrite (H r k Hr Hk). reflexivity. Qed.

Lemma GB_ext n B : forall A A', (forall i j, i < n -> j < n -> (A i j == A' i j)%Q) ->
  (fdet n (fmul n A B) == fdet n (fmul n A' B))%Q.
Proof. intros A A' H. apply fdet_ext. intros r c Hr Hc. now apply fmul_ext. Qed.

Lemma GB_swap n B : forall A p j, p < n -> j < n -> p <> j ->
  (fdet n (fmul n (fun r c => A (sig p j r) c) B) == - fdet n (fmul n A B))%Q.
Proof.
  intros A p j Hp Hj N. rewrite (fdet_ext n _ (fun r c => fmul n A B (sig p j r) c)) by (intros; reflexivity).
  now apply fdet_swap.
Qed.

Lemma GB_add n B : forall A i j (x : Q), i < n -> j < n -> i <> j ->
  (fdet n (fmul n (fun r c => if r =? i then A i c + x * A j c else A r c)%Q B) == fdet n (fmul n A B))%Q.
Proof.
  intros A i j x Hi Hj N. rewrite <- (fdet_row_add n (fmul n A B) i j x Hi Hj N).
  apply fdet_ext. intros r c Hr Hc. unfold fmul. destruct (Nat.eqb_spec r i) as [->|Ne]; [|reflexivity].
  rewrite <- qsum_scale, <- qsum_add. apply qsum_ext. intros k Hk. ring.
Qed.

Lemma GB_scale n B : forall A i (x : Q), i < n ->
  (fdet n (fmul n (fun r c => if r =? i then x * A i c else A r c)%Q B) == x * fdet n (fmul n A B))%Q.
Proof.
  intros A i x Hi. rewrite <- (fdet_row_scale n (fmul n A B) i x Hi).
  apply fdet_ext. intros r c Hr Hc. unfold fmul. destruct (Nat.eqb_spec r i) as [->|Ne]; [|reflexivity].
  rewrite <- qsum_scale. apply qsum_ext. intros k Hk. ring.
Qed.

Lemma qsum_delta (f : nat -> Q) r n : r < n -> (qsum (fun k => fid r k * f k)%Q n == f r)%Q.
Proof.
  induction n as [|n IH]; intros H; [lia|]. cbn [qsum]. destruct (Nat.eq_dec r n) as [->|Ne].
  - rewrite qsum_zero.
    + unfold fid. rewrite Nat.eqb_refl. ring.
    + intros t Ht. unfold fid. destruct (Nat.eqb_spec n t); [lia|]. ring.
  - rewrite IH by lia. unfold fid. destruct (Nat.eqb_spec r n); [lia|]. ring.
Qed.

Lemma fdet_fid n : (fdet n fid == 1)%Q.
Proof.
  induction n as [|n IH]; cbn [fdet]; [reflexivity|]. rewrite qsum_shift, qsum_zero.
  - rewrite (fdet_ext n (fminor 0 fid) fid), IH.
    + unfold sgn, fid. cbn [Nat.even Nat.eqb]. ring.
    + intros r c _ _. unfold fminor, fid, skip. cbn [Nat.ltb Nat.leb Nat.eqb]. reflexivity.
  - intros t Ht. unfold fid at 1. cbn [Nat.eqb]. ring.
Qed.

Lemma diag_dec (U : fmat) n : (forall i, i < n -> ~ (U i i == 0)%Q) \/ (exists k, k < n /\ (U k k == 0)%Q).
Proof.
  induction n as [|n [IH|(k & Hk & Z)]].
  - left. intros; lia.
  - destruct (Qeq_dec (U n n) 0) as [Z|Nz].
    + right. exists n. split; [lia | exact Z].
    + left. intros i Hi. destruct (Nat.eq_dec i n) as [->|]; [exact Nz | apply IH; lia].
  - right. exists k. split; [lia | exact Z].
Qed.

Theorem fdet_mul_upper n U B : up_tri n U -> (fdet n (fmul n U B) == fdet n U * fdet n B)%Q.
Proof.
  intros T. destruct (diag_dec U n) as [Nz|Ze].
  - rewrite (G_upper_regular n (fun A => fdet n (fmul n A B)) (GB_ext n B) (GB_add n B) (GB_scale n B) U T Nz).
    rewrite (G_upper_regular n (fdet n) (fdet_ext n) (fdet_row_add n) (fdet_row_scale n) U T Nz).
    rewrite fdet_fid. rewrite (fdet_ext n (fmul n fid B) B); [ring|].
    intros r c Hr Hc. unfold fmul. exact (qsum_delta (fun k => B k c) r n Hr).
  - rewrite (G_upper_singular n (fun A => fdet n (fmul n A B)) (GB_ext n B) (GB_add n B) (GB_scale n B) U T Ze).
    rewrite (G_upper_singular n (fdet n) (fdet_ext n) (fdet_row_add n) (fdet_row_scale n) U T Ze). ring.
Qed.

(* ---------- THE DETERMINANT IS MULTIPLICATIVE ---------- *)
Theorem fdet_mul n (a : qmat) B : dims n a -> (fdet n (fmul n (qget a) B) == fdet n (qget a) * fdet n B)%Q.
Proof.
  intros Da. set (U := stU (lu_state a n)). set (s := lu_sign a n).
  destruct (lu_state_det a n Da n (le_n _)) as (E1 & Z). fold U s in E1, Z.
  pose proof (lu_state_G n (fun A => fdet n (fmul n A B)) (GB_ext n B) (GB_swap n B) (GB_add n B) a Da n (le_n _)) as E2.
  cbn beta in E2. fold U s in E2.
  assert (up_tri n (qget U)) as T by (intros r c Hc Hr; apply Z; lia).
  pose proof (fdet_mul_upper n (qget U) B T) as E3. rewrite E2, E1 in E3.
  pose proof (lu_sign_sq a n) as Sq. fold s in Sq.
  transitivity ((s * s) * fdet n (fmul n (qget a) B))%Q; [rewrite Sq; ring|].
  transitivity (s * (s * fdet n (fmul n (qget a) B)))%Q; [ring|]. rewrite E3.
  transitivity ((s * s) * (fdet n (qget a) * fdet n B))%Q; [ring|]. rewrite Sq. ring.
Qed.

Definition qmat_mul (n : nat) (a b : qmat) : qmat :=
  map (fun r => map (fun c => qsum (fun k => qget a r k * qget b k c)%Q n) (seq 0 n)) (seq 0 n).

Lemma qmat_mul_dims n a b : dims n (qmat_mul n a b).
Proof.
  unfold qmat_mul. split; [now rewrite map_length, seq_length|]. intros r Hr.
  rewrite nth_map_seq0 by exact Hr. now rewrite map_length, seq_length.
Qed.

Theorem det_mul n (a b : qmat) : 2 <= n -> dims n a -> dims n b ->
  (det (qmat_mul n a b) == det a * det b)%Q.
Proof.
  intros N2 Da Db. rewrite (det_fdet n _ N2 (qmat_mul_dims n a b)), (det_fdet n a N2 Da), (det_fdet n b N2 Db).
  rewrite <- (fdet_mul n a (qget b) Da). apply fdet_ext. intros r c Hr Hc.
  unfold qmat_mul, qget at 1. rewrite nth_map_seq0 by exact Hr. rewrite nth_map_seq0 by exact Hc. reflexivity.
Qed.

Example det_mul_example :
  let a := [[2;1;1];[4;3;3];[8;7;9]]%Q in let b := [[0;1;2];[1;0;3];[4;-3;8]]%Q in
  (det (qmat_mul 3 a b) == det a * det b)%Q /\ ~ (det (qmat_mul 3 a b) == 0)%Q.
Proof. cbn zeta. split; vm_compute; [reflexivity | discriminate]. Qed.

(* deleting what was just inserted restores the original (C13): the flat insertion interleaves, for every original
   position, the values requested there with the original element; `marks` flags the inserted slots of the result and
   `flagged 0 marks` lists their positions; removing exactly those positions gives back the original list *)
From ArrRs Require Import Index Index_proofs Lists_proofs Axis Reshape_proofs Broadcast Broadcast_proofs Split Lift Reduce Sort Edit
  Edit_proofs Delete_proofs Insert_proofs.

Fixpoint flagged (k : nat) (mk_ : list bool) : list nat :=
  match mk_ with [] => [] | b :: t => (if b then [k] else []) ++ flagged (S k) t end.

Lemma flagged_ge k mk_ : forall j, In j (flagged k mk_) -> k <= j.
Proof.
  revert k; induction mk_ as [|b t IH]; intros k j H; [destruct H|]. cbn [flagged] in H. apply in_app_or in H as [H|H].
  - destruct b; [destruct H as [<-|[]]; lia | destruct H].
  - apply IH in H. lia.
Qed.

Lemma flagged_lt k mk_ : forall j, In j (flagged k mk_) -> j < k + length mk_.
Proof.
  revert k; induction mk_ as [|b t IH]; intros k j H; [destruct H|]. cbn [flagged length] in *. apply in_app_or in H as [H|H].
  - destruct b; [destruct H as [<-|[]]; lia | destruct H].
  - apply IH in H. lia.
Qed.

Lemma existsb_eqb_false k ks : (forall j, In j ks -> k < j) -> existsb (Nat.eqb k) ks = false.
Proof.
  induction ks as [|x t IH]; intros H; [reflexivity|]. cbn [existsb].
  destruct (Nat.eqb_spec k x) as [->|_]; [specialize (H x (or_introl eq_refl)); lia|]. apply IH. intros; apply H; now right.
Qed.

Lemma keep_from_drop_small {A} (l : list A) : forall k j ks, j < k -> keep_from k l (j :: ks) = keep_from k l ks.
Proof.
  induction l as [|x t IH]; intros k j ks H; [reflexivity|]. cbn [keep_from existsb].
  destruct (Nat.eqb_spec k j); [lia|]. cbn [orb]. rewrite IH by lia. reflexivity.
Qed.

(* removing the flagged positions keeps exactly the unflagged entries *)
Lemma keep_flagged {A} (r : list A) : forall k mk_, length mk_ = length r ->
  keep_from k r (flagged k mk_) = map fst (filter (fun p => negb (snd p)) (combine r mk_)).
Proof.
  induction r as [|x t IH]; intros k [|b m] L; try discriminate; [reflexivity|].
  cbn [flagged combine filter snd keep_from]. destruct b; cbn [app negb].
  - cbn [existsb]. rewrite Nat.eqb_refl. cbn [orb]. rewrite keep_from_drop_small by lia. apply IH. cbn in L; lia.
  - rewrite existsb_eqb_false by (intros j Hj; apply flagged_ge in Hj; lia). cbn [map fst]. f_equal. apply IH. cbn in L; lia.
Qed.

Section Roundtrip.
Context {T : Type} (d : T).

Definition marks (l : list T) (pairs : list (nat * T)) : list bool :=
  flat_map (fun i => repeat true (length (group i pairs)) ++ (if i <? length l then [false] else [])) (seq 0 (S (length l))).

Lemma combine_flat_map {A B C} (f : C -> list A) (g : C -> list B) (s : list C) :
  (forall i, In i s -> length (f i) = length (g i)) ->
  combine (flat_map f s) (flat_map g s) = flat_map (fun i => combine (f i) (g i)) s.
Proof.
  induction s as [|x t IH]; intros H; [reflexivity|]. cbn [flat_map].
  assert (forall (a1 a2 : list A) (b1 b2 : list B), length a1 = length b1 -> combine (a1 ++ a2) (b1 ++ b2) = combine a1 b1 ++ combine a2 b2) as CA.
  { induction a1 as [|u a1 IHa]; intros a2 [|v b1] b2 L; try discriminate; [reflexivity|]. cbn. f_equal. apply IHa. cbn in L; lia. }
  rewrite CA by (apply H; now left). rewrite IH by (intros; apply H; now right). reflexivity.
Qed.

Lemma marks_length l pairs : length (marks l pairs) = length (insert_spec d l pairs).
Proof.
  unfold marks, insert_spec. induction (seq 0 (S (length l))) as [|i t IH]; [reflexivity|]. cbn [flat_map].
  rewrite !app_length, IH, repeat_length. destruct (i <? length l); reflexivity.
Qed.

(* THE ROUND TRIP at list level *)
Theorem insert_then_delete (l : list T) pairs :
  keep (insert_spec d l pairs) (flagged 0 (marks l pairs)) = l.
Proof.
  unfold keep. rewrite keep_flagged by apply marks_length. unfold insert_spec, marks.
  rewrite combine_flat_map.
  2:{ intros i _. rewrite !app_length, repeat_length. destruct (i <? length l); reflexivity. }
  assert (forall s, map fst (filter (fun p : T * bool => negb (snd p))
            (flat_map (fun i => combine (group i pairs ++ (if i <? length l then [nth i l d] else []))
                                        (repeat true (length (group i pairs)) ++ (if i <? length l then [false] else []))) s))
          = flat_map (fun i => if i <? length l then [nth i l d] else []) s) as G.
  { induction s as [|i t IH]; [reflexivity|]. cbn [flat_map]. rewrite filter_app, map_app, IH. f_equal.
    generalize (group i pairs) as vs. induction vs as [|v vs IHv]; cbn [app length repeat combine].
    - destruct (i <? length l); reflexivity.
    - cbn [filter snd negb]. exact IHv. }
  rewrite G. rewrite seq_S, flat_map_app. cbn [flat_map Nat.add]. rewrite Nat.ltb_irrefl, app_nil_r.
  rewrite (flat_map_ext_in' _ (fun i => [nth i l d]))
    by (intros i Hi; apply in_seq in Hi; destruct (Nat.ltb_spec i (length l)); [reflexivity | lia]).
  assert (forall (f : nat -> T) s, flat_map (fun i => [f i]) s = map f s) as FM
    by (intros f s; induction s as [|x t IH]; cbn; [reflexivity | now rewrite IH]).
  rewrite FM. apply map_nth_seq.
Qed.

(* ... and at array level: deleting the flagged positions from the result of the flat insertion returns the
   flattened original *)
Theorem insert_then_delete_arr (a : arr T) pairs :
  delete d (mk (insert_spec d (elems a) pairs) [length (insert_spec d (elems a) pairs)]) (flagged 0 (marks (elems a) pairs)) None
  = Ok (mk (elems a) [len a]).
Proof.
  destruct (delete_flat_spec d (mk (insert_spec d (elems a) pairs) [length (insert_spec d (elems a) pairs)])
              (flagged 0 (marks (elems a) pairs))) as [E _].
  - intros i Hi. apply flagged_lt in Hi. rewrite marks_length in Hi. unfold len. cbn [elems]. lia.
  - rewrite E. cbn [elems]. rewrite insert_then_delete. reflexivity.
Qed.

End Roundtrip.

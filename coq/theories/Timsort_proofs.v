(* tim_sort returns an ordered list (C10): insertion sort orders every run of min_run elements, every merge pass
   merges neighbouring ordered runs into ordered runs of twice the length, until one run is left. *)
From ArrRs Require Import Index Index_proofs Lists_proofs Axis Reshape_proofs Reduce Sort Sort_proofs.
From Coq Require Import Permutation Sorted.

Section TimProofs.
Context {T : Type} (ltb : T -> T -> bool) (d : T).
Hypothesis lt_le : forall x y, ltb x y = true -> le ltb x y.
Hypothesis le_trans : forall x y z, le ltb x y -> le ltb y z -> le ltb x z.

Local Notation leT := (le ltb).
Local Notation sortedT := (sorted ltb).

Lemma leT_total x y : leT x y \/ leT y x.
Proof. unfold le. destruct (ltb y x) eqn:E; [right; now apply lt_le | now left]. Qed.

(* ---------- chunks ---------- *)
Definition ch (r : nat) (l : list T) (k : nat) : list T := firstn r (skipn (k * r) l).
Definition nchunks (r n : nat) : nat := (n + r - 1) / r.

Lemma ch_succ r l k : ch r l (S k) = ch r (skipn r l) k.
Proof. unfold ch. rewrite skipn_skipn. f_equal. f_equal. lia. Qed.

Lemma nchunks_zero r : 1 <= r -> nchunks r 0 = 0.
Proof. intros H. unfold nchunks. apply Nat.div_small. lia. Qed.

Lemma nchunks_step r n : 1 <= r -> 1 <= n -> nchunks r n = S (nchunks r (n - r)).
Proof.
  intros Hr Hn. unfold nchunks. destruct (Nat.le_gt_cases n r) as [L|G].
  - replace (n - r) with 0 by lia. replace ((0 + r - 1) / r) with 0 by (symmetry; apply Nat.div_small; lia).
    symmetry. apply (Nat.div_unique _ r 1 (n - 1)); lia.
  - replace (n + r - 1) with ((n - r + r - 1) + 1 * r) by lia. rewrite Nat.div_add by lia. lia.
Qed.

Lemma concat_chunks r : 1 <= r -> forall n l, length l = n ->
  concat (map (ch r l) (seq 0 (nchunks r n))) = l.
Proof.
  intros Hr n. induction n as [n IH] using lt_wf_ind. intros l L. destruct (Nat.eq_dec n 0) as [->|Nz].
  - rewrite nchunks_zero by exact Hr. destruct l; [reflexivity | discriminate].
  - rewrite nchunks_step by lia. cbn [seq map concat]. rewrite <- seq_shift, map_map.
    rewrite (map_ext _ (ch r (skipn r l))) by (intros k; apply ch_succ).
    rewrite (IH (n - r)) by (rewrite ?skipn_length; lia).
    unfold ch. cbn [Nat.mul skipn]. apply firstn_skipn.
Qed.

Lemma ch_length r l k : length (ch r l k) = Nat.min r (length l - k * r).
Proof. unfold ch. now rewrite firstn_length, skipn_length. Qed.

(* ---------- insertion from the right into an ordered list ---------- *)
Fixpoint insr (rs : list T) (x : T) : list T :=
  match rs with
  | [] => [x]
  | y :: t => if ltb x y then y :: insr t x else x :: y :: t
  end.
Definition ins (s : list T) (x : T) : list T := rev (insr (rev s) x).

Lemma insr_perm rs x : Permutation (insr rs x) (x :: rs).
Proof.
  induction rs as [|y t IH]; cbn [insr]; [reflexivity|]. destruct (ltb x y); [|reflexivity].
  rewrite IH. apply perm_swap.
Qed.

Lemma insr_length rs x : length (insr rs x) = S (length rs).
Proof. apply Permutation_length with (l' := x :: rs), insr_perm. Qed.

(* rs is the reversed ordered list: non-increasing *)
Definition desc (rs : list T) : Prop := StronglySorted (fun a b => leT b a) rs.

Lemma insr_desc rs x : desc rs -> desc (insr rs x).
Proof.
  induction rs as [|y t IH]; intros S; cbn [insr]; [repeat constructor|]. inversion S as [|? ? S' F]; subst.
  destruct (ltb x y) eqn:E.
  - constructor; [now apply IH|]. apply Forall_forall. intros z Hz.
    apply (Permutation_in _ (insr_perm t x)) in Hz. destruct Hz as [<-|Hz]; [now apply lt_le|].
    rewrite Forall_forall in F. now apply F.
  - constructor; [exact S|]. constructor; [exact E|]. rewrite Forall_forall in *. intros z Hz.
    apply (le_trans z y x); [now apply F | exact E].
Qed.

Lemma desc_rev s : sortedT s -> desc (rev s).
Proof.
  induction 1 as [|x l S IH F]; cbn [rev]; [constructor|].
  assert (forall (l0 : list T) y, desc l0 -> Forall (fun z => leT y z) l0 -> desc (l0 ++ [y])) as K.
  { induction l0 as [|h t IHt]; intros y D Fy; cbn [app]; [repeat constructor|].
    inversion D; inversion Fy; subst. constructor; [now apply IHt|]. apply Forall_app. split; [assumption | now constructor]. }
  apply K; [exact IH | now apply Forall_rev].
Qed.

Lemma sorted_rev rs : desc rs -> sortedT (rev rs).
Proof.
  induction 1 as [|x l S IH F]; cbn [rev]; [constructor|].
  assert (forall (l0 : list T) y, sortedT l0 -> Forall (fun z => leT z y) l0 -> sortedT (l0 ++ [y])) as K.
  { induction l0 as [|h t IHt]; intros y D Fy; cbn [app]; [repeat constructor|].
    inversion D; inversion Fy; subst. constructor; [now apply IHt|]. apply Forall_app. split; [assumption | now constructor]. }
  apply K; [exact IH | now apply Forall_rev].
Qed.

Lemma ins_sorted s x : sortedT s -> sortedT (ins s x) /\ Permutation (ins s x) (s ++ [x]) /\ length (ins s x) = S (length s).
Proof.
  intros S. unfold ins. split; [apply sorted_rev, insr_desc, desc_rev, S|]. split.
  - rewrite <- Permutation_rev, insr_perm. rewrite Permutation_app_comm. cbn [app]. constructor. apply Permutation_sym, Permutation_rev.
  - now rewrite rev_length, insr_length, rev_length.
Qed.

(* ---------- the inner loop of insertion sort ---------- *)
Lemma upd_app_mid {A} (l1 l2 : list A) v w : upd (l1 ++ v :: l2) (length l1) w = l1 ++ w :: l2.
Proof. induction l1 as [|h t IH]; cbn; auto. now rewrite IH. Qed.

Lemma nth_app_mid {A} (l1 l2 : list A) v dA : nth (length l1) (l1 ++ v :: l2) dA = v.
Proof. induction l1 as [|h t IH]; cbn; auto. Qed.

Lemma swap_adjacent (l1 l2 : list T) y x :
  swap_at d (l1 ++ y :: x :: l2) (S (length l1)) (length l1) = l1 ++ x :: y :: l2.
Proof.
  unfold swap_at.
  assert (nth (length l1) (l1 ++ y :: x :: l2) d = y) as -> by apply nth_app_mid.
  assert (nth (S (length l1)) (l1 ++ y :: x :: l2) d = x) as ->.
  { replace (l1 ++ y :: x :: l2) with ((l1 ++ [y]) ++ x :: l2) by (now rewrite <- app_assoc).
    replace (S (length l1)) with (length (l1 ++ [y])) by (rewrite app_length; cbn; lia). apply nth_app_mid. }
  replace (l1 ++ y :: x :: l2) with ((l1 ++ [y]) ++ x :: l2) at 1 by (now rewrite <- app_assoc).
  replace (S (length l1)) with (length (l1 ++ [y])) by (rewrite app_length; cbn; lia).
  rewrite upd_app_mid. rewrite <- app_assoc. cbn [app]. apply upd_app_mid.
Qed.

Lemma ins_snoc s y x : ins (s ++ [y]) x = if ltb x y then ins s x ++ [y] else s ++ [y; x].
Proof.
  unfold ins. rewrite rev_app_distr. cbn [rev app insr]. destruct (ltb x y); cbn [rev].
  - reflexivity.
  - rewrite rev_involutive. now rewrite <- app_assoc.
Qed.

Lemma sink_spec : forall s x pre post fuel, length s < fuel ->
  sink ltb d fuel (pre ++ s ++ x :: post) (length pre) (length pre + length s) = pre ++ ins s x ++ post.
Proof.
  induction s as [|y s' IH] using rev_ind; intros x pre post fuel Hf; (destruct fuel as [|f]; [lia|]); cbn [sink].
  - cbn [length app]. rewrite Nat.add_0_r, Nat.ltb_irrefl. cbn [andb]. reflexivity.
  - rewrite app_length in *. cbn [length] in *.
    destruct (Nat.ltb_spec (length pre) (length pre + (length s' + 1))); [|lia]. cbn [andb].
    set (l1 := pre ++ s').
    assert (pre ++ (s' ++ [y]) ++ x :: post = l1 ++ y :: x :: post) as Ea by (unfold l1; now rewrite <- !app_assoc).
    assert (length pre + (length s' + 1) = S (length l1)) as Ej by (unfold l1; rewrite app_length; lia).
    rewrite Ea, Ej. replace (S (length l1) - 1) with (length l1) by lia.
    assert (nth (S (length l1)) (l1 ++ y :: x :: post) d = x) as ->.
    { replace (l1 ++ y :: x :: post) with ((l1 ++ [y]) ++ x :: post) by (now rewrite <- app_assoc).
      replace (S (length l1)) with (length (l1 ++ [y])) by (rewrite app_length; cbn; lia). apply nth_app_mid. }
    rewrite nth_app_mid. rewrite ins_snoc. destruct (ltb x y).
    + rewrite swap_adjacent. unfold l1. rewrite <- app_assoc. rewrite app_length.
      rewrite (IH x pre (y :: post) f) by lia. now rewrite <- !app_assoc.
    + unfold l1. now rewrite <- !app_assoc.
Qed.

(* ---------- insertion sort of a segment ---------- *)
Definition isort (seg : list T) : list T := fold_left ins seg [].

Lemma isort_spec seg : sortedT (isort seg) /\ Permutation (isort seg) seg /\ length (isort seg) = length seg.
Proof.
  unfold isort. assert (forall acc, sortedT acc ->
    sortedT (fold_left ins seg acc) /\ Permutation (fold_left ins seg acc) (acc ++ seg) /\ length (fold_left ins seg acc) = length acc + length seg) as G.
  { induction seg as [|x t IH]; intros acc S; cbn [fold_left].
    - rewrite app_nil_r. repeat split; auto; cbn; lia.
    - destruct (ins_sorted acc x S) as (S1 & P1 & L1). destruct (IH _ S1) as (S2 & P2 & L2).
      split; [exact S2|]. split.
      + rewrite P2, P1, <- app_assoc. reflexivity.
      + rewrite L2, L1. cbn [length]. lia. }
  destruct (G [] ltac:(constructor)) as (S & P & L). repeat split; auto.
Qed.

(* insertion_sort on the segment [left, right] of the list: everything else is untouched *)
Lemma insertion_sort_spec pre seg post : seg <> [] ->
  insertion_sort ltb d (pre ++ seg ++ post) (length pre) (length pre + length seg - 1) = pre ++ isort seg ++ post.
Proof.
  intros Hne. unfold insertion_sort. destruct seg as [|x0 seg']; [congruence|]. clear Hne. cbn [length].
  replace (length pre + S (length seg') - 1 - length pre) with (length seg') by lia.
  (* after handling the first k elements of seg' the list is pre ++ isort (x0 :: firstn k seg') ++ skipn k seg' ++ post *)
  assert (forall k, k <= length seg' ->
    fold_left (fun a i => sink ltb d (S i) a (length pre) i) (seq (length pre + 1) k) (pre ++ (x0 :: seg') ++ post)
    = pre ++ isort (x0 :: firstn k seg') ++ skipn k seg' ++ post) as G.
  { induction k as [|k IHk]; intros Hk.
    - cbn [seq fold_left firstn skipn]. unfold isort. cbn [fold_left]. unfold ins. cbn. reflexivity.
    - rewrite seq_S, fold_left_app. cbn [fold_left]. rewrite IHk by lia.
      destruct (skipn k seg') as [|x rest] eqn:Sk.
      { pose proof (skipn_length k seg') as Q. rewrite Sk in Q. cbn in Q. lia. }
      destruct (isort_spec (x0 :: firstn k seg')) as (_ & _ & Li). cbn [length] in Li. rewrite firstn_length in Li.
      replace (Nat.min k (length seg')) with k in Li by lia.
      replace (length pre + 1 + k) with (length pre + length (isort (x0 :: firstn k seg'))) by lia.
      cbn [app]. rewrite sink_spec by lia.
      assert (firstn (S k) seg' = firstn k seg' ++ [x]) as ->.
      { rewrite <- (firstn_skipn k seg') at 1. rewrite Sk. rewrite firstn_app, firstn_firstn, firstn_length.
        replace (Nat.min (S k) k) with k by lia. replace (S k - Nat.min k (length seg')) with 1 by lia. reflexivity. }
      assert (skipn (S k) seg' = rest) as ->.
      { replace (S k) with (1 + k) by lia. rewrite <- skipn_skipn, Sk. reflexivity. }
      f_equal. unfold isort. change (x0 :: firstn k seg' ++ [x]) with ((x0 :: firstn k seg') ++ [x]).
      rewrite fold_left_app. cbn [fold_left]. reflexivity. }
  rewrite (G (length seg') ltac:(lia)). rewrite firstn_all, skipn_all. reflexivity.
Qed.

(* ---------- merging two ordered runs ---------- *)
Lemma merge_le_sorted l1 l2 : sortedT l1 -> sortedT l2 -> sortedT (merge_le ltb l1 l2).
Proof.
  revert l2; induction l1 as [|x t1 IH1]; intros l2 S1 S2.
  - destruct l2; exact S2.
  - induction l2 as [|y t2 IH2]; [exact S1|].
    cbn [merge_le]. destruct (sorted_cons_inv ltb _ _ S1) as [S1' F1]. destruct (sorted_cons_inv ltb _ _ S2) as [S2' F2].
    destruct (ltb y x) eqn:E; cbn [negb].
    + change (sortedT (y :: merge_le ltb (x :: t1) t2)). constructor; [apply IH2; auto|].
      apply (Permutation_Forall (Permutation_sym (merge_le_perm ltb (x :: t1) t2))).
      apply Forall_app. split; [|exact F2]. constructor; [now apply lt_le|].
      eapply Forall_impl; [|exact F1]. intros z Hz. apply (le_trans y x z); [now apply lt_le | exact Hz].
    + constructor; [apply IH1; auto|].
      apply (Permutation_Forall (Permutation_sym (merge_le_perm ltb t1 (y :: t2)))).
      apply Forall_app. split; [exact F1|]. constructor; [exact E|].
      eapply Forall_impl; [|exact F2]. intros z Hz. apply (le_trans x y z); [exact E | exact Hz].
Qed.

Lemma seg_firstn {A} (pre rest : list A) : firstn (length pre) (pre ++ rest) = pre.
Proof. rewrite firstn_app, firstn_all, Nat.sub_diag. cbn. apply app_nil_r. Qed.

Lemma seg_skipn {A} (pre rest : list A) k : k <= length rest -> skipn (length pre + k) (pre ++ rest) = skipn k rest.
Proof. intros H. rewrite Nat.add_comm, <- skipn_skipn, skipn_app, skipn_all, Nat.sub_diag. reflexivity. Qed.

Lemma seg_skipn0 {A} (pre rest : list A) : skipn (length pre) (pre ++ rest) = rest.
Proof. rewrite skipn_app, skipn_all, Nat.sub_diag. reflexivity. Qed.

Lemma firstn_app_le {A} (l1 l2 : list A) k : k <= length l1 -> firstn k (l1 ++ l2) = firstn k l1.
Proof. intros H. rewrite firstn_app. replace (k - length l1) with 0 by lia. cbn. apply app_nil_r. Qed.

Lemma skipn_app_le {A} (l1 l2 : list A) k : k <= length l1 -> skipn k (l1 ++ l2) = skipn k l1 ++ l2.
Proof. intros H. rewrite skipn_app. replace (k - length l1) with 0 by lia. reflexivity. Qed.

(* what a merge pass does to one run of at most 2 * size elements *)
Definition merge_halves (size : nat) (b : list T) : list T :=
  if size <? length b then merge_le ltb (firstn size b) (skipn size b) else b.

Lemma merge_halves_length size b : length (merge_halves size b) = length b.
Proof.
  unfold merge_halves. destruct (size <? length b); [|reflexivity].
  rewrite (Permutation_length (merge_le_perm ltb _ _)), app_length, firstn_length, skipn_length. lia.
Qed.

Lemma merge_halves_sorted size b : sortedT (firstn size b) -> sortedT (skipn size b) -> sortedT (merge_halves size b).
Proof.
  intros S1 S2. unfold merge_halves. destruct (Nat.ltb_spec size (length b)); [now apply merge_le_sorted|].
  rewrite firstn_all2 in S1 by lia. exact S1.
Qed.

(* the merge step on the run that starts at |pre| *)
Lemma merge_step_spec size n pre b post : 1 <= size -> b <> [] ->
  length (pre ++ b ++ post) = n -> length b = Nat.min (2 * size) (n - length pre) ->
  (let left := length pre in
   let mid := Nat.min (n - 1) (left + size - 1) in
   let right := Nat.min (left + 2 * size - 1) (n - 1) in
   if mid <? right then merge_runs ltb (pre ++ b ++ post) left mid right else pre ++ b ++ post)
  = pre ++ merge_halves size b ++ post.
Proof.
  intros Hs Hne Ln Lb. cbn zeta. rewrite !app_length in Ln.
  assert (1 <= length b) as Hb by (destruct b; [congruence | cbn; lia]).
  unfold merge_halves. destruct (Nat.ltb_spec size (length b)) as [L|G].
  - (* two runs: mid = left + size - 1 < right = left + |b| - 1 *)
    assert (Nat.min (n - 1) (length pre + size - 1) = length pre + size - 1) as -> by lia.
    assert (Nat.min (length pre + 2 * size - 1) (n - 1) = length pre + length b - 1) as -> by lia.
    destruct (Nat.ltb_spec (length pre + size - 1) (length pre + length b - 1)); [|lia].
    unfold merge_runs.
    replace (length pre + size - 1 - length pre + 1) with size by lia.
    replace (length pre + length b - 1 - (length pre + size - 1)) with (length b - size) by lia.
    replace (length pre + size - 1 + 1) with (length pre + size) by lia.
    replace (length pre + length b - 1 + 1) with (length pre + length b) by lia.
    rewrite (seg_firstn pre (b ++ post)), (seg_skipn0 pre (b ++ post)).
    rewrite (firstn_app_le b post size) by lia.
    rewrite (seg_skipn pre (b ++ post) size) by (rewrite app_length; lia).
    rewrite (skipn_app_le b post size) by lia.
    rewrite (firstn_app_le (skipn size b) post (length b - size)) by (rewrite skipn_length; lia).
    rewrite (firstn_all2 (skipn size b)) by (rewrite skipn_length; lia).
    rewrite (seg_skipn pre (b ++ post) (length b)) by (rewrite app_length; lia).
    rewrite (skipn_app_le b post (length b)) by lia. rewrite skipn_all. reflexivity.
  - (* a single run: nothing to merge *)
    destruct (Nat.ltb_spec (Nat.min (n - 1) (length pre + size - 1)) (Nat.min (length pre + 2 * size - 1) (n - 1))); [lia | reflexivity].
Qed.

(* (0..n).step_by(r) *)
Lemma steps_spec r n : 1 <= r -> forall f k, n - k * r <= f ->
  steps f (k * r) r n = map (fun i => (k + i) * r) (seq 0 (nchunks r (n - k * r))).
Proof.
  intros Hr. induction f as [|f IH]; intros k H.
  - replace (n - k * r) with 0 by lia. rewrite nchunks_zero by exact Hr. reflexivity.
  - cbn [steps]. destruct (Nat.ltb_spec (k * r) n) as [L|G].
    + rewrite nchunks_step by lia. cbn [seq map]. rewrite Nat.add_0_r. f_equal.
      replace (k * r + r) with (S k * r) by lia. rewrite IH by lia.
      replace (n - k * r - r) with (n - S k * r) by lia. rewrite <- seq_shift, map_map. apply map_ext. intros; f_equal; lia.
    + replace (n - k * r) with 0 by lia. rewrite nchunks_zero by exact Hr. reflexivity.
Qed.

Lemma steps_all r n : 1 <= r -> steps n 0 r n = map (fun i => i * r) (seq 0 (nchunks r n)).
Proof.
  intros Hr. pose proof (steps_spec r n Hr n 0 ltac:(lia)) as H. cbn [Nat.mul Nat.add] in H.
  rewrite Nat.sub_0_r in H. exact H.
Qed.

(* ---------- a pass that rewrites consecutive runs of r elements, one after the other ---------- *)
Section RunFold.
Variables (r n : nat) (step : list T -> nat -> list T) (g : list T -> list T).
Hypothesis Hr : 1 <= r.
Hypothesis Hstep : forall pre b post, b <> [] -> length (pre ++ b ++ post) = n ->
  length b = Nat.min r (n - length pre) -> step (pre ++ b ++ post) (length pre) = pre ++ g b ++ post.
Hypothesis Hg : forall b, length (g b) = length b.

Lemma g_nil : g [] = [].
Proof. pose proof (Hg []) as H. destruct (g []); [reflexivity | discriminate]. Qed.

Lemma nchunks_zero_inv len : nchunks r len = 0 -> len = 0.
Proof.
  unfold nchunks. intros H. destruct (Nat.eq_dec len 0); [assumption|].
  assert (1 <= (len + r - 1) / r) by (apply Nat.div_le_lower_bound; lia). lia.
Qed.

Lemma run_fold : forall m pre rest, length (pre ++ rest) = n -> m = nchunks r (length rest) ->
  fold_left step (map (fun i => length pre + i * r) (seq 0 m)) (pre ++ rest)
  = pre ++ concat (map g (map (ch r rest) (seq 0 m))).
Proof.
  induction m as [|m IH]; intros pre rest Ln Hm.
  - symmetry in Hm. apply nchunks_zero_inv in Hm. destruct rest; [|discriminate]. reflexivity.
  - assert (rest <> []) as Hne by (intros ->; cbn in Hm; rewrite nchunks_zero in Hm by exact Hr; discriminate).
    assert (1 <= length rest) as Hl by (destruct rest; [congruence | cbn; lia]).
    rewrite nchunks_step in Hm by lia. injection Hm as Hm.
    set (b := firstn r rest). set (rest' := skipn r rest).
    assert (rest = b ++ rest') as Er by (unfold b, rest'; symmetry; apply firstn_skipn).
    assert (length b = Nat.min r (length rest)) as Lb by (unfold b; apply firstn_length).
    assert (length rest' = length rest - r) as Lr' by (unfold rest'; apply skipn_length).
    rewrite app_length in Ln.
    cbn [seq map fold_left]. rewrite Nat.mul_0_l, Nat.add_0_r.
    rewrite Er at 1. rewrite Hstep; [| unfold b; destruct rest; [congruence | destruct r; [lia | discriminate]]
                                     | rewrite <- Er, app_length; lia | lia].
    rewrite <- seq_shift, !map_map.
    assert (ch r rest 0 = b) as E0 by (unfold ch; cbn [Nat.mul skipn]; reflexivity).
    rewrite E0. cbn [concat].
    rewrite (map_ext (fun x => g (ch r rest (S x))) (fun x => g (ch r rest' x))) by (intros; now rewrite ch_succ).
    destruct m as [|m'].
    + cbn [seq map fold_left concat]. symmetry in Hm. apply nchunks_zero_inv in Hm.
      assert (rest' = []) as -> by (destruct rest'; [reflexivity | cbn [length] in Lr'; lia]). reflexivity.
    + (* more runs follow: this one is full *)
      assert (r < length rest) as Hfull.
      { destruct (Nat.le_gt_cases (length rest) r) as [L|G]; [|exact G]. exfalso.
        replace (length rest - r) with 0 in Hm by lia. rewrite nchunks_zero in Hm by exact Hr. discriminate. }
      assert (length (g b) = r) as Lg by (rewrite Hg, Lb; lia).
      rewrite (map_ext (fun x => length pre + S x * r) (fun i => length (pre ++ g b) + i * r))
        by (intros; rewrite app_length, Lg; lia).
      replace (pre ++ g b ++ rest') with ((pre ++ g b) ++ rest') by (now rewrite <- app_assoc).
      rewrite (IH (pre ++ g b) rest'); [| rewrite !app_length, Lg; lia | rewrite Lr'; exact Hm].
      rewrite map_map. now rewrite <- app_assoc.
Qed.

(* the runs of the result are the rewritten runs of the input *)
Lemma ch_run_fold : forall m rest, m = nchunks r (length rest) -> forall k,
  ch r (concat (map g (map (ch r rest) (seq 0 m)))) k = g (ch r rest k).
Proof.
  induction m as [|m IH]; intros rest Hm k.
  - symmetry in Hm. apply nchunks_zero_inv in Hm. destruct rest; [|discriminate]. cbn [seq map concat].
    unfold ch. rewrite !skipn_nil, !firstn_nil. now rewrite g_nil.
  - assert (rest <> []) as Hne by (intros ->; cbn in Hm; rewrite nchunks_zero in Hm by exact Hr; discriminate).
    assert (1 <= length rest) as Hl by (destruct rest; [congruence | cbn; lia]).
    rewrite nchunks_step in Hm by lia. injection Hm as Hm.
    set (b := firstn r rest). set (rest' := skipn r rest).
    assert (length b = Nat.min r (length rest)) as Lb by (unfold b; apply firstn_length).
    assert (length rest' = length rest - r) as Lr' by (unfold rest'; apply skipn_length).
    cbn [seq map concat]. rewrite <- seq_shift, !map_map.
    assert (ch r rest 0 = b) as E0 by (unfold ch; cbn [Nat.mul skipn]; reflexivity). rewrite E0.
    rewrite (map_ext (fun x => g (ch r rest (S x))) (fun x => g (ch r rest' x))) by (intros; now rewrite ch_succ).
    set (X := concat (map (fun x => g (ch r rest' x)) (seq 0 m))).
    assert (X = concat (map g (map (ch r rest') (seq 0 m)))) as EX by (unfold X; now rewrite map_map).
    destruct m as [|m'].
    + (* the last run *)
      assert (X = []) as -> by reflexivity. rewrite app_nil_r.
      assert (length rest <= r) as Hle.
      { symmetry in Hm. apply nchunks_zero_inv in Hm. lia. }
      destruct k as [|k'].
      * unfold ch at 1. cbn [Nat.mul skipn]. rewrite firstn_all2 by (rewrite Hg, Lb; lia). now rewrite E0.
      * rewrite (ch_succ r rest k'). fold rest'. assert (rest' = []) as -> by (destruct rest'; [reflexivity | cbn in Lr'; lia]).
        unfold ch. rewrite (skipn_all2 (g b)) by (rewrite Hg, Lb; nia). rewrite skipn_nil, !firstn_nil. now rewrite g_nil.
    + assert (r < length rest) as Hfull.
      { destruct (Nat.le_gt_cases (length rest) r) as [L|G]; [|exact G]. exfalso.
        replace (length rest - r) with 0 in Hm by lia. rewrite nchunks_zero in Hm by exact Hr. discriminate. }
      assert (length (g b) = r) as Lg by (rewrite Hg, Lb; lia).
      destruct k as [|k'].
      * unfold ch at 1. cbn [Nat.mul skipn]. rewrite firstn_app_le by lia. rewrite firstn_all2 by lia. now rewrite E0.
      * rewrite (ch_succ r rest k'). fold rest'. unfold ch at 1.
        replace (S k' * r) with (k' * r + length (g b)) by lia.
        rewrite <- skipn_skipn, seg_skipn0. fold (ch r X k'). rewrite EX. apply IH. rewrite Lr'. exact Hm.
Qed.

Lemma length_concat_g L : length (concat (map g L)) = length (concat L).
Proof. induction L as [|x t IH]; [reflexivity|]. cbn [map concat]. now rewrite !app_length, Hg, IH. Qed.

(* one whole pass over (0..n).step_by(r) *)
Lemma pass_spec l : length l = n ->
  length (fold_left step (steps n 0 r n) l) = n /\
  forall k, ch r (fold_left step (steps n 0 r n) l) k = g (ch r l k).
Proof.
  intros L. rewrite steps_all by exact Hr.
  pose proof (run_fold (nchunks r n) [] l) as RF. cbn [app length Nat.add] in RF.
  rewrite RF by (auto; now rewrite L). split.
  - now rewrite length_concat_g, concat_chunks.
  - intros k. apply ch_run_fold. now rewrite L.
Qed.

End RunFold.

(* ---------- the passes ---------- *)
Definition csorted (r : nat) (l : list T) : Prop := forall k, sortedT (ch r l k).

Lemma ch_halves s a k : firstn s (ch (2 * s) a k) = ch s a (2 * k) /\ skipn s (ch (2 * s) a k) = ch s a (2 * k + 1).
Proof.
  unfold ch. split.
  - rewrite firstn_firstn. replace (Nat.min s (2 * s)) with s by lia. f_equal. f_equal. lia.
  - rewrite skipn_firstn_comm. replace (2 * s - s) with s by lia. rewrite skipn_skipn. f_equal. f_equal. lia.
Qed.

Lemma csorted_all r l : length l <= r -> csorted r l -> sortedT l.
Proof. intros H C. specialize (C 0). unfold ch in C. cbn [Nat.mul skipn] in C. now rewrite firstn_all2 in C by exact H. Qed.

Lemma passes_sorted : forall fuel a size n, length a = n -> 1 <= size -> n + 1 - size <= fuel -> 0 < fuel ->
  csorted size a -> exists a', tim_merge_passes ltb fuel a size n = Ok a' /\ sortedT a'.
Proof.
  induction fuel as [|f IH]; intros a size n La Hs Hf Hp C; [lia|]. cbn [tim_merge_passes].
  destruct (Nat.ltb_spec size n) as [L|L]; [|exists a; split; [reflexivity | apply (csorted_all size); [lia | exact C]]].
  match goal with |- context [fold_left ?st (steps n 0 (2 * size) n) a] =>
    destruct (pass_spec (2 * size) n st (merge_halves size) ltac:(lia)
                (fun pre b post => merge_step_spec size n pre b post Hs) (merge_halves_length size) a La) as (L1 & C1) end.
  apply IH; [exact L1 | lia | lia | lia|].
  intros k. replace (size * 2) with (2 * size) by lia. rewrite C1. destruct (ch_halves size a k) as [E1 E2].
  apply merge_halves_sorted; [rewrite E1 | rewrite E2]; apply C.
Qed.

(* TIM SORT: the result is ordered *)
Theorem tim_sort_sorted l : exists r, tim_sort ltb d l = Ok r /\ sortedT r.
Proof.
  unfold tim_sort. destruct (Nat.leb_spec (length l) 1) as [L|L].
  { exists l. split; [reflexivity|]. destruct l as [|x [|y t]]; [constructor | repeat constructor | cbn in L; lia]. }
  set (n := length l) in *. set (mr := calc_min_run n).
  assert (1 <= mr) as Hm by (apply calc_min_run_f_pos; lia).
  match goal with |- context [fold_left ?st (steps n 0 mr n) l] =>
    destruct (pass_spec mr n st isort Hm) with (l := l) as (L1 & C1) end.
  - intros pre b post Hb Ln Lb. cbn beta. assert (1 <= length b) by (destruct b; [congruence | cbn; lia]).
    replace (Nat.min (length pre + mr - 1) (n - 1)) with (length pre + length b - 1) by lia.
    now apply insertion_sort_spec.
  - intros b. apply isort_spec.
  - reflexivity.
  - apply passes_sorted; [exact L1 | exact Hm | lia | lia|]. intros k. rewrite C1. apply isort_spec.
Qed.

Theorem tim_sort_spec l : exists r, tim_sort ltb d l = Ok r /\ sortedT r /\ Permutation l r.
Proof.
  destruct (tim_sort_sorted l) as (r & E & S). destruct (tim_sort_perm ltb d l) as (r' & E' & P).
  exists r. split; [exact E|]. split; [exact S|]. rewrite E in E'. injection E' as <-. exact P.
Qed.

(* with an antisymmetric order the stable kind returns what merge sort and quick sort return *)
Theorem tim_merge_agree (le_antisym : forall x y, leT x y -> leT y x -> x = y) l r1 r2 :
  tim_sort ltb d l = Ok r1 -> merge_sort ltb l = Ok r2 -> r1 = r2.
Proof.
  intros E1 E2. destruct (tim_sort_spec l) as (r & E & S & P). rewrite E in E1. injection E1 as <-.
  destruct (merge_sort_spec ltb lt_le le_trans l) as (r' & E' & S' & P'). rewrite E' in E2. injection E2 as <-.
  apply (sorted_perm_unique ltb le_antisym); [exact S | exact S'|]. now rewrite <- P.
Qed.

End TimProofs.

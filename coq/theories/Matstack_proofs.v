(* matmul of two equally shaped stacks of matrices [s, n, k] x [s, k, n]: block t of the result is the matrix product
   of block t of each operand (C14).  (With the repository's extra comparison rows(a) = cols(b) — open finding F15 —
   the blocks are n x k and k x n; the theorem is stated for exactly those shapes.) *)
From ArrRs Require Import Index Index_proofs Lists_proofs Axis Axis_proofs Reshape_proofs Broadcast_proofs Split Lift Reduce
  Reduce_proofs Along_proofs Join Join_proofs Split_proofs Append_proofs Edit Repeat_proofs Linalg Linalg_proofs.

Section MatStack.
Context {T : Type} (zero : T) (add mul : T -> T -> T).

(* block t of a stack [s; r; c] as a matrix *)
Definition block (a : arr T) (r c t : nat) : arr T := mk (firstn (r * c) (skipn (t * (r * c)) (elems a))) [r; c].

Lemma block_get (a : arr T) s r c t i j : wf a -> shape a = [s; r; c] -> t < s -> i < r -> j < c ->
  get zero (block a r c t) [i; j] = get zero a [t; i; j].
Proof.
  intros W S Ht Hi Hj. unfold get, block. cbn [shape elems flat prod]. rewrite S. cbn [flat prod].
  rewrite nth_firstn_lt by nia. rewrite nth_skipn_add. f_equal. lia.
Qed.

Lemma matmul_split_stack (a : arr T) s r c :
  wf a -> shape a = [s; r; c] -> 0 < s -> 0 < r -> 0 < c ->
  matmul_split zero a s (r * c) = Ok (map (block a r c) (seq 0 s)).
Proof.
  intros W S Hs Hr Hc. assert (pos_shape (shape a)) as P by (rewrite S; repeat constructor; assumption).
  assert (len a = s * (r * c)) as La by (unfold len; rewrite W, S; cbn; lia).
  unfold matmul_split. destruct (Nat.eqb_spec (r * c) 0); [nia|]. rewrite La, Nat.div_mul by nia.
  assert (ndim a = 3) as N3 by (unfold ndim; now rewrite S).
  destruct (split_even_spec zero a s 0 W P ltac:(lia) ltac:(lia) ltac:(rewrite N3; cbv; reflexivity) Hs) as (ps & E & O).
  { rewrite S. cbn [nth]. apply Nat.mod_same. lia. }
  rewrite E. cbn [bind]. rewrite S in O. cbn [nth] in O. rewrite Nat.div_same in O by lia.
  assert (pieces_ok zero a 0 0 (repeat 1 (nth 0 (shape a) 0)) ps) as O' by (rewrite S; exact O).
  destruct (unit_slice_elem zero a 0 ps W P ltac:(lia) O') as (L & U & G). rewrite S in L, U, G. cbn [nth remove_nth prod] in L, U, G.
  assert (cycle_take_arrs a ps s = ps) as ->.
  { unfold cycle_take_arrs. destruct ps as [|p0 pt] eqn:Eps; [cbn in L; lia|]. rewrite <- Eps in *.
    transitivity (map (fun i => nth i ps a) (seq 0 (length ps))); [|apply map_nth_seq].
    rewrite L. apply map_ext_in. intros i Hi. apply in_seq in Hi. now rewrite Nat.mod_small by lia. }
  assert (last2 (shape a) = [r; c]) as -> by (rewrite S; reflexivity).
  rewrite (mapM_ok _ (fun p => mk (elems p) [r; c])).
  - f_equal. apply (nth_ext _ _ (mk [] []) (mk [] [])); [now rewrite !map_length, seq_length|].
    intros t Ht. rewrite map_length, L in Ht.
    rewrite (nth_map_lt _ _ _ (mk [] [])) by lia.
    rewrite (nth_indep (map (block a r c) (seq 0 s)) (mk [] []) (block a r c 0)) by (rewrite map_length, seq_length; exact Ht).
    rewrite map_nth, seq_nth by exact Ht. cbn [Nat.add]. unfold block. f_equal.
    apply (nth_ext _ _ zero zero).
    + rewrite U by (apply nth_In; lia). rewrite firstn_length, skipn_length. unfold len in La. nia.
    + intros q Hq. rewrite U in Hq by (apply nth_In; lia). replace (r * (c * 1)) with (r * c) in * by lia.
      rewrite (G t q Ht Hq). rewrite nth_firstn_lt by exact Hq. rewrite nth_skipn_add.
      assert (forall (l : list nat) x, insert_nth l 0 x = x :: l) as I0 by (intros [|? ?] ?; reflexivity).
      unfold get. rewrite S, I0.
      change (flat [s; r; c] (t :: unravel [r; c] q)) with (t * prod [r; c] + flat [r; c] (unravel [r; c] q)).
      rewrite (flat_unravel [r; c] q) by (cbn; lia). cbn [prod]. f_equal. lia.
  - intros x Hx. rewrite reshape_iff; [reflexivity|]. unfold len. rewrite (U x Hx). cbn. lia.
Qed.

(* STACKS: block t of the product is the product of the blocks *)
Theorem matmul_stack_spec (strict : bool) (a b : arr T) s n k :
  wf a -> wf b -> shape a = [s; n; k] -> shape b = [s; k; n] -> 0 < s -> 0 < n -> 0 < k ->
  exists R, matmul zero add mul strict a b = Ok R /\ shape R = [s; n; n] /\ wf R /\
    forall t i j, t < s -> i < n -> j < n ->
      get zero R [t; i; j] =
      fold_left (fun acc u => add (mul (get zero a [t; i; u]) (get zero b [t; u; j])) acc) (seq 0 k) zero.
Proof.
  intros Wa Wb Sa Sb Hs Hn Hk.
  assert (ndim a = 3) as Na by (unfold ndim; now rewrite Sa). assert (ndim b = 3) as Nb by (unfold ndim; now rewrite Sb).
  assert (len a = s * (n * k)) as La by (unfold len; rewrite Wa, Sa; cbn; lia).
  assert (len b = s * (k * n)) as Lb by (unfold len; rewrite Wb, Sb; cbn; lia).
  unfold matmul. rewrite Na, Nb. cbn [Nat.eqb andb orb]. unfold matmul_nd. rewrite Na, Nb. cbn [Nat.leb Nat.sub].
  rewrite Sa, Sb. cbn [length Nat.sub nth upd last2 skipn prod].
  replace (n * (k * 1)) with (n * k) by lia. destruct (Nat.eqb_spec (n * k) 0); [nia|].
  rewrite La, Lb. replace (s * (k * n)) with (s * (n * k)) by lia. rewrite Nat.max_id, Nat.div_mul by nia.
  rewrite (matmul_split_stack a s n k Wa Sa Hs Hn Hk). cbn [bind].
  replace (n * k) with (k * n) by lia. rewrite (matmul_split_stack b s k n Wb Sb Hs Hk Hn). cbn [bind].
  (* the pairwise products *)
  set (pairs := combine (map (block a n k) (seq 0 s)) (map (block b k n) (seq 0 s))).
  assert (forall t, t < s -> exists r, matmul22 zero add mul strict (block a n k t) (block b k n t) = Ok r /\ shape r = [n; n] /\ wf r /\
            forall i j, i < n -> j < n -> get zero r [i; j] = entry_sum zero add mul (block a n k t) (block b k n t) k i j) as PB.
  { intros t Ht. apply (matmul22_spec zero add mul strict _ _ n k n); auto. }
  (* a function giving each block's product *)
  set (prodf := fun p : arr T * arr T => match matmul22 zero add mul strict (fst p) (snd p) with Ok r => r | _ => mk [] [] end).
  assert (forall p, In p pairs -> matmul22 zero add mul strict (fst p) (snd p) = Ok (prodf p)) as Pf.
  { intros p Hp. unfold pairs in Hp. apply In_nth with (d := (block a n k 0, block b k n 0)) in Hp as (t & Ht & <-).
    rewrite combine_length, !map_length, seq_length, Nat.min_id in Ht.
    rewrite combine_nth by (now rewrite !map_length, !seq_length).
    rewrite (map_nth (block a n k)), (map_nth (block b k n)), seq_nth by exact Ht. cbn [Nat.add fst snd].
    unfold prodf. cbn [fst snd]. destruct (PB t Ht) as (r & E & _). now rewrite E. }
  rewrite (mapM_ok _ prodf _ Pf). cbn [bind]. rewrite flat_arr_ok. cbn [bind].
  assert (length pairs = s) as Lp by (unfold pairs; rewrite combine_length, !map_length, seq_length; lia).
  assert (forall t, t < s -> nth t (map prodf pairs) (mk [] []) = prodf (block a n k t, block b k n t)) as Nt.
  { intros t Ht. rewrite (nth_map_lt _ _ _ (block a n k 0, block b k n 0)) by lia. f_equal. unfold pairs.
    rewrite combine_nth by (now rewrite !map_length, !seq_length).
    now rewrite (map_nth (block a n k)), (map_nth (block b k n)), seq_nth by exact Ht. }
  assert (forall x, In x (map prodf pairs) -> length (elems x) = n * n) as U.
  { intros x Hx. apply In_nth with (d := mk [] []) in Hx as (t & Ht & <-). rewrite map_length, Lp in Ht.
    rewrite (Nt t Ht). unfold prodf. cbn [fst snd]. destruct (PB t Ht) as (r & E & Sr & Wr & _). rewrite E, Wr, Sr. cbn. lia. }
  rewrite reshape_iff by (unfold len; cbn [elems]; rewrite (length_flat_map_uniform _ _ _ U), map_length, Lp; cbn; lia).
  eexists. split; [reflexivity|]. cbn [shape elems]. split; [reflexivity|].
  split; [unfold wf; cbn [elems shape]; rewrite (length_flat_map_uniform _ _ _ U), map_length, Lp; cbn; lia|].
  intros t i j Ht Hi Hj. unfold get at 1. cbn [shape elems flat prod].
  replace (t * (n * (n * 1)) + (i * (n * 1) + (j * 1 + 0))) with (t * (n * n) + (i * n + j)) by lia.
  rewrite (nth_flat_map_uniform (@elems T) (map prodf pairs) (n * n) t (i * n + j) (mk [] []) zero U)
    by (rewrite ?map_length, ?Lp; auto; nia).
  rewrite (Nt t Ht). unfold prodf. cbn [fst snd]. destruct (PB t Ht) as (r & E & Sr & Wr & Gr). rewrite E.
  rewrite <- (get2 zero r n n) by exact Sr. rewrite (Gr i j Hi Hj). unfold entry_sum.
  apply fold_ext_in. intros acc u Hu. apply in_seq in Hu.
  rewrite (block_get a s n k t i u Wa Sa Ht Hi ltac:(lia)), (block_get b s k n t u j Wb Sb Ht ltac:(lia) Hj). reflexivity.
Qed.

End MatStack.

(* repeat along an axis: entry k of the result's axis is entry (src reps k) of the input's axis, where src walks the
   repeat counts; nothing else changes (C13).  The code cuts the input into unit slabs along the axis, repeats each
   slab's elements count times, views the chain with the new axis extent first (leading extents exchanged), moves
   that axis to its place and re-reads the result in the final shape — the same re-assembly as append. *)
From ArrRs Require Import Index Index_proofs Lists_proofs Axis Axis_proofs Reshape_proofs Broadcast Broadcast_proofs Split Lift Reduce
  Reduce_proofs Along_proofs Join Join_proofs Split_proofs Append_proofs Edit.

(* which input entry the k-th output entry repeats *)
Fixpoint src (reps : list nat) (k : nat) : nat :=
  match reps with
  | [] => 0
  | r :: t => if k <? r then 0 else S (src t (k - r))
  end.

Lemma fold_add_cons c t : fold_left Nat.add (c :: t) 0 = c + fold_left Nat.add t 0.
Proof.
  cbn [fold_left]. assert (forall l acc, fold_left Nat.add l acc = acc + fold_left Nat.add l 0) as Q.
  { induction l as [|x l IH]; intros acc; cbn [fold_left]; [lia|]. rewrite IH, (IH (0 + x)). lia. }
  now rewrite Q.
Qed.

Lemma src_lt reps k : k < fold_left Nat.add reps 0 -> src reps k < length reps.
Proof.
  revert k; induction reps as [|r t IH]; intros k H; [cbn in H; lia|]. rewrite fold_add_cons in H. cbn [src length].
  destruct (Nat.ltb_spec k r); [lia|]. specialize (IH (k - r) ltac:(lia)). lia.
Qed.

Section RepeatSpec.
Context {T : Type} (d : T).

Lemma nth_concat_repeat (e : list T) c blk k r : length e = blk -> k < c -> r < blk ->
  nth (k * blk + r) (concat (repeat e c)) d = nth r e d.
Proof.
  intros L. revert k; induction c as [|c IH]; intros k Hk Hr; [lia|]. cbn [repeat concat].
  destruct k as [|k]; [cbn [Nat.mul Nat.add]; apply app_nth1; lia|].
  rewrite app_nth2 by (rewrite L; nia). rewrite L. replace (S k * blk + r - blk) with (k * blk + r) by nia.
  apply IH; [lia | exact Hr].
Qed.

Lemma concat_repeat_length (e : list T) c : length (concat (repeat e c)) = c * length e.
Proof. induction c as [|c IH]; cbn [repeat concat]; [reflexivity|]. rewrite app_length, IH. lia. Qed.

(* the chain of repeated slabs *)
Lemma rep_chain blk : forall (slabs : list (arr T)) reps,
  length slabs = length reps -> (forall x, In x slabs -> length (elems x) = blk) ->
  let Bl := flat_map (fun p : arr T * nat => concat (repeat (elems (fst p)) (snd p))) (combine slabs reps) in
  length Bl = fold_left Nat.add reps 0 * blk /\
  forall k r, k < fold_left Nat.add reps 0 -> r < blk ->
    nth (k * blk + r) Bl d = nth r (elems (nth (src reps k) slabs (mk [] []))) d.
Proof.
  induction slabs as [|s ss IH]; intros reps L U; destruct reps as [|c t]; cbn [length] in L; try lia.
  - cbn. split; [reflexivity | intros; lia].
  - cbn zeta. cbn [combine flat_map fst snd]. rewrite fold_add_cons.
    destruct (IH t ltac:(lia) ltac:(intros; apply U; now right)) as (Lr & Gr). cbn zeta in Lr, Gr.
    assert (length (elems s) = blk) as Ls by (apply U; now left).
    split; [rewrite app_length, concat_repeat_length, Ls, Lr; lia|].
    intros k r Hk Hr. cbn [src]. destruct (Nat.ltb_spec k c) as [Lk|Gk].
    + rewrite app_nth1 by (rewrite concat_repeat_length, Ls; nia). cbn [nth]. now apply nth_concat_repeat.
    + rewrite app_nth2 by (rewrite concat_repeat_length, Ls; nia). rewrite concat_repeat_length, Ls.
      replace (k * blk + r - c * blk) with ((k - c) * blk + r) by nia. cbn [nth]. apply Gr; [lia | exact Hr].
Qed.

(* the re-assembly shared with append: chain B (new extent first) -> array of the final shape *)
Lemma reassemble (Bl : list T) sa ax N :
  ax < length sa -> 2 <= length sa -> pos_shape (remove_nth sa ax) ->
  length Bl = N * prod (remove_nth sa ax) ->
  let new := upd sa ax N in let tmp := swap_list new 0 ax in
  exists t, transpose_perm d (mk Bl tmp) (rollaxis_order (length sa) 0 ax) = Ok t /\
    length (elems t) = N * prod (remove_nth sa ax) /\
    forall c, in_range new c ->
      nth (flat new c) (elems t) d = nth (nth ax c 0 * prod (remove_nth sa ax) + flat (remove_nth sa ax) (remove_nth c ax)) Bl d.
Proof.
  intros Hax N2 Prs LB new tmp. set (rs := remove_nth sa ax) in *. set (blk := prod rs) in *.
  assert (0 < blk) as Hblk by (apply pos_shape_prod, Prs).
  assert (length rs = length sa - 1) as Lrs by (apply remove_nth_length; exact Hax).
  destruct (tmp_shape_facts sa ax N Hax) as (Lt & Ht & Pt & St). fold new in Lt, Ht, Pt, St. fold tmp in Lt, Ht, Pt, St.
  fold rs in Pt, St. fold blk in Pt.
  assert (tmp = N :: tl tmp) as Etmp by (destruct tmp; [cbn in Lt; lia | cbn in Ht; subst; reflexivity]).
  assert (prod tmp = N * blk) as Ptmp by (rewrite Etmp; cbn [prod]; rewrite Pt; reflexivity).
  set (r0 := mk Bl tmp).
  assert (wf r0) as W0 by (unfold wf, r0; cbn [elems shape]; lia).
  assert (ndim r0 = length sa) as N0 by (unfold ndim, r0; cbn [shape]; exact Lt).
  destruct (transpose_perm_ok d r0 (rollaxis_order (ndim r0) 0 ax) W0 ltac:(lia)
              (rollaxis_order_is_perm (ndim r0) 0 ax ltac:(lia))) as (t & Et & Wt & Sht & Gt & _).
  rewrite N0 in Et. exists t. split; [exact Et|].
  assert (shape t = insert_nth (tl tmp) ax N) as Sht'.
  { rewrite Sht. unfold r0. cbn [shape]. rewrite Etmp at 2. replace (ndim {| elems := Bl; shape := tmp |}) with (S (length (tl tmp))).
    - apply pick_from_front. destruct tmp; cbn in *; lia.
    - unfold ndim. cbn [shape]. rewrite Etmp at 2. reflexivity. }
  assert (length (tl tmp) = length sa - 1) as Ltl by (rewrite Etmp in Lt; cbn [length] in Lt; lia).
  assert (new = insert_nth rs ax N) as Enew by (apply upd_as_insert_remove; exact Hax).
  assert (length (elems t) = N * blk) as Lte by (rewrite Wt, Sht', prod_insert_nth, Pt; reflexivity).
  split; [exact Lte|]. intros c Hc. rewrite Enew in Hc.
  pose proof (in_range_length _ _ Hc) as Lc. rewrite insert_nth_length in Lc.
  assert (ax < length c) as Haxc by lia. assert (ax <= length rs) as Hle by lia.
  set (rc := remove_nth c ax). set (k := nth ax c 0).
  assert (in_range rs rc) as Hrc.
  { unfold rc. apply (in_range_remove _ _ ax) in Hc. rewrite remove_insert_nth' in Hc by exact Hle. exact Hc. }
  assert (k < N) as Hk by (apply (in_range_insert_nth_lt rs c ax N); [exact Hle | exact Hc]).
  assert (c = insert_nth rc ax k) as Ec by (symmetry; apply insert_remove_nth; exact Haxc).
  set (r := flat rs rc). assert (r < blk) as Hr by (apply flat_lt, Hrc).
  set (x' := unravel (tl tmp) r).
  assert (in_range (tl tmp) x') as Hx' by (apply unravel_in_range; rewrite Pt; exact Hr).
  assert (flat (tl tmp) x' = r) as Fx' by (apply flat_unravel; rewrite Pt; exact Hr).
  assert (flat new c = flat (shape t) (insert_nth x' ax k)) as Eflat.
  { rewrite Enew, Sht'. rewrite Ec at 1.
    pose proof (flat_insert_general rs rc ax N k Hrc Hle Hk) as F1.
    pose proof (flat_insert_general (tl tmp) x' ax N k Hx' ltac:(lia) Hk) as F2. cbn zeta in F1, F2.
    rewrite F1, F2, Fx', St. reflexivity. }
  rewrite Eflat.
  change (nth (flat (shape t) (insert_nth x' ax k)) (elems t) d) with (get d t (insert_nth x' ax k)).
  assert (in_range (shape r0) (k :: x')) as IR0 by (unfold r0; cbn [shape]; rewrite Etmp; cbn [in_range]; split; [exact Hk | exact Hx']).
  assert (insert_nth x' ax k = pick (rollaxis_order (ndim r0) 0 ax) (k :: x')) as ->.
  { replace (ndim r0) with (S (length x')) by (apply in_range_length in Hx'; rewrite Hx', N0; lia).
    symmetry. apply pick_from_front. apply in_range_length in Hx'. lia. }
  rewrite (Gt _ IR0). unfold get, r0. cbn [shape elems]. rewrite Etmp. cbn [flat]. rewrite Pt, Fx'. reflexivity.
Qed.

(* unit slabs, one by one *)
Lemma unit_slice_elem (a : arr T) ax ps :
  wf a -> pos_shape (shape a) -> ax < ndim a ->
  pieces_ok d a ax 0 (repeat 1 (nth ax (shape a) 0)) ps ->
  let rs := remove_nth (shape a) ax in
  length ps = nth ax (shape a) 0 /\ (forall x, In x ps -> length (elems x) = prod rs) /\
  forall k r, k < nth ax (shape a) 0 -> r < prod rs ->
    nth r (elems (nth k ps (mk [] []))) d = get d a (insert_nth (unravel rs r) ax k).
Proof.
  intros W P Hax H rs. destruct (pieces_ok_unit d a ax _ 0 ps H) as (L & G).
  assert (length rs = ndim a - 1) as Lrs by (apply remove_nth_length; exact Hax).
  assert (forall x, In x ps -> length (elems x) = prod rs) as U.
  { intros x Hx. apply In_nth with (d := mk [] []) in Hx as (k & Hk & <-). rewrite L in Hk.
    destruct (G k Hk) as (Wp & Sp & _). rewrite Wp, Sp.
    rewrite (prod_remove_nth (upd (shape a) ax 1) ax) by (rewrite upd_length; exact Hax).
    rewrite nth_upd_eq by exact Hax. rewrite remove_nth_upd. fold rs. lia. }
  split; [exact L|]. split; [exact U|]. intros k r Hk Hr.
  destruct (G k Hk) as (Wp & Sp & Gp). cbn [Nat.add] in Gp.
  pose proof (unravel_in_range rs r Hr) as IR. pose proof (in_range_length _ _ IR) as Lu.
  specialize (Gp (insert_nth (unravel rs r) ax 0)).
  rewrite Sp, upd_as_insert_remove in Gp by exact Hax. fold rs in Gp.
  assert (ax <= length rs) as Hle by (unfold ndim in *; lia).
  rewrite nth_insert_nth_eq in Gp by lia.
  assert (upd (insert_nth (unravel rs r) ax 0) ax (k + 0) = insert_nth (unravel rs r) ax k) as E.
  { rewrite upd_as_insert_remove by (rewrite insert_nth_length; lia). rewrite remove_insert_nth' by lia. f_equal. lia. }
  rewrite E in Gp. rewrite <- Gp.
  - unfold get. rewrite Sp. rewrite (upd_as_insert_remove (shape a) ax 1 Hax). fold rs. rewrite flat_insert_unit by lia.
    now rewrite flat_unravel by exact Hr.
  - apply in_range_insert; [lia | exact IR | lia].
Qed.

(* REPEAT along an axis (rank >= 2): `reps` is the count vector after broadcasting to the axis length *)
Theorem repeat_axis_spec (a : arr T) repeats ax rb :
  wf a -> pos_shape (shape a) -> 2 <= ndim a -> ax < ndim a -> (Z.of_nat (ndim a) < two64)%Z ->
  broadcast_to 0 (mk repeats [length repeats]) [nth ax (shape a) 0] = Ok rb ->
  length (elems rb) = nth ax (shape a) 0 ->
  let reps := elems rb in
  exists R, repeat_arr d a repeats (Some ax) = Ok R /\ wf R /\
    shape R = upd (shape a) ax (fold_left Nat.add reps 0) /\
    forall c, in_range (shape R) c -> get d R c = get d a (upd c ax (src reps (nth ax c 0))).
Proof.
  intros W P N2 Hax B Hb Lreps reps. set (na := nth ax (shape a) 0) in *. set (rs := remove_nth (shape a) ax).
  set (blk := prod rs). set (N := fold_left Nat.add reps 0).
  assert (0 < na) as Hna by (apply pos_shape_nth; auto).
  assert (pos_shape rs) as Prs by (apply pos_shape_remove, P).
  assert (0 < blk) as Hblk by (apply pos_shape_prod, Prs).
  unfold repeat_arr. rewrite flat_arr_ok. cbn [bind]. destruct (Nat.ltb_spec ax (ndim a)); [|lia]. cbn [guard bind].
  fold na. rewrite Hb. cbn [bind]. fold reps. fold N.
  destruct (split_even_spec d a na ax W P N2 Hax B Hna ltac:(apply Nat.mod_same; lia)) as (slabs & Es & Os).
  rewrite Es. cbn [bind]. fold na in Os. rewrite Nat.div_same in Os by lia.
  destruct (unit_slice_elem a ax slabs W P Hax Os) as (Ls & U & Gs). fold na in Ls, Gs. fold rs in U, Gs. fold blk in U, Gs.
  destruct (rep_chain blk slabs reps ltac:(unfold reps; lia) U) as (LB & GB). cbn zeta in LB, GB. fold N in LB, GB.
  set (Bl := flat_map (fun p : arr T * nat => concat (repeat (elems (fst p)) (snd p))) (combine slabs reps)) in *.
  rewrite flat_arr_ok. cbn [bind].
  destruct (reassemble Bl (shape a) ax N ltac:(unfold ndim in *; lia) ltac:(unfold ndim in *; lia) Prs LB) as (t & Et & Lt & Gt).
  cbn zeta in Et, Gt. fold rs in Gt, Lt. fold blk in Gt, Lt.
  set (new := upd (shape a) ax N) in *. set (tmp := swap_list new 0 ax) in *.
  destruct (tmp_shape_facts (shape a) ax N ltac:(unfold ndim in *; lia)) as (Ltm & Htm & Ptm & _). fold new in Ltm, Htm, Ptm. fold tmp in Ltm, Htm, Ptm.
  assert (prod tmp = N * blk) as Ptmp.
  { destruct tmp as [|h tt]; [cbn in Ltm; unfold ndim in *; lia|]. cbn [hd tl prod] in *. subst h. fold rs in Ptm. fold blk in Ptm. now rewrite Ptm. }
  rewrite reshape_iff by (unfold len; cbn [elems]; lia). cbn [bind elems].
  set (r0 := mk Bl tmp).
  assert (ndim r0 = ndim a) as N0 by (unfold ndim, r0; cbn [shape]; exact Ltm).
  rewrite (moveaxis_single_ok d r0 0%Z (Z.of_nat ax) ltac:(rewrite N0; exact B) ltac:(unfold axis_ok; lia)
             ltac:(apply axis_ok_of_nat; lia)).
  rewrite norm_nat_of_nat. change (norm_nat (ndim r0) 0) with 0. rewrite N0.
  change (ndim a) with (length (shape a)). unfold r0. rewrite Et. cbn [bind]. change (length (shape a)) with (ndim a).
  assert (new = insert_nth rs ax N) as Enew by (apply upd_as_insert_remove; exact Hax).
  assert (prod new = N * blk) as Pnew by (rewrite Enew, prod_insert_nth; reflexivity).
  rewrite reshape_iff by (unfold len; lia).
  eexists. split; [reflexivity|]. split; [unfold wf; cbn [elems shape]; lia|]. split; [reflexivity|].
  cbn [shape]. intros c Hc. unfold get at 1. cbn [elems shape]. rewrite (Gt c Hc).
  rewrite Enew in Hc. pose proof (in_range_length _ _ Hc) as Lc. rewrite insert_nth_length in Lc.
  assert (length rs = ndim a - 1) as Lrs by (apply remove_nth_length; exact Hax).
  assert (ax < length c) as Haxc by (unfold ndim in *; lia). assert (ax <= length rs) as Hle by (unfold ndim in *; lia).
  set (rc := remove_nth c ax). set (k := nth ax c 0).
  assert (in_range rs rc) as Hrc.
  { unfold rc. apply (in_range_remove _ _ ax) in Hc. rewrite remove_insert_nth' in Hc by exact Hle. exact Hc. }
  assert (k < N) as Hk by (apply (in_range_insert_nth_lt rs c ax N); [exact Hle | exact Hc]).
  assert (flat rs rc < blk) as Hr by (apply flat_lt, Hrc).
  rewrite (GB k (flat rs rc) Hk Hr).
  assert (src reps k < na) as Hs by (rewrite <- Lreps; apply src_lt; exact Hk).
  rewrite (Gs (src reps k) (flat rs rc) Hs Hr). rewrite unravel_flat by exact Hrc. f_equal.
  symmetry. apply upd_as_insert_remove. exact Haxc.
Qed.

End RepeatSpec.

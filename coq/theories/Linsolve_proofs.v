From Coq Require Import QArith Qabs.
Local Close Scope Q_scope.
From ArrRs Require Import Index Axis Linsolve.

(* determinant of a 2 x 2 matrix: the closed form *)
Theorem det_2 a b c d : (det [[a; b]; [c; d]] == a * d - b * c)%Q.
Proof. unfold det. cbn [length det_f]. unfold qsub, qmul. now rewrite !Qred_correct. Qed.

(* larger matrices: expansion along the first column with alternating signs *)
Theorem det_expand (m : qmat) : 3 <= length m ->
  det m = fold_left qadd (map (fun i => qmul (qmul (qget m i 0) (if Nat.even i then 1 else -1)%Q) (det_f (length m - 1) (minor m i 0)))
                               (seq 0 (length m))) 0%Q.
Proof.
  intros H. unfold det. destruct (length m) as [|n] eqn:L; [lia|]. cbn [det_f].
  destruct m as [|r1 [|r2 [|r3 rest]]]; cbn in L; try lia.
  replace (S n - 1) with n by lia.
  destruct r1 as [|a [|b [|? ?]]]; destruct r2 as [|c [|d [|? ?]]]; try (rewrite L; reflexivity);
    cbn [length] in *; try lia; rewrite ?L; try reflexivity.
Qed.

(* a matrix the code regards as singular (|det| < 1e-12) is refused with the singular-matrix error *)
Theorem solve_singular a b : qabs_ltb (det a) (1 # 1000000000000) = true -> solve a b = Err ESingular.
Proof. intros H. unfold solve. now rewrite H. Qed.

(* non-vacuity / regression: a system that needs a row exchange, with a two-column right-hand side *)
Example solve_example :
  match solve [[2;1;1];[4;3;3];[8;7;9]]%Q [[1;0];[2;1];[3;5]]%Q with
  | Ok x => residual_ok [[2;1;1];[4;3;3];[8;7;9]]%Q x [[1;0];[2;1];[3;5]]%Q = true
  | _ => False end.
Proof. vm_compute. reflexivity. Qed.

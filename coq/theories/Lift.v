(* Lift.v — the array layer of elementwise operations:
   lift2  : broadcast both operands, apply the scalar function to each pair, Array::new with the broadcast
            shape (math/operations/arithmetic.rs add/subtract/multiply/divide/power/..., exp_log.rs logn,
            trigonometric.rs atan2/hypot, numeric/operations/binary.rs bitwise_*/shifts);
   zipop  : zip (argument stretched to the receiver) then map (extrema.rs maximum/minimum/fmax/fmin,
            rational.rs gcd/lcm, misc.rs heaviside, floating.rs copysign/ldexp/nextafter);
   map_arr: iter.rs map (every one-operand function);
   closure iteration (iter.rs) in state-passing form;
   operator overloads (numeric/operations/ops.rs, boolean/operations/ops.rs, core/operations/ops.rs). *)
From ArrRs Require Export Index Axis Broadcast.

Section Map.
Context {T U : Type}.

(* iter.rs map: collect (flat) then reshape to the receiver's shape *)
Definition map_arr (f : T -> U) (a : arr T) : res (arr U) :=
  let* r := flat_arr (map f (elems a)) in reshape r (shape a).

End Map.

Section Lift2.
Context {T U : Type} (dt : T).

Definition lift2 (f : T -> T -> U) (a b : arr T) : res (arr U) :=
  let* p := broadcast dt dt a b in
  new (map (fun xy => f (fst xy) (snd xy)) (elems p)) (shape p).

Definition zipop {S : Type} (ds : S) (f : T -> S -> U) (a : arr T) (b : arr S) : res (arr U) :=
  let* p := zip ds a b in map_arr (fun xy => f (fst xy) (snd xy)) p.

(* the division family refuses a divisor array that contains zero, before anything else *)
Definition guarded_lift2 (is_zero : T -> bool) (f : T -> T -> U) (a b : arr T) : res (arr U) :=
  if existsb is_zero (elems b) then Err EParam else lift2 f a b.

End Lift2.

(* ---------- closure iteration, state-passing: the closure's captured state is threaded explicitly ---------- *)
Section Iter.
Context {T U S : Type}.

(* elements are visited once each, in flat order, the enumerating variants receiving the flat position *)
Fixpoint run_closure (f : S -> nat -> T -> S * U) (s : S) (i : nat) (es : list T) : S * list U :=
  match es with
  | [] => (s, [])
  | x :: t => let '(s', u) := f s i x in
              let '(s'', us) := run_closure f s' (Datatypes.S i) t in (s'', u :: us)
  end.

(* iter.rs map_e / map (map ignores the index) *)
Definition map_e (f : S -> nat -> T -> S * U) (s0 : S) (a : arr T) : S * res (arr U) :=
  let '(s, us) := run_closure f s0 0 (elems a) in
  (s, let* r := flat_arr us in reshape r (shape a)).

End Iter.

Section Iter2.
Context {T U S : Type}.

Fixpoint select {A} (mask : list bool) (l : list A) : list A :=
  match mask, l with
  | true :: m, x :: t => x :: select m t
  | false :: m, _ :: t => select m t
  | _, _ => []
  end.

(* iter.rs filter_e / filter: accepted elements, flat, original order *)
Definition filter_e (f : S -> nat -> T -> S * bool) (s0 : S) (a : arr T) : S * res (arr T) :=
  let '(s, mask) := run_closure f s0 0 (elems a) in
  (s, let* r := flat_arr (select mask (elems a)) in ravel r).

Fixpoint somes {A} (l : list (option A)) : list A :=
  match l with [] => [] | Some x :: t => x :: somes t | None :: t => somes t end.

(* iter.rs filter_map_e / filter_map *)
Definition filter_map_e (f : S -> nat -> T -> S * option U) (s0 : S) (a : arr T) : S * res (arr U) :=
  let '(s, os) := run_closure f s0 0 (elems a) in
  (s, let* r := flat_arr (somes os) in ravel r).

(* iter.rs for_each_e / for_each *)
Definition for_each_e (f : S -> nat -> T -> S) (s0 : S) (a : arr T) : S :=
  fst (run_closure (fun s i x => (f s i x, tt)) s0 0 (elems a)).

(* iter.rs fold: left to right *)
Definition fold_arr (f : U -> T -> U) (init : U) (a : arr T) : U := fold_left f (elems a) init.

End Iter2.

(* ---------- operator overloads ---------- *)
Section Ops.
Context {T : Type}.

Definition map2 (f : T -> T -> T) (l1 l2 : list T) : list T :=
  map (fun xy => f (fst xy) (snd xy)) (combine l1 l2).

(* numeric/operations/ops.rs impl_op!: array (op) array — assert_eq! on the shapes, then Array::new(..).unwrap() *)
Definition binop (f : T -> T -> T) (a b : arr T) : res (arr T) :=
  if nat_list_eqb (shape a) (shape b) then unwrap (new (map2 f (elems a) (elems b)) (shape a)) else Panic.

(* array (op) scalar: map then reshape, a Result *)
Definition binop_scalar (f : T -> T -> T) (a : arr T) (s : T) : res (arr T) :=
  let* m := map_arr (fun x => f x s) a in reshape m (shape a).

(* compound assignment: the receiver after the call *)
Definition binop_assign (f : T -> T -> T) (a b : arr T) : res (arr T) :=
  if nat_list_eqb (shape a) (shape b) then
    Ok (mk (map2 f (elems a) (elems b) ++ skipn (length (elems b)) (elems a)) (shape a))
  else Panic.

Definition binop_assign_scalar (f : T -> T -> T) (a : arr T) (s : T) : arr T :=
  mk (map (fun x => f x s) (elems a)) (shape a).

(* Neg: Array::new(..).unwrap() *)
Definition unop (g : T -> T) (a : arr T) : res (arr T) := unwrap (new (map g (elems a)) (shape a)).

(* boolean/operations/ops.rs impl_bitwise_ops!: struct literal with the receiver's shape *)
Definition bitop (f : T -> T -> T) (a b : arr T) : res (arr T) :=
  if nat_list_eqb (shape a) (shape b) then Ok (mk (map2 f (elems a) (elems b)) (shape a)) else Panic.
Definition bitop_scalar (f : T -> T -> T) (a : arr T) (s : T) : arr T :=
  mk (map (fun x => f x s) (elems a)) (shape a).

(* core/operations/ops.rs PartialEq / PartialOrd: assert_eq! on shapes, then the flat element vectors *)
Definition arr_eq (eqb : T -> T -> bool) (a b : arr T) : res bool :=
  if nat_list_eqb (shape a) (shape b) then
    Ok (forallb (fun xy => eqb (fst xy) (snd xy)) (combine (elems a) (elems b)))
  else Panic.

(* lexicographic comparison of the flat element sequences; None = incomparable (NaN) *)
Fixpoint lex_cmp (cmp : T -> T -> option comparison) (l1 l2 : list T) : option comparison :=
  match l1, l2 with
  | [], [] => Some Eq
  | [], _ :: _ => Some Lt
  | _ :: _, [] => Some Gt
  | x :: t1, y :: t2 =>
    match cmp x y with
    | Some Eq => lex_cmp cmp t1 t2
    | r => r
    end
  end.

Definition arr_cmp (cmp : T -> T -> option comparison) (a b : arr T) : res (option comparison) :=
  if nat_list_eqb (shape a) (shape b) then Ok (lex_cmp cmp (elems a) (elems b)) else Panic.

End Ops.

(* append / concatenate along an axis place the inputs one after the other along that axis (C11).
   The code cuts both operands into unit slices along the axis, chains their elements, views the chain with the axis
   extent first (and the leading extents exchanged), moves that first axis to its place and re-reads the result in the
   final shape; the proof follows these steps through flat positions. *)
From ArrRs Require Import Index Index_proofs Lists_proofs Axis Axis_proofs Reshape_proofs Broadcast_proofs Split Lift Reduce
  Reduce_proofs Along_proofs Join Join_proofs Split_proofs.

(* ---------- flat position of a coordinate with an entry inserted: depends on the rest only through its flat
   position and the product of the extents after the insertion point ---------- *)
Lemma flat_insert_general s x ax N k : in_range s x -> ax <= length s -> k < N ->
  let q := flat s x in let post := prod (skipn ax s) in
  flat (insert_nth s ax N) (insert_nth x ax k) = (q / post) * (N * post) + k * post + q mod post.
Proof.
  revert x ax; induction s as [|h s' IH]; intros x ax Hx Hax Hk; destruct x as [|i x']; cbn [in_range] in Hx; try tauto.
  - destruct ax; [|cbn in Hax; lia]. cbn. lia.
  - destruct Hx as [Hi Hx']. destruct ax as [|ax'].
    + cbn [insert_nth flat skipn]. pose proof (flat_lt _ _ (conj Hi Hx' : in_range (h :: s') (i :: x'))) as L.
      cbn [flat prod] in *. rewrite Nat.div_small, Nat.mod_small by lia. lia.
    + cbn [insert_nth flat skipn length] in *. rewrite prod_insert_nth.
      specialize (IH x' ax' Hx' ltac:(lia) Hk). cbn zeta in IH. rewrite IH.
      set (post := prod (skipn ax' s')). set (q' := flat s' x').
      assert (0 < prod s') as Ps by (apply (in_range_prod_pos s' x' Hx')).
      assert (prod s' = prod (firstn ax' s') * post) as Pf by (rewrite <- (firstn_skipn ax' s') at 1; apply prod_app).
      assert (0 < post) as Pp by (destruct post; [lia | lia]).
      set (pre := prod (firstn ax' s')) in *.
      assert ((i * prod s' + q') / post = i * pre + q' / post) as ->.
      { rewrite Pf. replace (i * (pre * post) + q') with (q' + (i * pre) * post) by lia. rewrite Nat.div_add by lia. lia. }
      assert ((i * prod s' + q') mod post = q' mod post) as ->.
      { rewrite Pf. replace (i * (pre * post) + q') with (q' + (i * pre) * post) by lia. apply Nat.mod_add. lia. }
      rewrite Pf. lia.
Qed.

Lemma map_insert_nth {A B} (f : A -> B) l i x : map f (insert_nth l i x) = insert_nth (map f l) i (f x).
Proof. revert i; induction l as [|h t IH]; intros [|i]; cbn; auto. now rewrite IH. Qed.

Lemma repeat_one_sizes n : 0 < n -> section_sizes n n = repeat 1 n.
Proof.
  intros H. unfold section_sizes. rewrite Nat.mod_same, Nat.div_same by lia. cbn [repeat app]. now rewrite Nat.sub_0_r.
Qed.

Lemma prod_upd l i x : i < length l -> prod (upd l i x) = x * prod (remove_nth l i).
Proof. revert i; induction l as [|h t IH]; intros [|i] H; cbn in *; try lia. rewrite IH by lia. lia. Qed.

Lemma skipn_upd_lt {A} (l : list A) i x : skipn (S i) (upd l i x) = skipn (S i) l.
Proof. revert i; induction l as [|h t IH]; intros [|i]; cbn [upd skipn]; auto. apply IH. Qed.

Lemma skipn_remove_nth {A} (l : list A) i : skipn i (remove_nth l i) = skipn (S i) l.
Proof. revert i; induction l as [|h t IH]; intros [|i]; cbn; auto. apply IH. Qed.

(* the intermediate view used by append: the new extent first, the leading extents exchanged *)
Lemma tmp_shape_facts sa ax N : ax < length sa ->
  let tmp := swap_list (upd sa ax N) 0 ax in
  length tmp = length sa /\ hd 0 tmp = N /\ prod (tl tmp) = prod (remove_nth sa ax) /\
  skipn ax (tl tmp) = skipn ax (remove_nth sa ax).
Proof.
  intros H. unfold swap_list. destruct sa as [|h t]; [cbn in H; lia|]. destruct ax as [|ax'].
  - cbn. repeat split; auto.
  - cbn [length] in H. cbn [upd nth hd tl remove_nth length].
    rewrite nth_upd_eq by lia. cbn [upd hd tl]. rewrite !upd_length.
    assert (upd (upd t ax' N) ax' h = upd t ax' h) as ->.
    { clear. revert ax'; induction t as [|x t IH]; intros [|ax']; cbn; auto. now rewrite IH. }
    repeat split; auto.
    + rewrite prod_upd by lia. cbn [prod]. reflexivity.
    + rewrite skipn_upd_lt. cbn [skipn]. now rewrite skipn_remove_nth.
Qed.

Lemma nth_eq_of_remove_nth (l1 l2 : list nat) ax j :
  length l1 = length l2 -> remove_nth l1 ax = remove_nth l2 ax -> j <> ax -> nth j l1 0 = nth j l2 0.
Proof.
  revert l2 ax j. induction l1 as [|x l1 IHl]; intros [|y l2] ax j Hl Hr Hj; cbn in Hl; try lia; auto.
  destruct ax as [|ax]; destruct j as [|j]; cbn in *; try lia.
  - now subst.
  - now injection Hr as -> Hr.
  - injection Hr as -> Hr. apply (IHl l2 ax j); auto.
Qed.

Section AppendSpec.
Context {T : Type} (d : T).

(* unit slices: the k-th one is the slice at axis entry start + k *)
Lemma pieces_ok_unit (a : arr T) ax n : forall start ps, pieces_ok d a ax start (repeat 1 n) ps ->
  length ps = n /\ forall k, k < n -> piece_ok d a ax (start + k) 1 (nth k ps (mk [] [])).
Proof.
  induction n as [|n IH]; intros start ps H; cbn [repeat pieces_ok] in H.
  - destruct ps; [|tauto]. split; [reflexivity | intros; lia].
  - destruct ps as [|p ps']; [tauto|]. destruct H as [Hp Hr]. destruct (IH _ _ Hr) as (L & G). split; [cbn; lia|].
    intros [|k] Hk; cbn [nth]; [now rewrite Nat.add_0_r|]. replace (start + S k) with (start + 1 + k) by lia. apply G. lia.
Qed.

(* the chained elements of the unit slices of a: position k * blk + r holds a at (rest coordinates of r, axis entry k) *)
Lemma unit_slices_chain (a : arr T) ax ps :
  wf a -> pos_shape (shape a) -> ax < ndim a ->
  pieces_ok d a ax 0 (repeat 1 (nth ax (shape a) 0)) ps ->
  let rs := remove_nth (shape a) ax in
  length (flat_map (@elems T) ps) = nth ax (shape a) 0 * prod rs /\
  forall k r, k < nth ax (shape a) 0 -> r < prod rs ->
    nth (k * prod rs + r) (flat_map (@elems T) ps) d = get d a (insert_nth (unravel rs r) ax k).
Proof.
  intros W P Hax H rs. destruct (pieces_ok_unit a ax _ 0 ps H) as (L & G).
  assert (length rs = ndim a - 1) as Lrs by (apply remove_nth_length; exact Hax).
  assert (forall x, In x ps -> length (elems x) = prod rs) as U.
  { intros x Hx. apply In_nth with (d := mk [] []) in Hx as (k & Hk & <-). rewrite L in Hk.
    destruct (G k Hk) as (Wp & Sp & _). rewrite Wp, Sp.
    rewrite (prod_remove_nth (upd (shape a) ax 1) ax) by (rewrite upd_length; exact Hax).
    rewrite nth_upd_eq by exact Hax. rewrite remove_nth_upd. fold rs. lia. }
  split; [rewrite (length_flat_map_uniform _ _ _ U), L; reflexivity|].
  intros k r Hk Hr.
  rewrite (nth_flat_map_uniform (@elems T) ps (prod rs) k r (mk [] []) d U) by (rewrite ?L; auto).
  destruct (G k Hk) as (Wp & Sp & Gp). cbn [Nat.add] in Gp.
  pose proof (unravel_in_range rs r Hr) as IR. pose proof (in_range_length _ _ IR) as Lu.
  specialize (Gp (insert_nth (unravel rs r) ax 0)).
  rewrite Sp, upd_as_insert_remove in Gp by exact Hax. fold rs in Gp.
  assert (ax <= length rs) as Hle by (unfold ndim in *; lia).
  rewrite nth_insert_nth_eq in Gp by lia.
  assert (upd (insert_nth (unravel rs r) ax 0) ax (k + 0) = insert_nth (unravel rs r) ax k) as E.
  { rewrite upd_as_insert_remove by (rewrite insert_nth_length; lia). rewrite remove_insert_nth' by lia. f_equal. lia. }
  rewrite E in Gp. rewrite <- Gp.
  - unfold get. rewrite Sp. rewrite (upd_as_insert_remove (shape a) ax 1 Hax). fold rs. rewrite flat_insert_unit by lia.
    now rewrite flat_unravel by exact Hr.
  - apply in_range_insert; [lia | exact IR | lia].
Qed.

(* APPEND along an axis (rank >= 2): the result has the receiver's shape with the two axis lengths added, holds the
   receiver at the coordinates whose axis entry is below its axis length and the appended array, shifted, beyond *)
Theorem append_axis_spec (a v : arr T) ax :
  wf a -> wf v -> pos_shape (shape a) -> pos_shape (shape v) -> 2 <= ndim a -> ndim v = ndim a -> ax < ndim a ->
  (Z.of_nat (ndim a) < two64)%Z -> remove_nth (shape a) ax = remove_nth (shape v) ax ->
  let na := nth ax (shape a) 0 in
  exists R, append d a v (Some ax) = Ok R /\ wf R /\ shape R = upd (shape a) ax (na + nth ax (shape v) 0) /\
    forall c, in_range (shape R) c ->
      get d R c = if nth ax c 0 <? na then get d a c else get d v (upd c ax (nth ax c 0 - na)).
Proof.
  intros Wa Wv Pa Pv N2 Nv Hax B Heq na. set (nv := nth ax (shape v) 0). set (rs := remove_nth (shape a) ax) in *.
  set (blk := prod rs).
  assert (0 < na) as Hna by (apply pos_shape_nth; auto).
  assert (0 < nv) as Hnv by (apply pos_shape_nth; [auto | unfold ndim in *; lia]).
  assert (pos_shape rs) as Prs by (apply pos_shape_remove, Pa).
  assert (0 < blk) as Hblk by (apply pos_shape_prod, Prs).
  assert (length rs = ndim a - 1) as Lrs by (apply remove_nth_length; exact Hax).
  unfold append. destruct (Nat.ltb_spec ax (ndim a)); [|lia]. cbn [guard bind]. rewrite Nv, Nat.eqb_refl. cbn [negb].
  rewrite <- Heq. rewrite (proj2 (nat_list_eqb_spec _ _) eq_refl). cbn [negb].
  (* the unit slices of both operands *)
  assert (0 < prod (shape a)) as Ppa by (apply pos_shape_prod, Pa).
  assert (0 < prod (shape v)) as Ppv by (apply pos_shape_prod, Pv).
  unfold split_axis. destruct (Nat.ltb_spec ax (ndim a)); [|lia]. rewrite Nv. destruct (Nat.ltb_spec ax (ndim a)); [|lia].
  cbn [guard bind]. unfold is_empty, len. rewrite Wa, Wv.
  destruct (Nat.eqb_spec (prod (shape a)) 0); [lia|]. destruct (Nat.eqb_spec (prod (shape v)) 0); [lia|].
  destruct (Nat.eqb_spec (ndim a) 1); [lia|]. cbn [orb].
  destruct (array_split_spec d a (nth ax (shape a) 0) ax Wa Pa N2 Hax B Hna) as (psa & Ea & Oa). rewrite Ea. cbn [bind].
  destruct (array_split_spec d v (nth ax (shape v) 0) ax Wv Pv ltac:(lia) ltac:(lia) ltac:(rewrite Nv; exact B) Hnv) as (psv & Ev & Ov).
  rewrite Ev. cbn [bind]. fold na in Oa. fold nv in Ov. rewrite repeat_one_sizes in Oa, Ov by assumption.
  destruct (unit_slices_chain a ax psa Wa Pa Hax Oa) as (La & Ga). fold rs in La, Ga. fold blk in La, Ga. fold na in La, Ga.
  destruct (unit_slices_chain v ax psv Wv Pv ltac:(lia) Ov) as (Lv & Gv). rewrite <- Heq in Lv, Gv. fold rs in Lv, Gv.
  fold blk in Lv, Gv. fold nv in Lv, Gv.
  fold rs. fold blk. rewrite flat_arr_ok. cbn [bind]. destruct (Nat.eqb_spec blk 0); [lia|].
  set (Bl := flat_map (@elems T) (psa ++ psv)).
  assert (length Bl = (na + nv) * blk) as LB by (unfold Bl; rewrite flat_map_app, app_length, La, Lv; lia).
  unfold len. cbn [elems]. rewrite LB, Nat.div_mul by lia.
  set (N := na + nv). set (new := upd (shape a) ax N). set (tmp := swap_list new 0 ax).
  destruct (tmp_shape_facts (shape a) ax N Hax) as (Lt & Ht & Pt & St). fold new in Lt, Ht, Pt, St. fold tmp in Lt, Ht, Pt, St.
  fold rs in Pt, St. fold blk in Pt.
  assert (tmp = N :: tl tmp) as Etmp by (destruct tmp; [cbn in Lt; unfold ndim in *; lia | cbn in Ht; subst; reflexivity]).
  assert (prod tmp = N * blk) as Ptmp by (rewrite Etmp; cbn [prod]; rewrite Pt; reflexivity).
  rewrite reshape_iff by (unfold len; cbn [elems]; lia). cbn [bind elems].
  set (r0 := mk Bl tmp).
  assert (wf r0) as W0 by (unfold wf, r0; cbn [elems shape]; lia).
  assert (ndim r0 = ndim a) as N0 by (unfold ndim, r0; cbn [shape]; exact Lt).
  (* the transpose moves the first axis to position ax *)
  replace (insert_nth (map Z.of_nat (seq 1 (ndim a - 1))) ax 0%Z) with (map Z.of_nat (rollaxis_order (ndim r0) 0 ax))
    by (rewrite N0, rollaxis_order_from_front by lia; apply map_insert_nth).
  rewrite transpose_of_perm by (apply rollaxis_order_is_perm; change (0 < ndim r0); lia).
  destruct (transpose_perm_ok d r0 (rollaxis_order (ndim r0) 0 ax) W0 ltac:(lia)
              (rollaxis_order_is_perm (ndim r0) 0 ax ltac:(lia))) as (t & Et & Wt & Sht & Gt & _).
  rewrite Et. cbn [bind].
  assert (shape t = insert_nth (tl tmp) ax N) as Sht'.
  { rewrite Sht. unfold r0. cbn [shape]. rewrite Etmp at 2. replace (ndim {| elems := Bl; shape := tmp |}) with (S (length (tl tmp))).
    - apply pick_from_front. destruct tmp; cbn in *; unfold ndim in *; lia.
    - unfold ndim. cbn [shape]. rewrite Etmp at 2. reflexivity. }
  assert (length (tl tmp) = ndim a - 1) as Ltl by (rewrite Etmp in Lt; cbn [length] in Lt; unfold ndim in *; lia).
  assert (new = insert_nth rs ax N) as Enew by (apply upd_as_insert_remove; exact Hax).
  assert (prod new = N * blk) as Pnew by (rewrite Enew, prod_insert_nth; reflexivity).
  assert (length (elems t) = N * blk) as Lte by (rewrite Wt, Sht', prod_insert_nth, Pt; reflexivity).
  rewrite reshape_iff by (unfold len; lia).
  eexists. split; [reflexivity|]. split; [unfold wf; cbn [elems shape]; lia|]. split; [reflexivity|].
  cbn [shape]. intros c Hc. rewrite Enew in Hc.
  pose proof (in_range_length _ _ Hc) as Lc. rewrite insert_nth_length in Lc.
  assert (ax < length c) as Haxc by (unfold ndim in *; lia).
  assert (ax <= length rs) as Hle by (unfold ndim in *; lia).
  set (rc := remove_nth c ax). set (k := nth ax c 0).
  assert (in_range rs rc) as Hrc.
  { unfold rc. apply (in_range_remove _ _ ax) in Hc. rewrite remove_insert_nth' in Hc by exact Hle. exact Hc. }
  assert (k < N) as Hk by (apply (in_range_insert_nth_lt rs c ax N); [exact Hle | exact Hc]).
  assert (c = insert_nth rc ax k) as Ec by (symmetry; apply insert_remove_nth; exact Haxc).
  set (r := flat rs rc). assert (r < blk) as Hr by (apply flat_lt, Hrc).
  set (x' := unravel (tl tmp) r).
  assert (in_range (tl tmp) x') as Hx' by (apply unravel_in_range; rewrite Pt; exact Hr).
  assert (flat (tl tmp) x' = r) as Fx' by (apply flat_unravel; rewrite Pt; exact Hr).
  (* the flat position in the final shape equals the flat position of (x' with k inserted) in t's shape *)
  assert (flat new c = flat (shape t) (insert_nth x' ax k)) as Eflat.
  { rewrite Enew, Sht'. rewrite Ec at 1.
    pose proof (flat_insert_general rs rc ax N k Hrc Hle Hk) as F1.
    pose proof (flat_insert_general (tl tmp) x' ax N k Hx' ltac:(lia) Hk) as F2. cbn zeta in F1, F2.
    rewrite F1, F2, Fx', St. reflexivity. }
  unfold get at 1. cbn [elems shape]. rewrite Eflat.
  change (nth (flat (shape t) (insert_nth x' ax k)) (elems t) d) with (get d t (insert_nth x' ax k)).
  assert (in_range (shape r0) (k :: x')) as IR0 by (unfold r0; cbn [shape]; rewrite Etmp; cbn [in_range]; split; [exact Hk | exact Hx']).
  assert (insert_nth x' ax k = pick (rollaxis_order (ndim r0) 0 ax) (k :: x')) as ->.
  { replace (ndim r0) with (S (length x')) by (apply in_range_length in Hx'; rewrite Hx', N0; lia).
    symmetry. apply pick_from_front. apply in_range_length in Hx'. lia. }
  rewrite (Gt _ IR0). unfold get, r0. cbn [shape elems]. rewrite Etmp. cbn [flat]. rewrite Pt, Fx'.
  (* the chained slices at position k * blk + r *)
  unfold Bl. rewrite flat_map_app.
  assert (unravel rs r = rc) as Eu by (apply unravel_flat, Hrc).
  destruct (Nat.ltb_spec k na) as [Lk|Gk].
  - rewrite app_nth1 by (rewrite La; nia). rewrite (Ga k r Lk Hr), Eu, <- Ec. reflexivity.
  - rewrite app_nth2 by (rewrite La; nia). rewrite La.
    replace (k * blk + r - na * blk) with ((k - na) * blk + r) by nia.
    rewrite (Gv (k - na) r ltac:(lia) Hr), Eu. f_equal.
    rewrite upd_as_insert_remove by exact Haxc. reflexivity.
Qed.

(* ---------- concatenate: the inputs one after the other along the axis ---------- *)
(* where coordinate c of the concatenation comes from: walk the inputs, subtracting their axis lengths *)
Fixpoint locate (ax : nat) (arrs : list (arr T)) (c : list nat) : T :=
  match arrs with
  | [] => d
  | a :: t => if nth ax c 0 <? nth ax (shape a) 0 then get d a c
              else locate ax t (upd c ax (nth ax c 0 - nth ax (shape a) 0))
  end.

Definition joinable (ax : nat) (rs : list nat) (n : nat) (a : arr T) : Prop :=
  wf a /\ pos_shape (shape a) /\ ndim a = n /\ remove_nth (shape a) ax = rs.

Definition cat_fold (ax : nat) (acc : arr T) (rest : list (arr T)) : res (arr T) :=
  fold_left (fun (r : res (arr T)) b => let* a := r in unwrap (append d a b (Some ax))) rest (Ok acc).

Lemma upd_upd {A} (l : list A) i x y : upd (upd l i x) i y = upd l i y.
Proof. revert i; induction l as [|h t IH]; intros [|i]; cbn; auto. now rewrite IH. Qed.

Lemma cat_fold_spec ax rs n rest : forall acc,
  2 <= n -> ax < n -> (Z.of_nat n < two64)%Z -> joinable ax rs n acc -> Forall (joinable ax rs n) rest ->
  exists R, cat_fold ax acc rest = Ok R /\ joinable ax rs n R /\
    nth ax (shape R) 0 = fold_left (fun s a => s + nth ax (shape a) 0) rest (nth ax (shape acc) 0) /\
    forall c, in_range (shape R) c -> get d R c = locate ax (acc :: rest) c.
Proof.
  induction rest as [|b t IH]; intros acc N2 Hax B (Wa & Pa & Na & Ra) F; unfold cat_fold; cbn [fold_left].
  - exists acc. split; [reflexivity|]. split; [unfold joinable; auto|]. split; [reflexivity|].
    intros c Hc. cbn [locate]. destruct (Nat.ltb_spec (nth ax c 0) (nth ax (shape acc) 0)) as [|G]; [reflexivity|].
    assert (ax < length (shape acc)) as Hl by (unfold ndim in Na; lia).
    apply (proj1 (in_range_nth _ _)) in Hc as [_ Hc]. specialize (Hc ax Hl). lia.
  - apply Forall_cons_iff in F as [(Wb & Pb & Nb & Rb) Ft].
    destruct (append_axis_spec acc b ax Wa Wb Pa Pb ltac:(lia) ltac:(congruence) ltac:(lia) ltac:(rewrite Na; exact B)
                ltac:(congruence)) as (R1 & E1 & W1 & S1 & G1).
    cbn [bind]. rewrite E1. cbn [unwrap].
    assert (joinable ax (remove_nth (shape acc) ax) (ndim acc) R1) as J1.
    { unfold joinable. split; [exact W1|]. split.
      - rewrite S1. unfold pos_shape in *. rewrite Forall_forall in *. intros x Hx.
        apply In_nth with (d := 0) in Hx as (i & Hi & <-). rewrite upd_length in Hi.
        destruct (Nat.eq_dec i ax) as [->|Ne].
        + rewrite nth_upd_eq by (unfold ndim in *; lia). assert (0 < nth ax (shape acc) 0) by (apply Pa, nth_In; unfold ndim in *; lia). lia.
        + rewrite nth_upd_neq by auto. apply Pa, nth_In, Hi.
      - split; [unfold ndim; rewrite S1; apply upd_length|]. rewrite S1. apply remove_nth_upd. }
    destruct (IH R1 N2 Hax B ltac:(rewrite <- Na, <- Ra; exact J1) Ft) as (R & E & J & Sx & G).
    exists R. split; [exact E|]. split; [exact J|]. split.
    + rewrite Sx, S1. rewrite nth_upd_eq by (unfold ndim in *; lia). reflexivity.
    + intros c Hc. rewrite (G c Hc). cbn [locate]. rewrite S1, nth_upd_eq by (unfold ndim in *; lia).
      set (k := nth ax c 0). set (na := nth ax (shape acc) 0). set (nb := nth ax (shape b) 0).
      destruct J as (_ & _ & NR & _).
      assert (ax < length c) as Haxc by (apply in_range_length in Hc; unfold ndim in *; lia).
      destruct (Nat.ltb_spec k (na + nb)) as [L1|G1'].
      * (* inside R1 *)
        assert (in_range (shape R1) c) as Hc1.
        { rewrite S1. apply in_range_nth. pose proof (proj1 (in_range_nth _ _) Hc) as [Lc Hn]. split.
          - rewrite upd_length. destruct J1 as (_ & _ & N1 & _). unfold ndim in *. lia.
          - intros j Hj. rewrite upd_length in Hj. destruct (Nat.eq_dec j ax) as [->|Ne].
            + rewrite nth_upd_eq by exact Hj. exact L1.
            + rewrite nth_upd_neq by auto.
              (* the other extents of R agree with those of acc *)
              assert (nth j (shape R) 0 = nth j (shape acc) 0) as <-.
              { destruct (IH R1 N2 Hax B ltac:(rewrite <- Na, <- Ra; exact J1) Ft) as (R' & E' & (_ & _ & _ & RR) & _).
                rewrite E in E'. injection E' as <-.
                assert (remove_nth (shape R) ax = remove_nth (shape acc) ax) as RR' by congruence.
                apply (nth_eq_of_remove_nth _ _ ax j); auto. unfold ndim in *. lia. }
              apply Hn. unfold ndim in *. lia. }
        rewrite (G1 c Hc1). fold k. fold na.
        destruct (Nat.ltb_spec k na) as [L2|G2]; [reflexivity|].
        rewrite nth_upd_eq by exact Haxc.
        destruct (Nat.ltb_spec (k - na) nb); [reflexivity | lia].
      * destruct (Nat.ltb_spec k na); [lia|]. rewrite nth_upd_eq by exact Haxc.
        destruct (Nat.ltb_spec (k - na) nb); [lia|]. rewrite upd_upd. f_equal. f_equal. lia.
Qed.

Lemma validate_ok ax rs n arrs : ax < n -> Forall (joinable ax rs n) arrs -> validate_stack_shapes arrs ax ax = Ok tt.
Proof.
  intros Hax F. unfold validate_stack_shapes.
  assert (forallb (fun a : arr T => ax <? ndim a) arrs = true) as E.
  { apply forallb_forall. intros a Ha. rewrite Forall_forall in F. destruct (F a Ha) as (_ & _ & N & _). apply Nat.ltb_lt. lia. }
  rewrite E. cbn [guard bind negb].
  assert (map (fun a : arr T => remove_nth (shape a) ax) arrs = repeat rs (length arrs)) as ->.
  { clear E. induction arrs as [|a t IH]; [reflexivity|]. apply Forall_cons_iff in F as [(_ & _ & _ & R) Ft].
    cbn [map length repeat]. rewrite R, IH by exact Ft. reflexivity. }
  assert (forall k, forallb (fun p : list nat * list nat => nat_list_eqb (fst p) (snd p)) (combine (repeat rs k) (tl (repeat rs k))) = true) as K.
  { induction k as [|k IHk]; [reflexivity|]. cbn [repeat tl]. destruct k as [|k]; [reflexivity|].
    cbn [repeat combine forallb fst snd]. rewrite (proj2 (nat_list_eqb_spec rs rs) eq_refl). exact IHk. }
  rewrite K. reflexivity.
Qed.

(* CONCATENATE along an axis: inputs of equal rank >= 2 that agree off the axis are laid one after the other *)
Theorem concatenate_axis_spec ax rs n first rest :
  2 <= n -> ax < n -> (Z.of_nat n < two64)%Z -> Forall (joinable ax rs n) (first :: rest) ->
  exists R, concatenate d (first :: rest) (Some ax) = Ok R /\ wf R /\ remove_nth (shape R) ax = rs /\ ndim R = n /\
    nth ax (shape R) 0 = fold_left (fun s a => s + nth ax (shape a) 0) rest (nth ax (shape first) 0) /\
    forall c, in_range (shape R) c -> get d R c = locate ax (first :: rest) c.
Proof.
  intros N2 Hax B F. unfold concatenate. rewrite (validate_ok ax rs n _ Hax F). cbn [bind].
  apply Forall_cons_iff in F as [J Ft].
  destruct (cat_fold_spec ax rs n rest first N2 Hax B J Ft) as (R & E & (WR & _ & NR & RR) & Sx & G).
  exists R. unfold cat_fold in E. auto 10.
Qed.

(* the blocks of a split, read through `locate`, are the original array *)
Lemma locate_pieces (a : arr T) ax sizes : forall start ps c,
  pieces_ok d a ax start sizes ps -> ax < length c -> ax < ndim a ->
  in_range (remove_nth (shape a) ax) (remove_nth c ax) ->
  nth ax c 0 < fold_right Nat.add 0 sizes ->
  locate ax ps c = get d a (upd c ax (start + nth ax c 0)).
Proof.
  induction sizes as [|s t IH]; intros start ps c H Hc Hax Hr Hk; cbn [fold_right] in Hk; [lia|].
  destruct ps as [|p ps']; [cbn in H; tauto|]. cbn [pieces_ok] in H. destruct H as [(Wp & Sp & Gp) Hrest].
  cbn [locate]. rewrite Sp, nth_upd_eq by exact Hax.
  destruct (Nat.ltb_spec (nth ax c 0) s) as [L|G].
  - apply Gp. rewrite Sp. rewrite upd_as_insert_remove by exact Hax.
    rewrite <- (insert_remove_nth c ax 0 Hc). apply in_range_insert; [|exact Hr|exact L].
    rewrite remove_nth_length by exact Hax. unfold ndim in Hax. lia.
  - rewrite (IH (start + s) ps' (upd c ax (nth ax c 0 - s)) Hrest).
    + rewrite upd_upd, nth_upd_eq by exact Hc. f_equal. f_equal. lia.
    + rewrite upd_length. exact Hc.
    + exact Hax.
    + rewrite remove_nth_upd. exact Hr.
    + rewrite nth_upd_eq by exact Hc. lia.
Qed.

Lemma shape_from_parts (s1 s2 : list nat) ax : length s1 = length s2 -> ax < length s1 ->
  remove_nth s1 ax = remove_nth s2 ax -> nth ax s1 0 = nth ax s2 0 -> s1 = s2.
Proof.
  intros L H R N. rewrite <- (insert_remove_nth s1 ax 0 H), <- (insert_remove_nth s2 ax 0 ltac:(lia)). now rewrite R, N.
Qed.

(* SPLIT THEN CONCATENATE: joining the blocks of a split (all of positive size) along the same axis gives the array back *)
Theorem split_concatenate (a : arr T) ax sizes ps :
  wf a -> pos_shape (shape a) -> 2 <= ndim a -> ax < ndim a -> (Z.of_nat (ndim a) < two64)%Z ->
  pieces_ok d a ax 0 sizes ps -> Forall (fun s => 0 < s) sizes -> sizes <> [] ->
  fold_right Nat.add 0 sizes = nth ax (shape a) 0 ->
  concatenate d ps (Some ax) = Ok a.
Proof.
  intros W P N2 Hax B H Fs Hne Sum.
  set (rs := remove_nth (shape a) ax). set (n := ndim a).
  (* every block is joinable *)
  assert (forall start ps', pieces_ok d a ax start sizes ps' -> Forall (joinable ax rs n) ps' /\ length ps' = length sizes /\
            fold_left (fun s p => s + nth ax (shape p) 0) ps' 0 = fold_right Nat.add 0 sizes) as K.
  { clear H Sum Hne. induction sizes as [|s t IH]; intros start ps' H'; destruct ps' as [|p ps'']; cbn [pieces_ok] in H'; try tauto.
    - repeat split; auto.
    - destruct H' as [(Wp & Sp & _) Hrest]. apply Forall_cons_iff in Fs as [Hs Ft].
      destruct (IH Ft _ _ Hrest) as (F' & L' & S'). split; [|split; [cbn; lia|]].
      + constructor; [|exact F']. unfold joinable. split; [exact Wp|]. split.
        * rewrite Sp. unfold pos_shape in *. rewrite Forall_forall in *. intros x Hx.
          apply In_nth with (d := 0) in Hx as (i & Hi & <-). rewrite upd_length in Hi.
          destruct (Nat.eq_dec i ax) as [->|Ne]; [rewrite nth_upd_eq by exact Hax; exact Hs|].
          rewrite nth_upd_neq by auto. apply P, nth_In, Hi.
        * split; [unfold ndim; rewrite Sp; apply upd_length | rewrite Sp; apply remove_nth_upd].
      + cbn [fold_left fold_right]. rewrite Sp, nth_upd_eq by exact Hax.
        assert (forall l acc, fold_left (fun s0 p0 => s0 + nth ax (shape p0) 0) l acc = acc + fold_left (fun s0 (p0 : arr T) => s0 + nth ax (shape p0) 0) l 0) as Q.
        { clear. induction l as [|x l IHl]; intros acc; cbn [fold_left]; [lia|]. rewrite IHl, (IHl (0 + _)). lia. }
        rewrite Q, S'. lia. }
  destruct (K 0 ps H) as (F & L & S).
  destruct ps as [|first rest]; [destruct sizes; [congruence | cbn in L; lia]|].
  destruct (concatenate_axis_spec ax rs n first rest N2 Hax B F) as (R & E & WR & RR & NR & SR & G).
  rewrite E. f_equal.
  assert (nth ax (shape R) 0 = nth ax (shape a) 0) as Nax.
  { rewrite SR, <- Sum, <- S. cbn [fold_left]. reflexivity. }
  assert (shape R = shape a) as ShR by (apply (shape_from_parts _ _ ax); unfold ndim in *; auto; lia).
  apply (array_ext d); auto.
  intros c Hc. rewrite (G c Hc). rewrite ShR in Hc.
  pose proof (in_range_length _ _ Hc) as Lc.
  rewrite (locate_pieces a ax sizes 0 (first :: rest) c H).
  - cbn [Nat.add]. f_equal. apply upd_same. unfold ndim in *. lia.
  - unfold ndim in *. lia.
  - exact Hax.
  - apply in_range_remove, Hc.
  - rewrite Sum. apply (proj1 (in_range_nth _ _) Hc). exact Hax.
Qed.

Lemma pieces_ok_length (a : arr T) ax sizes : forall start ps, pieces_ok d a ax start sizes ps -> length ps = length sizes.
Proof.
  induction sizes as [|s t IH]; intros start ps O; destruct ps as [|p ps']; cbn [pieces_ok] in O; try tauto; try reflexivity.
  destruct O as [_ O]. cbn [length]. f_equal. exact (IH _ _ O).
Qed.

Theorem array_split_concatenate (a : arr T) parts ax :
  wf a -> pos_shape (shape a) -> 2 <= ndim a -> ax < ndim a -> (Z.of_nat (ndim a) < two64)%Z ->
  0 < parts <= nth ax (shape a) 0 ->
  exists ps, array_split d a parts (Some ax) = Ok ps /\ length ps = parts /\ concatenate d ps (Some ax) = Ok a.
Proof.
  intros W P N2 Hax B [Hp Hle].
  destruct (array_split_spec d a parts ax W P N2 Hax B Hp) as (ps & E & O). exists ps. split; [exact E|].
  destruct (section_sizes_spec (nth ax (shape a) 0) parts Hp) as (Ls & Sum & Form & _).
  assert (Forall (fun s => 0 < s) (section_sizes (nth ax (shape a) 0) parts)) as Fs.
  { rewrite Form. assert (1 <= nth ax (shape a) 0 / parts) by (apply Nat.div_le_lower_bound; lia).
    apply Forall_app. split; apply Forall_forall; intros x Hx; apply repeat_spec in Hx; lia. }
  split.
  - rewrite (pieces_ok_length a ax _ _ _ O). exact Ls.
  - apply (split_concatenate a ax _ ps W P N2 Hax B O Fs); [|exact Sum].
    intros E0. rewrite E0 in Ls. cbn in Ls. lia.
Qed.

End AppendSpec.

(* Split.v — src/core/operations/split.rs (array_split as repaired, split, split_axis, hsplit, vsplit, dsplit) *)
From ArrRs Require Export Index Axis.

(* sizes: (n mod k) parts of n/k + 1, then the rest of n/k *)
Definition section_sizes (n parts : nat) : list nat :=
  repeat (n / parts + 1) (n mod parts) ++ repeat (n / parts) (parts - n mod parts).

(* prefix sums: the division points *)
Fixpoint div_points_from (acc : nat) (sizes : list nat) : list nat :=
  match sizes with [] => [acc] | s :: t => acc :: div_points_from (acc + s) t end.

Section Split.
Context {T : Type} (dflt : T).

Definition axis_opt_in_bounds (a : arr T) (axis : option nat) : res unit :=
  match axis with None => Ok tt | Some ax => guard (ax <? ndim a) EAxis end.

(* one block: elements [start*block, (start+size)*block) of the rolled array, rolled shape, rolled back *)
Definition split_piece (a rolled : arr T) (axis block start size : nat) : res (arr T) :=
  let* m := flat_arr (firstn (size * block) (skipn (start * block) (elems rolled))) in
  if ndim a =? 1 then Ok m
  else
    let* r := reshape m (upd (shape rolled) 0 size) in
    moveaxis dflt r [0%Z] [Z.of_nat axis].

Fixpoint split_pieces (a rolled : arr T) (axis block start : nat) (sizes : list nat) : res (list (arr T)) :=
  match sizes with
  | [] => Ok []
  | s :: t =>
    (* collect::<Vec<Result>>().has_error(): the first failing piece decides *)
    match split_piece a rolled axis block start s, split_pieces a rolled axis block (start + s) t with
    | Ok p, Ok ps => Ok (p :: ps)
    | Ok _, e => e
    | Err e, _ => Err e
    | Panic, _ => Panic
    | Fuel, _ => Fuel
    end
  end.

Definition array_split (a : arr T) (parts : nat) (axis : option nat) : res (list (arr T)) :=
  if parts =? 0 then Err EParam else
  let* _ := axis_opt_in_bounds a axis in
  if is_empty a then Ok [a] else
  let ax := match axis with Some x => x | None => 0 end in
  match nth_error (shape a) ax with
  | None => Panic                                  (* self.shape[axis] on a rank-0 array *)
  | Some n_total =>
    let* rolled := rollaxis dflt a (Z.of_nat ax) None in
    split_pieces a rolled ax (len a / n_total) 0 (section_sizes n_total parts)
  end.

Definition split_even (a : arr T) (parts : nat) (axis : option nat) : res (list (arr T)) :=
  let* _ := axis_opt_in_bounds a axis in
  if parts =? 0 then Err EParam else
  if is_empty a then Ok [a] else
  match nth_error (shape a) (match axis with Some x => x | None => 0 end) with
  | None => Panic
  | Some n_total => if n_total mod parts =? 0 then array_split a parts axis else Err EParam
  end.

Definition split_axis (a : arr T) (axis : nat) : res (list (arr T)) :=
  let* _ := guard (axis <? ndim a) EAxis in
  if is_empty a || (ndim a =? 1) then Ok [a]
  else array_split a (nth axis (shape a) 0) (Some axis).

Definition hsplit (a : arr T) (parts : nat) : res (list (arr T)) :=
  if ndim a =? 0 then Err EUnsupDim else
  if parts =? 0 then Err EParam else
  if ndim a =? 1 then split_even a parts (Some 0) else split_even a parts (Some 1).

Definition vsplit (a : arr T) (parts : nat) : res (list (arr T)) :=
  if ndim a <? 2 then Err EUnsupDim else
  if parts =? 0 then Err EParam else split_even a parts (Some 0).

Definition dsplit (a : arr T) (parts : nat) : res (list (arr T)) :=
  if ndim a <? 3 then Err EUnsupDim else
  if parts =? 0 then Err EParam else split_even a parts (Some 2).

End Split.

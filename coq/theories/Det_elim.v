(* The determinant the code computes (2 x 2 closed form, expansion along the first column) and the elimination the
   code performs in solve (C15):
     det_fdet          — det m is the entry-function determinant of Det_fun.v, for every size >= 2;
     det_row_swap      — exchanging two rows of a matrix changes the sign of det;
     det_elimination   — det a = (+1 / -1 per row exchange) * the product of the pivots the LU loop leaves on the
                         diagonal of U: "the value obtained by elimination";
     det_nonzero_pivots / pivots_nonzero_det — det a is non-zero exactly when no pivot is zero;
     solve_exact       — hence whenever solve answers, A X = B exactly: the pivot hypothesis of Lu_solve.solve_correct
                         is discharged by the singularity test the code performs on det a.
   The elimination step is followed through the code's own pivot search (the largest magnitude in the column), row
   exchange and row updates, with no assumption on the pivots: a zero pivot means the whole remaining column is zero. *)
From Coq Require Import QArith Qabs Qfield Lia Lqa Permutation.
Local Close Scope Q_scope.
From ArrRs Require Import Index Index_proofs Lists_proofs Axis Linsolve Linsolve_proofs Lu_sums Lu_step Lu_solve Det_tri Det_fun.

(* ---------- list matrices as entry functions ---------- *)
Lemma nth_remove_nth {A} (d : A) : forall (l : list A) i r, nth r (remove_nth l i) d = nth (skip i r) l d.
Proof.
  induction l as [|h t IH]; intros i r.
  - cbn [remove_nth]. assert (forall k, nth k (@nil A) d = d) as E by (intros []; reflexivity). now rewrite !E.
  - destruct i as [|i]; cbn [remove_nth].
    + unfold skip. cbn [Nat.ltb Nat.leb]. reflexivity.
    + destruct r as [|r]; [reflexivity|]. cbn [nth]. rewrite IH. unfold skip.
      change (S r <? S i) with (r <? i). destruct (r <? i); reflexivity.
Qed.

Lemma minor_get (m : qmat) n i r c : dims (S n) m -> i < S n -> r < n ->
  qget (minor m i 0) r c = qget m (skip i r) (S c).
Proof.
  intros (L & R) Hi Hr. unfold qget, minor.
  rewrite (nth_map_lt (fun row => remove_nth row 0) _ r [] []) by (rewrite remove_nth_length; lia).
  rewrite nth_remove_nth, nth_remove_nth. reflexivity.
Qed.

Lemma minor_dims (m : qmat) n i : dims (S n) m -> i < S n -> dims n (minor m i 0).
Proof.
  intros (L & R) Hi. unfold minor. split.
  - rewrite map_length, remove_nth_length; lia.
  - intros r Hr. rewrite (nth_map_lt (fun row => remove_nth row 0) _ r [] []) by (rewrite remove_nth_length; lia).
    rewrite nth_remove_nth. assert (skip i r < S n) as Hs by (apply skip_lt; exact Hr).
    rewrite remove_nth_length; rewrite (R _ Hs); lia.
Qed.

Lemma fold_qadd_seq (g : nat -> Q) n : (fold_left qadd (map g (seq 0 n)) 0 == qsum g n)%Q.
Proof.
  induction n as [|n IH]; [reflexivity|]. rewrite seq_S, map_app, fold_left_app. cbn [map fold_left qsum Nat.add].
  rewrite Det_tri.qadd_eq, IH. reflexivity.
Qed.

Theorem det_fdet : forall n (m : qmat), 2 <= n -> dims n m -> (det m == fdet n (qget m))%Q.
Proof.
  induction n as [|n IH]; intros m N2 D; [lia|]. destruct (Nat.eq_dec n 1) as [->|Ne].
  - destruct D as (L & R). destruct m as [|r0 [|r1 [|? ?]]]; try discriminate.
    pose proof (R 0 ltac:(lia)) as R0. pose proof (R 1 ltac:(lia)) as R1. cbn [nth] in R0, R1.
    destruct r0 as [|a [|b [|? ?]]]; try discriminate. destruct r1 as [|c [|d0 [|? ?]]]; try discriminate.
    rewrite det_2. cbn [fdet qsum]. unfold fminor, sgn, skip, qget. cbn [Nat.even Nat.ltb Nat.leb nth]. ring.
  - pose proof D as (L & R).
    rewrite (det_expand m) by lia. rewrite L. replace (S n - 1) with n by lia.
    rewrite fold_qadd_seq. cbn [fdet]. apply qsum_ext. intros i Hi.
    rewrite !Det_tri.qmul_eq.
    assert (det_f n (minor m i 0) = det (minor m i 0)) as ->.
    { unfold det. destruct (minor_dims m n i D Hi) as (Lm & _). now rewrite Lm. }
    rewrite (IH (minor m i 0)) by (try lia; now apply minor_dims).
    rewrite (fdet_ext n (qget (minor m i 0)) (fminor i (qget m))).
    + unfold sgn. destruct (Nat.even i); ring.
    + intros r c Hr Hc. unfold fminor. rewrite (minor_get m n i r c D Hi Hr). reflexivity.
Qed.

(* ---------- a row exchange changes the sign ---------- *)
Lemma swap_rows_dims n (m : qmat) p j : dims n m -> p < n -> j < n -> dims n (swap_rows [] m p j).
Proof.
  intros (L & R) Hp Hj. split; [now rewrite swap_rows_length|]. intros r Hr.
  rewrite nth_swap_rows by lia. apply R. apply sig_lt; lia.
Qed.

Theorem det_row_swap n (m : qmat) p j : 2 <= n -> dims n m -> p < n -> j < n -> p <> j ->
  (det (swap_rows [] m p j) == - det m)%Q.
Proof.
  intros N2 D Hp Hj Npj. pose proof D as (L & _).
  rewrite (det_fdet n _ N2 (swap_rows_dims n m p j D Hp Hj)), (det_fdet n m N2 D).
  rewrite (fdet_ext n _ (fun r c => qget m (sig p j r) c)).
  - apply fdet_swap; assumption.
  - intros r c Hr Hc. unfold qget. rewrite nth_swap_rows by lia. reflexivity.
Qed.

(* ---------- the pivot search returns a row of largest magnitude ---------- *)
Lemma qabs_ltb_false x y : qabs_ltb x y = false -> (Qabs y <= Qabs x)%Q.
Proof. unfold qabs_ltb. intros H. apply Bool.negb_false_iff in H. now apply Qle_bool_iff. Qed.
Lemma qabs_ltb_true x y : qabs_ltb x y = true -> (Qabs x <= Qabs y)%Q.
Proof.
  unfold qabs_ltb. intros H. apply Bool.negb_true_iff in H.
  destruct (Qlt_le_dec (Qabs x) (Qabs y)) as [Lt|Le]; [now apply Qlt_le_weak|].
  apply Qle_bool_iff in Le. congruence.
Qed.

Lemma pivot_row_max u j n : j < n -> forall i, j <= i < n ->
  (Qabs (qget u i j) <= Qabs (qget u (pivot_row u j n) j))%Q.
Proof.
  intros Hj. unfold pivot_row.
  assert (forall l p, let q := fold_left (fun p i => if qabs_ltb (qget u p j) (qget u i j) then i else p) l p in
            (Qabs (qget u p j) <= Qabs (qget u q j))%Q /\ forall i, In i l -> (Qabs (qget u i j) <= Qabs (qget u q j))%Q) as G.
  { induction l as [|x t IH]; intros p; cbn [fold_left]; cbn zeta.
    - split; [apply Qle_refl | intros i []].
    - destruct (qabs_ltb (qget u p j) (qget u x j)) eqn:E.
      + destruct (IH x) as [A B]. cbn zeta in A, B. split.
        * eapply Qle_trans; [apply (qabs_ltb_true _ _ E) | exact A].
        * intros i [<-|Hi]; [exact A | now apply B].
      + destruct (IH p) as [A B]. cbn zeta in A, B. split; [exact A|].
        intros i [<-|Hi]; [|now apply B]. eapply Qle_trans; [apply (qabs_ltb_false _ _ E) | exact A]. }
  intros i Hi. destruct (G (seq (j + 1) (n - j - 1)) j) as [A B]. cbn zeta in A, B.
  destruct (Nat.eq_dec i j) as [->|Ne]; [exact A|]. apply B. apply in_seq. lia.
Qed.

(* x - p * (x / p) vanishes whenever |x| <= |p| (for p = 0 this forces x = 0; Qinv 0 = 0) *)
Lemma elim_entry_zero (x p : Q) : (Qabs x <= Qabs p)%Q -> (x - p * (x / p) == 0)%Q.
Proof.
  intros H. destruct (Qeq_dec p 0) as [Z|NZ].
  - assert (x == 0)%Q as X.
    { rewrite Z in H. change (Qabs 0) with 0%Q in H. apply Qabs_Qle_condition in H. destruct H as [H1 H2]. lra. }
    rewrite X, Z. reflexivity.
  - field. exact NZ.
Qed.

(* ---------- one column of the elimination and the determinant ---------- *)
Definition zero_below (n k : nat) (u : qmat) : Prop := forall r c, r < n -> c < k -> c < r -> (qget u r c == 0)%Q.
Definition step_sign (u : qmat) (j n : nat) : Q := if pivot_row u j n =? j then 1%Q else (-1)%Q.

(* the row updates below the pivot, one row after the other, leave the determinant as it is (row j has zeros left of
   column j, so keeping the entries left of column j is the same as updating them) *)
Lemma elim_det_rows j n (u1 : qmat) (U : nat -> qmat) : j < n -> (forall c, c < j -> (qget u1 j c == 0)%Q) ->
  (forall cnt, j + 1 + cnt <= n -> forall i,
     nth i (U cnt) [] = if (j <? i) && (i <? j + 1 + cnt) then elim_row j n u1 i else nth i u1 []) ->
  forall cnt, j + 1 + cnt <= n -> (fdet n (qget (U cnt)) == fdet n (qget u1))%Q.
Proof.
  intros Hj Z RU. induction cnt as [|c IH]; intros Hc.
  - apply fdet_ext. intros r col Hr Hcol. unfold qget. rewrite (RU 0 Hc).
    destruct (Nat.ltb_spec j r), (Nat.ltb_spec r (j + 1 + 0)); cbn [andb]; try reflexivity; lia.
  - rewrite <- IH by lia. pose proof (RU (S c) Hc) as RU1. pose proof (RU c ltac:(lia)) as RU0.
    set (i0 := j + 1 + c).
    rewrite <- (fdet_row_add n (qget (U c)) i0 j (- factor j u1 i0)) by (unfold i0; lia).
    apply fdet_ext. intros r col Hr Hcol.
    unfold qget at 1. rewrite RU1.
    destruct (Nat.eqb_spec r i0) as [->|Ne].
    + destruct (Nat.ltb_spec j i0); [|unfold i0 in *; lia].
      destruct (Nat.ltb_spec i0 (j + 1 + S c)); [|unfold i0 in *; lia]. cbn [andb].
      unfold elim_row. rewrite nth_map_seq0 by exact Hcol.
      assert (qget (U c) i0 col = qget u1 i0 col) as ->.
      { unfold qget. rewrite RU0. destruct (Nat.ltb_spec i0 (j + 1 + c)); [unfold i0 in *; lia|]. now rewrite Bool.andb_false_r. }
      assert (qget (U c) j col = qget u1 j col) as ->.
      { unfold qget. rewrite RU0. destruct (Nat.ltb_spec j j); [lia|]. reflexivity. }
      unfold factor. destruct (Nat.ltb_spec col j) as [Lc|Gc].
      * rewrite (Z col Lc). ring.
      * rewrite qsub_eq, qmul_eq. ring.
    + unfold qget. rewrite RU0. destruct (j <? r) eqn:E; cbn [andb]; [|reflexivity].
      destruct (Nat.ltb_spec r (j + 1 + S c)), (Nat.ltb_spec r (j + 1 + c)); try reflexivity; unfold i0 in *; lia.
Qed.

Lemma elim_det j n l1 u1 : dims n l1 -> dims n u1 -> j < n -> (forall c, c < j -> (qget u1 j c == 0)%Q) ->
  forall cnt, j + 1 + cnt <= n ->
  (fdet n (qget (snd (fold_left (elim_step j n) (seq (j + 1) cnt) (l1, u1)))) == fdet n (qget u1))%Q.
Proof.
  intros (Ll & Rl) (Lu & Ru) Hj Z cnt Hc.
  apply (elim_det_rows j n u1 (fun cnt => snd (fold_left (elim_step j n) (seq (j + 1) cnt) (l1, u1))) Hj Z); [|exact Hc].
  intros k Hk. apply (elim_fold j n l1 u1 Ll Lu Hj k Hk).
Qed.

Lemma det_step n j l u o : dims n l -> dims n u -> length o = n -> j < n -> zero_below n j u ->
  let '(l', u', o') := lu_step n (l, u, o) j in
  (fdet n (qget u') == step_sign u j n * fdet n (qget u))%Q /\ zero_below n (S j) u'.
Proof.
  intros Dl Du Lo Hj ZB. rewrite lu_step_eq. cbn zeta.
  pose proof (pivot_row_range u j n Hj) as Hp. pose proof (pivot_row_max u j n Hj) as Hmax.
  unfold step_sign. set (p := pivot_row u j n) in *.
  pose proof (swap_part_spec j p n l u o Dl Du Lo ltac:(lia) ltac:(lia)) as Sp.
  destruct (swap_part j p l u o) as [[l1 u1] o1].
  destruct Sp as (Dl1 & Du1 & Lo1 & _ & RU & _ & _).
  assert (forall r c, qget u1 r c = qget u (sig p j r) c) as EU1 by (intros; unfold qget; now rewrite RU).
  assert (fdet n (qget u1) == (if p =? j then 1 else -1) * fdet n (qget u))%Q as D1.
  { destruct (Nat.eqb_spec p j) as [E|N].
    - rewrite (fdet_ext n (qget u1) (qget u)); [ring|]. intros r c _ _. rewrite EU1, E.
      replace (sig j j r) with r by nat_cases. reflexivity.
    - rewrite (fdet_ext n (qget u1) (fun r c => qget u (sig p j r) c)) by (intros; now rewrite EU1).
      rewrite (fdet_swap n (qget u) p j) by lia. ring. }
  assert (zero_below n j u1) as ZB1.
  { intros r c Hr Hc Hcr. rewrite EU1. apply ZB; [apply sig_lt; lia | exact Hc | nat_cases]. }
  assert (forall i, j < i < n -> (Qabs (qget u1 i j) <= Qabs (qget u1 j j))%Q) as Max1.
  { intros i Hi. rewrite !EU1. replace (sig p j j) with p by nat_cases. apply Hmax. nat_cases. }
  destruct (fold_left (elim_step j n) (seq (j + 1) (n - j - 1)) (l1, u1)) as [l' u'] eqn:EFold. cbn [fst snd].
  pose proof Dl1 as (Ll1 & _). pose proof Du1 as (Lu1 & Ru1).
  destruct (elim_fold' j n l1 u1 (n - j - 1) l' u' Ll1 Lu1 Hj ltac:(lia) EFold) as (_ & _ & RU' & _).
  replace (j + 1 + (n - j - 1)) with n in RU' by lia.
  split.
  - rewrite <- D1.
    pose proof (elim_det j n l1 u1 Dl1 Du1 Hj (fun c Hc => ZB1 j c Hj Hc Hc) (n - j - 1) ltac:(lia)) as ED.
    rewrite EFold in ED. exact ED.
  - intros r c Hr Hc Hcr. unfold qget. rewrite RU'. destruct (Nat.ltb_spec j r); cbn [andb].
    + destruct (Nat.ltb_spec r n); [|lia]. unfold elim_row. rewrite nth_map_seq0 by lia.
      destruct (Nat.ltb_spec c j) as [Lc|Gc].
      * apply ZB1; lia.
      * assert (c = j) as -> by lia. rewrite qsub_eq, qmul_eq, qdiv_eq. apply elim_entry_zero. apply Max1. lia.
    + apply (ZB1 r c); lia.
Qed.

(* ---------- the whole loop ---------- *)
Fixpoint lu_sign (a : qmat) (k : nat) : Q :=
  match k with
  | O => 1%Q
  | S k' => (lu_sign a k' * step_sign (stU (lu_state a k')) k' (length a))%Q
  end.

Lemma lu_sign_sq a k : (lu_sign a k * lu_sign a k == 1)%Q.
Proof.
  induction k as [|k IH]; cbn [lu_sign]; [reflexivity|].
  set (t := step_sign _ _ _). assert (t * t == 1)%Q as T by (unfold t, step_sign; destruct (_ =? _); reflexivity).
  transitivity ((lu_sign a k * lu_sign a k) * (t * t))%Q; [ring|]. rewrite IH, T. reflexivity.
Qed.

Lemma lu_state_det a n : dims n a -> forall k, k <= n ->
  (fdet n (qget (stU (lu_state a k))) == lu_sign a k * fdet n (qget a))%Q /\ zero_below n k (stU (lu_state a k)).
Proof.
  intros Da. pose proof Da as (La & _). induction k as [|k IH]; intros Hk.
  - unfold lu_state. cbn [seq fold_left stU fst snd lu_sign]. split; [ring | intros r c _ Hc; lia].
  - destruct (IH ltac:(lia)) as (D & Z). destruct (lu_state_dims a n Da k ltac:(lia)) as (Dl & Du & Lo).
    cbn [lu_sign]. rewrite lu_state_S, La. destruct (lu_state a k) as [[l u] o]. cbn [stL stU stO fst snd] in *.
    pose proof (det_step n k l u o Dl Du Lo ltac:(lia) Z) as St.
    destruct (lu_step n (l, u, o) k) as [[l' u'] o']. cbn [stU fst snd].
    destruct St as (D' & Z'). split; [|exact Z']. rewrite D', D. ring.
Qed.

(* ---------- THE DETERMINANT IS THE VALUE OBTAINED BY ELIMINATION ---------- *)
Theorem det_elimination a n : 2 <= n -> dims n a ->
  (det a == lu_sign a n * diag_prod (stU (lu a)) n)%Q.
Proof.
  intros N2 Da. pose proof Da as (La & _). destruct (lu_state_det a n Da n (le_n _)) as (D & Z).
  destruct (lu_state_dims a n Da n (le_n _)) as (_ & Du & _).
  rewrite lu_is_state, La.
  assert (upper (stU (lu_state a n)) n) as Up by (split; [exact Du|]; intros i j Hji Hi; apply Z; lia).
  rewrite <- (det_upper n (stU (lu_state a n)) N2 Up).
  rewrite (det_fdet n _ N2 Du), (det_fdet n a N2 Da), D.
  pose proof (lu_sign_sq a n) as Sq.
  transitivity ((lu_sign a n * lu_sign a n) * fdet n (qget a))%Q; [rewrite Sq; ring | ring].
Qed.

Lemma fold_mult_acc0 l : forall acc, (acc == 0)%Q -> (fold_left Qmult l acc == 0)%Q.
Proof. induction l as [|y t IH]; intros acc H; cbn [fold_left]; [exact H|]. apply IH. rewrite H. ring. Qed.

Lemma fold_mult_zero l : forall acc x, In x l -> (x == 0)%Q -> (fold_left Qmult l acc == 0)%Q.
Proof.
  induction l as [|y t IH]; intros acc x Hi Hx; [destruct Hi|]. cbn [fold_left]. destruct Hi as [->|Hi].
  - apply fold_mult_acc0. rewrite Hx. ring.
  - now apply (IH _ x).
Qed.

Lemma fold_mult_nonzero l : forall acc, ~ (acc == 0)%Q -> (forall x, In x l -> ~ (x == 0)%Q) -> ~ (fold_left Qmult l acc == 0)%Q.
Proof.
  induction l as [|y t IH]; intros acc Ha Hl; cbn [fold_left]; [exact Ha|]. apply IH.
  - intros E. apply Qmult_integral in E. destruct E as [E|E]; [now apply Ha | now apply (Hl y (or_introl eq_refl))].
  - intros x Hx. apply Hl. now right.
Qed.

(* a non-zero determinant means that no pivot of the elimination is zero, and conversely *)
Theorem det_nonzero_pivots a n : 2 <= n -> dims n a -> ~ (det a == 0)%Q -> pivots_ok a.
Proof.
  intros N2 Da ND j Hj E. pose proof Da as (La & _). apply ND. rewrite (det_elimination a n N2 Da).
  unfold diag_prod. rewrite (fold_mult_zero _ 1 (qget (stU (lu a)) j j)); [ring| |exact E].
  apply in_map_iff. exists j. split; [reflexivity | apply in_seq; lia].
Qed.

Theorem pivots_nonzero_det a n : 2 <= n -> dims n a -> pivots_ok a -> ~ (det a == 0)%Q.
Proof.
  intros N2 Da Pv E. pose proof Da as (La & _). rewrite (det_elimination a n N2 Da) in E.
  apply Qmult_integral in E. destruct E as [E|E].
  - pose proof (lu_sign_sq a n) as Sq. rewrite E in Sq. lra.
  - revert E. unfold diag_prod. apply fold_mult_nonzero; [lra|].
    intros x Hx. apply in_map_iff in Hx as (j & <- & Hj). apply in_seq in Hj. apply Pv. lia.
Qed.

(* ---------- SOLVE, without any hypothesis on the pivots ---------- *)
Lemma solve_answers_regular a b x : solve a b = Ok x -> ~ (det a == 0)%Q.
Proof.
  intros E Z. unfold solve in E.
  assert (qabs_ltb (det a) (1 # 1000000000000) = true) as T.
  { unfold qabs_ltb. apply Bool.negb_true_iff. destruct (Qle_bool _ _) eqn:Q; [|reflexivity].
    apply Qle_bool_iff in Q. rewrite Z in Q. apply Qle_not_lt in Q. exfalso. apply Q. reflexivity. }
  rewrite T in E. discriminate.
Qed.

Theorem solve_exact a b x n k :
  2 <= n -> dims n a -> length b = n -> (forall r, r < n -> length (nth r b []) = k) ->
  solve a b = Ok x ->
  (length x = n /\ forall r, r < n -> length (nth r x []) = k) /\
  forall i j, i < n -> j < k -> (qsum (fun c => qget a i c * qget x c j) n == qget b i j)%Q.
Proof.
  intros N2 Da Lb Rb E. apply (solve_correct a b x n k Da ltac:(lia) Lb Rb); [|exact E].
  apply (det_nonzero_pivots a n N2 Da). exact (solve_answers_regular a b x E).
Qed.

(* non-vacuity: the sign and the pivots of a matrix that needs row exchanges *)
Example det_elimination_example :
  let a := [[2;1;1];[4;3;3];[8;7;9]]%Q in
  (det a == 4)%Q /\ (lu_sign a 3 == 1)%Q /\ (diag_prod (stU (lu a)) 3 == 4)%Q.
Proof. cbn zeta. repeat split; vm_compute; reflexivity. Qed.

Theorem solve_exact_residual a b x n k :
  2 <= n -> dims n a -> length b = n -> (forall r, r < n -> length (nth r b []) = k) ->
  solve a b = Ok x -> residual_ok a x b = true.
Proof.
  intros N2 Da Lb Rb E. apply (solve_residual a b x n k Da ltac:(lia) Lb Rb); [|exact E].
  apply (det_nonzero_pivots a n N2 Da). exact (solve_answers_regular a b x E).
Qed.

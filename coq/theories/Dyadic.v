(* Dyadic.v — floating.rs frexp / ldexp on exact values.
   A finite binary floating-point number is a dyadic rational m * 2^e (m, e integers).  Every f64 is one, and the
   two operations only halve and double, so — as long as no intermediate leaves the representable range, which the
   correspondence check establishes per case from the exact result — they are exact on these pairs.
   frexp x = (mant, k) with x = mant * 2^k and 1/2 <= |mant| < 1 (0 -> (0, 0));  ldexp x k = x * 2^k. *)
From ArrRs Require Export Index Axis Broadcast Lift.

Definition dy := (Z * Z)%type.

(* strip the factors of two of a positive mantissa *)
Fixpoint ptz (p : positive) : positive * Z :=
  match p with xO q => let (r, k) := ptz q in (r, (k + 1)%Z) | _ => (p, 0%Z) end.

(* canonical representative: odd mantissa (zero is (0, 0)) *)
Definition canon (x : dy) : dy :=
  match fst x with
  | Z0 => (0, 0)%Z
  | Zpos p => let (r, k) := ptz p in (Zpos r, (snd x + k)%Z)
  | Zneg p => let (r, k) := ptz p in (Zneg r, (snd x + k)%Z)
  end.

(* floating.rs _frexp: halve while >= 1, double while < 1/2, counting the steps *)
Definition frexp_d (x : dy) : dy * Z :=
  let (m, e) := x in
  if (m =? 0)%Z then ((0, 0), 0)%Z
  else let k := (Z.log2 (Z.abs m) + 1 + e)%Z in ((m, (e - k)%Z), k).

(* floating.rs _ldexp: double (halve) |k| times; zero is returned as it is *)
Definition ldexp_d (x : dy) (k : Z) : dy :=
  let (m, e) := x in if (m =? 0)%Z then x else (m, (e + k)%Z).

(* non-finite doubles travel through the interface as reserved pairs: (+-1, 100000) = +-inf, (0, 100001) = NaN.
   floating.rs returns them unchanged with exponent 0 (frexp, as repaired) / unchanged (ldexp: inf * 2 = inf). *)
Definition is_special (x : dy) : bool := (100000 <=? snd x)%Z.
Definition frexp_e (x : dy) : dy * Z :=
  if is_special x then (x, 0%Z) else let p := frexp_d x in (canon (fst p), snd p).
Definition ldexp_e (x : dy) (k : Z) : dy := if is_special x then x else canon (ldexp_d x k).

(* array level: frexp walks the elements in flat order and reshapes both results to the receiver's shape;
   ldexp zips the exponent array onto the receiver (stretching it) and maps *)
Definition frexp_arr (a : arr dy) : res (arr dy * arr Z) :=
  let r := map frexp_e (elems a) in
  let* man := flat_arr (map fst r) in
  let* man := reshape man (shape a) in
  let* ex := flat_arr (map snd r) in
  let* ex := reshape ex (shape a) in
  Ok (man, ex).

Definition ldexp_arr (a : arr dy) (k : arr Z) : res (arr dy) :=
  zipop 0%Z ldexp_e a k.

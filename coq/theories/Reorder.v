(* Reorder.v — src/core/operations/reorder.rs flip, flipud, fliplr, roll, rot90 (flip / roll as repaired) *)
From ArrRs Require Export Index Axis Broadcast Split.

Section Reorder.
Context {T : Type} (dflt : T).

(* the per-axis step shared by flip and roll on the flat element vector of an array of shape sh; `h` is the 1-D
   rearrangement (reverse / rotate), used on the list of leading slabs (axis 0) or on each lane (last axis):
   axis 0: rearrange the leading slabs; last axis: rearrange every lane; inner axis: recurse into the leading slabs *)
Fixpoint axis_apply (h : forall A : Type, list A -> list A) (es : list T) (sh : list nat) (ax : nat) : res (list T) :=
  let* flatten := flat_arr es in
  match ax with
  | 0 =>
    let* parts := split_even dflt flatten (nth 0 sh 0) (Some 0) in
    Ok (flat_map (@elems T) (h _ parts))
  | S ax' =>
    if S ax' =? length sh - 1 then
      let* lanes := split_even dflt flatten (prod (firstn (S ax') sh)) None in
      Ok (flat_map (fun l => h _ (elems l)) lanes)
    else
      let* slabs := split_even dflt flatten (nth 0 sh 0) None in
      let* done := mapM (fun s => let* r := reshape s (tl sh) in axis_apply h (elems r) (tl sh) ax') slabs in
      Ok (concat done)
  end.

Definition flip_axis (es : list T) (sh : list nat) (ax : nat) : res (list T) := axis_apply (@rev) es sh ax.

Definition flip (a : arr T) (axes : option (list Z)) : res (arr T) :=
  match axes with
  | None => new (rev (elems a)) (shape a)
  | Some l =>
    let axs := map (normalize_axis (ndim a)) l in
    let* _ := guard (forallb (fun ax => (ax <? Z.of_nat (ndim a))%Z) axs) EAxis in
    let* es := fold_left (fun (r : res (list T)) ax => let* es := r in flip_axis es (shape a) (Z.to_nat ax)) axs (Ok (elems a)) in
    let* f := flat_arr es in reshape f (shape a)
  end.

Definition flipud (a : arr T) : res (arr T) :=
  if ndim a =? 0 then Err EUnsupDim else flip a (Some [0%Z]).
Definition fliplr (a : arr T) : res (arr T) :=
  if ndim a <? 2 then Err EUnsupDim else flip a (Some [1%Z]).

(* Vec::rotate_right by (shift mod len): index i moves to (i + shift) mod len *)
Definition rotate {A} (l : list A) (shift : Z) : list A :=
  match l with
  | [] => []
  | _ => let n := length l in
         let k := Z.to_nat (shift mod Z.of_nat n) in
         skipn (n - k) l ++ firstn (n - k) l
  end.

Definition roll_axis (es : list T) (sh : list nat) (ax : nat) (shift : Z) : res (list T) :=
  axis_apply (fun A l => rotate l shift) es sh ax.

(* shifts accumulated per axis (the HashMap), listed by ascending axis *)
Definition accumulate_shifts (n : nat) (pairs : list (Z * Z)) : list (nat * Z) :=
  filter (fun p => existsb (fun q => Z.to_nat (normalize_axis n (snd q)) =? fst p) pairs)
    (map (fun ax => (ax, fold_left (fun s q => if Z.to_nat (normalize_axis n (snd q)) =? ax then (s + fst q)%Z else s) pairs 0%Z))
         (seq 0 (S (fold_left (fun m q => Nat.max m (Z.to_nat (normalize_axis n (snd q)))) pairs 0)))).

Definition roll (a : arr T) (shift : list Z) (axes : option (list Z)) : res (arr T) :=
  let* array := match axes with None => ravel a | Some _ => Ok a end in
  let* _ := match axes with
            | Some l => guard (forallb (fun ax => (normalize_axis (ndim a) ax <? Z.of_nat (ndim a))%Z) l) EAxis
            | None => Ok tt end in
  let axs := match axes with Some l => l | None => [0%Z] end in
  let* sh_arr := flat_arr shift in
  let* ax_arr := flat_arr axs in
  let* pairs := broadcast 0%Z 0%Z sh_arr ax_arr in
  if 1 <? ndim pairs then Err EParam else
  let shifts := accumulate_shifts (ndim a) (elems pairs) in
  match ndim array with
  | 0 => empty
  | 1 =>
    let es := fold_left (fun es (p : nat * Z) => rotate es (snd p)) shifts (elems array) in
    let* f := flat_arr es in reshape f (shape a)
  | _ =>
    let* es := fold_left (fun (r : res (list T)) (p : nat * Z) => let* es := r in roll_axis es (shape a) (fst p) (snd p))
                         shifts (Ok (elems array)) in
    new es (shape a)
  end.

(* reorder.rs rot90 *)
Definition rot90 (a : arr T) (k : nat) (axes : list Z) : res (arr T) :=
  if ndim a <? 2 then Err EUnsupDim else
  match axes with
  | [p; q] =>
    let n := Z.of_nat (ndim a) in
    if ((n <=? p) || (p <? - n) || (n <=? q) || (q <? - n))%Z then Err EParam else
    match k mod 4 with
    | 0 => Ok a
    | 2 => let* f := flip a (Some [q]) in flip f (Some [p])
    | k' =>
      let p' := Z.to_nat (normalize_axis (ndim a) p) in
      let q' := Z.to_nat (normalize_axis (ndim a) q) in
      let axes_list := map Z.of_nat (swap_list (seq 0 (ndim a)) p' q') in
      if k' =? 1 then let* f := flip a (Some [Z.of_nat q']) in transpose dflt f (Some axes_list)
      else let* t := transpose dflt a (Some axes_list) in flip t (Some [Z.of_nat q'])
    end
  | _ => Err EParam
  end.

End Reorder.

From ArrRs Require Import Index Index_proofs Lists_proofs Axis Axis_proofs Reshape_proofs Sort.
From Coq Require Import Permutation Sorted.

Section SortProofs.
Context {T : Type} (ltb : T -> T -> bool) (d : T).

Definition le (x y : T) : Prop := ltb y x = false.

(* the order hypotheses: a strict weak order (asymmetric, with transitive "not greater") *)
Hypothesis lt_le : forall x y, ltb x y = true -> le x y.
Hypothesis le_trans : forall x y z, le x y -> le y z -> le x z.

Definition sorted (l : list T) : Prop := StronglySorted le l.

Lemma le_total x y : le x y \/ le y x.
Proof. unfold le. destruct (ltb y x) eqn:E; [right; now apply lt_le | now left]. Qed.

(* ---------- merge ---------- *)
Lemma merge_lt_perm l1 l2 : Permutation (merge_lt ltb l1 l2) (l1 ++ l2).
Proof.
  revert l2; induction l1 as [|x t1 IH1]; intros l2.
  - destruct l2; reflexivity.
  - induction l2 as [|y t2 IH2].
    + cbn. now rewrite app_nil_r.
    + cbn [merge_lt]. destruct (ltb x y).
      * cbn [app]. constructor. apply IH1.
      * change (Permutation (y :: merge_lt ltb (x :: t1) t2) ((x :: t1) ++ y :: t2)).
        rewrite IH2. apply Permutation_middle.
Qed.

Lemma merge_le_perm l1 l2 : Permutation (merge_le ltb l1 l2) (l1 ++ l2).
Proof.
  revert l2; induction l1 as [|x t1 IH1]; intros l2.
  - destruct l2; reflexivity.
  - induction l2 as [|y t2 IH2].
    + cbn. now rewrite app_nil_r.
    + cbn [merge_le]. destruct (negb (ltb y x)).
      * cbn [app]. constructor. apply IH1.
      * change (Permutation (y :: merge_le ltb (x :: t1) t2) ((x :: t1) ++ y :: t2)).
        rewrite IH2. apply Permutation_middle.
Qed.

Lemma sorted_cons_inv x l : sorted (x :: l) -> sorted l /\ Forall (le x) l.
Proof. intros H. inversion H; subst. auto. Qed.

Lemma merge_lt_sorted l1 l2 : sorted l1 -> sorted l2 -> sorted (merge_lt ltb l1 l2).
Proof.
  revert l2; induction l1 as [|x t1 IH1]; intros l2 S1 S2.
  - destruct l2; exact S2.
  - induction l2 as [|y t2 IH2]; [exact S1|].
    cbn [merge_lt]. destruct (sorted_cons_inv _ _ S1) as [S1' F1]. destruct (sorted_cons_inv _ _ S2) as [S2' F2].
    destruct (ltb x y) eqn:E.
    + constructor; [apply IH1; auto|].
      apply (Permutation_Forall (Permutation_sym (merge_lt_perm t1 (y :: t2)))).
      apply Forall_app. split; [exact F1|]. constructor; [now apply lt_le|].
      eapply Forall_impl; [|exact F2]. intros z Hz. apply (le_trans x y z); [now apply lt_le | exact Hz].
    + change (sorted (y :: merge_lt ltb (x :: t1) t2)). constructor; [apply IH2; auto|].
      apply (Permutation_Forall (Permutation_sym (merge_lt_perm (x :: t1) t2))).
      apply Forall_app. split; [|exact F2]. constructor; [exact E|].
      eapply Forall_impl; [|exact F1]. intros z Hz. apply (le_trans y x z); [exact E | exact Hz].
Qed.

(* ---------- merge_sort ---------- *)
Lemma merge_sort_f_spec fuel l : length l < fuel ->
  exists r, merge_sort_f ltb fuel l = Ok r /\ sorted r /\ Permutation l r.
Proof.
  revert l; induction fuel as [|f IH]; intros l H; [lia|]. cbn [merge_sort_f].
  destruct (Nat.leb_spec (length l) 1) as [L|L].
  - exists l. split; [reflexivity|]. split; [|reflexivity].
    destruct l as [|x [|y t]]; cbn in L; try lia; repeat constructor.
  - set (mid := length l / 2).
    assert (0 < mid < length l) as M by (unfold mid; split; [apply Nat.div_str_pos; lia | apply Nat.div_lt; lia]).
    destruct (IH (firstn mid l)) as (r1 & E1 & S1 & P1); [rewrite firstn_length; lia|].
    destruct (IH (skipn mid l)) as (r2 & E2 & S2 & P2); [rewrite skipn_length; lia|].
    rewrite E1, E2. cbn [bind]. eexists. split; [reflexivity|]. split; [now apply merge_lt_sorted|].
    rewrite merge_lt_perm, <- P1, <- P2, firstn_skipn. reflexivity.
Qed.

Theorem merge_sort_spec l : exists r, merge_sort ltb l = Ok r /\ sorted r /\ Permutation l r.
Proof. apply merge_sort_f_spec. lia. Qed.

(* ---------- quick_sort ---------- *)
Lemma filter_split_perm (p : T -> bool) l : Permutation l (filter p l ++ filter (fun x => negb (p x)) l).
Proof.
  induction l as [|x t IH]; cbn; [reflexivity|]. destruct (p x); cbn.
  - now constructor.
  - rewrite IH at 1. apply Permutation_middle.
Qed.

Lemma filter_length_le (p : T -> bool) l : length (filter p l) <= length l.
Proof. induction l as [|x t IH]; cbn; [lia|]. destruct (p x); cbn; lia. Qed.

Lemma sorted_app l1 x l2 :
  sorted l1 -> sorted l2 -> Forall (fun y => le y x) l1 -> Forall (le x) l2 -> sorted (l1 ++ x :: l2).
Proof.
  induction l1 as [|y t IH]; intros S1 S2 F1 F2; cbn [app].
  - now constructor.
  - destruct (sorted_cons_inv _ _ S1) as [S1' Fy]. inversion F1 as [|? ? Hy F1']; subst.
    constructor; [apply IH; auto|]. apply Forall_app. split; [exact Fy|].
    constructor; [exact Hy|]. eapply Forall_impl; [|exact F2]. intros z Hz. eapply le_trans; eauto.
Qed.

Lemma quick_sort_f_spec fuel l : length l < fuel ->
  exists r, quick_sort_f ltb fuel l = Ok r /\ sorted r /\ Permutation l r.
Proof.
  revert l; induction fuel as [|f IH]; intros l H; [lia|]. cbn [quick_sort_f].
  destruct l as [|pivot rest]; [exists []; repeat split; constructor|].
  destruct rest as [|y rest']; [exists [pivot]; repeat split; repeat constructor|].
  set (rest := y :: rest') in *.
  pose proof (filter_length_le (fun it => ltb it pivot) rest) as L1.
  pose proof (filter_length_le (fun it => negb (ltb it pivot)) rest) as L2.
  cbn [length] in H.
  destruct (IH (filter (fun it => ltb it pivot) rest)) as (r1 & E1 & S1 & P1); [lia|].
  destruct (IH (filter (fun it => negb (ltb it pivot)) rest)) as (r2 & E2 & S2 & P2); [lia|].
  rewrite E1, E2. cbn [bind]. eexists. split; [reflexivity|]. split.
  - apply sorted_app; auto.
    + apply (Permutation_Forall P1). apply Forall_forall. intros z Hz. apply filter_In in Hz as [_ Hz]. now apply lt_le.
    + apply (Permutation_Forall P2). apply Forall_forall. intros z Hz. apply filter_In in Hz as [_ Hz].
      apply negb_true_iff in Hz. exact Hz.
  - rewrite <- P1, <- P2. rewrite <- Permutation_middle. constructor. apply filter_split_perm.
Qed.

Theorem quick_sort_spec l : exists r, quick_sort ltb l = Ok r /\ sorted r /\ Permutation l r.
Proof. apply quick_sort_f_spec. lia. Qed.

(* ---------- the sorted rearrangement is unique under a total order: all kinds agree ---------- *)
Hypothesis le_antisym : forall x y, le x y -> le y x -> x = y.

Lemma sorted_perm_unique l1 l2 : sorted l1 -> sorted l2 -> Permutation l1 l2 -> l1 = l2.
Proof.
  revert l2; induction l1 as [|x t IH]; intros l2 S1 S2 P.
  - apply Permutation_nil in P. now subst.
  - destruct l2 as [|y t2]; [apply Permutation_sym, Permutation_nil in P; discriminate|].
    destruct (sorted_cons_inv _ _ S1) as [S1' F1]. destruct (sorted_cons_inv _ _ S2) as [S2' F2].
    assert (x = y) as ->.
    { assert (In y (x :: t)) as Iy by (apply (Permutation_in _ (Permutation_sym P)); now left).
      assert (In x (y :: t2)) as Ix by (apply (Permutation_in _ P); now left).
      destruct Iy as [->|Iy]; [reflexivity|]. destruct Ix as [->|Ix]; [reflexivity|].
      rewrite Forall_forall in F1, F2. apply le_antisym; [apply F1, Iy | apply F2, Ix]. }
    f_equal. apply IH; auto. now apply Permutation_cons_inv in P.
Qed.

Theorem merge_quick_agree l r1 r2 : merge_sort ltb l = Ok r1 -> quick_sort ltb l = Ok r2 -> r1 = r2.
Proof.
  intros E1 E2. destruct (merge_sort_spec l) as (r1' & E1' & S1 & P1). destruct (quick_sort_spec l) as (r2' & E2' & S2 & P2).
  rewrite E1 in E1'. rewrite E2 in E2'. injection E1' as <-. injection E2' as <-.
  apply sorted_perm_unique; auto. now rewrite <- P1.
Qed.

(* sorting is idempotent *)
Theorem quick_sort_idempotent l r : quick_sort ltb l = Ok r -> quick_sort ltb r = Ok r.
Proof.
  intros E. destruct (quick_sort_spec l) as (r' & E' & S & P). rewrite E in E'. injection E' as <-.
  destruct (quick_sort_spec r) as (r2 & E2 & S2 & P2). rewrite E2. f_equal. symmetry. now apply sorted_perm_unique.
Qed.

Theorem merge_sort_idempotent l r : merge_sort ltb l = Ok r -> merge_sort ltb r = Ok r.
Proof.
  intros E. destruct (merge_sort_spec l) as (r' & E' & S & P). rewrite E in E'. injection E' as <-.
  destruct (merge_sort_spec r) as (r2 & E2 & S2 & P2). rewrite E2. f_equal. symmetry. now apply sorted_perm_unique.
Qed.

End SortProofs.

(* ---------- heap_sort and tim_sort: they terminate within their fuel and rearrange (permute) the input ---------- *)
Section PermProofs.
Context {T : Type} (ltb : T -> T -> bool) (d : T).

Lemma swap_at_as_map (l : list T) i j : i < length l -> j < length l ->
  swap_at d l i j = map (fun k => nth k l d) (swap_list (seq 0 (length l)) i j).
Proof.
  intros Hi Hj. apply (nth_ext _ _ d d).
  - unfold swap_at, swap_list. now rewrite !upd_length, map_length, !upd_length, seq_length.
  - intros k Hk. unfold swap_at in Hk. rewrite !upd_length in Hk.
    rewrite (nth_map_lt _ _ _ 0) by (unfold swap_list; now rewrite !upd_length, seq_length).
    rewrite nth_swap_list by now rewrite seq_length. rewrite !seq_nth by lia. cbn [Nat.add].
    unfold swap_at. rewrite !nth_upd, !upd_length.
    destruct (Nat.eqb_spec j k), (Nat.eqb_spec k j), (Nat.eqb_spec i k), (Nat.eqb_spec k i),
      (Nat.ltb_spec j (length l)), (Nat.ltb_spec i (length l)); cbn; try lia; subst; auto.
Qed.

Lemma swap_at_perm (l : list T) i j : i < length l -> j < length l -> Permutation (swap_at d l i j) l.
Proof.
  intros Hi Hj. rewrite swap_at_as_map by auto.
  pose proof (Permutation_map (fun k => nth k l d)
                (is_perm_Permutation _ _ (swap_seq_is_perm (length l) i j Hi Hj))) as Q.
  rewrite map_nth_seq in Q. exact Q.
Qed.

Lemma swap_at_length (l : list T) i j : length (swap_at d l i j) = length l.
Proof. unfold swap_at. now rewrite !upd_length. Qed.

Definition same (a a' : list T) : Prop := Permutation a' a /\ length a' = length a.

Lemma same_refl a : same a a.
Proof. split; reflexivity. Qed.

Lemma same_trans a b c : same a b -> same b c -> same a c.
Proof. intros [P1 L1] [P2 L2]. split; [now rewrite P2 | congruence]. Qed.

Lemma same_swap a i j : i < length a -> j < length a -> same a (swap_at d a i j).
Proof. intros. split; [now apply swap_at_perm | apply swap_at_length]. Qed.

Lemma shift_down_spec fuel a root end_ :
  end_ < length a -> end_ + 1 - root <= fuel -> 0 < fuel ->
  exists a', shift_down ltb d fuel a root end_ = Ok a' /\ same a a'.
Proof.
  revert a root; induction fuel as [|f IH]; intros a root He Hf Hp; [lia|]. cbn [shift_down].
  destruct (Nat.ltb_spec end_ (root * 2 + 1)) as [L|L]; [exists a; split; [reflexivity | apply same_refl]|].
  set (child := if (root * 2 + 1 <? end_) && ltb (nth (root * 2 + 1) a d) (nth (root * 2 + 1 + 1) a d)
                then root * 2 + 1 + 1 else root * 2 + 1).
  assert (root < child <= end_) as Hc.
  { unfold child. destruct (Nat.ltb_spec (root * 2 + 1) end_); cbn [andb]; [destruct (ltb _ _)|]; lia. }
  destruct (ltb (nth root a d) (nth child a d)); [|exists a; split; [reflexivity | apply same_refl]].
  assert (same a (swap_at d a root child)) as Sw by (apply same_swap; lia).
  destruct (IH (swap_at d a root child) child) as (a' & E & S); [rewrite swap_at_length; lia | lia | lia|].
  exists a'. split; [exact E|]. eapply same_trans; eauto.
Qed.

Lemma fold_res_same {X} (F : list T -> X -> res (list T)) (xs : list X) (a0 : list T) :
  (forall a x, In x xs -> same a0 a -> exists a', F a x = Ok a' /\ same a a') ->
  exists a', fold_left (fun (r : res (list T)) x => let* a := r in F a x) xs (Ok a0) = Ok a' /\ same a0 a'.
Proof.
  intros H. assert (forall a, same a0 a ->
    exists a', fold_left (fun (r : res (list T)) x => let* a := r in F a x) xs (Ok a) = Ok a' /\ same a0 a') as G.
  { induction xs as [|x t IH]; intros a Sa; cbn [fold_left].
    - exists a. auto.
    - destruct (H a x (or_introl eq_refl) Sa) as (a1 & E1 & S1). cbn [bind]. rewrite E1.
      apply IH; [|eapply same_trans; eauto]. intros a2 y Hy. apply H. now right. }
  apply G, same_refl.
Qed.

Theorem heap_sort_perm l : exists r, heap_sort ltb d l = Ok r /\ Permutation l r.
Proof.
  unfold heap_sort. destruct (Nat.leb_spec (length l) 1) as [L|L]; [exists l; split; reflexivity|].
  set (n := length l) in *.
  destruct (fold_res_same (fun a start => shift_down ltb d (S n) a start (n - 1)) (rev (seq 0 (n / 2))) l) as (a1 & E1 & S1).
  { intros a x Hx [_ La]. apply shift_down_spec; rewrite ?La; fold n; lia. }
  rewrite E1. cbn [bind].
  destruct (fold_res_same (fun a end_ => shift_down ltb d (S n) (swap_at d a 0 end_) 0 (end_ - 1)) (rev (seq 1 (n - 1))) a1)
    as (a2 & E2 & S2).
  { intros a x Hx [Pa La]. apply in_rev, in_seq in Hx. destruct S1 as [_ L1].
    assert (length a = n) as Ln by (unfold n; congruence).
    destruct (shift_down_spec (S n) (swap_at d a 0 x) 0 (x - 1)) as (a' & E & S); [rewrite swap_at_length; lia | lia | lia|].
    exists a'. split; [exact E|]. eapply same_trans; [apply (same_swap a 0 x); lia | exact S]. }
  exists a2. split; [exact E2|]. destruct S1 as [P1 _], S2 as [P2 _]. symmetry. now rewrite P2.
Qed.

(* ---- tim_sort ---- *)
Lemma sink_same fuel a left j : j < length a -> same a (sink ltb d fuel a left j).
Proof.
  revert a j; induction fuel as [|f IH]; intros a j Hj; cbn [sink]; [apply same_refl|].
  destruct (Nat.ltb_spec left j) as [L|L]; cbn [andb]; [|apply same_refl].
  destruct (ltb _ _); [|apply same_refl].
  eapply same_trans; [apply (same_swap a j (j - 1)); lia|]. apply IH. rewrite swap_at_length. lia.
Qed.

Lemma fold_same {X} (F : list T -> X -> list T) (xs : list X) (a0 : list T) :
  (forall a x, In x xs -> same a0 a -> same a (F a x)) -> same a0 (fold_left F xs a0).
Proof.
  intros H. assert (forall a, same a0 a -> same a0 (fold_left F xs a)) as G.
  { induction xs as [|x t IH]; intros a Sa; cbn [fold_left]; auto.
    apply IH; [intros; apply H; auto; now right|]. eapply same_trans; [exact Sa|]. apply H; auto. now left. }
  apply G, same_refl.
Qed.

Lemma insertion_sort_same a left right : right < length a -> same a (insertion_sort ltb d a left right).
Proof.
  intros Hr. unfold insertion_sort. apply fold_same. intros a' i Hi [_ La]. apply in_seq in Hi.
  apply sink_same. lia.
Qed.

Lemma merge_runs_same a left mid right :
  left <= mid -> mid < right -> right < length a -> same a (merge_runs ltb a left mid right).
Proof.
  intros H1 H2 H3. unfold merge_runs.
  assert (Permutation (firstn left a ++ merge_le ltb (firstn (mid - left + 1) (skipn left a))
                         (firstn (right - mid) (skipn (mid + 1) a)) ++ skipn (right + 1) a) a) as P.
  { rewrite merge_le_perm.
    rewrite <- (firstn_skipn left a) at 5. apply Permutation_app_head.
    rewrite <- (firstn_skipn (mid - left + 1) (skipn left a)) at 2. rewrite <- app_assoc. apply Permutation_app_head.
    rewrite skipn_skipn. replace (mid - left + 1 + left) with (mid + 1) by lia.
    rewrite <- (firstn_skipn (right - mid) (skipn (mid + 1) a)) at 2. apply Permutation_app_head.
    rewrite skipn_skipn. replace (right - mid + (mid + 1)) with (right + 1) by lia. reflexivity. }
  split; [exact P | apply Permutation_length, P].
Qed.

Lemma calc_min_run_f_pos fuel n r : 1 <= n -> 1 <= calc_min_run_f fuel n r.
Proof.
  revert n r; induction fuel as [|f IH]; intros n r H; cbn [calc_min_run_f]; [lia|].
  destruct (Nat.leb_spec 32 n); [|lia]. apply IH.
  assert (16 <= n / 2) by (apply Nat.div_le_lower_bound; lia). lia.
Qed.

Lemma tim_merge_passes_spec fuel a size n :
  length a = n -> 1 <= size -> n + 1 - size <= fuel -> 0 < fuel ->
  exists a', tim_merge_passes ltb fuel a size n = Ok a' /\ same a a'.
Proof.
  revert a size; induction fuel as [|f IH]; intros a size La Hs Hf Hp; [lia|]. cbn [tim_merge_passes].
  destruct (Nat.ltb_spec size n) as [L|L]; [|exists a; split; [reflexivity | apply same_refl]].
  set (a1 := fold_left _ _ a).
  assert (same a a1) as S1.
  { unfold a1. apply fold_same. intros a' left Hl [_ La']. 
    destruct (Nat.ltb_spec (Nat.min (n - 1) (left + size - 1)) (Nat.min (left + 2 * size - 1) (n - 1))) as [M|M];
      [|apply same_refl].
    apply merge_runs_same; lia. }
  destruct (IH a1 (size * 2)) as (a' & E & S); [destruct S1; congruence | lia | lia | lia|].
  exists a'. split; [exact E|]. eapply same_trans; eauto.
Qed.

Theorem tim_sort_perm l : exists r, tim_sort ltb d l = Ok r /\ Permutation l r.
Proof.
  unfold tim_sort. destruct (Nat.leb_spec (length l) 1) as [L|L]; [exists l; split; reflexivity|].
  set (n := length l) in *. set (mr := calc_min_run n).
  assert (1 <= mr) as Hm by (apply calc_min_run_f_pos; lia).
  set (a := fold_left _ _ l).
  assert (same l a) as Sa.
  { unfold a. apply fold_same. intros a' start Hs [_ La']. apply insertion_sort_same. rewrite La'. fold n. lia. }
  destruct (tim_merge_passes_spec (S n) a mr n) as (a' & E & S); [destruct Sa as [_ La]; rewrite La; reflexivity | lia | lia | lia|].
  exists a'. split; [exact E|]. destruct Sa as [P1 _], S as [P2 _]. symmetry. now rewrite P2.
Qed.

End PermProofs.

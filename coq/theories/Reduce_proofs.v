From ArrRs Require Import Index Index_proofs Lists_proofs Axis Axis_proofs Reshape_proofs Prog_proofs Split Lift Lift_proofs Reduce.

(* ---------- the 1-D bodies ---------- *)

Lemma z_scan_from_length f acc l : length (z_scan_from f acc l) = length l.
Proof. revert acc; induction l as [|x t IH]; intros acc; cbn; auto. Qed.

(* running totals: element k of the scan is the fold of the first k+1 elements *)
Lemma z_scan_from_nth f acc l k : k < length l ->
  nth k (z_scan_from f acc l) 0%Z = fold_left f (firstn (S k) l) acc.
Proof.
  revert acc k; induction l as [|x t IH]; intros acc k H; cbn in H; [lia|].
  destruct k as [|k]; cbn [z_scan_from nth firstn fold_left].
  - destruct t; reflexivity.
  - apply IH. lia.
Qed.

Theorem z_cumsum1_spec l k : k < length l -> nth k (z_cumsum1 l) 0%Z = z_sum1 (firstn (S k) l).
Proof. apply z_scan_from_nth. Qed.

Theorem z_cumprod1_spec l k : k < length l -> nth k (z_cumprod1 l) 0%Z = z_prod1 (firstn (S k) l).
Proof. apply z_scan_from_nth. Qed.

Lemma fold_max_ge l x : forall y, In y (x :: l) -> (y <= fold_left (fun a b => if (a <? b)%Z then b else a) l x)%Z.
Proof.
  revert x; induction l as [|z t IH]; intros x y H; cbn [fold_left].
  - destruct H as [->|[]]. lia.
  - destruct H as [->|[->|H]].
    + destruct (Z.ltb_spec y z); [transitivity z; [lia|] |]; apply IH; now left.
    + destruct (Z.ltb_spec x y); [apply IH; now left|]. transitivity x; [lia | apply IH; now left].
    + apply IH. now right.
Qed.

Lemma fold_max_in l x : In (fold_left (fun a b => if (a <? b)%Z then b else a) l x) (x :: l).
Proof.
  revert x; induction l as [|z t IH]; intros x; cbn [fold_left]; [now left|].
  destruct (IH (if (x <? z)%Z then z else x)) as [E|H].
  - rewrite <- E. destruct (x <? z)%Z; [right; now left | now left].
  - right. now right.
Qed.

(* max of a non-empty lane: an element of the lane that bounds every element *)
Theorem z_max1_spec l m : z_max1 l = Ok m -> In m l /\ forall y, In y l -> (y <= m)%Z.
Proof.
  destruct l as [|x t]; [discriminate|]. unfold z_max1. intros H. injection H as H.
  pose proof (fold_max_in (x :: t) x) as I. pose proof (fold_max_ge (x :: t) x) as G.
  assert (fold_left (fun a b => if (a <? b)%Z then b else a) (x :: t) x = m) as E by exact H.
  rewrite E in I, G. split.
  - destruct I as [E2|I]; [left; exact E2 | exact I].
  - intros y Hy. apply G. now right.
Qed.

Theorem z_max1_empty : z_max1 [] = Err EParam.
Proof. reflexivity. Qed.

Theorem z_count_nonzero1_spec l n : z_count_nonzero1 l = Ok n -> n = length (filter (fun x => negb (x =? 0)%Z) l).
Proof. now intros [= <-]. Qed.

(* ---------- structure of the axis wrappers ---------- *)
Section ReduceProofs.
Context {T : Type} (dt : T).

(* with no axis the operation acts on the flattened array *)
Theorem reduce_none (g1 : list T -> res T) (a : arr T) v :
  g1 (elems a) = Ok v -> reduce dt g1 a None = Ok (mk [v] [1]).
Proof. intros H. unfold reduce. rewrite H. reflexivity. Qed.

Theorem scan_none (g : list T -> list T) (a : arr T) :
  length (g (elems a)) = len a -> scan dt g a None = Ok (mk (g (elems a)) [len a]).
Proof.
  intros H. unfold scan, scan1. rewrite ravel_ok. cbn [bind elems shape]. rewrite flat_arr_ok. cbn [bind].
  apply reshape_iff. cbn. unfold len in *. cbn. lia.
Qed.

(* an axis outside the rank (either spelling) is an error value *)
Theorem reduce_axis_err (g1 : list T -> res T) (a : arr T) z :
  (Z.of_nat (ndim a) < 9223372036854775808)%Z -> isize_ok z -> ~ axis_ok (ndim a) z ->
  reduce dt g1 a (Some z) = Err EAxis.
Proof.
  intros B I H. unfold reduce, reduce_axis.
  pose proof (axis_in_bounds_err (ndim a) z B I H) as E. unfold axis_in_bounds in E.
  destruct (normalize_axis (ndim a) z <? Z.of_nat (ndim a))%Z; [discriminate | reflexivity].
Qed.

Theorem scan_axis_err (g : list T -> list T) (a : arr T) z :
  (Z.of_nat (ndim a) < 9223372036854775808)%Z -> isize_ok z -> ~ axis_ok (ndim a) z ->
  scan dt g a (Some z) = Err EAxis.
Proof.
  intros B I H. unfold scan.
  pose proof (axis_in_bounds_err (ndim a) z B I H) as E. unfold axis_in_bounds in E.
  destruct (normalize_axis (ndim a) z <? Z.of_nat (ndim a))%Z; [discriminate | reflexivity].
Qed.

(* a negative axis denotes the same axis counted from the end *)
Theorem reduce_negative (g1 : list T -> res T) (a : arr T) z :
  (Z.of_nat (ndim a) < two64)%Z -> (- Z.of_nat (ndim a) <= z < 0)%Z ->
  reduce dt g1 a (Some z) = reduce dt g1 a (Some (z + Z.of_nat (ndim a))%Z).
Proof. intros B H. unfold reduce, reduce_axis. now rewrite <- (normalize_axis_negative _ z B H). Qed.

Theorem scan_negative (g : list T -> list T) (a : arr T) z :
  (Z.of_nat (ndim a) < two64)%Z -> (- Z.of_nat (ndim a) <= z < 0)%Z ->
  scan dt g a (Some z) = scan dt g a (Some (z + Z.of_nat (ndim a))%Z).
Proof. intros B H. unfold scan. now rewrite <- (normalize_axis_negative _ z B H). Qed.

End ReduceProofs.

(* ---------- well-formedness of everything the split / along / reduce layer returns (C01) ---------- *)
Section WfProofs.
Context {T : Type} (dt : T).

Lemma split_piece_wf (a rolled : arr T) axis block start size p :
  split_piece dt a rolled axis block start size = Ok p -> wf p.
Proof.
  unfold split_piece. intros H. inv_bind H. destruct (ndim a =? 1).
  - injection H as <-. now apply new_wf in E.
  - inv_bind H. now apply moveaxis_wf in H.
Qed.

Lemma split_pieces_wf (a rolled : arr T) axis block start sizes ps :
  split_pieces dt a rolled axis block start sizes = Ok ps -> Forall wf ps.
Proof.
  revert start ps; induction sizes as [|s t IH]; intros start ps H; cbn [split_pieces] in H.
  - injection H as <-. constructor.
  - destruct (split_piece dt a rolled axis block start s) eqn:E1; try discriminate;
      destruct (split_pieces dt a rolled axis block (start + s) t) eqn:E2; try discriminate.
    injection H as <-. constructor; [eapply split_piece_wf; eauto | eapply IH; eauto].
Qed.

Lemma array_split_wf (a : arr T) parts axis ps : wf a -> array_split dt a parts axis = Ok ps -> Forall wf ps.
Proof.
  intros W. unfold array_split. destruct (parts =? 0); [discriminate|]. intros H. inv_bind H.
  destruct (is_empty a); [injection H as <-; repeat constructor; auto|].
  destruct (nth_error _ _); [|discriminate]. inv_bind H. eapply split_pieces_wf; eauto.
Qed.

Lemma split_even_wf (a : arr T) parts axis ps : wf a -> split_even dt a parts axis = Ok ps -> Forall wf ps.
Proof.
  intros W. unfold split_even. intros H. inv_bind H. destruct (parts =? 0); [discriminate|].
  destruct (is_empty a); [injection H as <-; repeat constructor; auto|].
  destruct (nth_error _ _); [|discriminate]. destruct (_ =? 0); [|discriminate]. eapply array_split_wf; eauto.
Qed.

End WfProofs.

Section AlongWf.
Context {T U : Type} (dt : T) (du : U).

Lemma apply_along_axis_wf (a : arr T) axis f r : apply_along_axis dt du a axis f = Ok r -> wf r.
Proof.
  unfold apply_along_axis. intros H. do 5 inv_bind H. destruct x3 as [|first rest]; [discriminate|].
  destruct (negb _); [discriminate|]. do 2 inv_bind H. destruct (axis =? 0); [now apply rollaxis_wf in H | now apply moveaxis_wf in H].
Qed.

End AlongWf.

Section ReduceWf.
Context {T : Type} (dt : T).

Lemma reduce_wf g1 (a : arr T) axis r : reduce dt g1 a axis = Ok r -> wf r.
Proof.
  unfold reduce, reduce_axis. destruct axis as [z|]; intros H.
  - do 2 inv_bind H. now apply reshape_ok in H as (_ & _ & ?).
  - inv_bind H. now apply new_wf in H.
Qed.

Lemma scan1_wf g (a : arr T) r : scan1 g a = Ok r -> wf r.
Proof. unfold scan1. intros H. do 2 inv_bind H. now apply reshape_ok in H as (_ & _ & ?). Qed.

Lemma scan_wf g (a : arr T) axis r : scan dt g a axis = Ok r -> wf r.
Proof.
  unfold scan. destruct axis as [z|]; intros H.
  - inv_bind H. now apply apply_along_axis_wf in H.
  - now apply scan1_wf in H.
Qed.

Lemma index_reduce_wf {U} (du : U) g1 (a : arr T) axis kd r : index_reduce dt du g1 a axis kd = Ok r -> wf r.
Proof.
  unfold index_reduce. destruct axis as [z|]; intros H.
  - do 2 inv_bind H. destruct kd; [injection H as <-; now apply apply_along_axis_wf in E0|].
    now apply reshape_ok in H as (_ & _ & ?).
  - do 2 inv_bind H. apply new_wf in E0. destruct kd; [|now injection H as <-].
    apply atleast_ok in H as [_ W]. auto.
Qed.

End ReduceWf.

From ArrRs Require Import Index Lists_proofs Axis Str Str_proofs Text.

(* ---------- literals: every shape of rank 1..4 with axis lengths 1..4 (the property's own bound: 340 shapes),
   atoms = the decimal numerals 0, 1, 2, ... in reading order; decided by computation over the finite list ---------- *)
Fixpoint digits_f (fuel n : nat) : str :=
  match fuel with
  | 0 => []
  | S f => (if n <? 10 then [] else digits_f f (n / 10)) ++ [Z.of_nat (48 + n mod 10)]
  end.
Definition numeral (n : nat) : str := digits_f 4 n.

Fixpoint shapes_upto (rank maxlen : nat) : list (list nat) :=
  match rank with
  | 0 => [[]]
  | S r => flat_map (fun d => map (cons d) (shapes_upto r maxlen)) (seq 1 maxlen)
  end.
Definition literal_shapes : list (list nat) :=
  shapes_upto 1 4 ++ shapes_upto 2 4 ++ shapes_upto 3 4 ++ shapes_upto 4 4.

Definition literal_ok (sh : list nat) : bool :=
  match parse_literal (dbg (Node [full_tree sh numeral 0])) with
  | Ok a => nat_list_eqb (shape a) sh && list_eqb (list_eqb Z.eqb) (elems a) (map numeral (seq 0 (prod sh)))
  | _ => false
  end.

Lemma literal_shapes_count : length literal_shapes = 340.
Proof. reflexivity. Qed.

Lemma all_literals_ok : forallb literal_ok literal_shapes = true.
Proof. vm_compute. reflexivity. Qed.

Lemma list_eqb_eq {A} (eqb : A -> A -> bool) : (forall x y, eqb x y = true -> x = y) ->
  forall l1 l2, list_eqb eqb l1 l2 = true -> l1 = l2.
Proof.
  intros H. induction l1 as [|x t IH]; intros [|y t2] E; cbn in E; try discriminate; auto.
  apply andb_true_iff in E as [E1 E2]. f_equal; auto.
Qed.

Theorem literal_shapes_le4 sh : In sh literal_shapes ->
  parse_literal (dbg (Node [full_tree sh numeral 0])) = Ok (mk (map numeral (seq 0 (prod sh))) sh).
Proof.
  intros H. pose proof all_literals_ok as A. rewrite forallb_forall in A. specialize (A sh H).
  unfold literal_ok in A. destruct (parse_literal _) as [[es s]| | |]; try discriminate. cbn [shape elems] in A.
  apply andb_true_iff in A as [A1 A2]. f_equal. f_equal.
  - apply (list_eqb_eq (list_eqb Z.eqb)); auto. apply list_eqb_eq. intros x y E. now apply Z.eqb_eq.
  - apply (list_eqb_eq Nat.eqb); auto. intros x y E. now apply Nat.eqb_eq.
Qed.

(* ---------- text form: the pretty form differs from the plain one only in line breaks and spaces ---------- *)
Definition no_layout (s : str) : str := filter (fun c => negb ((c =? space) || (c =? 10))%Z) s.

Lemma no_layout_app a b : no_layout (a ++ b) = no_layout a ++ no_layout b.
Proof. apply filter_app. Qed.

Lemma no_layout_join sep l : no_layout (join_with sep l) = join_with (no_layout sep) (map no_layout l).
Proof.
  induction l as [|x t IH]; [reflexivity|]. destruct t as [|y t']; [reflexivity|].
  change (join_with sep (x :: y :: t')) with (x ++ sep ++ join_with sep (y :: t')).
  rewrite !no_layout_app, IH. reflexivity.
Qed.

Lemma no_layout_repeat_space n : no_layout (repeat space n) = [].
Proof. induction n as [|n IH]; cbn; auto. Qed.

Theorem pretty_same_content sh es prefix :
  no_layout (build_string sh es true prefix) = no_layout (build_string sh es false prefix).
Proof.
  revert es prefix; induction sh as [|d rest IH]; intros es prefix; [reflexivity|].
  destruct rest as [|d2 rest2]; [reflexivity|].
  cbn [build_string]. rewrite !no_layout_app, !no_layout_join. f_equal. f_equal.
  f_equal.
  - rewrite no_layout_app, no_layout_repeat_space. reflexivity.
  - rewrite !map_map. apply map_ext. intros c. apply IH.
Qed.

(* the plain form nests brackets according to the shape: a 1-D array lists its elements, an n-D array lists the text
   forms of its leading slabs *)
Theorem display_nest_1d es d : build_string [d] es false 1 = [lbr] ++ join_with [comma; space] es ++ [rbr].
Proof. reflexivity. Qed.

Theorem display_nest_nd d d2 rest es alt prefix :
  build_string (d :: d2 :: rest) es alt prefix =
  [lbr] ++ join_with (if alt then [comma; 10%Z] ++ repeat space prefix else [comma; space])
                     (map (fun c => build_string (d2 :: rest) c alt (S prefix)) (chunk_list d (prod (d2 :: rest)) es)) ++ [rbr].
Proof. reflexivity. Qed.

From ArrRs Require Import Index Lists_proofs Axis Broadcast Lift Reshape_proofs Dyadic.
Local Open Scope Z_scope.

(* ---------- canonical form ---------- *)
Lemma ptz_spec p : let (r, k) := ptz p in 0 <= k /\ Zpos p = Zpos r * 2 ^ k /\ (exists q, r = xI q \/ r = xH).
Proof.
  induction p as [q IH | q IH |]; cbn [ptz].
  - split; [lia|]. split; [lia|]. exists q. now left.
  - destruct (ptz q) as [r k]. destruct IH as (K & E & O). split; [lia|]. split; [|exact O].
    rewrite Z.pow_add_r by lia. change (Zpos q~0) with (2 * Zpos q). rewrite E. lia.
  - split; [lia|]. split; [lia|]. exists xH. now right.
Qed.

(* the value is unchanged: m * 2^e = m' * 2^e' with e' >= e and m' odd; zero is (0, 0) *)
Theorem canon_value m e : let (m', e') := canon (m, e) in
  (m = 0 -> m' = 0 /\ e' = 0) /\ (m <> 0 -> e <= e' /\ m = m' * 2 ^ (e' - e) /\ Z.odd m' = true).
Proof.
  unfold canon. cbn [fst snd]. destruct m as [|p|p].
  - split; [auto | congruence].
  - pose proof (ptz_spec p) as H. destruct (ptz p) as [r k]. destruct H as (K & E & q & O).
    replace (e + k - e) with k by lia. split; [discriminate|]. intros _. repeat split; try lia.
    destruct O as [-> | ->]; reflexivity.
  - pose proof (ptz_spec p) as H. destruct (ptz p) as [r k]. destruct H as (K & E & q & O).
    replace (e + k - e) with k by lia. split; [discriminate|]. intros _. repeat split; try lia.
    all: try (destruct O as [-> | ->]; reflexivity).
    all: change (Zneg p) with (- Zpos p); change (Zneg r) with (- Zpos r); rewrite E; lia.
Qed.

Lemma canon_idem x : canon (canon x) = canon x.
Proof.
  destruct x as [m e]. destruct m as [|p|p]; [reflexivity| |].
  all: unfold canon; cbn [fst snd]; pose proof (ptz_spec p) as H; destruct (ptz p) as [r k];
    destruct H as (_ & _ & q & [-> | ->]); cbn [fst snd ptz]; f_equal; lia.
Qed.

(* ---------- frexp ---------- *)
(* the mantissa lies in [1/2, 1): with b = bit length of |m|, mant = m * 2^(-b) and 2^(b-1) <= |m| < 2^b *)
Theorem frexp_range m e : m <> 0 ->
  let b := Z.log2 (Z.abs m) + 1 in
  frexp_d (m, e) = ((m, - b), b + e) /\ 2 ^ (b - 1) <= Z.abs m < 2 ^ b.
Proof.
  intros H b. unfold frexp_d. destruct (Z.eqb_spec m 0); [contradiction|]. split.
  - unfold b. repeat (f_equal; try lia).
  - unfold b. replace (Z.log2 (Z.abs m) + 1 - 1) with (Z.log2 (Z.abs m)) by lia.
    pose proof (Z.log2_spec (Z.abs m) ltac:(lia)) as S. replace (Z.log2 (Z.abs m) + 1) with (Z.succ (Z.log2 (Z.abs m))) by lia. exact S.
Qed.

(* decomposition recombines to the original value — exactly, representation included *)
Theorem frexp_ldexp x : fst x <> 0 -> ldexp_d (fst (frexp_d x)) (snd (frexp_d x)) = x.
Proof.
  destruct x as [m e]. cbn [fst]. intros H. unfold frexp_d. destruct (Z.eqb_spec m 0); [contradiction|].
  cbn [fst snd ldexp_d]. destruct (Z.eqb_spec m 0); [contradiction|]. f_equal. lia.
Qed.

Theorem frexp_ldexp_zero e : ldexp_d (fst (frexp_d (0, e))) (snd (frexp_d (0, e))) = (0, 0).
Proof. reflexivity. Qed.

(* and through the canonical form the check compares: canon (ldexp (canon mant) k) = canon x *)
Lemma log2_mul_pow2 a k : 0 < a -> 0 <= k -> Z.log2 (a * 2 ^ k) = Z.log2 a + k.
Proof. intros Ha Hk. rewrite Z.log2_mul_pow2 by lia. lia. Qed.

Lemma canon_shift m e k : canon (m, e + k) = (let (m', e') := canon (m, e) in if m' =? 0 then (0, 0) else (m', e' + k)).
Proof.
  unfold canon. cbn [fst snd]. destruct m as [|p|p]; [reflexivity| |]; destruct (ptz p) as [r j]; cbn [Z.eqb]; f_equal; lia.
Qed.

Theorem frexp_ldexp_canon x : canon (ldexp_d (canon (fst (frexp_d x))) (snd (frexp_d x))) = canon x.
Proof.
  destruct x as [m e]. destruct (Z.eqb_spec m 0) as [->|H]; [reflexivity|].
  destruct (frexp_range m e H) as [E _]. rewrite E. cbn [fst snd].
  set (b := Z.log2 (Z.abs m) + 1).
  pose proof (canon_value m (- b)) as V. destruct (canon (m, - b)) as [m' e'] eqn:C.
  destruct V as (_ & V). destruct (V H) as (Le & Em & Od).
  assert (m' <> 0) as Hm' by (intros ->; lia).
  unfold ldexp_d. destruct (Z.eqb_spec m' 0); [contradiction|].
  pose proof (canon_idem (m, - b)) as I. rewrite C in I.
  rewrite (canon_shift m' e' (b + e)), I. destruct (Z.eqb_spec m' 0); [contradiction|].
  replace e with (- b + (b + e)) at 2 by lia. rewrite (canon_shift m (- b) (b + e)), C.
  destruct (Z.eqb_spec m' 0); [contradiction|]. reflexivity.
Qed.

(* the exponent depends only on the value, not on the representation *)
Theorem frexp_canon m e : m <> 0 -> snd (frexp_d (canon (m, e))) = snd (frexp_d (m, e)).
Proof.
  intros H. pose proof (canon_value m e) as V. destruct (canon (m, e)) as [m' e'] eqn:C.
  destruct V as (_ & V). destruct (V H) as (Le & Em & Od). assert (m' <> 0) as Hm' by (intros ->; lia).
  unfold frexp_d. destruct (Z.eqb_spec m' 0); [contradiction|]. destruct (Z.eqb_spec m 0); [contradiction|]. cbn [snd].
  rewrite Em. rewrite Z.abs_mul, (Z.abs_eq (2 ^ (e' - e))) by (apply Z.pow_nonneg; lia).
  rewrite log2_mul_pow2 by lia. lia.
Qed.

(* ---------- ldexp ---------- *)
Theorem ldexp_add x j k : ldexp_d (ldexp_d x j) k = ldexp_d x (j + k).
Proof.
  destruct x as [m e]. unfold ldexp_d. destruct (m =? 0) eqn:E; [now rewrite E | rewrite E; f_equal; lia].
Qed.

Theorem ldexp_zero x : ldexp_d x 0 = x.
Proof. destruct x as [m e]. unfold ldexp_d. destruct (m =? 0); [reflexivity|]. f_equal. lia. Qed.

(* ---------- arrays: same shape, position by position, flat order ---------- *)
Theorem frexp_arr_spec (a : arr dy) : wf a ->
  frexp_arr a = Ok (mk (map (fun x => fst (frexp_e x)) (elems a)) (shape a),
                    mk (map (fun x => snd (frexp_e x)) (elems a)) (shape a)).
Proof.
  intros W. unfold frexp_arr. rewrite !flat_arr_ok. cbn [bind].
  rewrite !reshape_iff by (unfold len; cbn [elems]; rewrite !map_length; symmetry; exact W).
  cbn [bind elems]. rewrite !map_map. reflexivity.
Qed.

(* finite values: the element functions are the exact ones; non-finite values pass through *)
Theorem frexp_e_finite x : is_special x = false -> frexp_e x = (canon (fst (frexp_d x)), snd (frexp_d x)).
Proof. intros H. unfold frexp_e. now rewrite H. Qed.

Theorem ldexp_e_finite x k : is_special x = false -> ldexp_e x k = canon (ldexp_d x k).
Proof. intros H. unfold ldexp_e. now rewrite H. Qed.

Theorem special_passes x k : is_special x = true -> frexp_e x = (x, 0) /\ ldexp_e x k = x.
Proof. intros H. unfold frexp_e, ldexp_e. now rewrite H. Qed.

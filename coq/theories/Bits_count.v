(* unpack_bits along an axis with a bit count (C19): every lane of the result is the first `stop` bits of the unpacked
   lane, where a non-negative count is the number of bits kept and a negative count trims that many bits off the end *)
From ArrRs Require Import Index Index_proofs Lists_proofs Axis Axis_proofs Reshape_proofs Broadcast_proofs Split Lift Reduce
  Along_proofs Bits Bits_proofs Along_uses.

Definition count_stop (c : Z) (L : nat) : nat :=
  if (0 <=? c)%Z then Z.to_nat c else L * 8 - Z.to_nat (- c).

Lemma unpack1_count o c (ln : arr Z) L : wf ln -> shape ln = [L] -> 0 < L ->
  (if (0 <=? c)%Z then (Z.to_nat c <= L * 8) else (- c <= Z.of_nat (L * 8))%Z) ->
  unpack1 o (Some c) ln = flat_arr (firstn (count_stop c L) (unpack_flat o (elems ln))).
Proof.
  intros W S HL Hc. assert (len ln = L) as Ll by (unfold len; rewrite W, S; cbn; lia).
  unfold unpack1, is_empty. rewrite Ll. destruct (Nat.eqb_spec L 0); [lia|]. unfold count_stop.
  assert (length (unpack_flat o (elems ln)) = L * 8) as Lu by (rewrite unpack_flat_length; unfold len in Ll; lia).
  destruct (Z.leb_spec 0 c) as [Nn|Ng].
  - unfold slice_flat. rewrite Lu. destruct (Nat.leb_spec (Z.to_nat c) (L * 8)); [reflexivity | lia].
  - destruct (Z.ltb_spec (Z.of_nat (L * 8)) (- c)); [lia|].
    unfold slice_flat. rewrite Lu. destruct (Nat.leb_spec (L * 8 - Z.to_nat (- c)) (L * 8)); [reflexivity | lia].
Qed.

Theorem unpack_axis_count_spec (a : arr Z) z c o :
  wf a -> pos_shape (shape a) -> (Z.of_nat (ndim a) < two64)%Z -> axis_ok (ndim a) z ->
  let ax := norm_nat (ndim a) z in
  let L := nth ax (shape a) 0 in
  (if (0 <=? c)%Z then (Z.to_nat c <= L * 8) else (- c <= Z.of_nat (L * 8))%Z) ->
  exists R, unpack_bits a (Some z) (Some c) (Ok o) = Ok R /\ wf R /\
    shape R = upd (shape a) ax (count_stop c L) /\
    forall p, in_range (shape R) p ->
      get 0%Z R p = nth (nth ax p 0) (unpack_flat o (elems (lane 0%Z a ax (remove_nth p ax)))) 0%Z.
Proof.
  intros W P B Hz ax L Hc. destruct (normalize_axis_ok _ _ B Hz) as [En Lax]. fold ax in En, Lax.
  assert (0 < prod (shape a)) as Pp by (apply pos_shape_prod, P).
  unfold unpack_bits, is_empty, len. rewrite W. destruct (Nat.eqb_spec (prod (shape a)) 0); [lia|]. cbn [bind].
  rewrite En. destruct (Z.ltb_spec (Z.of_nat ax) (Z.of_nat (ndim a))); [|lia]. cbn [guard bind]. rewrite Nat2Z.id.
  assert (0 < L) as HL by (apply pos_shape_nth; auto).
  destruct (along_flat_spec 0%Z 0%Z a ax (unpack1 o (Some c)) (fun l => firstn (count_stop c L) (unpack_flat o l)) (count_stop c L)
              W P Lax B) as (R & E & WR & SR & GR).
  - intros ln Wl Sl. apply unpack1_count; auto.
  - intros l Hl. rewrite firstn_length, unpack_flat_length, Hl. fold L. unfold count_stop.
    destruct (Z.leb_spec 0 c); lia.
  - exists R. split; [exact E|]. split; [exact WR|]. split; [exact SR|].
    intros p Hp. rewrite (GR p Hp). apply nth_firstn_lt.
    rewrite SR in Hp. apply (proj1 (in_range_nth _ _)) in Hp as [_ Hn]. rewrite upd_length in Hn.
    specialize (Hn ax Lax). rewrite nth_upd_eq in Hn by exact Lax. exact Hn.
Qed.

(* the refusal half of C11 / C14: inputs that do not conform are answered with an error value, never joined or
   multiplied (each statement follows the guard the code evaluates; stated separately because a guard that is
   missing in the code is missing in the faithful model too — findings F29 / F30 were of that kind) *)
From ArrRs Require Import Index Index_proofs Lists_proofs Axis Axis_proofs Reshape_proofs Broadcast_proofs Split Lift Reduce
  Along_proofs Join Join_proofs Split_proofs Append_proofs Stack_proofs Linalg Edit.

Section JoinRefuse.
Context {T : Type} (d : T).

Theorem append_refuse_rank (a v : arr T) ax : ax < ndim a -> ndim a <> ndim v -> append d a v (Some ax) = Err EParam.
Proof.
  intros H N. unfold append. destruct (Nat.ltb_spec ax (ndim a)); [|lia]. cbn [guard bind].
  destruct (Nat.eqb_spec (ndim a) (ndim v)); [contradiction | reflexivity].
Qed.

Theorem append_refuse_shape (a v : arr T) ax : ax < ndim a -> ndim a = ndim v ->
  remove_nth (shape a) ax <> remove_nth (shape v) ax -> append d a v (Some ax) = Err EParam.
Proof.
  intros H N S. unfold append. destruct (Nat.ltb_spec ax (ndim a)); [|lia]. cbn [guard bind].
  destruct (Nat.eqb_spec (ndim a) (ndim v)); [|contradiction]. cbn [negb].
  destruct (nat_list_eqb (remove_nth (shape a) ax) (remove_nth (shape v) ax)) eqn:E; [|reflexivity].
  apply nat_list_eqb_spec in E. contradiction.
Qed.

(* consecutive comparisons all succeed only if all the compared lists are equal *)
Lemma consecutive_equal (l : list (list nat)) :
  forallb (fun p => nat_list_eqb (fst p) (snd p)) (combine l (tl l)) = true -> forall x y, In x l -> In y l -> x = y.
Proof.
  induction l as [|h t IH]; intros H x y Hx Hy; [destruct Hx|].
  destruct t as [|h2 t2].
  - destruct Hx as [<-|[]]. destruct Hy as [<-|[]]. reflexivity.
  - cbn [tl combine forallb fst snd] in H. apply andb_true_iff in H as [E H]. apply nat_list_eqb_spec in E. subst h2.
    assert (forall z, In z (h :: h :: t2) -> z = h) as Allh.
    { intros z [<-|Hz]; [reflexivity|]. apply (IH H z h Hz). now left. }
    rewrite (Allh x Hx), (Allh y Hy). reflexivity.
Qed.

Theorem validate_refuse (arrs : list (arr T)) ax x y :
  Forall (fun a => ax < ndim a) arrs -> In x arrs -> In y arrs ->
  remove_nth (shape x) ax <> remove_nth (shape y) ax -> validate_stack_shapes arrs ax ax = Err EConcat.
Proof.
  intros F Hx Hy Ne. unfold validate_stack_shapes.
  assert (forallb (fun a : arr T => ax <? ndim a) arrs = true) as ->.
  { apply forallb_forall. intros a Ha. rewrite Forall_forall in F. apply Nat.ltb_lt. exact (F a Ha). }
  cbn [guard bind negb].
  destruct (forallb _ (combine _ _)) eqn:E; [|reflexivity].
  exfalso. apply Ne. apply (consecutive_equal _ E); apply in_map_iff; eauto.
Qed.

(* CONCATENATE: inputs that differ off the joined axis are refused *)
Theorem concatenate_refuse (first : arr T) rest ax x y :
  Forall (fun a => ax < ndim a) (first :: rest) -> In x (first :: rest) -> In y (first :: rest) ->
  remove_nth (shape x) ax <> remove_nth (shape y) ax -> concatenate d (first :: rest) (Some ax) = Err EConcat.
Proof. intros F Hx Hy Ne. unfold concatenate. now rewrite (validate_refuse _ ax x y F Hx Hy Ne). Qed.

(* STACK: inputs of different shapes are refused *)
Theorem stack_refuse (first : arr T) rest axis x y :
  In x (first :: rest) -> In y (first :: rest) -> shape x <> shape y -> stack d (first :: rest) axis = Err EParam.
Proof.
  intros Hx Hy Ne. unfold stack.
  destruct (all_same_shape (first :: rest)) eqn:E; [|reflexivity].
  exfalso. apply Ne. unfold all_same_shape in E.
  assert (forallb (fun p : list nat * list nat => nat_list_eqb (fst p) (snd p))
            (combine (map (@shape T) (first :: rest)) (tl (map (@shape T) (first :: rest)))) = true) as E'.
  { clear - E. revert E. generalize (first :: rest). intros l. induction l as [|h t IH]; [reflexivity|].
    destruct t as [|h2 t2]; [reflexivity|]. cbn [tl combine forallb fst snd map] in *. intros E.
    apply andb_true_iff in E as [E1 E2]. rewrite E1. cbn [andb]. apply IH. exact E2. }
  apply (consecutive_equal _ E'); apply in_map_iff; eauto.
Qed.

(* COLUMN_STACK: inputs with different numbers of rows are refused *)
Theorem column_stack_refuse (first : arr T) rest r tl_ x :
  shape first = r :: tl_ -> Forall (fun a => ndim a = 1 \/ ndim a = 2) (first :: rest) ->
  In x (first :: rest) -> nth 0 (shape x) 0 <> r -> column_stack (first :: rest) = Err EParam.
Proof.
  intros Sf F Hx Ne. unfold column_stack. rewrite Sf.
  assert (forallb (fun a : arr T => (ndim a =? 1) || (ndim a =? 2)) (first :: rest) = true) as ->.
  { apply forallb_forall. intros a Ha. rewrite Forall_forall in F. destruct (F a Ha) as [-> | ->]; reflexivity. }
  cbn [guard bind].
  destruct (forallb (fun a : arr T => nth 0 (shape a) 0 =? r) (first :: rest)) eqn:E; [|reflexivity].
  exfalso. rewrite forallb_forall in E. specialize (E x Hx). apply Nat.eqb_eq in E. contradiction.
Qed.

(* HSTACK / DSTACK / VSTACK of inputs that have the required rank and differ off the joined axis are refused *)
Theorem hstack_refuse (first : arr T) rest x y :
  Forall (fun a => 2 <= ndim a) (first :: rest) -> In x (first :: rest) -> In y (first :: rest) ->
  remove_nth (shape x) 1 <> remove_nth (shape y) 1 -> hstack_spec d (first :: rest) = Err EConcat.
Proof.
  intros F Hx Hy Ne. unfold hstack_spec, hstack_gen.
  assert (forallb (fun a : arr T => ndim a =? 1) (first :: rest) = false) as ->.
  { cbn [forallb]. apply Forall_cons_iff in F as [Nf _]. destruct (Nat.eqb_spec (ndim first) 1); [lia | reflexivity]. }
  rewrite (mapM_atleast_id 2); [| now left | exact F]. cbn [bind].
  rewrite (validate_refuse _ 1 x y); [reflexivity | | exact Hx | exact Hy | exact Ne].
  eapply Forall_impl; [|exact F]. cbn. lia.
Qed.

Theorem dstack_refuse (first : arr T) rest x y :
  Forall (fun a => 3 <= ndim a) (first :: rest) -> In x (first :: rest) -> In y (first :: rest) ->
  remove_nth (shape x) 2 <> remove_nth (shape y) 2 -> dstack d (first :: rest) = Err EConcat.
Proof.
  intros F Hx Hy Ne. unfold dstack.
  rewrite (mapM_atleast_id 3); [| now right | exact F]. cbn [bind].
  rewrite (validate_refuse _ 2 x y); [reflexivity | | exact Hx | exact Hy | exact Ne].
  eapply Forall_impl; [|exact F]. cbn. lia.
Qed.

Theorem vstack_refuse (first : arr T) rest x y :
  Forall (fun a => 1 <= ndim a) (first :: rest) -> In x (first :: rest) -> In y (first :: rest) ->
  remove_nth (shape x) 0 <> remove_nth (shape y) 0 -> vstack d (first :: rest) = Err EConcat.
Proof.
  intros F Hx Hy Ne. unfold vstack.
  rewrite (validate_refuse _ 0 x y); [reflexivity | | exact Hx | exact Hy | exact Ne].
  eapply Forall_impl; [|exact F]. cbn. lia.
Qed.

(* C13: positions beyond the end are refused by the flat insertion; a count vector that fits neither one count nor one
   count per entry is refused by repeat along an axis *)
Theorem insert_flat_refuse (a values : arr T) idx i : In i idx -> len a < i -> insert_flat d a idx values = Err EOob.
Proof.
  intros Hi L. unfold insert_flat.
  assert (existsb (fun i0 => len a <? i0) idx = true) as -> by (apply existsb_exists; exists i; split; [exact Hi | now apply Nat.ltb_lt]).
  reflexivity.
Qed.

End JoinRefuse.

Section ProductRefuse.
Context {T : Type} (zero : T) (add mul : T -> T -> T).

Theorem vdot_refuse (a b : arr T) : len a <> len b -> vdot zero add mul a b = Err EEqual.
Proof. intros H. unfold vdot. destruct (Nat.eqb_spec (len a) (len b)); [contradiction | reflexivity]. Qed.

Theorem inner_vectors_refuse (a b : arr T) n m : shape a = [n] -> shape b = [m] -> n <> m ->
  inner zero add mul a b = Err EParam.
Proof.
  intros Sa Sb Ne. unfold inner, ndim. rewrite Sa, Sb. cbn [length Nat.eqb andb]. unfold shapes_align. cbn [nth_error].
  destruct (Nat.eqb_spec n m); [contradiction | reflexivity].
Qed.

Theorem matvec_refuse strict (m v : arr T) r c n : shape m = [r; c] -> shape v = [n] -> c <> n ->
  matmul zero add mul strict m v = Err EParam.
Proof.
  intros Sm Sv Ne. unfold matmul, ndim. rewrite Sm, Sv. cbn [length Nat.eqb andb Nat.ltb Nat.leb Nat.sub].
  unfold shapes_align. cbn [nth_error]. destruct (Nat.eqb_spec c n); [contradiction | reflexivity].
Qed.

Theorem vecmat_refuse strict (v m : arr T) n r c : shape v = [n] -> shape m = [r; c] -> n <> r ->
  matmul zero add mul strict v m = Err EParam.
Proof.
  intros Sv Sm Ne. unfold matmul, ndim. rewrite Sm, Sv. cbn [length Nat.eqb andb Nat.ltb Nat.leb Nat.sub].
  unfold shapes_align. cbn [nth_error]. destruct (Nat.eqb_spec n r); [contradiction | reflexivity].
Qed.

End ProductRefuse.

From ArrRs Require Import Index Index_proofs Lists_proofs Axis Reshape_proofs Bits.

(* ---------- one byte (finite domain: all 256 values, decided by computation and lifted) ---------- *)
Definition byte_ok (o : bit_order) (n : nat) : bool :=
  let b := Z.of_nat n in
  (pack8 o (unpack8 o b) =? b)%Z && (length (unpack8 o b) =? 8) &&
  forallb (fun k => (nth k (unpack8 Big b) 0 =? (b / 2 ^ Z.of_nat (7 - k)) mod 2)%Z) (seq 0 8) &&
  list_eqb Z.eqb (unpack8 Little b) (rev (unpack8 Big b)).

Lemma all_bytes_ok : forallb (fun n => byte_ok Big n && byte_ok Little n) (seq 0 256) = true.
Proof. vm_compute. reflexivity. Qed.

Lemma byte_ok_all o b : (0 <= b < 256)%Z -> byte_ok o (Z.to_nat b) = true.
Proof.
  intros H. pose proof all_bytes_ok as A. rewrite forallb_forall in A.
  specialize (A (Z.to_nat b)). rewrite andb_true_iff in A. destruct o; apply A; apply in_seq; lia.
Qed.

(* every byte: eight bits, most significant first for Big (reversed for Little), and packing them gives the byte *)
Theorem byte_roundtrip o b : (0 <= b < 256)%Z ->
  pack8 o (unpack8 o b) = b /\ length (unpack8 o b) = 8 /\
  (forall k, k < 8 -> nth k (unpack8 Big b) 0%Z = ((b / 2 ^ Z.of_nat (7 - k)) mod 2)%Z) /\
  unpack8 Little b = rev (unpack8 Big b).
Proof.
  intros H. pose proof (byte_ok_all o b H) as K. unfold byte_ok in K. rewrite Z2Nat.id in K by lia.
  rewrite !andb_true_iff in K. destruct K as [[[K1 K2] K3] K4].
  apply Z.eqb_eq in K1. apply Nat.eqb_eq in K2. split; [exact K1|]. split; [exact K2|]. split.
  - intros k Hk. rewrite forallb_forall in K3. specialize (K3 k). apply Z.eqb_eq, K3, in_seq. lia.
  - revert K4. generalize (unpack8 Little b) (rev (unpack8 Big b)). intros l1.
    induction l1 as [|x t IH]; intros [|y t2]; cbn; try discriminate; auto.
    rewrite andb_true_iff, Z.eqb_eq. intros [-> E]. f_equal. now apply IH.
Qed.

(* ---------- whole arrays, flat form ---------- *)
Lemma unpack8_length o b : length (unpack8 o b) = 8.
Proof. unfold unpack8. destruct o; now rewrite ?rev_length, map_length, rev_length, seq_length. Qed.

Lemma unpack_flat_length o bs : length (unpack_flat o bs) = length bs * 8.
Proof. unfold unpack_flat. induction bs as [|b t IH]; cbn; auto. rewrite app_length, unpack8_length, IH. lia. Qed.

Lemma unpack_flat_chunk o bs p : p < length bs ->
  firstn 8 (skipn (p * 8) (unpack_flat o bs)) = unpack8 o (nth p bs 0%Z).
Proof.
  revert p; induction bs as [|b t IH]; intros p H; cbn in H; [lia|]. unfold unpack_flat. cbn [flat_map].
  destruct p as [|p].
  - cbn [Nat.mul skipn nth]. rewrite firstn_app, unpack8_length. replace (8 - 8) with 0 by lia.
    rewrite firstn_O, app_nil_r. apply firstn_all2. rewrite unpack8_length. lia.
  - replace (S p * 8) with (p * 8 + length (unpack8 o b)) by (rewrite unpack8_length; lia).
    rewrite <- skipn_skipn.
    replace (skipn (length (unpack8 o b)) (unpack8 o b ++ flat_map (unpack8 o) t)) with (flat_map (unpack8 o) t)
      by (rewrite skipn_app, skipn_all, Nat.sub_diag; reflexivity).
    cbn [nth]. apply IH. lia.
Qed.

(* packing what was unpacked, in the same order, returns the original bytes *)
Theorem pack_unpack_flat o bs : Forall (fun b => (0 <= b < 256)%Z) bs -> pack_flat o (unpack_flat o bs) = bs.
Proof.
  intros F. unfold pack_flat. rewrite unpack_flat_length, Nat.mod_mul by lia. cbn [Nat.eqb].
  rewrite unpack_flat_length, Nat.div_mul by lia.
  transitivity (map (fun i => nth i bs 0%Z) (seq 0 (length bs))); [|apply map_nth_seq].
  apply map_ext_in. intros p Hp. apply in_seq in Hp.
  rewrite unpack_flat_chunk by lia. apply byte_roundtrip. rewrite Forall_forall in F. apply F, nth_In. lia.
Qed.

(* a final short group is padded with zero bits *)
Theorem pack_pad o bits :
  pack_flat o bits = pack_flat o (bits ++ repeat 0%Z ((8 - length bits mod 8) mod 8)).
Proof.
  unfold pack_flat. remember (length bits mod 8) as m eqn:Em. destruct (Nat.eqb_spec m 0) as [E|N].
  - subst m. rewrite E. change ((8 - 0) mod 8) with 0. cbn [repeat]. rewrite app_nil_r, E. reflexivity.
  - pose proof (Nat.mod_upper_bound (length bits) 8 ltac:(lia)) as U. rewrite <- Em in U.
    rewrite (Nat.mod_small (8 - m)) by lia.
    assert (length (bits ++ repeat 0%Z (8 - m)) mod 8 = 0) as Z0.
    { rewrite app_length, repeat_length. pose proof (Nat.div_mod (length bits) 8 ltac:(lia)) as D. rewrite <- Em in D.
      replace (length bits + (8 - m)) with ((length bits / 8 + 1) * 8) by lia. apply Nat.mod_mul. lia. }
    rewrite Z0. reflexivity.
Qed.

(* unpacking replaces every byte by eight bits: the flat length is multiplied by eight *)
Theorem unpack1_ok o (a : arr Z) : len a <> 0 ->
  unpack1 o None a = Ok (mk (unpack_flat o (elems a)) [len a * 8]).
Proof.
  intros N. unfold unpack1, is_empty. destruct (Nat.eqb_spec (len a) 0); [contradiction|].
  unfold slice_flat. rewrite unpack_flat_length. unfold len. rewrite Nat.leb_refl.
  rewrite firstn_all2 by (rewrite unpack_flat_length; lia). rewrite flat_arr_ok, unpack_flat_length. reflexivity.
Qed.

Theorem pack_unpack_1d o (a : arr Z) : wf a -> ndim a = 1 -> len a <> 0 ->
  Forall (fun b => (0 <= b < 256)%Z) (elems a) ->
  (let* u := unpack1 o None a in pack1 o u) = Ok a.
Proof.
  intros W R N F. rewrite unpack1_ok by auto. cbn [bind]. unfold pack1, is_empty, len. cbn [elems].
  rewrite unpack_flat_length. destruct (Nat.eqb_spec (length (elems a) * 8) 0); [unfold len in N; lia|].
  rewrite pack_unpack_flat by auto. rewrite flat_arr_ok. f_equal. destruct a as [es sh]. cbn in *.
  unfold wf, ndim in *. cbn in *. destruct sh as [|d [|? ?]]; try discriminate. cbn in W. f_equal. f_equal. lia.
Qed.

(* ---------- binary representation ---------- *)
Lemma parse_binary_app l b : parse_binary (l ++ [b]) = (2 * parse_binary l + b)%Z.
Proof. unfold parse_binary. now rewrite fold_left_app. Qed.

Lemma bits_msb_parse fuel n : (0 <= n < 2 ^ Z.of_nat fuel)%Z -> 0 < fuel -> parse_binary (bits_msb fuel n) = n.
Proof.
  revert n; induction fuel as [|f IH]; intros n H P; [lia|]. cbn [bits_msb].
  destruct (Z.ltb_spec n 2) as [L|L]; [unfold parse_binary; cbn; lia|].
  rewrite parse_binary_app. rewrite Nat2Z.inj_succ, Z.pow_succ_r in H by lia.
  destruct f as [|f]; [cbn in H; lia|].
  rewrite IH; [|split; [apply Z.div_pos; lia | apply Z.div_lt_upper_bound; lia] | lia].
  pose proof (Z.div_mod n 2 ltac:(lia)). lia.
Qed.

(* the textual binary representation parses back to the integer (two's complement of the width for negatives) *)
Theorem binary_repr_roundtrip width n : 0 < width ->
  ((0 <= n < 2 ^ Z.of_nat width)%Z -> parse_binary (binary_repr width n) = n) /\
  ((- 2 ^ Z.of_nat (width - 1) <= n < 0)%Z -> parse_binary (binary_repr width n) = (n + 2 ^ Z.of_nat width)%Z).
Proof.
  intros W. unfold binary_repr. split; intros H.
  - destruct (Z.ltb_spec n 0); [lia|]. apply bits_msb_parse; [|lia].
    rewrite Nat2Z.inj_succ, Z.pow_succ_r by lia. lia.
  - destruct (Z.ltb_spec n 0); [|lia]. apply bits_msb_parse; [|lia].
    assert (2 ^ Z.of_nat width = 2 * 2 ^ Z.of_nat (width - 1))%Z as E.
    { replace (Z.of_nat width) with (Z.succ (Z.of_nat (width - 1))) by lia. apply Z.pow_succ_r. lia. }
    rewrite Nat2Z.inj_succ, Z.pow_succ_r by lia. lia.
Qed.

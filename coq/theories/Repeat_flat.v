(* repeat with no axis (C13): every element of the flattened array is emitted `count` consecutive times *)
From ArrRs Require Import Index Index_proofs Lists_proofs Axis Axis_proofs Reshape_proofs Broadcast Broadcast_proofs Edit.

Lemma combine_repeat_flat_map {A} (l : list A) k :
  flat_map (fun p : A * nat => repeat (fst p) (snd p)) (combine l (repeat k (length l))) = flat_map (fun x => repeat x k) l.
Proof. induction l as [|x t IH]; cbn [length repeat combine flat_map fst snd]; [reflexivity | now rewrite IH]. Qed.

Lemma flat_map_repeat_length {A} (l : list A) k : length (flat_map (fun x => repeat x k) l) = length l * k.
Proof. induction l as [|x t IH]; cbn [flat_map length]; [reflexivity|]. rewrite app_length, repeat_length, IH. lia. Qed.

(* a one-element array stretched to any non-empty shape with positive extents: that element everywhere *)
Lemma broadcast_to_single (k : nat) sh : sh <> [] -> pos_shape sh ->
  exists r, broadcast_to 0 (mk [k] [1]) sh = Ok r /\ shape r = sh /\ elems r = repeat k (prod sh).
Proof.
  intros NE P.
  assert (is_broadcastable [1] sh = Ok tt) as IB.
  { unfold is_broadcastable. cbn [rev app]. destruct (rev sh) as [|t t'] eqn:Er; [reflexivity|].
    cbn [combine existsb dims_clash]. assert (In t sh) as Ht by (apply in_rev; rewrite Er; now left).
    unfold pos_shape in P. rewrite Forall_forall in P. specialize (P t Ht).
    destruct (Nat.eqb_spec t 0); [lia|]. cbn. rewrite Bool.andb_false_r. reflexivity. }
  assert (stretchable_rev [1] (rev sh) = true) as ST.
  { destruct (rev sh) as [|t t'] eqn:Er; [|reflexivity]. apply (f_equal (@rev nat)) in Er. rewrite rev_involutive in Er. contradiction. }
  destruct (broadcast_to_stretch 0 (mk [k] [1]) sh ltac:(reflexivity) IB ST) as (r & E & S & W & G).
  exists r. split; [exact E|]. split; [exact S|].
  apply (nth_ext _ _ 0 0).
  - rewrite repeat_length. unfold wf in W. rewrite S in W. exact W.
  - intros i Hi. unfold wf in W. rewrite W, S in Hi. rewrite nth_repeat_lt by exact Hi.
    destruct (G (unravel sh i) (unravel_in_range sh i Hi)) as [R Gi].
    unfold get in Gi. rewrite S, flat_unravel in Gi by exact Hi. rewrite Gi. cbn [shape elems] in *.
    destruct (bsrc [1] (unravel sh i)) as [|x [|? ?]]; cbn [in_range] in R; try tauto.
    destruct R as [Hx _]. assert (x = 0) as -> by lia. reflexivity.
Qed.

Section RepeatFlat.
Context {T : Type} (dflt : T).

Theorem repeat_flat_scalar (a : arr T) k : wf a -> shape a <> [] -> pos_shape (shape a) ->
  repeat_arr dflt a [k] None =
    Ok (mk (flat_map (fun x => repeat x k) (elems a)) [length (elems a) * k]).
Proof.
  intros W NE P. unfold repeat_arr. rewrite flat_arr_ok. cbn [bind length].
  destruct (broadcast_to_single k (shape a) NE P) as (r & E & S & El). rewrite E. cbn [bind]. rewrite El.
  unfold wf in W. rewrite <- W, combine_repeat_flat_map, flat_arr_ok, flat_map_repeat_length. reflexivity.
Qed.

(* one count per element of a non-empty rank-1 array *)
Theorem repeat_flat_counts (a : arr T) reps : wf a -> reps <> [] -> shape a = [length reps] ->
  repeat_arr dflt a reps None =
    Ok (mk (flat_map (fun p => repeat (fst p) (snd p)) (combine (elems a) reps))
           [length (flat_map (fun p => repeat (fst p) (snd p)) (combine (elems a) reps))]).
Proof.
  intros W NE S. unfold repeat_arr. rewrite flat_arr_ok. cbn [bind].
  assert (broadcast_to 0 (mk reps [length reps]) (shape a) = Ok (mk reps [length reps])) as ->.
  { unfold broadcast_to. cbn [shape]. rewrite S. unfold is_broadcastable. cbn [rev app combine existsb dims_clash].
    rewrite Nat.eqb_refl. destruct (Nat.eqb_spec (length reps) 0) as [Z0|_]; [destruct reps; [contradiction | discriminate]|].
    cbn [negb andb orb guard bind]. rewrite (proj2 (nat_list_eqb_spec _ _) eq_refl). reflexivity. }
  cbn [bind elems]. apply flat_arr_ok.
Qed.

End RepeatFlat.

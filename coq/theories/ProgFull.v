(* ProgFull.v — finite programs over ALL modelled array -> array / array -> arrays operations (C01):
   the calls of Prog.v plus broadcasting, reordering, editing, joining, splitting, sorting, lane operations,
   elementwise lifting and the structured constructors.  Every call takes its array operands from the environment
   of earlier results (by index) and appends every array it returns. *)
From ArrRs Require Import Index Axis Prog Broadcast Lift Split Reduce Sort Join Reorder Edit Create Linalg.

Section ProgFull.
Context {T : Type} (dflt zero one : T) (is_zero : T -> bool) (ltb eqb : T -> T -> bool).

Inductive fcall :=
| FBase (c : @opcall T)
| FBroadcastTo (i : nat) (sh : list nat)
| FFlip (i : nat) (axes : option (list Z)) | FFlipud (i : nat) | FFliplr (i : nat)
| FRoll (i : nat) (shifts : list Z) (axes : option (list Z)) | FRot90 (i k : nat) (axes : list Z)
| FDelete (i : nat) (idx : list nat) (axis : option nat) | FInsert (i : nat) (idx : list nat) (j : nat)
| FRepeat (i : nat) (reps : list nat) (axis : option nat) | FTrim (i : nat)
| FAppend (i j : nat) (axis : option nat) | FConcat (is : list nat) (axis : option nat)
| FStack (is : list nat) (axis : option nat) | FVstack (is : list nat) | FHstack (strict : bool) (is : list nat)
| FDstack (is : list nat) | FColumnStack (is : list nat)
| FArraySplit (i parts : nat) (axis : option nat) | FSplit (i parts : nat) (axis : option nat) | FSplitAxis (i ax : nat)
| FHsplit (i p : nat) | FVsplit (i p : nat) | FDsplit (i p : nat)
| FSort (i : nat) (axis : option Z) (kind : res sort_kind) | FUnique (i : nat) (axis : option Z)
| FAlong (i ax : nat) (f : arr T -> res (arr T))
| FReduce (g1 : list T -> res T) (i : nat) (axis : option Z) | FScan (g : list T -> list T) (i : nat) (axis : option Z)
| FMap (f : T -> T) (i : nat) | FLift2 (f : T -> T -> T) (i j : nat) | FZipop (f : T -> T -> T) (i j : nat)
| FTril (i : nat) (k : Z) | FTriu (i : nat) (k : Z) | FDiag (i : nat) (k : Z) | FDiagflat (i : nat) (k : Z)
| FEye (n m k : nat) | FTri (n m : nat) (k : Z) | FIdentity (n : nat) | FFull (sh : list nat) (v : T)
(* products, for any addition and multiplication on the elements *)
| FVdot (add mul : T -> T -> T) (i j : nat) | FMatmul (add mul : T -> T -> T) (strict : bool) (i j : nat)
| FOuter (mul : T -> T -> T) (i j : nat) | FInner (add mul : T -> T -> T) (i j : nat)
| FDot (add mul : T -> T -> T) (strict : bool) (i j : nat)
(* broadcasting of a pair, kept as its two stretched operands *)
| FBroadcastArrays (is : list nat).

Definition operands (env : list (arr T)) (is : list nat) : res (list (arr T)) := mapM (operand env) is.

Definition run_fcall (env : list (arr T)) (c : fcall) : res (list (arr T)) :=
  let ret1 (r : res (arr T)) := let* a := r in Ok [a] in
  let on i (f : arr T -> res (arr T)) := ret1 (let* a := operand env i in f a) in
  let on2 i j (f : arr T -> arr T -> res (arr T)) := ret1 (let* a := operand env i in let* b := operand env j in f a b) in
  let onl is (f : list (arr T) -> res (arr T)) := ret1 (let* l := operands env is in f l) in
  let many i (f : arr T -> res (list (arr T))) := let* a := operand env i in f a in
  match c with
  | FBase c => run_call dflt env c
  | FBroadcastTo i sh => on i (fun a => broadcast_to dflt a sh)
  | FFlip i axes => on i (fun a => flip dflt a axes)
  | FFlipud i => on i (flipud dflt) | FFliplr i => on i (fliplr dflt)
  | FRoll i s axes => on i (fun a => roll dflt a s axes)
  | FRot90 i k axes => on i (fun a => rot90 dflt a k axes)
  | FDelete i idx axis => on i (fun a => delete dflt a idx axis)
  | FInsert i idx j => on2 i j (fun a v => insert_flat dflt a idx v)
  | FRepeat i reps axis => on i (fun a => repeat_arr dflt a reps axis)
  | FTrim i => on i (trim_zeros is_zero)
  | FAppend i j axis => on2 i j (fun a v => append dflt a v axis)
  | FConcat is axis => onl is (fun l => concatenate dflt l axis)
  | FStack is axis => onl is (fun l => stack dflt l axis)
  | FVstack is => onl is (vstack dflt)
  | FHstack strict is => onl is (hstack_gen dflt strict)
  | FDstack is => onl is (dstack dflt)
  | FColumnStack is => onl is (@column_stack T)
  | FArraySplit i parts axis => many i (fun a => array_split dflt a parts axis)
  | FSplit i parts axis => many i (fun a => split_even dflt a parts axis)
  | FSplitAxis i ax => many i (fun a => split_axis dflt a ax)
  | FHsplit i p => many i (fun a => hsplit dflt a p)
  | FVsplit i p => many i (fun a => vsplit dflt a p)
  | FDsplit i p => many i (fun a => dsplit dflt a p)
  | FSort i axis kind => on i (fun a => sort_arr ltb dflt a axis kind)
  | FUnique i axis => on i (fun a => unique_arr ltb eqb dflt a axis)
  | FAlong i ax f => on i (fun a => apply_along_axis dflt dflt a ax f)
  | FReduce g1 i axis => on i (fun a => reduce dflt g1 a axis)
  | FScan g i axis => on i (fun a => scan dflt g a axis)
  | FMap f i => on i (map_arr f)
  | FLift2 f i j => on2 i j (lift2 dflt f)
  | FZipop f i j => on2 i j (zipop dflt f)
  | FTril i k => on i (fun a => tril zero a k) | FTriu i k => on i (fun a => triu zero a k)
  | FDiag i k => on i (fun a => diag zero a k) | FDiagflat i k => on i (fun a => diagflat zero a k)
  | FEye n m k => ret1 (eye zero one n m k) | FTri n m k => ret1 (tri zero one n m k)
  | FIdentity n => ret1 (identity zero one n) | FFull sh v => ret1 (full sh v)
  | FVdot add mul i j => on2 i j (vdot zero add mul)
  | FMatmul add mul strict i j => on2 i j (matmul zero add mul strict)
  | FOuter mul i j => on2 i j (outer mul)
  | FInner add mul i j => on2 i j (inner zero add mul)
  | FDot add mul strict i j => on2 i j (dot zero add mul strict)
  | FBroadcastArrays is => let* l := operands env is in broadcast_arrays dflt l
  end.

Definition fstep (env : list (arr T)) (c : fcall) : list (arr T) :=
  match run_fcall env c with Ok rs => env ++ rs | _ => env end.

Definition frun (p : list fcall) (env : list (arr T)) : list (arr T) := fold_left fstep p env.

End ProgFull.

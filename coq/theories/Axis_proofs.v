From ArrRs Require Import Index Index_proofs Lists_proofs Axis.
From Coq Require Import Permutation.

(* ---------- coordinates by component ---------- *)

Lemma in_range_nth sh c :
  in_range sh c <-> length c = length sh /\ forall k, k < length sh -> nth k c 0 < nth k sh 0.
Proof.
  revert c; induction sh as [|d sh IH]; intros [|i c]; cbn [in_range length].
  - split; [intros _; split; [auto | intros k H; lia] | auto].
  - split; [tauto | intros [H _]; discriminate].
  - split; [tauto | intros [H _]; discriminate].
  - rewrite IH. split.
    + intros [Hi [L H]]. split; [lia|]. intros [|k] Hk; cbn; [auto | apply H; lia].
    + intros [L H]. split; [apply (H 0); lia|]. split; [lia|]. intros k Hk. apply (H (S k)). lia.
Qed.

Lemma array_ext {T} (d : T) (a b : arr T) :
  wf a -> wf b -> shape a = shape b ->
  (forall c, in_range (shape a) c -> get d a c = get d b c) -> a = b.
Proof.
  destruct a as [ea sa], b as [eb sb]. unfold wf, get. cbn. intros Wa Wb <- H. f_equal.
  apply (nth_ext _ _ d d); [lia|]. intros i Hi. rewrite Wa in Hi.
  specialize (H (unravel sa i) (unravel_in_range _ _ Hi)). now rewrite flat_unravel in H.
Qed.

(* ---------- permutations of axes ---------- *)

Lemma pick_length p c : length (pick p c) = length p.
Proof. apply map_length. Qed.

Lemma nth_pick p c k : k < length p -> nth k (pick p c) 0 = nth (nth k p 0) c 0.
Proof.
  intros H. unfold pick. now rewrite (nth_map_lt _ _ _ 0).
Qed.

Lemma is_perm_surj p n j : is_perm p n -> j < n -> In j p.
Proof.
  intros (ND & L & F) H.
  assert (incl (seq 0 n) p) as I.
  { apply NoDup_length_incl; auto.
    - rewrite seq_length. lia.
    - intros x Hx. apply in_seq. rewrite Forall_forall in F. specialize (F _ Hx). lia. }
  apply I, in_seq. lia.
Qed.

Lemma is_perm_Permutation p n : is_perm p n -> Permutation p (seq 0 n).
Proof.
  intros (ND & L & F). apply NoDup_Permutation_bis; auto.
  - rewrite seq_length. lia.
  - intros x Hx. apply in_seq. rewrite Forall_forall in F. specialize (F _ Hx). lia.
Qed.

Lemma pick_Permutation p sh : is_perm p (length sh) -> Permutation (pick p sh) sh.
Proof.
  intros H. unfold pick.
  pose proof (Permutation_map (fun ax => nth ax sh 0) (is_perm_Permutation _ _ H)) as Q.
  rewrite map_nth_seq in Q. exact Q.
Qed.

Lemma prod_pick p sh : is_perm p (length sh) -> prod (pick p sh) = prod sh.
Proof. intros H. apply prod_perm, pick_Permutation, H. Qed.

Lemma in_range_pick p sh c :
  is_perm p (length sh) -> in_range sh c -> in_range (pick p sh) (pick p c).
Proof.
  intros (ND & L & F) H. apply in_range_nth in H as [Lc H]. apply in_range_nth.
  rewrite !pick_length. split; [auto|]. intros k Hk. rewrite !nth_pick by auto.
  apply H. rewrite Forall_forall in F. apply F, nth_In, Hk.
Qed.

Lemma pick_inj p n c c' :
  is_perm p n -> length c = n -> length c' = n -> pick p c = pick p c' -> c = c'.
Proof.
  intros P L L' E. apply (nth_ext _ _ 0 0); [lia|]. intros j Hj.
  assert (In j p) as I by (apply (is_perm_surj p n); auto; lia).
  destruct (In_nth _ _ 0 I) as (k & Hk & <-).
  rewrite <- !nth_pick by auto. now rewrite E.
Qed.

Lemma nth_index_of j p : In j p -> nth (index_of j p) p 0 = j.
Proof.
  induction p as [|y t IH]; intros H; [destruct H|]. cbn [index_of].
  destruct (Nat.eqb_spec j y) as [->|N]; cbn; auto. apply IH. destruct H; [congruence | auto].
Qed.

Lemma index_of_lt j p : In j p -> index_of j p < length p.
Proof.
  induction p as [|y t IH]; intros H; [destruct H|]. cbn [index_of length].
  destruct (Nat.eqb_spec j y) as [->|N]; [lia|]. destruct H; [congruence|]. specialize (IH H). lia.
Qed.

Lemma index_of_nth k p : NoDup p -> k < length p -> index_of (nth k p 0) p = k.
Proof.
  revert k; induction p as [|y t IH]; intros k ND H; cbn in H; [lia|].
  inversion ND as [|? ? Hy ND']; subst. destruct k as [|k]; cbn [nth index_of].
  - now rewrite Nat.eqb_refl.
  - destruct (Nat.eqb_spec (nth k t 0) y) as [E|N].
    + exfalso. apply Hy. rewrite <- E. apply nth_In. lia.
    + f_equal. apply IH; auto. lia.
Qed.

Lemma inv_perm_length p : length (inv_perm p) = length p.
Proof. unfold inv_perm. now rewrite map_length, seq_length. Qed.

Lemma nth_inv_perm p j : j < length p -> nth j (inv_perm p) 0 = index_of j p.
Proof.
  intros H. unfold inv_perm.
  rewrite (nth_map_lt _ _ _ 0) by now rewrite seq_length.
  now rewrite seq_nth.
Qed.

Lemma inv_perm_is_perm p n : is_perm p n -> is_perm (inv_perm p) n.
Proof.
  intros P. pose proof P as (ND & L & F). split; [|split].
  - unfold inv_perm. apply NoDup_map_in; [|apply seq_NoDup].
    intros x y Hx Hy E. apply in_seq in Hx, Hy.
    rewrite <- (nth_index_of x p), <- (nth_index_of y p), E; auto;
      apply (is_perm_surj p n); auto; lia.
  - now rewrite inv_perm_length.
  - apply Forall_forall. intros x Hx. unfold inv_perm in Hx. apply in_map_iff in Hx as (j & <- & Hj).
    apply in_seq in Hj. rewrite <- L. apply index_of_lt. apply (is_perm_surj p n); auto; lia.
Qed.

Lemma pick_pick_inv p n c : is_perm p n -> length c = n -> pick p (pick (inv_perm p) c) = c.
Proof.
  intros P Lc. pose proof P as (ND & L & F). apply (nth_ext _ _ 0 0).
  - rewrite pick_length. lia.
  - intros k Hk. rewrite pick_length in Hk. rewrite nth_pick by auto.
    assert (nth k p 0 < length p) as Hb.
    { rewrite Forall_forall in F. rewrite L. apply F, nth_In, Hk. }
    rewrite nth_pick by now rewrite inv_perm_length.
    rewrite nth_inv_perm by auto. now rewrite index_of_nth.
Qed.

Lemma pick_inv_pick p n c : is_perm p n -> length c = n -> pick (inv_perm p) (pick p c) = c.
Proof.
  intros P Lc. pose proof P as (ND & L & F). apply (nth_ext _ _ 0 0).
  - rewrite pick_length, inv_perm_length. lia.
  - intros j Hj. rewrite pick_length, inv_perm_length in Hj.
    rewrite nth_pick by now rewrite inv_perm_length. rewrite nth_inv_perm by auto.
    assert (In j p) as I by (apply (is_perm_surj p n); auto; lia).
    rewrite nth_pick by now apply index_of_lt. now rewrite nth_index_of.
Qed.

Lemma in_range_pick_inv p sh c' :
  is_perm p (length sh) -> in_range (pick p sh) c' -> in_range sh (pick (inv_perm p) c').
Proof.
  intros P H. pose proof (inv_perm_is_perm _ _ P) as Pi.
  pose proof (in_range_pick (inv_perm p) (pick p sh) c') as Q.
  rewrite pick_length in Q. destruct P as (ND & L & F). rewrite L in Q.
  specialize (Q Pi H). rewrite (pick_inv_pick p (length sh)) in Q; auto. repeat split; auto.
Qed.

Lemma is_permb_spec p n : is_permb p n = true <-> is_perm p n.
Proof.
  unfold is_permb, is_perm. rewrite !andb_true_iff, Nat.eqb_eq, forallb_forall, Forall_forall.
  assert (nodupb p = true <-> NoDup p) as ->.
  { induction p as [|x t IH]; cbn [nodupb].
    - split; [constructor | auto].
    - rewrite andb_true_iff, negb_true_iff, IH. split.
      + intros [E H]. constructor; auto. intros I.
        assert (existsb (Nat.eqb x) t = true) as X by (apply existsb_exists; exists x; split; [auto | apply Nat.eqb_refl]).
        congruence.
      + intros H. inversion H as [|? ? Hx H']; subst. split; auto.
        destruct (existsb (Nat.eqb x) t) eqn:E; auto. apply existsb_exists in E as (y & Hy & E).
        apply Nat.eqb_eq in E. subst. contradiction. }
  split.
  - intros [[A B] C]. repeat split; auto. intros x Hx. specialize (C x Hx). now apply Nat.ltb_lt.
  - intros [A [B C]]. repeat split; auto. intros x Hx. specialize (C x Hx). now apply Nat.ltb_lt.
Qed.

(* ---------- transpose ---------- *)

Section TransposeProofs.
Context {T : Type} (d : T).

Lemma transpose_scatter_length es sh p : length (transpose_scatter d es sh p) = length es.
Proof. unfold transpose_scatter. now rewrite scatter_length, repeat_length. Qed.

Lemma transpose_scatter_spec es sh p c :
  length es = prod sh -> is_perm p (length sh) -> in_range sh c ->
  nth (flat (pick p sh) (pick p c)) (transpose_scatter d es sh p) d = nth (flat sh c) es d.
Proof.
  intros W P H. unfold transpose_scatter.
  set (g := fun i => flat (pick p sh) (pick p (unravel sh i))).
  set (v := fun i => nth i es d).
  pose proof (flat_lt _ _ H) as Hlt.
  replace (flat (pick p sh) (pick p c)) with (g (flat sh c)) by (unfold g; now rewrite unravel_flat).
  change (nth (flat sh c) es d) with (v (flat sh c)).
  apply (scatter_spec d g v).
  - apply seq_NoDup.
  - intros i i' Hi Hi' E. apply in_seq in Hi, Hi'. unfold g in E.
    assert (in_range sh (unravel sh i)) as R by (apply unravel_in_range; lia).
    assert (in_range sh (unravel sh i')) as R' by (apply unravel_in_range; lia).
    apply flat_inj in E; try (apply in_range_pick; auto).
    apply (pick_inj p (length sh)) in E; auto using in_range_length.
    rewrite <- (flat_unravel sh i), <- (flat_unravel sh i'), E by lia. reflexivity.
  - intros i Hi. apply in_seq in Hi. rewrite repeat_length, W, <- (prod_pick p sh P). unfold g.
    apply flat_lt, in_range_pick; auto. apply unravel_in_range. lia.
  - apply in_seq. lia.
Qed.

Theorem transpose_perm_ok (a : arr T) p :
  wf a -> ndim a <> 0 -> is_perm p (ndim a) ->
  exists r, transpose_perm d a p = Ok r /\ wf r /\ shape r = pick p (shape a) /\
    (forall c, in_range (shape a) c -> get d r (pick p c) = get d a c) /\
    (forall c', in_range (shape r) c' -> get d r c' = get d a (pick (inv_perm p) c')).
Proof.
  intros W N P. unfold transpose_perm. destruct (Nat.eqb_spec (ndim a) 0) as [E|_]; [contradiction|].
  unfold new, matches_values_len. rewrite transpose_scatter_length, prod_pick by exact P.
  unfold wf in W. rewrite W, Nat.eqb_refl. cbn [guard bind].
  eexists. split; [reflexivity|]. split; [|split; [reflexivity|]].
  - unfold wf. cbn [elems shape]. now rewrite transpose_scatter_length, prod_pick.
  - assert (forall c, in_range (shape a) c ->
              get d {| elems := transpose_scatter d (elems a) (shape a) p; shape := pick p (shape a) |} (pick p c) = get d a c) as G.
    { intros c H. unfold get. cbn [elems shape]. now apply transpose_scatter_spec. }
    split; [exact G|]. cbn [shape]. intros c' H.
    rewrite <- (pick_pick_inv p (ndim a) c') at 1; auto.
    + apply G. now apply in_range_pick_inv.
    + apply in_range_length in H. rewrite H, pick_length. apply P.
Qed.

Lemma transpose_perm_inverse (a : arr T) p :
  wf a -> ndim a <> 0 -> is_perm p (ndim a) ->
  (let* r := transpose_perm d a p in transpose_perm d r (inv_perm p)) = Ok a.
Proof.
  intros W N P. destruct (transpose_perm_ok a p W N P) as (r & E & Wr & Sr & G & _).
  rewrite E. cbn [bind].
  assert (ndim r = ndim a) as Nr by (unfold ndim; rewrite Sr, pick_length; apply P).
  assert (is_perm (inv_perm p) (ndim r)) as Pi by (rewrite Nr; now apply inv_perm_is_perm).
  destruct (transpose_perm_ok r (inv_perm p) Wr ltac:(lia) Pi) as (r2 & E2 & W2 & S2 & G2 & _).
  rewrite E2. f_equal. apply (array_ext d); auto.
  - rewrite S2, Sr. apply (pick_inv_pick p (ndim a)); auto.
  - intros c H. rewrite S2, Sr, (pick_inv_pick p (ndim a)) in H by auto.
    rewrite <- (pick_inv_pick p (ndim a) c) at 1 by (auto; apply in_range_length in H; exact H).
    rewrite G2.
    + now apply G.
    + rewrite Sr. now apply in_range_pick.
Qed.

End TransposeProofs.

(* ---------- signed axis arguments ---------- *)

Definition axis_ok (n : nat) (z : Z) : Prop := (- Z.of_nat n <= z < Z.of_nat n)%Z.
Definition norm_nat (n : nat) (z : Z) : nat := Z.to_nat (if (z <? 0)%Z then z + Z.of_nat n else z)%Z.

Lemma normalize_axis_ok n z :
  (Z.of_nat n < two64)%Z -> axis_ok n z ->
  normalize_axis n z = Z.of_nat (norm_nat n z) /\ norm_nat n z < n.
Proof.
  unfold axis_ok, normalize_axis, norm_nat. intros B H.
  destruct (Z.ltb_spec z 0) as [L|L].
  - rewrite Z.mod_small by lia. split; lia.
  - split; lia.
Qed.

(* a negative axis denotes the same axis as itself plus the rank *)
Lemma normalize_axis_negative n z :
  (Z.of_nat n < two64)%Z -> (- Z.of_nat n <= z < 0)%Z ->
  normalize_axis n z = normalize_axis n (z + Z.of_nat n).
Proof.
  unfold normalize_axis. intros B H.
  destruct (Z.ltb_spec z 0) as [L|L]; [|lia].
  destruct (Z.ltb_spec (z + Z.of_nat n) 0) as [L'|L']; [lia|].
  apply Z.mod_small. lia.
Qed.

Lemma normalize_axis_nonneg n z : (0 <= normalize_axis n z)%Z.
Proof.
  unfold normalize_axis. destruct (Z.ltb_spec z 0); [|lia].
  apply Z.mod_pos_bound. reflexivity.
Qed.

Lemma nodupZb_spec l : nodupZb l = true <-> NoDup l.
Proof.
  induction l as [|x t IH]; cbn [nodupZb].
  - split; [constructor | auto].
  - rewrite andb_true_iff, negb_true_iff, IH. split.
    + intros [E H]. constructor; auto. intros I.
      assert (existsb (Z.eqb x) t = true) as X by (apply existsb_exists; exists x; split; [auto | apply Z.eqb_refl]).
      congruence.
    + intros H. inversion H as [|? ? Hx H']; subst. split; auto.
      destruct (existsb (Z.eqb x) t) eqn:E; auto. apply existsb_exists in E as (y & Hy & E).
      apply Z.eqb_eq in E. subst. contradiction.
Qed.

Lemma NoDup_map_to_nat l : Forall (fun z => (0 <= z)%Z) l -> NoDup l -> NoDup (map Z.to_nat l).
Proof.
  intros F ND. apply NoDup_map_in; auto. rewrite Forall_forall in F.
  intros x y Hx Hy E. pose proof (F x Hx). pose proof (F y Hy). lia.
Qed.

Section TransposeWrapper.
Context {T : Type} (d : T).

(* the order an explicit transpose works with *)
Definition order_of (n : nat) (l : list Z) : list nat := map Z.to_nat (map (normalize_axis n) l).

(* an explicit order is accepted exactly when its normalisation is a permutation of the axes;
   anything else is an error value, never a panic and never an array *)
Theorem transpose_some_cases (a : arr T) l :
  (is_perm (order_of (ndim a) l) (ndim a) /\
     transpose d a (Some l) = transpose_perm d a (order_of (ndim a) l)) \/
  (~ is_perm (order_of (ndim a) l) (ndim a) /\ exists e, transpose d a (Some l) = Err e).
Proof.
  unfold transpose, order_of. set (n := ndim a). set (axs := map (normalize_axis n) l).
  assert (Forall (fun z => (0 <= z)%Z) axs) as NN.
  { apply Forall_forall. intros z Hz. apply in_map_iff in Hz as (y & <- & _). apply normalize_axis_nonneg. }
  destruct (Nat.eqb_spec (length axs) n) as [L|L]; cbn [guard bind].
  2:{ right. split; [|eexists; reflexivity]. intros (_ & L' & _). rewrite map_length in L'. contradiction. }
  destruct (forallb (fun ax => (ax <? Z.of_nat n)%Z) axs) eqn:F; cbn [guard bind].
  2:{ right. split; [|eexists; reflexivity]. intros (_ & _ & F').
      assert (forallb (fun ax => (ax <? Z.of_nat n)%Z) axs = true) as X; [|congruence].
      apply forallb_forall. intros z Hz. apply Z.ltb_lt. rewrite Forall_forall in F', NN.
      specialize (F' (Z.to_nat z) (in_map _ _ _ Hz)). specialize (NN z Hz). lia. }
  unfold is_unique. destruct (nodupZb axs) eqn:U; cbn [guard bind].
  - left. split; [|reflexivity]. split; [|split].
    + apply NoDup_map_to_nat; auto. now apply nodupZb_spec.
    + now rewrite map_length.
    + apply Forall_forall. intros x Hx. apply in_map_iff in Hx as (z & <- & Hz).
      rewrite forallb_forall in F. specialize (F z Hz). apply Z.ltb_lt in F.
      rewrite Forall_forall in NN. specialize (NN z Hz). lia.
  - right. split; [|eexists; reflexivity]. intros (ND & _ & _).
    assert (nodupZb axs = true) as X; [|congruence]. apply nodupZb_spec.
    apply (NoDup_map_inv Z.to_nat). exact ND.
Qed.

Lemma rev_seq_is_perm n : is_perm (rev (seq 0 n)) n.
Proof.
  split; [|split].
  - apply NoDup_rev, seq_NoDup.
  - now rewrite rev_length, seq_length.
  - apply Forall_forall. intros x Hx. apply in_rev, in_seq in Hx. lia.
Qed.

Theorem transpose_none (a : arr T) : transpose d a None = transpose_perm d a (rev (seq 0 (ndim a))).
Proof. reflexivity. Qed.

End TransposeWrapper.

(* ---------- the orders built by swapaxes / rollaxis / moveaxis ---------- *)


Lemma nth_swap_list l i j k : i < length l -> j < length l ->
  nth k (swap_list l i j) 0 = if k =? j then nth i l 0 else if k =? i then nth j l 0 else nth k l 0.
Proof.
  intros Hi Hj. unfold swap_list. rewrite !nth_upd, !upd_length.
  destruct (Nat.eqb_spec j k), (Nat.eqb_spec k j), (Nat.eqb_spec i k), (Nat.eqb_spec k i),
    (Nat.ltb_spec j (length l)), (Nat.ltb_spec i (length l)); cbn; try lia; auto; subst; auto.
Qed.

Lemma swap_seq_is_perm n i j : i < n -> j < n -> is_perm (swap_list (seq 0 n) i j) n.
Proof.
  intros Hi Hj. assert (length (swap_list (seq 0 n) i j) = n) as L
    by (unfold swap_list; now rewrite !upd_length, seq_length).
  assert (forall k, k < n -> nth k (swap_list (seq 0 n) i j) 0 = if k =? j then i else if k =? i then j else k) as N.
  { intros k Hk. rewrite nth_swap_list by now rewrite seq_length. rewrite !seq_nth by lia. reflexivity. }
  split; [|split; auto].
  - apply (NoDup_nth _ 0). rewrite L. intros x y Hx Hy. rewrite !N by auto.
    destruct (Nat.eqb_spec x j), (Nat.eqb_spec x i), (Nat.eqb_spec y j), (Nat.eqb_spec y i); lia.
  - apply Forall_forall. intros x Hx. destruct (In_nth _ _ 0 Hx) as (k & Hk & <-). rewrite L in Hk.
    rewrite N by auto. destruct (Nat.eqb_spec k j), (Nat.eqb_spec k i); lia.
Qed.

Lemma insert_nth_Permutation {A} (l : list A) i x : Permutation (insert_nth l i x) (x :: l).
Proof.
  revert i; induction l as [|h t IH]; intros [|i]; cbn; auto.
  rewrite IH. apply perm_swap.
Qed.

Lemma remove_nth_Permutation {A} (l : list A) i d : i < length l -> Permutation (nth i l d :: remove_nth l i) l.
Proof.
  revert i; induction l as [|h t IH]; intros [|i] H; cbn in *; try lia; auto.
  rewrite perm_swap. constructor. apply IH. lia.
Qed.

Lemma Permutation_seq_is_perm p n : Permutation p (seq 0 n) -> is_perm p n.
Proof.
  intros P. split; [|split].
  - apply (Permutation_NoDup (Permutation_sym P)), seq_NoDup.
  - rewrite (Permutation_length P). apply seq_length.
  - apply Forall_forall. intros x Hx. apply (Permutation_in _ P), in_seq in Hx. lia.
Qed.

Lemma rollaxis_order_is_perm n axis start : axis < n -> is_perm (rollaxis_order n axis start) n.
Proof.
  intros H. apply Permutation_seq_is_perm. unfold rollaxis_order.
  rewrite insert_nth_Permutation.
  rewrite <- (remove_nth_Permutation (seq 0 n) axis 0) at 2 by now rewrite seq_length.
  now rewrite seq_nth.
Qed.

Lemma nth_insert_nth {A} (l : list A) i x d : i <= length l -> nth i (insert_nth l i x) d = x.
Proof. revert i; induction l as [|h t IH]; intros [|i] H; cbn in *; try lia; auto. apply IH. lia. Qed.

Lemma remove_insert_nth {A} (l : list A) i x : i <= length l -> remove_nth (insert_nth l i x) i = l.
Proof. revert i; induction l as [|h t IH]; intros [|i] H; cbn in *; try lia; auto. f_equal. apply IH. lia. Qed.

(* the rolled axis lands at index start, the other axes keep their relative order *)
Lemma rollaxis_order_spec n axis start : axis < n -> start < n ->
  nth start (rollaxis_order n axis start) 0 = axis /\
  remove_nth (rollaxis_order n axis start) start = remove_nth (seq 0 n) axis.
Proof.
  intros Ha Hs. unfold rollaxis_order.
  assert (start <= length (remove_nth (seq 0 n) axis)) by (rewrite remove_nth_length; rewrite seq_length; lia).
  split; [now apply nth_insert_nth | now apply remove_insert_nth].
Qed.

Lemma filter_neq_seq n s : s < n ->
  filter (fun f => negb (existsb (Z.eqb (Z.of_nat f)) [Z.of_nat s])) (seq 0 n) = remove_nth (seq 0 n) s.
Proof.
  intros H. cbn [existsb]. 
  assert (forall a m s, s < m -> filter (fun f => negb ((Z.of_nat f =? Z.of_nat (a + s))%Z || false)) (seq a m)
                               = remove_nth (seq a m) s) as G.
  { intros a m. revert a. induction m as [|m IH]; intros a s' Hs; [lia|]. cbn [seq filter].
    destruct s' as [|s'].
    - rewrite Nat.add_0_r, Z.eqb_refl. cbn [orb negb remove_nth].
      clear IH Hs. assert (forall b, a < b -> filter (fun f => negb ((Z.of_nat f =? Z.of_nat a)%Z || false)) (seq b m) = seq b m) as K.
      { induction m as [|m IHm]; intros b Hb; cbn; auto.
        destruct (Z.eqb_spec (Z.of_nat b) (Z.of_nat a)); [lia|]. cbn. f_equal. apply IHm. lia. }
      apply K. lia.
    - destruct (Z.eqb_spec (Z.of_nat a) (Z.of_nat (a + S s'))); [lia|]. cbn [orb negb remove_nth]. f_equal.
      replace (a + S s') with (S a + s') by lia. apply IH. lia. }
  apply (G 0 n s H).
Qed.

(* moving one axis is rolling it: the order has the source at the destination index *)
Lemma moveaxis_order_single n s dd : s < n -> dd < n ->
  moveaxis_order n [Z.of_nat s] [Z.of_nat dd] = rollaxis_order n s dd.
Proof.
  intros Hs Hd. unfold moveaxis_order, rollaxis_order. rewrite filter_neq_seq by auto.
  cbn [combine sort_by fold_right insert_sorted fold_left fst snd]. rewrite !Nat2Z.id.
  rewrite remove_nth_length by now rewrite seq_length. rewrite seq_length.
  f_equal. lia.
Qed.

Section AxisOps.
Context {T : Type} (d : T).

Lemma order_of_of_nat n p : order_of n (map Z.of_nat p) = p.
Proof.
  unfold order_of. rewrite !map_map. rewrite <- (map_id p) at 2. apply map_ext.
  intros x. unfold normalize_axis. destruct (Z.ltb_spec (Z.of_nat x) 0); lia.
Qed.

Lemma transpose_of_perm (a : arr T) p :
  is_perm p (ndim a) -> transpose d a (Some (map Z.of_nat p)) = transpose_perm d a p.
Proof.
  intros P. destruct (transpose_some_cases d a (map Z.of_nat p)) as [[_ E] | [N _]];
    rewrite order_of_of_nat in *; [exact E | contradiction].
Qed.

Lemma axis_in_bounds_ok n z : (Z.of_nat n < two64)%Z -> axis_ok n z ->
  axis_in_bounds n (normalize_axis n z) = Ok tt.
Proof.
  intros B H. destruct (normalize_axis_ok n z B H) as [E L]. unfold axis_in_bounds. rewrite E.
  destruct (Z.ltb_spec (Z.of_nat (norm_nat n z)) (Z.of_nat n)); [reflexivity | lia].
Qed.

Definition isize_ok (z : Z) : Prop := (- 9223372036854775808 <= z < 9223372036854775808)%Z.

Lemma axis_in_bounds_err n z : (Z.of_nat n < 9223372036854775808)%Z -> isize_ok z -> ~ axis_ok n z ->
  axis_in_bounds n (normalize_axis n z) = Err EAxis.
Proof.
  intros B I H. unfold axis_in_bounds, normalize_axis, axis_ok, isize_ok, two64 in *.
  destruct (Z.ltb_spec z 0) as [L|L].
  - assert (z + Z.of_nat n < 0)%Z as Neg by lia.
    replace ((z + Z.of_nat n) mod 18446744073709551616)%Z with (z + Z.of_nat n + 18446744073709551616)%Z.
    + destruct (Z.ltb_spec (z + Z.of_nat n + 18446744073709551616) (Z.of_nat n)); [lia | reflexivity].
    + symmetry. rewrite <- (Z.mod_add _ 1) by lia. rewrite Z.mul_1_l. apply Z.mod_small. lia.
  - destruct (Z.ltb_spec z (Z.of_nat n)); [lia | reflexivity].
Qed.

Lemma two64_gt n : (Z.of_nat n < 9223372036854775808)%Z -> (Z.of_nat n < two64)%Z.
Proof. unfold two64. lia. Qed.

(* swapaxes = transpose with the transposition of the two (normalised) axes *)
Theorem swapaxes_ok (a : arr T) x y :
  (Z.of_nat (ndim a) < two64)%Z -> axis_ok (ndim a) x -> axis_ok (ndim a) y ->
  swapaxes d a x y = transpose_perm d a (swap_list (seq 0 (ndim a)) (norm_nat (ndim a) x) (norm_nat (ndim a) y))
  /\ is_perm (swap_list (seq 0 (ndim a)) (norm_nat (ndim a) x) (norm_nat (ndim a) y)) (ndim a).
Proof.
  intros B Hx Hy. unfold swapaxes. rewrite !axis_in_bounds_ok by auto. cbn [bind].
  destruct (normalize_axis_ok _ _ B Hx) as [-> Lx]. destruct (normalize_axis_ok _ _ B Hy) as [-> Ly].
  rewrite !Nat2Z.id. pose proof (swap_seq_is_perm (ndim a) _ _ Lx Ly) as P.
  split; [now apply transpose_of_perm | exact P].
Qed.

Theorem swapaxes_err (a : arr T) x y :
  (Z.of_nat (ndim a) < 9223372036854775808)%Z -> isize_ok x -> isize_ok y ->
  ~ (axis_ok (ndim a) x /\ axis_ok (ndim a) y) -> swapaxes d a x y = Err EAxis.
Proof.
  intros B Ix Iy H. unfold swapaxes.
  destruct (Z_lt_ge_dec x (Z.of_nat (ndim a))) as [Lx|Gx], (Z_le_gt_dec (- Z.of_nat (ndim a)) x) as [Lx'|Gx'];
    try (rewrite (axis_in_bounds_err _ x) by (auto; unfold axis_ok; lia); reflexivity).
  rewrite (axis_in_bounds_ok _ x) by (auto using two64_gt; unfold axis_ok; lia). cbn [bind].
  rewrite (axis_in_bounds_err _ y); auto. intros Hy. apply H. split; [unfold axis_ok; lia | auto].
Qed.

(* rollaxis = transpose with the order in which the axis lands at index start *)
Theorem rollaxis_ok (a : arr T) x st :
  (Z.of_nat (ndim a) < two64)%Z -> axis_ok (ndim a) x -> axis_ok (ndim a) st ->
  rollaxis d a x (Some st) = transpose_perm d a (rollaxis_order (ndim a) (norm_nat (ndim a) x) (norm_nat (ndim a) st))
  /\ is_perm (rollaxis_order (ndim a) (norm_nat (ndim a) x) (norm_nat (ndim a) st)) (ndim a).
Proof.
  intros B Hx Hs. unfold rollaxis. rewrite !axis_in_bounds_ok by auto. cbn [bind].
  destruct (normalize_axis_ok _ _ B Hx) as [-> Lx]. destruct (normalize_axis_ok _ _ B Hs) as [-> Ls].
  rewrite !Nat2Z.id. pose proof (rollaxis_order_is_perm (ndim a) _ (norm_nat (ndim a) st) Lx) as P.
  split; [now apply transpose_of_perm | exact P].
Qed.

Theorem rollaxis_default (a : arr T) x : rollaxis d a x None = rollaxis d a x (Some 0%Z).
Proof. reflexivity. Qed.

(* moving one axis = transpose with the same order as rolling it to the destination *)
Theorem moveaxis_single_ok (a : arr T) s t :
  (Z.of_nat (ndim a) < two64)%Z -> axis_ok (ndim a) s -> axis_ok (ndim a) t ->
  moveaxis d a [s] [t] = transpose_perm d a (rollaxis_order (ndim a) (norm_nat (ndim a) s) (norm_nat (ndim a) t)).
Proof.
  intros B Hs Ht. unfold moveaxis. cbn [is_unique nodupZb existsb negb andb guard bind length Nat.eqb map forallb].
  destruct (normalize_axis_ok _ _ B Hs) as [Es Ls]. destruct (normalize_axis_ok _ _ B Ht) as [Et Lt].
  rewrite Es, Et.
  destruct (Z.ltb_spec (Z.of_nat (norm_nat (ndim a) s)) (Z.of_nat (ndim a))); [|lia].
  destruct (Z.ltb_spec (Z.of_nat (norm_nat (ndim a) t)) (Z.of_nat (ndim a))); [|lia].
  cbn [andb guard bind]. rewrite moveaxis_order_single by auto.
  apply transpose_of_perm, rollaxis_order_is_perm, Ls.
Qed.

(* negative axis numbers count from the end *)
Theorem swapaxes_negative (a : arr T) x y :
  (Z.of_nat (ndim a) < two64)%Z -> (- Z.of_nat (ndim a) <= x < 0)%Z ->
  swapaxes d a x y = swapaxes d a (x + Z.of_nat (ndim a)) y /\
  swapaxes d a y x = swapaxes d a y (x + Z.of_nat (ndim a)).
Proof. intros B H. unfold swapaxes. now rewrite <- !(normalize_axis_negative _ x B H). Qed.

Theorem rollaxis_negative (a : arr T) x st :
  (Z.of_nat (ndim a) < two64)%Z -> (- Z.of_nat (ndim a) <= x < 0)%Z ->
  rollaxis d a x st = rollaxis d a (x + Z.of_nat (ndim a)) st.
Proof. intros B H. unfold rollaxis. now rewrite <- !(normalize_axis_negative _ x B H). Qed.

Theorem transpose_negative (a : arr T) l :
  (Z.of_nat (ndim a) < two64)%Z -> Forall (axis_ok (ndim a)) l ->
  transpose d a (Some l) =
  transpose d a (Some (map (fun z => if (z <? 0)%Z then (z + Z.of_nat (ndim a))%Z else z) l)).
Proof.
  intros B H. unfold transpose.
  assert (map (normalize_axis (ndim a)) (map (fun z => if (z <? 0)%Z then (z + Z.of_nat (ndim a))%Z else z) l)
          = map (normalize_axis (ndim a)) l) as ->; [|reflexivity].
  rewrite map_map. apply map_ext_in. intros z Hz. rewrite Forall_forall in H. specialize (H z Hz). unfold axis_ok in H.
  destruct (Z.ltb_spec z 0); [|reflexivity]. symmetry. apply normalize_axis_negative; auto. lia.
Qed.

Theorem moveaxis_negative (a : arr T) s t :
  (Z.of_nat (ndim a) < two64)%Z -> (- Z.of_nat (ndim a) <= s < 0)%Z ->
  moveaxis d a [s] [t] = moveaxis d a [s + Z.of_nat (ndim a)]%Z [t] /\
  moveaxis d a [t] [s] = moveaxis d a [t] [s + Z.of_nat (ndim a)]%Z.
Proof.
  intros B H. unfold moveaxis. cbn [map is_unique nodupZb existsb negb andb guard bind length].
  now rewrite <- !(normalize_axis_negative _ s B H).
Qed.

End AxisOps.

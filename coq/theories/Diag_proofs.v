(* identity and diag / diagflat (C16): one exactly on the main diagonal; a vector laid on the k-th diagonal of a
   square matrix and read back from that diagonal is the vector *)
From ArrRs Require Import Index Index_proofs Lists_proofs Axis Reshape_proofs Linalg_proofs Create Create_proofs.

Section DiagProofs.
Context {T : Type} (zero one : T).

Theorem identity_spec n : exists r, identity zero one n = Ok r /\ shape r = [n; n] /\
  forall i j, i < n -> j < n -> get zero r [i; j] = if i =? j then one else zero.
Proof.
  unfold identity. eexists. split; [apply new_iff; split; [now rewrite map_length, seq_length; cbn; lia | reflexivity]|].
  cbn [shape]. split; [reflexivity|]. intros i j Hi Hj. rewrite (get2' _ _ n n) by reflexivity. cbn [elems].
  rewrite (nth_map_lt _ _ _ 0) by (rewrite seq_length; nia). rewrite seq_nth by nia. cbn [Nat.add].
  destruct (Nat.eqb_spec i j) as [->|Ne].
  - replace (j * n + j) with (0 + j * (n + 1)) by lia. rewrite Nat.mod_add by lia. now rewrite Nat.mod_small by lia.
  - destruct (Nat.lt_ge_cases i j) as [L|G].
    + replace (i * n + j) with ((j - i) + i * (n + 1)) by lia. rewrite Nat.mod_add by lia. rewrite Nat.mod_small by lia.
      destruct (Nat.eqb_spec (j - i) 0); [lia | reflexivity].
    + replace (i * n + j) with ((n + 1 - (i - j)) + (i - 1) * (n + 1)) by nia. rewrite Nat.mod_add by lia.
      rewrite Nat.mod_small by lia. destruct (Nat.eqb_spec (n + 1 - (i - j)) 0); [lia | reflexivity].
Qed.

(* a vector on the k-th diagonal *)
Theorem diag_1d_spec (a : arr T) k : ndim a = 1 -> wf a ->
  let s := len a in let n := s + Z.abs_nat k in
  exists M, diag zero a k = Ok M /\ shape M = [n; n] /\ wf M /\
    forall i j, i < n -> j < n ->
      get zero M [i; j] = if (0 <=? k)%Z then (if j =? i + Z.abs_nat k then nth i (elems a) zero else zero)
                          else (if i =? j + Z.abs_nat k then nth j (elems a) zero else zero).
Proof.
  intros N1 W s n. unfold diag. rewrite N1. cbn [Nat.eqb]. unfold diag_1d.
  assert (nth 0 (shape a) 0 = s) as Es.
  { unfold s, len. rewrite W. unfold ndim in N1. destruct (shape a) as [|x [|? ?]]; cbn in N1; try lia. cbn. lia. }
  rewrite Es. fold n.
  eexists. split; [apply new_iff; split; [now rewrite map_length, seq_length; cbn; lia | reflexivity]|].
  cbn [shape]. split; [reflexivity|]. split; [unfold wf; cbn [elems shape prod]; rewrite map_length, seq_length; lia|].
  intros i j Hi Hj. rewrite (get2' _ _ n n) by reflexivity. cbn [elems].
  rewrite (nth_map_lt _ _ _ 0) by (rewrite seq_length; nia). rewrite seq_nth by nia. cbn [Nat.add].
  rewrite Nat.div_add_l by lia. rewrite Nat.div_small by lia. rewrite Nat.add_0_r.
  rewrite Nat.add_comm, Nat.mod_add by lia. rewrite Nat.mod_small by lia.
  destruct (Z.leb_spec 0 k) as [K|K].
  - cbn [andb]. destruct (Nat.eqb_spec j (i + Z.abs_nat k)) as [E|E]; [|destruct (Z.ltb_spec k 0); [lia | reflexivity]].
    destruct (Nat.ltb_spec i s); [reflexivity | unfold n in *; lia].
  - cbn [andb]. destruct (Z.ltb_spec k 0); [|lia]. cbn [andb].
    destruct (Nat.eqb_spec i (j + Z.abs_nat k)) as [E|E]; [|reflexivity].
    destruct (Nat.ltb_spec j s); [reflexivity | unfold n in *; lia].
Qed.

(* building the diagonal matrix and extracting that diagonal are inverse *)
Theorem diag_roundtrip (a : arr T) k : ndim a = 1 -> wf a ->
  exists M, diag zero a k = Ok M /\ diag zero M k = Ok (mk (elems a) [len a]).
Proof.
  intros N1 W. destruct (diag_1d_spec a k N1 W) as (M & E & SM & WM & G). cbn zeta in SM, G.
  set (s := len a) in *. set (ak := Z.abs_nat k) in *. set (n := s + ak) in *.
  exists M. split; [exact E|]. unfold diag. assert (ndim M = 2) as N2 by (unfold ndim; now rewrite SM).
  rewrite N2. cbn [Nat.eqb]. unfold diag_2d. rewrite SM. cbn [nth]. fold ak.
  set (sr := if (0 <=? k)%Z then 0 else ak). set (sc := if (0 <=? k)%Z then ak else 0).
  assert (Nat.min (n - sr) (n - sc) = s) as ->.
  { unfold sr, sc, n. destruct (0 <=? k)%Z; lia. }
  assert (map (fun t => nth ((sr + t) * n + (sc + t)) (elems M) zero) (seq 0 s) = elems a) as ->.
  { transitivity (map (fun i => nth i (elems a) zero) (seq 0 (length (elems a)))); [|apply map_nth_seq].
    fold (len a). fold s. apply map_ext_in. intros t Ht. apply in_seq in Ht.
    rewrite <- (get2' zero M n n) by exact SM. rewrite G by (unfold sr, sc, n; destruct (0 <=? k)%Z; lia).
    unfold sr, sc. destruct (Z.leb_spec 0 k).
    - cbn [Nat.add]. destruct (Nat.eqb_spec (ak + t) (t + ak)); [reflexivity | lia].
    - cbn [Nat.add]. destruct (Nat.eqb_spec (ak + t) (t + ak)); [reflexivity | lia]. }
  rewrite flat_arr_ok. reflexivity.
Qed.

End DiagProofs.

(* Further per-string laws (C17): stripping, counting, replacing, case maps. *)
From ArrRs Require Import Index Lists_proofs Axis Str Str_proofs Edit Edit_proofs.
Local Open Scope Z_scope.
Local Open Scope list_scope.

(* ---------- strip ---------- *)
Definition in_set (chars : str) (c : Z) : bool := mem_c c chars.

Lemma lstrip_is_drop a chars : s_lstrip a chars = drop_while (in_set chars) a.
Proof.
  unfold s_lstrip, s_rstrip. rewrite !rev_involutive.
  induction a as [|c t IH]; [reflexivity|]. cbn [drop_while]. unfold in_set at 1. destruct (mem_c c chars); [exact IH | reflexivity].
Qed.

Lemma rstrip_is_drop a chars : s_rstrip a chars = rev (drop_while (in_set chars) (rev a)).
Proof.
  unfold s_rstrip. f_equal. generalize (rev a) as l. induction l as [|c t IH]; [reflexivity|].
  cbn [drop_while]. unfold in_set at 1. destruct (mem_c c chars); [exact IH | reflexivity].
Qed.

(* stripping removes exactly a maximal prefix and suffix of characters of the set *)
Theorem strip_spec a chars :
  exists pre suf, a = pre ++ s_strip a chars ++ suf /\ forallb (in_set chars) pre = true /\ forallb (in_set chars) suf = true /\
    starts_without (in_set chars) (s_strip a chars) /\ starts_without (in_set chars) (rev (s_strip a chars)).
Proof.
  unfold s_strip. rewrite rstrip_is_drop, lstrip_is_drop.
  destruct (trim_spec (in_set chars) (rev a)) as (pre & suf & E & Fp & Fs & S1 & S2). cbn zeta in *.
  rewrite rev_involutive in *. set (t := drop_while (in_set chars) (rev (drop_while (in_set chars) a))) in *.
  exists (rev suf), (rev pre). split; [|split; [|split; [|split]]].
  - apply (f_equal (@rev Z)) in E. rewrite rev_involutive in E. rewrite E, !rev_app_distr, <- app_assoc. reflexivity.
  - now rewrite forallb_rev.
  - now rewrite forallb_rev.
  - exact S2.
  - exact S1.
Qed.

Theorem lstrip_spec a chars :
  exists pre, a = pre ++ s_lstrip a chars /\ forallb (in_set chars) pre = true /\ starts_without (in_set chars) (s_lstrip a chars).
Proof. rewrite lstrip_is_drop. apply drop_while_split. Qed.

Theorem rstrip_spec a chars :
  exists suf, a = s_rstrip a chars ++ suf /\ forallb (in_set chars) suf = true /\ starts_without (in_set chars) (rev (s_rstrip a chars)).
Proof.
  rewrite rstrip_is_drop. destruct (drop_while_split (in_set chars) (rev a)) as (pre & E & F & S).
  exists (rev pre). split; [|split].
  - apply (f_equal (@rev Z)) in E. rewrite rev_involutive, rev_app_distr in E. exact E.
  - now rewrite forallb_rev.
  - now rewrite rev_involutive.
Qed.

(* ---------- count and split scan the string identically: count = number of pieces - 1 ---------- *)
Lemma count_split_f fuel : forall s sub cur, length (split_f fuel s sub cur None) = S (count_f fuel s sub) \/ fuel = 0%nat.
Proof.
  induction fuel as [|f IH]; intros s sub cur; [now right|]. left. cbn [split_f count_f].
  destruct s as [|c t]; [reflexivity|]. destruct (starts_with (c :: t) sub).
  - cbn [option_map length]. destruct (IH (skipn (length sub) (c :: t)) sub []) as [E|E].
    + now rewrite E.
    + subst f. reflexivity.
  - destruct (IH t sub (c :: cur)) as [E|E]; [exact E|]. subst f. reflexivity.
Qed.

Theorem count_is_pieces_minus_one s sub : sub <> [] -> S (count_str s sub) = length (split_str s sub None).
Proof.
  intros H. unfold count_str, split_str. destruct sub as [|x sub']; [congruence|].
  destruct (count_split_f (S (length s)) s (x :: sub') []) as [E|E]; [now rewrite E | discriminate].
Qed.

(* ---------- case maps ---------- *)
Theorem upper_lower_length a : length (s_upper a) = length a /\ length (s_lower a) = length a /\ length (s_swapcase a) = length a.
Proof. unfold s_upper, s_lower, s_swapcase. now rewrite !map_length. Qed.

Lemma to_upper_idem c : to_upper_c (to_upper_c c) = to_upper_c c.
Proof.
  unfold to_upper_c, is_lower_c. destruct ((97 <=? c) && (c <=? 122)) eqn:E; [|now rewrite E].
  apply andb_true_iff in E as [A B]. apply Z.leb_le in A, B.
  destruct (Z.leb_spec 97 (c - 32)), (Z.leb_spec (c - 32) 122); cbn; try reflexivity; lia.
Qed.

Lemma to_lower_idem c : to_lower_c (to_lower_c c) = to_lower_c c.
Proof.
  unfold to_lower_c, is_upper_c. destruct ((65 <=? c) && (c <=? 90)) eqn:E; [|now rewrite E].
  apply andb_true_iff in E as [A B]. apply Z.leb_le in A, B.
  destruct (Z.leb_spec 65 (c + 32)), (Z.leb_spec (c + 32) 90); cbn; try reflexivity; lia.
Qed.

Theorem upper_idempotent a : s_upper (s_upper a) = s_upper a.
Proof. unfold s_upper. rewrite map_map. apply map_ext. exact to_upper_idem. Qed.

Theorem lower_idempotent a : s_lower (s_lower a) = s_lower a.
Proof. unfold s_lower. rewrite map_map. apply map_ext. exact to_lower_idem. Qed.

Theorem swapcase_involutive a : s_swapcase (s_swapcase a) = a.
Proof.
  unfold s_swapcase. rewrite map_map. rewrite <- (map_id a) at 2. apply map_ext. intros c.
  unfold to_upper_c, to_lower_c, is_lower_c, is_upper_c.
  destruct (Z.leb_spec 97 c), (Z.leb_spec c 122), (Z.leb_spec 65 c), (Z.leb_spec c 90); cbn [andb];
    repeat match goal with |- context [(?x <=? ?y)] => destruct (Z.leb_spec x y); cbn [andb]; try lia end; lia.
Qed.

(* upper-casing leaves no lower-case letter and changes letters only *)
Theorem upper_spec a k : (k < length a)%nat ->
  is_lower_c (nth k (s_upper a) 0) = false /\
  (is_lower_c (nth k a 0) = false -> nth k (s_upper a) 0 = nth k a 0).
Proof.
  intros H. unfold s_upper. rewrite (nth_map_lt _ _ _ 0) by exact H. set (c := nth k a 0). split.
  - unfold to_upper_c, is_lower_c. destruct ((97 <=? c) && (c <=? 122)) eqn:E; [|exact E].
    apply andb_true_iff in E as [A B]. apply Z.leb_le in A, B.
    destruct (Z.leb_spec 97 (c - 32)), (Z.leb_spec (c - 32) 122); cbn; try reflexivity; lia.
  - intros E. unfold to_upper_c. now rewrite E.
Qed.

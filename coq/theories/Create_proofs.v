From Coq Require Import QArith.
Local Close Scope Q_scope.
From ArrRs Require Import Index Index_proofs Lists_proofs Axis Reshape_proofs Linalg_proofs Create.

Section CreateProofs.
Context {T : Type} (zero one : T).

Lemma get2' (a : arr T) r c i j : shape a = [r; c] -> get zero a [i; j] = nth (i * c + j) (elems a) zero.
Proof. intros S. unfold get. rewrite S. cbn [flat prod]. f_equal. lia. Qed.

(* constant fills: the requested shape, the value everywhere *)
Theorem full_spec sh v : full sh v = Ok (mk (repeat v (prod sh)) sh) /\
  forall c, in_range sh c -> get zero (mk (repeat v (prod sh)) sh) c = v.
Proof.
  split.
  - unfold full. apply new_iff. split; [apply repeat_length | reflexivity].
  - intros c H. unfold get. cbn [elems shape]. apply nth_repeat_lt. now apply flat_lt.
Qed.

(* eye: one exactly on the k-th diagonal *)
Theorem eye_spec n m k : exists r, eye zero one n m k = Ok r /\ shape r = [n; m] /\
  forall i j, i < n -> j < m -> get zero r [i; j] = if j =? i + k then one else zero.
Proof.
  unfold eye. eexists. split; [apply new_iff; split; [now rewrite map_length, seq_length; cbn; lia | reflexivity]|].
  cbn [shape]. split; [reflexivity|]. intros i j Hi Hj. rewrite (get2' _ n m) by reflexivity. cbn [elems].
  rewrite (nth_map_lt _ _ _ 0) by (rewrite seq_length; nia). rewrite seq_nth by nia. cbn [Nat.add].
  rewrite Nat.div_add_l by lia. rewrite Nat.div_small by lia. rewrite Nat.add_0_r.
  rewrite Nat.add_comm, Nat.mod_add by lia. rewrite Nat.mod_small by lia.
  destruct (Nat.leb_spec k j), (Nat.eqb_spec (j - k) i), (Nat.eqb_spec j (i + k)); cbn; auto; lia.
Qed.

(* tri: one iff j <= i + k *)
Theorem tri_spec n m k : exists r, tri zero one n m k = Ok r /\ shape r = [n; m] /\
  forall i j, i < n -> j < m -> get zero r [i; j] = if (Z.of_nat j <=? Z.of_nat i + k)%Z then one else zero.
Proof.
  unfold tri. eexists. split; [apply new_iff; split; [rewrite length_flat_map_grid; cbn; lia | reflexivity]|].
  cbn [shape]. split; [reflexivity|]. intros i j Hi Hj. rewrite (get2' _ n m) by reflexivity. cbn [elems].
  now rewrite (nth_flat_map_grid (fun i j => if (Z.of_nat j <=? Z.of_nat i + k)%Z then one else zero)).
Qed.

(* the lower part with offset k and the upper part with offset k+1 reassemble the input: at every flat position
   exactly one of them holds the element and the other holds zero *)
Theorem tril_triu_complement (a : arr T) k : wf a -> 2 <= ndim a -> len a <> 0 ->
  exists l u, tril zero a k = Ok l /\ triu zero a (k + 1) = Ok u /\ shape l = shape a /\ shape u = shape a /\
    forall p, p < len a ->
      (nth p (elems l) zero = nth p (elems a) zero /\ nth p (elems u) zero = zero) \/
      (nth p (elems l) zero = zero /\ nth p (elems u) zero = nth p (elems a) zero).
Proof.
  intros W R N. unfold tril, triu, apply_triangular, is_empty.
  destruct (Nat.ltb_spec (ndim a) 2); [lia|]. destruct (Nat.eqb_spec (len a) 0); [contradiction|].
  set (cols := nth (ndim a - 1) (shape a) 0). set (rows := nth (ndim a - 2) (shape a) 0).
  assert (forall drop, length (map (fun p => let idx := fst p mod (rows * cols) in
                     let i := (idx / cols) mod rows in let j := idx mod cols in
                     if drop (Z.of_nat j) (Z.of_nat i) : bool then zero else snd p)
           (combine (seq 0 (len a)) (elems a))) = prod (shape a)) as L.
  { intros drop. rewrite map_length, combine_length, seq_length. unfold len. rewrite W. lia. }
  eexists _, _. split; [apply new_iff; split; [apply (L (fun j i => (i + k <? j)%Z)) | reflexivity]|].
  split; [apply new_iff; split; [apply (L (fun j i => (j <? i + (k + 1))%Z)) | reflexivity]|].
  cbn [shape elems]. split; [reflexivity|]. split; [reflexivity|]. intros p Hp.
  assert (nth p (combine (seq 0 (len a)) (elems a)) (0, zero) = (p, nth p (elems a) zero)) as E.
  { rewrite combine_nth by (rewrite seq_length; reflexivity). now rewrite seq_nth. }
  rewrite !(nth_map_lt _ _ _ (0, zero)) by (rewrite combine_length, seq_length; unfold len in *; lia).
  rewrite E. cbn [fst snd].
  destruct (Z.ltb_spec (Z.of_nat ((p mod (rows * cols) / cols) mod rows) + k) (Z.of_nat (p mod (rows * cols) mod cols))),
           (Z.ltb_spec (Z.of_nat (p mod (rows * cols) mod cols)) (Z.of_nat ((p mod (rows * cols) / cols) mod rows) + (k + 1))); try lia; auto.
Qed.

Theorem tril_rank (a : arr T) k : ndim a < 2 -> tril zero a k = Err EUnsupDim /\ triu zero a k = Err EUnsupDim.
Proof. intros H. unfold tril, triu, apply_triangular. destruct (Nat.ltb_spec (ndim a) 2); [auto | lia]. Qed.

End CreateProofs.

(* power matrix: column j holds x_i ^ (n-1-j) (or x_i ^ j when increasing) *)
Theorem vander_spec (a : arr Z) cols inc : ndim a = 1 -> wf a ->
  exists r, vander a (Some cols) inc = Ok r /\ shape r = [len a; cols] /\
    forall i j, i < len a -> j < cols ->
      get 0%Z r [i; j] = Z.pow (nth i (elems a) 0%Z) (Z.of_nat (if inc then j else cols - j - 1)).
Proof.
  intros R W. unfold vander. rewrite R. cbn [Nat.eqb negb].
  assert (nth 0 (shape a) 0 = len a) as S0.
  { unfold ndim, wf, len in *. destruct (shape a) as [|d [|? ?]]; try discriminate. cbn in *. lia. }
  rewrite S0.
  assert (flat_map (fun x => map (fun i => Z.pow x (Z.of_nat (if inc then i else cols - i - 1))) (seq 0 cols)) (elems a) =
          flat_map (fun i => map (fun j => Z.pow (nth i (elems a) 0%Z) (Z.of_nat (if inc then j else cols - j - 1))) (seq 0 cols)) (seq 0 (len a))) as E.
  { unfold len. rewrite <- (map_nth_seq (elems a) 0%Z) at 1. rewrite flat_map_concat_map, map_map, <- flat_map_concat_map. reflexivity. }
  rewrite E. eexists. split; [apply new_iff; split; [rewrite length_flat_map_grid; cbn; lia | reflexivity]|].
  cbn [shape]. split; [reflexivity|]. intros i j Hi Hj. unfold get. cbn [shape elems flat prod].
  replace (i * (cols * 1) + (j * 1 + 0)) with (i * cols + j) by lia.
  now rewrite (nth_flat_map_grid (fun i j => Z.pow (nth i (elems a) 0%Z) (Z.of_nat (if inc then j else cols - j - 1)))).
Qed.

(* ranges with a positive whole-number step: an arithmetic progression from the start that never passes the stop *)
Theorem arange_spec start stop step : (1 <= step)%Z ->
  exists r, arange start stop step = Ok r /\
    elems r = map (fun t => (start + Z.of_nat t * step)%Z) (seq 0 (len r)) /\
    Forall (fun x => (start <= x <= stop)%Z) (elems r) /\
    ((start <= stop + 1)%Z -> (Z.of_nat (len r) * step <= stop + 1 - start < Z.of_nat (len r) * step + step)%Z).
Proof.
  intros Hs. unfold arange. set (size := Z.to_nat (Z.quot (stop + 1 - start) step)).
  rewrite flat_arr_ok. eexists. split; [reflexivity|]. unfold len. cbn [elems]. rewrite map_length, seq_length.
  split; [reflexivity|].
  destruct (Z_lt_le_dec (stop + 1 - start) 0) as [Neg|Pos].
  - assert (size = 0) as ->.
    { unfold size. pose proof (Z.quot_opp_l (-(stop + 1 - start)) step ltac:(lia)) as Q. rewrite Z.opp_involutive in Q.
      assert (0 <= Z.quot (-(stop + 1 - start)) step)%Z by (apply Z.quot_pos; lia). lia. }
    split; [constructor | intros; lia].
  - assert (Z.quot (stop + 1 - start) step = (stop + 1 - start) / step)%Z as Q by (apply Z.quot_div_nonneg; lia).
    pose proof (Z.div_mod (stop + 1 - start) step ltac:(lia)) as DM.
    pose proof (Z.mod_pos_bound (stop + 1 - start) step ltac:(lia)) as MB.
    assert (0 <= (stop + 1 - start) / step)%Z as QP by (apply Z.div_pos; lia).
    split.
    + apply Forall_forall. intros x Hx. apply in_map_iff in Hx as (t & <- & Ht). apply in_seq in Ht.
      assert (Z.of_nat t < (stop + 1 - start) / step)%Z by (unfold size in Ht; rewrite Q in Ht; lia). nia.
    + intros Le. unfold size. rewrite Q, Z2Nat.id by lia. nia.
Qed.

(* evenly spaced sequences over exact rationals *)
Theorem linspace_q_spec (start stop : Q) num endpoint : 2 <= num ->
  length (linspace_q start stop num endpoint) = num /\
  (nth 0 (linspace_q start stop num endpoint) 0 == start)%Q /\
  (endpoint = true -> nth (num - 1) (linspace_q start stop num endpoint) 0%Q = stop) /\
  forall i, S i < num ->
    (nth (S i) (linspace_q start stop num endpoint) 0 - nth i (linspace_q start stop num endpoint) 0 ==
     (stop - start) / inject_Z (Z.of_nat (num - (if endpoint then 1 else 0))))%Q.
Proof.
  intros N. unfold linspace_q. set (denom := num - (if endpoint then 1 else 0)).
  set (step := ((stop - start) / inject_Z (Z.of_nat denom))%Q).
  assert (forall i, i < num -> nth i (map (fun i => if endpoint && (i =? num - 1) then stop
                                            else (inject_Z (Z.of_nat i) * step + start)%Q) (seq 0 num)) 0%Q =
                     (if endpoint && (i =? num - 1) then stop else (inject_Z (Z.of_nat i) * step + start)%Q)) as Nth.
  { intros i Hi. rewrite (nth_map_lt _ _ _ 0) by now rewrite seq_length. now rewrite seq_nth. }
  split; [now rewrite map_length, seq_length|]. split.
  - rewrite Nth by lia. destruct (Nat.eqb_spec 0 (num - 1)); [lia|]. rewrite andb_false_r. cbn. ring.
  - split.
    + intros ->. rewrite Nth by lia. now rewrite Nat.eqb_refl.
    + intros i Hi. rewrite !Nth by lia. destruct (Nat.eqb_spec i (num - 1)); [lia|]. rewrite andb_false_r.
      destruct endpoint; cbn [andb].
      * destruct (Nat.eqb_spec (S i) (num - 1)) as [E|NE].
        -- (* last step: stop - (i * step + start) == step, where (i + 1) * step == stop - start *)
           unfold step, denom. replace (num - 1) with (S i) by lia.
           assert (~ inject_Z (Z.of_nat (S i)) == 0)%Q as NZ by (unfold Qeq, inject_Z; cbn; lia).
           assert (inject_Z (Z.of_nat i) == inject_Z (Z.of_nat (S i)) - 1)%Q as Ei.
           { rewrite Nat2Z.inj_succ. unfold Z.succ. rewrite inject_Z_plus. change (inject_Z 1) with 1%Q. ring. }
           rewrite Ei. field. exact NZ.
        -- rewrite Nat2Z.inj_succ. unfold Z.succ. rewrite inject_Z_plus. unfold step. ring.
      * rewrite Nat2Z.inj_succ. unfold Z.succ. rewrite inject_Z_plus. unfold step. ring.
Qed.

(* solve (C15): when no pivot of the elimination is zero, the matrix the code returns satisfies A X = B exactly.
   The algorithm is the code's: LU with partial pivoting (rows of U, the computed part of L and the row order
   exchanged), the right-hand side permuted by the row order, forward substitution with the strictly lower part of
   L, back substitution with the upper part of U, column by column. *)
From Coq Require Import QArith Qabs Qfield Permutation.
Local Close Scope Q_scope.
From ArrRs Require Import Index Lists_proofs Axis Linsolve Lu_sums Lu_step.

Definition stL (st : qmat * qmat * list nat) : qmat := fst (fst st).
Definition stU (st : qmat * qmat * list nat) : qmat := snd (fst st).
Definition stO (st : qmat * qmat * list nat) : list nat := snd st.

Definition lu_state (a : qmat) (k : nat) : qmat * qmat * list nat :=
  fold_left (lu_step (length a)) (seq 0 k) (identity_q (length a), a, seq 0 (length a)).

Lemma lu_is_state a : lu a = lu_state a (length a).
Proof. reflexivity. Qed.

Lemma lu_state_S a k : lu_state a (S k) = lu_step (length a) (lu_state a k) k.
Proof. unfold lu_state. now rewrite seq_S, fold_left_app. Qed.

Lemma dims_identity n : dims n (identity_q n).
Proof.
  unfold identity_q. split; [now rewrite map_length, seq_length|]. intros r Hr.
  rewrite nth_map_seq0 by exact Hr. now rewrite map_length, seq_length.
Qed.

Lemma lu_state_dims a n : dims n a -> forall k, k <= n ->
  dims n (stL (lu_state a k)) /\ dims n (stU (lu_state a k)) /\ length (stO (lu_state a k)) = n.
Proof.
  intros Da. pose proof Da as (La & _). induction k as [|k IH]; intros Hk.
  - unfold lu_state. cbn [seq fold_left stL stU stO fst snd]. rewrite La. split; [apply dims_identity|]. split; [exact Da | apply seq_length].
  - destruct (IH ltac:(lia)) as (Dl & Du & Lo). rewrite lu_state_S, La. destruct (lu_state a k) as [[l u] o]. cbn [stL stU stO fst snd] in *.
    pose proof (lu_step_frozen n k l u o Dl Du Lo ltac:(lia)) as F. destruct (lu_step n (l, u, o) k) as [[l' u'] o'].
    cbn [stL stU stO fst snd]. destruct F as (A & B & C & _). auto.
Qed.

(* row r of U is final once column r has been processed *)
Lemma lu_state_frozen a n : dims n a -> forall k k', k <= k' -> k' <= n -> forall r, r < k ->
  nth r (stU (lu_state a k')) [] = nth r (stU (lu_state a k)) [].
Proof.
  intros Da k k' Hk. pose proof Da as (La & _). induction Hk as [|k' Hk IH]; intros Hn r Hr; [reflexivity|].
  rewrite <- IH by lia. destruct (lu_state_dims a n Da k' ltac:(lia)) as (Dl & Du & Lo).
  rewrite lu_state_S, La. destruct (lu_state a k') as [[l u] o]. cbn [stL stU stO fst snd] in *.
  pose proof (lu_step_frozen n k' l u o Dl Du Lo ltac:(lia)) as F. destruct (lu_step n (l, u, o) k') as [[l' u'] o'].
  cbn [stU fst snd]. destruct F as (_ & _ & _ & F). apply F. lia.
Qed.

Definition pivots_ok (a : qmat) : Prop := forall j, j < length a -> ~ (qget (stU (lu a)) j j == 0)%Q.

Lemma lu_state_inv a n : dims n a -> pivots_ok a -> forall k, k <= n ->
  Inv a n k (stL (lu_state a k)) (stU (lu_state a k)) (stO (lu_state a k)).
Proof.
  intros Da Pv. pose proof Da as (La & _). induction k as [|k IH]; intros Hk.
  - unfold lu_state. cbn [seq fold_left stL stU stO fst snd]. rewrite La. constructor.
    + apply dims_identity.
    + exact Da.
    + reflexivity.
    + intros r c Hr Hc. rewrite Nat.min_0_r. cbn [qsum]. rewrite seq_nth by exact Hr. cbn [Nat.add]. ring.
    + intros; lia.
  - specialize (IH ltac:(lia)).
    assert (~ (qget (stU (lu_state a (S k))) k k == 0)%Q) as Pk.
    { unfold qget. rewrite <- (lu_state_frozen a n Da (S k) n ltac:(lia) ltac:(lia) k ltac:(lia)).
      specialize (Pv k ltac:(lia)). rewrite lu_is_state, La in Pv. exact Pv. }
    rewrite lu_state_S, La in *. destruct (lu_state a k) as [[l u] o]. cbn [stL stU stO fst snd] in *.
    pose proof (inv_step a n k l u o IH ltac:(lia)) as St. destruct (lu_step n (l, u, o) k) as [[l' u'] o'].
    cbn [stL stU stO fst snd] in *. exact (St Pk).
Qed.

Lemma qsum_scale_r k f n : (qsum (fun t => f t * k) n == qsum f n * k)%Q.
Proof. induction n as [|n IH]; cbn [qsum]; [ring|]. rewrite IH. ring. Qed.

(* ---------- one right-hand-side column ---------- *)
Lemma solve_col a n l u o (bcol : list Q) :
  Inv a n n l u o -> (forall i, i < n -> ~ (qget u i i == 0)%Q) -> length bcol = n ->
  let x := backward u (forward l (map (fun r => nth r bcol 0%Q) o)) in
  length x = n /\ forall i, i < n -> (qsum (fun c => qget a i c * nth c x 0) n == nth i bcol 0)%Q.
Proof.
  intros [(Ll & Rl) (Lu & Ru) Po Pr Ze] Pv Lb. cbn zeta.
  assert (length o = n) as Lo by (rewrite (Permutation_length Po); apply seq_length).
  set (pbc := map (fun r => nth r bcol 0%Q) o).
  assert (length pbc = n) as Lp by (unfold pbc; now rewrite map_length).
  destruct (forward_spec l pbc) as (Ly & Ey); [intros i Hi; rewrite Rl by lia; lia|].
  set (y := forward l pbc) in *. rewrite Lp in *.
  destruct (backward_spec u y) as (Lx & Ex); [intros i Hi; rewrite Ly in *; now apply Ru|].
  set (x := backward u y) in *. rewrite Ly in *. split; [exact Lx|].
  (* U x = y *)
  assert (forall t, t < n -> (qsum (fun c => qget u t c * nth c x 0) n == nth t y 0)%Q) as Ux.
  { intros t Ht. rewrite (qsum_split _ n t Ht).
    rewrite (qsum_zero (fun c => qget u t c * nth c x 0)%Q t) by (intros c Hc; rewrite (Ze t c Ht ltac:(lia) Hc); ring).
    rewrite (Ex t Ht). field. now apply Pv. }
  (* rows in the order of the elimination *)
  assert (forall r, r < n -> (qsum (fun c => qget a (nth r o O) c * nth c x 0) n == nth r pbc 0)%Q) as Rows.
  { intros r Hr.
    rewrite (qsum_ext _ (fun c => qsum (fun t => qget l r t * qget u t c * nth c x 0) r + qget u r c * nth c x 0)%Q n).
    2:{ intros c Hc. rewrite <- (Pr r c Hr Hc). rewrite Nat.min_l by lia. rewrite qsum_scale_r. ring. }
    rewrite qsum_add, qsum_swap, (Ux r Hr).
    rewrite (qsum_ext _ (fun t => qget l r t * nth t y 0)%Q r).
    2:{ intros t Ht. rewrite <- (Ux t ltac:(lia)). rewrite <- qsum_scale. apply qsum_ext. intros; ring. }
    rewrite (Ey r Hr). ring. }
  intros i Hi.
  assert (In i o) as Hin by (apply (Permutation_in _ (Permutation_sym Po)); apply in_seq; lia).
  apply In_nth with (d := O) in Hin as (r & Hr & Er). rewrite Lo in Hr. specialize (Rows r Hr). rewrite Er in Rows.
  rewrite Rows. unfold pbc. rewrite (nth_map_lt _ _ _ O) by lia. now rewrite Er.
Qed.

(* ---------- SOLVE ---------- *)
Theorem solve_correct a b x n k :
  dims n a -> 0 < n -> length b = n -> (forall r, r < n -> length (nth r b []) = k) ->
  pivots_ok a -> solve a b = Ok x ->
  (length x = n /\ forall r, r < n -> length (nth r x []) = k) /\
  forall i j, i < n -> j < k -> (qsum (fun c => qget a i c * qget x c j) n == qget b i j)%Q.
Proof.
  intros Da Hn Lb Rb Pv E. pose proof Da as (La & _).
  unfold solve in E. destruct (qabs_ltb (det a) (1 # 1000000000000)); [discriminate|].
  pose proof (lu_state_inv a n Da Pv n (le_n _)) as I. unfold pivots_ok in Pv. rewrite lu_is_state, La in *.
  destruct (lu_state a n) as [[l u] o]. cbn [stL stU stO fst snd] in *. injection E as <-.
  rewrite (Rb 0 Hn).
  assert (length o = n) as Lo by (rewrite (Permutation_length (inv_perm _ _ _ _ _ _ I)); apply seq_length).
  set (pb := map (fun r => nth r b []) o).
  set (cols := map (fun j => backward u (forward l (column pb j))) (seq 0 k)).
  assert (forall j, j < k -> column pb j = map (fun r => nth r (column b j) 0%Q) o) as Ecol.
  { intros j Hj. unfold column, pb. rewrite map_map. apply map_ext_in. intros r Hr.
    assert (r < n) as Hrn by (apply (Permutation_in _ (inv_perm _ _ _ _ _ _ I)) in Hr; apply in_seq in Hr; lia).
    now rewrite (nth_map_lt _ b r [] 0%Q) by lia. }
  assert (forall j, j < k -> length (nth j cols []) = n /\
            forall i, i < n -> (qsum (fun c => qget a i c * nth c (nth j cols []) 0) n == qget b i j)%Q) as Cj.
  { intros j Hj. unfold cols. rewrite nth_map_seq0 by exact Hj. rewrite (Ecol j Hj).
    destruct (solve_col a n l u o (column b j) I Pv) as (Lx & Ex); [unfold column; now rewrite map_length|].
    split; [exact Lx|]. intros i Hi. rewrite (Ex i Hi). unfold column. now rewrite (nth_map_lt _ b i [] 0%Q) by lia. }
  assert (length cols = k) as Lc by (unfold cols; now rewrite map_length, seq_length).
  split.
  - split; [now rewrite map_length, seq_length|]. intros r Hr. rewrite nth_map_seq0 by exact Hr. now rewrite map_length.
  - intros i j Hi Hj. destruct (Cj j Hj) as (_ & Ex). rewrite <- (Ex i Hi). apply qsum_ext. intros c Hc.
    unfold qget at 2. rewrite nth_map_seq0 by exact Hc. rewrite (nth_map_lt _ cols j [] 0%Q) by lia. reflexivity.
Qed.

(* the executable residual test the correspondence run evaluates is implied *)
Lemma qdot_row a x n i j : length (nth i a []) = n -> length x = n ->
  (qdot (nth i a []) (column x j) == qsum (fun c => qget a i c * qget x c j) n)%Q.
Proof.
  intros La Lx. rewrite qdot_sum. unfold column. rewrite map_length, La, Lx, Nat.min_id. apply qsum_ext. intros c Hc.
  unfold qget. now rewrite (nth_map_lt _ x c [] 0%Q) by lia.
Qed.

Lemma forallb_combine_q : forall x y, length x = length y -> (forall i, i < length x -> (nth i x 0 == nth i y 0)%Q) ->
  forallb (fun p => Qeq_bool (fst p) (snd p)) (combine x y) = true.
Proof.
  induction x as [|a x IH]; intros [|b y] L H; try discriminate; [reflexivity|].
  cbn [length] in L. injection L as L. cbn [combine forallb fst snd]. apply andb_true_intro. split.
  - apply Qeq_bool_iff. apply (H 0). cbn [length]. lia.
  - apply IH; [exact L|]. intros i Hi. apply (H (S i)). cbn [length]. lia.
Qed.

Lemma qlist_eqb_true x y : length x = length y -> (forall i, i < length x -> (nth i x 0 == nth i y 0)%Q) ->
  qlist_eqb x y = true.
Proof. intros L H. unfold qlist_eqb. rewrite L, Nat.eqb_refl. cbn [andb]. now apply forallb_combine_q. Qed.

(* the residual test evaluated on every case of the correspondence run is a consequence *)
Theorem solve_residual a b x n k :
  dims n a -> 0 < n -> length b = n -> (forall r, r < n -> length (nth r b []) = k) ->
  pivots_ok a -> solve a b = Ok x -> residual_ok a x b = true.
Proof.
  intros Da Hn Lb Rb Pv E. destruct (solve_correct a b x n k Da Hn Lb Rb Pv E) as ((Lx & Rx) & Eq).
  pose proof Da as (La & Ra). unfold residual_ok. rewrite (Rb 0 Hn). apply forallb_forall. intros j Hj. apply in_seq in Hj.
  apply qlist_eqb_true.
  - unfold mat_vec_q, column. now rewrite !map_length, La, Lb.
  - intros i Hi. unfold mat_vec_q in *. rewrite map_length, La in Hi. rewrite (nth_map_lt _ a i [] 0%Q) by lia.
    rewrite (qdot_row a x n i j) by (auto). rewrite (Eq i j Hi ltac:(lia)). unfold column, qget.
    now rewrite (nth_map_lt _ b i [] 0%Q) by lia.
Qed.

(* the computable form of the pivot condition (Linsolve.pivots_okb, evaluated on every case of the run) *)
Lemma pivots_okb_ok a : pivots_okb a = true -> pivots_ok a.
Proof.
  unfold pivots_okb, pivots_ok. destruct (lu a) as [[l u] o]. cbn [stU fst snd]. intros H j Hj. rewrite forallb_forall in H.
  specialize (H j ltac:(apply in_seq; lia)). apply Bool.negb_true_iff in H. intros Q. apply Qeq_bool_iff in Q. congruence.
Qed.

(* non-vacuity: a system that needs row exchanges meets every hypothesis *)
Example solve_correct_applies :
  let a := [[2;1;1];[4;3;3];[8;7;9]]%Q in let b := [[1;0];[2;1];[3;5]]%Q in
  dims 3 a /\ pivots_ok a /\ exists x, solve a b = Ok x.
Proof.
  cbn zeta. split; [split; [reflexivity | intros [|[|[|r]]] H; try reflexivity; lia]|].
  split; [apply pivots_okb_ok; vm_compute; reflexivity|]. eexists. vm_compute. reflexivity.
Qed.

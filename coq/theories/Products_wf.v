(* every product operation returns only well-formed arrays (for the C01 program language) *)
From ArrRs Require Import Index Index_proofs Lists_proofs Axis Reshape_proofs Broadcast Broadcast_proofs Split Lift Lift_proofs
  Reduce Linalg Bits.

Section ProductsWf.
Context {T : Type} (zero : T) (add mul : T -> T -> T).

Lemma vdot_wf (a b : arr T) r : vdot zero add mul a b = Ok r -> wf r.
Proof. unfold vdot. intros H. inv_bind H. now apply new_wf in H. Qed.

Lemma matmul_iterate_wf (a b : arr T) r : matmul_iterate zero add mul a b = Ok r -> wf r.
Proof.
  unfold matmul_iterate. destruct (shape a) as [|n [|k [|? ?]]]; try discriminate.
  destruct (shape b) as [|q [|p [|? ?]]]; try discriminate. intros H. inv_bind H. now apply reshape_ok in H as (_ & _ & W).
Qed.

Lemma vec_mat_wf (v m : arr T) r : vec_mat zero add mul v m = Ok r -> wf r.
Proof. unfold vec_mat. destruct (shape m) as [|n [|k [|? ?]]]; try discriminate. apply new_wf. Qed.

Lemma mat_vec_wf (m v : arr T) r : mat_vec zero add mul m v = Ok r -> wf r.
Proof. unfold mat_vec. destruct (shape m) as [|n [|k [|? ?]]]; try discriminate. apply new_wf. Qed.

Lemma matmul22_wf strict (a b : arr T) r : matmul22 zero add mul strict a b = Ok r -> wf r.
Proof. unfold matmul22. intros H. inv_bind H. inv_bind H. now apply matmul_iterate_wf in H. Qed.

Lemma matmul_nd_wf strict (a b : arr T) r : matmul_nd zero add mul strict a b = Ok r -> wf r.
Proof.
  unfold matmul_nd. destruct (_ =? 0); [discriminate|]. intros H. do 4 inv_bind H. now apply reshape_ok in H as (_ & _ & W).
Qed.

Lemma matmul_wf strict (a b : arr T) r : matmul zero add mul strict a b = Ok r -> wf r.
Proof.
  unfold matmul. destruct ((ndim a =? 1) && (ndim b =? 1)); [apply vdot_wf|].
  destruct (ndim a =? 1).
  - destruct (2 <? ndim b); [discriminate|]. intros H. inv_bind H. now apply vec_mat_wf in H.
  - destruct (ndim b =? 1).
    + destruct (2 <? ndim a); [discriminate|]. intros H. inv_bind H. now apply mat_vec_wf in H.
    + destruct ((ndim a =? 2) && (ndim b =? 2)); [apply matmul22_wf|].
      destruct ((ndim a =? 0) || (ndim b =? 0)); [discriminate | apply matmul_nd_wf].
Qed.

Lemma outer_wf (a b : arr T) r : outer mul a b = Ok r -> wf r.
Proof. unfold outer. intros H. inv_bind H. now apply reshape_ok in H as (_ & _ & W). Qed.

Lemma inner_wf (a b : arr T) r : inner zero add mul a b = Ok r -> wf r.
Proof.
  unfold inner. destruct ((ndim a =? 1) && (ndim b =? 1)).
  - intros H. inv_bind H. now apply new_wf in H.
  - destruct ((ndim a =? 0) || (ndim b =? 0)); [discriminate|]. intros H. inv_bind H.
    destruct (_ =? 0); [discriminate|]. inv_bind H. now apply reshape_ok in H as (_ & _ & W).
Qed.

Lemma dot_wf strict (a b : arr T) r : dot zero add mul strict a b = Ok r -> wf r.
Proof.
  unfold dot. destruct ((len a =? 1) || (len b =? 1)); [apply lift2_wf|].
  destruct ((ndim a =? 1) && (ndim b =? 1)); [apply vdot_wf|].
  destruct ((ndim a =? 2) && (ndim b =? 2)); [apply matmul_wf|].
  destruct ((ndim a =? 1) && (ndim b =? 2)).
  - destruct (existsb _ _); [discriminate | apply vec_mat_wf].
  - destruct ((ndim a =? 2) && (ndim b =? 1)); [|discriminate].
    destruct (existsb _ _); [discriminate | apply mat_vec_wf].
Qed.

End ProductsWf.

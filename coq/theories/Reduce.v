(* Reduce.v — apply_along_axis (src/core/operations/axis.rs, as repaired) and the axis-wise reductions and scans
   built on it (math/operations/sum_prod_diff.rs, extrema.rs max/min, core/operations/count.rs) *)
From ArrRs Require Export Index Axis Split Lift.

Section Along.
Context {T U : Type} (dt : T) (du : U).

(* axis.rs apply_along_axis: move the axis last, cut the flat data into lanes, apply f to each lane,
   re-assemble with the lane length of the first result, move the last axis back *)
Definition apply_along_axis (a : arr T) (axis : nat) (f : arr T -> res (arr U)) : res (arr U) :=
  let n := ndim a in
  let* _ := guard (axis <? n) EAxis in
  let parts := prod (remove_nth (shape a) axis) in
  let* moved := moveaxis dt a [Z.of_nat axis] [Z.of_nat (n - 1)] in
  let* flat_moved := ravel moved in
  let* lanes := split_even dt flat_moved parts None in
  let* results := mapM f lanes in
  match results with
  | [] => Panic                                     (* partial[0] *)
  | first :: _ =>
    let partial_len := len first in
    (* every lane result must have the length of the first one (repair F29: results of different lengths whose
       total happened to fit were re-assembled misaligned) *)
    if negb (forallb (fun r => len r =? partial_len) results) then Err EShapeLen else
    let* partial := flat_arr (flat_map (@elems U) results) in
    let new_shape := upd (shape moved) (n - 1) partial_len in
    (* `partial.reshape(..)` is a Result receiver: an error flows through the axis move unchanged *)
    let* reshaped := reshape partial new_shape in
    if axis =? 0 then rollaxis du reshaped (Z.of_nat (n - 1)) None
    else moveaxis du reshaped [Z.of_nat (n - 1)] [Z.of_nat axis]
  end.

End Along.

Section Reductions.
Context {T : Type} (dt : T).

(* reductions: result of apply_along_axis (axis length 1) reshaped without that axis when rank > 1 *)
Definition reduce_axis (g1 : list T -> res T) (a : arr T) (axis : Z) : res (arr T) :=
  let zax := normalize_axis (ndim a) axis in
  let* _ := guard (zax <? Z.of_nat (ndim a))%Z EAxis in
  let ax := Z.to_nat zax in
  let* r := apply_along_axis dt dt a ax (fun lane => let* v := g1 (elems lane) in single v) in
  reshape r (if 1 <? ndim r then remove_nth (shape r) ax else shape r).

Definition reduce (g1 : list T -> res T) (a : arr T) (axis : option Z) : res (arr T) :=
  match axis with
  | Some z => reduce_axis g1 a z
  | None => let* v := g1 (elems a) in single v
  end.

(* the 1-D scan body: ravel, then map with an accumulating closure (shape [len]) *)
Definition scan1 (g : list T -> list T) (a : arr T) : res (arr T) :=
  let* r := ravel a in
  let* f := flat_arr (g (elems r)) in reshape f (shape r).

(* scans keep the shape along an axis; with no axis the result is flat *)
Definition scan (g : list T -> list T) (a : arr T) (axis : option Z) : res (arr T) :=
  match axis with
  | Some z =>
    let zax := normalize_axis (ndim a) z in
    let* _ := guard (zax <? Z.of_nat (ndim a))%Z EAxis in
    apply_along_axis dt dt a (Z.to_nat zax) (scan1 g)
  | None => scan1 g a
  end.

End Reductions.

Section Counting.
Context {T U : Type} (dt : T) (du : U).

(* count.rs count_nonzero / search.rs argmax, argmin share this wrapper (the axis check at entry is the C09 repair):
   g1 maps a lane to a position or a count; an error of g1 (empty lane for argmax) is an error value *)
Definition index_reduce (g1 : list T -> res U) (a : arr T) (axis : option Z) (keepdims : bool) : res (arr U) :=
  match axis with
  | Some z =>
    let zax := normalize_axis (ndim a) z in
    let* _ := guard (zax <? Z.of_nat (ndim a))%Z EAxis in
    let ax := Z.to_nat zax in
    let* r := apply_along_axis dt du a ax (fun lane => let* v := g1 (elems lane) in single v) in
    if keepdims then Ok r else reshape r (remove_nth (shape a) ax)
  | None =>
    let* v := g1 (elems a) in
    let* r := single v in
    if keepdims then atleast r (ndim a) else Ok r
  end.

End Counting.

(* ---------- the 1-D bodies over Z (exact integers; floats are handled through the lane oracle) ---------- *)
Definition z_sum1 (l : list Z) : Z := fold_left Z.add l 0%Z.
Definition z_prod1 (l : list Z) : Z := fold_left Z.mul l 1%Z.
Fixpoint z_scan_from (f : Z -> Z -> Z) (acc : Z) (l : list Z) : list Z :=
  match l with [] => [] | x :: t => f acc x :: z_scan_from f (f acc x) t end.
Definition z_cumsum1 (l : list Z) : list Z := z_scan_from Z.add 0%Z l.
Definition z_cumprod1 (l : list Z) : list Z := z_scan_from Z.mul 1%Z l.
(* extrema.rs max(None): fold from self[0]; an empty array is refused (the C08/C09 repair) *)
Definition z_max1 (l : list Z) : res Z :=
  match l with [] => Err EParam | x :: t => Ok (fold_left (fun a b => if (a <? b)%Z then b else a) l x) end.
Definition z_min1 (l : list Z) : res Z :=
  match l with [] => Err EParam | x :: t => Ok (fold_left (fun a b => if (b <? a)%Z then b else a) l x) end.
Definition z_count_nonzero1 (l : list Z) : res nat := Ok (length (filter (fun x => negb (x =? 0)%Z) l)).

Fixpoint position {A} (p : A -> bool) (l : list A) : option nat :=
  match l with [] => None | x :: t => if p x then Some 0 else option_map S (position p t) end.

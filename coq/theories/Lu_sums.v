(* Finite sums over Q and the specifications of qdot, forward and back substitution (C15). *)
From Coq Require Import QArith Qabs Qfield.
Local Close Scope Q_scope.
From ArrRs Require Import Index Lists_proofs Axis Linsolve.

Lemma qadd_eq x y : (qadd x y == x + y)%Q. Proof. apply Qred_correct. Qed.
Lemma qsub_eq x y : (qsub x y == x - y)%Q. Proof. apply Qred_correct. Qed.
Lemma qmul_eq x y : (qmul x y == x * y)%Q. Proof. apply Qred_correct. Qed.
Lemma qdiv_eq x y : (qdiv x y == x / y)%Q. Proof. apply Qred_correct. Qed.

Fixpoint qsum (f : nat -> Q) (n : nat) : Q :=
  match n with 0 => 0%Q | S k => (qsum f k + f k)%Q end.

Lemma qsum_ext f g n : (forall t, t < n -> (f t == g t)%Q) -> (qsum f n == qsum g n)%Q.
Proof.
  induction n as [|n IH]; intros H; cbn [qsum]; [reflexivity|]. rewrite IH by (intros; apply H; lia).
  rewrite (H n) by lia. reflexivity.
Qed.

Lemma qsum_zero f n : (forall t, t < n -> (f t == 0)%Q) -> (qsum f n == 0)%Q.
Proof.
  induction n as [|n IH]; intros H; cbn [qsum]; [reflexivity|]. rewrite IH by (intros; apply H; lia).
  rewrite (H n) by lia. ring.
Qed.

Lemma qsum_add f g n : (qsum (fun t => f t + g t) n == qsum f n + qsum g n)%Q.
Proof. induction n as [|n IH]; cbn [qsum]; [ring|]. rewrite IH. ring. Qed.

Lemma qsum_scale k f n : (qsum (fun t => k * f t) n == k * qsum f n)%Q.
Proof. induction n as [|n IH]; cbn [qsum]; [ring|]. rewrite IH. ring. Qed.

Lemma qsum_swap (f : nat -> nat -> Q) n m :
  (qsum (fun i => qsum (fun j => f i j) m) n == qsum (fun j => qsum (fun i => f i j) n) m)%Q.
Proof.
  induction n as [|n IH]; cbn [qsum].
  - symmetry. apply qsum_zero. reflexivity.
  - rewrite IH. rewrite <- qsum_add. apply qsum_ext. intros; reflexivity.
Qed.

(* sum up to n split at t *)
Lemma qsum_split f n t : t < n ->
  (qsum f n == qsum f t + f t + qsum (fun c => f (t + 1 + c)%nat) (n - 1 - t)%nat)%Q.
Proof.
  intros H. induction n as [|n IH]; [lia|]. destruct (Nat.eq_dec t n) as [->|N].
  - cbn [qsum]. replace (S n - 1 - n) with 0 by lia. cbn [qsum]. ring.
  - cbn [qsum]. rewrite IH by lia. replace (S n - 1 - t) with (S (n - 1 - t)) by lia. cbn [qsum].
    replace (t + 1 + (n - 1 - t)) with n by lia. ring.
Qed.

(* the dot product the code computes *)
Lemma fold_qadd_acc (l : list Q) acc : (fold_left qadd l acc == acc + fold_left qadd l 0)%Q.
Proof.
  revert acc; induction l as [|x t IH]; intros acc; cbn [fold_left]; [ring|].
  rewrite IH, (IH (qadd 0 x)), !qadd_eq. ring.
Qed.

Lemma qdot_cons a x b y : (qdot (a :: x) (b :: y) == a * b + qdot x y)%Q.
Proof. unfold qdot. cbn [combine map fold_left fst snd]. rewrite fold_qadd_acc, qadd_eq, qmul_eq. ring. Qed.

Lemma qsum_shift f n : (qsum f (S n) == f O + qsum (fun t => f (S t)) n)%Q.
Proof. induction n as [|n IH]; [cbn [qsum]; ring|]. cbn [qsum] in *. rewrite IH. ring. Qed.

Lemma qdot_sum : forall x y, (qdot x y == qsum (fun t => nth t x 0 * nth t y 0) (Nat.min (length x) (length y)))%Q.
Proof.
  induction x as [|a x IH]; intros y; [reflexivity|]. destruct y as [|b y]; [reflexivity|].
  rewrite qdot_cons. cbn [length Nat.min]. rewrite qsum_shift. cbn [nth]. rewrite IH. reflexivity.
Qed.

(* ---------- forward substitution ---------- *)
Definition fwd_step (l : qmat) (b : list Q) (y : list Q) (i : nat) : list Q :=
  y ++ [qsub (nth i b 0%Q) (qdot (firstn i (nth i l [])) y)].

Lemma forward_spec (l : qmat) (b : list Q) :
  (forall i, i < length b -> i <= length (nth i l [])) ->
  length (forward l b) = length b /\
  forall i, i < length b ->
    (nth i (forward l b) 0 == nth i b 0 - qsum (fun t => qget l i t * nth t (forward l b) 0) i)%Q.
Proof.
  intros HL. unfold forward. fold (fwd_step l b).
  assert (forall k, k <= length b ->
            length (fold_left (fwd_step l b) (seq 0 k) []) = k /\
            forall i, i < k -> (nth i (fold_left (fwd_step l b) (seq 0 k) []) 0 ==
              nth i b 0 - qsum (fun t => qget l i t * nth t (fold_left (fwd_step l b) (seq 0 k) []) 0) i)%Q) as G.
  { induction k as [|k IH]; intros Hk; [split; [reflexivity | intros; lia]|].
    destruct (IH ltac:(lia)) as (Lk & Ek). rewrite seq_S, fold_left_app. cbn [fold_left Nat.add].
    set (y := fold_left (fwd_step l b) (seq 0 k) []) in *. unfold fwd_step. split; [rewrite app_length; cbn [length]; lia|].
    intros i Hi. destruct (Nat.eq_dec i k) as [->|N].
    - rewrite app_nth2 by lia. rewrite Lk, Nat.sub_diag. cbn [nth]. rewrite qsub_eq, qdot_sum.
      rewrite firstn_length, Lk. rewrite (Nat.min_l k (length (nth k l []))) by (apply HL; lia). rewrite Nat.min_id.
      apply Qplus_comp; [reflexivity|]. apply Qopp_comp. apply qsum_ext. intros t Ht.
      rewrite nth_firstn_lt by exact Ht. rewrite app_nth1 by lia. reflexivity.
    - rewrite app_nth1 by lia. rewrite (Ek i ltac:(lia)). apply Qplus_comp; [reflexivity|]. apply Qopp_comp.
      apply qsum_ext. intros t Ht. rewrite app_nth1 by lia. reflexivity. }
  apply G. lia.
Qed.

(* ---------- back substitution ---------- *)
Definition bwd_step (u : qmat) (y : list Q) (n : nat) (x : list Q) (k : nat) : list Q :=
  let i := n - 1 - k in
  qdiv (qsub (nth i y 0%Q) (qdot (skipn (i + 1) (nth i u [])) x)) (qget u i i) :: x.

Lemma backward_spec (u : qmat) (y : list Q) :
  (forall i, i < length y -> length (nth i u []) = length y) ->
  length (backward u y) = length y /\
  forall i, i < length y ->
    (nth i (backward u y) 0 ==
      (nth i y 0 - qsum (fun c => qget u i (i + 1 + c)%nat * nth (i + 1 + c)%nat (backward u y) 0) (length y - 1 - i)%nat) / qget u i i)%Q.
Proof.
  intros HL. unfold backward. set (n := length y) in *. fold (bwd_step u y n).
  assert (forall k, k <= n ->
            length (fold_left (bwd_step u y n) (seq 0 k) []) = k /\
            forall i, n - k <= i -> i < n ->
              (nth (i - (n - k))%nat (fold_left (bwd_step u y n) (seq 0 k) []) 0 ==
               (nth i y 0 - qsum (fun c => qget u i (i + 1 + c)%nat *
                                   nth (i + 1 + c - (n - k))%nat (fold_left (bwd_step u y n) (seq 0 k) []) 0) (n - 1 - i)%nat)
               / qget u i i)%Q) as G.
  { induction k as [|k IH]; intros Hk; [split; [reflexivity | intros; lia]|].
    destruct (IH ltac:(lia)) as (Lk & Ek). rewrite seq_S, fold_left_app. cbn [fold_left Nat.add].
    set (x := fold_left (bwd_step u y n) (seq 0 k) []) in *. unfold bwd_step. cbn zeta.
    split; [cbn [length]; lia|]. intros i Hlo Hhi. destruct (Nat.eq_dec i (n - 1 - k)) as [->|N].
    - replace (n - 1 - k - (n - S k)) with 0 by lia. cbn [nth]. rewrite qdiv_eq, qsub_eq, qdot_sum.
      rewrite skipn_length, HL, Lk by lia. replace (Nat.min (n - (n - 1 - k + 1)) k) with k by lia.
      replace (n - 1 - (n - 1 - k)) with k by lia.
      apply Qmult_comp; [|reflexivity]. apply Qplus_comp; [reflexivity|]. apply Qopp_comp. apply qsum_ext. intros c Hc.
      rewrite nth_skipn_add. replace (n - 1 - k + 1 + c - (n - S k)) with (S c) by lia. cbn [nth]. reflexivity.
    - replace (i - (n - S k)) with (S (i - (n - k))) by lia. cbn [nth]. rewrite (Ek i ltac:(lia) Hhi).
      apply Qmult_comp; [|reflexivity]. apply Qplus_comp; [reflexivity|]. apply Qopp_comp. apply qsum_ext. intros c Hc.
      replace (i + 1 + c - (n - S k)) with (S (i + 1 + c - (n - k))) by lia. cbn [nth]. reflexivity. }
  destruct (G n ltac:(lia)) as (Ln & En). split; [exact Ln|]. intros i Hi.
  specialize (En i ltac:(lia) Hi). replace (n - n) with 0 in En by lia. rewrite Nat.sub_0_r in En. rewrite En.
  apply Qmult_comp; [|reflexivity]. apply Qplus_comp; [reflexivity|]. apply Qopp_comp. apply qsum_ext. intros c Hc.
  now rewrite Nat.sub_0_r.
Qed.

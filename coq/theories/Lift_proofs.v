From ArrRs Require Import Index Index_proofs Lists_proofs Axis Axis_proofs Reshape_proofs Broadcast Broadcast_proofs Lift.

Section MapProofs.
Context {T U : Type}.

Lemma map_arr_ok (f : T -> U) (a : arr T) : wf a -> map_arr f a = Ok (mk (map f (elems a)) (shape a)).
Proof.
  intros W. unfold map_arr. rewrite flat_arr_ok. cbn [bind]. apply reshape_iff.
  unfold len. cbn [elems]. rewrite map_length. symmetry. exact W.
Qed.

Lemma map_arr_wf (f : T -> U) (a : arr T) r : map_arr f a = Ok r -> wf r.
Proof. unfold map_arr. intros H. inv_bind H. now apply reshape_ok in H as (_ & _ & ?). Qed.

(* same shape; the element at each position is the function of the input element at that position *)
Theorem map_arr_get (f : T -> U) (d : T) (a : arr T) c :
  wf a -> exists r, map_arr f a = Ok r /\ shape r = shape a /\ get (f d) r c = f (get d a c).
Proof.
  intros W. rewrite (map_arr_ok f a W). eexists. split; [reflexivity|]. split; [reflexivity|].
  unfold get. cbn [elems shape]. apply map_nth.
Qed.

End MapProofs.

Section Lift2Proofs.
Context {T U : Type} (dt : T).

Theorem lift2_spec (f : T -> T -> U) (a b : arr T) :
  wf a -> wf b -> pos_shape (shape a) -> pos_shape (shape b) ->
  is_broadcastable (shape a) (shape b) = Ok tt ->
  exists r fs, lift2 dt f a b = Ok r /\ broadcast_shape (shape a) (shape b) = Ok fs /\ shape r = fs /\ wf r /\
    forall c, in_range fs c ->
      get (f dt dt) r c = f (get dt a (bsrc (shape a) c)) (get dt b (bsrc (shape b) c)).
Proof.
  intros Wa Wb Pa Pb B.
  destruct (broadcast_spec dt dt a b Wa Wb Pa Pb B) as (p & fs & E & Es & Sp & Wp & _ & _ & _ & G).
  unfold lift2. rewrite E. cbn [bind].
  assert (length (map (fun xy => f (fst xy) (snd xy)) (elems p)) = prod (shape p)) as L by (rewrite map_length; exact Wp).
  exists (mk (map (fun xy => f (fst xy) (snd xy)) (elems p)) (shape p)), fs.
  split; [apply new_iff; auto|]. split; [exact Es|]. split; [exact Sp|]. split; [exact L|].
  intros c H. unfold get at 1. cbn [elems shape].
  change (f dt dt) with ((fun xy => f (fst xy) (snd xy)) (dt, dt)). rewrite map_nth.
  specialize (G c H). unfold get at 1 in G. rewrite G. reflexivity.
Qed.

Theorem lift2_refuse (f : T -> T -> U) (a b : arr T) :
  existsb dims_clash (combine (rev (shape a)) (rev (shape b))) = true -> lift2 dt f a b = Err EBroadcast.
Proof. intros H. unfold lift2. now rewrite (broadcast_refuse dt dt a b H). Qed.

Lemma lift2_wf (f : T -> T -> U) (a b : arr T) r : lift2 dt f a b = Ok r -> wf r.
Proof. unfold lift2. intros H. inv_bind H. now apply new_wf in H. Qed.

Lemma is_broadcastable_refl s : pos_shape s -> is_broadcastable s s = Ok tt.
Proof.
  intros P. apply is_broadcastable_stretch; auto. apply stretchable_rev_refl.
Qed.

(* operations that commute on scalars commute on equally shaped arrays *)
Theorem lift2_comm (f : T -> T -> U) (a b : arr T) :
  (forall x y, f x y = f y x) ->
  wf a -> wf b -> pos_shape (shape a) -> shape a = shape b -> lift2 dt f a b = lift2 dt f b a.
Proof.
  intros C Wa Wb Pa S. assert (pos_shape (shape b)) as Pb by now rewrite <- S.
  assert (is_broadcastable (shape a) (shape b) = Ok tt) as B1 by (rewrite <- S; now apply is_broadcastable_refl).
  assert (is_broadcastable (shape b) (shape a) = Ok tt) as B2 by (rewrite <- S; now apply is_broadcastable_refl).
  destruct (lift2_spec f a b Wa Wb Pa Pb B1) as (r1 & fs1 & E1 & F1 & S1 & W1 & G1).
  destruct (lift2_spec f b a Wb Wa Pb Pa B2) as (r2 & fs2 & E2 & F2 & S2 & W2 & G2).
  rewrite E1, E2. f_equal. assert (fs1 = fs2) as <- by (rewrite <- S in F1, F2; congruence).
  apply (array_ext (f dt dt)); auto; [congruence|]. intros c H. rewrite S1 in H.
  rewrite (G1 c H), (G2 c H). apply C.
Qed.

(* the division family refuses a divisor array that contains zero, and only then *)
Theorem guarded_lift2_zero (is_zero : T -> bool) (f : T -> T -> U) (a b : arr T) :
  existsb is_zero (elems b) = true -> guarded_lift2 dt is_zero f a b = Err EParam.
Proof. intros H. unfold guarded_lift2. now rewrite H. Qed.

Theorem guarded_lift2_nonzero (is_zero : T -> bool) (f : T -> T -> U) (a b : arr T) :
  existsb is_zero (elems b) = false -> guarded_lift2 dt is_zero f a b = lift2 dt f a b.
Proof. intros H. unfold guarded_lift2. now rewrite H. Qed.

(* receiver-shaped family: only the argument is stretched *)
Theorem zipop_spec {S : Type} (ds : S) (f : T -> S -> U) (a : arr T) (b : arr S) :
  wf a -> wf b -> is_broadcastable (shape b) (shape a) = Ok tt ->
  stretchable_rev (rev (shape b)) (rev (shape a)) = true ->
  exists r, zipop ds f a b = Ok r /\ shape r = shape a /\ wf r /\
    forall c, in_range (shape a) c -> get (f dt ds) r c = f (get dt a c) (get ds b (bsrc (shape b) c)).
Proof.
  intros Wa Wb B St. destruct (zip_spec dt ds a b Wa Wb B St) as (p & E & Sp & Wp & G).
  unfold zipop. rewrite E. cbn [bind]. rewrite (map_arr_ok _ p Wp).
  eexists. split; [reflexivity|]. cbn [shape elems]. split; [exact Sp|].
  split; [unfold wf; cbn; rewrite map_length; exact Wp|].
  intros c H. unfold get at 1. cbn [elems shape].
  change (f dt ds) with ((fun xy => f (fst xy) (snd xy)) (dt, ds)). rewrite map_nth.
  specialize (G c H). unfold get at 1 in G. rewrite G. reflexivity.
Qed.

Lemma zipop_wf {S : Type} (ds : S) (f : T -> S -> U) (a : arr T) (b : arr S) r : zipop ds f a b = Ok r -> wf r.
Proof. unfold zipop. intros H. inv_bind H. now apply map_arr_wf in H. Qed.

End Lift2Proofs.

(* ---------- closure iteration ---------- *)
Section IterProofs.
Context {T U : Type}.

Lemma run_closure_length {S} (f : S -> nat -> T -> S * U) s i es : length (snd (run_closure f s i es)) = length es.
Proof.
  revert s i; induction es as [|x t IH]; intros s i; cbn [run_closure]; auto.
  destruct (f s i x) as [s' u]. specialize (IH s' (Datatypes.S i)). destruct (run_closure f s' (Datatypes.S i) t). cbn in *. now rewrite IH.
Qed.

(* a logging closure sees each element exactly once, in flat order, with its flat position *)
Theorem run_closure_log (g : nat -> T -> U) (log : list (nat * T)) i es :
  run_closure (fun s k x => (s ++ [(k, x)], g k x)) log i es =
  (log ++ combine (seq i (length es)) es, map (fun kx => g (fst kx) (snd kx)) (combine (seq i (length es)) es)).
Proof.
  revert log i; induction es as [|x t IH]; intros log i; cbn [run_closure length seq combine map].
  - now rewrite app_nil_r.
  - rewrite IH. rewrite <- app_assoc. reflexivity.
Qed.

(* a pure closure: plain map *)
Lemma run_closure_pure {S V} (g : T -> V) (s : S) i es : run_closure (fun s _ x => (s, g x)) s i es = (s, map g es).
Proof. revert i; induction es as [|x t IH]; intros i; cbn; auto. now rewrite IH. Qed.

Theorem map_e_spec {S} (f : S -> nat -> T -> S * U) s0 (a : arr T) :
  wf a ->
  map_e f s0 a = (fst (run_closure f s0 0 (elems a)),
                  Ok (mk (snd (run_closure f s0 0 (elems a))) (shape a))).
Proof.
  intros W. unfold map_e. pose proof (run_closure_length f s0 0 (elems a)) as L.
  destruct (run_closure f s0 0 (elems a)) as [s us]. cbn [fst snd] in *.
  rewrite flat_arr_ok. cbn [bind]. rewrite reshape_iff by (unfold len; cbn; rewrite L; symmetry; exact W). reflexivity.
Qed.

Lemma select_map_filter (p : T -> bool) l : select (map p l) l = filter p l.
Proof. induction l as [|x t IH]; cbn; auto. destruct (p x); now rewrite IH. Qed.

(* filtering returns the accepted elements as a flat array in their original order *)
Theorem filter_pure_spec {S} (p : T -> bool) (s0 : S) (a : arr T) :
  filter_e (fun s _ x => (s, p x)) s0 a = (s0, Ok (mk (filter p (elems a)) [length (filter p (elems a))])).
Proof.
  unfold filter_e. rewrite run_closure_pure, select_map_filter, flat_arr_ok. cbn [bind]. now rewrite ravel_ok.
Qed.

(* folding combines elements left to right *)
Theorem fold_arr_spec (f : U -> T -> U) init (a : arr T) : fold_arr f init a = fold_left f (elems a) init.
Proof. reflexivity. Qed.

End IterProofs.

(* ---------- operator overloads ---------- *)
Section OpsProofs.
Context {T : Type}.

Lemma map2_length (f : T -> T -> T) l1 l2 : length l1 = length l2 -> length (map2 f l1 l2) = length l1.
Proof. intros H. unfold map2. rewrite map_length, combine_length. lia. Qed.

Lemma nat_list_eqb_refl l : nat_list_eqb l l = true.
Proof. now apply nat_list_eqb_spec. Qed.

Theorem binop_ok (f : T -> T -> T) (a b : arr T) :
  wf a -> wf b -> shape a = shape b ->
  binop f a b = Ok (mk (map2 f (elems a) (elems b)) (shape a)) /\
  wf (mk (map2 f (elems a) (elems b)) (shape a)).
Proof.
  intros Wa Wb S. unfold binop. rewrite S, nat_list_eqb_refl.
  assert (length (map2 f (elems a) (elems b)) = prod (shape b)) as L.
  { rewrite map2_length; unfold wf in *; congruence. }
  split.
  - replace (new _ _) with (Ok (mk (map2 f (elems a) (elems b)) (shape b))); [reflexivity|].
    symmetry. apply new_iff. auto.
  - unfold wf. cbn. exact L.
Qed.

(* differently shaped operands are rejected (the operator panics), never combined *)
Theorem binop_reject (f : T -> T -> T) (a b : arr T) : shape a <> shape b -> binop f a b = Panic.
Proof.
  intros N. unfold binop. destruct (nat_list_eqb _ _) eqn:E; [apply nat_list_eqb_spec in E; contradiction | reflexivity].
Qed.

Theorem binop_get (f : T -> T -> T) (d : T) (a b : arr T) c :
  wf a -> wf b -> shape a = shape b -> in_range (shape a) c ->
  get (f d d) (mk (map2 f (elems a) (elems b)) (shape a)) c = f (get d a c) (get d b c).
Proof.
  intros Wa Wb S H. unfold get, map2. cbn [elems shape].
  change (f d d) with ((fun xy => f (fst xy) (snd xy)) (d, d)). rewrite map_nth, combine_nth.
  - cbn [fst snd]. now rewrite S.
  - unfold wf in *. congruence.
Qed.

Theorem binop_scalar_ok (f : T -> T -> T) (a : arr T) s :
  wf a -> binop_scalar f a s = Ok (mk (map (fun x => f x s) (elems a)) (shape a)).
Proof.
  intros W. unfold binop_scalar. rewrite map_arr_ok by auto. cbn [bind]. apply reshape_iff.
  unfold len. cbn. rewrite map_length. symmetry. exact W.
Qed.

(* each compound-assignment form leaves the receiver equal to what the plain operator returns *)
Theorem binop_assign_eq (f : T -> T -> T) (a b : arr T) :
  wf a -> wf b -> shape a = shape b -> binop_assign f a b = binop f a b.
Proof.
  intros Wa Wb S. destruct (binop_ok f a b Wa Wb S) as [-> _]. unfold binop_assign.
  rewrite S, nat_list_eqb_refl. rewrite skipn_all2, app_nil_r; [reflexivity|]. unfold wf in *. rewrite Wa, Wb, S. lia.
Qed.

Theorem binop_assign_scalar_eq (f : T -> T -> T) (a : arr T) s :
  wf a -> Ok (binop_assign_scalar f a s) = binop_scalar f a s.
Proof. intros W. now rewrite binop_scalar_ok. Qed.

Theorem unop_ok (g : T -> T) (a : arr T) : wf a -> unop g a = Ok (mk (map g (elems a)) (shape a)).
Proof.
  intros W. unfold unop. replace (new _ _) with (Ok (mk (map g (elems a)) (shape a))); [reflexivity|].
  symmetry. apply new_iff. split; [rewrite map_length; exact W | reflexivity].
Qed.

Theorem bitop_ok (f : T -> T -> T) (a b : arr T) :
  wf a -> wf b -> shape a = shape b ->
  bitop f a b = Ok (mk (map2 f (elems a) (elems b)) (shape a)) /\ wf (mk (map2 f (elems a) (elems b)) (shape a)).
Proof.
  intros Wa Wb S. unfold bitop. rewrite S, nat_list_eqb_refl. split; [reflexivity|].
  unfold wf in *. cbn. rewrite map2_length; congruence.
Qed.

Theorem bitop_reject (f : T -> T -> T) (a b : arr T) : shape a <> shape b -> bitop f a b = Panic.
Proof.
  intros N. unfold bitop. destruct (nat_list_eqb _ _) eqn:E; [apply nat_list_eqb_spec in E; contradiction | reflexivity].
Qed.

(* two equally shaped arrays compare equal exactly when all their elements do *)
Theorem arr_eq_spec (eqb : T -> T -> bool) (a b : arr T) :
  (forall x y, eqb x y = true <-> x = y) -> wf a -> wf b -> shape a = shape b ->
  (arr_eq eqb a b = Ok true <-> elems a = elems b).
Proof.
  intros R Wa Wb S. unfold arr_eq. rewrite S, nat_list_eqb_refl.
  assert (length (elems a) = length (elems b)) as L by (unfold wf in *; congruence).
  revert L. generalize (elems a) (elems b). intros l1; induction l1 as [|x t IH]; intros [|y t2] L; cbn in *; try discriminate.
  - split; auto.
  - injection L as L. specialize (IH t2 L). destruct (eqb x y) eqn:E; cbn [andb].
    + apply R in E. subst. split.
      * intros H. f_equal. apply IH. exact H.
      * intros [= H]. apply IH. exact H.
    + split; [discriminate|]. intros [= -> _]. assert (eqb y y = true) by now apply R. congruence.
Qed.

Theorem arr_eq_reject (eqb : T -> T -> bool) (a b : arr T) : shape a <> shape b -> arr_eq eqb a b = Panic.
Proof.
  intros N. unfold arr_eq. destruct (nat_list_eqb _ _) eqn:E; [apply nat_list_eqb_spec in E; contradiction | reflexivity].
Qed.

(* ordered lexicographically by the flat element sequence: the verdict is that of the first position where the
   element comparison is not Eq *)
Theorem lex_cmp_spec (cmp : T -> T -> option comparison) l1 l2 pre x y t1 t2 :
  l1 = pre ++ x :: t1 -> l2 = pre ++ y :: t2 -> (forall z, In z pre -> cmp z z = Some Eq) -> cmp x y <> Some Eq ->
  lex_cmp cmp l1 l2 = cmp x y.
Proof.
  intros -> -> P N. induction pre as [|z pre IH]; cbn [app lex_cmp].
  - destruct (cmp x y) as [[]|]; auto. contradiction.
  - rewrite (P z) by now left. apply IH. intros w Hw. apply P. now right.
Qed.

Theorem lex_cmp_eq (cmp : T -> T -> option comparison) l : (forall z, In z l -> cmp z z = Some Eq) -> lex_cmp cmp l l = Some Eq.
Proof.
  induction l as [|z l IH]; intros P; cbn [lex_cmp]; auto. rewrite (P z) by now left. apply IH. intros w Hw. apply P. now right.
Qed.

End OpsProofs.

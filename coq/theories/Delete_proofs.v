(* delete keeps every element whose position is not listed, in the original order — flat and along an axis (C13) *)
From ArrRs Require Import Index Index_proofs Lists_proofs Axis Axis_proofs Reshape_proofs Broadcast_proofs Split Lift Reduce
  Along_proofs Sort Edit Edit_proofs.
From Coq Require Import Permutation Sorted.

(* ---------- the specification: keep the elements at the positions not in ks ---------- *)
Fixpoint keep_from {A} (k : nat) (l : list A) (ks : list nat) : list A :=
  match l with
  | [] => []
  | x :: t => if existsb (Nat.eqb k) ks then keep_from (S k) t ks else x :: keep_from (S k) t ks
  end.
Definition keep {A} (l : list A) (ks : list nat) : list A := keep_from 0 l ks.

Lemma keep_from_app {A} k (l1 l2 : list A) ks :
  keep_from k (l1 ++ l2) ks = keep_from k l1 ks ++ keep_from (k + length l1) l2 ks.
Proof.
  revert k; induction l1 as [|x t IH]; intros k; cbn [app keep_from length].
  - now rewrite Nat.add_0_r.
  - rewrite IH. replace (S k + length t) with (k + S (length t)) by lia. destruct (existsb _ _); reflexivity.
Qed.

Lemma keep_from_none {A} k (l : list A) ks : (forall j, In j ks -> j < k) -> keep_from k l ks = l.
Proof.
  revert k; induction l as [|x t IH]; intros k H; cbn [keep_from]; [reflexivity|].
  assert (existsb (Nat.eqb k) ks = false) as ->.
  { apply not_true_is_false. intros E. apply existsb_exists in E as (j & Hj & Ej). apply Nat.eqb_eq in Ej. subst j.
    specialize (H k Hj). lia. }
  f_equal. apply IH. intros j Hj. specialize (H j Hj). lia.
Qed.

Lemma keep_from_ext {A} k (l : list A) ks ks' :
  (forall j, k <= j < k + length l -> (In j ks <-> In j ks')) -> keep_from k l ks = keep_from k l ks'.
Proof.
  revert k; induction l as [|x t IH]; intros k H; cbn [keep_from]; [reflexivity|].
  assert (existsb (Nat.eqb k) ks = existsb (Nat.eqb k) ks') as ->.
  { apply eq_true_iff_eq. rewrite !existsb_exists. split; intros (j & Hj & Ej); apply Nat.eqb_eq in Ej; subst j;
      exists k; (split; [|apply Nat.eqb_refl]); apply (H k); cbn [length]; try lia; auto. }
  rewrite (IH (S k)); [reflexivity|]. intros j Hj. apply H. cbn [length]. lia.
Qed.

Lemma keep_length {A} (l : list A) ks k : NoDup ks -> (forall j, In j ks -> k <= j < k + length l) ->
  length (keep_from k l ks) = length l - length ks.
Proof.
  revert k ks; induction l as [|x t IH]; intros k ks ND H; cbn [keep_from length].
  - destruct ks as [|j ks']; [reflexivity|]. specialize (H j ltac:(now left)). cbn in H. lia.
  - destruct (existsb (Nat.eqb k) ks) eqn:E.
    + apply existsb_exists in E as (j & Hj & Ej). apply Nat.eqb_eq in Ej. subst j.
      (* remove k from ks *)
      destruct (in_split _ _ Hj) as (S1 & S2 & ->).
      rewrite (keep_from_ext (S k) t (S1 ++ k :: S2) (S1 ++ S2)).
      * rewrite IH.
        -- rewrite !app_length. cbn [length]. lia.
        -- apply NoDup_remove_1 in ND. exact ND.
        -- intros j Hj'. assert (In j (S1 ++ k :: S2)) as Hin by (apply in_app_iff in Hj' as [?|?]; apply in_app_iff; [left | right; right]; auto).
           specialize (H j Hin). cbn [length] in H. apply NoDup_remove_2 in ND.
           assert (j <> k) by (intros ->; contradiction). lia.
      * intros j Hj'. rewrite !in_app_iff. cbn [In]. split; [intros [?|[?|?]]; auto; lia | intros [?|?]; auto].
    + cbn [length]. rewrite IH; auto.
      * assert (length ks <= length t); [|lia].
        (* all members lie in (k, k + length t], an interval of length t many numbers *)
        assert (incl ks (seq (S k) (length t))) as I.
        { intros j Hj. apply in_seq. specialize (H j Hj). cbn [length] in H.
          assert (j <> k); [|lia]. intros ->. apply not_true_iff_false in E. apply E. apply existsb_exists. exists k. split; [auto | apply Nat.eqb_refl]. }
        pose proof (NoDup_incl_length ND I) as Q. now rewrite seq_length in Q.
      * intros j Hj. specialize (H j Hj). cbn [length] in H.
        assert (j <> k); [|lia]. intros ->. apply not_true_iff_false in E. apply E. apply existsb_exists. exists k. split; [auto | apply Nat.eqb_refl].
Qed.

(* ---------- removing strictly descending positions one after the other ---------- *)
Lemma remove_nth_app_r {A} (l1 l2 : list A) i : i < length l1 -> remove_nth (l1 ++ l2) i = remove_nth l1 i ++ l2.
Proof. revert i; induction l1 as [|x t IH]; intros [|i] H; cbn in *; try lia; auto. f_equal. apply IH. lia. Qed.

Lemma remove_nth_middle {A} (l1 : list A) x l2 : remove_nth (l1 ++ x :: l2) (length l1) = l1 ++ l2.
Proof. induction l1 as [|y t IH]; cbn; auto. now rewrite IH. Qed.

Lemma fold_remove_app {A} (idx : list nat) (l1 l2 : list A) :
  StronglySorted gt idx -> Forall (fun i => i < length l1) idx ->
  fold_left (fun es i => remove_nth es i) idx (l1 ++ l2) = fold_left (fun es i => remove_nth es i) idx l1 ++ l2.
Proof.
  revert l1; induction idx as [|i idx IH]; intros l1 SS F; cbn [fold_left]; [reflexivity|].
  inversion SS as [|? ? SS' G]; inversion F as [|? ? Hi F']; subst.
  rewrite remove_nth_app_r by exact Hi. apply IH; [exact SS'|].
  rewrite Forall_forall in *. intros j Hj. specialize (G j Hj). rewrite remove_nth_length by exact Hi. lia.
Qed.

Theorem fold_remove_keep {A} (idx : list nat) (l : list A) :
  StronglySorted gt idx -> Forall (fun i => i < length l) idx ->
  fold_left (fun es i => remove_nth es i) idx l = keep l idx.
Proof.
  revert l; induction idx as [|i idx IH]; intros l SS F; cbn [fold_left].
  - unfold keep. symmetry. apply keep_from_none. intros j [].
  - inversion SS as [|? ? SS' G]; inversion F as [|? ? Hi F']; subst.
    (* split l at position i *)
    rewrite <- (firstn_skipn i l) at 1 2. destruct (skipn i l) as [|x l2] eqn:Sk.
    { pose proof (skipn_length i l) as Q. rewrite Sk in Q. cbn in Q. lia. }
    assert (length (firstn i l) = i) as Li by (rewrite firstn_length; lia).
    rewrite <- Li at 2. rewrite remove_nth_middle.
    assert (Forall (fun j => j < length (firstn i l)) idx) as F1.
    { rewrite Li. rewrite Forall_forall in *. intros j Hj. apply (G j Hj). }
    rewrite fold_remove_app by auto. rewrite IH by auto.
    unfold keep. rewrite keep_from_app. cbn [Nat.add]. rewrite Li. cbn [keep_from].
    assert (existsb (Nat.eqb i) (i :: idx) = true) as -> by (cbn; now rewrite Nat.eqb_refl).
    f_equal.
    + apply keep_from_ext. intros j Hj. rewrite Li in Hj. cbn [In]. split; [auto | intros [?|?]; [lia | auto]].
    + symmetry. apply keep_from_none. intros j [<-|Hj]; [lia|]. rewrite Forall_forall in G. specialize (G j Hj). lia.
Qed.

(* ---------- the index list delete works with: strictly descending, same members ---------- *)
Lemma insert_stable_nat x l : StronglySorted le l ->
  StronglySorted le (insert_stable Nat.ltb x l) /\ (forall y, In y (insert_stable Nat.ltb x l) <-> y = x \/ In y l).
Proof.
  induction l as [|h t IH]; intros SS; cbn [insert_stable].
  - split; [repeat constructor | intros y; cbn; intuition].
  - inversion SS as [|? ? SS' F]; subst. destruct (Nat.ltb_spec x h) as [L|L].
    + split; [|intros y; cbn; intuition]. constructor; [exact SS|]. constructor; [lia|].
      rewrite Forall_forall in *. intros z Hz. specialize (F z Hz). lia.
    + destruct (IH SS') as (S1 & M1). split.
      * constructor; [exact S1|]. rewrite Forall_forall in *. intros z Hz. apply M1 in Hz as [->|Hz]; [lia | auto].
      * intros y. cbn [In]. rewrite M1. intuition.
Qed.

Lemma std_sort_nat l : StronglySorted le (std_sort Nat.ltb l) /\ (forall y, In y (std_sort Nat.ltb l) <-> In y l).
Proof.
  unfold std_sort.
  assert (forall acc, StronglySorted le acc ->
            StronglySorted le (fold_left (fun acc x => insert_stable Nat.ltb x acc) l acc) /\
            (forall y, In y (fold_left (fun acc x => insert_stable Nat.ltb x acc) l acc) <-> In y l \/ In y acc)) as G.
  { induction l as [|x t IH]; intros acc SS; cbn [fold_left]; [split; [exact SS | intros; cbn; intuition]|].
    destruct (insert_stable_nat x acc SS) as (S1 & M1). destruct (IH _ S1) as (S2 & M2). split; [exact S2|].
    intros y. rewrite M2, M1. cbn [In]. intuition. }
  destruct (G [] ltac:(constructor)) as (S1 & M1). split; [exact S1|]. intros y. rewrite M1. cbn. intuition.
Qed.

Lemma dedup_nat_spec l : StronglySorted le l ->
  StronglySorted lt (dedup_nat l) /\ (forall y, In y (dedup_nat l) <-> In y l).
Proof.
  induction l as [|x t IH]; intros SS; [split; [constructor | reflexivity]|].
  inversion SS as [|? ? SS' F]; subst. destruct (IH SS') as (S1 & M1).
  destruct t as [|y t']; [split; [repeat constructor | reflexivity]|].
  change (dedup_nat (x :: y :: t')) with (if x =? y then dedup_nat (y :: t') else x :: dedup_nat (y :: t')).
  destruct (Nat.eqb_spec x y) as [->|Ne].
  - split; [exact S1|]. intros z. rewrite M1. cbn [In]. intuition.
  - split.
    + constructor; [exact S1|]. rewrite Forall_forall in *. intros z Hz. apply M1 in Hz.
      inversion SS' as [|? ? _ F']; subst. rewrite Forall_forall in F'.
      assert (x <= y) by (apply F; now left).
      destruct Hz as [<-|Hz]; [lia|]. specialize (F' z Hz). lia.
    + intros z. cbn [In]. rewrite M1. cbn [In]. reflexivity.
Qed.

Lemma SS_snoc {A} (R : A -> A -> Prop) l x : StronglySorted R l -> Forall (fun y => R y x) l -> StronglySorted R (l ++ [x]).
Proof.
  induction l as [|h t IH]; intros SS F; cbn [app]; [repeat constructor|].
  inversion SS; inversion F; subst. constructor; [now apply IH|]. apply Forall_app. split; [assumption | now constructor].
Qed.

Lemma SS_rev {A} (R : A -> A -> Prop) l : StronglySorted R l -> StronglySorted (fun x y => R y x) (rev l).
Proof.
  induction l as [|h t IH]; intros SS; cbn [rev]; [constructor|]. inversion SS; subst.
  apply SS_snoc; [now apply IH|]. apply Forall_rev. assumption.
Qed.

Theorem prepare_indices_spec idx :
  StronglySorted gt (prepare_indices idx) /\ (forall y, In y (prepare_indices idx) <-> In y idx).
Proof.
  unfold prepare_indices. destruct (std_sort_nat idx) as (S1 & M1). destruct (dedup_nat_spec _ S1) as (S2 & M2). split.
  - apply (SS_rev lt). exact S2.
  - intros y. rewrite <- in_rev, M2, M1. reflexivity.
Qed.

Lemma prepare_NoDup idx : NoDup (prepare_indices idx).
Proof.
  destruct (prepare_indices_spec idx) as (SS & _). induction SS as [|x l SS IH F]; constructor; auto.
  intros Hin. rewrite Forall_forall in F. specialize (F x Hin). lia.
Qed.

(* ---------- delete ---------- *)
Section Delete.
Context {T : Type} (d : T).

Lemma delete1_keep (a : arr T) idx : (forall i, In i idx -> i < len a) ->
  delete1 (prepare_indices idx) a = flat_arr (keep (elems a) idx).
Proof.
  intros H. destruct (prepare_indices_spec idx) as (SS & M). unfold delete1.
  assert (existsb (fun i => len a <=? i) (prepare_indices idx) = false) as ->.
  { apply not_true_is_false. intros E. apply existsb_exists in E as (i & Hi & Ei). apply Nat.leb_le in Ei.
    apply M in Hi. specialize (H i Hi). lia. }
  rewrite fold_remove_keep; [|exact SS|].
  - f_equal. unfold keep. apply keep_from_ext. intros j _. apply M.
  - apply Forall_forall. intros i Hi. apply M in Hi. apply (H i Hi).
Qed.

(* flat form: the elements at the positions not listed, in their original order *)
Theorem delete_flat_spec (a : arr T) idx : (forall i, In i idx -> i < len a) ->
  delete d a idx None = Ok (mk (keep (elems a) idx) [length (keep (elems a) idx)]) /\
  length (keep (elems a) idx) = len a - length (prepare_indices idx).
Proof.
  intros H. split.
  - unfold delete. rewrite delete1_keep by exact H. apply flat_arr_ok.
  - destruct (prepare_indices_spec idx) as (_ & M). unfold keep.
    rewrite (keep_from_ext 0 (elems a) idx (prepare_indices idx)) by (intros j _; symmetry; apply M).
    apply keep_length; [apply prepare_NoDup|]. intros j Hj. apply M in Hj. specialize (H j Hj). unfold len in H. lia.
Qed.

(* an index at or beyond the length is refused, whatever else the list holds *)
Theorem delete_flat_oob (a : arr T) idx i : In i idx -> len a <= i -> delete d a idx None = Err EOob.
Proof.
  intros Hi L. unfold delete. apply delete1_oob. apply existsb_exists. exists i. split; [|now apply Nat.leb_le].
  now apply (prepare_indices_spec idx).
Qed.

(* along an axis: every lane loses exactly the listed positions, all other elements keep their order *)
Theorem delete_axis_spec (a : arr T) idx ax :
  wf a -> pos_shape (shape a) -> ax < ndim a -> (Z.of_nat (ndim a) < two64)%Z ->
  (forall i, In i idx -> i < nth ax (shape a) 0) ->
  exists R, delete d a idx (Some ax) = Ok R /\ wf R /\
    shape R = upd (shape a) ax (nth ax (shape a) 0 - length (prepare_indices idx)) /\
    forall c, in_range (shape R) c ->
      get d R c = nth (nth ax c 0) (keep (elems (lane d a ax (remove_nth c ax))) idx) d.
Proof.
  intros W P H B Hi. unfold delete.
  apply (along_flat_spec d d a ax (delete1 (prepare_indices idx)) (fun l => keep l idx)); auto.
  - intros ln Wl Sl. apply delete1_keep. intros i Hin. unfold len. rewrite Wl, Sl. cbn. specialize (Hi i Hin). lia.
  - intros l Hl. destruct (prepare_indices_spec idx) as (_ & M). unfold keep.
    rewrite (keep_from_ext 0 l idx (prepare_indices idx)) by (intros j _; symmetry; apply M).
    rewrite keep_length; [lia | apply prepare_NoDup|]. intros j Hj. apply M in Hj. specialize (Hi j Hj). lia.
Qed.

End Delete.

From ArrRs Require Import Index Index_proofs Lists_proofs Axis Axis_proofs Reshape_proofs Prog_proofs Broadcast Broadcast_proofs Split Reduce_proofs Reorder.

(* ---------- Vec::rotate_right modulo the length ---------- *)
Section Rotate.
Context {A : Type} (d : A).

Lemma rotate_length (l : list A) s : length (rotate l s) = length l.
Proof.
  unfold rotate. destruct l as [|x t]; [reflexivity|]. set (l := x :: t). set (n := length l).
  rewrite app_length, skipn_length, firstn_length. fold n.
  assert (Z.to_nat (s mod Z.of_nat n) < n).
  { pose proof (Z.mod_pos_bound s (Z.of_nat n)). unfold n, l in *. cbn [length] in *. lia. }
  lia.
Qed.

(* rolling by any integer shift sends index i to (i + shift) modulo n *)
Theorem rotate_spec (l : list A) s i : i < length l ->
  nth (Z.to_nat ((Z.of_nat i + s) mod Z.of_nat (length l))) (rotate l s) d = nth i l d.
Proof.
  intros Hi. unfold rotate. destruct l as [|x t]; [cbn in Hi; lia|]. set (l := x :: t) in *. set (n := length l) in *.
  assert (0 < Z.of_nat n)%Z as Hn by lia.
  set (k := Z.to_nat (s mod Z.of_nat n)).
  assert (k < n) as Hk by (unfold k; pose proof (Z.mod_pos_bound s (Z.of_nat n) Hn); lia).
  assert ((Z.of_nat i + s) mod Z.of_nat n = (Z.of_nat i + Z.of_nat k) mod Z.of_nat n)%Z as E.
  { unfold k. rewrite Z2Nat.id by (apply Z.mod_pos_bound; lia). now rewrite Zplus_mod_idemp_r. }
  rewrite E. clear E.
  assert (length (skipn (n - k) l) = k) as Ls by (rewrite skipn_length; fold n; lia).
  destruct (Nat.lt_ge_cases (i + k) n) as [C|C].
  - rewrite Z.mod_small by lia. replace (Z.to_nat (Z.of_nat i + Z.of_nat k)) with (i + k) by lia.
    rewrite app_nth2 by lia. rewrite Ls. replace (i + k - k) with i by lia.
    apply nth_firstn_lt. lia.
  - replace ((Z.of_nat i + Z.of_nat k) mod Z.of_nat n)%Z with (Z.of_nat (i + k - n)).
    + rewrite Nat2Z.id. rewrite app_nth1 by lia. rewrite nth_skipn_add. f_equal. lia.
    + symmetry. rewrite <- (Z.mod_add _ (-1)) by lia. rewrite Z.mod_small by lia. lia.
Qed.

End Rotate.

Section ReorderProofs.
Context {T : Type} (dflt : T).

(* flipping with no axis reverses the flattened order *)
Theorem flip_none (a : arr T) : wf a -> flip dflt a None = Ok (mk (rev (elems a)) (shape a)).
Proof. intros W. unfold flip. apply new_iff. split; [now rewrite rev_length | reflexivity]. Qed.

(* an axis outside the rank is an error value *)
Theorem flip_axis_err (a : arr T) z l1 l2 :
  (Z.of_nat (ndim a) < 9223372036854775808)%Z -> isize_ok z -> ~ axis_ok (ndim a) z ->
  flip dflt a (Some (l1 ++ z :: l2)) = Err EAxis.
Proof.
  intros B I H. unfold flip.
  assert (forallb (fun ax => (ax <? Z.of_nat (ndim a))%Z) (map (normalize_axis (ndim a)) (l1 ++ z :: l2)) = false) as ->; [|reflexivity].
  rewrite map_app, forallb_app. cbn [map forallb].
  pose proof (axis_in_bounds_err (ndim a) z B I H) as E. unfold axis_in_bounds in E.
  destruct (normalize_axis (ndim a) z <? Z.of_nat (ndim a))%Z; [discriminate|]. cbn. now rewrite andb_false_r.
Qed.

Lemma flip_wf (a : arr T) axes r : flip dflt a axes = Ok r -> wf r.
Proof.
  unfold flip. destruct axes as [l|]; [|apply new_wf]. intros H. do 3 inv_bind H.
  now apply reshape_ok in H as (_ & _ & ?).
Qed.

Lemma roll_wf (a : arr T) shift axes r : roll dflt a shift axes = Ok r -> wf r.
Proof.
  unfold roll. intros H. do 5 inv_bind H. destruct (1 <? ndim x3); [discriminate|].
  destruct (ndim x) as [|[|n]].
  - now apply new_wf in H.
  - inv_bind H. now apply reshape_ok in H as (_ & _ & ?).
  - inv_bind H. now apply new_wf in H.
Qed.

Lemma rot90_wf (a : arr T) k axes r : wf a -> rot90 dflt a k axes = Ok r -> wf r.
Proof.
  intros W. unfold rot90. destruct (ndim a <? 2); [discriminate|]. destruct axes as [|p [|q [|? ?]]]; try discriminate.
  destruct (_ || _)%bool; [discriminate|]. destruct (k mod 4) as [|[|[|k']]]; intros H.
  - now injection H as <-.
  - inv_bind H. now apply transpose_wf in H.
  - inv_bind H. now apply flip_wf in H.
  - cbn [Nat.eqb] in H. inv_bind H. now apply flip_wf in H.
Qed.

(* rotations by a multiple of four quarter turns return the array itself; the plane must be two axes of the rank *)
Theorem rot90_zero (a : arr T) k p q :
  2 <= ndim a -> (- Z.of_nat (ndim a) <= p < Z.of_nat (ndim a))%Z -> (- Z.of_nat (ndim a) <= q < Z.of_nat (ndim a))%Z ->
  k mod 4 = 0 -> rot90 dflt a k [p; q] = Ok a.
Proof.
  intros N Hp Hq K. unfold rot90. destruct (Nat.ltb_spec (ndim a) 2); [lia|].
  destruct (Z.leb_spec (Z.of_nat (ndim a)) p), (Z.ltb_spec p (- Z.of_nat (ndim a))),
    (Z.leb_spec (Z.of_nat (ndim a)) q), (Z.ltb_spec q (- Z.of_nat (ndim a))); try lia. cbn [orb]. now rewrite K.
Qed.

Theorem rot90_guards (a : arr T) k axes :
  (ndim a < 2 -> rot90 dflt a k axes = Err EUnsupDim) /\
  (2 <= ndim a -> length axes <> 2 -> rot90 dflt a k axes = Err EParam).
Proof.
  unfold rot90. split.
  - intros H. destruct (Nat.ltb_spec (ndim a) 2); [reflexivity | lia].
  - intros H L. destruct (Nat.ltb_spec (ndim a) 2); [lia|].
    destruct axes as [|p [|q [|? ?]]]; cbn in L; try reflexivity. lia.
Qed.

End ReorderProofs.

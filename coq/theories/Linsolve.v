(* Linsolve.v — src/linalg/operations/solving_inverting.rs solve (LU with partial pivoting, right-hand side
   permuted as repaired, forward and back substitution) and norms.rs det (2x2 closed form, cofactor expansion along
   the first column), over exact rationals Q *)
From Coq Require Import QArith Qabs.
Local Close Scope Q_scope.
From ArrRs Require Export Index Axis.

Definition qmat := list (list Q).

(* arithmetic with reduced fractions (keeps the evaluator's numbers small; Qred x == x) *)
Definition qadd (x y : Q) : Q := Qred (x + y).
Definition qsub (x y : Q) : Q := Qred (x - y).
Definition qmul (x y : Q) : Q := Qred (x * y).
Definition qdiv (x y : Q) : Q := Qred (x / y).
Definition qget (m : qmat) (i j : nat) : Q := nth j (nth i m []) 0%Q.
Definition qrow_upd (r : list Q) (j : nat) (x : Q) : list Q := upd r j x.
Definition qset (m : qmat) (i j : nat) (x : Q) : qmat := upd m i (qrow_upd (nth i m []) j x).

Definition minor (m : qmat) (i j : nat) : qmat := map (fun r => remove_nth r j) (remove_nth m i).

(* det: fuel = size *)
Fixpoint det_f (fuel : nat) (m : qmat) : Q :=
  match fuel with
  | 0 => 0%Q
  | S f =>
    match m with
    | [[a; b]; [c; d]] => qsub (qmul a d) (qmul b c)
    | _ =>
      let n := length m in
      fold_left qadd (map (fun i => qmul (qmul (qget m i 0) (if Nat.even i then 1 else -1)%Q) (det_f f (minor m i 0))) (seq 0 n)) 0%Q
    end
  end.
Definition det (m : qmat) : Q := det_f (length m) m.

(* det with its entry checks (norms.rs det): rank 0 is refused, a vector is returned as it is, a matrix must be square
   with extents >= 2 (Array::is_square), an array of higher rank must end in a square matrix shape (Vec::is_square)
   and is cut into as many n x n blocks as it holds (split refuses zero parts); the answer is the flat list of the
   blocks' determinants *)
Definition qblock (n : nat) (es : list Q) (b : nat) : qmat :=
  map (fun i => firstn n (skipn (b * (n * n) + i * n) es)) (seq 0 n).
Definition det_checked (sh : list nat) (es : list Q) : res (list Q) :=
  match sh with
  | [] => Err EAtLeast
  | [_] => Ok es
  | _ =>
    let m := last sh 0 in let n := nth (length sh - 2) sh 0 in
    if (m <? 2) || (n <? 2) then Err EAtLeast else
    if negb (m =? n) then Err EEqual else
    if length sh =? 2 then Ok [det (qblock n es 0)] else
    let blocks := prod sh / (n * n) in
    if blocks =? 0 then Err EParam else Ok (map (fun b => det (qblock n es b)) (seq 0 blocks))
  end.

Definition qabs_ltb (x y : Q) : bool := negb (Qle_bool (Qabs y) (Qabs x)).

(* pivot search in column j from row j *)
Definition pivot_row (u : qmat) (j n : nat) : nat :=
  fold_left (fun p i => if qabs_ltb (qget u p j) (qget u i j) then i else p) (seq (j + 1) (n - j - 1)) j.

Definition swap_rows {A} (d : A) (m : list A) (i j : nat) : list A := upd (upd m i (nth j m d)) j (nth i m d).

(* one column of the elimination: (L, U, row order) *)
Definition lu_step (n : nat) (st : qmat * qmat * list nat) (j : nat) : qmat * qmat * list nat :=
  let '(l, u, order) := st in
  let p := pivot_row u j n in
  let '(l1, u1, order1) :=
    if p =? j then (l, u, order)
    else
      let lp := nth p l [] in let lj := nth j l [] in
      (* only the already computed multipliers (columns < j) of L are exchanged *)
      (upd (upd l p (firstn j lj ++ skipn j lp)) j (firstn j lp ++ skipn j lj),
       swap_rows [] u p j, swap_rows 0 order p j) in
  let lu := fold_left (fun (s : qmat * qmat) i =>
               let '(l2, u2) := s in
               let factor := qdiv (qget u2 i j) (qget u2 j j) in
               let ui := map (fun jj => if jj <? j then qget u2 i jj else qsub (qget u2 i jj) (qmul (qget u2 j jj) factor)) (seq 0 n) in
               (qset l2 i j factor, upd u2 i ui))
            (seq (j + 1) (n - j - 1)) (l1, u1) in
  (fst lu, snd lu, order1).

Definition identity_q (n : nat) : qmat := map (fun i => map (fun j => if i =? j then 1%Q else 0%Q) (seq 0 n)) (seq 0 n).

Definition lu (a : qmat) : qmat * qmat * list nat :=
  let n := length a in fold_left (lu_step n) (seq 0 n) (identity_q n, a, seq 0 n).

Definition qdot (x y : list Q) : Q := fold_left qadd (map (fun p => qmul (fst p) (snd p)) (combine x y)) 0%Q.

(* forward substitution L y = b (unit lower triangular), one right-hand-side column *)
Definition forward (l : qmat) (b : list Q) : list Q :=
  fold_left (fun y i => y ++ [qsub (nth i b 0%Q) (qdot (firstn i (nth i l [])) y)]) (seq 0 (length b)) [].

(* back substitution U x = y *)
Definition backward (u : qmat) (y : list Q) : list Q :=
  let n := length y in
  fold_left (fun x k => let i := n - 1 - k in
                        qdiv (qsub (nth i y 0%Q) (qdot (skipn (i + 1) (nth i u [])) x)) (qget u i i) :: x) (seq 0 n) [].

Definition column (m : qmat) (j : nat) : list Q := map (fun r => nth j r 0%Q) m.
Definition mat_vec_q (a : qmat) (x : list Q) : list Q := map (fun r => qdot r x) a.

(* solve for a matrix right-hand side b (rows x k): each column separately; singular: |det| < 1e-12 *)
Definition solve (a b : qmat) : res qmat :=
  let n := length a in
  if qabs_ltb (det a) (1 # 1000000000000) then Err ESingular else
  let '(l, u, order) := lu a in
  let pb := map (fun r => nth r b []) order in
  let k := length (nth 0 b []) in
  let cols := map (fun j => backward u (forward l (column pb j))) (seq 0 k) in
  Ok (map (fun i => map (fun c => nth i c 0%Q) cols) (seq 0 n)).

(* the entry checks of solve: a must be a rank-2 square matrix with extents >= 2 (is_dim_supported(&[2]),
   Array::is_square), the right-hand side must have as many rows (other.get_shape()?[0], which indexes: a rank-0
   right-hand side would panic) *)
Definition solve_checked (sa sb : list nat) (a b : qmat) : res qmat :=
  if negb (length sa =? 2) then Err EUnsupDim else
  let n := nth 0 sa 0 in
  if (n <? 2) || (nth 1 sa 0 <? 2) then Err EAtLeast else
  if negb (n =? nth 1 sa 0) then Err EEqual else
  match sb with
  | [] => Panic
  | d :: _ => if negb (d =? n) then Err EEqual else solve a b
  end.

(* no pivot of the elimination is zero (the hypothesis of the solve theorem, Lu_solve.v), evaluated exactly *)
Definition pivots_okb (a : qmat) : bool :=
  let '(l, u, o) := lu a in forallb (fun j => negb (Qeq_bool (qget u j j) 0)) (seq 0 (length a)).

(* the defining equation, evaluated exactly *)
Definition qlist_eqb (x y : list Q) : bool := (length x =? length y) && forallb (fun p => Qeq_bool (fst p) (snd p)) (combine x y).
Definition residual_ok (a x b : qmat) : bool :=
  forallb (fun j => qlist_eqb (mat_vec_q a (column x j)) (column b j)) (seq 0 (length (nth 0 b []))).

(* argsort (C10): every element is assigned the position it occupies in the sorted lane; the assignment is a
   permutation of the positions; equal elements are ranked in order of appearance. *)
From ArrRs Require Import Index Index_proofs Lists_proofs Axis Reshape_proofs Reduce Sort Sort_proofs Along_uses.
From Coq Require Import Permutation Sorted.

Section ArgsortProofs.
Context {T : Type} (ltb eqb : T -> T -> bool) (d : T).
Hypothesis eqb_spec : forall x y, eqb x y = true <-> x = y.

Lemma take_first_spec (x : T) (rem : list (nat * T)) :
  match take_first (fun p => eqb (snd p) x) rem with
  | Some (i, rem') => exists r1 r2, rem = r1 ++ (i, x) :: r2 /\ rem' = r1 ++ r2 /\ Forall (fun p => snd p <> x) r1
  | None => Forall (fun p => snd p <> x) rem
  end.
Proof.
  induction rem as [|[i v] t IH]; cbn [take_first snd fst]; [constructor|].
  destruct (eqb v x) eqn:E.
  - apply eqb_spec in E. subst v. exists [], t. repeat split; constructor.
  - assert (v <> x) as Ne by (intros ->; assert (eqb x x = true) by (now apply eqb_spec); congruence).
    destruct (take_first (fun p => eqb (snd p) x) t) as [[j rem']|].
    + destruct IH as (r1 & r2 & -> & -> & F). exists ((i, v) :: r1), r2. repeat split. constructor; auto.
    + constructor; auto.
Qed.

Definition inc (rem : list (nat * T)) : Prop := StronglySorted lt (map fst rem).

Lemma inc_app_inv r1 p r2 : inc (r1 ++ p :: r2) -> inc (r1 ++ r2) /\ Forall (fun q => fst p < fst q) r2 /\
  ~ In (fst p) (map fst (r1 ++ r2)).
Proof.
  unfold inc. induction r1 as [|q r1 IH]; cbn [app map]; intros S.
  - inversion S as [|? ? S' F]; subst. split; [exact S'|]. split.
    + rewrite Forall_forall in *. intros z Hz. apply F, in_map, Hz.
    + intros Hin. rewrite Forall_forall in F. specialize (F _ Hin). lia.
  - inversion S as [|? ? S' F]; subst. destruct (IH S') as (S1 & F1 & N1). split; [|split; [exact F1|]].
    + constructor; [exact S1|]. rewrite map_app in *. cbn [map] in F. apply Forall_app in F as [Fa Fb].
      inversion Fb; subst. apply Forall_app. split; assumption.
    + cbn [In]. intros [E|Hin]; [|now apply N1].
      rewrite map_app in F. cbn [map] in F. apply Forall_app in F as [_ Fb]. inversion Fb; subst. lia.
Qed.

(* the assignment: rank k is paired with item k among the remaining pairs; ranks are distinct; ties in order *)
Lemma argsort_assign_spec : forall items rem,
  Permutation items (map snd rem) -> inc rem ->
  exists ranks, argsort_assign eqb items rem = Ok ranks /\ length ranks = length items /\
    (forall k, k < length items -> In (nth k ranks 0, nth k items d) rem) /\ NoDup ranks /\
    (forall i j, i < j < length items -> nth i items d = nth j items d -> nth i ranks 0 < nth j ranks 0).
Proof.
  induction items as [|x t IH]; intros rem P I; cbn [argsort_assign].
  - exists []. repeat split; auto; try constructor; intros; cbn in *; lia.
  - pose proof (take_first_spec x rem) as TF. destruct (take_first (fun p => eqb (snd p) x) rem) as [[i rem']|].
    + destruct TF as (r1 & r2 & -> & -> & F1).
      destruct (inc_app_inv r1 (i, x) r2 I) as (I' & F2 & N2). cbn [fst] in F2, N2.
      assert (Permutation t (map snd (r1 ++ r2))) as P'.
      { rewrite map_app in *. cbn [map snd] in P. apply (Permutation_cons_app_inv _ _ P). }
      destruct (IH _ P' I') as (rs & E & L & M & ND & Ties). rewrite E. cbn [bind].
      exists (i :: rs). split; [reflexivity|]. split; [cbn; lia|]. split; [|split].
      * intros [|k] Hk; cbn [nth]; [apply in_app_iff; right; now left|].
        cbn [length] in Hk. specialize (M k ltac:(lia)). apply in_app_iff in M as [M|M]; apply in_app_iff; [left | right; right]; exact M.
      * constructor; [|exact ND]. intros Hin. apply N2. apply In_nth with (d := 0) in Hin as (k & Hk & <-).
        rewrite L in Hk. pose proof (in_map fst _ _ (M k Hk)) as Q. exact Q.
      * intros a b [Hab Hb] Eq. cbn [length] in Hb. destruct a as [|a]; destruct b as [|b]; try lia; cbn [nth] in *.
        -- (* the head against a later equal item: that item's pair lies after (i, x) *)
           specialize (M b ltac:(lia)). rewrite <- Eq in M. apply in_app_iff in M as [M|M].
           ++ rewrite Forall_forall in F1. specialize (F1 _ M). cbn in F1. congruence.
           ++ rewrite Forall_forall in F2. apply (F2 _ M).
        -- apply Ties; [lia | exact Eq].
    + exfalso. assert (In x (map snd rem)) as Hin by (apply (Permutation_in _ P); now left).
      apply in_map_iff in Hin as (p & Ep & Hp). rewrite Forall_forall in TF. apply (TF p Hp). exact Ep.
Qed.

Lemma map_snd_combine_seq (s : list T) k0 : map snd (combine (seq k0 (length s)) s) = s.
Proof. revert k0; induction s as [|y t IH]; intros k0; cbn [length seq combine map snd]; [reflexivity|]. now rewrite IH. Qed.

Lemma in_combine_seq (s : list T) k0 r x : In (r, x) (combine (seq k0 (length s)) s) -> k0 <= r < k0 + length s /\ nth (r - k0) s d = x.
Proof.
  revert k0; induction s as [|y t IH]; intros k0 H; cbn [length seq combine] in H; [destruct H|].
  destruct H as [E|H].
  - injection E as <- <-. split; [cbn; lia|]. now rewrite Nat.sub_diag.
  - destruct (IH _ H) as (B & N). split; [cbn [length]; lia|]. replace (r - k0) with (S (r - S k0)) by lia. exact N.
Qed.

Lemma inc_combine_seq (s : list T) k0 : inc (combine (seq k0 (length s)) s).
Proof.
  unfold inc. revert k0; induction s as [|y t IH]; intros k0; cbn [length seq combine map fst]; [constructor|].
  constructor; [apply IH|]. apply Forall_forall. intros z Hz. apply in_map_iff in Hz as ([r x] & <- & Hp).
  apply in_combine_seq in Hp as (B & _). cbn [fst]. lia.
Qed.

Hypothesis lt_le : forall x y, ltb x y = true -> le ltb x y.
Hypothesis le_trans : forall x y z, le ltb x y -> le ltb y z -> le ltb x z.

(* ARGSORT of a lane, for any of the four kinds: with s the sorted lane, rank i satisfies s[rank i] = lane[i], the
   ranks are a duplicate-free list of positions below the length (a permutation of them), and equal elements are ranked
   in order of appearance *)
Theorem argsort1_spec k (a : arr T) :
  exists s r, sort_list ltb d k (elems a) = Ok s /\ Permutation (elems a) s /\
    (k = Quicksort \/ k = Mergesort -> sorted ltb s) /\
    argsort1 ltb eqb d k a = Ok r /\ shape r = [len a] /\ length (elems r) = len a /\
    (forall i, i < len a -> nth i (elems r) 0 < len a /\ nth (nth i (elems r) 0) s d = nth i (elems a) d) /\
    NoDup (elems r) /\
    (forall i j, i < j < len a -> nth i (elems a) d = nth j (elems a) d -> nth i (elems r) 0 < nth j (elems r) 0).
Proof.
  destruct (Along_uses.sort_list_total ltb d lt_le le_trans k (elems a)) as (s & E & P & S).
  exists s. unfold argsort1. rewrite E. cbn [bind]. rewrite flat_arr_ok. cbn [bind elems].
  pose proof (Permutation_length P) as Ls.
  destruct (argsort_assign_spec (elems a) (combine (seq 0 (length s)) s)) as (ranks & Ea & L & M & ND & Ties).
  - rewrite map_snd_combine_seq. exact P.
  - apply inc_combine_seq.
  - rewrite Ea. cbn [bind]. rewrite flat_arr_ok. eexists. repeat split; try eassumption; cbn [elems shape]; unfold len; try lia.
    + f_equal. exact L.
    + specialize (M i H). apply in_combine_seq in M as (B & _). lia.
    + specialize (M i H). apply in_combine_seq in M as (_ & N). now rewrite Nat.sub_0_r in N.
Qed.

End ArgsortProofs.

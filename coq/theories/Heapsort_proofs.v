(* heap_sort returns an ordered list (C10): building the heap from the last parent down makes every node dominate its
   children; each extraction moves the largest element behind the heap and sifts the new root down. *)
From ArrRs Require Import Index Index_proofs Lists_proofs Axis Reshape_proofs Reduce Sort Sort_proofs.
From Coq Require Import Permutation Sorted.

Section HeapProofs.
Context {T : Type} (ltb : T -> T -> bool) (d : T).
Hypothesis lt_le : forall x y, ltb x y = true -> le ltb x y.
Hypothesis le_trans : forall x y z, le ltb x y -> le ltb y z -> le ltb x z.

Local Notation leT := (le ltb).
Local Notation sortedT := (sorted ltb).

Lemma leT_refl x : leT x x.
Proof. unfold le. destruct (ltb x x) eqn:E; [|reflexivity]. pose proof (lt_le _ _ E) as H. unfold le in H. congruence. Qed.

Lemma nth_swap (a : list T) i j k : i < length a -> j < length a ->
  nth k (swap_at d a i j) d = if k =? j then nth i a d else if k =? i then nth j a d else nth k a d.
Proof.
  intros Hi Hj. unfold swap_at. rewrite nth_upd, upd_length, (Nat.eqb_sym j k).
  destruct (Nat.eqb_spec k j) as [->|N]; cbn [andb].
  - destruct (Nat.ltb_spec j (length a)); [reflexivity | lia].
  - rewrite nth_upd, (Nat.eqb_sym i k). destruct (Nat.eqb_spec k i) as [->|N2]; cbn [andb]; [|reflexivity].
    destruct (Nat.ltb_spec i (length a)); [reflexivity | lia].
Qed.

(* node i is not smaller than its children inside a[0..=e] *)
Definition hp (a : list T) (e i : nat) : Prop :=
  forall c, (c = 2 * i + 1 \/ c = 2 * i + 2) -> c <= e -> leT (nth c a d) (nth i a d).
Definition heap_from (a : list T) (s e : nat) : Prop := forall i, s <= i -> hp a e i.

Lemma shift_down_heap : forall fuel a s root e,
  e < length a -> e + 1 - root <= fuel -> 0 < fuel -> s <= root ->
  (forall i, s <= i -> i <> root -> hp a e i) ->
  (forall p c, s <= p -> (root = 2 * p + 1 \/ root = 2 * p + 2) -> (c = 2 * root + 1 \/ c = 2 * root + 2) -> c <= e ->
     leT (nth c a d) (nth p a d)) ->
  exists a', shift_down ltb d fuel a root e = Ok a' /\ length a' = length a /\ heap_from a' s e /\
    (forall i, i < root \/ e < i -> nth i a' d = nth i a d) /\
    (forall P : T -> Prop, (forall i, root <= i <= e -> P (nth i a d)) -> forall i, root <= i <= e -> P (nth i a' d)).
Proof.
  induction fuel as [|f IH]; intros a s root e He Hf Hp Hs H1 H2; [lia|]. cbn [shift_down].
  destruct (Nat.ltb_spec e (root * 2 + 1)) as [L|L].
  { exists a. split; [reflexivity|]. split; [reflexivity|]. split; [|split; auto].
    intros i Hi. destruct (Nat.eq_dec i root) as [->|N]; [|now apply H1]. intros c Hc Hce. lia. }
  set (child := if (root * 2 + 1 <? e) && ltb (nth (root * 2 + 1) a d) (nth (root * 2 + 1 + 1) a d)
                then root * 2 + 1 + 1 else root * 2 + 1).
  assert ((child = 2 * root + 1 \/ child = 2 * root + 2) /\ child <= e /\
          forall c', (c' = 2 * root + 1 \/ c' = 2 * root + 2) -> c' <= e -> leT (nth c' a d) (nth child a d)) as (Hc & Hce & Hbig).
  { unfold child. destruct (Nat.ltb_spec (root * 2 + 1) e) as [L2|L2]; cbn [andb].
    - destruct (ltb (nth (root * 2 + 1) a d) (nth (root * 2 + 1 + 1) a d)) eqn:E.
      + split; [right; lia|]. split; [lia|]. intros c' [->| ->] Hc'.
        * replace (2 * root + 1) with (root * 2 + 1) by lia. now apply lt_le.
        * replace (2 * root + 2) with (root * 2 + 1 + 1) by lia. apply leT_refl.
      + split; [left; lia|]. split; [lia|]. intros c' [->| ->] Hc'.
        * replace (2 * root + 1) with (root * 2 + 1) by lia. apply leT_refl.
        * replace (2 * root + 2) with (root * 2 + 1 + 1) by lia. exact E.
    - split; [left; lia|]. split; [lia|]. intros c' [->| ->] Hc'; [|lia].
      replace (2 * root + 1) with (root * 2 + 1) by lia. apply leT_refl. }
  clearbody child.
  destruct (ltb (nth root a d) (nth child a d)) eqn:Lt.
  - set (a1 := swap_at d a root child).
    assert (nth child a1 d = nth root a d) as Nc.
    { unfold a1. rewrite nth_swap by lia. now rewrite Nat.eqb_refl. }
    assert (nth root a1 d = nth child a d) as Nr.
    { unfold a1. rewrite nth_swap by lia. destruct (Nat.eqb_spec root child); [lia|]. now rewrite Nat.eqb_refl. }
    assert (forall k, k <> child -> k <> root -> nth k a1 d = nth k a d) as No.
    { intros k K1 K2. unfold a1. rewrite nth_swap by lia.
      destruct (Nat.eqb_spec k child); [lia|]. destruct (Nat.eqb_spec k root); [lia | reflexivity]. }
    assert (length a1 = length a) as La1 by apply swap_at_length.
    destruct (IH a1 s child e) as (a' & E & L' & H' & Fr & Pp); [lia | lia | lia | lia | | |].
    + intros i Hi Hne c Hcc Hcce. destruct (Nat.eq_dec i root) as [->|Nir].
      * rewrite Nr. destruct (Nat.eq_dec c child) as [->|Ncc].
        -- rewrite Nc. now apply lt_le.
        -- rewrite No by lia. now apply Hbig.
      * rewrite (No i) by lia. assert (c <> child) by lia. destruct (Nat.eq_dec c root) as [->|Ncr].
        -- rewrite Nr. apply (H2 i child); auto; lia.
        -- rewrite No by lia. now apply H1.
    + intros p c Hp' Hpc Hcc Hcce. assert (p = root) as -> by lia. rewrite Nr, No by lia.
      apply (H1 child); auto; lia.
    + exists a'. split; [exact E|]. split; [congruence|]. split; [exact H'|]. split.
      * intros i Hi. rewrite Fr by lia. apply No; lia.
      * intros P HP i Hi. destruct (Nat.lt_ge_cases i child) as [Lc|Gc].
        -- rewrite Fr by lia. destruct (Nat.eq_dec i root) as [->|N]; [rewrite Nr; apply HP; lia | rewrite No by lia; now apply HP].
        -- apply Pp; [|lia]. intros i' Hi'. destruct (Nat.eq_dec i' child) as [->|N]; [rewrite Nc; apply HP; lia | rewrite No by lia; apply HP; lia].
  - exists a. split; [reflexivity|]. split; [reflexivity|]. split; [|split; auto].
    intros i Hi. destruct (Nat.eq_dec i root) as [->|N]; [|now apply H1]. intros c Hcc Hcce.
    apply le_trans with (nth child a d); [now apply Hbig | exact Lt].
Qed.

(* the root of a heap is a largest element *)
Lemma heap_max a e : heap_from a 0 e -> forall i, i <= e -> leT (nth i a d) (nth 0 a d).
Proof.
  intros H i. induction i as [i IH] using lt_wf_ind. intros Hi. destruct i as [|i']; [apply leT_refl|].
  set (p := i' / 2). assert (S i' = 2 * p + 1 \/ S i' = 2 * p + 2) as Hc.
  { unfold p. pose proof (Nat.div_mod i' 2 ltac:(lia)). pose proof (Nat.mod_upper_bound i' 2 ltac:(lia)). lia. }
  apply le_trans with (nth p a d); [apply (H p ltac:(lia) (S i') Hc Hi) | apply IH; lia].
Qed.

Lemma pointwise_sorted (l : list T) : (forall i j, i < j -> j < length l -> leT (nth i l d) (nth j l d)) -> sortedT l.
Proof.
  induction l as [|x t IH]; intros H; [constructor|]. constructor.
  - apply IH. intros i j Hij Hj. apply (H (S i) (S j)); cbn [length]; lia.
  - apply Forall_forall. intros y Hy. apply In_nth with (d := d) in Hy as (j & Hj & <-). apply (H 0 (S j)); cbn [length]; lia.
Qed.

(* a loop over lo+cnt-1, ..., lo *)
Lemma fold_down (F : list T -> nat -> res (list T)) (Inv : nat -> list T -> Prop) lo : forall cnt a0,
  Inv (lo + cnt) a0 ->
  (forall a x, lo <= x < lo + cnt -> Inv (x + 1) a -> exists a', F a x = Ok a' /\ Inv x a') ->
  exists a', fold_left (fun (r : res (list T)) x => let* a := r in F a x) (rev (seq lo cnt)) (Ok a0) = Ok a' /\ Inv lo a'.
Proof.
  induction cnt as [|c IH]; intros a0 H0 Hs.
  - exists a0. split; [reflexivity|]. now rewrite Nat.add_0_r in H0.
  - rewrite seq_S, rev_app_distr. cbn [rev app fold_left bind].
    destruct (Hs a0 (lo + c)) as (a1 & E1 & I1); [lia | now replace (lo + c + 1) with (lo + S c) by lia|].
    rewrite E1. apply IH; [exact I1|]. intros a x Hx. apply Hs. lia.
Qed.

(* HEAP SORT: the result is ordered *)
Theorem heap_sort_sorted l : exists r, heap_sort ltb d l = Ok r /\ sortedT r.
Proof.
  unfold heap_sort. destruct (Nat.leb_spec (length l) 1) as [L|L].
  { exists l. split; [reflexivity|]. destruct l as [|x [|y t]]; [constructor | repeat constructor | cbn in L; lia]. }
  set (n := length l) in *.
  destruct (fold_down (fun a start => shift_down ltb d (S n) a start (n - 1))
              (fun x a => length a = n /\ heap_from a x (n - 1)) 0 (n / 2) l) as (a1 & E1 & L1 & H1).
  - split; [reflexivity|]. intros i Hi c Hc Hce. exfalso.
    pose proof (Nat.div_mod n 2 ltac:(lia)). pose proof (Nat.mod_upper_bound n 2 ltac:(lia)). lia.
  - intros a x Hx [La Ha].
    destruct (shift_down_heap (S n) a x x (n - 1)) as (a' & E & L' & H' & _); [lia | lia | lia | lia | | |].
    + intros i Hi Hne. apply Ha. lia.
    + intros p c Hp Hpc. lia.
    + exists a'. split; [exact E|]. split; [congruence | exact H'].
  - rewrite E1. cbn [bind].
    destruct (fold_down (fun a e => shift_down ltb d (S n) (swap_at d a 0 e) 0 (e - 1))
                (fun x a => length a = n /\ heap_from a 0 (x - 1) /\
                            forall i j, i < j -> x - 1 < j -> j < n -> leT (nth i a d) (nth j a d)) 1 (n - 1) a1)
      as (a2 & E2 & L2 & _ & B2).
    + split; [exact L1|]. split; [replace (1 + (n - 1) - 1) with (n - 1) by lia; exact H1|]. intros; lia.
    + intros a x Hx (La & Ha & Ba). replace (x + 1 - 1) with x in * by lia.
      set (a1' := swap_at d a 0 x).
      assert (nth x a1' d = nth 0 a d) as Nc by (unfold a1'; rewrite nth_swap by lia; now rewrite Nat.eqb_refl).
      assert (nth 0 a1' d = nth x a d) as Nr.
      { unfold a1'. rewrite nth_swap by lia. destruct (Nat.eqb_spec 0 x); [lia | reflexivity]. }
      assert (forall k, k <> x -> k <> 0 -> nth k a1' d = nth k a d) as No.
      { intros k K1 K2. unfold a1'. rewrite nth_swap by lia.
        destruct (Nat.eqb_spec k x); [lia|]. destruct (Nat.eqb_spec k 0); [lia | reflexivity]. }
      assert (length a1' = n) as La1 by (unfold a1'; now rewrite swap_at_length).
      destruct (shift_down_heap (S n) a1' 0 0 (x - 1)) as (a' & E & L' & H' & Fr & Pp); [lia | lia | lia | lia | | |].
      * intros i _ Hne c Hc Hce. rewrite !No by lia. apply Ha; [lia | exact Hc | lia].
      * intros p c _ Hpc. lia.
      * exists a'. split; [exact E|]. split; [congruence|]. split; [exact H'|].
        intros i j Hij Hj Hjn. destruct (Nat.eq_dec j x) as [->|Njx].
        -- rewrite (Fr x) by lia. rewrite Nc. apply (Pp (fun v => leT v (nth 0 a d))); [|lia].
           intros i' Hi'. destruct (Nat.eq_dec i' 0) as [->|N0]; [rewrite Nr | rewrite No by lia]; apply (heap_max a x Ha); lia.
        -- rewrite (Fr j) by lia. rewrite (No j) by lia. destruct (Nat.lt_ge_cases i x) as [Li|Gi].
           ++ apply (Pp (fun v => leT v (nth j a d))); [|lia].
              intros i' Hi'. destruct (Nat.eq_dec i' 0) as [->|N0]; [rewrite Nr | rewrite No by lia]; apply Ba; lia.
           ++ rewrite (Fr i) by lia. destruct (Nat.eq_dec i x) as [->|Nix]; [rewrite Nc | rewrite No by lia]; apply Ba; lia.
    + exists a2. split; [exact E2|]. apply pointwise_sorted. intros i j Hij Hj. apply B2; lia.
Qed.

Theorem heap_sort_spec l : exists r, heap_sort ltb d l = Ok r /\ sortedT r /\ Permutation l r.
Proof.
  destruct (heap_sort_sorted l) as (r & E & S). destruct (heap_sort_perm ltb d l) as (r' & E' & P).
  exists r. split; [exact E|]. split; [exact S|]. rewrite E in E'. injection E' as <-. exact P.
Qed.

End HeapProofs.

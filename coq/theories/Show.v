(* Show.v — the printer of the generic output value inside Coq, character for character the one of eval/driver.ml.
   Used by the kernel anchor of the correspondence check: a sample of every run's cases is evaluated with vm_compute
   inside Coq and must print exactly what the extracted OCaml evaluator printed (cross-check of extraction, of the
   OCaml driver's parser and printer, and of the OCaml compiler on every run). *)
From Coq Require Import String Ascii ZArith List DecimalString Decimal.
From ArrRs Require Import Base Dispatch.
Import ListNotations.
Open Scope string_scope.

Definition z_str (z : Z) : string := NilZero.string_of_int (Z.to_int z).
Definition nat_str (n : nat) : string := NilZero.string_of_uint (Nat.to_uint n).

Definition hex_digit (n : Z) : ascii :=
  match n with
  | 0%Z => "0" | 1%Z => "1" | 2%Z => "2" | 3%Z => "3" | 4%Z => "4" | 5%Z => "5" | 6%Z => "6" | 7%Z => "7"
  | 8%Z => "8" | 9%Z => "9" | 10%Z => "a" | 11%Z => "b" | 12%Z => "c" | 13%Z => "d" | 14%Z => "e" | _ => "f"
  end%char.
Definition hex_byte (b : Z) : string := String (hex_digit (b / 16)%Z) (String (hex_digit (b mod 16)%Z) EmptyString).
Definition hex_bytes (s : list Z) : string := String.concat "" (map hex_byte s).

Definition err_name (e : err) : string :=
  match e with
  | EBroadcast => "BroadcastShapeMismatch" | EConcat => "ConcatenateShapeMismatch"
  | EShapeLen => "ShapeMustMatchValuesLength" | EShapesMatch => "ShapesMustMatch"
  | ESqueeze => "SqueezeShapeOfAxisMustBeOne" | EAxis => "AxisOutOfBounds" | EOob => "OutOfBounds"
  | EParam => "ParameterError" | EUnsupDim => "UnsupportedDimension" | EUnique => "MustBeUnique"
  | EEqual => "MustBeEqual" | EAtLeast => "MustBeAtLeast" | EOneOf => "MustBeOneOf"
  | ENotImpl => "NotImplemented" | ESingular => "SingularMatrix"
  end.

Definition shape_str (sh : list nat) : string := String.concat "x" (map nat_str sh).
Definition zs_str (l : list Z) : string := String.concat "," (map z_str l).
Definition dot_hex (s : list Z) : string := "." ++ hex_bytes s.

Fixpoint show (o : out) : string :=
  match o with
  | OArr sh es => "arr(" ++ shape_str sh ++ ":" ++ zs_str es ++ ")"
  | OSArr sh es => "sarr(" ++ shape_str sh ++ ":" ++ String.concat "," (map dot_hex es) ++ ")"
  | OZ z => "z(" ++ z_str z ++ ")"
  | OL l => "l(" ++ zs_str l ++ ")"
  | OS s => "s(" ++ hex_bytes s ++ ")"
  | OErr e => "err(" ++ err_name e ++ ")"
  | OPanic => "panic"
  | OFuel => "fuel"
  | OPArr sh es => "parr(" ++ shape_str sh ++ ":" ++ String.concat "," (map (fun p => z_str (fst p) ++ "/" ++ z_str (snd p)) es) ++ ")"
  | OLArr sh es => "larr(" ++ shape_str sh ++ ":" ++ String.concat "," (map (fun l => String.concat ";" (map dot_hex l)) es) ++ ")"
  | OList l => "list(" ++ String.concat ";" (map show l) ++ ")"
  | OBad => "bad"
  end.

Definition answer (name : string) (args : list arg) : string := show (dispatch name args).

(* One column of the LU elimination with partial pivoting keeps  P A = L U  (C15).
   The invariant after j columns, for the state (l, u, order):
     for all r, c < n:  sum_{t < min r j} l[r][t] * u[t][c] + u[r][c] == a[order[r]][c]
     for all r, c with c < j, c < r:  u[r][c] == 0
   (only the entries of l left of the diagonal and left of column j are read: the code's forward substitution reads
   nothing else). *)
From Coq Require Import QArith Qabs Qfield Permutation.
Local Close Scope Q_scope.
From ArrRs Require Import Index Lists_proofs Axis Sort Sort_proofs Linsolve Lu_sums.

Definition dims (n : nat) (m : qmat) : Prop := length m = n /\ forall r, r < n -> length (nth r m []) = n.

(* ---------- rows after an exchange ---------- *)
Definition sig (p j r : nat) : nat := if r =? j then p else if r =? p then j else r.

Lemma nth_swap_rows {A} (d : A) (m : list A) i j k : i < length m -> j < length m ->
  nth k (swap_rows d m i j) d = nth (sig i j k) m d.
Proof.
  intros Hi Hj. unfold swap_rows, sig. rewrite nth_upd, upd_length, (Nat.eqb_sym j k).
  destruct (Nat.eqb_spec k j) as [->|N]; cbn [andb].
  - destruct (Nat.ltb_spec j (length m)); [reflexivity | lia].
  - rewrite nth_upd, (Nat.eqb_sym i k). destruct (Nat.eqb_spec k i) as [->|N2]; cbn [andb]; [|reflexivity].
    destruct (Nat.ltb_spec i (length m)); [reflexivity | lia].
Qed.

Lemma swap_rows_length {A} (d : A) (m : list A) i j : length (swap_rows d m i j) = length m.
Proof. unfold swap_rows. now rewrite !upd_length. Qed.

Lemma swap_rows_perm {A} (d : A) (m : list A) i j : i < length m -> j < length m -> Permutation (swap_rows d m i j) m.
Proof. intros Hi Hj. exact (swap_at_perm d m i j Hi Hj). Qed.

Lemma sig_lt p j n r : p < n -> j < n -> r < n -> sig p j r < n.
Proof. unfold sig. destruct (r =? j); [lia|]. destruct (r =? p); lia. Qed.

Lemma sig_fix p j r : r <> p -> r <> j -> sig p j r = r.
Proof. unfold sig. intros. destruct (Nat.eqb_spec r j); [lia|]. destruct (Nat.eqb_spec r p); [lia | reflexivity]. Qed.

(* ---------- the pivot row ---------- *)
Lemma pivot_row_range u j n : j < n -> j <= pivot_row u j n < n.
Proof.
  intros H. unfold pivot_row.
  assert (forall l p, j <= p < n -> (forall i, In i l -> j <= i < n) ->
            j <= fold_left (fun p i => if qabs_ltb (qget u p j) (qget u i j) then i else p) l p < n) as G.
  { induction l as [|i t IH]; intros p Hp Hl; cbn [fold_left]; [exact Hp|].
    apply IH; [|intros; apply Hl; now right]. destruct (qabs_ltb _ _); [apply Hl; now left | exact Hp]. }
  apply G; [lia|]. intros i Hi. apply in_seq in Hi. lia.
Qed.

(* ---------- the elimination below the pivot ---------- *)
Definition elim_row (j n : nat) (u : qmat) (i : nat) : list Q :=
  map (fun jj => if jj <? j then qget u i jj
                 else qsub (qget u i jj) (qmul (qget u j jj) (qdiv (qget u i j) (qget u j j)))) (seq 0 n).
Definition factor (j : nat) (u : qmat) (i : nat) : Q := qdiv (qget u i j) (qget u j j).
Definition elim_step (j n : nat) (s : qmat * qmat) (i : nat) : qmat * qmat :=
  let '(l2, u2) := s in (qset l2 i j (factor j u2 i), upd u2 i (elim_row j n u2 i)).

Lemma elim_row_ext j n u u' i : nth i u [] = nth i u' [] -> nth j u [] = nth j u' [] -> elim_row j n u i = elim_row j n u' i.
Proof. intros H1 H2. unfold elim_row, qget. now rewrite H1, H2. Qed.

Lemma factor_ext j u u' i : nth i u [] = nth i u' [] -> nth j u [] = nth j u' [] -> factor j u i = factor j u' i.
Proof. intros H1 H2. unfold factor, qget. now rewrite H1, H2. Qed.

Lemma elim_fold j n l1 u1 : length l1 = n -> length u1 = n -> j < n -> forall cnt, j + 1 + cnt <= n ->
  let r := fold_left (elim_step j n) (seq (j + 1) cnt) (l1, u1) in
  length (fst r) = n /\ length (snd r) = n /\
  (forall i, nth i (snd r) [] = if (j <? i) && (i <? j + 1 + cnt) then elim_row j n u1 i else nth i u1 []) /\
  (forall i, nth i (fst r) [] = if (j <? i) && (i <? j + 1 + cnt) then qrow_upd (nth i l1 []) j (factor j u1 i) else nth i l1 []).
Proof.
  intros Ll Lu Hj. induction cnt as [|c IH]; intros Hc; cbn zeta.
  - cbn [seq fold_left fst snd]. repeat split; auto; intros i; destruct (Nat.ltb_spec j i); cbn [andb]; auto;
      destruct (Nat.ltb_spec i (j + 1 + 0)); auto; lia.
  - rewrite seq_S, fold_left_app. cbn [fold_left]. specialize (IH ltac:(lia)). cbn zeta in IH.
    destruct (fold_left (elim_step j n) (seq (j + 1) c) (l1, u1)) as [l2 u2]. cbn [fst snd] in IH.
    destruct IH as (L2 & U2 & RU & RL). unfold elim_step. cbn [fst snd].
    assert (nth (j + 1 + c) u2 [] = nth (j + 1 + c) u1 []) as Ei.
    { rewrite RU. destruct (Nat.ltb_spec (j + 1 + c) (j + 1 + c)); [lia|]. now rewrite Bool.andb_false_r. }
    assert (nth j u2 [] = nth j u1 []) as Ej.
    { rewrite RU. destruct (Nat.ltb_spec j j); [lia | reflexivity]. }
    rewrite (elim_row_ext j n u2 u1 _ Ei Ej), (factor_ext j u2 u1 _ Ei Ej).
    split; [unfold qset; now rewrite upd_length|]. split; [now rewrite upd_length|]. split.
    + intros i. rewrite nth_upd, U2. destruct (Nat.eqb_spec (j + 1 + c) i) as [<-|N]; cbn [andb].
      * destruct (Nat.ltb_spec (j + 1 + c) n); [|lia]. destruct (Nat.ltb_spec j (j + 1 + c)); [|lia].
        destruct (Nat.ltb_spec (j + 1 + c) (j + 1 + S c)); [reflexivity | lia].
      * rewrite RU. destruct (j <? i); cbn [andb]; [|reflexivity].
        destruct (Nat.ltb_spec i (j + 1 + c)), (Nat.ltb_spec i (j + 1 + S c)); try reflexivity; lia.
    + intros i. unfold qset. rewrite nth_upd, L2. destruct (Nat.eqb_spec (j + 1 + c) i) as [<-|N]; cbn [andb].
      * destruct (Nat.ltb_spec (j + 1 + c) n); [|lia]. destruct (Nat.ltb_spec j (j + 1 + c)); [|lia].
        destruct (Nat.ltb_spec (j + 1 + c) (j + 1 + S c)); [|lia]. cbn [andb]. f_equal.
        rewrite RL. destruct (Nat.ltb_spec (j + 1 + c) (j + 1 + c)); [lia|]. now rewrite Bool.andb_false_r.
      * rewrite RL. destruct (j <? i); cbn [andb]; [|reflexivity].
        destruct (Nat.ltb_spec i (j + 1 + c)), (Nat.ltb_spec i (j + 1 + S c)); try reflexivity; lia.
Qed.

Lemma elim_fold' j n l1 u1 cnt l' u' : length l1 = n -> length u1 = n -> j < n -> j + 1 + cnt <= n ->
  fold_left (elim_step j n) (seq (j + 1) cnt) (l1, u1) = (l', u') ->
  length l' = n /\ length u' = n /\
  (forall i, nth i u' [] = if (j <? i) && (i <? j + 1 + cnt) then elim_row j n u1 i else nth i u1 []) /\
  (forall i, nth i l' [] = if (j <? i) && (i <? j + 1 + cnt) then qrow_upd (nth i l1 []) j (factor j u1 i) else nth i l1 []).
Proof.
  intros Ll Lu Hj Hc E. pose proof (elim_fold j n l1 u1 Ll Lu Hj cnt Hc) as EF. cbn zeta in EF. rewrite E in EF. exact EF.
Qed.

(* ---------- the exchange of rows p and j ---------- *)
Definition swap_part (j p : nat) (l u : qmat) (o : list nat) : qmat * qmat * list nat :=
  if p =? j then (l, u, o)
  else let lp := nth p l [] in let lj := nth j l [] in
       (upd (upd l p (firstn j lj ++ skipn j lp)) j (firstn j lp ++ skipn j lj), swap_rows [] u p j, swap_rows 0 o p j).

Lemma lu_step_eq n l u o j :
  lu_step n (l, u, o) j =
  let p := pivot_row u j n in
  let '(l1, u1, o1) := swap_part j p l u o in
  let r := fold_left (elim_step j n) (seq (j + 1) (n - j - 1)) (l1, u1) in (fst r, snd r, o1).
Proof. unfold lu_step, swap_part. cbn zeta. destruct (pivot_row u j n =? j); reflexivity. Qed.

Lemma swap_part_spec j p n l u o : dims n l -> dims n u -> length o = n -> j <= p -> p < n ->
  let '(l1, u1, o1) := swap_part j p l u o in
  dims n l1 /\ dims n u1 /\ length o1 = n /\ Permutation o1 o /\
  (forall r, nth r u1 [] = nth (sig p j r) u []) /\
  (forall r, nth r o1 0 = nth (sig p j r) o 0) /\
  (forall r t, t < j -> qget l1 r t = qget l (sig p j r) t).
Proof.
  intros (Ll & Rl) (Lu & Ru) Lo Hjp Hp. unfold swap_part. destruct (Nat.eqb_spec p j) as [->|N].
  - assert (forall r, sig j j r = r) as Sid by (intros r; unfold sig; destruct (Nat.eqb_spec r j); congruence).
    repeat split; auto; intros; now rewrite Sid.
  - cbn zeta. assert (j < n) by lia.
    assert (length (nth p l []) = n) as Lp by (apply Rl; lia). assert (length (nth j l []) = n) as Lj by (apply Rl; lia).
    split; [|split; [|split; [|split; [|split; [|split]]]]].
    + split; [now rewrite !upd_length|]. intros r Hr. rewrite nth_upd, upd_length, Ll.
      destruct (Nat.eqb_spec j r) as [<-|N1]; cbn [andb].
      * destruct (Nat.ltb_spec j n); [|lia]. rewrite app_length, firstn_length, skipn_length. lia.
      * rewrite nth_upd, Ll. destruct (Nat.eqb_spec p r) as [<-|N2]; cbn [andb]; [|now apply Rl].
        destruct (Nat.ltb_spec p n); [|lia]. rewrite app_length, firstn_length, skipn_length. lia.
    + split; [now rewrite swap_rows_length|]. intros r Hr. rewrite nth_swap_rows by lia. apply Ru. apply sig_lt; lia.
    + now rewrite swap_rows_length.
    + apply swap_rows_perm; lia.
    + intros r. apply nth_swap_rows; lia.
    + intros r. apply nth_swap_rows; lia.
    + intros r t Ht. unfold qget, sig. rewrite nth_upd, upd_length, Ll.
      destruct (Nat.eqb_spec j r) as [<-|N1]; cbn [andb].
      * destruct (Nat.ltb_spec j n); [|lia]. rewrite Nat.eqb_refl. rewrite app_nth1 by (rewrite firstn_length; lia).
        now rewrite nth_firstn_lt.
      * destruct (Nat.eqb_spec r j); [lia|]. rewrite nth_upd, Ll. destruct (Nat.eqb_spec p r) as [<-|N2]; cbn [andb].
        -- destruct (Nat.ltb_spec p n); [|lia]. rewrite Nat.eqb_refl. rewrite app_nth1 by (rewrite firstn_length; lia).
           now rewrite nth_firstn_lt.
        -- destruct (Nat.eqb_spec r p); [lia | reflexivity].
Qed.

(* ---------- the invariant ---------- *)
Record Inv (a : qmat) (n j : nat) (l u : qmat) (o : list nat) : Prop := {
  inv_dl : dims n l; inv_du : dims n u; inv_perm : Permutation o (seq 0 n);
  inv_prod : forall r c, r < n -> c < n ->
    (qsum (fun t => qget l r t * qget u t c) (Nat.min r j) + qget u r c == qget a (nth r o O) c)%Q;
  inv_zero : forall r c, r < n -> c < j -> c < r -> (qget u r c == 0)%Q }.

Lemma inv_swap a n j l u o p : Inv a n j l u o -> j <= p -> p < n ->
  let '(l1, u1, o1) := swap_part j p l u o in Inv a n j l1 u1 o1.
Proof.
  intros [Dl Du Po Pr Ze] Hjp Hp.
  assert (length o = n) as Lo by (rewrite (Permutation_length Po); apply seq_length).
  pose proof (swap_part_spec j p n l u o Dl Du Lo Hjp Hp) as S. destruct (swap_part j p l u o) as [[l1 u1] o1].
  destruct S as (Dl1 & Du1 & Lo1 & Po1 & RU & RO & RL). constructor; auto.
  - now rewrite Po1.
  - intros r c Hr Hc. assert (sig p j r < n) as Hs by (apply sig_lt; lia).
    assert (Nat.min r j = Nat.min (sig p j r) j) as Em.
    { unfold sig. destruct (Nat.eqb_spec r j); [lia|]. destruct (Nat.eqb_spec r p); lia. }
    rewrite RO. rewrite <- (Pr (sig p j r) c Hs Hc). rewrite <- Em.
    apply Qplus_comp; [|unfold qget; now rewrite RU].
    apply qsum_ext. intros t Ht. rewrite RL by lia. unfold qget at 2 4. rewrite RU, (sig_fix p j t) by lia. reflexivity.
  - intros r c Hr Hc Hcr. unfold qget. rewrite RU. apply (Ze (sig p j r) c); [apply sig_lt; lia | lia|].
    unfold sig. destruct (Nat.eqb_spec r j); [lia|]. destruct (Nat.eqb_spec r p); lia.
Qed.

Lemma nth_map_seq0 {A} (f : nat -> A) n k d : k < n -> nth k (map f (seq 0 n)) d = f k.
Proof. intros H. rewrite (nth_map_lt _ _ _ 0) by (rewrite seq_length; exact H). now rewrite seq_nth. Qed.

(* the elimination in column j turns the invariant for j into the invariant for j + 1, provided the pivot is not zero *)
Lemma inv_elim a n j l1 u1 o l' u' : Inv a n j l1 u1 o -> j < n ->
  fold_left (elim_step j n) (seq (j + 1) (n - j - 1)) (l1, u1) = (l', u') ->
  ~ (qget u' j j == 0)%Q -> Inv a n (S j) l' u' o.
Proof.
  intros [(Ll & Rl) (Lu & Ru) Po Pr Ze] Hj EFold.
  destruct (elim_fold' j n l1 u1 (n - j - 1) l' u' Ll Lu Hj ltac:(lia) EFold) as (Ll' & Lu' & RU & RL).
  replace (j + 1 + (n - j - 1)) with n in * by lia. intros Piv.
  assert (forall i c, i < n -> c < n -> qget u' i c =
            if j <? i then (if c <? j then qget u1 i c
                            else qsub (qget u1 i c) (qmul (qget u1 j c) (factor j u1 i))) else qget u1 i c) as EU.
  { intros i c Hi Hc. unfold qget at 1. rewrite RU. destruct (Nat.ltb_spec j i); cbn [andb]; [|reflexivity].
    destruct (Nat.ltb_spec i n); [|lia]. unfold elim_row. now rewrite nth_map_seq0 by exact Hc. }
  assert (forall i t, i < n -> qget l' i t = if (j <? i) && (t =? j) then factor j u1 i else qget l1 i t) as EL.
  { intros i t Hi. unfold qget at 1. rewrite RL. destruct (Nat.ltb_spec j i); cbn [andb]; [|reflexivity].
    destruct (Nat.ltb_spec i n); [|lia]. unfold qrow_upd. rewrite nth_upd, (Rl i Hi), (Nat.eqb_sym j t).
    destruct (t =? j); cbn [andb]; [|reflexivity]. destruct (Nat.ltb_spec j n); [reflexivity | lia]. }
  assert (~ (qget u1 j j == 0)%Q) as Piv1.
  { rewrite (EU j j Hj Hj) in Piv. destruct (Nat.ltb_spec j j); [lia | exact Piv]. }
  constructor.
  - split; [exact Ll'|]. intros r Hr. rewrite RL. destruct ((j <? r) && (r <? n)); [unfold qrow_upd; rewrite upd_length|]; now apply Rl.
  - split; [exact Lu'|]. intros r Hr. rewrite RU. destruct ((j <? r) && (r <? n)); [|now apply Ru].
    unfold elim_row. now rewrite map_length, seq_length.
  - exact Po.
  - intros r c Hr Hc. destruct (Nat.le_gt_cases r j) as [Le|Gt].
    + replace (Nat.min r (S j)) with (Nat.min r j) by lia. rewrite <- (Pr r c Hr Hc). apply Qplus_comp.
      * apply qsum_ext. intros t Ht. rewrite EL, EU by lia.
        destruct (Nat.ltb_spec j r); [lia|]. destruct (Nat.ltb_spec j t); [lia|]. reflexivity.
      * rewrite EU by lia. destruct (Nat.ltb_spec j r); [lia | reflexivity].
    + replace (Nat.min r (S j)) with (S j) by lia. cbn [qsum]. rewrite <- (Pr r c Hr Hc). replace (Nat.min r j) with j by lia.
      rewrite (qsum_ext (fun t => qget l' r t * qget u' t c)%Q (fun t => qget l1 r t * qget u1 t c)%Q j).
      2:{ intros t Ht. rewrite EL, EU by lia. destruct (Nat.ltb_spec j r); [|lia]. destruct (Nat.eqb_spec t j); [lia|].
          destruct (Nat.ltb_spec j t); [lia|]. reflexivity. }
      rewrite (EL r j Hr), (EU j c Hj Hc), (EU r c Hr Hc), Nat.eqb_refl.
      destruct (Nat.ltb_spec j r); [|lia]. destruct (Nat.ltb_spec j j); [lia|]. cbn [andb].
      destruct (Nat.ltb_spec c j) as [Lc|Gc].
      * rewrite (Ze j c Hj Lc Lc). ring.
      * rewrite qsub_eq, qmul_eq. ring.
  - intros r c Hr Hc Hcr. rewrite EU by lia. destruct (Nat.eq_dec c j) as [->|Nc].
    + destruct (Nat.ltb_spec j r); [|lia]. destruct (Nat.ltb_spec j j); [lia|]. unfold factor.
      rewrite qsub_eq, qmul_eq, qdiv_eq. field. exact Piv1.
    + assert (c < j) as Lc by lia. destruct (Nat.ltb_spec c j); [|lia].
      destruct (j <? r); apply Ze; auto.
Qed.

(* a whole column *)
Lemma inv_step a n j l u o : Inv a n j l u o -> j < n ->
  let '(l', u', o') := lu_step n (l, u, o) j in
  ~ (qget u' j j == 0)%Q -> Inv a n (S j) l' u' o'.
Proof.
  intros I Hj. rewrite lu_step_eq. cbn zeta. pose proof (pivot_row_range u j n Hj) as Hp.
  pose proof (inv_swap a n j l u o (pivot_row u j n) I ltac:(lia) ltac:(lia)) as I1.
  destruct (swap_part j (pivot_row u j n) l u o) as [[l1 u1] o1].
  destruct (fold_left (elim_step j n) (seq (j + 1) (n - j - 1)) (l1, u1)) as [l' u'] eqn:EFold. cbn [fst snd].
  exact (inv_elim a n j l1 u1 o1 l' u' I1 Hj EFold).
Qed.

(* rows above column j are not touched by column j *)
Lemma lu_step_frozen n j l u o : dims n l -> dims n u -> length o = n -> j < n ->
  let '(l', u', o') := lu_step n (l, u, o) j in
  dims n l' /\ dims n u' /\ length o' = n /\ forall r, r < j -> nth r u' [] = nth r u [].
Proof.
  intros Dl Du Lo Hj. rewrite lu_step_eq. cbn zeta. pose proof (pivot_row_range u j n Hj) as Hp.
  pose proof (swap_part_spec j (pivot_row u j n) n l u o Dl Du Lo ltac:(lia) ltac:(lia)) as S.
  destruct (swap_part j (pivot_row u j n) l u o) as [[l1 u1] o1]. destruct S as ((Ll1 & Rl1) & (Lu1 & Ru1) & Lo1 & _ & RU & _ & _).
  destruct (fold_left (elim_step j n) (seq (j + 1) (n - j - 1)) (l1, u1)) as [l' u'] eqn:EFold. cbn [fst snd].
  destruct (elim_fold' j n l1 u1 (n - j - 1) l' u' Ll1 Lu1 Hj ltac:(lia) EFold) as (Ll' & Lu' & RU' & RL').
  split; [|split; [|split]].
  - split; [exact Ll'|]. intros r Hr. rewrite RL'. destruct ((j <? r) && _); [unfold qrow_upd; rewrite upd_length|]; now apply Rl1.
  - split; [exact Lu'|]. intros r Hr. rewrite RU'. destruct ((j <? r) && _); [|now apply Ru1].
    unfold elim_row. now rewrite map_length, seq_length.
  - exact Lo1.
  - intros r Hr. rewrite RU'. destruct (Nat.ltb_spec j r); [lia|]. cbn [andb]. rewrite RU, sig_fix by lia. reflexivity.
Qed.

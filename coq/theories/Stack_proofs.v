(* stack along a new axis (C11): the inputs, all of one shape s, become the entries of a NEW axis inserted at position
   ax of the result: shape = s with (number of inputs) inserted at ax, and the element at coordinate c is the element of
   input number c[ax] at c with that entry removed.  The code expands every input by a unit axis (expand_dims) and
   concatenates along it; the proof goes through the concatenation theorem (Append_proofs) and the unit-axis lemma. *)
From ArrRs Require Import Index Index_proofs Lists_proofs Axis Axis_proofs Reshape_proofs Broadcast_proofs Split Lift Reduce
  Reduce_proofs Along_proofs Join Join_proofs Split_proofs Append_proofs.

(* a unit axis inserted anywhere does not change flat positions *)
Lemma flat_insert_unit s x ax : in_range s x -> ax <= length s ->
  flat (insert_nth s ax 1) (insert_nth x ax 0) = flat s x.
Proof.
  intros Hx Hax. rewrite (flat_insert_general s x ax 1 0 Hx Hax ltac:(lia)). cbn zeta.
  assert (0 < prod (skipn ax s)) as P.
  { pose proof (in_range_prod_pos s x Hx) as Ps. rewrite <- (firstn_skipn ax s), prod_app in Ps.
    destruct (prod (skipn ax s)); lia. }
  pose proof (Nat.div_mod (flat s x) (prod (skipn ax s)) ltac:(lia)). lia.
Qed.

Lemma upd_same_nth (c : list nat) ax : nth ax c 0 = 0 -> upd c ax 0 = c.
Proof. revert ax; induction c as [|h t IH]; intros [|ax] H; cbn in *; auto; [now subst | f_equal; auto]. Qed.

Lemma in_range_insert_inv sh c ax m : ax <= length sh -> in_range (insert_nth sh ax m) c -> in_range sh (remove_nth c ax).
Proof.
  intros L H. apply (in_range_remove _ _ ax) in H. now rewrite remove_insert_nth in H by exact L.
Qed.

Section StackSpec.
Context {T : Type} (d : T).

Definition unit_view (s : list nat) (ax : nat) (a : arr T) : arr T := mk (elems a) (insert_nth s ax 1).

Lemma normalize_axis_dim_nonneg n k ax : normalize_axis_dim n (Z.of_nat ax) k = Z.of_nat ax.
Proof. unfold normalize_axis_dim. destruct (Z.ltb_spec (Z.of_nat ax) 0); [lia | reflexivity]. Qed.

Lemma expand_dims_unit (a : arr T) ax : wf a -> ax <= ndim a ->
  expand_dims a [Z.of_nat ax] = Ok (unit_view (shape a) ax a).
Proof.
  intros W L. unfold expand_dims. cbn [map length]. rewrite normalize_axis_dim_nonneg.
  cbn [sort_by fold_right insert_sorted expand_shape].
  destruct (Z.leb_spec (Z.of_nat ax) (Z.of_nat (length (shape a)))) as [_|G]; [|unfold ndim in L; lia].
  rewrite Nat2Z.id. cbn [bind]. unfold unit_view. apply reshape_iff.
  rewrite prod_insert_nth. unfold len. rewrite W. lia.
Qed.

(* reading a unit view at a coordinate whose new entry is 0 = reading the array at the coordinate without it *)
Lemma get_unit_view (a : arr T) ax c : ax <= ndim a -> in_range (insert_nth (shape a) ax 1) c ->
  get d (unit_view (shape a) ax a) c = get d a (remove_nth c ax).
Proof.
  intros L Hc. unfold get, unit_view. cbn [shape elems]. f_equal.
  assert (ax < length c) as Lc by (apply in_range_length in Hc; rewrite insert_nth_length in Hc; unfold ndim in L; lia).
  assert (nth ax c 0 = 0) as Z0 by (apply (in_range_insert_nth_lt (shape a) c ax 1) in Hc; [lia | exact L]).
  rewrite <- (upd_same_nth c ax Z0) at 1. rewrite (upd_as_insert_remove c ax 0 Lc).
  apply flat_insert_unit; [|exact L]. now apply (in_range_insert_inv _ _ ax 1).
Qed.

(* walking unit-extent inputs: entry k of the axis is input number k *)
Lemma locate_units s ax (arrs : list (arr T)) : forall c dummy,
  Forall (fun a => nth ax (shape a) 0 = 1) arrs -> ax < length c -> nth ax c 0 < length arrs ->
  locate d ax arrs c = get d (nth (nth ax c 0) arrs dummy) (upd c ax 0).
Proof.
  clear s. induction arrs as [|a t IH]; intros c dummy F Lc Hk; cbn [length] in Hk; [lia|].
  apply Forall_cons_iff in F as [Ua Ft]. cbn [locate]. rewrite Ua.
  destruct (nth ax c 0) as [|k] eqn:Ek.
  - cbn [Nat.ltb Nat.leb nth]. now rewrite (upd_same_nth c ax Ek).
  - cbn [Nat.ltb Nat.leb nth]. replace (S k - 1) with k by lia.
    rewrite (IH (upd c ax k) dummy Ft); rewrite ?upd_length, ?nth_upd_eq; try lia. now rewrite upd_upd.
Qed.

(* STACK: n inputs of one shape s (rank >= 1, positive extents) along a new axis ax <= rank *)
Theorem stack_spec s ax (first : arr T) rest :
  1 <= length s -> pos_shape s -> ax <= length s -> (Z.of_nat (S (length s)) < two64)%Z ->
  Forall (fun a => wf a /\ shape a = s) (first :: rest) ->
  exists R, stack d (first :: rest) (Some ax) = Ok R /\ wf R /\
    shape R = insert_nth s ax (length (first :: rest)) /\
    forall c, in_range (shape R) c ->
      get d R c = get d (nth (nth ax c 0) (first :: rest) first) (remove_nth c ax).
Proof.
  intros R1 P Hax B F. set (arrs := first :: rest) in *.
  assert (forall a, In a arrs -> wf a /\ shape a = s) as Fa by (apply Forall_forall; exact F).
  unfold stack. fold arrs.
  assert (all_same_shape arrs = true) as ->.
  { unfold all_same_shape. apply forallb_forall. intros [x y] Hin. cbn [fst snd]. apply nat_list_eqb_spec.
    pose proof (in_combine_l _ _ _ _ Hin) as Hx. pose proof (in_combine_r _ _ _ _ Hin) as Hy.
    assert (In y arrs) as Hy' by (unfold arrs in *; cbn [tl] in Hy; now right).
    destruct (Fa x Hx) as [_ ->]. destruct (Fa y Hy') as [_ ->]. reflexivity. }
  cbn [negb].
  assert (shape first = s) as Sf by (apply (Fa first); now left).
  assert (ndim first <? ax = false) as -> by (apply Nat.ltb_ge; unfold ndim; rewrite Sf; exact Hax).
  rewrite (mapM_ok _ (unit_view s ax)).
  2:{ intros a Ha. destruct (Fa a Ha) as [W S]. rewrite <- S. apply expand_dims_unit; [exact W | unfold ndim; rewrite S; exact Hax]. }
  cbn [bind]. unfold arrs at 1. cbn [map].
  assert (Forall (joinable d ax s (S (length s))) (map (unit_view s ax) arrs)) as J.
  { apply Forall_forall. intros u Hu. apply in_map_iff in Hu as (a & <- & Ha). destruct (Fa a Ha) as [W S].
    unfold joinable, unit_view. cbn [shape elems]. split; [|split; [|split]].
    - unfold wf. cbn [shape elems]. rewrite prod_insert_nth, W, S. lia.
    - unfold pos_shape in *. rewrite Forall_forall in *. intros x Hx.
      apply In_nth with (d := 0) in Hx as (i & Hi & <-). rewrite insert_nth_length in Hi.
      destruct (lt_eq_lt_dec i ax) as [[Lt|->]|Gt].
      + rewrite nth_insert_nth_lt' by lia. apply P, nth_In. lia.
      + rewrite nth_insert_nth by lia. lia.
      + rewrite nth_insert_nth_gt by lia. apply P, nth_In. lia.
    - unfold ndim. cbn [shape]. apply insert_nth_length.
    - apply remove_insert_nth. exact Hax. }
  destruct (concatenate_axis_spec d ax s (S (length s)) (unit_view s ax first) (map (unit_view s ax) rest)
              ltac:(lia) ltac:(lia) B J) as (R & E & WR & RR & NR & SX & G).
  exists R. split; [exact E|]. split; [exact WR|].
  assert (nth ax (shape R) 0 = length arrs) as NX.
  { rewrite SX. unfold unit_view at 2. cbn [shape]. rewrite nth_insert_nth by exact Hax.
    assert (forall l k, fold_left (fun (s0 : nat) (a : arr T) => s0 + nth ax (shape a) 0) (map (unit_view s ax) l) k = k + length l) as K.
    { induction l as [|h t IH]; intros k; cbn [map fold_left length]; [lia|]. rewrite IH. unfold unit_view at 2. cbn [shape].
      rewrite nth_insert_nth by exact Hax. lia. }
    rewrite K. unfold arrs. cbn [length]. lia. }
  assert (shape R = insert_nth s ax (length arrs)) as SR.
  { assert (ax < length (shape R)) as Lr by (unfold ndim in NR; lia).
    rewrite <- RR, <- NX. clear - Lr. revert Lr. generalize (shape R) as l. intros l; revert ax.
    induction l as [|h t IH]; intros [|ax] H; cbn in *; try lia; auto. f_equal. apply IH. lia. }
  split; [exact SR|].
  intros c Hc. rewrite (G c Hc). change (unit_view s ax first :: map (unit_view s ax) rest) with (map (unit_view s ax) arrs).
  assert (ax < length c) as Lc by (apply in_range_length in Hc; unfold ndim in NR; lia).
  assert (nth ax c 0 < length arrs) as Hk by (rewrite SR in Hc; apply (in_range_insert_nth_lt s c ax _ Hax Hc)).
  rewrite (locate_units s ax _ c (unit_view s ax first)).
  - rewrite (nth_map_lt (unit_view s ax) arrs _ first) by exact Hk.
    set (a := nth (nth ax c 0) arrs first).
    assert (In a arrs) as Ha by (apply nth_In; exact Hk). destruct (Fa a Ha) as [W S].
    rewrite <- S. rewrite get_unit_view.
    + f_equal. rewrite (upd_as_insert_remove c ax 0 Lc). apply remove_insert_nth.
      rewrite remove_nth_length by exact Lc. lia.
    + unfold ndim. rewrite S. exact Hax.
    + rewrite S. rewrite (upd_as_insert_remove c ax 0 Lc). apply in_range_insert; [exact Hax | | lia].
      rewrite SR in Hc. now apply (in_range_insert_inv _ _ ax (length arrs)).
  - apply Forall_forall. intros u Hu. apply in_map_iff in Hu as (a0 & <- & _). unfold unit_view. cbn [shape].
    apply nth_insert_nth. exact Hax.
  - exact Lc.
  - rewrite map_length. exact Hk.
Qed.

End StackSpec.

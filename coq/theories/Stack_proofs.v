(* stack along a new axis (C11): the inputs, all of one shape s, become the entries of a NEW axis inserted at position
   ax of the result: shape = s with (number of inputs) inserted at ax, and the element at coordinate c is the element of
   input number c[ax] at c with that entry removed.  The code expands every input by a unit axis (expand_dims) and
   concatenates along it; the proof goes through the concatenation theorem (Append_proofs) and the unit-axis lemma. *)
From ArrRs Require Import Index Index_proofs Lists_proofs Axis Axis_proofs Reshape_proofs Broadcast_proofs Split Lift Reduce
  Reduce_proofs Along_proofs Join Join_proofs Split_proofs Append_proofs.

(* a unit axis inserted anywhere does not change flat positions *)
Lemma flat_insert_unit s x ax : in_range s x -> ax <= length s ->
  flat (insert_nth s ax 1) (insert_nth x ax 0) = flat s x.
Proof.
  intros Hx Hax. rewrite (flat_insert_general s x ax 1 0 Hx Hax ltac:(lia)). cbn zeta.
  assert (0 < prod (skipn ax s)) as P.
  { pose proof (in_range_prod_pos s x Hx) as Ps. rewrite <- (firstn_skipn ax s), prod_app in Ps.
    destruct (prod (skipn ax s)); lia. }
  pose proof (Nat.div_mod (flat s x) (prod (skipn ax s)) ltac:(lia)). lia.
Qed.

Lemma upd_same_nth (c : list nat) ax : nth ax c 0 = 0 -> upd c ax 0 = c.
Proof. revert ax; induction c as [|h t IH]; intros [|ax] H; cbn in *; auto; [now subst | f_equal; auto]. Qed.

Lemma in_range_insert_inv sh c ax m : ax <= length sh -> in_range (insert_nth sh ax m) c -> in_range sh (remove_nth c ax).
Proof.
  intros L H. apply (in_range_remove _ _ ax) in H. now rewrite remove_insert_nth in H by exact L.
Qed.

Lemma insert_remove_nth_self (l : list nat) ax : ax < length l -> insert_nth (remove_nth l ax) ax (nth ax l 0) = l.
Proof.
  revert ax; induction l as [|h t IH]; intros [|ax] H; cbn [length] in H; try lia.
  - destruct t; reflexivity.
  - cbn [remove_nth nth insert_nth]. f_equal. apply IH. lia.
Qed.

Section StackSpec.
Context {T : Type} (d : T).

Definition unit_view (s : list nat) (ax : nat) (a : arr T) : arr T := mk (elems a) (insert_nth s ax 1).

Lemma normalize_axis_dim_nonneg n k ax : normalize_axis_dim n (Z.of_nat ax) k = Z.of_nat ax.
Proof. unfold normalize_axis_dim. destruct (Z.ltb_spec (Z.of_nat ax) 0); [lia | reflexivity]. Qed.

Lemma expand_dims_unit (a : arr T) ax : wf a -> ax <= ndim a ->
  expand_dims a [Z.of_nat ax] = Ok (unit_view (shape a) ax a).
Proof.
  intros W L. unfold expand_dims. cbn [map length]. rewrite normalize_axis_dim_nonneg.
  cbn [sort_by fold_right insert_sorted expand_shape].
  destruct (Z.leb_spec (Z.of_nat ax) (Z.of_nat (length (shape a)))) as [_|G]; [|unfold ndim in L; lia].
  rewrite Nat2Z.id. cbn [bind]. unfold unit_view. apply reshape_iff.
  rewrite prod_insert_nth. unfold len. rewrite W. lia.
Qed.

(* reading a unit view at a coordinate whose new entry is 0 = reading the array at the coordinate without it *)
Lemma get_unit_view (a : arr T) ax c : ax <= ndim a -> in_range (insert_nth (shape a) ax 1) c ->
  get d (unit_view (shape a) ax a) c = get d a (remove_nth c ax).
Proof.
  intros L Hc. unfold get, unit_view. cbn [shape elems]. f_equal.
  assert (ax < length c) as Lc by (apply in_range_length in Hc; rewrite insert_nth_length in Hc; unfold ndim in L; lia).
  assert (nth ax c 0 = 0) as Z0 by (apply (in_range_insert_nth_lt (shape a) c ax 1) in Hc; [lia | exact L]).
  rewrite <- (upd_same_nth c ax Z0) at 1. rewrite (upd_as_insert_remove c ax 0 Lc).
  apply flat_insert_unit; [|exact L]. now apply (in_range_insert_inv _ _ ax 1).
Qed.

(* walking unit-extent inputs: entry k of the axis is input number k *)
Lemma locate_units ax (arrs : list (arr T)) : forall c dummy,
  Forall (fun a => nth ax (shape a) 0 = 1) arrs -> ax < length c -> nth ax c 0 < length arrs ->
  locate d ax arrs c = get d (nth (nth ax c 0) arrs dummy) (upd c ax 0).
Proof.
  induction arrs as [|a t IH]; intros c dummy F Lc Hk; cbn [length] in Hk; [lia|].
  apply Forall_cons_iff in F as [Ua Ft]. cbn [locate]. rewrite Ua.
  destruct (nth ax c 0) as [|k] eqn:Ek.
  - cbn [Nat.ltb Nat.leb nth]. now rewrite (upd_same_nth c ax Ek).
  - cbn [Nat.ltb Nat.leb nth]. replace (S k - 1) with k by lia.
    rewrite (IH (upd c ax k) dummy Ft); rewrite ?upd_length, ?nth_upd_eq; try lia. now rewrite upd_upd.
Qed.

(* the core: concatenating the unit views of n arrays of one shape s along the unit axis *)
Lemma concat_units s ax (first : arr T) rest :
  1 <= length s -> pos_shape s -> ax <= length s -> (Z.of_nat (S (length s)) < two64)%Z ->
  Forall (fun a => wf a /\ shape a = s) (first :: rest) ->
  exists R, concatenate d (map (unit_view s ax) (first :: rest)) (Some ax) = Ok R /\ wf R /\
    shape R = insert_nth s ax (length (first :: rest)) /\
    forall c, in_range (shape R) c ->
      get d R c = get d (nth (nth ax c 0) (first :: rest) first) (remove_nth c ax).
Proof.
  intros R1 P Hax B F. set (arrs := first :: rest) in *.
  assert (forall a, In a arrs -> wf a /\ shape a = s) as Fa by (apply Forall_forall; exact F).
  assert (Forall (joinable ax s (S (length s))) (map (unit_view s ax) arrs)) as J.
  { apply Forall_forall. intros u Hu. apply in_map_iff in Hu as (a & <- & Ha). destruct (Fa a Ha) as [W S].
    unfold joinable, unit_view. cbn [shape elems]. split; [|split; [|split]].
    - unfold wf. cbn [shape elems]. rewrite prod_insert_nth, W, S. lia.
    - unfold pos_shape in *. rewrite Forall_forall in *. intros x Hx.
      apply In_nth with (d := 0) in Hx as (i & Hi & <-). rewrite insert_nth_length in Hi.
      destruct (lt_eq_lt_dec i ax) as [[Lt|Eq]|Gt]; [| subst i |].
      + rewrite nth_insert_nth_lt' by lia. apply P, nth_In. lia.
      + rewrite nth_insert_nth by lia. lia.
      + rewrite nth_insert_nth_gt by lia. apply P, nth_In. lia.
    - unfold ndim. cbn [shape]. apply insert_nth_length.
    - apply remove_insert_nth. exact Hax. }
  destruct (concatenate_axis_spec d ax s (S (length s)) (unit_view s ax first) (map (unit_view s ax) rest)
              ltac:(lia) ltac:(lia) B J) as (R & E & WR & RR & NR & SX & G).
  exists R. split; [exact E|]. split; [exact WR|].
  assert (nth ax (shape R) 0 = length arrs) as NX.
  { rewrite SX. unfold unit_view at 2. cbn [shape]. rewrite nth_insert_nth by exact Hax.
    assert (forall l k, fold_left (fun (s0 : nat) (a : arr T) => s0 + nth ax (shape a) 0) (map (unit_view s ax) l) k = k + length l) as K.
    { induction l as [|h t IH]; intros k; cbn [map fold_left length]; [lia|]. rewrite IH. unfold unit_view. cbn [shape].
      rewrite nth_insert_nth by exact Hax. lia. }
    rewrite K. unfold arrs. cbn [length]. lia. }
  assert (shape R = insert_nth s ax (length arrs)) as SR.
  { assert (ax < length (shape R)) as Lr by (unfold ndim in NR; lia).
    rewrite <- RR, <- NX. symmetry. apply insert_remove_nth_self. exact Lr. }
  split; [exact SR|].
  intros c Hc. rewrite (G c Hc). change (unit_view s ax first :: map (unit_view s ax) rest) with (map (unit_view s ax) arrs).
  assert (ax < length c) as Lc by (apply in_range_length in Hc; unfold ndim in NR; lia).
  assert (nth ax c 0 < length arrs) as Hk by (rewrite SR in Hc; apply (in_range_insert_nth_lt s c ax _ Hax Hc)).
  rewrite (locate_units ax _ c (unit_view s ax first)).
  - rewrite (nth_map_lt (unit_view s ax) arrs _ first) by exact Hk.
    set (a := nth (nth ax c 0) arrs first).
    assert (In a arrs) as Ha by (apply nth_In; exact Hk). destruct (Fa a Ha) as [W S].
    rewrite <- S. rewrite get_unit_view.
    + f_equal. rewrite (upd_as_insert_remove c ax 0 Lc). apply remove_insert_nth.
      rewrite remove_nth_length by exact Lc. lia.
    + unfold ndim. rewrite S. exact Hax.
    + rewrite S. rewrite (upd_as_insert_remove c ax 0 Lc). apply in_range_insert; [exact Hax | | lia].
      rewrite SR in Hc. now apply (in_range_insert_inv _ _ ax (length arrs)).
  - apply Forall_forall. intros u Hu. apply in_map_iff in Hu as (a0 & <- & _). unfold unit_view. cbn [shape].
    apply nth_insert_nth. exact Hax.
  - exact Lc.
  - rewrite map_length. exact Hk.
Qed.

(* STACK: n inputs of one shape s (rank >= 1, positive extents) along a new axis ax <= rank *)
Theorem stack_spec s ax (first : arr T) rest :
  1 <= length s -> pos_shape s -> ax <= length s -> (Z.of_nat (S (length s)) < two64)%Z ->
  Forall (fun a => wf a /\ shape a = s) (first :: rest) ->
  exists R, stack d (first :: rest) (Some ax) = Ok R /\ wf R /\
    shape R = insert_nth s ax (length (first :: rest)) /\
    forall c, in_range (shape R) c ->
      get d R c = get d (nth (nth ax c 0) (first :: rest) first) (remove_nth c ax).
Proof.
  intros R1 P Hax B F. destruct (concat_units s ax first rest R1 P Hax B F) as (R & E & Rest).
  exists R. split; [|exact Rest]. clear Rest. set (arrs := first :: rest) in *.
  assert (forall a, In a arrs -> wf a /\ shape a = s) as Fa by (apply Forall_forall; exact F).
  unfold stack. fold arrs.
  assert (all_same_shape arrs = true) as ->.
  { unfold all_same_shape. apply forallb_forall. intros [x y] Hin. cbn [fst snd]. apply nat_list_eqb_spec.
    pose proof (in_combine_l _ _ _ _ Hin) as Hx. pose proof (in_combine_r _ _ _ _ Hin) as Hy.
    assert (In y arrs) as Hy' by (unfold arrs in *; cbn [tl] in Hy; now right).
    destruct (Fa x Hx) as [_ ->]. destruct (Fa y Hy') as [_ ->]. reflexivity. }
  cbn [negb].
  assert (shape first = s) as Sf by (apply (Fa first); now left).
  unfold arrs at 1. cbv iota.
  assert (ndim first <? ax = false) as -> by (apply Nat.ltb_ge; unfold ndim; rewrite Sf; exact Hax).
  rewrite (mapM_ok _ (unit_view s ax)).
  2:{ intros a Ha. destruct (Fa a Ha) as [W S]. rewrite <- S. apply expand_dims_unit; [exact W | unfold ndim; rewrite S; exact Hax]. }
  cbn [bind]. exact E.
Qed.

(* DSTACK of matrices: rank-2 inputs of one shape [r; c] are promoted to [r; c; 1] and joined along axis 2 —
   the result is the stack along a new last axis *)
Theorem dstack_matrices r c (first : arr T) rest :
  0 < r -> 0 < c -> Forall (fun a => wf a /\ shape a = [r; c]) (first :: rest) ->
  exists R, dstack d (first :: rest) = Ok R /\ wf R /\ shape R = [r; c; length (first :: rest)] /\
    forall i j k, i < r -> j < c -> k < length (first :: rest) ->
      get d R [i; j; k] = get d (nth k (first :: rest) first) [i; j].
Proof.
  intros Hr Hc F.
  destruct (concat_units [r; c] 2 first rest ltac:(cbn; lia) ltac:(repeat constructor; lia) ltac:(cbn; lia)
              ltac:(cbn; unfold two64; lia) F) as (R & E & WR & SR & G).
  exists R. set (arrs := first :: rest) in *.
  assert (forall a, In a arrs -> wf a /\ shape a = [r; c]) as Fa by (apply Forall_forall; exact F).
  cbn [insert_nth] in SR.
  split; [|split; [exact WR|split; [exact SR|]]].
  - unfold dstack. unfold arrs at 1. cbv iota. fold arrs.
    rewrite (mapM_ok _ (unit_view [r; c] 2)).
    2:{ intros a Ha. destruct (Fa a Ha) as [W S]. unfold atleast, ndim. rewrite S. cbn [length Nat.leb].
        unfold unit_view. cbn [insert_nth]. apply reshape_iff. unfold len. rewrite W, S. cbn. lia. }
    cbn [bind].
    assert (validate_stack_shapes (map (unit_view [r; c] 2) arrs) 2 2 = Ok tt) as ->.
    { apply (validate_ok 2 [r; c] 3); [lia|]. apply Forall_forall. intros u Hu. apply in_map_iff in Hu as (a & <- & Ha).
      destruct (Fa a Ha) as [W S]. unfold joinable, unit_view. cbn [shape elems insert_nth]. repeat split.
      - unfold wf. cbn [shape elems]. rewrite W, S. cbn. lia.
      - repeat constructor; lia. }
    cbn [bind]. unfold arrs at 1. cbn [map]. fold arrs. rewrite E. cbn [bind].
    replace (upd (shape (unit_view [r; c] 2 first)) 2 (sum_axis (map (unit_view [r; c] 2) arrs) 2)) with (shape R).
    + destruct R as [es sh]. apply reshape_iff. unfold len. symmetry. exact WR.
    + rewrite SR. unfold unit_view at 1. cbn [shape insert_nth upd]. do 2 f_equal. unfold sum_axis.
      assert (forall l k, fold_left (fun (s0 : nat) (a : arr T) => s0 + nth 2 (shape a) 0) (map (unit_view [r; c] 2) l) k = k + length l) as K.
      { induction l as [|h t IH]; intros k; cbn [map fold_left length]; [lia|]. rewrite IH. unfold unit_view. cbn. lia. }
      rewrite K. reflexivity.
  - intros i j k Hi Hj Hk. rewrite (G [i; j; k]); [reflexivity|]. rewrite SR. cbn [in_range]. repeat split; assumption.
Qed.

End StackSpec.

(* ---------- rank-1 joins along axis 0: the element lists are chained ---------- *)
Section Rank1.
Context {T : Type} (d : T).

Lemma transpose_rank1_id (r : arr T) n : wf r -> shape r = [n] -> transpose d r (Some [0%Z]) = Ok r.
Proof.
  intros W S.
  assert (is_perm [0] (ndim r)) as P.
  { unfold is_perm, ndim. rewrite S. cbn. repeat split; [repeat constructor; auto | repeat constructor]. }
  change [0%Z] with (map Z.of_nat [0]). rewrite (transpose_of_perm d r [0] P).
  destruct (transpose_perm_ok d r [0] W ltac:(unfold ndim; rewrite S; cbn; lia) P) as (r' & E & W' & S' & G & _).
  rewrite E. f_equal. apply (array_ext d); auto.
  - rewrite S', S. reflexivity.
  - intros c Hc. rewrite S', S in Hc. cbn [pick map nth] in Hc. destruct c as [|i [|? ?]]; cbn [in_range] in Hc; try tauto.
    specialize (G [i]). rewrite S in G. cbn [pick map nth] in G. apply G. exact Hc.
Qed.

Theorem append_rank1 (a v : arr T) na nv : wf a -> wf v -> shape a = [na] -> shape v = [nv] ->
  append d a v (Some 0) = Ok (mk (elems a ++ elems v) [na + nv]).
Proof.
  intros Wa Wv Sa Sv. unfold append, ndim. rewrite Sa, Sv. cbn [length Nat.ltb Nat.leb guard bind Nat.eqb negb remove_nth].
  cbn [nat_list_eqb list_eqb negb].
  unfold split_axis, ndim. rewrite Sa, Sv. cbn [length Nat.ltb Nat.leb guard bind Nat.eqb orb].
  rewrite !Bool.orb_true_r. cbn [bind app flat_map]. rewrite app_nil_r, flat_arr_ok. cbn [bind prod Nat.eqb].
  unfold len. cbn [elems]. rewrite Nat.div_1_r. cbn [upd swap_list nth seq map insert_nth Nat.sub].
  unfold swap_list. cbn [upd nth].
  assert (length (elems a ++ elems v) = na + nv) as L.
  { rewrite app_length. unfold wf in Wa, Wv. rewrite Sa in Wa. rewrite Sv in Wv. cbn in Wa, Wv. lia. }
  rewrite L.
  assert (reshape (mk (elems a ++ elems v) [na + nv]) [na + nv] = Ok (mk (elems a ++ elems v) [na + nv])) as R.
  { apply reshape_iff. unfold len. cbn. lia. }
  rewrite R. cbn [bind].
  rewrite (transpose_rank1_id _ (na + nv)); [| unfold wf; cbn; lia | reflexivity].
  cbn [bind]. exact R.
Qed.

(* concatenation of rank-1 arrays along axis 0 *)
Definition chain (arrs : list (arr T)) : list T := flat_map (@elems T) arrs.

Theorem concatenate_rank1 (first : arr T) rest :
  Forall (fun a => wf a /\ ndim a = 1) (first :: rest) ->
  concatenate d (first :: rest) (Some 0) = Ok (mk (chain (first :: rest)) [length (chain (first :: rest))]).
Proof.
  intros F. unfold concatenate.
  assert (validate_stack_shapes (first :: rest) 0 0 = Ok tt) as ->.
  { unfold validate_stack_shapes.
    assert (forallb (fun a : arr T => 0 <? ndim a) (first :: rest) = true) as ->.
    { apply forallb_forall. intros a Ha. rewrite Forall_forall in F. destruct (F a Ha) as [_ ->]. reflexivity. }
    cbn [guard bind negb].
    assert (map (fun a : arr T => remove_nth (shape a) 0) (first :: rest) = repeat [] (length (first :: rest))) as ->.
    { induction (first :: rest) as [|a t IH]; [reflexivity|]. apply Forall_cons_iff in F as [[_ N] Ft].
      cbn [map length repeat]. rewrite IH by exact Ft. f_equal. unfold ndim in N. destruct (shape a) as [|x [|? ?]]; cbn in *; try lia; reflexivity. }
    assert (forall k, forallb (fun p : list nat * list nat => nat_list_eqb (fst p) (snd p)) (combine (repeat [] k) (tl (repeat [] k))) = true) as K.
    { induction k as [|k IHk]; [reflexivity|]. cbn [repeat tl]. destruct k as [|k]; [reflexivity|].
      cbn [repeat combine forallb fst snd]. exact IHk. }
    rewrite K. reflexivity. }
  cbn [bind]. apply Forall_cons_iff in F as [[Wf Nf] Ft].
  assert (forall acc, wf acc -> ndim acc = 1 ->
            fold_left (fun (r : res (arr T)) b => let* a := r in unwrap (append d a b (Some 0))) rest (Ok acc)
            = Ok (mk (elems acc ++ chain rest) [length (elems acc ++ chain rest)])) as K.
  { clear Wf Nf. induction rest as [|b t IH]; intros acc Wa Na; cbn [fold_left chain flat_map].
    - rewrite app_nil_r. destruct acc as [es sh]. unfold ndim in Na. cbn in *. destruct sh as [|n [|? ?]]; cbn in Na; try lia.
      unfold wf in Wa. cbn in Wa. f_equal. f_equal. f_equal. lia.
    - apply Forall_cons_iff in Ft as [[Wb Nb] Ft']. cbn [bind].
      assert (exists na, shape acc = [na]) as [na Sa] by (unfold ndim in Na; destruct (shape acc) as [|x [|? ?]]; cbn in Na; try lia; eauto).
      assert (exists nb, shape b = [nb]) as [nb Sb] by (unfold ndim in Nb; destruct (shape b) as [|x [|? ?]]; cbn in Nb; try lia; eauto).
      rewrite (append_rank1 acc b na nb Wa Wb Sa Sb). cbn [unwrap].
      rewrite (IH Ft'); [| unfold wf; cbn; rewrite app_length; unfold wf in Wa, Wb; rewrite Sa in Wa; rewrite Sb in Wb; cbn in Wa, Wb; lia | reflexivity].
      cbn [elems]. fold (chain t). rewrite <- app_assoc. reflexivity. }
  rewrite (K first Wf Nf). reflexivity.
Qed.

(* hstack of rank-1 inputs is that concatenation *)
Theorem hstack_rank1 (first : arr T) rest :
  Forall (fun a => wf a /\ ndim a = 1) (first :: rest) ->
  hstack_spec d (first :: rest) = Ok (mk (chain (first :: rest)) [length (chain (first :: rest))]) /\
  hstack_pinned d (first :: rest) = hstack_spec d (first :: rest).
Proof.
  intros F. unfold hstack_spec, hstack_pinned, hstack_gen.
  assert (forallb (fun a : arr T => ndim a =? 1) (first :: rest) = true) as ->.
  { apply forallb_forall. intros a Ha. rewrite Forall_forall in F. destruct (F a Ha) as [_ ->]. reflexivity. }
  split; [apply concatenate_rank1; exact F | reflexivity].
Qed.

Lemma nth_chain l (arrs : list (arr T)) dummy : forall k j,
  Forall (fun a => wf a /\ shape a = [l]) arrs -> k < length arrs -> j < l ->
  nth (k * l + j) (chain arrs) d = nth j (elems (nth k arrs dummy)) d.
Proof.
  induction arrs as [|a t IH]; intros k j F Hk Hj; cbn [length] in Hk; [lia|].
  apply Forall_cons_iff in F as [[W Sh] Ft]. unfold chain. cbn [flat_map].
  assert (length (elems a) = l) as La by (unfold wf in W; rewrite Sh in W; cbn in W; lia).
  destruct k as [|k]; cbn [nth].
  - rewrite app_nth1 by lia. reflexivity.
  - rewrite app_nth2 by lia. replace (S k * l + j - length (elems a)) with (k * l + j) by lia.
    apply (IH k j Ft); lia.
Qed.

(* vstack of n rank-1 inputs of one length l: the n x l matrix whose row k is input k *)
Theorem vstack_rank1 l (first : arr T) rest :
  Forall (fun a => wf a /\ shape a = [l]) (first :: rest) ->
  exists R, vstack d (first :: rest) = Ok R /\ wf R /\ shape R = [length (first :: rest); l] /\
    forall k j, k < length (first :: rest) -> j < l -> get d R [k; j] = nth j (elems (nth k (first :: rest) first)) d.
Proof.
  intros F. set (arrs := first :: rest) in *.
  assert (Forall (fun a : arr T => wf a /\ ndim a = 1) arrs) as F1.
  { eapply Forall_impl; [|exact F]. cbn. intros a [W S]. split; [exact W | unfold ndim; now rewrite S]. }
  assert (forall (l0 : list (arr T)), Forall (fun a => wf a /\ shape a = [l]) l0 -> length (chain l0) = length l0 * l) as CL.
  { induction l0 as [|a t IH]; intros Fl; [reflexivity|]. apply Forall_cons_iff in Fl as [[W S] Ft].
    unfold chain in *. cbn [flat_map length]. rewrite app_length, IH by exact Ft. unfold wf in W. rewrite S in W. cbn in W. lia. }
  exists (mk (chain arrs) [length arrs; l]).
  assert (shape first = [l]) as Sf by (apply Forall_cons_iff in F as [[_ S] _]; exact S).
  split; [|split; [|split; [reflexivity|]]].
  - unfold vstack. unfold arrs at 1. cbv iota. fold arrs.
    assert (validate_stack_shapes arrs 0 0 = Ok tt) as ->.
    { pose proof (concatenate_rank1 first rest F1) as C. unfold concatenate in C. fold arrs in C.
      destruct (validate_stack_shapes arrs 0 0) as [[]| | |]; try discriminate; reflexivity. }
    cbn [bind]. unfold ndim at 1 2. rewrite Sf. cbn [length Nat.eqb].
    assert (forallb (fun a : arr T => nat_list_eqb (shape a) [l]) arrs = true) as ->.
    { apply forallb_forall. intros a Ha. rewrite Forall_forall in F. destruct (F a Ha) as [_ ->]. now apply nat_list_eqb_spec. }
    cbn [guard bind].
    unfold arrs at 1. rewrite (concatenate_rank1 first rest F1). fold arrs. cbn [bind].
    apply reshape_iff. unfold len. cbn [elems prod]. rewrite (CL arrs F). lia.
  - unfold wf. cbn [elems shape prod]. rewrite (CL arrs F). lia.
  - intros k j Hk Hj. unfold get. cbn [shape elems flat prod].
    replace (k * (l * 1) + (j * 1 + 0)) with (k * l + j) by lia. apply nth_chain; assumption.
Qed.

(* vectors of different lengths are refused (repair F30: the pinned code chained them and cut rows of the first
   one's length, so vstack [1,2] [3] [4,5,6] was answered with [[1,2],[3,4],[5,6]]) *)
Theorem vstack_rank1_ragged (first : arr T) rest x :
  Forall (fun a => ndim a = 1) (first :: rest) -> In x rest -> shape x <> shape first ->
  vstack d (first :: rest) = Err EConcat.
Proof.
  intros F Hx Ne. unfold vstack.
  assert (validate_stack_shapes (first :: rest) 0 0 = Ok tt) as ->.
  { unfold validate_stack_shapes.
    assert (forallb (fun a : arr T => 0 <? ndim a) (first :: rest) = true) as ->.
    { apply forallb_forall. intros a Ha. rewrite Forall_forall in F. rewrite (F a Ha). reflexivity. }
    cbn [guard bind negb].
    assert (map (fun a : arr T => remove_nth (shape a) 0) (first :: rest) = repeat [] (length (first :: rest))) as ->.
    { induction (first :: rest) as [|a t IH]; [reflexivity|]. apply Forall_cons_iff in F as [N Ft].
      cbn [map length repeat]. rewrite IH by exact Ft. f_equal. unfold ndim in N. destruct (shape a) as [|y [|? ?]]; cbn in *; try lia; reflexivity. }
    assert (forall k, forallb (fun p : list nat * list nat => nat_list_eqb (fst p) (snd p)) (combine (repeat [] k) (tl (repeat [] k))) = true) as K.
    { induction k as [|k IHk]; [reflexivity|]. cbn [repeat tl]. destruct k as [|k]; [reflexivity|].
      cbn [repeat combine forallb fst snd]. exact IHk. }
    rewrite K. reflexivity. }
  cbn [bind]. apply Forall_cons_iff in F as [Nf _]. rewrite Nf. cbn [Nat.eqb].
  assert (forallb (fun a : arr T => nat_list_eqb (shape a) (shape first)) (first :: rest) = false) as ->; [|reflexivity].
  apply Bool.not_true_is_false. intros Hall. rewrite forallb_forall in Hall.
  specialize (Hall x ltac:(now right)). apply nat_list_eqb_spec in Hall. contradiction.
Qed.

End Rank1.

(* ---------- vstack / hstack / dstack of inputs that already have the required rank: they are the concatenation
   along axis 0 / 1 / 2 (the final reshape to the summed extent is the identity) ---------- *)
Section StackAxis.
Context {T : Type} (d : T).

Lemma concatenate_restack ax rs n (first : arr T) rest :
  2 <= n -> ax < n -> (Z.of_nat n < two64)%Z -> Forall (joinable ax rs n) (first :: rest) ->
  exists R, concatenate d (first :: rest) (Some ax) = Ok R /\
    reshape R (upd (shape first) ax (sum_axis (first :: rest) ax)) = Ok R.
Proof.
  intros N2 Hax B F. destruct (concatenate_axis_spec d ax rs n first rest N2 Hax B F) as (R & E & WR & RR & NR & SX & _).
  exists R. split; [exact E|].
  apply Forall_cons_iff in F as [(Wf & Pf & Nf & Rf) _].
  assert (upd (shape first) ax (sum_axis (first :: rest) ax) = shape R) as ->.
  { rewrite upd_as_insert_remove by (unfold ndim in Nf; lia). rewrite Rf.
    rewrite <- (insert_remove_nth_self (shape R) ax) by (unfold ndim in NR; lia). rewrite RR, SX.
    unfold sum_axis. cbn [fold_left]. reflexivity. }
  destruct R as [es sh]. apply reshape_iff. unfold len. symmetry. exact WR.
Qed.

Theorem vstack_axis rs n (first : arr T) rest :
  2 <= n -> (Z.of_nat n < two64)%Z -> Forall (joinable 0 rs n) (first :: rest) ->
  exists R, concatenate d (first :: rest) (Some 0) = Ok R /\ vstack d (first :: rest) = Ok R.
Proof.
  intros N2 B F. destruct (concatenate_restack 0 rs n first rest N2 ltac:(lia) B F) as (R & E & RS).
  exists R. split; [exact E|]. unfold vstack. rewrite (validate_ok 0 rs n _ ltac:(lia) F). cbn [bind].
  apply Forall_cons_iff in F as [(_ & _ & Nf & _) _].
  destruct (Nat.eqb_spec (ndim first) 1) as [E1|_]; [lia|]. cbn [bind]. rewrite E. cbn [bind]. exact RS.
Qed.

Lemma mapM_atleast_id k (arrs : list (arr T)) : k = 2 \/ k = 3 -> Forall (fun a => k <= ndim a) arrs ->
  mapM (fun a => atleast a k) arrs = Ok arrs.
Proof.
  intros Hk F. rewrite <- (map_id arrs) at 2. apply mapM_ok. intros a Ha. rewrite Forall_forall in F. specialize (F a Ha).
  unfold atleast. destruct Hk as [-> | ->].
  - destruct (Nat.leb_spec 2 (ndim a)); [reflexivity | lia].
  - destruct (Nat.leb_spec 3 (ndim a)); [reflexivity | lia].
Qed.

Theorem hstack_axis rs n (first : arr T) rest :
  2 <= n -> (Z.of_nat n < two64)%Z -> Forall (joinable 1 rs n) (first :: rest) ->
  exists R, concatenate d (first :: rest) (Some 1) = Ok R /\ hstack_spec d (first :: rest) = Ok R.
Proof.
  intros N2 B F. destruct (concatenate_restack 1 rs n first rest N2 ltac:(lia) B F) as (R & E & RS).
  exists R. split; [exact E|]. unfold hstack_spec, hstack_gen.
  assert (forallb (fun a : arr T => ndim a =? 1) (first :: rest) = false) as ->.
  { cbn [forallb]. apply Forall_cons_iff in F as [(_ & _ & Nf & _) _]. destruct (Nat.eqb_spec (ndim first) 1); [lia | reflexivity]. }
  rewrite (mapM_atleast_id 2); [| now left | eapply Forall_impl; [|exact F]; cbn; intros a (_ & _ & Na & _); lia].
  cbn [bind]. rewrite (validate_ok 1 rs n _ ltac:(lia) F). cbn [bind]. rewrite E. cbn [bind]. exact RS.
Qed.

Theorem dstack_axis rs n (first : arr T) rest :
  3 <= n -> (Z.of_nat n < two64)%Z -> Forall (joinable 2 rs n) (first :: rest) ->
  exists R, concatenate d (first :: rest) (Some 2) = Ok R /\ dstack d (first :: rest) = Ok R.
Proof.
  intros N3 B F. destruct (concatenate_restack 2 rs n first rest ltac:(lia) ltac:(lia) B F) as (R & E & RS).
  exists R. split; [exact E|]. unfold dstack.
  rewrite (mapM_atleast_id 3); [| now right | eapply Forall_impl; [|exact F]; cbn; intros a (_ & _ & Na & _); lia].
  cbn [bind]. rewrite (validate_ok 2 rs n _ ltac:(lia) F). cbn [bind]. rewrite E. cbn [bind]. exact RS.
Qed.

End StackAxis.

(* ---------- column_stack: vectors become columns, matrices keep theirs, laid side by side ---------- *)
Section ColumnStack.
Context {T : Type} (d : T).

Definition ncols (a : arr T) : nat := if ndim a =? 1 then 1 else nth 1 (shape a) 0.

(* where entry (i, j) of the result comes from: walk the inputs, subtracting their column counts *)
Fixpoint col_locate (arrs : list (arr T)) (i j : nat) : T :=
  match arrs with
  | [] => d
  | a :: t => if j <? ncols a then nth (i * ncols a + j) (elems a) d else col_locate t i (j - ncols a)
  end.

Definition total_cols (arrs : list (arr T)) : nat := fold_left (fun s a => s + ncols a) arrs 0.

(* an input of column_stack with r rows: a vector of r elements or an r x c matrix *)
Definition column_input (r : nat) (a : arr T) : Prop := wf a /\ (shape a = [r] \/ exists c, shape a = [r; c]).

Lemma column_input_len r a : column_input r a -> length (elems a) = r * ncols a.
Proof.
  intros [W [S | [c S]]]; unfold wf in W; unfold ncols, ndim; rewrite S in *; cbn in *; lia.
Qed.

Lemma fold_cols_shift (arrs : list (arr T)) k : fold_left (fun s a => s + ncols a) arrs k = k + total_cols arrs.
Proof.
  unfold total_cols. revert k; induction arrs as [|a t IH]; intros k; cbn [fold_left]; [lia|].
  rewrite IH, (IH (0 + ncols a)). lia.
Qed.

Lemma row_segment_length r (a : arr T) i : column_input r a -> i < r ->
  length (firstn (ncols a) (skipn (i * ncols a) (elems a))) = ncols a.
Proof. intros C Hi. apply column_input_len in C. rewrite firstn_length, skipn_length, C. nia. Qed.

Lemma row_segments r (arrs : list (arr T)) i : Forall (column_input r) arrs -> i < r ->
  length (flat_map (fun a => firstn (ncols a) (skipn (i * ncols a) (elems a))) arrs) = total_cols arrs /\
  forall j, j < total_cols arrs ->
    nth j (flat_map (fun a => firstn (ncols a) (skipn (i * ncols a) (elems a))) arrs) d = col_locate arrs i j.
Proof.
  intros F Hi. induction arrs as [|a t IH]; cbn [flat_map col_locate].
  - split; [reflexivity | intros j Hj; unfold total_cols in Hj; cbn in Hj; lia].
  - apply Forall_cons_iff in F as [Ca Ft]. destruct (IH Ft) as [L G].
    pose proof (row_segment_length r a i Ca Hi) as La.
    assert (total_cols (a :: t) = ncols a + total_cols t) as TC by (unfold total_cols at 1; cbn [fold_left]; now rewrite fold_cols_shift).
    split; [rewrite app_length, La, L, TC; reflexivity|].
    intros j Hj. rewrite TC in Hj. destruct (Nat.ltb_spec j (ncols a)) as [Lt|Ge].
    + rewrite app_nth1 by lia. rewrite nth_firstn_lt by exact Lt. rewrite nth_skipn_add. reflexivity.
    + rewrite app_nth2 by lia. rewrite La. apply G. lia.
Qed.

Theorem column_stack_spec r (first : arr T) rest :
  Forall (column_input r) (first :: rest) ->
  exists R, column_stack (first :: rest) = Ok R /\ wf R /\ shape R = [r; total_cols (first :: rest)] /\
    forall i j, i < r -> j < total_cols (first :: rest) -> get d R [i; j] = col_locate (first :: rest) i j.
Proof.
  intros F. set (arrs := first :: rest) in *.
  assert (forall a, In a arrs -> column_input r a) as Fa by (apply Forall_forall; exact F).
  set (body := flat_map (fun row => flat_map (fun a : arr T => firstn (ncols a) (skipn (row * ncols a) (elems a))) arrs) (seq 0 r)).
  assert (length body = r * total_cols arrs) as Lb.
  { unfold body. rewrite (length_flat_map_uniform _ _ (total_cols arrs)); [now rewrite seq_length|].
    intros row Hrow. apply in_seq in Hrow. apply (row_segments r arrs row F). lia. }
  exists (mk body [r; total_cols arrs]).
  split; [|split; [|split; [reflexivity|]]].
  - unfold column_stack. unfold arrs at 1. cbv iota.
    assert (exists tl_, shape first = r :: tl_) as [tl_ Sf].
    { destruct (Fa first ltac:(now left)) as [_ [S | [c S]]]; rewrite S; eauto. }
    rewrite Sf. fold arrs.
    assert (forallb (fun a : arr T => (ndim a =? 1) || (ndim a =? 2)) arrs = true) as ->.
    { apply forallb_forall. intros a Ha. destruct (Fa a Ha) as [_ [S | [c S]]]; unfold ndim; rewrite S; reflexivity. }
    cbn [guard bind].
    assert (forallb (fun a : arr T => nth 0 (shape a) 0 =? r) arrs = true) as ->.
    { apply forallb_forall. intros a Ha. destruct (Fa a Ha) as [_ [S | [c S]]]; rewrite S; cbn [nth]; apply Nat.eqb_refl. }
    cbn [negb]. change (fold_left (fun (s : nat) (a : arr T) => s + (if ndim a =? 1 then 1 else nth 1 (shape a) 0)) arrs 0) with (total_cols arrs).
    change (flat_map _ (seq 0 r)) with body.
    apply new_iff. split; [|reflexivity]. cbn [prod]. rewrite Lb. lia.
  - unfold wf. cbn [elems shape prod]. rewrite Lb. lia.
  - intros i j Hi Hj. unfold get. cbn [shape elems flat prod].
    replace (i * (total_cols arrs * 1) + (j * 1 + 0)) with (i * total_cols arrs + j) by lia.
    unfold body. rewrite (nth_flat_map_uniform _ _ (total_cols arrs) i j 0 d).
    + rewrite seq_nth by exact Hi. cbn [Nat.add]. apply (row_segments r arrs i F Hi). exact Hj.
    + intros row Hrow. apply in_seq in Hrow. apply (row_segments r arrs row F). lia.
    + now rewrite seq_length.
    + exact Hj.
Qed.

End ColumnStack.

(* ---------- dstack of vectors: n vectors of one length l become the 1 x l x n array whose entry (0, j, k) is
   element j of input k (each vector is promoted to [1; l; 1] and the promoted inputs are joined along axis 2) ---------- *)
Section DstackVectors.
Context {T : Type} (d : T).

Definition as_row (l : nat) (a : arr T) : arr T := mk (elems a) [1; l].

Theorem dstack_vectors l (first : arr T) rest :
  0 < l -> Forall (fun a => wf a /\ shape a = [l]) (first :: rest) ->
  exists R, dstack d (first :: rest) = Ok R /\ wf R /\ shape R = [1; l; length (first :: rest)] /\
    forall j k, j < l -> k < length (first :: rest) ->
      get d R [0; j; k] = nth j (elems (nth k (first :: rest) first)) d.
Proof.
  intros Hl F. set (arrs := first :: rest) in *.
  assert (forall a, In a arrs -> wf a /\ shape a = [l]) as Fa by (apply Forall_forall; exact F).
  assert (Forall (fun a => wf a /\ shape a = [1; l]) (map (as_row l) arrs)) as F'.
  { apply Forall_forall. intros u Hu. apply in_map_iff in Hu as (a & <- & Ha). destruct (Fa a Ha) as [W S].
    unfold as_row. cbn [shape elems]. split; [|reflexivity]. unfold wf in *. cbn [shape elems prod]. rewrite W, S. cbn. lia. }
  destruct (concat_units d [1; l] 2 (as_row l first) (map (as_row l) rest) ltac:(cbn; lia) ltac:(repeat constructor; lia)
              ltac:(cbn; lia) ltac:(cbn; unfold two64; lia) F') as (R & E & WR & SR & G).
  assert (length (as_row l first :: map (as_row l) rest) = length arrs) as Ln by (unfold arrs; cbn [length]; now rewrite map_length).
  exists R. cbn [insert_nth] in SR. rewrite Ln in SR.
  split; [|split; [exact WR|split; [rewrite SR; reflexivity|]]].
  - unfold dstack. unfold arrs at 1. cbv iota. fold arrs.
    rewrite (mapM_ok _ (fun a => unit_view [1; l] 2 (as_row l a))).
    2:{ intros a Ha. destruct (Fa a Ha) as [W S]. unfold atleast, ndim. rewrite S. cbn [length Nat.leb].
        unfold unit_view, as_row. cbn [insert_nth elems]. apply reshape_iff. unfold len. rewrite W, S. cbn. lia. }
    cbn [bind]. rewrite <- map_map.
    assert (validate_stack_shapes (map (unit_view [1; l] 2) (map (as_row l) arrs)) 2 2 = Ok tt) as ->.
    { apply (validate_ok 2 [1; l] 3); [lia|]. apply Forall_forall. intros u Hu. apply in_map_iff in Hu as (a & <- & Ha).
      rewrite Forall_forall in F'. destruct (F' a Ha) as [W S]. unfold joinable, unit_view. cbn [shape elems insert_nth]. repeat split.
      - unfold wf in *. cbn [shape elems] in *. rewrite W, S. cbn. lia.
      - repeat constructor; lia. }
    cbn [bind]. change (map (as_row l) arrs) with (as_row l first :: map (as_row l) rest).
    rewrite E. cbn [bind map].
    change (unit_view [1; l] 2 (as_row l first) :: map (unit_view [1; l] 2) (map (as_row l) rest))
      with (map (unit_view [1; l] 2) (as_row l first :: map (as_row l) rest)).
    replace (upd (shape (unit_view [1; l] 2 (as_row l first))) 2
               (sum_axis (map (unit_view [1; l] 2) (as_row l first :: map (as_row l) rest)) 2)) with (shape R).
    + destruct R as [es sh]. apply reshape_iff. unfold len. symmetry. exact WR.
    + rewrite SR. unfold unit_view at 1. cbn [shape insert_nth upd]. do 2 f_equal. unfold sum_axis.
      assert (forall l0 k, fold_left (fun (s0 : nat) (a : arr T) => s0 + nth 2 (shape a) 0) (map (unit_view [1; l] 2) l0) k = k + length l0) as K.
      { induction l0 as [|h t IH]; intros k; cbn [map fold_left length]; [lia|]. rewrite IH. unfold unit_view. cbn. lia. }
      rewrite K. rewrite Ln. reflexivity.
  - intros j k Hj Hk. rewrite (G [0; j; k]).
    + change (as_row l first :: map (as_row l) rest) with (map (as_row l) arrs).
      change (nth 2 [0; j; k] 0) with k. change (remove_nth [0; j; k] 2) with [0; j].
      rewrite (nth_map_lt (as_row l) arrs _ first) by exact Hk. unfold get, as_row. cbn [shape elems flat prod]. f_equal. lia.
    + rewrite SR. cbn [in_range]. repeat split; try lia.
Qed.

End DstackVectors.

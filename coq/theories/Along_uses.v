(* Instances of the lane theorem (Along_proofs.v) for the operations that are a 1-D body applied along an axis:
   sort (C10), pack_bits / unpack_bits (C19), delete with an axis (C13). *)
From ArrRs Require Import Index Index_proofs Lists_proofs Axis Axis_proofs Reshape_proofs Broadcast_proofs Split Lift Reduce
  Along_proofs Sort Sort_proofs Bits Bits_proofs Edit Edit_proofs.
From Coq Require Import Permutation Sorted.

(* ---------- C10: sorting along an axis sorts every lane ---------- *)
Section SortAxis.
Context {T : Type} (ltb : T -> T -> bool) (d : T).
Hypothesis lt_le : forall x y, ltb x y = true -> le ltb x y.
Hypothesis le_trans : forall x y z, le ltb x y -> le ltb y z -> le ltb x z.

(* every kind terminates and rearranges; merge sort and quicksort also order *)
Lemma sort_list_total k l : exists r, sort_list ltb d k l = Ok r /\ Permutation l r /\
  (k = Quicksort \/ k = Mergesort -> sorted ltb r).
Proof.
  destruct k; cbn [sort_list].
  - destruct (quick_sort_spec ltb lt_le le_trans l) as (r & E & S & P). exists r. auto.
  - destruct (merge_sort_spec ltb lt_le le_trans l) as (r & E & S & P). exists r. auto.
  - destruct (heap_sort_perm ltb d l) as (r & E & P). exists r. repeat split; auto. intros [H|H]; discriminate.
  - destruct (tim_sort_perm ltb d l) as (r & E & P). exists r. repeat split; auto. intros [H|H]; discriminate.
Qed.

Definition sorted_of (k : sort_kind) (l : list T) : list T :=
  match sort_list ltb d k l with Ok r => r | _ => l end.

Lemma sorted_of_spec k l : sort_list ltb d k l = Ok (sorted_of k l) /\ Permutation l (sorted_of k l) /\
  (k = Quicksort \/ k = Mergesort -> sorted ltb (sorted_of k l)).
Proof. unfold sorted_of. destruct (sort_list_total k l) as (r & E & P & S). rewrite E. auto. Qed.

(* the result keeps the shape; along the axis every lane of the result is the sorted rearrangement of the
   corresponding lane of the input (a permutation of it for every kind, ordered for quicksort and merge sort) *)
Theorem sort_axis_spec (a : arr T) z k :
  wf a -> pos_shape (shape a) -> (Z.of_nat (ndim a) < two64)%Z -> axis_ok (ndim a) z ->
  let ax := norm_nat (ndim a) z in
  exists R, sort_arr ltb d a (Some z) (Ok k) = Ok R /\ wf R /\ shape R = shape a /\
    forall c, in_range (shape a) c ->
      let ln := elems (lane d a ax (remove_nth c ax)) in
      get d R c = nth (nth ax c 0) (sorted_of k ln) d /\ Permutation ln (sorted_of k ln) /\
      (k = Quicksort \/ k = Mergesort -> sorted ltb (sorted_of k ln)).
Proof.
  intros W P B Hz ax. destruct (normalize_axis_ok _ _ B Hz) as [En Lax]. fold ax in En, Lax.
  unfold sort_arr. cbn [bind]. rewrite En. destruct (Z.ltb_spec (Z.of_nat ax) (Z.of_nat (ndim a))); [|lia].
  cbn [guard bind]. rewrite Nat2Z.id.
  destruct (along_flat_spec d d a ax (sort1 ltb d k) (sorted_of k) (nth ax (shape a) 0) W P Lax B) as (R & E & WR & SR & GR).
  - intros ln _ _. unfold sort1. destruct (sorted_of_spec k (elems ln)) as (E & _). rewrite E. reflexivity.
  - intros l Hl. destruct (sorted_of_spec k l) as (_ & Pm & _). rewrite <- Hl. symmetry. apply Permutation_length, Pm.
  - exists R. split; [exact E|]. split; [exact WR|].
    assert (shape R = shape a) as S' by (rewrite SR; apply upd_same; exact Lax).
    split; [exact S'|]. intros c Hc. cbn zeta. rewrite <- S' in Hc. split; [apply GR, Hc|].
    destruct (sorted_of_spec k (elems (lane d a ax (remove_nth c ax)))) as (_ & Pm & So). auto.
Qed.

End SortAxis.

(* ---------- C19: unpacking / packing along an axis is the 1-D form on every lane ---------- *)
Lemma pack_flat_length o bits : length (pack_flat o bits) = (length bits + 7) / 8.
Proof.
  unfold pack_flat. rewrite map_length, seq_length.
  pose proof (Nat.div_mod (length bits) 8 ltac:(lia)) as D.
  pose proof (Nat.mod_upper_bound (length bits) 8 ltac:(lia)) as U.
  destruct (Nat.eqb_spec (length bits mod 8) 0) as [E|N].
  - rewrite E in D. replace (length bits + 7) with (7 + (length bits / 8) * 8) by lia.
    rewrite Nat.div_add by lia. cbn. lia.
  - rewrite app_length, repeat_length.
    replace (length bits + (8 - length bits mod 8)) with ((length bits / 8 + 1) * 8) by lia.
    rewrite Nat.div_mul by lia.
    replace (length bits + 7) with ((length bits mod 8 + 7) + (length bits / 8) * 8) by lia.
    rewrite Nat.div_add by lia.
    assert ((length bits mod 8 + 7) / 8 = 1) as ->; [|lia].
    symmetry. apply (Nat.div_unique _ 8 1 (length bits mod 8 - 1)); lia.
Qed.

Theorem unpack_axis_spec (a : arr Z) z o :
  wf a -> pos_shape (shape a) -> (Z.of_nat (ndim a) < two64)%Z -> axis_ok (ndim a) z ->
  let ax := norm_nat (ndim a) z in
  exists R, unpack_bits a (Some z) None (Ok o) = Ok R /\ wf R /\
    shape R = upd (shape a) ax (nth ax (shape a) 0 * 8) /\
    forall c, in_range (shape R) c ->
      get 0%Z R c = nth (nth ax c 0) (unpack_flat o (elems (lane 0%Z a ax (remove_nth c ax)))) 0%Z.
Proof.
  intros W P B Hz ax. destruct (normalize_axis_ok _ _ B Hz) as [En Lax]. fold ax in En, Lax.
  assert (0 < prod (shape a)) as Pp by (apply pos_shape_prod, P).
  unfold unpack_bits, is_empty, len. rewrite W. destruct (Nat.eqb_spec (prod (shape a)) 0); [lia|]. cbn [bind].
  rewrite En. destruct (Z.ltb_spec (Z.of_nat ax) (Z.of_nat (ndim a))); [|lia]. cbn [guard bind]. rewrite Nat2Z.id.
  assert (0 < nth ax (shape a) 0) as HL by (apply pos_shape_nth; auto).
  apply (along_flat_spec 0%Z 0%Z a ax (unpack1 o None) (unpack_flat o)); auto.
  - intros ln Wl Sl. assert (len ln = nth ax (shape a) 0) as Ll by (unfold len; rewrite Wl, Sl; cbn; lia).
    rewrite unpack1_ok by lia. unfold flat_arr. symmetry. apply new_iff. cbn. rewrite unpack_flat_length. unfold len.
    split; [lia | reflexivity].
  - intros l Hl. rewrite unpack_flat_length. lia.
Qed.

Theorem pack_axis_spec (a : arr Z) z o :
  wf a -> pos_shape (shape a) -> (Z.of_nat (ndim a) < two64)%Z -> axis_ok (ndim a) z ->
  let ax := norm_nat (ndim a) z in
  exists R, pack_bits a (Some z) (Ok o) = Ok R /\ wf R /\
    shape R = upd (shape a) ax ((nth ax (shape a) 0 + 7) / 8) /\
    forall c, in_range (shape R) c ->
      get 0%Z R c = nth (nth ax c 0) (pack_flat o (elems (lane 0%Z a ax (remove_nth c ax)))) 0%Z.
Proof.
  intros W P B Hz ax. destruct (normalize_axis_ok _ _ B Hz) as [En Lax]. fold ax in En, Lax.
  assert (0 < prod (shape a)) as Pp by (apply pos_shape_prod, P).
  unfold pack_bits, is_empty, len. rewrite W. destruct (Nat.eqb_spec (prod (shape a)) 0); [lia|]. cbn [bind].
  rewrite En. destruct (Z.ltb_spec (Z.of_nat ax) (Z.of_nat (ndim a))); [|lia]. cbn [guard bind]. rewrite Nat2Z.id.
  assert (0 < nth ax (shape a) 0) as HL by (apply pos_shape_nth; auto).
  apply (along_flat_spec 0%Z 0%Z a ax (pack1 o) (pack_flat o)); auto.
  - intros ln Wl Sl. unfold pack1, is_empty, len. rewrite Wl, Sl. cbn [prod]. rewrite Nat.mul_1_r.
    destruct (Nat.eqb_spec (nth ax (shape a) 0) 0); [lia | reflexivity].
  - intros l Hl. rewrite pack_flat_length, Hl. reflexivity.
Qed.

Lemma upd_upd_same {A} (l : list A) ax x d : ax < length l -> upd (upd l ax x) ax (nth ax l d) = l.
Proof. revert ax; induction l as [|h t IH]; intros [|ax] H; cbn in *; try lia; auto. f_equal. apply IH. lia. Qed.

(* unpacking then packing along the same axis gives back the array (bytes in 0..255) *)
Theorem pack_unpack_axis (a : arr Z) z o :
  wf a -> pos_shape (shape a) -> (Z.of_nat (ndim a) < two64)%Z -> axis_ok (ndim a) z ->
  Forall (fun b => (0 <= b < 256)%Z) (elems a) ->
  exists u, unpack_bits a (Some z) None (Ok o) = Ok u /\ pack_bits u (Some z) (Ok o) = Ok a.
Proof.
  intros W P B Hz F. set (ax := norm_nat (ndim a) z).
  destruct (normalize_axis_ok _ _ B Hz) as [_ Lax]. fold ax in Lax.
  destruct (unpack_axis_spec a z o W P B Hz) as (u & Eu & Wu & Su & Gu). fold ax in Su, Gu.
  exists u. split; [exact Eu|].
  assert (0 < nth ax (shape a) 0) as HL by (apply pos_shape_nth; auto).
  assert (ndim u = ndim a) as Nu by (unfold ndim; rewrite Su; apply upd_length).
  assert (pos_shape (shape u)) as Pu.
  { rewrite Su. unfold pos_shape in *. rewrite Forall_forall in *. intros x Hx.
    apply In_nth with (d := 0) in Hx as (i & Hi & <-). rewrite upd_length in Hi.
    destruct (Nat.eq_dec i ax) as [->|Ne]; [rewrite nth_upd_eq by exact Lax; lia|].
    rewrite nth_upd_neq by auto. apply P, nth_In, Hi. }
  destruct (pack_axis_spec u z o Wu Pu ltac:(rewrite Nu; exact B) ltac:(rewrite Nu; exact Hz)) as (R & ER & WR & SR & GR).
  rewrite Nu in *. fold ax in SR, GR. rewrite ER. f_equal.
  assert (shape R = shape a) as SRa.
  { rewrite SR, Su. rewrite nth_upd_eq by exact Lax.
    replace ((nth ax (shape a) 0 * 8 + 7) / 8) with (nth ax (shape a) 0)
      by (apply (Nat.div_unique _ 8 _ 7); lia).
    apply upd_upd_same. exact Lax. }
  apply (array_ext 0%Z); auto.
  intros c Hc. rewrite (GR c Hc). rewrite SRa in Hc.
  (* the lane of u at rest is the unpacking of the lane of a at rest *)
  assert (elems (lane 0%Z u ax (remove_nth c ax)) = unpack_flat o (elems (lane 0%Z a ax (remove_nth c ax)))) as ->.
  { unfold lane at 1. cbn [elems]. rewrite Su, nth_upd_eq by exact Lax.
    apply (nth_ext _ _ 0%Z 0%Z).
    - rewrite map_length, seq_length, unpack_flat_length. unfold lane. cbn [elems]. now rewrite map_length, seq_length.
    - intros k Hk. rewrite map_length, seq_length in Hk. rewrite nth_map_seq by exact Hk.
      pose proof (in_range_length _ _ Hc) as Lc. unfold ndim in Lax.
      assert (in_range (shape u) (insert_nth (remove_nth c ax) ax k)) as IR.
      { rewrite Su, upd_as_insert_remove by exact Lax. apply in_range_insert; [rewrite remove_nth_length by exact Lax; lia| |exact Hk].
        apply in_range_remove. exact Hc. }
      rewrite (Gu _ IR). rewrite remove_insert_nth', nth_insert_nth_eq by (rewrite remove_nth_length by lia; lia).
      reflexivity. }
  rewrite pack_unpack_flat.
  - unfold lane. cbn [elems]. pose proof (in_range_length _ _ Hc) as Lc. unfold ndim in Lax.
    assert (nth ax c 0 < nth ax (shape a) 0) as Hk by (apply (proj1 (in_range_nth (shape a) c) Hc); exact Lax).
    rewrite nth_map_seq by exact Hk. rewrite insert_remove_nth by lia. reflexivity.
  - unfold lane. cbn [elems]. apply Forall_forall. intros x Hx. apply in_map_iff in Hx as (k & <- & Hk).
    rewrite Forall_forall in F. apply F. unfold get. apply nth_In. rewrite W. apply flat_lt.
    apply in_seq in Hk. pose proof (in_range_length _ _ Hc) as Lc. unfold ndim in Lax.
    rewrite <- (insert_remove_nth (shape a) ax 0 Lax) at 1. apply in_range_insert; [rewrite remove_nth_length by exact Lax; lia| |lia].
    apply in_range_remove. exact Hc.
Qed.

(* Broadcast.v — src/core/operations/broadcast.rs (as repaired), validators/shape.rs is_broadcastable,
   iter.rs zip.  Shapes are compared from the trailing axis: the model works on reversed shape lists,
   which is what `iter().rev().zip(..)` does in the code. *)
From ArrRs Require Export Index Axis.

(* ---------- specification vocabulary (on reversed lists) ---------- *)

(* a source axis is stretched only when its length is one; missing leading axes are added *)
Fixpoint stretchable_rev (rs rt : list nat) : bool :=
  match rs, rt with
  | [], _ => true
  | d :: s', t :: t' => ((d =? 1) || (d =? t)) && stretchable_rev s' t'
  | _ :: _, [] => false
  end.

(* source coordinate of an output coordinate: added axes dropped, index 0 along stretched axes *)
Fixpoint bsrc_rev (rs rc : list nat) : list nat :=
  match rs, rc with
  | d :: s', x :: c' => (if d =? 1 then 0 else x) :: bsrc_rev s' c'
  | _, _ => []
  end.
Definition bsrc (s c : list nat) : list nat := rev (bsrc_rev (rev s) (rev c)).

(* ---------- model ---------- *)

(* validators/shape.rs is_broadcastable (repaired: trailing alignment) *)
Definition dims_clash (p : nat * nat) : bool :=
  let '(d1, d2) := p in
  (negb (d1 =? d2) && negb (d1 =? 1) && negb (d2 =? 1)) || (d1 =? 0) || (d2 =? 0).

Definition is_broadcastable (s1 s2 : list nat) : res unit :=
  guard (negb (existsb dims_clash (combine (rev s1) (rev s2)))) EBroadcast.

(* broadcast.rs broadcast_shape: reversed shapes padded with 1 to the longer length, per-axis rule *)
Definition bdim (d1 d2 : nat) : res nat :=
  if d1 =? 1 then Ok d2 else if (d2 =? 1) || (d1 =? d2) then Ok d1 else Err EBroadcast.

Fixpoint bshape_rev (r1 r2 : list nat) : res (list nat) :=
  match r1 with
  | [] => mapM (fun d2 => bdim 1 d2) r2
  | d1 :: t1 =>
    match r2 with
    | [] => mapM (fun d => bdim d 1) r1
    | d2 :: t2 => let* x := bdim d1 d2 in let* r := bshape_rev t1 t2 in Ok (x :: r)
    end
  end.

Definition broadcast_shape (s1 s2 : list nat) : res (list nat) :=
  let* r := bshape_rev (rev s1) (rev s2) in Ok (rev r).

(* broadcast.rs common_broadcast_shape *)
Definition pad_rev (s : list nat) (n : nat) : list nat := firstn n (rev s ++ repeat 1 n).

Definition common_broadcast_shape (shapes : list (list nat)) : res (list nat) :=
  let max_dim := fold_left Nat.max (map (@length nat) shapes) 0 in
  let padded := map (fun s => pad_rev s max_dim) shapes in
  let common := map (fun k => fold_left Nat.max (map (fun s => nth k s 1) padded) 0) (seq 0 max_dim) in
  if forallb (fun s => forallb (fun k => let d := nth k s 1 in let c := nth k common 1 in
                                         (d =? c) || (d =? 1) || (c =? 1)) (seq 0 max_dim)) padded
  then Ok (rev common) else Err EBroadcast.

Section Broadcast.
Context {T : Type} (dflt : T).

(* broadcast.rs broadcast_to (repaired) *)
Definition broadcast_to (a : arr T) (sh : list nat) : res (arr T) :=
  let* _ := is_broadcastable (shape a) sh in
  if nat_list_eqb (shape a) sh then Ok a
  else if stretchable_rev (rev (shape a)) (rev sh) then
    new (map (fun i => nth (flat (shape a) (bsrc (shape a) (unravel sh i))) (elems a) dflt) (seq 0 (prod sh))) sh
  else if prod (shape a) =? prod sh then reshape a sh
  else Err EBroadcast.

(* broadcast.rs broadcast_arrays *)
Definition broadcast_arrays (l : list (arr T)) : res (list (arr T)) :=
  let* cs := common_broadcast_shape (map shape l) in
  mapM (fun a => broadcast_to a cs) l.

End Broadcast.

Section Broadcast2.
Context {T S : Type} (dt : T) (ds : S).

(* broadcast.rs broadcast (repaired): both operands broadcast to the common shape, then zipped *)
Definition broadcast (a : arr T) (b : arr S) : res (arr (T * S)) :=
  let* _ := is_broadcastable (shape a) (shape b) in
  let* fs := broadcast_shape (shape a) (shape b) in
  let* a' := broadcast_to dt a fs in
  let* b' := broadcast_to ds b fs in
  let* f := flat_arr (combine (elems a') (elems b')) in
  reshape f fs.

(* iter.rs zip: the argument is stretched to the receiver *)
Definition zip (a : arr T) (b : arr S) : res (arr (T * S)) :=
  let* b' := broadcast_to ds b (shape a) in
  let* f := flat_arr (combine (elems a) (elems b')) in
  reshape f (shape a).

End Broadcast2.

Section BroadcastH2.
Context {T S : Type} (dt : T) (ds : S).

(* broadcast.rs broadcast_h2: heterogeneous pair broadcast to the common shape *)
Definition broadcast_h2 (a : arr T) (b : arr S) : res (arr T * arr S) :=
  let* one := single dt in
  let* tmp_other := broadcast_to dt one (shape b) in
  let* tmp_array := broadcast dt dt a tmp_other in
  let* f := flat_arr (map fst (elems tmp_array)) in
  let* array := reshape f (shape tmp_array) in
  let* other := broadcast_to ds b (shape array) in
  Ok (array, other).

End BroadcastH2.

Section Broadcast3.
Context {T S Q : Type} (dt : T) (ds : S) (dq : Q).

Definition broadcast_h3 (a : arr T) (b : arr S) (c : arr Q) : res (arr T * arr S * arr Q) :=
  let* one := single dt in
  let* tmp1 := broadcast_to dt one (shape b) in
  let* tmp2 := broadcast_to dt one (shape c) in
  let* bs := broadcast_arrays dt [a; tmp1; tmp2] in
  match bs with
  | array :: _ =>
    let* o1 := broadcast_to ds b (shape array) in
    let* o2 := broadcast_to dq c (shape array) in
    Ok (array, o1, o2)
  | [] => Panic
  end.

End Broadcast3.

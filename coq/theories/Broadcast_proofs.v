From ArrRs Require Import Index Index_proofs Lists_proofs Axis Axis_proofs Reshape_proofs Broadcast.

Definition pos_shape (s : list nat) : Prop := Forall (fun d => 0 < d) s.

Lemma in_range_rev sh c : in_range (rev sh) (rev c) <-> in_range sh c.
Proof.
  rewrite !in_range_nth, !rev_length. split; intros [L H]; split; auto; intros k Hk.
  - specialize (H (length sh - S k) ltac:(lia)).
    rewrite !rev_nth in H by lia. replace (length c - S (length sh - S k)) with k in H by lia.
    replace (length sh - S (length sh - S k)) with k in H by lia. exact H.
  - rewrite !rev_nth by lia. rewrite L. apply H. lia.
Qed.

Lemma bsrc_rev_in_range rs rt rc :
  stretchable_rev rs rt = true -> in_range rt rc -> in_range rs (bsrc_rev rs rc).
Proof.
  revert rt rc; induction rs as [|d rs IH]; intros [|t rt] [|x rc] S H; cbn in *; try tauto; try discriminate.
  apply andb_true_iff in S as [S1 S2]. destruct H as [Hx H]. split; [|eauto].
  destruct (Nat.eqb_spec d 1) as [->|N]; [lia|]. cbn in S1. apply Nat.eqb_eq in S1. lia.
Qed.

Lemma bsrc_in_range s t c :
  stretchable_rev (rev s) (rev t) = true -> in_range t c -> in_range s (bsrc s c).
Proof.
  intros S H. unfold bsrc. apply in_range_rev. rewrite rev_involutive.
  eapply bsrc_rev_in_range; eauto. now apply in_range_rev.
Qed.

Lemma bsrc_rev_id rs rc : in_range rs rc -> bsrc_rev rs rc = rc.
Proof.
  revert rc; induction rs as [|d rs IH]; intros [|x rc] H; cbn in *; try tauto.
  destruct H as [Hx H]. rewrite (IH _ H). destruct (Nat.eqb_spec d 1); [f_equal; lia | reflexivity].
Qed.

Lemma bsrc_id s c : in_range s c -> bsrc s c = c.
Proof. intros H. unfold bsrc. rewrite bsrc_rev_id by now apply in_range_rev. apply rev_involutive. Qed.

Lemma nat_list_eqb_spec l1 l2 : nat_list_eqb l1 l2 = true <-> l1 = l2.
Proof.
  unfold nat_list_eqb. revert l2; induction l1 as [|x l1 IH]; intros [|y l2]; cbn; try (split; [discriminate | discriminate]); [tauto|].
  rewrite andb_true_iff, Nat.eqb_eq, IH. split; [intros [-> ->]; auto | intros [= -> ->]; auto].
Qed.

Lemma stretchable_rev_refl r : stretchable_rev r r = true.
Proof. induction r as [|d r IH]; cbn; auto. rewrite Nat.eqb_refl, orb_true_r. exact IH. Qed.

Lemma stretchable_no_clash rs rt :
  stretchable_rev rs rt = true -> pos_shape rs -> pos_shape rt -> existsb dims_clash (combine rs rt) = false.
Proof.
  revert rt; induction rs as [|d rs IH]; intros [|t rt] S P1 P2; cbn in *; auto; try discriminate.
  apply andb_true_iff in S as [S1 S2]. inversion P1; inversion P2; subst.
  rewrite IH by auto. rewrite orb_false_r.
  destruct (Nat.eqb_spec d t), (Nat.eqb_spec d 1), (Nat.eqb_spec t 1), (Nat.eqb_spec d 0), (Nat.eqb_spec t 0);
    cbn in *; auto; try lia; discriminate.
Qed.

Lemma mapM_bdim_left r rf : mapM (fun d2 => bdim 1 d2) r = Ok rf -> rf = r.
Proof.
  revert rf; induction r as [|d r IH]; intros rf H; cbn [mapM] in H; [now injection H|].
  change (bdim 1 d) with (Ok (A:=nat) d) in H. cbn [bind] in H.
  destruct (mapM _ r); cbn in H; try discriminate. injection H as <-. f_equal. now apply IH.
Qed.

Lemma bdim_right d : bdim d 1 = Ok d.
Proof. unfold bdim. destruct (Nat.eqb_spec d 1) as [->|]; reflexivity. Qed.

Lemma mapM_bdim_right r rf : mapM (fun d => bdim d 1) r = Ok rf -> rf = r.
Proof.
  revert rf; induction r as [|d r IH]; intros rf H; cbn [mapM] in H; [now injection H|].
  rewrite bdim_right in H. cbn [bind] in H.
  destruct (mapM _ r); cbn in H; try discriminate. injection H as <-. f_equal. now apply IH.
Qed.

Lemma mapM_bdim_left_ok r : mapM (fun d2 => bdim 1 d2) r = Ok r.
Proof. induction r as [|d r IH]; cbn [mapM]; auto. rewrite IH. reflexivity. Qed.

Lemma mapM_bdim_right_ok r : mapM (fun d => bdim d 1) r = Ok r.
Proof. induction r as [|d r IH]; cbn [mapM]; auto. now rewrite bdim_right, IH. Qed.

(* the common shape: both operands can be stretched to it, and it has no zero-length axis *)
Lemma bshape_rev_stretch r1 r2 rf :
  bshape_rev r1 r2 = Ok rf -> pos_shape r1 -> pos_shape r2 ->
  stretchable_rev r1 rf = true /\ stretchable_rev r2 rf = true /\ pos_shape rf /\
  length rf = Nat.max (length r1) (length r2).
Proof.
  revert r2 rf; induction r1 as [|d1 t1 IH]; intros r2 rf H P1 P2.
  - cbn [bshape_rev] in H. apply mapM_bdim_left in H as ->. cbn. auto using stretchable_rev_refl.
  - destruct r2 as [|d2 t2].
    + cbn [bshape_rev] in H. apply mapM_bdim_right in H as ->. repeat split; auto using stretchable_rev_refl.
    + cbn [bshape_rev] in H. inv_bind H. inv_bind H. injection H as <-.
      inversion P1 as [|? ? Hd1 Pt1]; inversion P2 as [|? ? Hd2 Pt2]; subst.
      destruct (IH _ _ E0 Pt1 Pt2) as (S1 & S2 & P & L).
      cbn [stretchable_rev length]. rewrite S1, S2, !andb_true_r. unfold bdim in E.
      destruct (Nat.eqb_spec d1 1) as [->|N1].
      * injection E as <-. rewrite Nat.eqb_refl, orb_true_r. repeat split; auto; try (constructor; auto; lia); try (cbn [length]; lia).
      * destruct (Nat.eqb_spec d2 1) as [->|N2]; cbn [orb] in E.
        -- injection E as <-. rewrite Nat.eqb_refl, orb_true_r. repeat split; auto; try (constructor; auto; lia); try (cbn [length]; lia).
        -- destruct (Nat.eqb_spec d1 d2) as [->|N3]; [|discriminate]. injection E as <-.
           rewrite Nat.eqb_refl, !orb_true_r. repeat split; auto; try (constructor; auto; lia); try (cbn [length]; lia).
Qed.

(* compatible operands always get a common shape *)
Lemma bshape_rev_ok r1 r2 :
  existsb dims_clash (combine r1 r2) = false -> exists rf, bshape_rev r1 r2 = Ok rf.
Proof.
  revert r2; induction r1 as [|d1 t1 IH]; intros r2 H.
  - cbn [bshape_rev]. eexists. apply mapM_bdim_left_ok.
  - destruct r2 as [|d2 t2]; [eexists; apply mapM_bdim_right_ok|].
    cbn [bshape_rev]. cbn [combine existsb] in H. apply orb_false_iff in H as [C H].
    destruct (IH _ H) as (rf & ->). unfold dims_clash in C. unfold bdim.
    destruct (Nat.eqb_spec d1 1); [eexists; reflexivity|].
    destruct (Nat.eqb_spec d2 1); [eexists; reflexivity|].
    destruct (Nat.eqb_spec d1 d2); [eexists; reflexivity|]. cbn in C. discriminate.
Qed.

(* operands that disagree on an axis where neither length is one are rejected *)
Lemma is_broadcastable_err s1 s2 :
  existsb dims_clash (combine (rev s1) (rev s2)) = true -> is_broadcastable s1 s2 = Err EBroadcast.
Proof. intros H. unfold is_broadcastable. now rewrite H. Qed.

Section BroadcastToProofs.
Context {T : Type} (dflt : T).

Theorem broadcast_to_stretch (a : arr T) sh :
  wf a -> is_broadcastable (shape a) sh = Ok tt -> stretchable_rev (rev (shape a)) (rev sh) = true ->
  exists r, broadcast_to dflt a sh = Ok r /\ shape r = sh /\ wf r /\
    forall c, in_range sh c -> in_range (shape a) (bsrc (shape a) c) /\ get dflt r c = get dflt a (bsrc (shape a) c).
Proof.
  intros W B S. unfold broadcast_to. rewrite B. cbn [bind].
  destruct (nat_list_eqb (shape a) sh) eqn:E.
  - apply nat_list_eqb_spec in E. subst sh. exists a. repeat split; auto.
    + rewrite bsrc_id; auto.
    + now rewrite bsrc_id.
  - rewrite S. set (f := fun i => nth (flat (shape a) (bsrc (shape a) (unravel sh i))) (elems a) dflt).
    assert (length (map f (seq 0 (prod sh))) = prod sh) as L by now rewrite map_length, seq_length.
    eexists. split; [apply new_iff; split; [exact L | reflexivity]|]. cbn [shape elems].
    split; [reflexivity|]. split; [exact L|]. intros c H. split; [now apply (bsrc_in_range _ sh)|].
    unfold get at 1. cbn [shape elems]. pose proof (flat_lt _ _ H) as Hlt.
    rewrite (nth_map_lt _ _ _ 0) by now rewrite seq_length. rewrite seq_nth by auto. cbn [Nat.add].
    unfold f. rewrite unravel_flat by auto. reflexivity.
Qed.

(* a target the source cannot be stretched to and that has a different element count is refused *)
Theorem broadcast_to_refuse (a : arr T) sh :
  shape a <> sh -> stretchable_rev (rev (shape a)) (rev sh) = false -> prod (shape a) <> prod sh ->
  broadcast_to dflt a sh = Err EBroadcast.
Proof.
  intros N S P. unfold broadcast_to. destruct (is_broadcastable (shape a) sh) as [[]|e| |] eqn:B; cbn [bind].
  - destruct (nat_list_eqb (shape a) sh) eqn:E; [apply nat_list_eqb_spec in E; contradiction|].
    rewrite S. destruct (Nat.eqb_spec (prod (shape a)) (prod sh)); [contradiction | reflexivity].
  - unfold is_broadcastable in B. destruct (negb _); cbn in B; [discriminate | congruence].
  - unfold is_broadcastable in B. destruct (negb _); discriminate.
  - unfold is_broadcastable in B. destruct (negb _); discriminate.
Qed.

Lemma broadcast_to_wf (a : arr T) sh r : wf a -> broadcast_to dflt a sh = Ok r -> wf r.
Proof.
  intros W H. unfold broadcast_to in H. inv_bind H.
  destruct (nat_list_eqb _ _); [now injection H as <-|].
  destruct (stretchable_rev _ _); [now apply new_wf in H|].
  destruct (_ =? _); [|discriminate]. now apply reshape_ok in H as (_ & _ & ?).
Qed.

End BroadcastToProofs.

Section BroadcastProofs.
Context {T S : Type} (dt : T) (ds : S).

Lemma is_broadcastable_stretch s fs :
  stretchable_rev (rev s) (rev fs) = true -> pos_shape s -> pos_shape fs -> is_broadcastable s fs = Ok tt.
Proof.
  intros St P1 P2. unfold is_broadcastable.
  rewrite stretchable_no_clash; auto; now apply Forall_rev.
Qed.

Lemma get_combine (la : list T) (lb : list S) sh c :
  length la = prod sh -> length lb = prod sh -> in_range sh c ->
  get (dt, ds) (mk (combine la lb) sh) c = (get dt (mk la sh) c, get ds (mk lb sh) c).
Proof.
  intros La Lb H. unfold get. cbn [shape elems]. apply combine_nth. lia.
Qed.

(* broadcasting two arrays: the common shape, and at every output position the pair of the two source
   elements obtained by dropping added axes and using index 0 along stretched axes *)
Theorem broadcast_spec (a : arr T) (b : arr S) :
  wf a -> wf b -> pos_shape (shape a) -> pos_shape (shape b) ->
  is_broadcastable (shape a) (shape b) = Ok tt ->
  exists r fs, broadcast dt ds a b = Ok r /\ broadcast_shape (shape a) (shape b) = Ok fs /\ shape r = fs /\ wf r /\
    length fs = Nat.max (ndim a) (ndim b) /\
    stretchable_rev (rev (shape a)) (rev fs) = true /\ stretchable_rev (rev (shape b)) (rev fs) = true /\
    forall c, in_range fs c ->
      get (dt, ds) r c = (get dt a (bsrc (shape a) c), get ds b (bsrc (shape b) c)).
Proof.
  intros Wa Wb Pa Pb B. unfold broadcast. rewrite B. cbn [bind].
  assert (existsb dims_clash (combine (rev (shape a)) (rev (shape b))) = false) as NC.
  { unfold is_broadcastable in B. destruct (existsb _ _); [discriminate | reflexivity]. }
  destruct (bshape_rev_ok _ _ NC) as (rf & Ef). unfold broadcast_shape. rewrite Ef. cbn [bind].
  destruct (bshape_rev_stretch _ _ _ Ef) as (S1 & S2 & Pf & Lf); try now apply Forall_rev.
  remember (rev rf) as fs eqn:Efs. assert (rev fs = rf) as Rf by (rewrite Efs; apply rev_involutive).
  assert (pos_shape fs) as Pfs by (rewrite Efs; now apply Forall_rev).
  rewrite <- Rf in S1, S2.
  destruct (broadcast_to_stretch dt a fs Wa (is_broadcastable_stretch _ _ S1 Pa Pfs) S1) as (a' & Ea & Sa & Wa' & Ga).
  destruct (broadcast_to_stretch ds b fs Wb (is_broadcastable_stretch _ _ S2 Pb Pfs) S2) as (b' & Eb & Sb & Wb' & Gb).
  rewrite Ea, Eb. cbn [bind]. rewrite flat_arr_ok. cbn [bind].
  unfold wf in Wa', Wb'. rewrite Sa in Wa'. rewrite Sb in Wb'.
  rewrite reshape_iff by (unfold len; cbn [elems]; rewrite combine_length; lia).
  cbn [elems]. eexists _, fs. split; [reflexivity|]. split; [reflexivity|]. cbn [shape]. split; [reflexivity|].
  split; [unfold wf; cbn; rewrite combine_length; lia|].
  split; [unfold ndim; rewrite Efs, rev_length, Lf, !rev_length; reflexivity|].
  split; [exact S1|]. split; [exact S2|]. intros c H.
  rewrite get_combine by auto. destruct (Ga c H) as [_ <-]. destruct (Gb c H) as [_ <-].
  destruct a' as [ea sa], b' as [eb sb]. cbn in Sa, Sb. subst. reflexivity.
Qed.

Theorem broadcast_refuse (a : arr T) (b : arr S) :
  existsb dims_clash (combine (rev (shape a)) (rev (shape b))) = true ->
  broadcast dt ds a b = Err EBroadcast.
Proof. intros H. unfold broadcast. now rewrite (is_broadcastable_err _ _ H). Qed.

Lemma broadcast_wf (a : arr T) (b : arr S) r : broadcast dt ds a b = Ok r -> wf r.
Proof. unfold broadcast. intros H. do 5 inv_bind H. now apply reshape_ok in H as (_ & _ & ?). Qed.

(* zip: the argument is stretched to the receiver's shape *)
Theorem zip_spec (a : arr T) (b : arr S) :
  wf a -> wf b -> is_broadcastable (shape b) (shape a) = Ok tt ->
  stretchable_rev (rev (shape b)) (rev (shape a)) = true ->
  exists r, zip ds a b = Ok r /\ shape r = shape a /\ wf r /\
    forall c, in_range (shape a) c -> get (dt, ds) r c = (get dt a c, get ds b (bsrc (shape b) c)).
Proof.
  intros Wa Wb B St. unfold zip.
  destruct (broadcast_to_stretch ds b (shape a) Wb B St) as (b' & Eb & Sb & Wb' & Gb).
  rewrite Eb. cbn [bind]. rewrite flat_arr_ok. cbn [bind]. unfold wf in *. rewrite Sb in Wb'.
  rewrite reshape_iff by (unfold len; cbn [elems]; rewrite combine_length; lia).
  eexists. split; [reflexivity|]. cbn [shape elems]. split; [reflexivity|].
  split; [rewrite combine_length; lia|]. intros c H.
  rewrite get_combine by auto. destruct (Gb c H) as [_ <-].
  destruct a as [ea sa], b' as [eb sb]. cbn in Sb. subst. reflexivity.
Qed.

Lemma zip_wf (a : arr T) (b : arr S) r : zip ds a b = Ok r -> wf r.
Proof. unfold zip. intros H. do 2 inv_bind H. now apply reshape_ok in H as (_ & _ & ?). Qed.

End BroadcastProofs.

Section BroadcastArraysProofs.
Context {T : Type} (dflt : T).

Lemma mapM_ok_Forall2 {A B} (f : A -> res B) l rs :
  mapM f l = Ok rs -> Forall2 (fun x y => f x = Ok y) l rs.
Proof.
  revert rs; induction l as [|x l IH]; intros rs H; cbn in H.
  - injection H as <-. constructor.
  - inv_bind H. inv_bind H. injection H as <-. constructor; auto.
Qed.

(* each output of the n-ary form is its input broadcast to the one common shape *)
Theorem broadcast_arrays_spec (l : list (arr T)) rs :
  broadcast_arrays dflt l = Ok rs ->
  exists cs, common_broadcast_shape (map shape l) = Ok cs /\
    Forall2 (fun a r => broadcast_to dflt a cs = Ok r) l rs.
Proof.
  unfold broadcast_arrays. intros H. inv_bind H. exists x. split; auto. now apply mapM_ok_Forall2.
Qed.

Lemma broadcast_arrays_wf (l : list (arr T)) rs :
  Forall wf l -> broadcast_arrays dflt l = Ok rs -> Forall wf rs.
Proof.
  intros F H. apply broadcast_arrays_spec in H as (cs & _ & F2).
  induction F2 as [|a r l rs E F2 IH]; constructor; inversion F; subst.
  - eapply broadcast_to_wf; eauto.
  - auto.
Qed.

End BroadcastArraysProofs.

(* every axis of the common shape is the larger of the two aligned lengths (missing axes count as 1);
   stated on the reversed shapes, i.e. counting axes from the trailing one *)
Lemma nth_pos r k : pos_shape r -> 1 <= nth k r 1.
Proof.
  intros P. destruct (Nat.lt_ge_cases k (length r)) as [L|L].
  - unfold pos_shape in P. rewrite Forall_forall in P. specialize (P _ (nth_In r 1 L)). lia.
  - rewrite nth_overflow; auto.
Qed.

Lemma bshape_rev_nth r1 r2 rf :
  bshape_rev r1 r2 = Ok rf -> pos_shape r1 -> pos_shape r2 ->
  forall k, nth k rf 1 = Nat.max (nth k r1 1) (nth k r2 1).
Proof.
  revert r2 rf; induction r1 as [|d1 t1 IH]; intros r2 rf H P1 P2 k.
  - cbn [bshape_rev] in H. apply mapM_bdim_left in H as ->. pose proof (nth_pos r2 k P2).
    destruct k; cbn [nth]; lia.
  - destruct r2 as [|d2 t2].
    + cbn [bshape_rev] in H. apply mapM_bdim_right in H as ->. pose proof (nth_pos (d1 :: t1) k P1).
      destruct k; cbn [nth] in *; lia.
    + cbn [bshape_rev] in H. inv_bind H. inv_bind H. injection H as <-.
      inversion P1 as [|? ? Hd1 Pt1]; inversion P2 as [|? ? Hd2 Pt2]; subst.
      destruct k as [|k]; cbn [nth]; [|now apply IH].
      unfold bdim in E. destruct (Nat.eqb_spec d1 1) as [->|N1]; [injection E as <-; lia|].
      destruct (Nat.eqb_spec d2 1) as [->|N2]; cbn [orb] in E; [injection E as <-; lia|].
      destruct (Nat.eqb_spec d1 d2) as [->|N3]; [injection E as <-; lia | discriminate].
Qed.

Theorem broadcast_shape_spec s1 s2 fs :
  broadcast_shape s1 s2 = Ok fs -> pos_shape s1 -> pos_shape s2 ->
  length fs = Nat.max (length s1) (length s2) /\
  forall k, nth k (rev fs) 1 = Nat.max (nth k (rev s1) 1) (nth k (rev s2) 1).
Proof.
  unfold broadcast_shape. intros H P1 P2. inv_bind H. injection H as <-.
  apply Forall_rev in P1, P2. split.
  - destruct (bshape_rev_stretch _ _ _ E P1 P2) as (_ & _ & _ & L). now rewrite rev_length, L, !rev_length.
  - intros k. rewrite rev_involutive. now apply bshape_rev_nth.
Qed.

(* three and four quarter turns (C12): three turns (the code: exchange the axes, then flip the second) equal three
   successive single turns; four successive single turns restore the array *)
From ArrRs Require Import Index Index_proofs Lists_proofs Axis Axis_proofs Reshape_proofs Broadcast_proofs Along_proofs
  Reorder Reorder_proofs Reorder_axis.

Section MoreTurns.
Context {T : Type} (dflt : T).

(* two coordinate lists of equal length that agree at every index *)
Ltac coords_eq :=
  apply (nth_ext _ _ 0 0); [repeat rewrite ?upd_length, ?swap_list_length; reflexivity|];
  let k := fresh "k" in let Hk := fresh "Hk" in intros k Hk; repeat rewrite ?upd_length, ?swap_list_length in Hk;
  repeat (rewrite ?nth_upd, ?nth_swap_list, ?upd_length, ?swap_list_length by (rewrite ?upd_length, ?swap_list_length; lia));
  repeat (match goal with
          | |- context [?x =? ?y] => destruct (Nat.eqb_spec x y); try lia
          | |- context [?x <? ?y] => destruct (Nat.ltb_spec x y); try lia
          end; cbn [andb]); subst; try lia; try reflexivity.

Theorem rot90_three (a : arr T) p q :
  wf a -> pos_shape (shape a) -> 2 <= ndim a -> (Z.of_nat (ndim a) < two64)%Z -> p < ndim a -> q < ndim a -> p <> q ->
  exists R1 R2 R, rot90 dflt a 1 [Z.of_nat p; Z.of_nat q] = Ok R1 /\ rot90 dflt R1 1 [Z.of_nat p; Z.of_nat q] = Ok R2 /\
    rot90 dflt R2 1 [Z.of_nat p; Z.of_nat q] = Ok R /\
    rot90 dflt a 3 [Z.of_nat p; Z.of_nat q] = Ok R /\ wf R /\ shape R = swap_list (shape a) p q /\
    forall c, in_range (shape R) c ->
      get dflt R c = get dflt a (upd (swap_list c p q) p (nth p (shape a) 0 - 1 - nth q c 0)).
Proof.
  intros W P N2 B Hp Hq Npq.
  destruct (rot90_two dflt a p q W P N2 B Hp Hq Npq) as (R1 & R2 & E1 & E2 & E12 & S2 & G2).
  assert (wf R2) as W2 by (eapply rot90_wf; [exact W | exact E12]).
  assert (ndim R2 = ndim a) as N2' by (unfold ndim; now rewrite S2).
  destruct (rot90_one dflt R2 1 p q W2 ltac:(rewrite S2; exact P) ltac:(lia) ltac:(rewrite N2'; exact B)
              ltac:(lia) ltac:(lia) eq_refl) as (R & E3 & W3 & S3 & G3).
  rewrite S2 in S3, G3.
  exists R1, R2, R. split; [exact E1|]. split; [exact E2|]. split; [exact E3|].
  (* the coordinate map of the three turns *)
  assert (forall c, in_range (shape R) c ->
            get dflt R c = get dflt a (upd (swap_list c p q) p (nth p (shape a) 0 - 1 - nth q c 0))) as GR.
  { intros c Hc. rewrite (G3 c Hc). rewrite S3 in Hc. unfold ndim in *.
    pose proof (in_range_length _ _ Hc) as Lc. rewrite swap_list_length in Lc.
    pose proof (proj1 (in_range_nth _ _) Hc) as [_ Nc]. rewrite swap_list_length in Nc.
    pose proof (Nc p Hp) as Bp. pose proof (Nc q Hq) as Bq. rewrite nth_swap_list in Bp, Bq by lia.
    rewrite Nat.eqb_refl in Bq. destruct (Nat.eqb_spec p q) as [|_]; [contradiction|]. rewrite Nat.eqb_refl in Bp.
    set (c' := upd (swap_list c p q) q (nth q (shape a) 0 - 1 - nth p c 0)).
    assert (in_range (shape a) c') as Hc'.
    { apply in_range_nth. split; [unfold c'; now rewrite upd_length, swap_list_length|].
      intros k Hk. unfold c'. rewrite nth_upd, swap_list_length, nth_swap_list by lia.
      pose proof (Nc k Hk) as Bk. rewrite nth_swap_list in Bk by lia.
      destruct (Nat.ltb_spec q (length c)); [|lia].
      destruct (Nat.eqb_spec q k); destruct (Nat.eqb_spec k q); destruct (Nat.eqb_spec k p); cbn [andb]; subst; try lia. }
    rewrite (G2 c' Hc'). f_equal. unfold c'. coords_eq. }
  split; [|split; [exact W3|split; [exact S3|exact GR]]].
  (* the model's own three-turn form: exchange the axes, then flip the second *)
  unfold rot90. destruct (Nat.ltb_spec (ndim a) 2); [lia|].
  destruct (Z.leb_spec (Z.of_nat (ndim a)) (Z.of_nat p)), (Z.ltb_spec (Z.of_nat p) (- Z.of_nat (ndim a))),
    (Z.leb_spec (Z.of_nat (ndim a)) (Z.of_nat q)), (Z.ltb_spec (Z.of_nat q) (- Z.of_nat (ndim a))); try lia. cbn [orb].
  change (3 mod 4) with 3. cbn [Nat.eqb].
  destruct (normalize_axis_ok (ndim a) (Z.of_nat p) B (axis_ok_of_nat _ _ Hp)) as [Ep _].
  destruct (normalize_axis_ok (ndim a) (Z.of_nat q) B (axis_ok_of_nat _ _ Hq)) as [Eq _].
  rewrite Ep, Eq, !norm_nat_of_nat, !Nat2Z.id.
  destruct (transpose_swap_spec dflt a p q W Hp Hq) as (t & Et & Wt & St & Gt). rewrite Et. cbn [bind].
  assert (ndim t = ndim a) as Nt by (unfold ndim; rewrite St; apply swap_list_length).
  destruct (flip_one_axis dflt t (Z.of_nat q) Wt ltac:(rewrite St; apply pos_shape_swap; auto) ltac:(rewrite Nt; exact B)
              ltac:(apply axis_ok_of_nat; lia)) as (g & Eg & Wg & Sg & Gg).
  rewrite norm_nat_of_nat in Gg. rewrite Eg. f_equal. apply (array_ext dflt); auto; [congruence|].
  intros c Hc. rewrite Sg in Hc. rewrite (Gg c Hc). rewrite St in Hc.
  assert (in_range (shape R) c) as HcR by (rewrite S3; exact Hc). rewrite (GR c HcR).
  unfold ndim in *. pose proof (in_range_length _ _ Hc) as Lc. rewrite swap_list_length in Lc.
  pose proof (proj1 (in_range_nth _ _) Hc) as [_ Nc]. rewrite swap_list_length in Nc.
  pose proof (Nc q Hq) as Bq. rewrite nth_swap_list in Bq by lia. rewrite Nat.eqb_refl in Bq.
  rewrite Gt.
  - f_equal. rewrite St, nth_swap_list by lia. rewrite Nat.eqb_refl. coords_eq.
  - rewrite St. apply in_range_nth. split; [now rewrite upd_length, swap_list_length|].
    intros k Hk. rewrite swap_list_length in Hk. rewrite nth_upd. pose proof (Nc k Hk) as Bk.
    rewrite !nth_swap_list in * by lia. rewrite Nat.eqb_refl.
    destruct (Nat.ltb_spec q (length c)); [|lia].
    destruct (Nat.eqb_spec q k); destruct (Nat.eqb_spec k q); destruct (Nat.eqb_spec k p); cbn [andb]; subst; try lia.
Qed.

(* FOUR successive single turns restore the array *)
Theorem rot90_four (a : arr T) p q :
  wf a -> pos_shape (shape a) -> 2 <= ndim a -> (Z.of_nat (ndim a) < two64)%Z -> p < ndim a -> q < ndim a -> p <> q ->
  exists R1 R2 R3, rot90 dflt a 1 [Z.of_nat p; Z.of_nat q] = Ok R1 /\ rot90 dflt R1 1 [Z.of_nat p; Z.of_nat q] = Ok R2 /\
    rot90 dflt R2 1 [Z.of_nat p; Z.of_nat q] = Ok R3 /\ rot90 dflt R3 1 [Z.of_nat p; Z.of_nat q] = Ok a.
Proof.
  intros W P N2 B Hp Hq Npq.
  destruct (rot90_two dflt a p q W P N2 B Hp Hq Npq) as (R1 & R2 & E1 & E2 & E12 & S2 & G2).
  assert (wf R2) as W2 by (eapply rot90_wf; [exact W | exact E12]).
  assert (ndim R2 = ndim a) as N2' by (unfold ndim; now rewrite S2).
  destruct (rot90_two dflt R2 p q W2 ltac:(rewrite S2; exact P) ltac:(lia) ltac:(rewrite N2'; exact B)
              ltac:(lia) ltac:(lia) Npq) as (R3 & R4 & E3 & E4 & E34 & S4 & G4).
  exists R1, R2, R3. split; [exact E1|]. split; [exact E2|]. split; [exact E3|]. rewrite E4. f_equal.
  assert (wf R4) as W4 by (eapply rot90_wf; [exact W2 | exact E34]).
  apply (array_ext dflt); auto; [congruence|].
  intros c Hc. rewrite S4 in Hc. rewrite (G4 c Hc). rewrite S2 in Hc |- *.
  unfold ndim in *. pose proof (in_range_length _ _ Hc) as Lc.
  pose proof (proj1 (in_range_nth _ _) Hc) as [_ Nc]. pose proof (Nc p Hp) as Bp. pose proof (Nc q Hq) as Bq.
  rewrite G2.
  - f_equal. coords_eq.
  - apply in_range_nth. split; [now rewrite !upd_length|]. intros k Hk. pose proof (Nc k Hk) as Bk.
    rewrite !nth_upd, !upd_length. destruct (Nat.ltb_spec q (length c)); [|lia]. destruct (Nat.ltb_spec p (length c)); [|lia].
    destruct (Nat.eqb_spec q k); destruct (Nat.eqb_spec p k); cbn [andb]; subst; try lia.
Qed.

(* NEGATIVE SPELLINGS of the plane axes denote the axes counted from the end *)
Lemma flip_spelling (a : arr T) z : (Z.of_nat (ndim a) < two64)%Z -> axis_ok (ndim a) z ->
  flip dflt a (Some [z]) = flip dflt a (Some [Z.of_nat (norm_nat (ndim a) z)]).
Proof.
  intros B H. destruct (normalize_axis_ok _ _ B H) as [E L]. unfold flip. cbn [map]. rewrite E.
  destruct (normalize_axis_ok _ _ B (axis_ok_of_nat _ _ L)) as [E' _]. rewrite E', norm_nat_of_nat. reflexivity.
Qed.

Theorem rot90_spelling (a : arr T) k p q : (Z.of_nat (ndim a) < two64)%Z -> axis_ok (ndim a) p -> axis_ok (ndim a) q ->
  rot90 dflt a k [p; q] = rot90 dflt a k [Z.of_nat (norm_nat (ndim a) p); Z.of_nat (norm_nat (ndim a) q)].
Proof.
  intros B Hp Hq. destruct (normalize_axis_ok _ _ B Hp) as [Ep Lp]. destruct (normalize_axis_ok _ _ B Hq) as [Eq Lq].
  destruct (normalize_axis_ok _ _ B (axis_ok_of_nat _ _ Lp)) as [Ep' _].
  destruct (normalize_axis_ok _ _ B (axis_ok_of_nat _ _ Lq)) as [Eq' _].
  unfold rot90. destruct (ndim a <? 2); [reflexivity|]. unfold axis_ok in Hp, Hq.
  destruct (Z.leb_spec (Z.of_nat (ndim a)) p), (Z.ltb_spec p (- Z.of_nat (ndim a))),
    (Z.leb_spec (Z.of_nat (ndim a)) q), (Z.ltb_spec q (- Z.of_nat (ndim a))); try lia.
  destruct (Z.leb_spec (Z.of_nat (ndim a)) (Z.of_nat (norm_nat (ndim a) p))),
    (Z.ltb_spec (Z.of_nat (norm_nat (ndim a) p)) (- Z.of_nat (ndim a))),
    (Z.leb_spec (Z.of_nat (ndim a)) (Z.of_nat (norm_nat (ndim a) q))),
    (Z.ltb_spec (Z.of_nat (norm_nat (ndim a) q)) (- Z.of_nat (ndim a))); try lia. cbn [orb].
  rewrite Ep, Eq, Ep', Eq', !norm_nat_of_nat.
  destruct (k mod 4) as [|[|[|k']]]; try reflexivity.
  rewrite (flip_spelling a q B Hq).
  destruct (flip dflt a (Some [Z.of_nat (norm_nat (ndim a) q)])) as [f| | |] eqn:Ef; cbn [bind]; try reflexivity.
  assert (ndim f = ndim a) as Nf.
  { destruct (Nat.eq_dec (ndim f) (ndim a)) as [|Ne]; [assumption|]. exfalso.
    unfold flip in Ef. destruct (guard _ _); cbn [bind] in Ef; try discriminate.
    destruct (fold_left _ _ _); cbn [bind] in Ef; try discriminate. rewrite flat_arr_ok in Ef. cbn [bind] in Ef.
    apply reshape_ok in Ef as (_ & S & _). unfold ndim in Ne. rewrite S in Ne. contradiction. }
  rewrite <- Nf at 1. rewrite <- Nf in B, Hp. rewrite (flip_spelling f p B Hp), Nf. reflexivity.
Qed.

(* ROLL with no axis (the flattened order) and on rank-1 arrays: the element list is rotated, the shape kept *)
Theorem roll_flat (a : arr T) s : wf a ->
  roll dflt a [s] None = Ok (mk (rotate (elems a) s) (shape a)).
Proof.
  intros W. unfold roll. rewrite ravel_ok. cbn [bind]. rewrite !flat_arr_ok. cbn [bind length].
  change (broadcast 0%Z 0%Z {| elems := [s]; shape := [1] |} {| elems := [0%Z]; shape := [1] |})
    with (Ok {| elems := [(s, 0%Z)]; shape := [1] |}).
  cbn [bind ndim shape length Nat.ltb Nat.leb elems]. rewrite accumulate_single.
  cbn [fold_left snd]. rewrite flat_arr_ok. cbn [bind]. apply reshape_iff. unfold len. cbn [elems].
  rewrite rotate_length. symmetry. exact W.
Qed.

Theorem roll_rank1 (a : arr T) s z n : wf a -> shape a = [n] -> axis_ok 1 z ->
  roll dflt a [s] (Some [z]) = Ok (mk (rotate (elems a) s) (shape a)).
Proof.
  intros W S Hz. assert (ndim a = 1) as N1 by (unfold ndim; now rewrite S).
  assert ((Z.of_nat 1 < two64)%Z) as B by (unfold two64; lia).
  destruct (normalize_axis_ok 1 z B Hz) as [En Lax].
  unfold roll. cbn [bind forallb]. rewrite N1, En. destruct (Z.ltb_spec (Z.of_nat (norm_nat 1 z)) (Z.of_nat 1)); [|lia].
  cbn [andb guard bind]. rewrite !flat_arr_ok. cbn [bind length].
  change (broadcast 0%Z 0%Z {| elems := [s]; shape := [1] |} {| elems := [z]; shape := [1] |})
    with (Ok {| elems := [(s, z)]; shape := [1] |}).
  cbn [bind ndim shape length Nat.ltb Nat.leb elems]. rewrite accumulate_single.
  cbn [fold_left snd]. rewrite flat_arr_ok. cbn [bind]. apply reshape_iff. unfold len. cbn [elems].
  rewrite rotate_length. symmetry. exact W.
Qed.

End MoreTurns.

(* repeat along axis 0 of a rank-1 array (C13): element i is emitted count_i consecutive times *)
From ArrRs Require Import Index Index_proofs Lists_proofs Axis Axis_proofs Reshape_proofs Broadcast Broadcast_proofs Split Lift
  Reduce Along_proofs Edit Repeat_flat.

Section RepeatRank1.
Context {T : Type} (d : T).

Lemma moveaxis_1d (f : arr T) n : wf f -> shape f = [n] -> moveaxis d f [0%Z] [0%Z] = Ok f.
Proof.
  intros W S. assert (ndim f = 1) as N1 by (unfold ndim; now rewrite S).
  unfold moveaxis. rewrite N1.
  change (moveaxis_order 1 (map (normalize_axis 1) [0%Z]) (map (normalize_axis 1) [0%Z])) with [0].
  change (is_unique [0%Z]) with (Ok (A:=unit) tt). change (is_unique (map (normalize_axis 1) [0%Z])) with (Ok (A:=unit) tt).
  cbn [length Nat.eqb guard bind map normalize_axis Z.ltb Z.compare forallb Z.of_nat Pos.of_succ_nat andb].
  now apply (transpose_1d d f n).
Qed.

Lemma repeat_pairs_length (es : list T) : forall rs acc, length rs = length es ->
  acc + length (flat_map (fun p : T * nat => repeat (fst p) (snd p)) (combine es rs)) = fold_left Nat.add rs acc.
Proof.
  induction es as [|x es IH]; intros [|k rs] acc L; cbn [length] in L; try discriminate; [cbn; lia|].
  cbn [combine flat_map fst snd fold_left]. rewrite app_length, repeat_length. rewrite <- (IH rs (acc + k)) by lia. lia.
Qed.

Lemma repeat_chunks (es : list T) reps : length reps = length es ->
  flat_map (fun p : arr T * nat => concat (repeat (elems (fst p)) (snd p))) (combine (map (chunk es 1) (seq 0 (length es))) reps)
  = flat_map (fun p : T * nat => repeat (fst p) (snd p)) (combine es reps).
Proof.
  (* generalised over the offset of the first chunk *)
  assert (forall (l : list T) (pre : list T) rs, length rs = length l ->
            flat_map (fun p : arr T * nat => concat (repeat (elems (fst p)) (snd p)))
              (combine (map (chunk (pre ++ l) 1) (seq (length pre) (length l))) rs)
            = flat_map (fun p : T * nat => repeat (fst p) (snd p)) (combine l rs)) as G.
  { induction l as [|x t IH]; intros pre rs L; [reflexivity|].
    destruct rs as [|k rs]; [discriminate|]. cbn [length seq map combine flat_map fst snd].
    assert (elems (chunk (pre ++ x :: t) 1 (length pre)) = [x]) as ->.
    { unfold chunk. cbn [elems]. rewrite Nat.mul_1_r, skipn_app, skipn_all, Nat.sub_diag. reflexivity. }
    assert (concat (repeat [x] k) = repeat x k) as -> by (clear; induction k as [|k IHk]; cbn; [reflexivity | now rewrite IHk]).
    f_equal. specialize (IH (pre ++ [x]) rs ltac:(cbn in L; lia)).
    rewrite <- app_assoc in IH. cbn [app] in IH. rewrite app_length in IH. cbn [length] in IH.
    replace (length pre + 1) with (S (length pre)) in IH by lia. exact IH. }
  intros L. exact (G es [] reps L).
Qed.

Theorem repeat_rank1 (a : arr T) repeats n rb :
  wf a -> shape a = [n] -> 0 < n ->
  broadcast_to 0 (mk repeats [length repeats]) [n] = Ok rb -> length (elems rb) = n ->
  repeat_arr d a repeats (Some 0) =
    Ok (mk (flat_map (fun p => repeat (fst p) (snd p)) (combine (elems a) (elems rb))) [fold_left Nat.add (elems rb) 0]).
Proof.
  intros W S Hn Hb Lr. assert (ndim a = 1) as N1 by (unfold ndim; now rewrite S).
  assert (length (elems a) = n) as La by (unfold wf in W; rewrite S in W; cbn in W; lia).
  unfold repeat_arr. rewrite flat_arr_ok. cbn [bind]. rewrite N1. cbn [Nat.ltb Nat.leb guard bind].
  rewrite S. cbn [nth]. rewrite Hb. cbn [bind upd]. unfold swap_list. cbn [upd nth].
  rewrite (split_even_1d d a n 1 (Some 0) W ltac:(rewrite S; f_equal; lia) Hn ltac:(lia) ltac:(now right)). cbn [bind].
  rewrite <- La at 1. rewrite repeat_chunks by lia.
  set (out := flat_map (fun p : T * nat => repeat (fst p) (snd p)) (combine (elems a) (elems rb))).
  set (N := fold_left Nat.add (elems rb) 0).
  assert (length out = N) as Lo by (unfold out, N; rewrite <- (repeat_pairs_length (elems a) (elems rb) 0) by lia; lia).
  rewrite flat_arr_ok. cbn [bind].
  assert (reshape (mk out [length out]) [N] = Ok (mk out [N])) as ->
    by (apply reshape_iff; unfold len; cbn; lia). cbn [bind].
  change (Z.of_nat 0) with 0%Z. rewrite (moveaxis_1d (mk out [N]) N) by (unfold wf; cbn; lia || reflexivity). cbn [bind].
  apply reshape_iff. unfold len. cbn. lia.
Qed.

End RepeatRank1.

(* replace (C17): replacing the non-overlapping occurrences of `old`, left to right, at most `count` of them, is
   splitting on `old` (into at most count + 1 pieces) and joining the pieces with `new` *)
From ArrRs Require Import Index Lists_proofs Axis Broadcast Broadcast_proofs Lift Lift_proofs Str Str_proofs.

Lemma split_f_nonempty_lim fuel s sep cur lim : lim <> Some 0 -> split_f fuel s sep cur lim <> [].
Proof.
  revert s cur lim; induction fuel as [|f IH]; intros s cur lim H; cbn [split_f]; [discriminate|].
  destruct lim as [[|[|k]]|]; try congruence; try discriminate.
  - destruct s as [|c t]; [discriminate|]. destruct (starts_with (c :: t) sep); [discriminate|]. apply IH. discriminate.
  - destruct s as [|c t]; [discriminate|]. destruct (starts_with (c :: t) sep); [discriminate|]. apply IH. discriminate.
Qed.

Lemma replace_f_is_split_join fuel : forall s old new cur count, old <> [] -> length s < fuel ->
  rev cur ++ replace_f fuel s old new count = join_with new (split_f fuel s old cur (option_map S count)).
Proof.
  induction fuel as [|f IH]; intros s old new cur count Ho H; [lia|]. cbn [replace_f split_f].
  destruct count as [[|k]|]; cbn [option_map].
  - reflexivity.
  - destruct s as [|c t]; [cbn [join_with]; apply app_nil_r|].
    destruct (starts_with (c :: t) old) eqn:E.
    + rewrite join_cons by (apply split_f_nonempty_lim; discriminate). cbn [option_map Nat.pred].
      assert (length (skipn (length old) (c :: t)) < f) as Lf
        by (rewrite skipn_length; cbn [length] in *; destruct old; [congruence|]; cbn [length]; lia).
      pose proof (IH _ old new [] (Some k) Ho Lf) as X. cbn [option_map rev app] in X. rewrite <- X. reflexivity.
    + pose proof (IH t old new (c :: cur) (Some (S k)) Ho ltac:(cbn [length] in H; lia)) as X. cbn [option_map] in X.
      rewrite <- X. cbn [rev]. now rewrite <- app_assoc.
  - destruct s as [|c t]; [cbn [join_with]; apply app_nil_r|].
    destruct (starts_with (c :: t) old) eqn:E.
    + rewrite join_cons by (apply split_f_nonempty_lim; discriminate). cbn [option_map].
      assert (length (skipn (length old) (c :: t)) < f) as Lf
        by (rewrite skipn_length; cbn [length] in *; destruct old; [congruence|]; cbn [length]; lia).
      pose proof (IH _ old new [] None Ho Lf) as X. cbn [option_map rev app] in X. rewrite <- X. reflexivity.
    + pose proof (IH t old new (c :: cur) None Ho ltac:(cbn [length] in H; lia)) as X. cbn [option_map] in X.
      rewrite <- X. cbn [rev]. now rewrite <- app_assoc.
Qed.

Theorem replace_is_split_join s old new count : old <> [] ->
  replace_str s old new count = join_with new (split_str s old (option_map S count)).
Proof.
  intros H. unfold replace_str, split_str. destruct old as [|x old]; [congruence|].
  rewrite <- (replace_f_is_split_join (S (length s)) s (x :: old) new [] count); [reflexivity | discriminate | lia].
Qed.

(* consequences: replacing a pattern by itself changes nothing; with count 0 nothing is replaced *)
Corollary replace_self s old : old <> [] -> replace_str s old old None = s.
Proof. intros H. rewrite replace_is_split_join by exact H. apply split_join. exact H. Qed.

Corollary replace_zero s old new : old <> [] -> replace_str s old new (Some 0) = s.
Proof. intros H. unfold replace_str. destruct old; [congruence|]. reflexivity. Qed.

(* array_split / split along an axis: block k of the result holds, at coordinate c, the input element at c with the
   axis entry shifted by the sum of the earlier block sizes; block shapes are the input's with the block size at the
   axis (C11). *)
From ArrRs Require Import Index Index_proofs Lists_proofs Axis Axis_proofs Reshape_proofs Broadcast_proofs Split Lift Reduce
  Reduce_proofs Along_proofs Join Join_proofs.

(* ---------- the two axis orders used by array_split ---------- *)
Lemma rollaxis_order_to_front n ax : rollaxis_order n ax 0 = ax :: remove_nth (seq 0 n) ax.
Proof. unfold rollaxis_order. destruct (remove_nth (seq 0 n) ax); reflexivity. Qed.

Lemma pick_to_front c ax : ax < length c ->
  pick (rollaxis_order (length c) ax 0) c = nth ax c 0 :: remove_nth c ax.
Proof. intros H. rewrite rollaxis_order_to_front. cbn [pick map]. f_equal. now apply pick_remove_seq. Qed.

Lemma rollaxis_order_from_front n ax : 0 < n -> rollaxis_order n 0 ax = insert_nth (seq 1 (n - 1)) ax 0.
Proof. intros H. unfold rollaxis_order. destruct n; [lia|]. cbn [seq remove_nth]. replace (S n - 1) with n by lia. reflexivity. Qed.

Lemma pick_from_front i rest ax : ax <= length rest ->
  pick (rollaxis_order (S (length rest)) 0 ax) (i :: rest) = insert_nth rest ax i.
Proof.
  intros H. rewrite rollaxis_order_from_front by lia. cbn [Nat.sub]. rewrite Nat.sub_0_r.
  apply (nth_ext _ _ 0 0).
  - now rewrite pick_length, !insert_nth_length, seq_length.
  - intros k Hk. rewrite pick_length, insert_nth_length, seq_length in Hk.
    rewrite nth_pick by (rewrite insert_nth_length, seq_length; lia).
    destruct (Nat.lt_trichotomy k ax) as [L|[E|G]].
    + rewrite !nth_insert_nth_lt' by (rewrite ?seq_length; lia). rewrite seq_nth by lia. reflexivity.
    + subst k. rewrite !nth_insert_nth by (rewrite ?seq_length; lia). reflexivity.
    + rewrite !nth_insert_nth_gt by (rewrite ?seq_length; lia). rewrite seq_nth by lia.
      replace (1 + (k - 1)) with (S (k - 1)) by lia. reflexivity.
Qed.

Section SplitSpec.
Context {T : Type} (d : T).

Lemma move_to_front (a : arr T) ax :
  wf a -> ax < ndim a -> (Z.of_nat (ndim a) < two64)%Z ->
  exists mv, rollaxis d a (Z.of_nat ax) None = Ok mv /\ wf mv /\
     shape mv = nth ax (shape a) 0 :: remove_nth (shape a) ax /\
     forall i rest, in_range (remove_nth (shape a) ax) rest -> i < nth ax (shape a) 0 ->
        get d mv (i :: rest) = get d a (insert_nth rest ax i).
Proof.
  intros W H B. rewrite rollaxis_default.
  destruct (rollaxis_ok d a (Z.of_nat ax) 0%Z B ltac:(apply axis_ok_of_nat; lia) ltac:(unfold axis_ok; lia)) as [E P].
  rewrite E. rewrite !norm_nat_of_nat in *. change (norm_nat (ndim a) 0) with 0 in *.
  destruct (transpose_perm_ok d a _ W ltac:(lia) P) as (r & Er & Wr & Sr & G & _).
  exists r. split; [exact Er|]. split; [exact Wr|]. unfold ndim in *. split.
  - rewrite Sr. apply pick_to_front. exact H.
  - intros i rest Hr Hi.
    assert (length rest = length (shape a) - 1) as Lr by (apply in_range_length in Hr; rewrite Hr; apply remove_nth_length; exact H).
    assert (in_range (shape a) (insert_nth rest ax i)) as IR.
    { rewrite <- (insert_remove_nth (shape a) ax 0 H) at 1. apply in_range_insert; auto.
      rewrite remove_nth_length by auto. lia. }
    rewrite <- (G _ IR). f_equal.
    assert (length (insert_nth rest ax i) = length (shape a)) as Li by (rewrite insert_nth_length; lia).
    rewrite <- Li. rewrite pick_to_front by lia.
    rewrite remove_insert_nth' by lia. rewrite nth_insert_nth_eq by lia. reflexivity.
Qed.

Lemma move_from_front (b : arr T) ax :
  wf b -> ax < ndim b -> (Z.of_nat (ndim b) < two64)%Z ->
  exists r, moveaxis d b [0%Z] [Z.of_nat ax] = Ok r /\ wf r /\
     shape r = insert_nth (tl (shape b)) ax (hd 0 (shape b)) /\
     forall i rest, in_range (shape b) (i :: rest) -> get d r (insert_nth rest ax i) = get d b (i :: rest).
Proof.
  intros W H B.
  rewrite (moveaxis_single_ok d b 0%Z (Z.of_nat ax) B ltac:(unfold axis_ok; lia) ltac:(apply axis_ok_of_nat; lia)).
  rewrite norm_nat_of_nat. change (norm_nat (ndim b) 0) with 0.
  destruct (transpose_perm_ok d b (rollaxis_order (ndim b) 0 ax) W ltac:(lia)
              (rollaxis_order_is_perm (ndim b) 0 ax ltac:(lia))) as (r & E & Wr & Sr & G & _).
  exists r. split; [exact E|]. split; [exact Wr|]. unfold ndim in *.
  destruct (shape b) as [|h t] eqn:Sb; [cbn in H; lia|]. cbn [length hd tl] in *. split.
  - rewrite Sr. apply pick_from_front. lia.
  - intros i rest Hc. rewrite <- (G _ Hc). f_equal. pose proof (in_range_length _ _ Hc) as Lc. cbn [length] in Lc.
    injection Lc as Lc. rewrite <- Lc. symmetry. apply pick_from_front. lia.
Qed.

(* one block *)
Lemma split_piece_spec (a mv : arr T) ax start size :
  wf a -> 2 <= ndim a -> ax < ndim a -> (Z.of_nat (ndim a) < two64)%Z -> pos_shape (remove_nth (shape a) ax) ->
  wf mv -> shape mv = nth ax (shape a) 0 :: remove_nth (shape a) ax ->
  (forall i rest, in_range (remove_nth (shape a) ax) rest -> i < nth ax (shape a) 0 ->
        get d mv (i :: rest) = get d a (insert_nth rest ax i)) ->
  start + size <= nth ax (shape a) 0 ->
  exists p, split_piece d a mv ax (prod (remove_nth (shape a) ax)) start size = Ok p /\ wf p /\
    shape p = upd (shape a) ax size /\
    forall c, in_range (shape p) c -> get d p c = get d a (upd c ax (start + nth ax c 0)).
Proof.
  intros W N2 Hax B Pr Wm Sm Gm Hs. set (rs := remove_nth (shape a) ax) in *. set (blk := prod rs).
  assert (0 < blk) as Hb by (apply pos_shape_prod, Pr).
  assert (length rs = ndim a - 1) as Lrs by (apply remove_nth_length; exact Hax).
  assert (length (elems mv) = nth ax (shape a) 0 * blk) as Lm by (rewrite Wm, Sm; cbn [prod]; reflexivity).
  unfold split_piece. rewrite flat_arr_ok. cbn [bind]. destruct (Nat.eqb_spec (ndim a) 1); [lia|].
  set (m := firstn (size * blk) (skipn (start * blk) (elems mv))).
  assert (length m = size * blk) as Lmm by (unfold m; rewrite firstn_length, skipn_length; nia).
  rewrite Sm. cbn [upd]. rewrite reshape_iff by (unfold len; cbn [elems prod]; fold rs; fold blk; lia). cbn [bind].
  set (r := mk m (size :: rs)).
  assert (wf r) as Wr by (unfold wf, r; cbn [elems shape prod]; fold blk; lia).
  assert (ndim r = ndim a) as Nr by (unfold r; unfold ndim in *; cbn [shape length]; lia).
  destruct (move_from_front r ax Wr ltac:(lia) ltac:(lia)) as (p & Ep & Wp & Sp & Gp).
  exists p. split; [exact Ep|]. split; [exact Wp|]. unfold r in Sp. cbn [shape tl hd] in Sp.
  assert (shape p = upd (shape a) ax size) as Shp by (rewrite Sp; symmetry; apply upd_as_insert_remove; exact Hax).
  split; [exact Shp|]. intros c Hc. rewrite Sp in Hc.
  pose proof (in_range_length _ _ Hc) as Lc. rewrite insert_nth_length in Lc.
  assert (ax < length c) as Haxc by (unfold ndim in *; lia).
  assert (in_range rs (remove_nth c ax)) as Hrest.
  { apply (in_range_remove _ _ ax) in Hc. rewrite remove_insert_nth' in Hc by (unfold ndim in *; lia). exact Hc. }
  assert (nth ax c 0 < size) as Hk by (apply (in_range_insert_nth_lt rs c ax size); [unfold ndim in *; lia | exact Hc]).
  specialize (Gp (nth ax c 0) (remove_nth c ax)). rewrite insert_remove_nth in Gp by exact Haxc.
  rewrite Gp by (unfold r; cbn [shape in_range]; split; [exact Hk | exact Hrest]).
  unfold get at 1. unfold r. cbn [shape elems flat]. fold blk. unfold m.
  assert (flat rs (remove_nth c ax) < blk) as FL by (apply flat_lt, Hrest).
  rewrite nth_firstn_lt by nia.
  rewrite nth_skipn_add.
  replace (start * blk + (nth ax c 0 * blk + flat rs (remove_nth c ax)))
    with ((start + nth ax c 0) * blk + flat rs (remove_nth c ax)) by lia.
  transitivity (get d mv ((start + nth ax c 0) :: remove_nth c ax)).
  { unfold get. rewrite Sm. cbn [flat]. reflexivity. }
  rewrite Gm by (auto; lia). f_equal. symmetry. apply upd_as_insert_remove. exact Haxc.
Qed.

(* the blocks of a split: block sizes `sizes`, laid one after the other along the axis from `start` *)
Definition piece_ok (a : arr T) (ax start size : nat) (p : arr T) : Prop :=
  wf p /\ shape p = upd (shape a) ax size /\
  forall c, in_range (shape p) c -> get d p c = get d a (upd c ax (start + nth ax c 0)).

Fixpoint pieces_ok (a : arr T) (ax start : nat) (sizes : list nat) (ps : list (arr T)) : Prop :=
  match sizes, ps with
  | [], [] => True
  | s :: t, p :: ps' => piece_ok a ax start s p /\ pieces_ok a ax (start + s) t ps'
  | _, _ => False
  end.

Lemma split_pieces_spec (a mv : arr T) ax sizes : forall start,
  wf a -> 2 <= ndim a -> ax < ndim a -> (Z.of_nat (ndim a) < two64)%Z -> pos_shape (remove_nth (shape a) ax) ->
  wf mv -> shape mv = nth ax (shape a) 0 :: remove_nth (shape a) ax ->
  (forall i rest, in_range (remove_nth (shape a) ax) rest -> i < nth ax (shape a) 0 ->
        get d mv (i :: rest) = get d a (insert_nth rest ax i)) ->
  start + fold_right Nat.add 0 sizes <= nth ax (shape a) 0 ->
  exists ps, split_pieces d a mv ax (prod (remove_nth (shape a) ax)) start sizes = Ok ps /\ pieces_ok a ax start sizes ps.
Proof.
  induction sizes as [|s t IH]; intros start W N2 Hax B Pr Wm Sm Gm Hs; cbn [split_pieces].
  - exists []. split; [reflexivity | exact I].
  - cbn [fold_right] in Hs.
    destruct (split_piece_spec a mv ax start s W N2 Hax B Pr Wm Sm Gm ltac:(lia)) as (p & Ep & Wp & Sp & Gp).
    destruct (IH (start + s) W N2 Hax B Pr Wm Sm Gm ltac:(lia)) as (ps & Eps & Ops).
    rewrite Ep, Eps. exists (p :: ps). split; [reflexivity|]. cbn [pieces_ok]. split; [|exact Ops].
    unfold piece_ok. auto.
Qed.

(* array_split along an axis of an array of rank >= 2: `parts` blocks with the section sizes, in order along the axis *)
Theorem array_split_spec (a : arr T) parts ax :
  wf a -> pos_shape (shape a) -> 2 <= ndim a -> ax < ndim a -> (Z.of_nat (ndim a) < two64)%Z -> 0 < parts ->
  exists ps, array_split d a parts (Some ax) = Ok ps /\
    pieces_ok a ax 0 (section_sizes (nth ax (shape a) 0) parts) ps.
Proof.
  intros W P N2 Hax B Hp. unfold array_split. destruct (Nat.eqb_spec parts 0); [lia|].
  cbn [axis_opt_in_bounds]. destruct (Nat.ltb_spec ax (ndim a)); [|lia]. cbn [guard bind].
  assert (0 < prod (shape a)) as Pp by (apply pos_shape_prod, P).
  unfold is_empty, len. rewrite W. destruct (Nat.eqb_spec (prod (shape a)) 0); [lia|].
  assert (nth_error (shape a) ax = Some (nth ax (shape a) 0)) as -> by (apply nth_error_nth'; exact Hax).
  destruct (move_to_front a ax W Hax B) as (mv & Em & Wm & Sm & Gm). rewrite Em. cbn [bind].
  assert (0 < nth ax (shape a) 0) as Hn by (apply pos_shape_nth; auto).
  assert (prod (shape a) / nth ax (shape a) 0 = prod (remove_nth (shape a) ax)) as ->.
  { rewrite (prod_remove_nth (shape a) ax Hax). rewrite Nat.mul_comm. apply Nat.div_mul. lia. }
  apply split_pieces_spec; auto.
  - apply pos_shape_remove, P.
  - destruct (Join_proofs.section_sizes_spec (nth ax (shape a) 0) parts Hp) as (_ & Sum & _). rewrite Sum. lia.
Qed.

(* an exact split: `parts` divides the axis length, every block has the same size *)
Corollary split_even_spec (a : arr T) parts ax :
  wf a -> pos_shape (shape a) -> 2 <= ndim a -> ax < ndim a -> (Z.of_nat (ndim a) < two64)%Z -> 0 < parts ->
  nth ax (shape a) 0 mod parts = 0 ->
  exists ps, split_even d a parts (Some ax) = Ok ps /\
    pieces_ok a ax 0 (repeat (nth ax (shape a) 0 / parts) parts) ps.
Proof.
  intros W P N2 Hax B Hp M. unfold split_even. cbn [axis_opt_in_bounds]. destruct (Nat.ltb_spec ax (ndim a)); [|lia].
  cbn [guard bind]. destruct (Nat.eqb_spec parts 0); [lia|].
  assert (0 < prod (shape a)) as Pp by (apply pos_shape_prod, P).
  unfold is_empty, len. rewrite W. destruct (Nat.eqb_spec (prod (shape a)) 0); [lia|].
  assert (nth_error (shape a) ax = Some (nth ax (shape a) 0)) as -> by (apply nth_error_nth'; exact Hax).
  rewrite M. cbn [Nat.eqb].
  destruct (array_split_spec a parts ax W P N2 Hax B Hp) as (ps & E & O). exists ps. split; [exact E|].
  destruct (Join_proofs.section_sizes_spec (nth ax (shape a) 0) parts Hp) as (_ & _ & _ & Ev). now rewrite <- (Ev M).
Qed.

(* and an uneven request is refused *)
Theorem split_even_refuses (a : arr T) parts ax :
  wf a -> pos_shape (shape a) -> ax < ndim a -> 0 < parts -> nth ax (shape a) 0 mod parts <> 0 ->
  split_even d a parts (Some ax) = Err EParam.
Proof.
  intros W P Hax Hp M. unfold split_even. cbn [axis_opt_in_bounds]. destruct (Nat.ltb_spec ax (ndim a)); [|lia].
  cbn [guard bind]. destruct (Nat.eqb_spec parts 0); [lia|].
  assert (0 < prod (shape a)) as Pp by (apply pos_shape_prod, P).
  unfold is_empty, len. rewrite W. destruct (Nat.eqb_spec (prod (shape a)) 0); [lia|].
  assert (nth_error (shape a) ax = Some (nth ax (shape a) 0)) as -> by (apply nth_error_nth'; exact Hax).
  destruct (Nat.eqb_spec (nth ax (shape a) 0 mod parts) 0); [contradiction | reflexivity].
Qed.

End SplitSpec.

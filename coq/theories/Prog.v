(* Prog.v — finite programs over the modelled operations (C01): every call takes its array operands from
   the environment of earlier results and appends its results. *)
From ArrRs Require Import Index Axis.

Section Prog.
Context {T : Type} (dflt : T).

Inductive opcall :=
| CNew (es : list T) (sh : list nat)
| CCreate (es : list T) (sh : list nat) (nd : option nat)
| CSingle (x : T) | CFlat (es : list T) | CEmpty
| CReshape (i : nat) (sh : list nat) | CRavel (i : nat) | CAtleast (i n : nat)
| CExpand (i : nat) (axes : list Z) | CSqueeze (i : nat) (axes : option (list Z))
| CResize (i : nat) (sh : list nat) | CCycleTake (i n : nat)
| CTranspose (i : nat) (axes : option (list Z)) | CMoveaxis (i : nat) (s t : list Z)
| CRollaxis (i : nat) (ax : Z) (st : option Z) | CSwapaxes (i : nat) (x y : Z).

Definition operand (env : list (arr T)) (i : nat) : res (arr T) :=
  match nth_error env i with Some a => Ok a | None => Err EParam end.

Definition run_call (env : list (arr T)) (c : opcall) : res (list (arr T)) :=
  let one (r : res (arr T)) := let* a := r in Ok [a] in
  match c with
  | CNew es sh => one (new es sh)
  | CCreate es sh nd => one (create es sh nd)
  | CSingle x => one (single x)
  | CFlat es => one (flat_arr es)
  | CEmpty => one empty
  | CReshape i sh => one (let* a := operand env i in reshape a sh)
  | CRavel i => one (let* a := operand env i in ravel a)
  | CAtleast i n => one (let* a := operand env i in atleast a n)
  | CExpand i axes => one (let* a := operand env i in expand_dims a axes)
  | CSqueeze i axes => one (let* a := operand env i in squeeze a axes)
  | CResize i sh => one (let* a := operand env i in resize dflt a sh)
  | CCycleTake i n => one (let* a := operand env i in cycle_take dflt a n)
  | CTranspose i axes => one (let* a := operand env i in transpose dflt a axes)
  | CMoveaxis i s t => one (let* a := operand env i in moveaxis dflt a s t)
  | CRollaxis i ax st => one (let* a := operand env i in rollaxis dflt a ax st)
  | CSwapaxes i x y => one (let* a := operand env i in swapaxes dflt a x y)
  end.

(* a failing call (error value or panic) leaves the environment unchanged *)
Definition step (env : list (arr T)) (c : opcall) : list (arr T) :=
  match run_call env c with Ok rs => env ++ rs | _ => env end.

Definition run (p : list opcall) (env : list (arr T)) : list (arr T) := fold_left step p env.

End Prog.

(* argsort along an axis (C10): every lane of the result is the rank assignment (argsort1) of the corresponding lane
   of the input — the lane theorem instantiated with the index query *)
From ArrRs Require Import Index Index_proofs Lists_proofs Axis Axis_proofs Reshape_proofs Broadcast_proofs Split Lift Reduce
  Along_proofs Sort Sort_proofs Along_uses Argsort_proofs.
From Coq Require Import Permutation Sorted.

Section ArgsortAxis.
Context {T : Type} (ltb eqb : T -> T -> bool) (d : T).
Hypothesis eqb_spec : forall x y, eqb x y = true <-> x = y.
Hypothesis lt_le : forall x y, ltb x y = true -> le ltb x y.
Hypothesis le_trans : forall x y z, le ltb x y -> le ltb y z -> le ltb x z.

Definition ranks_of (k : sort_kind) (ln : arr T) : arr nat :=
  match argsort1 ltb eqb d k ln with Ok r => r | _ => mk [] [0] end.

Lemma ranks_of_spec k ln : argsort1 ltb eqb d k ln = Ok (ranks_of k ln) /\ len (ranks_of k ln) = len ln.
Proof.
  unfold ranks_of. destruct (argsort1_spec ltb eqb d eqb_spec lt_le le_trans k ln) as (s & r & _ & _ & _ & E & _ & L & _).
  rewrite E. split; [reflexivity | exact L].
Qed.

Theorem argsort_axis_spec (a : arr T) z k :
  wf a -> pos_shape (shape a) -> (Z.of_nat (ndim a) < two64)%Z -> axis_ok (ndim a) z ->
  let ax := norm_nat (ndim a) z in
  exists R, argsort_arr ltb eqb d a (Some z) (Ok k) = Ok R /\ wf R /\ shape R = shape a /\
    forall c, in_range (shape a) c ->
      let ln := lane d a ax (remove_nth c ax) in
      argsort1 ltb eqb d k ln = Ok (ranks_of k ln) /\
      get 0 R c = nth (nth ax c 0) (elems (ranks_of k ln)) 0.
Proof.
  intros W P B Hz ax. destruct (normalize_axis_ok _ _ B Hz) as [En Lax]. fold ax in En, Lax.
  unfold argsort_arr. cbn [bind]. rewrite En. destruct (Z.ltb_spec (Z.of_nat ax) (Z.of_nat (ndim a))); [|lia].
  cbn [guard bind]. rewrite Nat2Z.id.
  destruct (apply_along_axis_spec d 0 a ax (argsort1 ltb eqb d k) (ranks_of k) (nth ax (shape a) 0) W P Lax B) as (R & E & WR & SR & GR).
  - intros ln Wl Sl. destruct (ranks_of_spec k ln) as [E L]. split; [exact E|]. rewrite L. unfold len. rewrite Wl, Sl. cbn. lia.
  - exists R. split; [exact E|]. split; [exact WR|].
    assert (shape R = shape a) as S' by (rewrite SR; apply upd_same; exact Lax).
    split; [exact S'|]. intros c Hc. cbn zeta. rewrite <- S' in Hc. split; [apply ranks_of_spec | apply GR, Hc].
Qed.

End ArgsortAxis.

(* The lane theorem with a hypothesis about the ACTUAL lanes only (C08 / C10): when the body answers on every lane of
   the array with results of one common length m, apply_along_axis returns the array of shape (shape with m at the
   axis) whose every lane is the body's result on the corresponding input lane; when two lanes give results of
   different lengths, nothing is returned.  (Along_proofs.apply_along_axis_spec asks the body to behave uniformly on
   every conceivable lane; operations such as unique do so only on the lanes at hand.) *)
From ArrRs Require Import Index Index_proofs Lists_proofs Axis Axis_proofs Reshape_proofs Broadcast_proofs Split Lift Reduce
  Along_proofs Sort Sort_proofs Order_proofs.

Section AlongGeneral.
Context {T U : Type} (dt : T) (du : U).

Theorem apply_along_axis_lanes (a : arr T) ax (f : arr T -> res (arr U)) (fr : arr T -> arr U) m :
  wf a -> pos_shape (shape a) -> ax < ndim a -> (Z.of_nat (ndim a) < two64)%Z ->
  (forall rest, in_range (remove_nth (shape a) ax) rest ->
     f (lane dt a ax rest) = Ok (fr (lane dt a ax rest)) /\ len (fr (lane dt a ax rest)) = m) ->
  exists R, apply_along_axis dt du a ax f = Ok R /\ wf R /\ shape R = upd (shape a) ax m /\
    forall c, in_range (shape R) c ->
      get du R c = nth (nth ax c 0) (elems (fr (lane dt a ax (remove_nth c ax)))) du.
Proof.
  intros W P H B F. set (L := nth ax (shape a) 0) in *. set (rs := remove_nth (shape a) ax) in *.
  assert (0 < L) as HL by (apply pos_shape_nth; auto).
  assert (0 < prod rs) as Hp by (apply pos_shape_prod, pos_shape_remove, P).
  assert (length rs = ndim a - 1) as Lrs by (apply remove_nth_length; exact H).
  unfold apply_along_axis. destruct (Nat.ltb_spec ax (ndim a)); [|lia]. cbn [guard bind].
  destruct (move_to_last dt a ax W H B) as (mv & Em & Wm & Sm & Gm). rewrite Em. cbn [bind]. fold L in Sm, Gm. fold rs in Sm, Gm.
  assert (len mv = prod rs * L) as Lm by (unfold len; rewrite Wm, Sm, prod_app; cbn; lia).
  unfold ravel. assert (new (elems mv) [len mv] = Ok (mk (elems mv) [len mv])) as ->
    by (apply new_iff; split; [cbn; unfold len; lia | reflexivity]). cbn [bind]. fold rs.
  rewrite (split_even_1d dt (mk (elems mv) [len mv]) (prod rs) L None); cbn [shape elems];
    [| unfold wf; cbn; unfold len; lia | now rewrite Lm | exact Hp | exact HL | now left]. cbn [bind].
  (* every chunk is a lane of a *)
  assert (forall j, j < prod rs -> chunk (elems mv) L j = lane dt a ax (unravel rs j)) as CL
    by (intros j Hj; apply (chunk_is_lane dt a mv ax j Wm Sm Gm Hj)).
  assert (forall x, In x (map (chunk (elems mv) L) (seq 0 (prod rs))) -> f x = Ok (fr x)) as Fok.
  { intros x Hx. apply in_map_iff in Hx as (j & <- & Hj). apply in_seq in Hj.
    rewrite CL by lia. apply F. apply unravel_in_range. lia. }
  rewrite (mapM_ok f fr _ Fok). cbn [bind]. rewrite map_map.
  destruct (prod rs) as [|p'] eqn:Ep; [lia|]. rewrite <- Ep in *. clear p' Ep.
  remember (map (fun j => fr (chunk (elems mv) L j)) (seq 0 (prod rs))) as results eqn:Er.
  assert (length results = prod rs) as Lres by (rewrite Er, map_length, seq_length; reflexivity).
  assert (forall x, In x results -> length (elems x) = m) as Um.
  { intros x Hx. rewrite Er in Hx. apply in_map_iff in Hx as (j & <- & Hj). apply in_seq in Hj.
    rewrite CL by lia. apply F. apply unravel_in_range. lia. }
  destruct results as [|first rest_results] eqn:Eres; [cbn in Lres; lia|]. rewrite <- Eres in *.
  assert (len first = m) as Lf by (apply Um; rewrite Eres; now left).
  assert (forallb (fun r : arr U => len r =? len first) results = true) as ->
    by (apply forallb_forall; intros x Hx; unfold len at 1; rewrite (Um x Hx), Lf; apply Nat.eqb_refl).
  cbn [negb]. rewrite flat_arr_ok. cbn [bind]. rewrite Lf.
  assert (upd (shape mv) (ndim a - 1) m = rs ++ [m]) as ->.
  { rewrite Sm. rewrite <- Lrs. clear. induction rs as [|h t IH]; cbn; [reflexivity | now rewrite IH]. }
  pose proof (length_flat_map_uniform (@elems U) results m Um) as Lfm.
  unfold reshape. cbn [elems].
  assert (new (flat_map (@elems U) results) (rs ++ [m]) = Ok (mk (flat_map (@elems U) results) (rs ++ [m]))) as ->
    by (apply new_iff; split; [rewrite Lfm, Lres, prod_app; cbn; lia | reflexivity]). cbn [bind].
  set (b := mk (flat_map (@elems U) results) (rs ++ [m])).
  assert (wf b) as Wb by (unfold wf, b; cbn [elems shape]; rewrite Lfm, Lres, prod_app; cbn; lia).
  assert (ndim b = ndim a) as Nb by (unfold b; unfold ndim in *; cbn [shape]; rewrite app_length; cbn [length]; lia).
  rewrite <- Nb. destruct (move_from_last du b ax Wb ltac:(lia) ltac:(lia)) as (R & ER & WR & SR & GR).
  exists R. split; [exact ER|]. split; [exact WR|].
  assert (shape R = upd (shape a) ax m) as ShR.
  { rewrite SR. unfold b. cbn [shape]. rewrite removelast_last, last_last. symmetry. apply upd_as_insert_remove. exact H. }
  split; [exact ShR|].
  intros c Hc. rewrite ShR in Hc. rewrite upd_as_insert_remove in Hc by exact H. fold rs in Hc.
  pose proof (in_range_length _ _ Hc) as Lc. rewrite insert_nth_length in Lc.
  assert (ax < length c) as Hax by (unfold ndim in *; lia).
  assert (in_range rs (remove_nth c ax)) as Hrest.
  { apply (in_range_remove _ _ ax) in Hc. rewrite remove_insert_nth' in Hc by (unfold ndim in *; lia). exact Hc. }
  assert (nth ax c 0 < m) as Hk by (apply (in_range_insert_nth_lt rs c ax m); [lia | exact Hc]).
  specialize (GR (remove_nth c ax ++ [nth ax c 0])). unfold b in GR at 1. cbn [shape] in GR.
  rewrite removelast_last, last_last in GR. rewrite insert_remove_nth in GR by exact Hax.
  rewrite GR by (apply in_range_snoc; assumption).
  unfold get, b. cbn [shape elems]. rewrite flat_snoc by (apply in_range_length; exact Hrest).
  rewrite (nth_flat_map_uniform (@elems U) results m _ _ first du Um)
    by (rewrite ?Lres; auto; apply flat_lt; exact Hrest).
  f_equal. f_equal. rewrite Er.
  rewrite (nth_indep _ first (fr (chunk (elems mv) L 0))) by (rewrite map_length, seq_length; apply flat_lt; exact Hrest).
  rewrite (map_nth (fun j => fr (chunk (elems mv) L j))), seq_nth by (apply flat_lt; exact Hrest). cbn [Nat.add].
  f_equal. rewrite CL by (apply flat_lt; exact Hrest).
  f_equal. apply unravel_flat. exact Hrest.
Qed.

(* ... and when two lanes give results of different lengths nothing is returned (repair F29) *)
Theorem apply_along_axis_ragged (a : arr T) ax (f : arr T -> res (arr U)) (fr : arr T -> arr U) r1 r2 :
  wf a -> pos_shape (shape a) -> ax < ndim a -> (Z.of_nat (ndim a) < two64)%Z ->
  (forall rest, in_range (remove_nth (shape a) ax) rest -> f (lane dt a ax rest) = Ok (fr (lane dt a ax rest))) ->
  in_range (remove_nth (shape a) ax) r1 -> in_range (remove_nth (shape a) ax) r2 ->
  len (fr (lane dt a ax r1)) <> len (fr (lane dt a ax r2)) ->
  apply_along_axis dt du a ax f = Err EShapeLen.
Proof.
  intros W P H B F H1 H2 Ne. set (L := nth ax (shape a) 0) in *. set (rs := remove_nth (shape a) ax) in *.
  assert (0 < L) as HL by (apply pos_shape_nth; auto).
  assert (0 < prod rs) as Hp by (apply pos_shape_prod, pos_shape_remove, P).
  unfold apply_along_axis. destruct (Nat.ltb_spec ax (ndim a)); [|lia]. cbn [guard bind].
  destruct (move_to_last dt a ax W H B) as (mv & Em & Wm & Sm & Gm). rewrite Em. cbn [bind]. fold L in Sm, Gm. fold rs in Sm, Gm.
  assert (len mv = prod rs * L) as Lm by (unfold len; rewrite Wm, Sm, prod_app; cbn; lia).
  unfold ravel. assert (new (elems mv) [len mv] = Ok (mk (elems mv) [len mv])) as ->
    by (apply new_iff; split; [cbn; unfold len; lia | reflexivity]). cbn [bind]. fold rs.
  rewrite (split_even_1d dt (mk (elems mv) [len mv]) (prod rs) L None); cbn [shape elems];
    [| unfold wf; cbn; unfold len; lia | now rewrite Lm | exact Hp | exact HL | now left]. cbn [bind].
  assert (forall j, j < prod rs -> chunk (elems mv) L j = lane dt a ax (unravel rs j)) as CL
    by (intros j Hj; apply (chunk_is_lane dt a mv ax j Wm Sm Gm Hj)).
  assert (forall x, In x (map (chunk (elems mv) L) (seq 0 (prod rs))) -> f x = Ok (fr x)) as Fok.
  { intros x Hx. apply in_map_iff in Hx as (j & <- & Hj). apply in_seq in Hj.
    rewrite CL by lia. apply F. apply unravel_in_range. lia. }
  rewrite (mapM_ok f fr _ Fok). cbn [bind]. rewrite map_map.
  remember (map (fun j => fr (chunk (elems mv) L j)) (seq 0 (prod rs))) as results eqn:Er.
  assert (forall r, in_range rs r -> In (fr (lane dt a ax r)) results) as Inr.
  { intros r Hr. rewrite Er. apply in_map_iff. exists (flat rs r). split.
    - rewrite CL by (apply flat_lt; exact Hr). now rewrite unravel_flat.
    - apply in_seq. pose proof (flat_lt _ _ Hr). lia. }
  destruct results as [|first rest_results] eqn:Eres; [destruct (Inr r1 H1)|]. rewrite <- Eres in *.
  destruct (forallb (fun r : arr U => len r =? len first) results) eqn:Fb; [|reflexivity].
  exfalso. rewrite forallb_forall in Fb.
  pose proof (Fb _ (Inr r1 H1)) as E1. pose proof (Fb _ (Inr r2 H2)) as E2.
  apply Nat.eqb_eq in E1, E2. congruence.
Qed.

End AlongGeneral.

(* ---------- unique along an axis (C10) ---------- *)
Section UniqueAxis.
Context {T : Type} (ltb eqb : T -> T -> bool) (d : T).

Definition distinct_sorted (l : list T) : list T := dedup eqb (std_sort ltb l).

(* when every lane of the array has the same number m of distinct values, unique along the axis returns the array
   whose axis has length m and whose every lane is the sorted list of the distinct values of the input lane *)
Theorem unique_axis_spec (a : arr T) z m :
  wf a -> pos_shape (shape a) -> (Z.of_nat (ndim a) < two64)%Z -> axis_ok (ndim a) z ->
  let ax := norm_nat (ndim a) z in
  (forall rest, in_range (remove_nth (shape a) ax) rest -> length (distinct_sorted (elems (lane d a ax rest))) = m) ->
  exists R, unique_arr ltb eqb d a (Some z) = Ok R /\ wf R /\ shape R = upd (shape a) ax m /\
    forall c, in_range (shape R) c ->
      get d R c = nth (nth ax c 0) (distinct_sorted (elems (lane d a ax (remove_nth c ax)))) d.
Proof.
  intros W P B Hz ax Hm. destruct (normalize_axis_ok _ _ B Hz) as [En Lax]. fold ax in En, Lax.
  unfold unique_arr. rewrite En. destruct (Z.ltb_spec (Z.of_nat ax) (Z.of_nat (ndim a))); [|lia].
  cbn [guard bind]. rewrite Nat2Z.id.
  destruct (apply_along_axis_lanes d d a ax (unique1 ltb eqb)
              (fun ln => mk (distinct_sorted (elems ln)) [length (distinct_sorted (elems ln))]) m W P Lax B) as (R & E & WR & SR & GR).
  - intros rest Hr. split; [unfold unique1; apply flat_arr_ok|]. unfold len. cbn [elems]. apply Hm, Hr.
  - exists R. split; [exact E|]. split; [exact WR|]. split; [exact SR|]. intros c Hc. rewrite (GR c Hc). reflexivity.
Qed.

(* lanes with different numbers of distinct values do not fit one shape: refused *)
Theorem unique_axis_ragged (a : arr T) z r1 r2 :
  wf a -> pos_shape (shape a) -> (Z.of_nat (ndim a) < two64)%Z -> axis_ok (ndim a) z ->
  let ax := norm_nat (ndim a) z in
  in_range (remove_nth (shape a) ax) r1 -> in_range (remove_nth (shape a) ax) r2 ->
  length (distinct_sorted (elems (lane d a ax r1))) <> length (distinct_sorted (elems (lane d a ax r2))) ->
  unique_arr ltb eqb d a (Some z) = Err EShapeLen.
Proof.
  intros W P B Hz ax H1 H2 Ne. destruct (normalize_axis_ok _ _ B Hz) as [En Lax]. fold ax in En, Lax.
  unfold unique_arr. rewrite En. destruct (Z.ltb_spec (Z.of_nat ax) (Z.of_nat (ndim a))); [|lia].
  cbn [guard bind]. rewrite Nat2Z.id.
  apply (apply_along_axis_ragged d d a ax (unique1 ltb eqb)
           (fun ln => mk (distinct_sorted (elems ln)) [length (distinct_sorted (elems ln))]) r1 r2 W P Lax B); auto.
  intros rest Hr. unfold unique1. apply flat_arr_ok.
Qed.

End UniqueAxis.

(* Str.v — ASCII strings as byte lists; the per-string functions of src/alphanumeric/types/string.rs (as repaired)
   with Gallina definitions of the std primitives they use (find, rfind, split, splitn, rsplit, rsplitn, replace,
   replacen, match_indices, case maps, char classes), and the array lifting of src/alphanumeric/operations/*.rs *)
From ArrRs Require Export Index Axis Broadcast Lift.

Definition str := list Z.

(* ---------- std primitives (modelled, not verified; exercised by the correspondence check) ---------- *)
Definition is_upper_c (c : Z) : bool := ((65 <=? c) && (c <=? 90))%Z.
Definition is_lower_c (c : Z) : bool := ((97 <=? c) && (c <=? 122))%Z.
Definition is_alpha_c (c : Z) : bool := is_upper_c c || is_lower_c c.
Definition is_digit_c (c : Z) : bool := ((48 <=? c) && (c <=? 57))%Z.
Definition is_alnum_c (c : Z) : bool := is_alpha_c c || is_digit_c c.
Definition is_space_c (c : Z) : bool := (c =? 32)%Z || ((9 <=? c) && (c <=? 13))%Z.
Definition to_upper_c (c : Z) : Z := if is_lower_c c then (c - 32)%Z else c.
Definition to_lower_c (c : Z) : Z := if is_upper_c c then (c + 32)%Z else c.

Fixpoint starts_with (s p : str) : bool :=
  match p, s with
  | [], _ => true
  | x :: p', y :: s' => (x =? y)%Z && starts_with s' p'
  | _ :: _, [] => false
  end.
Definition ends_with (s p : str) : bool := starts_with (rev s) (rev p).

(* str::find: byte index of the first occurrence *)
Fixpoint find (s sub : str) : option nat :=
  if starts_with s sub then Some 0
  else match s with [] => None | _ :: t => option_map S (find t sub) end.

(* str::rfind: byte index of the last occurrence *)
Definition rfind (s sub : str) : option nat :=
  fold_left (fun acc i => if starts_with (skipn i s) sub then Some i else acc) (seq 0 (S (length s))) None.

(* str::split with a non-empty pattern (left to right, non-overlapping); at most `limit` pieces when given (splitn) *)
Fixpoint split_f (fuel : nat) (s sep cur : str) (limit : option nat) : list str :=
  match fuel with
  | 0 => [rev cur ++ s]
  | S f =>
    match limit with
    | Some 0 => []
    | Some 1 => [rev cur ++ s]
    | _ =>
      match s with
      | [] => [rev cur]
      | c :: t =>
        if starts_with s sep then
          rev cur :: split_f f (skipn (length sep) s) sep [] (option_map pred limit)
        else split_f f t sep (c :: cur) limit
      end
    end
  end.

Definition split_str (s sep : str) (limit : option nat) : list str :=
  match sep with
  | [] => (* an empty pattern matches at every boundary *)
    let pieces := [] :: map (fun c => [c]) s ++ [[]] in
    match limit with
    | None => pieces
    | Some n => if length pieces <=? n then pieces else firstn (n - 1) pieces ++ (if n =? 0 then [] else [concat (skipn (n - 1) pieces)])
    end
  | _ => split_f (S (length s)) s sep [] limit
  end.

(* rsplit / rsplitn: the mirror image; the code lists the pieces in their original order *)
Definition rsplit_str (s sep : str) (limit : option nat) : list str :=
  map (@rev Z) (rev (split_str (rev s) (rev sep) limit)).

(* str::replace / replacen: left to right, non-overlapping *)
Fixpoint replace_f (fuel : nat) (s old new : str) (count : option nat) : str :=
  match fuel with
  | 0 => s
  | S f =>
    match count with
    | Some 0 => s
    | _ =>
      match s with
      | [] => []
      | c :: t =>
        if starts_with s old then new ++ replace_f f (skipn (length old) s) old new (option_map pred count)
        else c :: replace_f f t old new count
      end
    end
  end.

Definition replace_str (s old new : str) (count : option nat) : str :=
  match old with
  | [] => (* insertion at every boundary, limited by count *)
    let n := match count with Some c => Nat.min c (S (length s)) | None => S (length s) end in
    concat (map (fun p => (if fst p <? n then new else []) ++ [snd p]) (combine (seq 0 (length s)) s))
      ++ (if length s <? n then new else [])
  | _ => replace_f (S (length s)) s old new count
  end.

(* match_indices(sub).count(): non-overlapping occurrences *)
Fixpoint count_f (fuel : nat) (s sub : str) : nat :=
  match fuel with
  | 0 => 0
  | S f => match s with
           | [] => 0
           | _ :: t => if starts_with s sub then S (count_f f (skipn (length sub) s) sub) else count_f f t sub
           end
  end.
Definition count_str (s sub : str) : nat :=
  match sub with [] => S (length s) | _ => count_f (S (length s)) s sub end.

Definition mem_c (c : Z) (chars : str) : bool := existsb (Z.eqb c) chars.

(* ---------- string.rs ---------- *)
Definition s_append (a b : str) : str := a ++ b.
Definition s_multiply (a : str) (n : nat) : str := concat (repeat a n).
Definition s_capitalize (a : str) : str := match a with [] => [] | c :: t => to_upper_c c :: t end.
Definition s_lower (a : str) : str := map to_lower_c a.
Definition s_upper (a : str) : str := map to_upper_c a.
Definition s_swapcase (a : str) : str :=
  map (fun c => if is_lower_c c then to_upper_c c else if is_upper_c c then to_lower_c c else c) a.
Definition s_center (a : str) (width : nat) (fill : Z) : str :=
  if width <=? length a then firstn width a
  else let diff := width - length a in repeat fill (diff - diff / 2) ++ a ++ repeat fill (diff / 2).
Definition s_ljust (a : str) (width : nat) (fill : Z) : str :=
  if width <=? length a then firstn width a else a ++ repeat fill (width - length a).
Definition s_rjust (a : str) (width : nat) (fill : Z) : str :=
  if width <=? length a then firstn width a else repeat fill (width - length a) ++ a.
Fixpoint join_with (sep : str) (pieces : list str) : str :=
  match pieces with [] => [] | [p] => p | p :: t => p ++ sep ++ join_with sep t end.
Definition s_join (a sep : str) : str := join_with sep (map (fun c => [c]) a).
Definition s_partition (a sep : str) : list str :=
  match find a sep with
  | None => [a; []; []]
  | Some i => [firstn i a; sep; skipn (i + length sep) a]
  end.
Definition s_rpartition (a sep : str) : list str :=
  match rfind a sep with
  | None => [a; []; []]
  | Some i => [firstn i a; sep; skipn (i + length sep) a]
  end.
Definition s_rstrip (a chars : str) : str := rev ((fix go l := match l with [] => [] | c :: t => if mem_c c chars then go t else l end) (rev a)).
Definition s_lstrip (a chars : str) : str := rev (s_rstrip (rev a) chars).
Definition s_strip (a chars : str) : str := s_rstrip (s_lstrip a chars) chars.

(* translate: every character is replaced by the partner of its first occurrence in the table *)
Definition translate_c (table : list (Z * Z)) (c : Z) : Z :=
  match List.find (fun p => (fst p =? c)%Z) table with Some p => snd p | None => c end.
Definition s_translate (a : str) (table : list (Z * Z)) : str := map (translate_c table) a.

(* zfill: numeric strings only (str::parse::<f64>() succeeds).  The grammar modelled here is the one the check's
   generator draws from: an optional sign, then digits with an optional point and optional further digits, or a point
   followed by digits; other spellings f64 accepts (exponents, inf, nan) are outside the generator's alphabet *)
Definition all_digits (s : str) : bool := forallb is_digit_c s.
Definition is_simple_number (s : str) : bool :=
  let body := match s with c :: t => if ((c =? 43) || (c =? 45))%Z then t else s | [] => s end in
  match find body [46%Z] with
  | None => negb (length body =? 0) && all_digits body
  | Some i => let ip := firstn i body in let fp := skipn (S i) body in
              all_digits ip && all_digits fp && negb ((length ip =? 0) && (length fp =? 0))
  end.
(* width - prefix.len() saturates (the C09 repair); zeros are put in front of the digits, after a leading '-' *)
Definition s_zfill (a : str) (width : nat) : str :=
  match a with
  | 45%Z :: t => 45%Z :: repeat 48%Z ((width - 1) - length t) ++ t
  | _ => repeat 48%Z (width - length a) ++ a
  end.

(* splitlines: \n, \r and \r\n end a line; a final unterminated line is kept *)
Fixpoint splitlines_f (s cur : str) (keep : bool) : list str :=
  match s with
  | [] => match cur with [] => [] | _ => [rev cur] end
  | 13%Z :: 10%Z :: t => (rev cur ++ (if keep then [13; 10]%Z else [])) :: splitlines_f t [] keep
  | c :: t => if ((c =? 10) || (c =? 13))%Z then (rev cur ++ (if keep then [c] else [])) :: splitlines_f t [] keep
              else splitlines_f t (c :: cur) keep
  end.
Definition s_splitlines (a : str) (keep : bool) : list str := splitlines_f a [] keep.

(* comparisons: trailing spaces ignored, then byte-wise lexicographic order *)
Fixpoint lex_ltb (a b : str) : bool :=
  match a, b with
  | [], [] => false
  | [], _ :: _ => true
  | _ :: _, [] => false
  | x :: a', y :: b' => (x <? y)%Z || ((x =? y)%Z && lex_ltb a' b')
  end.
Definition trail (a : str) : str := s_rstrip a [32%Z].
Definition s_less (a b : str) : bool := lex_ltb (trail a) (trail b).
Definition s_equal (a b : str) : bool := list_eqb Z.eqb (trail a) (trail b).
Definition s_greater (a b : str) : bool := s_less b a.
Definition s_less_equal (a b : str) : bool := negb (s_greater a b).
Definition s_greater_equal (a b : str) : bool := negb (s_less a b).
Definition s_not_equal (a b : str) : bool := negb (s_equal a b).

(* core/types/compare parse_op: the operator name, lower-cased (ASCII) *)
Definition parse_cmp_op (name : str) : option (str -> str -> bool) :=
  let n := map to_lower_c name in
  let is (w : list Z) := list_eqb Z.eqb n w in
  if is [61;61]%Z || is [101;113;117;97;108;115]%Z then Some s_equal
  else if is [33;61]%Z || is [110;111;116;95;101;113;117;97;108;115]%Z then Some s_not_equal
  else if is [62]%Z || is [103;114;101;97;116;101;114]%Z then Some s_greater
  else if is [60]%Z || is [108;101;115;115]%Z then Some s_less
  else if is [62;61]%Z || is [103;114;101;97;116;101;114;95;101;113;117;97;108]%Z then Some s_greater_equal
  else if is [60;61]%Z || is [108;101;115;115;95;101;113;117;97;108]%Z then Some s_less_equal
  else None.


(* character-class tests *)
Definition nonempty_all (p : Z -> bool) (a : str) : bool := negb (length a =? 0) && forallb p a.
Definition s_is_lower (a : str) : bool := let f := filter is_alpha_c a in negb (length f =? 0) && forallb is_lower_c f.
Definition s_is_upper (a : str) : bool := let f := filter is_alpha_c a in negb (length f =? 0) && forallb is_upper_c f.
Definition s_is_digit (a : str) : bool := (length a =? 1) && forallb is_digit_c a.

(* ---------- array lifting ---------- *)
Section Lifting.
Context {U : Type}.

(* two string arrays, both stretched (manipulate.rs add / join / partition / strip ..., indexing.rs, compare.rs) *)
Definition str_lift2 (f : str -> str -> U) (a b : arr str) : res (arr U) := lift2 [] f a b.
Definition str_map (f : str -> U) (a : arr str) : res (arr U) :=
  new (map f (elems a)) (shape a).

End Lifting.

Definition default_sep : arr str := mk [[32%Z]] [1].

(* multiply / splitlines: broadcast_h2 with a heterogeneous argument *)
Definition str_h2 {S U : Type} (ds : S) (f : str -> S -> U) (a : arr str) (b : arr S) : res (arr U) :=
  let* p := broadcast_h2 [] ds a b in
  new (map (fun xy => f (fst xy) (snd xy)) (combine (elems (fst p)) (elems (snd p)))) (shape (fst p)).

(* center / ljust: broadcast_h3, then Array::new with the RECEIVER's shape *)
Definition str_pad3 (f : str -> nat -> Z -> str) (a : arr str) (width : arr nat) (fill : arr Z) : res (arr str) :=
  let* t := broadcast_h3 [] 0 0%Z a width fill in
  let '(arr_b, w, c) := t in
  new (map (fun i => f (nth i (elems arr_b) []) (nth i (elems w) 0) (nth i (elems c) 0%Z)) (seq 0 (len arr_b))) (shape a).

(* rjust: broadcast_arrays of the receiver with placeholders shaped like width and fill *)
Definition str_rjust (a : arr str) (width : arr nat) (fill : arr Z) : res (arr str) :=
  let* sp := single [32%Z] in
  let* tmp_fill := broadcast_to [] sp (shape fill) in
  let* tmp_width := broadcast_to [] sp (shape width) in
  let* bs := broadcast_arrays [] [a; tmp_width; tmp_fill] in
  match bs with
  | arr_b :: _ =>
    let* w := broadcast_to 0 width (shape arr_b) in
    let* c := broadcast_to 0%Z fill (shape arr_b) in
    new (map (fun i => s_rjust (nth i (elems arr_b) []) (nth i (elems w) 0) (nth i (elems c) 0%Z)) (seq 0 (len arr_b))) (shape a)
  | [] => Panic
  end.

(* split / rsplit: separators broadcast with the receiver, optional limits broadcast to the result shape *)
Definition str_split (right : bool) (a : arr str) (sep : option (arr str)) (limit : option (arr nat)) : res (arr (list str)) :=
  let sepa := match sep with Some s => s | None => default_sep end in
  let* p := broadcast [] [] a sepa in
  let* lim := match limit with
              | Some l => let* b := broadcast_to 0 l (shape p) in Ok (Some b)
              | None => Ok None end in
  new (map (fun i => let xy := nth i (elems p) ([], []) in
                     let l := match lim with Some b => Some (nth i (elems b) 0) | None => None end in
                     if right then rsplit_str (fst xy) (snd xy) l else split_str (fst xy) (snd xy) l)
           (seq 0 (len p))) (shape p).

(* replace: broadcast_arrays of the three string arrays *)
Definition str_replace (a old new_ : arr str) (count : option nat) : res (arr str) :=
  let* bs := broadcast_arrays [] [a; old; new_] in
  match bs with
  | [x; y; z] =>
    new (map (fun i => replace_str (nth i (elems x) []) (nth i (elems y) []) (nth i (elems z) []) count) (seq 0 (len x))) (shape x)
  | _ => Panic
  end.

(* strip = lstrip then rstrip, each broadcasting with the character-set array *)
Definition str_strip2 (f : str -> str -> str) (a : arr str) (chars : option (arr str)) : res (arr str) :=
  str_lift2 f a (match chars with Some c => c | None => default_sep end).
Definition str_strip (a : arr str) (chars : option (arr str)) : res (arr str) :=
  let* l := str_strip2 s_lstrip a chars in str_strip2 s_rstrip l chars.

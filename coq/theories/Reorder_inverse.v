(* the inverse laws of C12 as theorems: flipping twice along an axis, and rolling by s then by -s along an axis, restore
   the array; rotating a list by s then by -s restores it (the flat form) *)
From ArrRs Require Import Index Index_proofs Lists_proofs Axis Axis_proofs Reshape_proofs Broadcast_proofs Along_proofs
  Reorder Reorder_proofs Reorder_axis.

Lemma upd_twice {A} (l : list A) i x y : upd (upd l i x) i y = upd l i y.
Proof. revert i; induction l as [|h t IH]; intros [|i]; cbn; auto. now rewrite IH. Qed.

Lemma rot_src_inverse s n i : i < n -> rot_src (- s) n (rot_src s n i) = i.
Proof.
  intros H. unfold rot_src. assert (0 < Z.of_nat n)%Z as Pn by lia.
  rewrite Z2Nat.id by (apply Z.mod_pos_bound; exact Pn).
  replace ((Z.of_nat i - s) mod Z.of_nat n - - s)%Z with ((Z.of_nat i - s) mod Z.of_nat n + s)%Z by lia.
  rewrite Zplus_mod_idemp_l. replace (Z.of_nat i - s + s)%Z with (Z.of_nat i) by lia.
  rewrite Z.mod_small by lia. apply Nat2Z.id.
Qed.

Section Inverses.
Context {T : Type} (d : T).

Theorem flip_twice (a : arr T) z :
  wf a -> pos_shape (shape a) -> (Z.of_nat (ndim a) < two64)%Z -> axis_ok (ndim a) z ->
  exists R, flip d a (Some [z]) = Ok R /\ flip d R (Some [z]) = Ok a.
Proof.
  intros W P B Hz. destruct (flip_one_axis d a z W P B Hz) as (R & E & WR & SR & G).
  exists R. split; [exact E|].
  assert (ndim R = ndim a) as NR by (unfold ndim; now rewrite SR).
  destruct (flip_one_axis d R z WR ltac:(rewrite SR; exact P) ltac:(rewrite NR; exact B) ltac:(rewrite NR; exact Hz))
    as (R2 & E2 & W2 & S2 & G2).
  rewrite E2. f_equal. apply (array_ext d); auto; [congruence|].
  intros c Hc. rewrite S2, SR in Hc. rewrite (G2 c) by (rewrite SR; exact Hc). rewrite NR, SR.
  set (ax := norm_nat (ndim a) z) in *.
  destruct (normalize_axis_ok _ _ B Hz) as [_ Lax]. fold ax in Lax. unfold ndim in Lax.
  pose proof (proj1 (in_range_nth _ _) Hc) as [Lc Nc]. pose proof (Nc ax Lax) as Bx.
  rewrite G.
  - f_equal. rewrite upd_twice. rewrite nth_upd_eq by lia.
    replace (nth ax (shape a) 0 - 1 - (nth ax (shape a) 0 - 1 - nth ax c 0)) with (nth ax c 0) by lia.
    apply upd_same. lia.
  - apply in_range_nth. split; [now rewrite upd_length|]. intros k Hk. rewrite nth_upd.
    destruct (Nat.eqb_spec ax k) as [<-|Ne]; destruct (Nat.ltb_spec ax (length c)); cbn [andb]; try lia; apply Nc; lia.
Qed.

Theorem roll_inverse (a : arr T) s z :
  wf a -> pos_shape (shape a) -> (Z.of_nat (ndim a) < two64)%Z -> axis_ok (ndim a) z -> 2 <= ndim a ->
  exists R, roll d a [s] (Some [z]) = Ok R /\ roll d R [(- s)%Z] (Some [z]) = Ok a.
Proof.
  intros W P B Hz N2. destruct (roll_one_axis d a s z W P B Hz N2) as (R & E & WR & SR & G).
  exists R. split; [exact E|].
  assert (ndim R = ndim a) as NR by (unfold ndim; now rewrite SR).
  destruct (roll_one_axis d R (- s) z WR ltac:(rewrite SR; exact P) ltac:(rewrite NR; exact B) ltac:(rewrite NR; exact Hz) ltac:(lia))
    as (R2 & E2 & W2 & S2 & G2).
  rewrite E2. f_equal. apply (array_ext d); auto; [congruence|].
  intros c Hc. rewrite S2, SR in Hc. rewrite (G2 c) by (rewrite SR; exact Hc). rewrite NR, SR.
  set (ax := norm_nat (ndim a) z) in *.
  destruct (normalize_axis_ok _ _ B Hz) as [_ Lax]. fold ax in Lax. unfold ndim in Lax.
  pose proof (proj1 (in_range_nth _ _) Hc) as [Lc Nc]. pose proof (Nc ax Lax) as Bx.
  set (n := nth ax (shape a) 0) in *.
  assert (rot_src (- s) n (nth ax c 0) < n) as Br by (apply rot_src_lt; exact Bx).
  rewrite G.
  - f_equal. rewrite upd_twice. rewrite nth_upd_eq by lia.
    replace s with (- - s)%Z at 1 by lia. rewrite rot_src_inverse by exact Bx. apply upd_same. lia.
  - apply in_range_nth. split; [now rewrite upd_length|]. intros k Hk. rewrite nth_upd.
    destruct (Nat.eqb_spec ax k) as [<-|Ne]; destruct (Nat.ltb_spec ax (length c)); cbn [andb]; try lia; try exact Br; apply Nc; lia.
Qed.

End Inverses.

(* the flat form: rotating by s and then by -s *)
Theorem rotate_inverse {A} (l : list A) s : rotate (rotate l s) (- s) = l.
Proof.
  destruct l as [|x t] eqn:El; [reflexivity|]. rewrite <- El. assert (length l <> 0) as Nz by (rewrite El; discriminate).
  apply (nth_ext _ _ x x); [now rewrite !rotate_length|].
  intros i Hi. rewrite !rotate_length in Hi.
  rewrite rotate_nth_sigma by (rewrite rotate_length; exact Hi). rewrite rotate_length.
  rewrite rotate_nth_sigma by (apply rot_src_lt; exact Hi).
  f_equal. replace s with (- - s)%Z at 1 by lia. apply rot_src_inverse. exact Hi.
Qed.

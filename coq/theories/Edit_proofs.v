From ArrRs Require Import Index Index_proofs Lists_proofs Axis Axis_proofs Reshape_proofs Broadcast Broadcast_proofs Sort Edit.
From Coq Require Import Sorted Permutation.

(* ---------- trim ---------- *)
Section Trim.
Context {A : Type} (p : A -> bool).

Definition starts_without (t : list A) : Prop := match t with [] => True | x :: _ => p x = false end.

Lemma drop_while_split l : exists pre, l = pre ++ drop_while p l /\ forallb p pre = true /\ starts_without (drop_while p l).
Proof.
  induction l as [|x t (pre & E & F & H)]; cbn [drop_while].
  - exists []. cbn. auto.
  - destruct (p x) eqn:Px.
    + exists (x :: pre). cbn. rewrite Px, F. split; [now rewrite <- E | auto].
    + exists []. cbn. auto.
Qed.

Lemma forallb_rev (l : list A) : forallb p (rev l) = forallb p l.
Proof.
  induction l as [|x t IH]; cbn; auto. rewrite forallb_app, IH. cbn. rewrite andb_true_r. apply andb_comm.
Qed.

Lemma drop_while_keeps_end l : starts_without (rev l) -> starts_without (rev (drop_while p l)).
Proof.
  induction l as [|x t IH]; cbn [drop_while]; auto. intros H. destruct (p x) eqn:Px; [|exact H].
  apply IH. cbn [rev] in H. destruct (rev t) as [|y r]; cbn in *; [congruence | exact H].
Qed.

(* trimming removes leading and trailing zeros only: l = zeros ++ trimmed ++ zeros, and the trimmed part neither
   begins nor ends with a zero *)
Theorem trim_spec l :
  let t := drop_while p (rev (drop_while p (rev l))) in
  exists pre suf, l = pre ++ t ++ suf /\ forallb p pre = true /\ forallb p suf = true /\
    starts_without t /\ starts_without (rev t).
Proof.
  cbn zeta. destruct (drop_while_split (rev l)) as (s' & E1 & F1 & H1).
  set (m := drop_while p (rev l)) in *.
  destruct (drop_while_split (rev m)) as (pre & E2 & F2 & H2).
  exists pre, (rev s'). split; [|split; [exact F2|split; [now rewrite forallb_rev|split; [exact H2|]]]].
  - rewrite <- (rev_involutive l), E1, rev_app_distr. rewrite app_assoc. f_equal. exact E2.
  - apply drop_while_keeps_end. rewrite rev_involutive. exact H1.
Qed.

End Trim.

(* ---------- delete: the request is normalised to strictly decreasing positions ---------- *)

Section EditProofs.
Context {T : Type} (dflt : T).

(* an index at or beyond the length is refused *)
Theorem delete1_oob (a : arr T) idx : existsb (fun i => len a <=? i) idx = true -> delete1 idx a = Err EOob.
Proof. intros H. unfold delete1. now rewrite H. Qed.

Lemma remove_nth_length_le {A} (l : list A) i : length (remove_nth l i) <= length l.
Proof. revert i; induction l as [|h t IH]; intros [|i]; cbn; auto. specialize (IH i). lia. Qed.

(* deleting removes exactly one element per (distinct, valid) requested position *)
Lemma fold_remove_length {A} (idx : list nat) (l : list A) :
  NoDup idx -> Forall (fun i => i < length l) idx -> StronglySorted gt idx ->
  length (fold_left (fun es i => remove_nth es i) idx l) = length l - length idx.
Proof.
  revert l; induction idx as [|i idx IH]; intros l ND F SS; cbn [fold_left length]; [lia|].
  inversion ND; inversion F; inversion SS; subst.
  rewrite IH; auto.
  - rewrite remove_nth_length by auto. lia.
  - rewrite remove_nth_length by auto. apply Forall_forall. intros j Hj.
    match goal with H : Forall (gt i) idx |- _ => rewrite Forall_forall in H; specialize (H j Hj) end. lia.
Qed.

Lemma delete1_wf (a : arr T) idx r : delete1 idx a = Ok r -> wf r.
Proof. unfold delete1. destruct (existsb _ _); [discriminate|]. apply new_wf. Qed.

Lemma trim_zeros_wf is_zero (a : arr T) r : trim_zeros is_zero a = Ok r -> wf r.
Proof. unfold trim_zeros. destruct (negb _); [discriminate|]. apply new_wf. Qed.

Theorem trim_zeros_rank (is_zero : T -> bool) (a : arr T) : ndim a <> 1 -> trim_zeros is_zero a = Err EUnsupDim.
Proof. intros H. unfold trim_zeros. destruct (Nat.eqb_spec (ndim a) 1); [contradiction | reflexivity]. Qed.

Theorem trim_zeros_elems (is_zero : T -> bool) (a : arr T) : ndim a = 1 ->
  exists r, trim_zeros is_zero a = Ok r /\
    elems r = drop_while is_zero (rev (drop_while is_zero (rev (elems a)))).
Proof.
  intros H. unfold trim_zeros. rewrite H. cbn [Nat.eqb negb]. rewrite flat_arr_ok. eexists. split; reflexivity.
Qed.

End EditProofs.

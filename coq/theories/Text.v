(* Text.v — the run-time pipeline of the array! literal macro (src/macros/create.rs: the generic arm and
   array_parse_shape!), the text form of arrays (src/core/operations/display.rs build_string), and the text forms of
   Tuple2 / Tuple3 / List (src/core/types/tuple, collection).  Strings are ASCII byte lists; std's replace / find / split
   are the Gallina definitions of Str.v. *)
From ArrRs Require Export Index Axis Str.

(* ---------- {:?} of nested vectors ---------- *)
Inductive tree := Leaf (s : str) | Node (l : list tree).

Definition lbr : Z := 91. Definition rbr : Z := 93. Definition comma : Z := 44. Definition space : Z := 32.
Definition quote : Z := 34. Definition hash : Z := 35.

Fixpoint dbg (t : tree) : str :=
  match t with
  | Leaf s => s
  | Node l => [lbr] ++ join_with [comma; space] (map dbg l) ++ [rbr]
  end.

(* a full rectangular tree of the given shape whose leaves are taken in reading order *)
Fixpoint full_tree (sh : list nat) (atoms : nat -> str) (offset : nat) : tree :=
  match sh with
  | [] => Leaf (atoms offset)
  | d :: rest => Node (map (fun i => full_tree rest atoms (offset + i * prod rest)) (seq 0 d))
  end.

(* ---------- the literal pipeline ---------- *)
Definition replace_all (s old new : str) : str := replace_str s old new None.

Definition leading_brackets (s : str) : nat :=
  (fix go l := match l with c :: t => if (c =? lbr)%Z then S (go t) else 0 | [] => 0 end) s.

(* string.find(|p| p != '[').unwrap_or(1) - 1, then 0 -> 1 *)
Definition literal_ndim (s : str) : res nat :=
  let first_non := if leading_brackets s =? length s then 1 else leading_brackets s in
  if first_non =? 0 then Panic                                  (* usize underflow *)
  else Ok (if first_non - 1 =? 0 then 1 else first_non - 1).

(* array_parse_shape!(ndim, string) *)
Fixpoint parse_shape_f (i_plus_1 : nat) (s : str) : res (list nat) :=
  match i_plus_1 with
  | 0 => Ok []
  | S i =>
    let pat := repeat rbr i ++ [comma] ++ repeat lbr i in
    let tmp := replace_all s pat [rbr; hash; lbr] in
    match find s (repeat rbr i) with
    | None => Panic                                             (* .find(..).unwrap() *)
    | Some p =>
      let s' := firstn (p + i) s in
      let* rest := parse_shape_f i s' in
      Ok (length (split_str tmp [rbr; hash; lbr] None) :: rest)
    end
  end.

(* split_terminator(','): like split, without a trailing empty piece *)
Definition split_terminator (s : str) : list str :=
  let pieces := split_str s [comma] None in
  match rev pieces with [] :: r => rev r | _ => pieces end.

(* the generic arm of array!: shape from the bracket structure, element tokens in reading order *)
Definition parse_literal (text : str) : res (arr str) :=
  let s := replace_all (replace_all text [quote; comma; space; quote] [quote; comma; quote]) [rbr; comma; space; lbr] [rbr; comma; lbr] in
  let* nd := literal_ndim s in
  let* shape := parse_shape_f nd s in
  let toks := split_terminator (replace_all (replace_all (replace_all (replace_all s [lbr] []) [rbr] []) [comma; space] [comma]) [quote] []) in
  new toks shape.

(* ---------- Display of arrays ---------- *)
Fixpoint chunk_list {A} (fuel k : nat) (l : list A) : list (list A) :=
  match fuel with
  | 0 => []
  | S f => match l with [] => [] | _ => firstn k l :: chunk_list f k (skipn k l) end
  end.

(* build_string(arr, precision, alternate, prefix) on already formatted elements *)
Fixpoint build_string (sh : list nat) (es : list str) (alternate : bool) (prefix : nat) : str :=
  match sh with
  | [] | [_] => [lbr] ++ join_with [comma; space] es ++ [rbr]
  | d :: rest =>
    let parts := map (fun c => build_string rest c alternate (S prefix)) (chunk_list d (prod rest) es) in
    let sep := if alternate then [comma; 10%Z] ++ repeat space prefix else [comma; space] in
    [lbr] ++ join_with sep parts ++ [rbr]
  end.

Definition display (a : arr str) (alternate : bool) : str :=
  if len a =? 0 then [lbr; rbr] else build_string (shape a) (elems a) alternate 1.

(* ---------- text forms of pairs, triples and lists ---------- *)
Definition lpar : Z := 40. Definition rpar : Z := 41.
Definition show_tuple (l : list str) : str := [lpar] ++ join_with [comma; space] l ++ [rpar].
Definition show_list (l : list str) : str := [lbr] ++ join_with [comma; space] l ++ [rbr].

Definition trim_start (p : Z -> bool) (s : str) : str := (fix go l := match l with c :: t => if p c then go t else l | [] => [] end) s.
Definition trim_end (p : Z -> bool) (s : str) : str := rev (trim_start p (rev s)).

(* Tuple2 / Tuple3 FromStr: parentheses trimmed, ", " -> ",", split on ',' *)
Definition parse_tuple (s : str) : list str :=
  split_str (replace_all (trim_end (Z.eqb rpar) (trim_start (Z.eqb lpar) s)) [comma; space] [comma]) [comma] None.
(* List FromStr (as repaired): parentheses or square brackets trimmed *)
Definition parse_list (s : str) : list str :=
  split_str (replace_all (trim_end (fun c => (c =? rpar) || (c =? rbr))%Z (trim_start (fun c => (c =? lpar) || (c =? lbr))%Z s))
                         [comma; space] [comma]) [comma] None.

(* proofs for the reshaping family (C07) and the well-formedness invariant of constructors (C01) *)
From ArrRs Require Import Index Index_proofs Lists_proofs Axis Axis_proofs.
From Coq Require Import Sorted.

Lemma bind_ok {A B} (r : res A) (k : A -> res B) y :
  (let* x := r in k x) = Ok y -> exists x, r = Ok x /\ k x = Ok y.
Proof. destruct r; cbn; intros H; try discriminate. eauto. Qed.

Lemma guard_ok b e : guard b e = Ok tt <-> b = true.
Proof. destruct b; cbn; split; auto; discriminate. Qed.

Ltac inv_bind H :=
  let x := fresh "x" in let E := fresh "E" in
  apply bind_ok in H as (x & E & H).

Section Reshape.
Context {T : Type}.
Implicit Types a r : arr T.

(* asking for an array whose element list does not fit the shape is refused, otherwise it is exactly that array *)
Lemma new_iff (es : list T) sh a : new es sh = Ok a <-> (length es = prod sh /\ a = mk es sh).
Proof.
  unfold new, matches_values_len. destruct (Nat.eqb_spec (prod sh) (length es)) as [E|N]; cbn.
  - split; [intros [= <-]; auto | intros [_ ->]; reflexivity].
  - split; [discriminate | intros [E _]; lia].
Qed.

Lemma new_refuse (es : list T) sh : length es <> prod sh -> new es sh = Err EShapeLen.
Proof.
  intros N. unfold new, matches_values_len. destruct (Nat.eqb_spec (prod sh) (length es)); [lia | reflexivity].
Qed.

Lemma new_total (es : list T) sh : new es sh = Ok (mk es sh) \/ new es sh = Err EShapeLen.
Proof.
  destruct (Nat.eq_dec (length es) (prod sh)) as [E|N].
  - left. apply new_iff. auto.
  - right. now apply new_refuse.
Qed.

Lemma new_wf (es : list T) sh a : new es sh = Ok a -> wf a.
Proof. intros H. apply new_iff in H as [E ->]. exact E. Qed.

Lemma reshape_ok a sh r : reshape a sh = Ok r -> elems r = elems a /\ shape r = sh /\ wf r.
Proof. unfold reshape. intros H. pose proof (new_wf _ _ _ H). apply new_iff in H as [E ->]. auto. Qed.

Lemma reshape_iff a sh : prod sh = len a -> reshape a sh = Ok (mk (elems a) sh).
Proof. intros H. unfold reshape. apply new_iff. unfold len in H. auto. Qed.

Lemma reshape_refuse a sh : prod sh <> len a -> reshape a sh = Err EShapeLen.
Proof. intros H. unfold reshape. apply new_refuse. unfold len in H. lia. Qed.

Lemma ravel_ok a : ravel a = Ok (mk (elems a) [len a]).
Proof. unfold ravel. apply new_iff. cbn. unfold len. split; [lia | reflexivity]. Qed.

Lemma flat_arr_ok (es : list T) : flat_arr es = Ok (mk es [length es]).
Proof. unfold flat_arr. apply new_iff. cbn. split; [lia | reflexivity]. Qed.

Lemma create_ok es sh nd a : create es sh nd = Ok a -> elems a = es /\ wf a.
Proof.
  unfold create. destruct (_ <? _).
  - intros H. inv_bind H. apply new_iff in E as [_ ->]. apply reshape_ok in H as (-> & _ & W). auto.
  - intros H. pose proof (new_wf _ _ _ H). apply new_iff in H as [_ ->]. auto.
Qed.

Lemma atleast_ok a n r : atleast a n = Ok r -> elems r = elems a /\ (wf a -> wf r).
Proof.
  unfold atleast. destruct n as [|[|[|[|n]]]]; try discriminate.
  - intros [= <-]. auto.
  - intros [= <-]. auto.
  - destruct (2 <=? ndim a); [intros [= <-]; auto|]. destruct (shape a); intros H; apply reshape_ok in H as (? & ? & ?); auto.
  - destruct (3 <=? ndim a); [intros [= <-]; auto|]. destruct (shape a) as [|? [|? ?]]; intros H; apply reshape_ok in H as (? & ? & ?); auto.
Qed.

Lemma expand_dims_ok a axes r : expand_dims a axes = Ok r -> elems r = elems a /\ wf r.
Proof. unfold expand_dims. intros H. inv_bind H. apply reshape_ok in H as (? & ? & ?). auto. Qed.

Lemma squeeze_ok a axes r : squeeze a axes = Ok r -> elems r = elems a /\ wf r.
Proof.
  unfold squeeze. destruct axes as [l|].
  - intros H. inv_bind H. destruct (existsb _ _); [discriminate|]. apply reshape_ok in H as (? & ? & ?). auto.
  - intros H. apply reshape_ok in H as (? & ? & ?). auto.
Qed.

(* ---- the chain theorem: any sequence of reshaping-family calls keeps the flat element list ---- *)

Inductive rop :=
| RReshape (sh : list nat) | RRavel | RAtleast (n : nat) | RExpand (axes : list Z) | RSqueeze (axes : option (list Z)).

Definition run_rop (a : arr T) (o : rop) : res (arr T) :=
  match o with
  | RReshape sh => reshape a sh
  | RRavel => ravel a
  | RAtleast n => atleast a n
  | RExpand axes => expand_dims a axes
  | RSqueeze axes => squeeze a axes
  end.

Fixpoint run_chain (a : arr T) (ops : list rop) : res (arr T) :=
  match ops with
  | [] => Ok a
  | o :: rest => let* b := run_rop a o in run_chain b rest
  end.

Lemma run_rop_ok a o r : run_rop a o = Ok r -> elems r = elems a /\ (wf a -> wf r).
Proof.
  destruct o; cbn [run_rop]; intros H.
  - apply reshape_ok in H as (? & ? & ?). auto.
  - rewrite ravel_ok in H. injection H as <-. cbn. split; auto. intros _. unfold wf, len. cbn. lia.
  - now apply (atleast_ok _ n).
  - apply expand_dims_ok in H as [? ?]. auto.
  - apply squeeze_ok in H as [? ?]. auto.
Qed.

Theorem run_chain_elems a ops r : run_chain a ops = Ok r -> elems r = elems a /\ (wf a -> wf r).
Proof.
  revert a; induction ops as [|o rest IH]; intros a H; cbn [run_chain] in H.
  - injection H as <-. auto.
  - inv_bind H. apply run_rop_ok in E as [E1 W1]. apply IH in H as [E2 W2]. split; [congruence | auto].
Qed.

Theorem run_chain_identity a ops r : run_chain a ops = Ok r -> shape r = shape a -> r = a.
Proof.
  intros H S. apply run_chain_elems in H as [E _]. destruct r, a. cbn in *. congruence.
Qed.

(* ---- expand_dims: unit axes at the requested positions of the result ---- *)

Lemma nth_insert_nth_lt {A} (l : list A) i j x d : i < j -> j <= length l -> nth i (insert_nth l j x) d = nth i l d.
Proof.
  revert i j; induction l as [|h t IH]; intros i j H L; cbn in L.
  - lia.
  - destruct j as [|j]; [lia|]. destruct i as [|i]; cbn; auto. apply IH; lia.
Qed.

Lemma expand_shape_length sh axs sh' : expand_shape sh axs = Ok sh' -> length sh' = length sh + length axs.
Proof.
  revert sh; induction axs as [|ax rest IH]; intros sh H; cbn [expand_shape] in H.
  - injection H as <-. cbn. lia.
  - destruct (_ <=? _)%Z; [|discriminate]. apply IH in H. rewrite insert_nth_length in H. cbn. lia.
Qed.

Lemma expand_shape_low sh axs sh' i :
  expand_shape sh axs = Ok sh' -> Forall (fun ax => (Z.of_nat i < ax)%Z) axs -> nth i sh' 0 = nth i sh 0.
Proof.
  revert sh; induction axs as [|ax rest IH]; intros sh H F; cbn [expand_shape] in H.
  - now injection H as <-.
  - destruct (Z.leb_spec ax (Z.of_nat (length sh))); [|discriminate]. inversion F as [|? ? Hax F']; subst.
    rewrite (IH _ H F'). apply nth_insert_nth_lt; lia.
Qed.

(* for strictly increasing non-negative positions: every requested position of the result holds 1, and
   deleting those positions (largest first) gives back the original shape *)
Theorem expand_shape_spec sh axs sh' :
  expand_shape sh axs = Ok sh' -> Forall (fun ax => (0 <= ax)%Z) axs -> StronglySorted Z.lt axs ->
  Forall (fun ax => nth (Z.to_nat ax) sh' 0 = 1) axs /\
  fold_left (fun s ax => remove_nth s (Z.to_nat ax)) (rev axs) sh' = sh.
Proof.
  revert sh; induction axs as [|ax rest IH]; intros sh H NN SS; cbn [expand_shape] in H.
  - injection H as <-. split; [constructor | reflexivity].
  - destruct (Z.leb_spec ax (Z.of_nat (length sh))) as [L|L]; [|discriminate].
    inversion NN as [|? ? N0 NN']; subst. inversion SS as [|? ? SS' Hlt]; subst.
    destruct (IH _ H NN' SS') as [F R]. split.
    + constructor; [|exact F].
      rewrite (expand_shape_low _ _ _ (Z.to_nat ax) H).
      * apply nth_insert_nth. lia.
      * eapply Forall_impl; [|exact Hlt]. cbn. intros. lia.
    + cbn [rev]. rewrite fold_left_app, R. cbn [fold_left]. apply remove_insert_nth. lia.
Qed.

(* ---- squeeze ---- *)

Lemma prod_filter_ones sh : prod (filter (fun d => negb (d =? 1)) sh) = prod sh.
Proof.
  induction sh as [|d sh IH]; cbn [filter prod]; auto.
  destruct (Nat.eqb_spec d 1) as [->|N]; cbn [negb prod]; lia.
Qed.

(* with no axis list every unit axis is removed, and this always succeeds on a well-formed array *)
Theorem squeeze_none a : wf a ->
  squeeze a None = Ok (mk (elems a) (filter (fun d => negb (d =? 1)) (shape a))).
Proof. intros W. unfold squeeze. apply reshape_iff. rewrite prod_filter_ones. unfold len. auto. Qed.

Lemma prod_remove_unit sh i : nth i sh 0 = 1 -> prod (remove_nth sh i) = prod sh.
Proof.
  revert i; induction sh as [|d sh IH]; intros [|i] H; cbn in *; try lia.
  rewrite IH by auto. lia.
Qed.

(* removing one named axis is allowed only when its length is one *)
Theorem squeeze_single a z : wf a -> (Z.of_nat (ndim a) < two64)%Z -> axis_ok (ndim a) z ->
  (nth (norm_nat (ndim a) z) (shape a) 0 = 1 ->
     squeeze a (Some [z]) = Ok (mk (elems a) (remove_nth (shape a) (norm_nat (ndim a) z)))) /\
  (nth (norm_nat (ndim a) z) (shape a) 0 <> 1 -> squeeze a (Some [z]) = Err ESqueeze).
Proof.
  intros W B H. unfold squeeze. cbn [map sort_by fold_right insert_sorted rev app dedupZ forallb existsb fold_left].
  destruct (normalize_axis_ok _ _ B H) as [-> L].
  destruct (Z.ltb_spec (Z.of_nat (norm_nat (ndim a) z)) (Z.of_nat (ndim a))); [|lia]. cbn [andb guard bind].
  rewrite Nat2Z.id. split; intros E.
  - rewrite E. cbn [Nat.eqb negb orb]. apply reshape_iff. rewrite prod_remove_unit by auto. unfold len. auto.
  - destruct (Nat.eqb_spec (nth (norm_nat (ndim a) z) (shape a) 0) 1); [contradiction | reflexivity].
Qed.

(* ---- resize: cycling through the source elements ---- *)

Theorem resize_spec (d : T) a sh : len a <> 0 ->
  exists r, resize d a sh = Ok r /\ shape r = sh /\ wf r /\
    forall i, i < prod sh -> nth i (elems r) d = nth (i mod len a) (elems a) d.
Proof.
  intros N. unfold resize. rewrite flat_arr_ok. cbn [bind].
  assert (length (cycle_list d (elems a) (prod sh)) = prod sh) as L.
  { unfold cycle_list. unfold len in N. destruct (elems a); [cbn in N; lia|]. now rewrite map_length, seq_length. }
  rewrite reshape_iff by (unfold len; cbn; lia). eexists. split; [reflexivity|]. cbn [shape elems].
  split; [reflexivity|]. split; [exact L|]. intros i Hi. unfold cycle_list. unfold len in *.
  destruct (elems a) eqn:E; [cbn in N; lia|]. rewrite <- E.
  rewrite (nth_map_lt _ _ _ 0) by now rewrite seq_length. now rewrite seq_nth.
Qed.

End Reshape.

(* Every call of the full program language returns only well-formed arrays; hence every array reachable by any finite
   sequence of the modelled operations is well formed (C01). *)
From ArrRs Require Import Index Index_proofs Lists_proofs Axis Axis_proofs Reshape_proofs Prog Prog_proofs Broadcast Broadcast_proofs
  Lift Lift_proofs Split Reduce Reduce_proofs Sort Join Join_proofs Reorder Reorder_proofs Edit Edit_proofs Create ProgFull Linalg Products_wf.

Section ProgFullProofs.
Context {T : Type} (dflt zero one : T) (is_zero : T -> bool) (ltb eqb : T -> T -> bool).

Lemma operands_wf env is l : Forall wf env -> operands env is = Ok l -> Forall (@wf T) l.
Proof.
  intros F. revert l; induction is as [|i t IH]; intros l H; cbn [operands mapM] in H.
  - injection H as <-. constructor.
  - unfold operands in IH. inv_bind H. inv_bind H. injection H as <-. constructor; [eapply operand_wf; eauto | now apply IH].
Qed.

Lemma mapM_wf {A} (f : A -> res (arr T)) l rs : (forall x r, f x = Ok r -> wf r) -> mapM f l = Ok rs -> Forall wf rs.
Proof.
  intros Hf. revert rs; induction l as [|x t IH]; intros rs H; cbn [mapM] in H.
  - injection H as <-. constructor.
  - inv_bind H. inv_bind H. injection H as <-. constructor; [eapply Hf; eauto | now apply IH].
Qed.

Lemma delete_wf (a : arr T) idx axis r : delete dflt a idx axis = Ok r -> wf r.
Proof. unfold delete. destruct axis; [apply apply_along_axis_wf | apply delete1_wf]. Qed.

Lemma insert_flat_wf (a v : arr T) idx r : insert_flat dflt a idx v = Ok r -> wf r.
Proof.
  unfold insert_flat. destruct (existsb _ _); [discriminate|]. intros H. do 6 inv_bind H. now apply new_wf in H.
Qed.

Lemma repeat_arr_wf (a : arr T) reps axis r : repeat_arr dflt a reps axis = Ok r -> wf r.
Proof.
  unfold repeat_arr. intros H. inv_bind H. destruct axis.
  - do 6 inv_bind H. now apply reshape_ok in H as (_ & _ & ?).
  - inv_bind H. now apply new_wf in H.
Qed.

Lemma stack_wf (l : list (arr T)) axis r : stack dflt l axis = Ok r -> wf r.
Proof.
  unfold stack. destruct l as [|first rest]; [apply new_wf|]. destruct (negb _); [discriminate|].
  destruct (_ <? _); [discriminate|]. intros H. inv_bind H. eapply concatenate_wf; [|exact H].
  eapply mapM_wf; [|exact E]. intros y r0 Hy. now apply expand_dims_ok in Hy as [_ ?].
Qed.

Lemma vstack_wf (l : list (arr T)) r : vstack dflt l = Ok r -> wf r.
Proof.
  unfold vstack. destruct l as [|first rest]; [apply new_wf|]. intros H. do 3 inv_bind H. now apply reshape_ok in H as (_ & _ & ?).
Qed.

Lemma hstack_gen_wf strict (l : list (arr T)) r : Forall wf l -> hstack_gen dflt strict l = Ok r -> wf r.
Proof.
  intros F. unfold hstack_gen. destruct l as [|first rest]; [apply new_wf|].
  destruct (forallb _ _); [now apply concatenate_wf|]. intros H. do 2 inv_bind H.
  destruct x as [|f2 ?]; [discriminate|]. inv_bind H. now apply reshape_ok in H as (_ & _ & ?).
Qed.

Lemma dstack_wf (l : list (arr T)) r : dstack dflt l = Ok r -> wf r.
Proof.
  unfold dstack. destruct l as [|first rest]; [apply new_wf|]. intros H. do 2 inv_bind H.
  destruct x as [|f2 ?]; [discriminate|]. inv_bind H. now apply reshape_ok in H as (_ & _ & ?).
Qed.

Lemma column_stack_wf (l : list (arr T)) r : column_stack l = Ok r -> wf r.
Proof.
  unfold column_stack. destruct l as [|first rest]; [apply new_wf|]. destruct (shape first); [discriminate|].
  intros H. inv_bind H. destruct (negb _); [discriminate|]. now apply new_wf in H.
Qed.

Lemma split_axis_wf (a : arr T) ax ps : wf a -> split_axis dflt a ax = Ok ps -> Forall wf ps.
Proof.
  intros W. unfold split_axis. intros H. inv_bind H. destruct (_ || _).
  - injection H as <-. now constructor.
  - now apply array_split_wf in H.
Qed.

Lemma hsplit_wf (a : arr T) p ps : wf a -> hsplit dflt a p = Ok ps -> Forall wf ps.
Proof.
  intros W. unfold hsplit. destruct (_ =? 0); [discriminate|]. destruct (_ =? 0); [discriminate|].
  destruct (_ =? 1); now apply split_even_wf.
Qed.

Lemma vsplit_wf (a : arr T) p ps : wf a -> vsplit dflt a p = Ok ps -> Forall wf ps.
Proof. intros W. unfold vsplit. destruct (_ <? 2); [discriminate|]. destruct (_ =? 0); [discriminate|]. now apply split_even_wf. Qed.

Lemma dsplit_wf (a : arr T) p ps : wf a -> dsplit dflt a p = Ok ps -> Forall wf ps.
Proof. intros W. unfold dsplit. destruct (_ <? 3); [discriminate|]. destruct (_ =? 0); [discriminate|]. now apply split_even_wf. Qed.

Lemma sort_arr_wf (a : arr T) axis kind r : sort_arr ltb dflt a axis kind = Ok r -> wf r.
Proof.
  unfold sort_arr. intros H. inv_bind H. destruct axis.
  - inv_bind H. now apply apply_along_axis_wf in H.
  - unfold sort1 in H. inv_bind H. now apply new_wf in H.
Qed.

Lemma unique1_wf (a : arr T) r : unique1 ltb eqb a = Ok r -> wf r.
Proof. apply new_wf. Qed.

Lemma unique_arr_wf (a : arr T) axis r : unique_arr ltb eqb dflt a axis = Ok r -> wf r.
Proof.
  unfold unique_arr. destruct axis; intros H.
  - inv_bind H. now apply apply_along_axis_wf in H.
  - now apply unique1_wf in H.
Qed.

Lemma apply_triangular_wf (a : arr T) k drop r : wf a -> apply_triangular zero a k drop = Ok r -> wf r.
Proof.
  intros W. unfold apply_triangular. destruct (_ <? 2); [discriminate|]. destruct (is_empty a); [now intros [= <-]|]. apply new_wf.
Qed.

Lemma diag_wf (a : arr T) k r : diag zero a k = Ok r -> wf r.
Proof. unfold diag. destruct (_ =? 1); [apply new_wf|]. destruct (_ =? 2); [apply new_wf | discriminate]. Qed.

Lemma diagflat_wf (a : arr T) k r : diagflat zero a k = Ok r -> wf r.
Proof. unfold diagflat. intros H. inv_bind H. now apply diag_wf in H. Qed.

Ltac fone H := let x := fresh "x" in let E := fresh "E" in
  apply bind_ok in H as (x & E & H); injection H as <-; constructor; [|constructor].

(* every call of the full language returns only well-formed arrays *)
Theorem run_fcall_wf env c rs : Forall wf env ->
  run_fcall dflt zero one is_zero ltb eqb env c = Ok rs -> Forall wf rs.
Proof.
  intros F H. destruct c; cbn [run_fcall] in H.
  - now apply (run_call_wf dflt env c).
  - fone H. inv_bind E. apply (broadcast_to_wf dflt) in E; eauto using operand_wf.
  - fone H. inv_bind E. now apply flip_wf in E.
  - fone H. inv_bind E. unfold flipud in E. destruct (_ =? 0); [discriminate|]. now apply flip_wf in E.
  - fone H. inv_bind E. unfold fliplr in E. destruct (_ <? 2); [discriminate|]. now apply flip_wf in E.
  - fone H. inv_bind E. now apply roll_wf in E.
  - fone H. inv_bind E. apply rot90_wf in E; eauto using operand_wf.
  - fone H. inv_bind E. now apply delete_wf in E.
  - fone H. do 2 inv_bind E. now apply insert_flat_wf in E.
  - fone H. inv_bind E. now apply repeat_arr_wf in E.
  - fone H. inv_bind E. now apply trim_zeros_wf in E.
  - fone H. do 2 inv_bind E. now apply append_wf in E.
  - fone H. inv_bind E. eapply concatenate_wf; [|exact E]. eapply operands_wf; eauto.
  - fone H. inv_bind E. now apply stack_wf in E.
  - fone H. inv_bind E. now apply vstack_wf in E.
  - fone H. inv_bind E. eapply hstack_gen_wf; [|exact E]. eapply operands_wf; eauto.
  - fone H. inv_bind E. now apply dstack_wf in E.
  - fone H. inv_bind E. now apply column_stack_wf in E.
  - inv_bind H. eapply array_split_wf; [|exact H]. eauto using operand_wf.
  - inv_bind H. eapply split_even_wf; [|exact H]. eauto using operand_wf.
  - inv_bind H. eapply split_axis_wf; [|exact H]. eauto using operand_wf.
  - inv_bind H. eapply hsplit_wf; [|exact H]. eauto using operand_wf.
  - inv_bind H. eapply vsplit_wf; [|exact H]. eauto using operand_wf.
  - inv_bind H. eapply dsplit_wf; [|exact H]. eauto using operand_wf.
  - fone H. inv_bind E. now apply sort_arr_wf in E.
  - fone H. inv_bind E. now apply unique_arr_wf in E.
  - fone H. inv_bind E. now apply apply_along_axis_wf in E.
  - fone H. inv_bind E. now apply reduce_wf in E.
  - fone H. inv_bind E. now apply scan_wf in E.
  - fone H. inv_bind E. now apply map_arr_wf in E.
  - fone H. do 2 inv_bind E. now apply lift2_wf in E.
  - fone H. do 2 inv_bind E. now apply zipop_wf in E.
  - fone H. inv_bind E. unfold tril in E. apply apply_triangular_wf in E; eauto using operand_wf.
  - fone H. inv_bind E. unfold triu in E. apply apply_triangular_wf in E; eauto using operand_wf.
  - fone H. inv_bind E. now apply diag_wf in E.
  - fone H. inv_bind E. now apply diagflat_wf in E.
  - fone H. now apply new_wf in E.
  - fone H. now apply new_wf in E.
  - fone H. now apply new_wf in E.
  - fone H. now apply new_wf in E.
  - fone H. do 2 inv_bind E. now apply vdot_wf in E.
  - fone H. do 2 inv_bind E. now apply matmul_wf in E.
  - fone H. do 2 inv_bind E. now apply outer_wf in E.
  - fone H. do 2 inv_bind E. now apply inner_wf in E.
  - fone H. do 2 inv_bind E. now apply dot_wf in E.
  - inv_bind H. eapply broadcast_arrays_wf; [|exact H]. eapply operands_wf; eauto.
Qed.

Lemma fstep_wf env c : Forall wf env -> Forall wf (fstep dflt zero one is_zero ltb eqb env c).
Proof.
  intros F. unfold fstep. destruct (run_fcall dflt zero one is_zero ltb eqb env c) eqn:E; auto.
  apply Forall_app. split; [auto | eapply run_fcall_wf; eauto].
Qed.

(* THE INVARIANT: every array reachable by any finite program over the modelled operations is well formed *)
Theorem frun_wf p env : Forall wf env -> Forall wf (frun dflt zero one is_zero ltb eqb p env).
Proof.
  revert env; induction p as [|c p IH]; intros env F; cbn [frun fold_left]; auto.
  apply IH, fstep_wf, F.
Qed.

End ProgFullProofs.

(* diagflat of an array of any rank (C16): the flattened elements on the k-th diagonal of a square matrix *)
From ArrRs Require Import Index Index_proofs Lists_proofs Axis Reshape_proofs Create Create_proofs Diag_proofs.

Section Diagflat.
Context {T : Type} (zero : T).

Theorem diagflat_spec (a : arr T) k :
  let s := len a in let n := s + Z.abs_nat k in
  exists M, diagflat zero a k = Ok M /\ shape M = [n; n] /\ wf M /\
    forall i j, i < n -> j < n ->
      get zero M [i; j] = if (0 <=? k)%Z then (if j =? i + Z.abs_nat k then nth i (elems a) zero else zero)
                          else (if i =? j + Z.abs_nat k then nth j (elems a) zero else zero).
Proof.
  intros s n. unfold diagflat. rewrite ravel_ok. cbn [bind].
  assert (ndim (mk (elems a) [len a]) = 1) as N1 by reflexivity.
  assert (wf (mk (elems a) [len a])) as W by (unfold wf, len; cbn; lia).
  destruct (diag_1d_spec zero (mk (elems a) [len a]) k N1 W) as (M & E & S & WM & G).
  exists M. split; [exact E|]. split; [exact S|]. split; [exact WM|]. exact G.
Qed.

(* and extracting that diagonal again returns the flattened array *)
Theorem diagflat_roundtrip (a : arr T) k :
  exists M, diagflat zero a k = Ok M /\ diag zero M k = Ok (mk (elems a) [len a]).
Proof.
  unfold diagflat. rewrite ravel_ok. cbn [bind].
  apply (diag_roundtrip zero (mk (elems a) [len a]) k); [reflexivity | unfold wf, len; cbn; lia].
Qed.

End Diagflat.

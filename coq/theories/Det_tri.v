(* the determinant of an upper-triangular matrix is the product of its diagonal (C15): the cofactor expansion along the
   first column the code performs, for every size >= 2 *)
From Coq Require Import QArith Qabs Lia.
Local Close Scope Q_scope.
From ArrRs Require Import Index Index_proofs Lists_proofs Axis Linsolve Linsolve_proofs.

Lemma qadd_eq x y : (qadd x y == x + y)%Q. Proof. apply Qred_correct. Qed.
Lemma qmul_eq x y : (qmul x y == x * y)%Q. Proof. apply Qred_correct. Qed.
Lemma qsub_eq x y : (qsub x y == x - y)%Q. Proof. apply Qred_correct. Qed.

Definition square (m : qmat) (n : nat) : Prop := length m = n /\ forall i, i < n -> length (nth i m []) = n.
Definition upper (m : qmat) (n : nat) : Prop := square m n /\ forall i j, j < i -> i < n -> (qget m i j == 0)%Q.
Definition diag_prod (m : qmat) (n : nat) : Q := fold_left Qmult (map (fun i => qget m i i) (seq 0 n)) 1%Q.

(* a sum of terms that are all zero leaves the accumulator *)
Lemma fold_zero_terms (g : nat -> Q) l : forall acc, (forall i, In i l -> (g i == 0)%Q) ->
  (fold_left qadd (map g l) acc == acc)%Q.
Proof.
  induction l as [|x t IH]; intros acc H; cbn [map fold_left]; [reflexivity|].
  rewrite IH by (intros; apply H; now right). rewrite qadd_eq, (H x) by now left. ring.
Qed.

Lemma minor00_get (m : qmat) n i j : square m n -> S i < n -> S j < n ->
  qget (minor m 0 0) i j = qget m (S i) (S j).
Proof.
  intros [L R] Hi Hj. unfold qget, minor. destruct m as [|r0 m']; [cbn in L; lia|]. cbn [remove_nth].
  rewrite (nth_map_lt (fun r => remove_nth r 0) m' i [] []) by (cbn in L; lia). cbn [nth].
  specialize (R (S i) Hi). cbn [nth] in R. destruct (nth i m' []) as [|x r]; [cbn in R; lia|]. reflexivity.
Qed.

Lemma minor00_square (m : qmat) n : square m (S n) -> square (minor m 0 0) n.
Proof.
  intros [L R]. destruct m as [|r0 m']; [discriminate|]. unfold minor. cbn [remove_nth]. split.
  - rewrite map_length. cbn in L. lia.
  - intros i Hi. rewrite (nth_map_lt (fun r => remove_nth r 0) m' i [] []) by (cbn in L; lia).
    specialize (R (S i) ltac:(lia)). cbn [nth] in R. destruct (nth i m' []) as [|x r]; [cbn in R; lia|]. cbn in *. lia.
Qed.

Lemma minor00_upper (m : qmat) n : upper m (S n) -> upper (minor m 0 0) n.
Proof.
  intros [Sq U]. split; [now apply minor00_square|]. intros i j Hji Hi.
  rewrite (minor00_get m (S n) i j Sq) by lia. apply U; lia.
Qed.

Lemma diag_prod_step (m : qmat) n : square m (S n) ->
  (diag_prod m (S n) == qget m 0 0 * diag_prod (minor m 0 0) n)%Q.
Proof.
  intros Sq. unfold diag_prod. cbn [seq map fold_left]. rewrite <- seq_shift, map_map.
  assert (forall l acc acc', (acc == qget m 0 0 * acc')%Q -> (forall i, In i l -> S i < S n) ->
            (fold_left Qmult (map (fun i => qget m (S i) (S i)) l) acc ==
             qget m 0 0 * fold_left Qmult (map (fun i => qget (minor m 0 0) i i) l) acc')%Q) as G.
  { induction l as [|x t IH]; intros acc acc' E H; cbn [map fold_left]; [exact E|].
    apply IH; [|intros; apply H; now right].
    rewrite (minor00_get m (S n) x x Sq) by (apply H; now left). rewrite E. ring. }
  apply G; [ring|]. intros i Hi. apply in_seq in Hi. lia.
Qed.

(* the expansion of an upper-triangular matrix of size >= 3 keeps its first term only *)
Lemma det_upper_step (m : qmat) n : 2 <= n -> upper m (S n) ->
  (det_f (S n) m == qget m 0 0 * det_f n (minor m 0 0))%Q.
Proof.
  intros N2 [[L R] U].
  assert (det_f (S n) m = fold_left qadd (map (fun i => qmul (qmul (qget m i 0) (if Nat.even i then 1 else -1)%Q) (det_f n (minor m i 0))) (seq 0 (S n))) 0%Q) as ->.
  { pose proof (det_expand m ltac:(lia)) as E. unfold det in E. rewrite L in E. replace (S n - 1) with n in E by lia. exact E. }
  cbn [seq map fold_left].
  rewrite fold_zero_terms.
  - rewrite qadd_eq, !qmul_eq. cbn [Nat.even]. ring.
  - intros i Hi. apply in_seq in Hi. rewrite !qmul_eq. rewrite (U i 0) by lia. ring.
Qed.

Theorem det_upper : forall n (m : qmat), 2 <= n -> upper m n -> (det m == diag_prod m n)%Q.
Proof.
  induction n as [|n IH]; intros m N2 Up; [lia|]. unfold det. destruct Up as [[L R] U]. rewrite L.
  destruct (Nat.eq_dec n 1) as [->|Ne].
  - (* 2 x 2 *)
    destruct m as [|r0 [|r1 [|? ?]]]; try discriminate.
    pose proof (R 0 ltac:(lia)) as R0. pose proof (R 1 ltac:(lia)) as R1. cbn [nth] in R0, R1.
    destruct r0 as [|a [|b [|? ?]]]; try discriminate. destruct r1 as [|c [|d0 [|? ?]]]; try discriminate.
    pose proof (U 1 0 ltac:(lia) ltac:(lia)) as C0. unfold qget in C0. cbn [nth] in C0.
    cbn [det_f]. rewrite qsub_eq, !qmul_eq. unfold diag_prod, qget. cbn [seq map fold_left nth]. rewrite C0. ring.
  - assert (upper m (S n)) as Up by (split; [split|]; assumption).
    rewrite (det_upper_step m n ltac:(lia) Up).
    pose proof (minor00_upper m n Up) as Um. pose proof (IH (minor m 0 0) ltac:(lia) Um) as E.
    unfold det in E. destruct Um as [[Lm _] _]. rewrite Lm in E. rewrite E.
    symmetry. apply diag_prod_step. split; assumption.
Qed.

(* All four sort kinds (C10): each returns the ordered rearrangement of its input, so under an antisymmetric order they
   return the same list, and sorting an array along an axis does not depend on the kind. *)
From ArrRs Require Import Index Index_proofs Lists_proofs Axis Axis_proofs Reshape_proofs Broadcast_proofs Split Lift Reduce
  Along_proofs Sort Sort_proofs Along_uses Timsort_proofs Heapsort_proofs.
From Coq Require Import Permutation Sorted.

Section SortKinds.
Context {T : Type} (ltb : T -> T -> bool) (d : T).
Hypothesis lt_le : forall x y, ltb x y = true -> le ltb x y.
Hypothesis le_trans : forall x y z, le ltb x y -> le ltb y z -> le ltb x z.

Theorem sort_list_spec k l : exists r, sort_list ltb d k l = Ok r /\ sorted ltb r /\ Permutation l r.
Proof.
  destruct k; cbn [sort_list].
  - apply quick_sort_spec; assumption.
  - apply merge_sort_spec; assumption.
  - apply heap_sort_spec; assumption.
  - apply tim_sort_spec; assumption.
Qed.

Lemma sorted_of_sorted k l : sorted ltb (sorted_of ltb d k l).
Proof.
  destruct (sort_list_spec k l) as (r & E & S & _). destruct (sorted_of_spec ltb d lt_le le_trans k l) as (E' & _).
  rewrite E in E'. injection E' as <-. exact S.
Qed.

(* sorting along an axis: every lane of the result is the ordered rearrangement of the lane of the input, whatever
   the kind *)
Theorem sort_axis_all_kinds (a : arr T) z k :
  wf a -> pos_shape (shape a) -> (Z.of_nat (ndim a) < two64)%Z -> axis_ok (ndim a) z ->
  let ax := norm_nat (ndim a) z in
  exists R, sort_arr ltb d a (Some z) (Ok k) = Ok R /\ wf R /\ shape R = shape a /\
    forall c, in_range (shape a) c ->
      let ln := elems (lane d a ax (remove_nth c ax)) in
      get d R c = nth (nth ax c 0) (sorted_of ltb d k ln) d /\ Permutation ln (sorted_of ltb d k ln) /\
      sorted ltb (sorted_of ltb d k ln).
Proof.
  intros W P B Hz ax. destruct (sort_axis_spec ltb d lt_le le_trans a z k W P B Hz) as (R & E & WR & SR & G).
  exists R. split; [exact E|]. split; [exact WR|]. split; [exact SR|]. intros c Hc. cbn zeta.
  destruct (G c Hc) as (G1 & G2 & _). split; [exact G1|]. split; [exact G2 | apply sorted_of_sorted].
Qed.

Hypothesis le_antisym : forall x y, le ltb x y -> le ltb y x -> x = y.

(* ALL KINDS AGREE *)
Theorem sort_kinds_agree k1 k2 l : sort_list ltb d k1 l = sort_list ltb d k2 l.
Proof.
  destruct (sort_list_spec k1 l) as (r1 & E1 & S1 & P1). destruct (sort_list_spec k2 l) as (r2 & E2 & S2 & P2).
  rewrite E1, E2. f_equal. apply (sorted_perm_unique ltb le_antisym); [exact S1 | exact S2|]. now rewrite <- P1.
Qed.

Lemma sorted_of_agree k1 k2 l : sorted_of ltb d k1 l = sorted_of ltb d k2 l.
Proof. unfold sorted_of. now rewrite (sort_kinds_agree k1 k2). Qed.

Theorem sort_flat_kind_independent (a : arr T) k1 k2 :
  sort_arr ltb d a None (Ok k1) = sort_arr ltb d a None (Ok k2).
Proof. unfold sort_arr, sort1. cbn [bind]. now rewrite (sort_kinds_agree k1 k2). Qed.

Theorem sort_axis_kind_independent (a : arr T) z k1 k2 :
  wf a -> pos_shape (shape a) -> (Z.of_nat (ndim a) < two64)%Z -> axis_ok (ndim a) z ->
  sort_arr ltb d a (Some z) (Ok k1) = sort_arr ltb d a (Some z) (Ok k2).
Proof.
  intros W P B Hz.
  destruct (sort_axis_spec ltb d lt_le le_trans a z k1 W P B Hz) as (R1 & E1 & W1 & S1 & G1).
  destruct (sort_axis_spec ltb d lt_le le_trans a z k2 W P B Hz) as (R2 & E2 & W2 & S2 & G2).
  rewrite E1, E2. f_equal. apply (array_ext d); [exact W1 | exact W2 | congruence|].
  intros c Hc. rewrite S1 in Hc. destruct (G1 c Hc) as (-> & _). destruct (G2 c Hc) as (-> & _).
  now rewrite (sorted_of_agree k1 k2).
Qed.

End SortKinds.

(* Bits.v — src/numeric/operations/binary_bits.rs unpack_bits / pack_bits (negative count as repaired),
   src/numeric/types/binary.rs bit order parsing, numeric.rs binary_repr *)
From ArrRs Require Export Index Axis Split Lift Reduce.

Inductive bit_order := Big | Little.

Definition parse_bit_order (s : list Z) : res bit_order :=
  if list_eqb Z.eqb s [98;105;103]%Z then Ok Big
  else if list_eqb Z.eqb s [108;105;116;116;108;101]%Z then Ok Little
  else Err EParam.

(* (0..8).rev().map(|idx| (a >> idx) & 1), reversed for Little *)
Definition unpack8 (o : bit_order) (b : Z) : list Z :=
  let bits := map (fun idx => Z.land (Z.shiftr b (Z.of_nat idx)) 1) (rev (seq 0 8)) in
  match o with Big => bits | Little => rev bits end.

(* "1"/"0" per element (> 0), reversed for Little, parsed in radix 2 *)
Definition pack8 (o : bit_order) (bits : list Z) : Z :=
  let bs := map (fun i => if (0 <? i)%Z then 1%Z else 0%Z) bits in
  let bs := match o with Big => bs | Little => rev bs end in
  fold_left (fun acc bit => (2 * acc + bit)%Z) bs 0%Z.

Definition unpack_flat (o : bit_order) (bytes : list Z) : list Z := flat_map (unpack8 o) bytes.

Definition pack_flat (o : bit_order) (bits : list Z) : list Z :=
  let padded := if length bits mod 8 =? 0 then bits else bits ++ repeat 0%Z (8 - length bits mod 8) in
  map (fun p => pack8 o (firstn 8 (skipn (p * 8) padded))) (seq 0 (length padded / 8)).

(* indexing.rs slice on a 1-D array *)
Definition slice_flat (l : list Z) (stop : nat) : res (arr Z) :=
  if stop <=? length l then flat_arr (firstn stop l) else Err EOob.

Definition unpack1 (o : bit_order) (count : option Z) (a : arr Z) : res (arr Z) :=
  if is_empty a then empty else
  let bits := unpack_flat o (elems a) in
  match count with
  | None => slice_flat bits (len a * 8)
  | Some c =>
    if (0 <=? c)%Z then slice_flat bits (Z.to_nat c)
    else if (Z.of_nat (len a * 8) <? - c)%Z then Err EOob
    else slice_flat bits (len a * 8 - Z.to_nat (- c))
  end.

Definition unpack_bits (a : arr Z) (axis : option Z) (count : option Z) (order : res bit_order) : res (arr Z) :=
  if is_empty a then empty else
  let* o := order in
  match axis with
  | None => unpack1 o count a
  | Some z =>
    let zax := normalize_axis (ndim a) z in
    let* _ := guard (zax <? Z.of_nat (ndim a))%Z EAxis in
    apply_along_axis 0%Z 0%Z a (Z.to_nat zax) (unpack1 o count)
  end.

Definition pack1 (o : bit_order) (a : arr Z) : res (arr Z) :=
  if is_empty a then empty else flat_arr (pack_flat o (elems a)).

Definition pack_bits (a : arr Z) (axis : option Z) (order : res bit_order) : res (arr Z) :=
  if is_empty a then empty else
  let* o := order in
  match axis with
  | None => pack1 o a
  | Some z =>
    let zax := normalize_axis (ndim a) z in
    let* _ := guard (zax <? Z.of_nat (ndim a))%Z EAxis in
    apply_along_axis 0%Z 0%Z a (Z.to_nat zax) (pack1 o)
  end.

(* binary_repr of a non-negative number: most significant bit first, "0" for zero; fuel = number of bits *)
Fixpoint bits_msb (fuel : nat) (n : Z) : list Z :=
  match fuel with
  | O => []
  | S f => if (n <? 2)%Z then [n] else bits_msb f (n / 2)%Z ++ [(n mod 2)%Z]
  end.
Definition binary_repr (width : nat) (n : Z) : list Z :=
  (* signed types print the two's complement of their width *)
  let u := if (n <? 0)%Z then (n + 2 ^ Z.of_nat width)%Z else n in
  bits_msb (S width) u.
Definition parse_binary (bits : list Z) : Z := fold_left (fun acc bit => (2 * acc + bit)%Z) bits 0%Z.

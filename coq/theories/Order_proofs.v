(* Order queries (C10): unique returns the sorted values without repetition; argmax / argmin return the first position
   of a largest / smallest element. *)
From ArrRs Require Import Index Index_proofs Lists_proofs Axis Reshape_proofs Reduce Sort Sort_proofs.
From Coq Require Import Permutation Sorted.

Section OrderProofs.
Context {T : Type} (ltb eqb : T -> T -> bool) (d : T).
Hypothesis lt_le : forall x y, ltb x y = true -> le ltb x y.
Hypothesis le_trans : forall x y z, le ltb x y -> le ltb y z -> le ltb x z.
Hypothesis le_antisym : forall x y, le ltb x y -> le ltb y x -> x = y.
Hypothesis eqb_spec : forall x y, eqb x y = true <-> x = y.

Local Notation leT := (le ltb).
Definition slt (x y : T) : Prop := leT x y /\ x <> y.

(* ---------- the stable insertion sort ---------- *)
Lemma insert_stable_spec x l : sorted ltb l ->
  sorted ltb (insert_stable ltb x l) /\ (forall y, In y (insert_stable ltb x l) <-> y = x \/ In y l).
Proof.
  induction l as [|h t IH]; intros S; cbn [insert_stable].
  - split; [repeat constructor | intros y; cbn; intuition].
  - inversion S as [|? ? S' F]; subst. destruct (ltb x h) eqn:L.
    + split; [|intros y; cbn; intuition]. constructor; [exact S|]. constructor; [now apply lt_le|].
      rewrite Forall_forall in *. intros z Hz. apply (le_trans x h z); [now apply lt_le | now apply F].
    + destruct (IH S') as (S1 & M1). split.
      * constructor; [exact S1|]. rewrite Forall_forall in *. intros z Hz. apply M1 in Hz as [->|Hz]; [exact L | now apply F].
      * intros y. cbn [In]. rewrite M1. intuition.
Qed.

Lemma std_sort_spec l : sorted ltb (std_sort ltb l) /\ (forall y, In y (std_sort ltb l) <-> In y l).
Proof.
  unfold std_sort.
  assert (forall acc, sorted ltb acc ->
            sorted ltb (fold_left (fun acc x => insert_stable ltb x acc) l acc) /\
            (forall y, In y (fold_left (fun acc x => insert_stable ltb x acc) l acc) <-> In y l \/ In y acc)) as G.
  { induction l as [|x t IH]; intros acc S; cbn [fold_left]; [split; [exact S | intros; cbn; intuition]|].
    destruct (insert_stable_spec x acc S) as (S1 & M1). destruct (IH _ S1) as (S2 & M2). split; [exact S2|].
    intros y. rewrite M2, M1. cbn [In]. intuition. }
  destruct (G [] ltac:(constructor)) as (S1 & M1). split; [exact S1|]. intros y. rewrite M1. cbn. intuition.
Qed.

Lemma dedup_spec l : sorted ltb l ->
  StronglySorted slt (dedup eqb l) /\ (forall y, In y (dedup eqb l) <-> In y l).
Proof.
  induction l as [|x t IH]; intros SS; [split; [constructor | reflexivity]|].
  inversion SS as [|? ? SS' F]; subst. destruct (IH SS') as (S1 & M1).
  destruct t as [|y t']; [split; [repeat constructor | reflexivity]|].
  change (dedup eqb (x :: y :: t')) with (if eqb x y then dedup eqb (y :: t') else x :: dedup eqb (y :: t')).
  destruct (eqb x y) eqn:E.
  - apply eqb_spec in E. subst y. split; [exact S1|]. intros z. rewrite M1. cbn [In]. intuition.
  - assert (x <> y) as Ne by (intros ->; assert (eqb y y = true) by (now apply eqb_spec); congruence).
    split.
    + constructor; [exact S1|]. rewrite Forall_forall in *. intros z Hz. apply M1 in Hz.
      assert (leT x y) as Lxy by (apply F; now left).
      split; [now apply F|]. intros ->.
      (* z = x would give y <= x (y is the least of y :: t'), so x = y *)
      inversion SS' as [|? ? _ F']; subst. rewrite Forall_forall in F'.
      destruct Hz as [Hz|Hz]; [congruence|]. apply Ne, le_antisym; [exact Lxy | now apply F'].
    + intros z. cbn [In]. rewrite M1. cbn [In]. reflexivity.
Qed.

(* UNIQUE: the distinct values in strictly increasing order *)
Theorem unique1_spec (a : arr T) :
  exists r, unique1 ltb eqb a = Ok r /\ shape r = [length (elems r)] /\ StronglySorted slt (elems r) /\
    (forall y, In y (elems r) <-> In y (elems a)) /\ NoDup (elems r).
Proof.
  unfold unique1. rewrite flat_arr_ok. eexists. split; [reflexivity|]. cbn [elems shape]. split; [reflexivity|].
  destruct (std_sort_spec (elems a)) as (S & M). destruct (dedup_spec _ S) as (S2 & M2). split; [exact S2|]. split.
  - intros y. rewrite M2, M. reflexivity.
  - clear - S2. induction S2 as [|x l SS IH F]; constructor; auto. intros Hin. rewrite Forall_forall in F.
    destruct (F x Hin) as [_ Ne]. now apply Ne.
Qed.

(* ---------- argmax / argmin ---------- *)
Lemma position_spec {A} (p : A -> bool) (l : list A) dA :
  match position p l with
  | Some i => i < length l /\ p (nth i l dA) = true /\ forall j, j < i -> p (nth j l dA) = false
  | None => forall x, In x l -> p x = false
  end.
Proof.
  induction l as [|x t IH]; cbn [position]; [intros ? []|]. destruct (p x) eqn:E.
  - split; [cbn; lia|]. split; [exact E | intros; lia].
  - destruct (position p t) as [i|]; cbn [option_map].
    + destruct IH as (L & P & N). split; [cbn; lia|]. split; [exact P|]. intros [|j] Hj; [exact E | apply N; lia].
    + intros y [<-|Hy]; [exact E | now apply IH].
Qed.

Lemma sorted_last_max (s : list T) : sorted ltb s -> forall y, In y s -> leT y (last s d).
Proof.
  induction 1 as [|x l S IH F]; intros y Hy; [destruct Hy|]. destruct l as [|z l'].
  - destruct Hy as [<-|[]]. cbn. apply (proj1 (Bool.not_true_iff_false _)). intros L. pose proof (lt_le _ _ L) as L2. unfold le in L2. congruence.
  - change (last (x :: z :: l') d) with (last (z :: l') d). destruct Hy as [<-|Hy]; [|now apply IH].
    rewrite Forall_forall in F. apply (le_trans x z); [apply F; now left | apply IH; now left].
Qed.

Lemma sorted_hd_min (s : list T) : sorted ltb s -> forall y, In y s -> leT (hd d s) y.
Proof.
  intros S y Hy. destruct s as [|x l]; [destruct Hy|]. cbn [hd]. inversion S as [|? ? _ F]; subst.
  destruct Hy as [<-|Hy]; [|rewrite Forall_forall in F; now apply F].
  apply (proj1 (Bool.not_true_iff_false _)). intros L. pose proof (lt_le _ _ L) as L2. unfold le in L2. congruence.
Qed.

(* the first position holding a largest (smallest) element *)
Theorem arg_extreme1_spec max (l : list T) : l <> [] ->
  exists i, arg_extreme1 ltb eqb d max l = Ok i /\ i < length l /\
    (forall y, In y l -> if max then leT y (nth i l d) else leT (nth i l d) y) /\
    (forall j, j < i -> nth j l d <> nth i l d).
Proof.
  intros Hne. unfold arg_extreme1. destruct l as [|x0 l0]; [congruence|]. set (l := x0 :: l0) in *.
  destruct (quick_sort_spec ltb lt_le le_trans l) as (s & E & S & P). rewrite E. cbn [bind].
  set (target := if max then last s d else hd d s).
  assert (In target l) as Tin.
  { apply (Permutation_in _ (Permutation_sym P)). assert (s <> []) as Hs.
    { intros ->. apply Permutation_sym, Permutation_nil in P. unfold l in P. discriminate. }
    unfold target. destruct max.
    - destruct s as [|h t] using rev_ind; [congruence|]. rewrite last_last. apply in_app_iff. right. now left.
    - destruct s; [congruence | now left]. }
  pose proof (position_spec (fun x => eqb x target) l d) as PS.
  destruct (position (fun x => eqb x target) l) as [i|].
  - destruct PS as (L & Pi & N). apply eqb_spec in Pi. exists i. split; [reflexivity|]. split; [exact L|]. split.
    + intros y Hy. rewrite Pi. unfold target. apply (Permutation_in _ P) in Hy. destruct max.
      * now apply sorted_last_max.
      * now apply sorted_hd_min.
    + intros j Hj Heq. specialize (N j Hj). rewrite Heq, Pi in N.
      assert (eqb target target = true) by (now apply eqb_spec). congruence.
  - specialize (PS target Tin). assert (eqb target target = true) by (now apply eqb_spec). cbn in PS. congruence.
Qed.

End OrderProofs.

(* hstack / dstack on inputs of MIXED rank (C11): the code first raises every input to rank 2 / 3 (atleast), then
   validates and concatenates; so the result on any inputs is the result on the promoted inputs, every promoted input
   has the required rank, keeps its elements, and the theorems for inputs of sufficient rank (Stack_proofs:
   hstack_axis, dstack_axis — concatenation along axis 1 / 2) apply to the promoted list. *)
From ArrRs Require Import Index Index_proofs Lists_proofs Axis Axis_proofs Reshape_proofs Broadcast_proofs Split Lift Reduce
  Reduce_proofs Along_proofs Join Join_proofs Split_proofs Append_proofs Stack_proofs.

Section Promote.
Context {T : Type} (d : T).

(* what atleast(2) / atleast(3) returns: the same elements under the promoted shape *)
Lemma atleast_promoted (a r : arr T) k : k = 2 \/ k = 3 -> atleast a k = Ok r ->
  k <= ndim r /\ elems r = elems a /\
  shape r = (if k <=? ndim a then shape a else
             match k, shape a with
             | 2, [] => [1; 1] | 2, x :: _ => [1; x]
             | _, [] => [1; 1; 1] | _, [x] => [1; x; 1] | _, x0 :: x1 :: _ => [x0; x1; 1]
             end).
Proof.
  intros [-> | ->] H; unfold atleast in H.
  - destruct (Nat.leb_spec 2 (ndim a)) as [L|G].
    + injection H as <-. cbn [Nat.leb]. destruct (Nat.leb_spec 2 (ndim a)); [auto | lia].
    + change (2 <=? ndim a) with (Nat.leb 2 (ndim a)). destruct (Nat.leb_spec 2 (ndim a)); [lia|].
      destruct (shape a) as [|x ?]; apply reshape_ok in H as (E & S & _); rewrite S; unfold ndim; rewrite S; cbn; auto.
  - destruct (Nat.leb_spec 3 (ndim a)) as [L|G].
    + injection H as <-. destruct (Nat.leb_spec 3 (ndim a)); [auto | lia].
    + destruct (Nat.leb_spec 3 (ndim a)); [lia|].
      destruct (shape a) as [|x0 [|x1 ?]]; apply reshape_ok in H as (E & S & _); rewrite S; unfold ndim; rewrite S; cbn; auto.
Qed.

Lemma mapM_atleast_ranks k (l l' : list (arr T)) : k = 2 \/ k = 3 -> mapM (fun a => atleast a k) l = Ok l' ->
  length l' = length l /\ Forall (fun a => k <= ndim a) l' /\ Forall2 (fun a r => elems r = elems a) l l'.
Proof.
  intros Hk H. apply mapM_ok_Forall2 in H. induction H as [|a r l l' Ha _ IH].
  - repeat split; constructor.
  - destruct IH as (L & F & E). destruct (atleast_promoted a r k Hk Ha) as (R & El & _).
    repeat split; [cbn; lia | constructor; assumption | constructor; assumption].
Qed.

(* dstack of any inputs = dstack of the inputs raised to rank 3 *)
Theorem dstack_promote (l l3 : list (arr T)) : mapM (fun a => atleast a 3) l = Ok l3 ->
  dstack d l = dstack d l3 /\ Forall (fun a => 3 <= ndim a) l3 /\ Forall2 (fun a r => elems r = elems a) l l3.
Proof.
  intros H. destruct (mapM_atleast_ranks 3 l l3 (or_intror eq_refl) H) as (L & F & E). split; [|split; assumption].
  unfold dstack. destruct l as [|a l]; [cbn in H; injection H as <-; reflexivity|].
  destruct l3 as [|r l3]; [cbn in L; lia|]. rewrite H. rewrite (mapM_atleast_id 3 (r :: l3) (or_intror eq_refl) F). reflexivity.
Qed.

(* hstack (either form) of inputs that are not all vectors = hstack of the inputs raised to rank 2 *)
Theorem hstack_promote strict (l l2 : list (arr T)) :
  forallb (fun a : arr T => ndim a =? 1) l = false -> mapM (fun a => atleast a 2) l = Ok l2 ->
  hstack_gen d strict l = hstack_gen d strict l2 /\ Forall (fun a => 2 <= ndim a) l2 /\ Forall2 (fun a r => elems r = elems a) l l2.
Proof.
  intros NV H. destruct (mapM_atleast_ranks 2 l l2 (or_introl eq_refl) H) as (L & F & E). split; [|split; assumption].
  unfold hstack_gen. destruct l as [|a l]; [discriminate|].
  destruct l2 as [|r l2]; [cbn in L; lia|]. rewrite NV, H.
  assert (forallb (fun a : arr T => ndim a =? 1) (r :: l2) = false) as ->.
  { cbn [forallb]. apply Forall_cons_iff in F as [Fr _]. destruct (Nat.eqb_spec (ndim r) 1); [lia | reflexivity]. }
  rewrite (mapM_atleast_id 2 (r :: l2) (or_introl eq_refl) F). reflexivity.
Qed.

End Promote.

(* Linalg.v — src/linalg/operations/products.rs (vdot, inner, outer, matmul, dot up to rank two) over an exact
   scalar type (Z instance of add/mul); sums are the same left folds the code performs *)
From ArrRs Require Export Index Axis Broadcast Split Lift Reduce.

Section Products.
Context {T : Type} (zero : T) (add mul : T -> T -> T).

(* fold(0., |acc, b| acc + b) over the products *)
Definition dot_list (l1 l2 : list T) : T :=
  fold_left add (map (fun xy => mul (fst xy) (snd xy)) (combine l1 l2)) zero.

(* validators/shape.rs shapes_align: self[i] == other[j]; out-of-range indexing panics *)
Definition shapes_align (s1 : list nat) (i : nat) (s2 : list nat) (j : nat) : res unit :=
  match nth_error s1 i, nth_error s2 j with
  | Some x, Some y => guard (x =? y) EParam
  | _, _ => Panic
  end.

Definition vdot (a b : arr T) : res (arr T) :=
  let* _ := guard (len a =? len b) EEqual in
  single (dot_list (elems a) (elems b)).

(* matmul_iterate: acc starts at 0, terms added in index order *)
Definition matmul_iterate (a b : arr T) : res (arr T) :=
  match shape a, shape b with
  | [n; k], [_; p] =>
    let* f := flat_arr (flat_map (fun i => map (fun j =>
                 fold_left (fun acc t => add (mul (nth (i * k + t) (elems a) zero) (nth (t * p + j) (elems b) zero)) acc)
                           (seq 0 k) zero) (seq 0 p)) (seq 0 n)) in
    reshape f [n; p]
  | _, _ => Panic
  end.

(* the two-dimensional cases of matmul_1d_nd *)
Definition vec_mat (v m : arr T) : res (arr T) :=
  match shape m with
  | [rows; cols] =>
    flat_arr (map (fun j => fold_left add (map (fun i => mul (nth i (elems v) zero) (nth (i * cols + j) (elems m) zero)) (seq 0 rows)) zero)
                  (seq 0 cols))
  | _ => Panic
  end.

Definition mat_vec (m v : arr T) : res (arr T) :=
  match shape m with
  | [rows; cols] =>
    flat_arr (map (fun i => fold_left add (map (fun t => mul (nth (i * cols + t) (elems m) zero) (nth t (elems v) zero)) (seq 0 cols)) zero)
                  (seq 0 rows))
  | _ => Panic
  end.

(* matmul of two matrices: the repository compares rows(a) with cols(b) (pinned by its test_linalg_dot case 15) and,
   as repaired, also the inner dimensions; `strict` = with the pinned comparison *)
Definition matmul22 (strict : bool) (a b : arr T) : res (arr T) :=
  let* _ := if strict then shapes_align (shape a) 0 (shape b) 1 else Ok tt in
  let* _ := shapes_align (shape a) 1 (shape b) 0 in
  matmul_iterate a b.

(* matmul_nd for stacks: both operands cut along axis 0 into matrices (cycled to the longer count), multiplied
   pairwise with the two-dimensional matmul, re-assembled *)
Definition cycle_take_arrs (dflt : arr T) (l : list (arr T)) (n : nat) : list (arr T) :=
  match l with [] => [] | _ => map (fun i => nth (i mod length l) l dflt) (seq 0 n) end.

Definition last2 (sh : list nat) : list nat := skipn (length sh - 2) sh.

Definition matmul_split (a : arr T) (count chunk_len : nat) : res (list (arr T)) :=
  if chunk_len =? 0 then Panic else
  let* parts := split_even zero a (len a / chunk_len) (Some 0) in
  mapM (fun p => unwrap (reshape p (last2 (shape a)))) (cycle_take_arrs a parts count).

Definition matmul_nd (strict : bool) (a b : arr T) : res (arr T) :=
  let base := if ndim b <=? ndim a then shape a else shape b in
  let n := length base in
  let new_shape := upd (upd base (n - 2) (nth (ndim a - 2) (shape a) 0)) (n - 1) (nth (ndim b - 1) (shape b) 0) in
  let chunk_len := prod (last2 (shape a)) in
  if chunk_len =? 0 then Panic else
  let count := Nat.max (len a) (len b) / chunk_len in
  let* ma := matmul_split a count chunk_len in
  let* mb := matmul_split b count chunk_len in
  let* rs := mapM (fun p => matmul22 strict (fst p) (snd p)) (combine ma mb) in
  let* f := flat_arr (flat_map (@elems T) rs) in
  reshape f new_shape.

Definition matmul (strict : bool) (a b : arr T) : res (arr T) :=
  if (ndim a =? 1) && (ndim b =? 1) then vdot a b
  else if ndim a =? 1 then
    if 2 <? ndim b then Err ENotImpl      (* vector x stack: outside the property, not modelled *)
    else let* _ := shapes_align (shape a) 0 (shape b) (ndim b - 2) in vec_mat a b
  else if ndim b =? 1 then
    if 2 <? ndim a then Err ENotImpl
    else let* _ := shapes_align (shape a) (ndim a - 1) (shape b) 0 in mat_vec a b
  else if (ndim a =? 2) && (ndim b =? 2) then matmul22 strict a b
  else if (ndim a =? 0) || (ndim b =? 0) then Panic
  else matmul_nd strict a b.

(* outer: flattened operands, a_i * b_j *)
Definition outer (a b : arr T) : res (arr T) :=
  let* f := flat_arr (flat_map (fun x => map (fun y => mul x y) (elems b)) (elems a)) in
  reshape f [len a; len b].

(* inner: last axes contracted *)
Definition inner (a b : arr T) : res (arr T) :=
  if (ndim a =? 1) && (ndim b =? 1) then
    let* _ := shapes_align (shape a) 0 (shape b) 0 in single (dot_list (elems a) (elems b))
  else if (ndim a =? 0) || (ndim b =? 0) then Panic
  else
    let* _ := shapes_align (shape a) (ndim a - 1) (shape b) (ndim b - 1) in
    let la := nth (ndim a - 1) (shape a) 0 in
    if la =? 0 then Err EParam else
    let rows (x : arr T) := map (fun i => firstn la (skipn (i * la) (elems x))) (seq 0 (len x / la)) in
    let* f := flat_arr (flat_map (fun ra => map (fun rb => dot_list ra rb) (rows b)) (rows a)) in
    reshape f (removelast (shape a) ++ removelast (shape b)).

(* dot for operands up to rank two *)
Definition dot (strict : bool) (a b : arr T) : res (arr T) :=
  if (len a =? 1) || (len b =? 1) then lift2 zero mul a b
  else if (ndim a =? 1) && (ndim b =? 1) then vdot a b
  else if (ndim a =? 2) && (ndim b =? 2) then matmul strict a b
  else if (ndim a =? 1) && (ndim b =? 2) then
    (* dot_1d: the vector against every column; vdot refuses unequal lengths *)
    let cols := nth 1 (shape b) 0 in let rows := nth 0 (shape b) 0 in
    if existsb (fun _ => negb (len a =? rows)) (seq 0 cols) then Err EEqual else vec_mat a b
  else if (ndim a =? 2) && (ndim b =? 1) then
    let cols := nth 1 (shape a) 0 in let rows := nth 0 (shape a) 0 in
    if existsb (fun _ => negb (cols =? len b)) (seq 0 rows) then Err EEqual else mat_vec a b
  else Err ENotImpl.

End Products.

(* Create.v — src/numeric/operations/create.rs (zeros/ones/full/*_like, eye, identity, tri, arange, linspace over Q)
   and create_from.rs (diag, diagflat, tril, triu, vander) *)
From Coq Require Import QArith.
Local Close Scope Q_scope.
From ArrRs Require Export Index Axis.

Section Create.
Context {T : Type} (zero one : T).

Definition full (sh : list nat) (v : T) : res (arr T) := new (repeat v (prod sh)) sh.
Definition full_like (other : arr T) (v : T) : res (arr T) := full (shape other) v.

(* eye(n, m, k): k is unsigned *)
Definition eye (n m k : nat) : res (arr T) :=
  new (map (fun i => let row := i / m in let col := i mod m in
                     if (k <=? col) && (col - k =? row) then one else zero) (seq 0 (n * m))) [n; m].

Definition identity (n : nat) : res (arr T) :=
  new (map (fun i => if i mod (n + 1) =? 0 then one else zero) (seq 0 (n * n))) [n; n].

(* tri(n, m, k): k signed *)
Definition tri (n m : nat) (k : Z) : res (arr T) :=
  new (flat_map (fun i => map (fun j => if (Z.of_nat j <=? Z.of_nat i + k)%Z then one else zero) (seq 0 m)) (seq 0 n)) [n; m].

(* apply_triangular on the last two axes of every matrix of a stack (rank and emptiness guards are the repair) *)
Definition apply_triangular (a : arr T) (k : Z) (drop : Z -> Z -> Z -> bool) : res (arr T) :=
  if ndim a <? 2 then Err EUnsupDim else
  if is_empty a then Ok a else
  let cols := nth (ndim a - 1) (shape a) 0 in
  let rows := nth (ndim a - 2) (shape a) 0 in
  new (map (fun p => let idx := fst p mod (rows * cols) in
                     let i := (idx / cols) mod rows in let j := idx mod cols in
                     if drop (Z.of_nat j) (Z.of_nat i) k then zero else snd p)
           (combine (seq 0 (len a)) (elems a))) (shape a).

Definition tril (a : arr T) (k : Z) : res (arr T) := apply_triangular a k (fun j i k => (i + k <? j)%Z).
Definition triu (a : arr T) (k : Z) : res (arr T) := apply_triangular a k (fun j i k => (j <? i + k)%Z).

Definition diag_1d (a : arr T) (k : Z) : res (arr T) :=
  let size := nth 0 (shape a) 0 in
  let abs_k := Z.abs_nat k in
  let n := size + abs_k in
  new (map (fun idx => let i := idx / n in let j := idx mod n in
                       if (0 <=? k)%Z && (j =? i + abs_k) then (if i <? size then nth i (elems a) zero else zero)
                       else if (k <? 0)%Z && (i =? j + abs_k) then (if j <? size then nth j (elems a) zero else zero)
                       else zero) (seq 0 (n * n))) [n; n].

Definition diag_2d (a : arr T) (k : Z) : res (arr T) :=
  let rows := nth 0 (shape a) 0 in let cols := nth 1 (shape a) 0 in
  let start_row := if (0 <=? k)%Z then 0 else Z.abs_nat k in
  let start_col := if (0 <=? k)%Z then Z.abs_nat k else 0 in
  let cnt := Nat.min (rows - start_row) (cols - start_col) in
  flat_arr (map (fun t => nth ((start_row + t) * cols + (start_col + t)) (elems a) zero) (seq 0 cnt)).

Definition diag (a : arr T) (k : Z) : res (arr T) :=
  if ndim a =? 1 then diag_1d a k else if ndim a =? 2 then diag_2d a k else Err EUnsupDim.

Definition diagflat (a : arr T) (k : Z) : res (arr T) := let* r := ravel a in diag r k.

End Create.

(* vander over Z: x_i ^ (n-1-j), or x_i ^ j when increasing *)
Definition vander (a : arr Z) (n : option nat) (increasing : bool) : res (arr Z) :=
  if negb (ndim a =? 1) then Err EUnsupDim else
  let size := nth 0 (shape a) 0 in
  let cols := match n with Some c => c | None => size end in
  new (flat_map (fun x => map (fun i => Z.pow x (Z.of_nat (if increasing then i else cols - i - 1))) (seq 0 cols)) (elems a))
      [size; cols].

(* arange with integer operands: size = ((stop + 1 - start) / step) as usize (truncation, negatives saturate to 0) *)
Definition arange (start stop step : Z) : res (arr Z) :=
  let size := Z.to_nat (Z.quot (stop + 1 - start) step) in
  flat_arr (map (fun t => (start + Z.of_nat t * step)%Z) (seq 0 size)).

(* linspace over exact rationals: value i = i * step + start, the last forced to stop when the endpoint is included *)
Definition linspace_q (start stop : Q) (num : nat) (endpoint : bool) : list Q :=
  let denom := num - (if endpoint then 1 else 0) in
  let step := ((stop - start) / inject_Z (Z.of_nat denom))%Q in
  map (fun i => if endpoint && (i =? num - 1) then stop else (inject_Z (Z.of_nat i) * step + start)%Q) (seq 0 num).

(* Base.v — result monad with an explicit Panic value, error enumeration, list helpers.
   Model files contain definitions only; proofs live in *_proofs.v. *)
From Coq Require Export List Arith ZArith Lia Bool.
Export ListNotations.

(* The 15 variants of arr_rs::errors::ArrayError, payloads dropped. *)
Inductive err :=
| EBroadcast | EConcat | EShapeLen | EShapesMatch | ESqueeze | EAxis | EOob
| EParam | EUnsupDim | EUnique | EEqual | EAtLeast | EOneOf | ENotImpl | ESingular.

(* Ok / Err are Rust's Result; Panic is a run-time panic (index out of bounds,
   unwrap of an Err, usize underflow in a debug build, division by zero);
   Fuel marks exhaustion of an explicit fuel argument (excluded by theorems). *)
Inductive res (A : Type) : Type :=
| Ok (a : A) | Err (e : err) | Panic | Fuel.
Arguments Ok {A} a.
Arguments Err {A} e.
Arguments Panic {A}.
Arguments Fuel {A}.

Definition bind {A B} (r : res A) (f : A -> res B) : res B :=
  match r with Ok a => f a | Err e => Err e | Panic => Panic | Fuel => Fuel end.
Notation "'let*' x ':=' r 'in' k" := (bind r (fun x => k))
  (at level 200, x pattern, r at level 100, k at level 200, right associativity).

(* `x?` then unwrap(): an Err becomes a panic *)
Definition unwrap {A} (r : res A) : res A :=
  match r with Err _ => Panic | x => x end.

Definition guard (b : bool) (e : err) : res unit := if b then Ok tt else Err e.
Definition guard_panic (b : bool) : res unit := if b then Ok tt else Panic.

Fixpoint mapM {A B} (f : A -> res B) (l : list A) : res (list B) :=
  match l with
  | [] => Ok []
  | x :: xs => let* y := f x in let* ys := mapM f xs in Ok (y :: ys)
  end.

Fixpoint prod (l : list nat) : nat :=
  match l with [] => 1 | x :: xs => x * prod xs end.

(* list update / remove / insert by position (Vec index assignment, remove, insert) *)
Fixpoint upd {A} (l : list A) (i : nat) (x : A) : list A :=
  match l, i with
  | [], _ => []
  | _ :: t, 0 => x :: t
  | h :: t, S j => h :: upd t j x
  end.

Fixpoint remove_nth {A} (l : list A) (i : nat) : list A :=
  match l, i with
  | [], _ => []
  | _ :: t, 0 => t
  | h :: t, S j => h :: remove_nth t j
  end.

Fixpoint insert_nth {A} (l : list A) (i : nat) (x : A) : list A :=
  match i, l with
  | 0, _ => x :: l
  | S j, h :: t => h :: insert_nth t j x
  | S _, [] => [x]
  end.

Fixpoint chunks {A} (fuel k : nat) (l : list A) : list (list A) :=
  match fuel with
  | 0 => []
  | S f => match l with
           | [] => []
           | _ => firstn k l :: chunks f k (skipn k l)
           end
  end.

Definition list_eqb {A} (eqb : A -> A -> bool) : list A -> list A -> bool :=
  fix go l1 l2 := match l1, l2 with
  | [], [] => true
  | x :: xs, y :: ys => eqb x y && go xs ys
  | _, _ => false
  end.

Definition nat_list_eqb := list_eqb Nat.eqb.

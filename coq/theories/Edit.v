(* Edit.v — manipulate.rs delete, insert (flat form; with an axis only the entry sequence), trim_zeros;
   tiling.rs repeat *)
From ArrRs Require Export Index Axis Broadcast Split Lift Reduce Sort.

Section Edit.
Context {T : Type} (dflt : T).

(* delete: indices sorted, deduplicated, reversed; any index >= len is refused; Vec::remove from the back *)
Definition dedup_nat (l : list nat) : list nat :=
  (fix go l := match l with
               | x :: ((y :: _) as t) => if x =? y then go t else x :: go t
               | _ => l end) l.

Definition prepare_indices (indices : list nat) : list nat :=
  rev (dedup_nat (std_sort Nat.ltb indices)).

Definition delete1 (indices : list nat) (a : arr T) : res (arr T) :=
  if existsb (fun i => len a <=? i) indices then Err EOob
  else flat_arr (fold_left (fun es i => remove_nth es i) indices (elems a)).

Definition delete (a : arr T) (indices : list nat) (axis : option nat) : res (arr T) :=
  let idx := prepare_indices indices in
  match axis with
  | Some ax => apply_along_axis dflt dflt a ax (delete1 idx)
  | None => delete1 idx a
  end.

(* stable sort of (index, value) pairs by index *)
Fixpoint insert_pair (x : nat * T) (l : list (nat * T)) : list (nat * T) :=
  match l with
  | [] => [x]
  | y :: t => if fst x <? fst y then x :: l else y :: insert_pair x t
  end.
Definition sort_pairs (l : list (nat * T)) : list (nat * T) := fold_left (fun acc x => insert_pair x acc) l [].

(* manipulate.rs insert, axis = None (the bound by the flat length is the repair) *)
Definition insert_flat (a : arr T) (indices : list nat) (values : arr T) : res (arr T) :=
  if existsb (fun i => len a <? i) indices then Err EOob else
  let* _ := guard ((1 <=? ndim values) && (ndim values <=? ndim a)) EUnsupDim in
  let* _ := guard (ndim values =? 1) EUnsupDim in
  let* idx_arr := flat_arr indices in
  let* vals := ravel values in
  let* pr := broadcast_h2 0 dflt idx_arr vals in
  let pairs := combine (elems (fst pr)) (elems (snd pr)) in
  (* sorted ascending (stable), then inserted from the back: Vec::insert panics beyond the current length *)
  let* es := fold_left (fun (r : res (list T)) (p : nat * T) =>
                          let* es := r in if fst p <=? length es then Ok (insert_nth es (fst p) (snd p)) else Panic)
                       (rev (sort_pairs pairs)) (Ok (elems a)) in
  flat_arr es.

(* entry sequence of insert with an axis (outside C13's text; needed for C01/C09 only) *)
Definition insert_axis_entry (a : arr T) (indices : list nat) (axis : nat) : res unit :=
  let* _ := guard (axis <? ndim a) EAxis in
  guard (negb (existsb (fun i => nth axis (shape a) 0 <? i) indices)) EOob.

(* trim_zeros: rank 1 only; leading and trailing zeros removed *)
Fixpoint drop_while {A} (p : A -> bool) (l : list A) : list A :=
  match l with [] => [] | x :: t => if p x then drop_while p t else l end.
Definition trim_zeros (is_zero : T -> bool) (a : arr T) : res (arr T) :=
  if negb (ndim a =? 1) then Err EUnsupDim
  else flat_arr (drop_while is_zero (rev (drop_while is_zero (rev (elems a))))).

(* tiling.rs repeat *)
Definition repeat_arr (a : arr T) (repeats : list nat) (axis : option nat) : res (arr T) :=
  let* reps_arr := flat_arr repeats in
  match axis with
  | Some ax =>
    let* _ := guard (ax <? ndim a) EAxis in
    let n_ax := nth ax (shape a) 0 in
    let* reps_b := broadcast_to 0 reps_arr [n_ax] in
    let reps := elems reps_b in
    let new_shape := upd (shape a) ax (fold_left Nat.add reps 0) in
    let tmp_shape := swap_list new_shape 0 ax in
    let* slabs := split_even dflt a n_ax (Some ax) in
    let* partial := flat_arr (flat_map (fun p => concat (repeat (elems (fst p)) (snd p))) (combine slabs reps)) in
    let* r := reshape partial tmp_shape in
    let* m := moveaxis dflt r [0%Z] [Z.of_nat ax] in
    reshape m new_shape
  | None =>
    let* reps_b := broadcast_to 0 reps_arr (shape a) in
    flat_arr (flat_map (fun p => repeat (fst p) (snd p)) (combine (elems a) (elems reps_b)))
  end.

End Edit.

(* The lane theorem for apply_along_axis (C08) and the lemmas it rests on: splitting a flat array into equal
   chunks, the axis-to-last / last-to-axis transposes as coordinate maps, re-assembly of lane results. *)
From ArrRs Require Import Index Index_proofs Lists_proofs Axis Axis_proofs Reshape_proofs Prog_proofs Broadcast_proofs Split Lift Reduce Reduce_proofs.

(* ---------- coordinates: snoc, insert, remove ---------- *)
Lemma flat_snoc sh c d k : length c = length sh -> flat (sh ++ [d]) (c ++ [k]) = flat sh c * d + k.
Proof.
  revert c; induction sh as [|e sh IH]; intros [|i c] L; cbn in L; try discriminate.
  - cbn. lia.
  - injection L as L. cbn [app flat]. rewrite IH by auto. rewrite prod_app. cbn [prod]. lia.
Qed.

Lemma in_range_snoc sh c d k : in_range sh c -> k < d -> in_range (sh ++ [d]) (c ++ [k]).
Proof.
  revert c; induction sh as [|e sh IH]; intros [|i c] H Hk; cbn in *; try tauto.
  destruct H. split; auto.
Qed.

Lemma in_range_insert sh c ax d k : ax <= length sh -> in_range sh c -> k < d ->
  in_range (insert_nth sh ax d) (insert_nth c ax k).
Proof.
  revert c ax; induction sh as [|e sh IH]; intros [|i c] [|ax] L H Hk; cbn in *; try tauto; try lia.
  destruct H. split; auto. apply IH; auto. lia.
Qed.

Lemma in_range_remove sh c ax : in_range sh c -> in_range (remove_nth sh ax) (remove_nth c ax).
Proof.
  revert c ax; induction sh as [|e sh IH]; intros [|i c] [|ax] H; cbn in *; try tauto.
  destruct H. split; auto.
Qed.

Lemma insert_remove_nth {A} (l : list A) ax d : ax < length l -> insert_nth (remove_nth l ax) ax (nth ax l d) = l.
Proof.
  revert ax; induction l as [|h t IH]; intros [|ax] H; cbn in *; try lia.
  - destruct t; reflexivity.
  - f_equal. apply IH. lia.
Qed.

Lemma nth_insert_nth_eq {A} (l : list A) ax x d : ax <= length l -> nth ax (insert_nth l ax x) d = x.
Proof. apply nth_insert_nth. Qed.

Lemma remove_insert_nth' {A} (l : list A) ax x : ax <= length l -> remove_nth (insert_nth l ax x) ax = l.
Proof. apply remove_insert_nth. Qed.

Lemma insert_nth_end {A} (l : list A) x : insert_nth l (length l) x = l ++ [x].
Proof. induction l as [|h t IH]; cbn; auto. now rewrite IH. Qed.

Lemma upd_as_insert_remove {A} (l : list A) ax x : ax < length l -> upd l ax x = insert_nth (remove_nth l ax) ax x.
Proof.
  revert ax; induction l as [|h t IH]; intros [|ax] H; cbn in *; try lia.
  - destruct t; reflexivity.
  - f_equal. apply IH. lia.
Qed.

Lemma prod_remove_nth sh ax : ax < length sh -> prod sh = nth ax sh 0 * prod (remove_nth sh ax).
Proof.
  revert ax; induction sh as [|d sh IH]; intros [|ax] H; cbn in *; try lia.
  rewrite (IH ax) by lia. lia.
Qed.

Lemma pos_shape_remove sh ax : pos_shape sh -> pos_shape (remove_nth sh ax).
Proof.
  revert ax; induction sh as [|d sh IH]; intros [|ax] H; cbn; auto; inversion H; subst; auto. constructor; auto. apply IH; auto.
Qed.

Lemma pos_shape_prod sh : pos_shape sh -> 0 < prod sh.
Proof. induction 1; cbn; nia. Qed.

Lemma pos_shape_nth sh ax : pos_shape sh -> ax < length sh -> 0 < nth ax sh 0.
Proof. intros P H. unfold pos_shape in P. rewrite Forall_forall in P. apply P, nth_In, H. Qed.

(* ---------- the two axis orders used by apply_along_axis ---------- *)
Lemma pick_app p1 p2 c : pick (p1 ++ p2) c = pick p1 c ++ pick p2 c.
Proof. apply map_app. Qed.

Lemma nth_remove_nth {A} (l : list A) ax k d :
  nth k (remove_nth l ax) d = if k <? ax then nth k l d else nth (S k) l d.
Proof.
  revert ax k; induction l as [|h t IH]; intros ax k.
  - destruct (k <? ax); destruct ax, k; reflexivity.
  - destruct ax as [|ax]; cbn [remove_nth].
    + destruct k; reflexivity.
    + destruct k as [|k]; cbn [nth]; [reflexivity|]. rewrite IH.
      change (S k <? S ax) with (k <? ax). reflexivity.
Qed.

Lemma pick_remove_seq c ax : ax < length c -> pick (remove_nth (seq 0 (length c)) ax) c = remove_nth c ax.
Proof.
  intros H. apply (nth_ext _ _ 0 0).
  - rewrite pick_length, !remove_nth_length; rewrite ?seq_length; auto.
  - intros k Hk. rewrite pick_length, remove_nth_length, seq_length in Hk by (rewrite seq_length; auto).
    rewrite nth_pick by (rewrite remove_nth_length; rewrite seq_length; lia).
    rewrite !nth_remove_nth. destruct (Nat.ltb_spec k ax); rewrite seq_nth by lia; reflexivity.
Qed.

(* moving axis ax to the last position *)
Lemma rollaxis_order_to_last n ax : ax < n -> rollaxis_order n ax (n - 1) = remove_nth (seq 0 n) ax ++ [ax].
Proof.
  intros H. unfold rollaxis_order. rewrite <- insert_nth_end. f_equal.
  rewrite remove_nth_length; rewrite seq_length; auto.
Qed.

Lemma pick_to_last c ax : ax < length c ->
  pick (rollaxis_order (length c) ax (length c - 1)) c = remove_nth c ax ++ [nth ax c 0].
Proof. intros H. rewrite rollaxis_order_to_last by auto. rewrite pick_app, pick_remove_seq by auto. reflexivity. Qed.

(* moving the last axis to position ax *)
Lemma rollaxis_order_from_last n ax : 0 < n -> ax < n ->
  rollaxis_order n (n - 1) ax = insert_nth (seq 0 (n - 1)) ax (n - 1).
Proof.
  intros Hn H. unfold rollaxis_order. f_equal.
  replace n with (n - 1 + 1) at 1 by lia. rewrite seq_app. cbn [seq Nat.add].
  assert (forall (l : list nat) x, remove_nth (l ++ [x]) (length l) = l) as K.
  { induction l as [|h t IH]; intros x; cbn; auto. now rewrite IH. }
  rewrite <- (seq_length (n - 1) 0) at 3. apply K.
Qed.

Lemma pick_from_last c' ax : 0 < length c' -> ax < length c' ->
  pick (rollaxis_order (length c') (length c' - 1) ax) c' = insert_nth (removelast c') ax (last c' 0).
Proof.
  intros Hn H. rewrite rollaxis_order_from_last by auto.
  apply (nth_ext _ _ 0 0).
  - rewrite pick_length, !insert_nth_length, seq_length.
    assert (length (removelast c') = length c' - 1) as -> by (destruct c' using rev_ind; [cbn in Hn; lia | rewrite removelast_last, app_length; cbn; lia]).
    reflexivity.
  - intros k Hk. rewrite pick_length, insert_nth_length, seq_length in Hk.
    rewrite nth_pick by (rewrite insert_nth_length, seq_length; lia).
    destruct c' as [|x0 c0] using rev_ind; [cbn in Hn; lia|]. clear IHc0.
    rewrite removelast_last, last_last. rewrite app_length in *. cbn [length] in *.
    replace (length c0 + 1 - 1) with (length c0) in * by lia.
    destruct (Nat.lt_trichotomy k ax) as [L|[E|G]].
    + rewrite !nth_insert_nth_lt' by (rewrite ?seq_length; lia). rewrite seq_nth by lia. cbn [Nat.add].
      apply app_nth1. lia.
    + subst k. rewrite !nth_insert_nth by (rewrite ?seq_length; lia). rewrite app_nth2, Nat.sub_diag by lia. reflexivity.
    + rewrite !nth_insert_nth_gt by (rewrite ?seq_length; lia). rewrite seq_nth by lia. cbn [Nat.add].
      apply app_nth1. lia.
Qed.

(* ---------- a flat array: transposing is the identity, splitting evenly cuts consecutive chunks ---------- *)
Section FlatSplit.
Context {T : Type} (d : T).

Lemma transpose_1d (f : arr T) n : wf f -> shape f = [n] -> transpose d f (Some [0%Z]) = Ok f.
Proof.
  intros W S. assert (ndim f = 1) as N1 by (unfold ndim; now rewrite S).
  assert (is_perm [0] (ndim f)) as P by (rewrite N1; apply is_permb_spec; reflexivity).
  change [0%Z] with (map Z.of_nat [0]). rewrite (transpose_of_perm d f [0] P).
  destruct (transpose_perm_ok d f [0] W ltac:(lia) P) as (r & E & Wr & Sr & G & _). rewrite E. f_equal.
  apply (array_ext d); auto.
  - rewrite Sr, S. reflexivity.
  - intros c H. rewrite Sr, S in H. cbn [pick map nth] in H.
    destruct c as [|i [|? ?]]; cbn in H; try tauto. rewrite <- (G [i]); [reflexivity|]. rewrite S. cbn. tauto.
Qed.

Lemma rollaxis_1d (f : arr T) n : wf f -> shape f = [n] -> rollaxis d f 0%Z None = Ok f.
Proof.
  intros W S. unfold rollaxis. assert (ndim f = 1) as N1 by (unfold ndim; now rewrite S). rewrite N1.
  cbn [normalize_axis Z.ltb Z.compare axis_in_bounds guard bind Z.of_nat Pos.of_succ_nat Z.to_nat rollaxis_order seq remove_nth insert_nth map].
  now apply (transpose_1d f n).
Qed.

Definition chunk (es : list T) (L j : nat) : arr T := mk (firstn L (skipn (j * L) es)) [L].

Lemma split_pieces_1d (f : arr T) L k start :
  ndim f = 1 -> start * L + k * L <= length (elems f) ->
  split_pieces d f f 0 1 (start * L) (repeat L k) = Ok (map (fun j => chunk (elems f) L (start + j)) (seq 0 k)).
Proof.
  intros N1. revert start; induction k as [|k IH]; intros start H; cbn [repeat split_pieces seq map]; [reflexivity|].
  unfold split_piece at 1. rewrite !Nat.mul_1_r. rewrite flat_arr_ok. cbn [bind]. rewrite N1. cbn [Nat.eqb].
  replace (start * L + L) with (S start * L) by lia. rewrite IH by lia.
  f_equal. cbn [map]. f_equal.
  - unfold chunk. rewrite Nat.add_0_r. f_equal. f_equal. rewrite firstn_length, skipn_length. lia.
  - rewrite <- seq_shift, map_map. apply map_ext. intros j. f_equal. lia.
Qed.

(* splitting a non-empty flat array of p * L elements into p parts: the p consecutive chunks of length L *)
Theorem split_even_1d (f : arr T) p L axis :
  wf f -> shape f = [p * L] -> 0 < p -> 0 < L -> (axis = None \/ axis = Some 0) ->
  split_even d f p axis = Ok (map (chunk (elems f) L) (seq 0 p)).
Proof.
  intros W S Hp HL Hax. assert (ndim f = 1) as N1 by (unfold ndim; now rewrite S).
  assert (len f = p * L) as Len by (unfold len; rewrite W, S; cbn; lia).
  assert (axis_opt_in_bounds f axis = Ok tt) as AB by (destruct Hax as [-> | ->]; cbn; [|rewrite N1]; reflexivity).
  assert ((match axis with Some x => x | None => 0 end) = 0) as A0 by (destruct Hax as [-> | ->]; reflexivity).
  unfold split_even. rewrite AB. cbn [bind]. destruct (Nat.eqb_spec p 0); [lia|].
  assert ((p * L) mod p = 0) as M0 by (rewrite Nat.mul_comm; apply Nat.mod_mul; lia).
  assert ((p * L) / p = L) as D0 by (rewrite Nat.mul_comm; apply Nat.div_mul; lia).
  unfold is_empty. rewrite Len. destruct (Nat.eqb_spec (p * L) 0); [nia|]. rewrite A0, S. cbn [nth_error].
  rewrite M0. cbn [Nat.eqb].
  unfold array_split. destruct (Nat.eqb_spec p 0); [lia|]. rewrite AB. cbn [bind]. unfold is_empty. rewrite Len.
  destruct (Nat.eqb_spec (p * L) 0); [nia|]. rewrite A0, S. cbn [nth_error Z.of_nat].
  rewrite (rollaxis_1d f (p * L)) by auto. cbn [bind]. rewrite ?Len, Nat.div_same by nia.
  unfold section_sizes. rewrite M0, D0. cbn [repeat app]. rewrite Nat.sub_0_r.
  pose proof (split_pieces_1d f L p 0 N1) as Q. cbn [Nat.mul Nat.add] in Q. rewrite Q by (unfold len in Len; lia).
  reflexivity.
Qed.

End FlatSplit.

(* ---------- re-assembly: indexing into the concatenation of equally long pieces ---------- *)
Lemma nth_flat_map_uniform {A B} (g : A -> list B) (l : list A) m j k da db :
  (forall x, In x l -> length (g x) = m) -> j < length l -> k < m ->
  nth (j * m + k) (flat_map g l) db = nth k (g (nth j l da)) db.
Proof.
  revert j; induction l as [|x t IH]; intros j H Hj Hk; cbn in Hj; [lia|]. cbn [flat_map].
  destruct j as [|j].
  - cbn [Nat.mul Nat.add nth]. apply app_nth1. rewrite H by now left. exact Hk.
  - rewrite app_nth2 by (rewrite H by (now left); nia). rewrite H by now left.
    replace (S j * m + k - m) with (j * m + k) by lia. cbn [nth]. apply IH; [intros; apply H; now right | lia | auto].
Qed.

Lemma length_flat_map_uniform {A B} (g : A -> list B) (l : list A) m :
  (forall x, In x l -> length (g x) = m) -> length (flat_map g l) = length l * m.
Proof.
  induction l as [|x t IH]; intros H; cbn [flat_map length]; auto.
  rewrite app_length, (H x) by now left. rewrite IH; [lia|]. intros; apply H; now right.
Qed.
